import FR.Proofs.Db
/-!
# Helper lemmas about `Sig.apply`, `writebackPure` and `runRegular`
-/
namespace FR

open Db

/-- a `CommandItem` as built by `Signature.apply`: nothing to write back -/
def CI.Clean (c : CI) : Prop := c.modified = false ∧ c.expMod = false

/-- the invariant maintained by the `CommandItem` setters: the deadline is only touched together
with `modified` (the `elif self._expireat_modified` branch of `writeback` is dead) -/
def CI.ExpModSound (c : CI) : Prop := c.expMod = true → c.modified = true

theorem CI.Clean.sound {c : CI} (h : c.Clean) : c.ExpModSound := by
  intro h'; rw [h.2] at h'; cases h'

theorem CI.setValue_sound (c : CI) (v : Option Value) : (c.setValue v).ExpModSound := fun _ => rfl
theorem CI.setExpire_sound (c : CI) (e : Option Int) : (c.setExpire e).ExpModSound := fun _ => rfl
theorem CI.update_sound (c : CI) (v : Value) : (c.update v).ExpModSound := fun _ => rfl
theorem CI.updated_sound (c : CI) : c.updated.ExpModSound := fun _ => rfl

/-- given `CommandItem`s as built by `Signature.apply`, every `CommandItem` returned by the body
satisfies `ExpModSound` (true of any body that only uses the `CommandItem` setters) -/
def Body.ExpModSound (body : Body) : Prop :=
  ∀ ctx args cis o, (∀ c ∈ cis, c.Clean) → body ctx args cis = .ok o → ∀ c ∈ o.cis, c.ExpModSound

/-- the live (unexpired) entry of a key -/
def Db.live (db : Db) (k : Bytes) : Option Item := (Db.purge db).dict.lookup k

/-- `out` was obtained from `db` by lazy deletions only -/
structure Reads (db out : Db) : Prop where
  nd : NodupKeys out.dict
  eq : purge out = purge db
  sub : ∀ q ∈ out.dict, q ∈ db.dict

theorem Reads.refl {db : Db} (nd : NodupKeys db.dict) : Reads db db := ⟨nd, rfl, fun _ h => h⟩
theorem Reads.trans {a b c : Db} (h : Reads a b) (h' : Reads b c) : Reads a c :=
  ⟨h'.nd, h'.eq.trans h.eq, fun q hq => h.sub q (h'.sub q hq)⟩
theorem Reads.get {db : Db} (nd : NodupKeys db.dict) (k : Bytes) : Reads db (db.get k).1 :=
  ⟨get_nodup k nd, get_purge k nd, fun _ h => get_dict_sub h⟩
theorem Reads.get' {db db' : Db} {k : Bytes} {r : Option Item} (nd : NodupKeys db.dict)
    (h : db.get k = (db', r)) : Reads db db' := by
  have : db' = (db.get k).1 := by rw [h]
  subst this; exact Reads.get nd k

/-! ## live view -/

theorem live_eq_of_purge {a b : Db} (h : purge a = purge b) (k : Bytes) : a.live k = b.live k := by
  unfold Db.live; rw [h]

theorem live_get {db : Db} (nd : NodupKeys db.dict) (k' k : Bytes) : (db.get k').1.live k = db.live k :=
  live_eq_of_purge (get_purge k' nd) k

theorem live_pop_ne (db : Db) {k k' : Bytes} (h : k ≠ k') : (db.pop k').live k = db.live k := by
  unfold Db.live; rw [pop_purge]; exact lookup_erase_ne h

theorem lookup_filter_setRaw_ne {d : Dict} (p : Bytes × Item → Bool) {k k' : Bytes} (it : Item)
    (nd : NodupKeys d) (h : k ≠ k') :
    ((setRaw d k' it).filter p).lookup k = (d.filter p).lookup k := by
  rw [lookup_filter p k (nodup_setRaw k' it nd), lookup_filter p k nd, lookup_setRaw_ne it h]

theorem live_setRaw_ne {db : Db} (nd : NodupKeys db.dict) {k k' : Bytes} (it : Item) (h : k ≠ k') :
    Db.live { db with dict := setRaw db.dict k' it } k = db.live k := by
  unfold Db.live
  exact lookup_filter_setRaw_ne _ it nd h

theorem live_put_ne {db : Db} (nd : NodupKeys db.dict) {k k' : Bytes} (v : Value) (e : Option Int)
    (h : k ≠ k') : (db.put k' v e).live k = db.live k := by
  unfold Db.put
  simp only
  rw [live_setRaw_ne (get_nodup k' nd) _ h, live_get nd]

theorem CI.writeback_live_ne (c : CI) {db : Db} (nd : NodupKeys db.dict) {k : Bytes} (h : k ≠ c.key) :
    (c.writeback db).1.live k = db.live k := by
  unfold CI.writeback
  split
  · split
    · exact live_pop_ne db h
    · split
      · exact live_pop_ne db h
      · exact live_put_ne nd _ _ h
  · split
    · split
      · rename_i db' it heq
        have : db' = (db.get c.key).1 := by rw [heq]
        subst this
        rw [live_setRaw_ne (get_nodup _ nd) _ h, live_get nd]
      · rename_i db' heq
        have : db' = (db.get c.key).1 := by rw [heq]
        subst this
        exact live_get nd _ _
    · rfl

/-! ## `writebackPure` -/

def wbStep (st : Db × List Bytes) (ci : CI) : Db × List Bytes :=
  ((ci.writeback st.1).1, if (ci.writeback st.1).2 then st.2 ++ [ci.key] else st.2)

theorem writebackPure_eq (db : Db) (cis : List CI) : writebackPure db cis = cis.foldl wbStep (db, []) := rfl

theorem foldl_wbStep (cis : List CI) (db : Db) (ns : List Bytes) :
    cis.foldl wbStep (db, ns) = ((cis.foldl wbStep (db, [])).1, ns ++ (cis.foldl wbStep (db, [])).2) := by
  induction cis generalizing db ns with
  | nil => simp
  | cons c cs ih =>
    simp only [List.foldl_cons]
    rw [ih (wbStep (db, ns) c).1 (wbStep (db, ns) c).2, ih (wbStep (db, []) c).1 (wbStep (db, []) c).2]
    simp only [wbStep]
    split <;> simp

theorem writebackPure_nil (db : Db) : writebackPure db [] = (db, []) := rfl

theorem writebackPure_cons (db : Db) (c : CI) (cs : List CI) :
    writebackPure db (c :: cs) =
      ((writebackPure (c.writeback db).1 cs).1,
       (if c.modified then [c.key] else []) ++ (writebackPure (c.writeback db).1 cs).2) := by
  simp only [writebackPure_eq, List.foldl_cons]
  rw [foldl_wbStep cs (wbStep (db, []) c).1 (wbStep (db, []) c).2]
  simp only [wbStep, CI.writeback_flag]
  split <;> simp

theorem writebackPure_nodup (cis : List CI) {db : Db} (nd : NodupKeys db.dict) :
    NodupKeys (writebackPure db cis).1.dict := by
  induction cis generalizing db with
  | nil => exact nd
  | cons c cs ih => rw [writebackPure_cons]; exact ih (c.writeback_nodup nd)

theorem writebackPure_noEmpty (cis : List CI) {db : Db} (ne : NoEmpty db.dict) :
    NoEmpty (writebackPure db cis).1.dict := by
  induction cis generalizing db with
  | nil => exact ne
  | cons c cs ih => rw [writebackPure_cons]; exact ih (c.writeback_noEmpty ne)

theorem writebackPure_time (cis : List CI) (db : Db) : (writebackPure db cis).1.time = db.time := by
  induction cis generalizing db with
  | nil => rfl
  | cons c cs ih => rw [writebackPure_cons]; exact (ih _).trans (c.writeback_time db)

theorem writebackPure_sim (cis : List CI) {a b : Db} (h : Sim a b) :
    Sim (writebackPure a cis).1 (writebackPure b cis).1 ∧ (writebackPure a cis).2 = (writebackPure b cis).2 := by
  induction cis generalizing a b with
  | nil => exact ⟨h, rfl⟩
  | cons c cs ih =>
    rw [writebackPure_cons, writebackPure_cons]
    have := ih (c.writeback_sim h).1
    exact ⟨this.1, by simp only [this.2]⟩

theorem writebackPure_clean {cis : List CI} (hc : ∀ c ∈ cis, c.Clean) (db : Db) :
    writebackPure db cis = (db, []) := by
  induction cis generalizing db with
  | nil => rfl
  | cons c cs ih =>
    have h := hc c (by simp)
    rw [writebackPure_cons, CI.writeback_unmodified h.1 h.2, ih (fun c' hc' => hc c' (by simp [hc']))]
    simp [h.1]

/-- a key that is not notified keeps its live entry -/
theorem writebackPure_live {cis : List CI} (hs : ∀ c ∈ cis, c.ExpModSound) {db : Db}
    (nd : NodupKeys db.dict) {k : Bytes} (hk : k ∉ (writebackPure db cis).2) :
    (writebackPure db cis).1.live k = db.live k := by
  induction cis generalizing db with
  | nil => rfl
  | cons c cs ih =>
    rw [writebackPure_cons] at hk ⊢
    simp only [List.mem_append, not_or] at hk
    rw [ih (fun c' hc' => hs c' (by simp [hc'])) (c.writeback_nodup nd) hk.2]
    by_cases hm : c.modified = true
    · have : k ≠ c.key := by
        intro e; apply hk.1; simp [hm, e]
      exact c.writeback_live_ne nd this
    · have hm : c.modified = false := by simpa using hm
      have he : c.expMod = false := by
        cases h : c.expMod with
        | false => rfl
        | true => rw [hs c (by simp) h] at hm; cases hm
      rw [CI.writeback_unmodified hm he]

/-! ## `Sig.apply` -/
namespace Sig

theorem pass1_reads (l : List (Bytes × ArgTy)) {db : Db} (nd : NodupKeys db.dict) (acc : List Arg) :
    Reads db (pass1 db l acc).1 := by
  induction l generalizing db acc with
  | nil => exact Reads.refl nd
  | cons x rest ih =>
    obtain ⟨b, t⟩ := x
    cases t
    case key ty mr =>
      simp only [pass1]
      split
      · split
        · rename_i heq; exact Reads.get' nd heq
        · rename_i heq
          have r := Reads.get' nd heq
          exact r.trans (ih r.nd _)
      · exact ih nd _
    all_goals
      simp only [pass1]
      split
      · exact Reads.refl nd
      · exact ih nd _

theorem pass1_sim (l : List (Bytes × ArgTy)) {a b : Db} (h : Sim a b) (acc : List Arg) :
    (pass1 a l acc).2 = (pass1 b l acc).2 ∧ Sim (pass1 a l acc).1 (pass1 b l acc).1 := by
  induction l generalizing a b acc with
  | nil => exact ⟨rfl, h⟩
  | cons x rest ih =>
    obtain ⟨bt, t⟩ := x
    cases t
    case key ty mr =>
      simp only [pass1]
      split
      · have hg := h.get bt
        revert hg
        generalize a.get bt = ra
        generalize b.get bt = rb
        obtain ⟨a', ia⟩ := ra
        obtain ⟨b', ib⟩ := rb
        simp only
        rintro ⟨rfl, hs⟩
        cases ia with
        | none => exact ⟨rfl, hs⟩
        | some it => exact ih hs _
      · exact ih h _
    all_goals
      simp only [pass1]
      split
      · exact ⟨rfl, h⟩
      · exact ih h _

theorem pass2_reads (l : List (Arg × ArgTy)) {db : Db} (nd : NodupKeys db.dict) (accA : List Arg)
    (accC : List CI) : Reads db (pass2 db l accA accC).1 := by
  induction l generalizing db accA accC with
  | nil => exact Reads.refl nd
  | cons x rest ih =>
    obtain ⟨a, t⟩ := x
    unfold pass2
    split
    · rename_i ty mr k
      have r := Reads.get nd k
      generalize db.get k = g at r
      obtain ⟨db', item⟩ := g
      simp only at r ⊢
      split
      · split
        · exact r
        · exact r.trans (ih r.nd _ _)
      · exact r.trans (ih r.nd _ _)
      · exact r.trans (ih r.nd _ _)
      · exact r.trans (ih r.nd _ _)
    · exact ih nd _ _

theorem pass2_sim (l : List (Arg × ArgTy)) {a b : Db} (h : Sim a b) (accA : List Arg) (accC : List CI) :
    (pass2 a l accA accC).2 = (pass2 b l accA accC).2 ∧
      Sim (pass2 a l accA accC).1 (pass2 b l accA accC).1 := by
  induction l generalizing a b accA accC with
  | nil => exact ⟨rfl, h⟩
  | cons x rest ih =>
    obtain ⟨ar, t⟩ := x
    unfold pass2
    split
    · rename_i ty mr k
      have hg := h.get k
      revert hg
      generalize a.get k = ra
      generalize b.get k = rb
      obtain ⟨a', ia⟩ := ra
      obtain ⟨b', ib⟩ := rb
      simp only
      rintro ⟨rfl, hs⟩
      split
      · split
        · exact ⟨rfl, hs⟩
        · exact ih hs _ _
      · exact ih hs _ _
      · exact ih hs _ _
      · exact ih hs _ _
    · exact ih h _ _

theorem pass2_clean (l : List (Arg × ArgTy)) (db : Db) (accA : List Arg) (accC : List CI)
    (hacc : ∀ c ∈ accC, c.Clean) {args : List Arg} {cis : List CI}
    (h : (pass2 db l accA accC).2 = .ok (args, cis)) : ∀ c ∈ cis, c.Clean := by
  induction l generalizing db accA accC with
  | nil =>
    simp only [pass2, Except.ok.injEq, Prod.mk.injEq] at h
    intro c hc; rw [← h.2] at hc; exact hacc c (List.mem_reverse.1 hc)
  | cons x rest ih =>
    obtain ⟨a, t⟩ := x
    unfold pass2 at h
    have hcons : ∀ (c0 : CI), c0.Clean → ∀ c ∈ c0 :: accC, c.Clean := by
      intro c0 h0 c hc
      rcases List.mem_cons.1 hc with rfl | hc
      · exact h0
      · exact hacc c hc
    split at h
    · rename_i ty mr k
      generalize db.get k = g at h
      obtain ⟨db', item⟩ := g
      simp only at h
      split at h
      · split at h
        · cases h
        · exact ih _ _ _ (hcons _ ⟨rfl, rfl⟩) h
      · exact ih _ _ _ (hcons _ ⟨rfl, rfl⟩) h
      · exact ih _ _ _ (hcons _ ⟨rfl, rfl⟩) h
      · exact ih _ _ _ (hcons _ ⟨rfl, rfl⟩) h
    · exact ih _ _ _ hacc h

theorem apply_reads (s : Sig) (raw : List Bytes) {db : Db} (nd : NodupKeys db.dict) :
    Reads db (s.apply raw db).1 := by
  unfold apply
  split
  · exact Reads.refl nd
  · split
    · exact Reads.refl nd
    · simp only
      have r1 := pass1_reads (raw.zip (s.types raw.length)) nd []
      split
      · rename_i heq; rw [heq] at r1; exact r1
      · rename_i heq; rw [heq] at r1; exact r1
      · rename_i db1 args heq
        rw [heq] at r1
        have r2 := pass2_reads (args.zip (s.types raw.length)) r1.nd [] []
        split
        · rename_i heq2; rw [heq2] at r2; exact r1.trans r2
        · rename_i heq2; rw [heq2] at r2; exact r1.trans r2

theorem apply_sim (s : Sig) (raw : List Bytes) {a b : Db} (h : Sim a b) :
    (s.apply raw a).2 = (s.apply raw b).2 ∧ Sim (s.apply raw a).1 (s.apply raw b).1 := by
  unfold apply
  split
  · exact ⟨rfl, h⟩
  · split
    · exact ⟨rfl, h⟩
    · simp only
      have h1 := pass1_sim (raw.zip (s.types raw.length)) h []
      revert h1
      generalize pass1 a (raw.zip (s.types raw.length)) [] = ra
      generalize pass1 b (raw.zip (s.types raw.length)) [] = rb
      obtain ⟨a1, xa⟩ := ra
      obtain ⟨b1, xb⟩ := rb
      simp only
      rintro ⟨rfl, hs⟩
      cases xa with
      | error e => exact ⟨rfl, hs⟩
      | ok sm =>
        cases sm with
        | inl r => exact ⟨rfl, hs⟩
        | inr args =>
          simp only
          have h2 := pass2_sim (args.zip (s.types raw.length)) hs [] []
          revert h2
          generalize pass2 a1 (args.zip (s.types raw.length)) [] [] = ra
          generalize pass2 b1 (args.zip (s.types raw.length)) [] [] = rb
          obtain ⟨a2, ya⟩ := ra
          obtain ⟨b2, yb⟩ := rb
          simp only
          rintro ⟨rfl, hs2⟩
          cases ya with
          | error e => exact ⟨rfl, hs2⟩
          | ok pr => exact ⟨rfl, hs2⟩

theorem apply_clean (s : Sig) (raw : List Bytes) (db : Db) {args : List Arg} {cis : List CI}
    (h : (s.apply raw db).2 = .ok (.ok args cis)) : ∀ c ∈ cis, c.Clean := by
  unfold apply at h
  split at h
  · cases h
  · split at h
    · cases h
    · simp only at h
      split at h
      · cases h
      · cases h
      · rename_i db1 args1 heq
        split at h
        · cases h
        · rename_i db2 args' cis' heq2
          simp only [Except.ok.injEq, Applied.ok.injEq] at h
          obtain ⟨rfl, rfl⟩ := h
          refine pass2_clean (args1.zip (s.types raw.length)) db1 [] [] (by simp) (args := args') ?_
          rw [heq2]

end Sig

/-! ## `runRegular` -/

/-- the part of `runRegular` after `Signature.apply` -/
def runTail (body : Body) (ctx : Ctx) (gate : Option Err) (db1 : Db) (r : Except Err Sig.Applied) : RunOut :=
  match r with
  | .error e => { db := db1, reply := .err (strBytes e), failed := true }
  | .ok (.short r) => { db := db1, reply := r }
  | .ok (.ok args cis) =>
    match gate with
    | some e => { db := db1, reply := .err (strBytes e), failed := true }
    | none =>
      match body ctx args cis with
      | .error e =>
        { db := (writebackPure db1 cis).1, reply := .err (strBytes e), notified := (writebackPure db1 cis).2,
          failed := true, fault := if e.startsWith "model:" then some e else none }
      | .ok o =>
        { db := (writebackPure db1 o.cis).1, reply := o.reply, notified := (writebackPure db1 o.cis).2,
          picksUsed := o.picksUsed }

theorem runRegular_eq (sig : Sig) (body : Body) (ctx : Ctx) (gate : Option Err) (raw : List Bytes) (db : Db) :
    runRegular sig body ctx gate raw db =
      runTail body ctx gate (sig.apply raw db).1 (sig.apply raw db).2 := by
  unfold runRegular
  generalize sig.apply raw db = r
  obtain ⟨db1, x⟩ := r
  simp only
  cases x with
  | error e => rfl
  | ok ap =>
    cases ap with
    | short r => rfl
    | ok args cis =>
      simp only [runTail]
      cases gate with
      | some e => rfl
      | none =>
        simp only
        cases body ctx args cis <;> rfl

/-- `runRegular` respects the purge quotient -/
theorem runRegular_sim (sig : Sig) (body : Body) (ctx : Ctx) (gate : Option Err) (raw : List Bytes)
    {a b : Db} (h : Sim a b) :
    (runRegular sig body ctx gate raw a).reply = (runRegular sig body ctx gate raw b).reply ∧
    (runRegular sig body ctx gate raw a).notified = (runRegular sig body ctx gate raw b).notified ∧
    (runRegular sig body ctx gate raw a).failed = (runRegular sig body ctx gate raw b).failed ∧
    (runRegular sig body ctx gate raw a).picksUsed = (runRegular sig body ctx gate raw b).picksUsed ∧
    (runRegular sig body ctx gate raw a).fault = (runRegular sig body ctx gate raw b).fault ∧
    Sim (runRegular sig body ctx gate raw a).db (runRegular sig body ctx gate raw b).db := by
  rw [runRegular_eq, runRegular_eq]
  have hap := Sig.apply_sim sig raw h
  revert hap
  generalize sig.apply raw a = ra
  generalize sig.apply raw b = rb
  obtain ⟨a1, x⟩ := ra
  obtain ⟨b1, y⟩ := rb
  simp only
  rintro ⟨rfl, hs⟩
  cases x with
  | error e => exact ⟨rfl, rfl, rfl, rfl, rfl, hs⟩
  | ok ap =>
    cases ap with
    | short r => exact ⟨rfl, rfl, rfl, rfl, rfl, hs⟩
    | ok args cis =>
      cases gate with
      | some e => exact ⟨rfl, rfl, rfl, rfl, rfl, hs⟩
      | none =>
        simp only [runTail]
        cases body ctx args cis with
        | error e =>
          have hw := writebackPure_sim cis hs
          exact ⟨rfl, hw.2, rfl, rfl, rfl, hw.1⟩
        | ok o =>
          have hw := writebackPure_sim o.cis hs
          exact ⟨rfl, hw.2, rfl, rfl, rfl, hw.1⟩

/-- an error path performs lazy deletions only and notifies nobody -/
theorem runRegular_failed (sig : Sig) (body : Body) (ctx : Ctx) (gate : Option Err) (raw : List Bytes)
    {db : Db} (nd : NodupKeys db.dict) (hf : (runRegular sig body ctx gate raw db).failed = true) :
    Reads db (runRegular sig body ctx gate raw db).db ∧ (runRegular sig body ctx gate raw db).notified = [] := by
  rw [runRegular_eq] at hf ⊢
  have hr := Sig.apply_reads sig raw nd
  have hc := fun args cis => Sig.apply_clean sig raw db (args := args) (cis := cis)
  revert hr hc hf
  generalize sig.apply raw db = r
  obtain ⟨db1, x⟩ := r
  simp only
  intro hf hr hc
  cases x with
  | error e => exact ⟨hr, rfl⟩
  | ok ap =>
    cases ap with
    | short r => simp [runTail] at hf
    | ok args cis =>
      cases gate with
      | some e => exact ⟨hr, rfl⟩
      | none =>
        simp only [runTail] at hf ⊢
        cases hb : body ctx args cis with
        | error e =>
          simp only
          rw [writebackPure_clean (hc args cis rfl)]
          exact ⟨hr, rfl⟩
        | ok o => rw [hb] at hf; simp at hf

/-- `failed` is set exactly on the error paths: `apply` failed, a gate refused, or the body raised -/
theorem runRegular_failed_iff (sig : Sig) (body : Body) (ctx : Ctx) (gate : Option Err) (raw : List Bytes)
    (db : Db) :
    (runRegular sig body ctx gate raw db).failed = true ↔
      (∃ e, (sig.apply raw db).2 = .error e) ∨
      (∃ args cis, (sig.apply raw db).2 = .ok (.ok args cis) ∧
        (gate.isSome = true ∨ ∃ e, body ctx args cis = .error e)) := by
  rw [runRegular_eq]
  generalize sig.apply raw db = r
  obtain ⟨db1, x⟩ := r
  simp only
  cases x with
  | error e => simp [runTail]
  | ok ap =>
    cases ap with
    | short r => simp [runTail]
    | ok args cis =>
      cases gate with
      | some e => simp [runTail]
      | none =>
        simp only [runTail]
        cases hb : body ctx args cis with
        | error e => simp only [true_iff]; exact Or.inr ⟨args, cis, rfl, Or.inr ⟨e, hb⟩⟩
        | ok o => simp [hb]

theorem runRegular_nodup (sig : Sig) (body : Body) (ctx : Ctx) (gate : Option Err) (raw : List Bytes)
    {db : Db} (nd : NodupKeys db.dict) : NodupKeys (runRegular sig body ctx gate raw db).db.dict := by
  rw [runRegular_eq]
  have hr := (Sig.apply_reads sig raw nd).nd
  revert hr
  generalize sig.apply raw db = r
  obtain ⟨db1, x⟩ := r
  simp only
  intro hr
  cases x with
  | error e => exact hr
  | ok ap =>
    cases ap with
    | short r => exact hr
    | ok args cis =>
      cases gate with
      | some e => exact hr
      | none =>
        simp only [runTail]
        cases body ctx args cis with
        | error e => exact writebackPure_nodup _ hr
        | ok o => exact writebackPure_nodup _ hr

theorem runRegular_time (sig : Sig) (body : Body) (ctx : Ctx) (gate : Option Err) (raw : List Bytes)
    {db : Db} (nd : NodupKeys db.dict) : (runRegular sig body ctx gate raw db).db.time = db.time := by
  rw [runRegular_eq]
  have hr : (sig.apply raw db).1.time = db.time := by
    have := congrArg Db.time (Sig.apply_reads sig raw nd).eq
    simpa using this
  revert hr
  generalize sig.apply raw db = r
  obtain ⟨db1, x⟩ := r
  simp only
  intro hr
  cases x with
  | error e => exact hr
  | ok ap =>
    cases ap with
    | short r => exact hr
    | ok args cis =>
      cases gate with
      | some e => exact hr
      | none =>
        simp only [runTail]
        cases body ctx args cis with
        | error e => exact (writebackPure_time _ _).trans hr
        | ok o => exact (writebackPure_time _ _).trans hr

theorem runRegular_noEmpty (sig : Sig) (body : Body) (ctx : Ctx) (gate : Option Err) (raw : List Bytes)
    {db : Db} (nd : NodupKeys db.dict) (ne : NoEmpty db.dict) :
    NoEmpty (runRegular sig body ctx gate raw db).db.dict := by
  rw [runRegular_eq]
  have hr : NoEmpty (sig.apply raw db).1.dict :=
    fun q hq => ne q ((Sig.apply_reads sig raw nd).sub q hq)
  revert hr
  generalize sig.apply raw db = r
  obtain ⟨db1, x⟩ := r
  simp only
  intro hr
  cases x with
  | error e => exact hr
  | ok ap =>
    cases ap with
    | short r => exact hr
    | ok args cis =>
      cases gate with
      | some e => exact hr
      | none =>
        simp only [runTail]
        cases body ctx args cis with
        | error e => exact writebackPure_noEmpty _ hr
        | ok o => exact writebackPure_noEmpty _ hr

/-- a key that is not notified keeps its live entry -/
theorem runRegular_live (sig : Sig) (body : Body) (hb : body.ExpModSound) (ctx : Ctx) (gate : Option Err)
    (raw : List Bytes) {db : Db} (nd : NodupKeys db.dict) {k : Bytes}
    (hk : k ∉ (runRegular sig body ctx gate raw db).notified) :
    (runRegular sig body ctx gate raw db).db.live k = db.live k := by
  rw [runRegular_eq] at hk ⊢
  have hr := Sig.apply_reads sig raw nd
  have hc := fun args cis => Sig.apply_clean sig raw db (args := args) (cis := cis)
  revert hr hc hk
  generalize sig.apply raw db = r
  obtain ⟨db1, x⟩ := r
  simp only
  intro hk hr hc
  have h1 : db1.live k = db.live k := live_eq_of_purge hr.eq k
  cases x with
  | error e => exact h1
  | ok ap =>
    cases ap with
    | short r => exact h1
    | ok args cis =>
      cases gate with
      | some e => exact h1
      | none =>
        simp only [runTail] at hk ⊢
        cases hbd : body ctx args cis with
        | error e =>
          simp only
          rw [writebackPure_clean (hc args cis rfl)]
          exact h1
        | ok o =>
          rw [hbd] at hk
          simp only at hk ⊢
          rw [writebackPure_live (hb ctx args cis o (hc args cis rfl) hbd) hr.nd hk]
          exact h1

end FR
