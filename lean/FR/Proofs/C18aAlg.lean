import FR.Proofs.C18aRound
/-!
# C18a helper — algebraic consequences: commutativity, special values, NaN cases, exact cases, closure under `WF`
-/
namespace FR.C18a
open FR FR.C18f FR.DumpRound

/-! ### `WF` is closed under every operation -/

theorem wf_zero_signed (n : Bool) : Dbl.WF (.fin n 0 (-1074)) :=
  ⟨by decide, by decide, by decide, Or.inr rfl, fun _ => rfl⟩

theorem roundPos_wf (neg : Bool) (num den : Nat) (hd : 0 < den) : Dbl.WF (Dbl.roundPos neg num den) :=
  (wf_iff_canon _).mpr (roundPos_canon neg num den hd)

theorem add_wf (a b : Dbl) : Dbl.WF (Dbl.add a b) := (wf_iff_canon _).mpr (add_canon a b)
theorem mul_wf (a b : Dbl) : Dbl.WF (Dbl.mul a b) := (wf_iff_canon _).mpr (mul_canon a b)
theorem ofInt_wf (n : Int) : Dbl.WF (Dbl.ofInt n) := (wf_iff_canon _).mpr (ofInt_canon n)
theorem ofBits_wf (b : UInt64) : Dbl.WF (Dbl.ofBits b) := (wf_iff_canon _).mpr (canon_ofBits b)
theorem plusZero_wf (d : Dbl) : Dbl.WF d.plusZero := (wf_iff_canon _).mpr (plusZero_canon d)
theorem ofDecimal_wf (neg : Bool) (digits : Nat) (x : Int) : Dbl.WF (Dbl.ofDecimal neg digits x) :=
  (wf_iff_canon _).mpr (ofDecimal_canon neg digits x)
theorem parse_wf {b : Bytes} {d : Dbl} (h : PyFloat.parse b = some d) : Dbl.WF d :=
  (wf_iff_canon _).mpr (parse_canon h)
theorem pyMax_wf {a b : Dbl} (ha : Dbl.WF a) (hb : Dbl.WF b) : Dbl.WF (Dbl.pyMax a b) := by
  unfold Dbl.pyMax; split <;> assumption
theorem pyMin_wf {a b : Dbl} (ha : Dbl.WF a) (hb : Dbl.WF b) : Dbl.WF (Dbl.pyMin a b) := by
  unfold Dbl.pyMin; split <;> assumption

/-! ### the general form of the two main theorems -/

theorem toRat_some {d : Dbl} {x : ℚ} (h : d.toRat = some x) : ∃ n m e, d = .fin n m e ∧ x = Dbl.val (.fin n m e) := by
  cases d with
  | nan => cases h
  | inf _ => cases h
  | fin n m e => injection h with h; exact ⟨n, m, e, rfl, h.symm⟩

theorem add_eq_RN {a b : Dbl} {x y : ℚ} (ha : a.toRat = some x) (hb : b.toRat = some y) :
    Dbl.add a b = Dbl.RN (a.signBit && b.signBit) (x + y) := by
  obtain ⟨n1, m1, e1, rfl, rfl⟩ := toRat_some ha
  obtain ⟨n2, m2, e2, rfl, rfl⟩ := toRat_some hb
  exact add_fin_eq_RN _ _ _ _ _ _

theorem mul_eq_RN {a b : Dbl} {x y : ℚ} (ha : a.toRat = some x) (hb : b.toRat = some y) :
    Dbl.mul a b = Dbl.RN (a.signBit != b.signBit) (x * y) := by
  obtain ⟨n1, m1, e1, rfl, rfl⟩ := toRat_some ha
  obtain ⟨n2, m2, e2, rfl, rfl⟩ := toRat_some hb
  exact mul_fin_eq_RN _ _ _ _ _ _

/-! ### commutativity -/

theorem addFin_comm (n1 : Bool) (m1 : Nat) (e1 : Int) (n2 : Bool) (m2 : Nat) (e2 : Int) :
    Dbl.addFin n1 m1 e1 n2 m2 e2 = Dbl.addFin n2 m2 e2 n1 m1 e1 := by
  rw [addFin_eq_RN, addFin_eq_RN, Bool.and_comm, add_comm]

theorem add_comm' (a b : Dbl) : Dbl.add a b = Dbl.add b a := by
  cases a with
  | nan => cases b <;> rfl
  | inf x =>
    cases b with
    | nan => rfl
    | inf y => cases x <;> cases y <;> rfl
    | fin _ _ _ => rfl
  | fin n1 m1 e1 =>
    cases b with
    | nan => rfl
    | inf y => rfl
    | fin n2 m2 e2 => exact addFin_comm _ _ _ _ _ _

theorem mul_comm' (a b : Dbl) : Dbl.mul a b = Dbl.mul b a := by
  cases a with
  | nan => cases b <;> rfl
  | inf x =>
    cases b with
    | nan => rfl
    | inf y => cases x <;> cases y <;> rfl
    | fin n m e =>
      show (if (m == 0) = true then Dbl.nan else Dbl.inf (x != n)) = (if (m == 0) = true then Dbl.nan else Dbl.inf (n != x))
      cases x <;> cases n <;> rfl
  | fin n1 m1 e1 =>
    cases b with
    | nan => rfl
    | inf y =>
      show (if (m1 == 0) = true then Dbl.nan else Dbl.inf (n1 != y)) = (if (m1 == 0) = true then Dbl.nan else Dbl.inf (y != n1))
      cases y <;> cases n1 <;> rfl
    | fin n2 m2 e2 =>
      rw [mul_fin_eq_RN, mul_fin_eq_RN, mul_comm]
      cases n1 <;> cases n2 <;> rfl

/-! ### when is the result a NaN -/

theorem add_eq_nan_iff (a b : Dbl) :
    Dbl.add a b = .nan ↔ a = .nan ∨ b = .nan ∨ ∃ s, a = .inf s ∧ b = .inf (!s) := by
  cases a with
  | nan => cases b <;> simp [Dbl.add]
  | inf x =>
    cases b with
    | nan => simp [Dbl.add]
    | inf y => cases x <;> cases y <;> simp [Dbl.add]
    | fin _ _ _ => simp [Dbl.add]
  | fin n1 m1 e1 =>
    cases b with
    | nan => simp [Dbl.add]
    | inf y => simp [Dbl.add]
    | fin n2 m2 e2 =>
      have := RN_not_nan (n1 && n2) (Dbl.val (.fin n1 m1 e1) + Dbl.val (.fin n2 m2 e2))
      rw [add_fin_eq_RN]
      constructor
      · intro h; rw [h] at this; cases this
      · rintro (h | h | ⟨s, h, _⟩) <;> cases h

theorem mul_eq_nan_iff (a b : Dbl) :
    Dbl.mul a b = .nan ↔ a = .nan ∨ b = .nan ∨ (a.isInf = true ∧ b.isZero = true) ∨ (a.isZero = true ∧ b.isInf = true) := by
  cases a with
  | nan => cases b <;> simp [Dbl.mul]
  | inf x =>
    cases b with
    | nan => simp [Dbl.mul]
    | inf y => simp [Dbl.mul, Dbl.isInf, Dbl.isZero]
    | fin n m e =>
      cases m with
      | zero => simp [Dbl.mul, Dbl.isInf, Dbl.isZero]
      | succ k => simp [Dbl.mul, Dbl.isInf, Dbl.isZero]
  | fin n1 m1 e1 =>
    cases b with
    | nan => simp [Dbl.mul]
    | inf y =>
      cases m1 with
      | zero => simp [Dbl.mul, Dbl.isInf, Dbl.isZero]
      | succ k => simp [Dbl.mul, Dbl.isInf, Dbl.isZero]
    | fin n2 m2 e2 =>
      have := RN_not_nan (n1 != n2) (Dbl.val (.fin n1 m1 e1) * Dbl.val (.fin n2 m2 e2))
      rw [mul_fin_eq_RN]
      constructor
      · intro h; rw [h] at this; cases this
      · rintro (h | h | ⟨h, _⟩ | ⟨_, h⟩) <;> cases h

end FR.C18a
