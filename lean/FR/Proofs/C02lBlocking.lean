import FR.Proofs.C02lLists
/-!
# The non-blocking outcome of BLPOP / BRPOP / BRPOPLPUSH on the key space — helper lemmas for `FR.Props.C02l`

`bpopPass` / `brpoplpushPass` (FR/Sys/Server.lean) are functions of the whole system state; here their first
pass is evaluated on the live key space of the connection's database.
-/
namespace FR.ListKeys
open FR FR.M FR.StrKeys FR.Spec FR.Proofs
open FR.HashSet (sigOf)
set_option linter.unusedSimpArgs false
set_option linter.unusedVariables false

/-- what the passes need of the system: database `d` exists, has unique keys and stores no empty collection -/
structure SysOK (s : Sys) (d : Nat) : Prop where
  hd : d < s.srv.dbs.length
  nd : NodupKeys (s.dbAt d).dict
  ne : NoEmpty (s.dbAt d).dict

theorem SysOK.liveOK {s : Sys} {d : Nat} (h : SysOK s d) : LiveOK s.srv.time (s.dbAt d).live :=
  StrKeys.liveOK (db := s.dbAt d) h.ne

/-- what the rest of the system sees of a pass: nothing but database `d` moves -/
structure Frame (s s' : Sys) (d : Nat) : Prop where
  ok : SysOK s' d
  time : s'.srv.time = s.srv.time
  other : ∀ j, j ≠ d → s'.dbAt j = s.dbAt j

theorem Frame.trans {s s1 s2 : Sys} {d : Nat} (h1 : Frame s s1 d) (h2 : Frame s1 s2 d) : Frame s s2 d :=
  ⟨h2.ok, h2.time.trans h1.time, fun j hj => (h2.other j hj).trans (h1.other j hj)⟩

/-- a lazy look-up of `key` -/
theorem frame_get {s : Sys} {d : Nat} (h : SysOK s d) (key : Bytes) :
    Frame s (s.setDbS d ((s.dbAt d).get key).1) d ∧
    ((s.setDbS d ((s.dbAt d).get key).1).dbAt d).live = (s.dbAt d).live ∧
    ((s.dbAt d).get key).2 = (s.dbAt d).live key := by
  have hdb : (s.setDbS d ((s.dbAt d).get key).1).dbAt d = ((s.dbAt d).get key).1 :=
    Sys.setDbS_dbAt_self s d _ h.hd (Db.get_time _ _)
  have hr := Reads.get h.nd key
  refine ⟨⟨⟨by simpa using h.hd, by rw [hdb]; exact hr.nd, ?_⟩, rfl, fun j hj => Sys.setDbS_dbAt_ne s d j _ hj⟩,
    ?_, Db.get_result key h.nd⟩
  · rw [hdb]; exact fun q hq => h.ne q (hr.sub q hq)
  · rw [hdb]; funext k; exact live_get h.nd key k

/-- the write-back of one modified list item -/
theorem frame_wbStep {s : Sys} {d : Nat} (h : SysOK s d) (k : Bytes) (l : List Bytes) (e : Option Int)
    (he : expiredAt s.srv.time e = false) :
    Frame s (s.wbStep d ⟨k, some (.list l), e, true, false⟩) d ∧
    ((s.wbStep d ⟨k, some (.list l), e, true, false⟩).dbAt d).live = putList (s.dbAt d).live k l e := by
  have hs' : s.wbStep d ⟨k, some (.list l), e, true, false⟩ =
      (s.setDbS d ((⟨k, some (.list l), e, true, false⟩ : CI).writeback (s.dbAt d)).1).mapConns (notifyFn d k) := by
    unfold Sys.wbStep
    simp only [if_true]
  have hdb : (s.wbStep d ⟨k, some (.list l), e, true, false⟩).dbAt d =
      ((⟨k, some (.list l), e, true, false⟩ : CI).writeback (s.dbAt d)).1 := by
    rw [hs', Sys.mapConns_dbAt]
    exact Sys.setDbS_dbAt_self s d _ h.hd (CI.writeback_time _ _)
  refine ⟨⟨⟨?_, ?_, ?_⟩, ?_, ?_⟩, ?_⟩
  · rw [hs']; simpa using h.hd
  · rw [hdb]; exact CI.writeback_nodup _ h.nd
  · rw [hdb]; exact CI.writeback_noEmpty _ h.ne
  · rw [hs']; rfl
  · intro j hj
    rw [hs', Sys.mapConns_dbAt]
    exact Sys.setDbS_dbAt_ne s d j _ hj
  · rw [hdb, writeback_liveL _ (fun hx => by cases hx) h.nd]
    have := fin_write (s.dbAt d).time (s.dbAt d).live .nil k l e false he
    simp only [ret, fin_ok, List.foldl_cons, List.foldl_nil, Prod.mk.injEq, true_and] at this
    exact this

/-- the reply of a pass as the client sees it: `none` = not served (the command would block) -/
def passReply (r : Except Err (Option Reply)) : Option Reply :=
  match r with
  | .error e => some (errR e)
  | .ok o => o

/-! ## BLPOP / BRPOP -/

/-- the first pass of BLPOP / BRPOP on the key space: the keys are tried in argument order; a missing key is skipped, a
key of another type is an error, the first key holding a list is popped and the reply is `[key, element]`;
`none` when no key can serve -/
def bpopL (left : Bool) (live : Live) : List Bytes → Option Reply × Live
  | [] => (none, live)
  | k :: rest =>
    match listView live k with
    | none => (some wrongtype, live)
    | some (l, e) =>
      if l = [] then bpopL left live rest
      else
        (some (.arr [.bulk k, Reply.ofOptBulk (if left then l.head? else l.getLast?)]),
          putList live k (if left then l.tail else l.dropLast) e)

theorem bpop_refines (d : Nat) (left : Bool) (keys : List Bytes) (s : Sys) (h : SysOK s d) :
    (passReply (bpopPass d left true keys s).1, ((bpopPass d left true keys s).2.dbAt d).live) =
      bpopL left (s.dbAt d).live keys ∧
    Frame s (bpopPass d left true keys s).2 d := by
  induction keys generalizing s with
  | nil => exact ⟨rfl, ⟨h, rfl, fun _ _ => rfl⟩⟩
  | cons key rest ih =>
    obtain ⟨hf, hlive, hres⟩ := frame_get h key
    cases hg : ((s.dbAt d).get key).2 with
    | none =>
      rw [bpopPass_cons_none _ _ _ _ _ _ hg]
      have hl : (s.dbAt d).live key = none := by rw [← hres]; exact hg
      obtain ⟨i1, i2⟩ := ih _ hf.ok
      refine ⟨?_, hf.trans i2⟩
      rw [i1, hlive]
      simp only [bpopL, listView_missing hl, if_true]
    | some it =>
      have hl : (s.dbAt d).live key = some it := by rw [← hres]; exact hg
      obtain ⟨v, e⟩ := it
      cases v with
      | list l =>
        rw [bpopPass_cons_list _ _ _ _ _ _ hg rfl]
        have hne : l ≠ [] := by
          intro hl'; subst hl'
          have := h.liveOK.nonempty key _ hl
          simp [Value.isEmptyColl] at this
        have hfresh : expiredAt s.srv.time e = false := h.liveOK.fresh key _ hl
        have hci : bpopCI left key ⟨.list l, e⟩ l =
            ⟨key, some (.list (if left then Cmd.popLeftN l 1 else Cmd.popRightN l 1).2), e, true, false⟩ := rfl
        rw [hci]
        obtain ⟨w1, w2⟩ := frame_wbStep hf.ok key (if left then Cmd.popLeftN l 1 else Cmd.popRightN l 1).2 e
          (by rw [hf.time]; exact hfresh)
        refine ⟨?_, hf.trans w1⟩
        simp only [passReply]
        rw [w2, hlive]
        simp only [bpopL, listView_list hl, if_neg hne, bpopReply]
        cases left
        · simp [(popRight_one l).1, (popRight_one l).2]
        · simp [Cmd.popLeftN, head_take_one]
      | _ =>
        rw [bpopPass_cons_other _ _ _ _ _ _ hg (fun l hv => by cases hv)]
        simp only [if_true]
        refine ⟨?_, hf⟩
        simp [passReply, hlive, bpopL, listView, hl, wrongtype, errR]

/-- SERVED FROM THE FIRST NON-EMPTY KEY, AS BY LPOP / RPOP: if the keys before `k` are missing and `k` holds a non-empty
list, the outcome is `[k, x]` with `x` and the key space those of `LPOP k` / `RPOP k` -/
theorem bpopL_first (left : Bool) (live : Live) (pre : List Bytes) (k : Bytes) (post : List Bytes)
    (l : List Bytes) (e : Option Int) (hpre : ∀ k' ∈ pre, live k' = none) (hv : listView live k = some (l, e))
    (hl : l ≠ []) :
    bpopL left live (pre ++ k :: post) =
      (some (.arr [.bulk k, (popOn left live k none).1]), (popOn left live k none).2) := by
  induction pre with
  | nil => simp [bpopL, popOn, onList, hv, hl]
  | cons p pre ih =>
    have hp : live p = none := hpre p (by simp)
    simp only [List.cons_append, bpopL, listView_missing hp, if_true]
    exact ih (fun k' hk' => hpre k' (by simp [hk']))

/-- NOT SERVED: no key holds a list — the command would block, nothing changes -/
theorem bpopL_none (left : Bool) (live : Live) (keys : List Bytes) (h : ∀ k ∈ keys, live k = none) :
    bpopL left live keys = (none, live) := by
  induction keys with
  | nil => rfl
  | cons k rest ih =>
    simp only [bpopL, listView_missing (h k (by simp)), if_true]
    exact ih (fun k' hk' => h k' (by simp [hk']))

/-! ## BRPOPLPUSH -/

/-- the first pass of BRPOPLPUSH on the key space: `none` (would block) when the source is missing; otherwise what
RPOPLPUSH does -/
def brpoplpushL (live : Live) (src dst : Bytes) : Option Reply × Live :=
  match listView live src with
  | none => (some wrongtype, live)
  | some (sl, es) =>
    if sl = [] then (none, live)
    else
      match listView live dst with
      | none => (some wrongtype, live)
      | some (dl, ed) =>
        (some (moveOn false true live src dst sl es dl ed).1, (moveOn false true live src dst sl es dl ed).2)

theorem writebackAll_two (d : Nat) (c1 c2 : CI) (s : Sys) :
    writebackAll d [c1, c2] s = ((), (s.wbStep d c1).wbStep d c2) := by
  rw [writebackAll_cons, writebackAll_cons, writebackAll_nil]

theorem brpoplpush_refines (d : Nat) (src dst : Bytes) (s : Sys) (h : SysOK s d) :
    (passReply (brpoplpushPass d src dst true s).1, ((brpoplpushPass d src dst true s).2.dbAt d).live) =
      brpoplpushL (s.dbAt d).live src dst ∧
    Frame s (brpoplpushPass d src dst true s).2 d := by
  unfold brpoplpushPass
  simp only [bind, StateT.bind, getDb_run', setDb_run']
  obtain ⟨hf1, hlive1, hres1⟩ := frame_get h src
  revert hf1 hlive1 hres1
  generalize (s.dbAt d).get src = g
  obtain ⟨db1, sitem⟩ := g
  simp only
  intro hf1 hlive1 hres1
  cases sitem with
  | none =>
    refine ⟨?_, hf1⟩
    show (none, ((s.setDbS d db1).dbAt d).live) = _
    rw [hlive1]
    simp [brpoplpushL, listView_missing hres1.symm]
  | some sit =>
    obtain ⟨sv, se⟩ := sit
    have hls : (s.dbAt d).live src = some ⟨sv, se⟩ := hres1.symm
    cases sv with
    | list sl =>
      have hsl : sl ≠ [] := by
        intro hl'; subst hl'
        have := h.liveOK.nonempty src _ hls
        simp [Value.isEmptyColl] at this
      have hse : expiredAt s.srv.time se = false := h.liveOK.fresh src _ hls
      simp only [bind, StateT.bind, getDb_run', setDb_run']
      obtain ⟨hf2, hlive2, hres2⟩ := frame_get hf1.ok dst
      revert hf2 hlive2 hres2
      generalize ((s.setDbS d db1).dbAt d).get dst = g2
      obtain ⟨db2, ditem⟩ := g2
      simp only
      intro hf2 hlive2 hres2
      rw [hlive1] at hres2 hlive2
      have hF := hf1.trans hf2
      have hlast : (Cmd.popRightN sl 1).1.head? = sl.getLast? := (popRight_one sl).1
      have hrem : (Cmd.popRightN sl 1).2 = sl.dropLast := (popRight_one sl).2
      obtain ⟨el, hel⟩ : ∃ el, sl.getLast? = some el := by
        cases hx : sl.getLast? with
        | none => exact absurd (List.getLast?_eq_none_iff.1 hx) hsl
        | some el => exact ⟨el, rfl⟩
      simp only [hlast, hrem, hel]
      -- the rest of the pass for a destination list `dl` with deadline `ded`
      have served : ∀ (dl : List Bytes) (ded : Option Int), listView (s.dbAt d).live dst = some (dl, ded) →
          expiredAt s.srv.time ded = false → ∀ sF : Sys,
          sF = (if src = dst then
              ((s.setDbS d db1).setDbS d db2).wbStep d ⟨src, some (.list (el :: sl.dropLast)), se, true, false⟩
            else (((s.setDbS d db1).setDbS d db2).wbStep d ⟨src, some (.list sl.dropLast), se, true, false⟩).wbStep d
              ⟨dst, some (.list (el :: dl)), ded, true, false⟩) →
          (some (Reply.bulk el), (sF.dbAt d).live) = brpoplpushL (s.dbAt d).live src dst ∧ Frame s sF d := by
        intro dl ded hvd hded sF hsF
        have hspec : brpoplpushL (s.dbAt d).live src dst =
            (some (moveOn false true (s.dbAt d).live src dst sl se dl ded).1,
              (moveOn false true (s.dbAt d).live src dst sl se dl ded).2) := by
          simp only [brpoplpushL, listView_list hls, if_neg hsl, hvd]
        rw [hspec, hsF]
        have ht2 : ((s.setDbS d db1).setDbS d db2).srv.time = s.srv.time := hF.time
        by_cases hsd : src = dst
        · subst hsd
          simp only [if_true]
          obtain ⟨w1, w2⟩ := frame_wbStep hF.ok src (el :: sl.dropLast) se (by rw [ht2]; exact hse)
          refine ⟨?_, hF.trans w1⟩
          rw [w2, hlive2]
          simp [moveOn, hel]
        · simp only [if_neg hsd]
          obtain ⟨w1, w2⟩ := frame_wbStep hF.ok src sl.dropLast se (by rw [ht2]; exact hse)
          obtain ⟨v1, v2⟩ := frame_wbStep (hF.trans w1).ok dst (el :: dl) ded (by
            rw [w1.time, ht2]; exact hded)
          refine ⟨?_, (hF.trans w1).trans v1⟩
          rw [v2, w2, hlive2]
          simp [moveOn, hel, hsd]
      cases ditem with
      | none =>
        have hld : (s.dbAt d).live dst = none := hres2.symm
        simp only
        by_cases hsd : src = dst
        · have hb : (src == dst) = true := by simpa using hsd
          simp only [hb, if_true, StateT.bind, writebackAll_single, pure, StateT.pure, passReply]
          exact served [] none (listView_missing hld) rfl _ (by rw [if_pos hsd]; rfl)
        · have hb : (src == dst) = false := by simpa using hsd
          simp only [hb, Bool.false_eq_true, if_false, StateT.bind, writebackAll_two, pure, StateT.pure, passReply]
          exact served [] none (listView_missing hld) rfl _ (by rw [if_neg hsd]; rfl)
      | some dit =>
        obtain ⟨dv, de⟩ := dit
        have hld : (s.dbAt d).live dst = some ⟨dv, de⟩ := hres2.symm
        cases dv with
        | list dl =>
          simp only
          by_cases hsd : src = dst
          · have hb : (src == dst) = true := by simpa using hsd
            simp only [hb, if_true, StateT.bind, writebackAll_single, pure, StateT.pure, passReply]
            exact served dl de (listView_list hld) (h.liveOK.fresh dst _ hld) _ (by rw [if_pos hsd]; rfl)
          · have hb : (src == dst) = false := by simpa using hsd
            simp only [hb, Bool.false_eq_true, if_false, StateT.bind, writebackAll_two, pure, StateT.pure, passReply]
            exact served dl de (listView_list hld) (h.liveOK.fresh dst _ hld) _ (by rw [if_neg hsd]; rfl)
        | _ =>
          refine ⟨?_, hF⟩
          show (some (errR Msgs.WRONGTYPE_MSG), (((s.setDbS d db1).setDbS d db2).dbAt d).live) = _
          rw [hlive2]
          have hvd : listView (s.dbAt d).live dst = none := by simp [listView, hld]
          simp only [brpoplpushL, listView_list hls, if_neg hsl, hvd]
          rfl
    | _ =>
      refine ⟨?_, hf1⟩
      show (some (errR Msgs.WRONGTYPE_MSG), ((s.setDbS d db1).dbAt d).live) = _
      rw [hlive1]
      have hvs : listView (s.dbAt d).live src = none := by simp [listView, hls]
      simp only [brpoplpushL, hvs]
      rfl

/-- SERVED AS BY RPOPLPUSH: when the source is live the first pass of BRPOPLPUSH is exactly RPOPLPUSH -/
theorem brpoplpushL_served (live : Live) (src dst : Bytes) (h : (live src).isSome = true)
    {time : Int} (ok : LiveOK time live) :
    brpoplpushL live src dst = (some (rpoplpushCmd live [src, dst]).1, (rpoplpushCmd live [src, dst]).2) := by
  cases hs : live src with
  | none => rw [hs] at h; cases h
  | some it =>
    simp only [brpoplpushL, rpoplpushCmd, moveL, hs]
    cases hv : listView live src with
    | none => rfl
    | some p =>
      obtain ⟨sl, es⟩ := p
      have hsl : sl ≠ [] := listView_ne_nil ok hv h
      simp only [if_neg hsl]
      cases listView live dst with
      | none => rfl
      | some q => rfl

/-- NOT SERVED: the source is missing — the command would block, nothing changes (whatever the destination holds) -/
theorem brpoplpushL_none (live : Live) (src dst : Bytes) (h : live src = none) :
    brpoplpushL live src dst = (none, live) := by
  simp [brpoplpushL, listView_missing h]

/-! ## a list command through `_run_command` of the system -/

/-- connection `c` is an ordinary client of database `d`: it has selected `d` and is not in subscriber mode -/
structure Client (s : Sys) (c d : Nat) : Prop where
  db : (s.conn c).db = d
  unsub : (s.conn c).pubsub = 0

theorem notifyFn_client (d' : Nat) (key : Bytes) (x : Conn) (d : Nat) (h : x.db = d ∧ x.pubsub = 0) :
    (notifyFn d' key x).db = d ∧ (notifyFn d' key x).pubsub = 0 := by
  rw [notifyFn_eq]; exact h

theorem listCmd_regular (name : String) (hname : name ∈ listCmds) :
    (sigOf name).name ∉ scriptNames ∧ Cmd.regular (sigOf name).name = some (bodyOf name) := by
  simp only [listCmds, List.mem_cons, List.mem_nil_iff, or_false] at hname
  rcases hname with rfl | rfl | rfl | rfl | rfl | rfl | rfl | rfl | rfl | rfl | rfl | rfl | rfl | rfl | rfl <;>
    exact ⟨by decide, rfl⟩

theorem afterRegular_time (s : Sys) (d : Nat) (o : RunOut) : (s.afterRegular d o).srv.time = s.srv.time := by
  unfold Sys.afterRegular
  rw [forM_notifyWatch_frame (fun s => s.srv.time) (fun _ _ => rfl), Sys.faultS_srv]

theorem afterRegular_version (s : Sys) (d : Nat) (o : RunOut) :
    (s.afterRegular d o).srv.version = s.srv.version := by
  unfold Sys.afterRegular
  rw [forM_notifyWatch_frame (fun s => s.srv.version) (fun _ _ => rfl), Sys.faultS_srv]

/-- A LIST COMMAND THROUGH THE SYSTEM.  `runCommand` (= `_run_command`) of a list command issued by an ordinary client of
database `d`: the reply and the key space of `d` afterwards are `listCmd`; nothing else of the databases moves. -/
theorem runCommand_list (mode : Mode) (c d : Nat) (name : String) (hname : name ∈ listCmds) (raw : List Bytes)
    (s : Sys) (hc : Client s c d) (h : SysOK s d) :
    ((runCommand mode c (sigOf name) raw false s).1,
      ((runCommand mode c (sigOf name) raw false s).2.dbAt d).live) =
      (some (listCmd s.srv.version name raw (s.dbAt d).live).1,
        (listCmd s.srv.version name raw (s.dbAt d).live).2) ∧
    Frame s (runCommand mode c (sigOf name) raw false s).2 d ∧
    Client (runCommand mode c (sigOf name) raw false s).2 c d ∧
    (runCommand mode c (sigOf name) raw false s).2.srv.version = s.srv.version := by
  obtain ⟨hns, hreg⟩ := listCmd_regular name hname
  have hrun : runCommand mode c (sigOf name) raw false s =
      runWith (special (runInner mode c)) mode c (sigOf name) raw false s := by
    have : scriptNames.contains (sigOf name).name = false := by simpa using hns
    unfold runCommand
    simp only [this, Bool.false_eq_true, if_false]
  have hr : s.refuses c (sigOf name) = false := Sys.refuses_of_unsubscribed _ hc.unsub
  rw [hrun, runWith_regular_run _ mode c (sigOf name) raw false hreg s hr]
  -- the pure runner's outcome
  obtain ⟨ctx, hv, ho⟩ : ∃ ctx : Ctx, ctx.version = s.srv.version ∧
      s.regularOut c (sigOf name) (bodyOf name) raw false =
        runRegular (sigOf name) (bodyOf name) ctx none raw (s.dbAt d) := by
    refine ⟨{ version := s.srv.version, time := s.srv.time, dbnum := (s.conn c).db, inTx := (s.conn c).inTx,
              picks := s.picks }, rfl, ?_⟩
    unfold Sys.regularOut
    rw [runGate_of_not_refused false hr, hc.db]
    rfl
  rw [hc.db, ho]
  have href := run_refines name hname ctx raw (s.dbAt d) h.nd h.ne
  have hnd := runRegular_nodup (sigOf name) (bodyOf name) ctx none raw h.nd
  have hne := runRegular_noEmpty (sigOf name) (bodyOf name) ctx none raw h.nd h.ne
  have htm := runRegular_time (sigOf name) (bodyOf name) ctx none raw h.nd
  generalize runRegular (sigOf name) (bodyOf name) ctx none raw (s.dbAt d) = o at href hnd hne htm
  have hdb : (s.afterRegular d o).dbAt d = o.db := by
    unfold Sys.dbAt
    rw [Sys.afterRegular_dbs, afterRegular_time, getD_set_self _ _ _ _ h.hd]
    have : o.db.time = s.srv.time := htm
    rw [← this]
  rw [hv] at href
  refine ⟨?_, ⟨⟨?_, ?_, ?_⟩, afterRegular_time s d o, ?_⟩, ?_, afterRegular_version s d o⟩
  · rw [hdb]
    show (some o.reply, o.db.live) = _
    rw [← congrArg Prod.fst href, ← congrArg Prod.snd href]
  · rw [Sys.afterRegular_dbs]; simpa using h.hd
  · rw [hdb]; exact hnd
  · rw [hdb]; exact hne
  · intro j hj
    unfold Sys.dbAt
    rw [Sys.afterRegular_dbs, afterRegular_time, getD_set_ne _ _ _ _ _ hj]
  · have := Sys.afterRegular_pred s d o c (fun x => x.db = d ∧ x.pubsub = 0)
      (fun d' key x hx => notifyFn_client d' key x d hx) ⟨hc.db, hc.unsub⟩
    exact ⟨this.1, this.2⟩

/-- the passes leave the client an ordinary client and the version alone -/
theorem bpop_client (d' : Nat) (left first : Bool) (keys : List Bytes) (s : Sys) (c d : Nat) (hc : Client s c d) :
    Client (bpopPass d' left first keys s).2 c d ∧ (bpopPass d' left first keys s).2.srv.version = s.srv.version := by
  refine ⟨⟨?_, ?_⟩, ?_⟩
  · rw [bpopPass_conn_proj Conn.db notifyFn_db]; exact hc.db
  · rw [bpopPass_conn_proj Conn.pubsub (fun d k x => by rw [notifyFn_eq])]; exact hc.unsub
  · exact bpopPass_frame (fun s' => s'.srv.version = s.srv.version) (fun _ _ _ h => h) (fun _ _ _ h => h) _ _ _ _ s rfl

theorem brpoplpush_client (d' : Nat) (src dst : Bytes) (first : Bool) (s : Sys) (c d : Nat) (hc : Client s c d) :
    Client (brpoplpushPass d' src dst first s).2 c d ∧
    (brpoplpushPass d' src dst first s).2.srv.version = s.srv.version := by
  refine ⟨⟨?_, ?_⟩, ?_⟩
  · rw [brpoplpushPass_conn_proj Conn.db notifyFn_db]; exact hc.db
  · rw [brpoplpushPass_conn_proj Conn.pubsub (fun d k x => by rw [notifyFn_eq])]; exact hc.unsub
  · exact brpoplpushPass_frame (fun s' => s'.srv.version = s.srv.version) (fun _ _ _ h => h) (fun _ _ _ h => h)
      _ _ _ _ s rfl

end FR.ListKeys
