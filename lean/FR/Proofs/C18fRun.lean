import FR.Props.C01k
import FR.Props.C02h
import FR.Proofs.DumpRound
/-!
# C18f through the runner — what INCRBYFLOAT / HINCRBYFLOAT store and what ZADD-then-ZSCORE answers

All theorems are about the REAL runner (`runRegular` / `HashSet.run`, registered signature and body), for every
database satisfying the standing invariants, every byte string and both emulated versions (`ctx.version` is a
variable).

* `incrbyfloat_outcome`, `hincrbyfloat_outcome`: either an error reply and nothing changes, or the reply and the
  stored string are `Cmd.encodeFloat ctx.version s true` of a FINITE canonical double `s = cur + a` (never NaN, never
  an infinity).
* `zscore_run`, `zadd_run'`: ZSCORE / ZADD through the runner on a key that is missing or holds a sorted set.
* `zadd_zscore_exact`, `zadd_zscore`, `zadd_zscore_nonzero`, `zadd_zscore_zero`: ZADD k score member then
  ZSCORE k member answers the formatted score that was sent (after the version-7 normalisation `zaddScore`), except
  that an IEEE-equal old score keeps its OLD representation — which only matters for the sign of a zero.
-/
namespace FR.C18f
open FR FR.StrKeys FR.DumpRound
set_option linter.unusedVariables false

/-! ## 1. INCRBYFLOAT -/

/-- the decision of `incrFloatOn`: an error and no change, or a finite canonical sum stored -/
theorem incrFloatOn_outcome (version : Nat) (live : Bytes → Option Item) (k stored : Bytes) (e : Option Int)
    (amount : Bytes) :
    (∃ msg, (incrFloatOn version live k stored e amount).1 = .err msg ∧
      (incrFloatOn version live k stored e amount).2 = live) ∨
    (∃ cur a : Dbl, Conv.float stored = .ok cur ∧ Conv.float amount = .ok a ∧
      (Dbl.add cur a).isFinite = true ∧ Canon (Dbl.add cur a) ∧
      (incrFloatOn version live k stored e amount).1 = .bulk (Cmd.encodeFloat version (Dbl.add cur a) true) ∧
      (incrFloatOn version live k stored e amount).2 =
        upd live k (some ⟨.str (Cmd.encodeFloat version (Dbl.add cur a) true), e⟩)) := by
  unfold incrFloatOn
  cases hc : Conv.float stored with
  | error m => exact Or.inl ⟨_, rfl, rfl⟩
  | ok cur =>
    cases ha : Conv.float amount with
    | error m => exact Or.inl ⟨_, rfl, rfl⟩
    | ok a =>
      by_cases hf : (Dbl.add cur a).isFinite = true
      · refine Or.inr ⟨cur, a, rfl, rfl, hf, add_canon _ _, ?_, ?_⟩ <;> simp only [hf, if_true]
      · refine Or.inl ⟨strBytes Msgs.NONFINITE_MSG, ?_, ?_⟩ <;> simp only [hf] <;> rfl

/-- INCRBYFLOAT through the runner.  EITHER an error is answered and the key space is unchanged, OR the reply and
the string stored at `k` are the human-friendly encoding of the FINITE canonical double `s = cur + a`, where `cur` is
the decoded stored string (`"0"` for a missing key) and `a` the decoded increment; the deadline is kept and no
other key changes.  In particular NaN and ±inf are never stored. -/
theorem incrbyfloat_outcome (ctx : Ctx) (db : Db) (nd : NodupKeys db.dict) (ne : NoEmpty db.dict)
    (k amount : Bytes) :
    let out := runRegular sigIncrbyfloat Cmd.incrbyfloat ctx none [k, amount] db
    (∃ msg, out.reply = .err msg ∧ out.db.live = db.live) ∨
    (∃ (s : Dbl) (e : Option Int) (stored : Bytes) (cur a : Dbl),
      ((db.live k = none ∧ stored = strBytes "0" ∧ e = none) ∨ db.live k = some ⟨.str stored, e⟩) ∧
      Conv.float stored = .ok cur ∧ Conv.float amount = .ok a ∧ s = Dbl.add cur a ∧
      s.isFinite = true ∧ Canon s ∧
      out.reply = .bulk (Cmd.encodeFloat ctx.version s true) ∧
      out.db.live = upd db.live k (some ⟨.str (Cmd.encodeFloat ctx.version s true), e⟩)) := by
  intro out
  have h := Props.C01k.incrbyfloat_spec ctx db nd ne k amount
  have h1 : out.reply = _ := congrArg Prod.fst h
  have h2 : out.db.live = _ := congrArg Prod.snd h
  cases hl : db.live k with
  | none =>
    rw [hl] at h1 h2
    simp only at h1 h2
    rcases incrFloatOn_outcome ctx.version db.live k (strBytes "0") none amount with ⟨msg, e1, e2⟩ | ⟨cur, a, c1, c2, c3, c4, c5, c6⟩
    · exact Or.inl ⟨msg, h1.trans e1, h2.trans e2⟩
    · exact Or.inr ⟨_, none, strBytes "0", cur, a, Or.inl ⟨rfl, rfl, rfl⟩, c1, c2, rfl, c3, c4, h1.trans c5,
        h2.trans c6⟩
  | some it =>
    obtain ⟨v, e⟩ := it
    rw [hl] at h1 h2
    cases v with
    | str b =>
      simp only at h1 h2
      rcases incrFloatOn_outcome ctx.version db.live k b e amount with ⟨msg, e1, e2⟩ | ⟨cur, a, c1, c2, c3, c4, c5, c6⟩
      · exact Or.inl ⟨msg, h1.trans e1, h2.trans e2⟩
      · exact Or.inr ⟨_, e, b, cur, a, Or.inr rfl, c1, c2, rfl, c3, c4, h1.trans c5, h2.trans c6⟩
    | _ => exact Or.inl ⟨_, h1, h2⟩

/-- non-vacuity: a database satisfying the standing hypotheses; both branches occur (a stored `"1.5"` plus `"2"` is
`"3.5"` and keeps the deadline; the increment `"inf"` gives an error reply; a list is WRONGTYPE) -/
example :
    let db : Db := ⟨[([97], ⟨.str (strBytes "1.5"), some 70⟩), ([98], ⟨.list [[1]], none⟩)], 50⟩
    let ctx : Ctx := ⟨7, 50, 0, false, []⟩
    NodupKeys db.dict ∧ NoEmpty db.dict ∧
    (match (runRegular sigIncrbyfloat Cmd.incrbyfloat ctx none [[97], strBytes "2"] db).reply with
      | .bulk b => b | _ => []) = strBytes "3.5" ∧
    Props.C01k.strView ((runRegular sigIncrbyfloat Cmd.incrbyfloat ctx none [[97], strBytes "2"] db).db.live [97]) =
      some (strBytes "3.5", some 70) ∧
    (runRegular sigIncrbyfloat Cmd.incrbyfloat ctx none [[97], strBytes "inf"] db).reply.isErr = true ∧
    (runRegular sigIncrbyfloat Cmd.incrbyfloat ctx none [[98], strBytes "2"] db).reply.isErr = true := by
  refine ⟨by decide, ?_, by decide +kernel, by decide +kernel, by decide +kernel, by decide +kernel⟩
  intro p hp
  simp only [List.mem_cons, List.not_mem_nil, or_false] at hp
  rcases hp with rfl | rfl <;> rfl

/-! ## 2. HINCRBYFLOAT -/

/-- HINCRBYFLOAT through the runner, on a key that is missing or holds a hash (`hashView … = some (h, e)`).  EITHER an
error is answered and the key space is unchanged, OR the reply and the value of field `f` are the human-friendly
encoding of the FINITE canonical double `s = cur + a` (`cur` = the decoded old value of the field, `"0"` if the field
is missing); every other field, every other key and the deadline are unchanged. -/
theorem hincrbyfloat_outcome (ctx : Ctx) (db : Db) (nd : NodupKeys db.dict) (wf : HashSet.LiveWF db) (key : Bytes)
    (h : HashSet.HashV) (e : Option Int) (hv : HashSet.hashView db.live key = some (h, e)) (f amt : Bytes) :
    let out := HashSet.run "hincrbyfloat" ctx [key, f, amt] db
    (∃ msg, out.reply = .err msg ∧ out.db.live = db.live) ∨
    (∃ (s cur a : Dbl),
      Conv.float ((HashSet.hmap db key f).getD (strBytes "0")) = .ok cur ∧ Conv.float amt = .ok a ∧
      s = Dbl.add cur a ∧ s.isFinite = true ∧ Canon s ∧
      out.reply = .bulk (Cmd.encodeFloat ctx.version s true) ∧
      HashSet.hmap out.db key f = some (Cmd.encodeFloat ctx.version s true) ∧
      (∀ x, x ≠ f → HashSet.hmap out.db key x = HashSet.hmap db key x) ∧
      out.db.live =
        HashSet.putAt db.live key (.hash (ZSet.dictSet h f (Cmd.encodeFloat ctx.version s true))) e ∧
      (∀ k', k' ≠ key → out.db.live k' = db.live k') ∧
      HashSet.LiveWF out.db) := by
  intro out
  have hr := Props.C02h.hincrbyfloat_refines ctx db nd wf key h e hv f amt
  simp only at hr
  cases hcur : Conv.float ((HashSet.hmap db key f).getD (strBytes "0")) with
  | error er =>
    rw [hcur] at hr
    exact Or.inl ⟨_, hr.1, hr.2.1⟩
  | ok cur =>
    cases ha : Conv.float amt with
    | error er =>
      rw [hcur, ha] at hr
      exact Or.inl ⟨_, hr.1, hr.2.1⟩
    | ok a =>
      rw [hcur, ha] at hr
      simp only at hr
      by_cases hf : (Dbl.add cur a).isFinite = true
      · rw [if_pos hf] at hr
        obtain ⟨r1, _, r3, r4, r5, r6⟩ := hr
        refine Or.inr ⟨_, cur, a, rfl, rfl, rfl, hf, add_canon _ _, r1, ?_, ?_, r4, r5, r6⟩
        · rw [r3 f, if_pos rfl]
        · intro x hx; rw [r3 x, if_neg hx]
      · rw [if_neg hf] at hr
        exact Or.inl ⟨_, hr.1, hr.2.1⟩

/-- HINCRBYFLOAT on a key holding another type: WRONGTYPE, nothing changes -/
theorem hincrbyfloat_wrongtype (ctx : Ctx) (db : Db) (nd : NodupKeys db.dict) (key f amt : Bytes)
    (hv : HashSet.hashView db.live key = none) :
    let out := HashSet.run "hincrbyfloat" ctx [key, f, amt] db
    out.reply = .err (strBytes Msgs.WRONGTYPE_MSG) ∧ out.db.live = db.live := by
  intro out
  have har : HashSet.ArityOK (HashSet.sigOf "hincrbyfloat") 3 := by decide
  have := Props.C02h.hash_wrongtype ctx db nd "hincrbyfloat" (by decide) key [f, amt] har hv
  exact ⟨this.1, this.2.1⟩

/-- non-vacuity (the database of `FR.Props.C02h`): the hypotheses hold; "5" + "0.5" is stored as "5.5"; a field that
is not a float is refused; a string key is WRONGTYPE -/
example :
    NodupKeys Props.C02h.exDb.dict ∧ HashSet.LiveWF Props.C02h.exDb ∧
    HashSet.hashView Props.C02h.exDb.live [6] = some ([([10], [53])], none) ∧
    HashSet.hashView Props.C02h.exDb.live [2] = none ∧
    HashSet.hmap (HashSet.run "hincrbyfloat" Props.C02h.exCtx [[6], [10], strBytes "0.5"] Props.C02h.exDb).db [6] [10]
      = some (strBytes "5.5") ∧
    (HashSet.run "hincrbyfloat" Props.C02h.exCtx [[1], [10], [49]] Props.C02h.exDb).reply.isErr = true :=
  ⟨by decide, HashSet.liveWF_of_dict (by decide), by rfl, by rfl, by decide +kernel, by decide +kernel⟩

/-! ## 3. ZADD then ZSCORE -/

/-- what a sorted-set command sees at `key`: the stored sorted set (the empty one when the key is missing) and the
deadline; `none` when another type is stored -/
def zsetView (live : HashSet.Live) (key : Bytes) : Option (ZSet × Option Int) :=
  match live key with
  | none => some (ZSet.empty, none)
  | some it =>
    match it.value with
    | .zset z => some (z, it.expireat)
    | _ => none

theorem zsetView_missing {live : HashSet.Live} {key : Bytes} (h : live key = none) :
    zsetView live key = some (ZSet.empty, none) := by
  unfold zsetView; rw [h]

theorem zsetView_zset {live : HashSet.Live} {key : Bytes} {z : ZSet} {e : Option Int}
    (h : live key = some ⟨.zset z, e⟩) : zsetView live key = some (z, e) := by
  unfold zsetView; rw [h]

/-- the view is exactly "missing, or a sorted set" -/
theorem zsetView_some_iff {live : HashSet.Live} {key : Bytes} {z : ZSet} {e : Option Int} :
    zsetView live key = some (z, e) ↔
      (live key = none ∧ z = ZSet.empty ∧ e = none) ∨ live key = some ⟨.zset z, e⟩ := by
  unfold zsetView
  cases hl : live key with
  | none =>
    constructor
    · intro h; cases h; exact Or.inl ⟨rfl, rfl, rfl⟩
    · rintro (⟨_, rfl, rfl⟩ | h)
      · rfl
      · cases h
  | some it =>
    obtain ⟨v, e'⟩ := it
    cases v <;> simp

theorem zsetView_some {live : HashSet.Live} {key : Bytes} {z : ZSet} {e : Option Int}
    (hv : zsetView live key = some (z, e)) :
    HashSet.typeOK live (some .zset) key = true ∧
    HashSet.ciOf live (some .zset) key = ⟨key, some (.zset z), e, false, false⟩ := by
  rcases zsetView_some_iff.1 hv with ⟨hl, rfl, rfl⟩ | hl
  · unfold HashSet.typeOK HashSet.ciOf
    rw [hl]
    exact ⟨rfl, rfl⟩
  · exact typed_ci hl

/-- a member can only be found in a stored (hence live) sorted set -/
theorem live_of_view_get {live : HashSet.Live} {key : Bytes} {z : ZSet} {e : Option Int}
    (hv : zsetView live key = some (z, e)) {m : Bytes} {s : Dbl} (hg : z.get m = some s) :
    live key = some ⟨.zset z, e⟩ := by
  rcases zsetView_some_iff.1 hv with ⟨_, rfl, _⟩ | hl
  · cases hg
  · exact hl

theorem zscore_body (ctx : Ctx) (k : Bytes) (z : ZSet) (e : Option Int) (m : Bytes) :
    Cmd.zscore ctx (.key 0 :: [m].map .raw) [⟨k, some (.zset z), e, false, false⟩] =
      ret (match z.get m with | some s => .bulk (Cmd.fmtScore ctx s) | none => .nil)
        [⟨k, some (.zset z), e, false, false⟩] := by
  have hz : Cmd.zsetOf (ciAt [(⟨k, some (.zset z), e, false, false⟩ : CI)] 0) = z := rfl
  simp only [Cmd.zscore, List.map_cons, List.map_nil, hz]
  cases z.get m <;> rfl

/-- ZSCORE k member through the runner, on a key that is missing or holds a sorted set: the formatted score of the
member, nil if there is none; nothing changes -/
theorem zscore_run (ctx : Ctx) (db : Db) (nd : NodupKeys db.dict) (k : Bytes) (z : ZSet) (e : Option Int)
    (hv : zsetView db.live k = some (z, e)) (m : Bytes) :
    (HashSet.run "zscore" ctx [k, m] db).reply =
      (match z.get m with | some s => .bulk (Cmd.fmtScore ctx s) | none => .nil) ∧
    (HashSet.run "zscore" ctx [k, m] db).db.live = db.live ∧
    (HashSet.run "zscore" ctx [k, m] db).failed = false := by
  obtain ⟨h1, h2⟩ := zsetView_some hv
  have har : HashSet.ArityOK (HashSet.sigOf "zscore") 2 := by decide
  exact HashSet.run_key1_read (HashSet.sigOf "zscore") (some .zset) 1 rfl (by decide) Cmd.zscore ctx k [m] nd har h1
    (by rw [h2]; exact zscore_body ctx k z e m)

/-- ZSCORE on a key holding another type: WRONGTYPE, nothing changes -/
theorem zscore_wrongtype (ctx : Ctx) (db : Db) (nd : NodupKeys db.dict) (k m : Bytes)
    (hv : zsetView db.live k = none) :
    (HashSet.run "zscore" ctx [k, m] db).reply = .err (strBytes Msgs.WRONGTYPE_MSG) ∧
    (HashSet.run "zscore" ctx [k, m] db).db.live = db.live := by
  have hok : HashSet.typeOK db.live (some .zset) k = false := by
    unfold zsetView at hv
    unfold HashSet.typeOK
    cases hl : db.live k with
    | none => rw [hl] at hv; cases hv
    | some it =>
      obtain ⟨v, e'⟩ := it
      rw [hl] at hv
      cases v <;> simp [Value.ty] at hv ⊢
  have har : HashSet.ArityOK (HashSet.sigOf "zscore") 2 := by decide
  have := HashSet.run_key1_wrongtype (HashSet.sigOf "zscore") (some .zset) 1 rfl (by decide) Cmd.zscore ctx k [m] nd
    har hok
  exact ⟨this.1, this.2.1⟩

/-- ZADD k score member (no option words) through the runner, on a key that is missing or holds a sorted set
(`zadd_run` of `FR.DumpRound` extended to the missing key): the member is inserted / re-scored by `ZSet.add` -/
theorem zadd_run' (ctx : Ctx) (db : Db) (nd : NodupKeys db.dict) (k : Bytes) (z : ZSet) (e : Option Int)
    (hv : zsetView db.live k = some (z, e)) (sb m : Bytes) (s : Dbl)
    (hf : notZaddFlag sb) (hs : Conv.float sb = .ok s) :
    (HashSet.run "zadd" ctx [k, sb, m] db).reply =
      .int (((z.add m (zaddScore ctx.version s)).1.len : Int) - z.len) ∧
    (HashSet.run "zadd" ctx [k, sb, m] db).db.live =
      upd db.live k (some ⟨.zset (z.add m (zaddScore ctx.version s)).1, e⟩) := by
  rcases zsetView_some_iff.1 hv with ⟨hl, rfl, rfl⟩ | hl
  · obtain ⟨h1, h2⟩ := zsetView_some hv
    have har : HashSet.ArityOK (HashSet.sigOf "zadd") (([sb, m] : List Bytes).length + 1) :=
      HashSet.arity_var "zadd" _ 3 rfl rfl (by simp)
    have hb := zadd_body ctx k ZSet.empty none sb m s hf hs
    have hc : (ZSet.empty.add m (zaddScore ctx.version s)).2 = true := by
      rw [ZSet.add_changed]; rfl
    rw [hc] at hb
    simp only [if_true] at hb
    have := HashSet.run_key1_write (HashSet.sigOf "zadd") (some .zset) 2 rfl (by decide) Cmd.zadd ctx k [sb, m] nd
      har h1 (r := .int (((ZSet.empty.add m (zaddScore ctx.version s)).1.len : Int) - ZSet.empty.len))
      (v' := .zset (ZSet.empty.add m (zaddScore ctx.version s)).1) (by rw [h2]; exact hb)
    rw [h2] at this
    refine ⟨this.1, ?_⟩
    rw [show (HashSet.run "zadd" ctx [k, sb, m] db).db.live = _ from this.2.1]
    exact putAt_eq _ _ _ _ (add_ne_empty _ _ _)
  · exact zadd_run ctx db nd k z e hl sb m s hf hs

/-- the score ZADD stores is never NaN and always canonical -/
theorem zaddScore_facts {sb : Bytes} {s : Dbl} (hs : Conv.float sb = .ok s) (version : Nat) :
    (zaddScore version s).isNaN = false ∧ Canon (zaddScore version s) := by
  unfold zaddScore
  split
  · exact ⟨Dbl.plusZero_not_nan (Cmd.Conv.float_not_nan hs), plusZero_canon _⟩
  · exact ⟨Cmd.Conv.float_not_nan hs, float_canon hs⟩

/-- the score of `m` after `ZSet.add z m s` -/
def scoreAfter (z : ZSet) (m : Bytes) (s : Dbl) : Dbl :=
  match z.get m with
  | some old => if Dbl.eq s old then old else s
  | none => s

theorem get_add_scoreAfter (z : ZSet) (m : Bytes) (s : Dbl) : (z.add m s).1.get m = some (scoreAfter z m s) := by
  rw [ZSet.get_add, if_pos rfl]
  unfold scoreAfter
  cases z.get m with
  | none => rfl
  | some old => simp only []; split <;> rfl

/-- ZADD k score member, then ZSCORE k member, EXACTLY: the answer is the formatted `scoreAfter`, i.e. the score that
was sent (normalised by `zaddScore`: version 7 adds `0.0 +`), unless the member already had an IEEE-equal score, in
which case the OLD score (its representation) is kept.  ZSCORE changes nothing. -/
theorem zadd_zscore_exact (ctx : Ctx) (db : Db) (nd : NodupKeys db.dict) (k : Bytes) (z : ZSet) (e : Option Int)
    (hv : zsetView db.live k = some (z, e)) (sb m : Bytes) (s : Dbl)
    (hf : notZaddFlag sb) (hs : Conv.float sb = .ok s) :
    let o1 := HashSet.run "zadd" ctx [k, sb, m] db
    let o2 := HashSet.run "zscore" ctx [k, m] o1.db
    o2.reply = .bulk (Cmd.fmtScore ctx (scoreAfter z m (zaddScore ctx.version s))) ∧
    o2.db.live = o1.db.live ∧
    o1.db.live k = some ⟨.zset (z.add m (zaddScore ctx.version s)).1, e⟩ := by
  intro o1 o2
  obtain ⟨_, l1⟩ := zadd_run' ctx db nd k z e hv sb m s hf hs
  have nd1 : NodupKeys o1.db.dict := runRegular_nodup _ _ ctx none _ nd
  have hk : o1.db.live k = some ⟨.zset (z.add m (zaddScore ctx.version s)).1, e⟩ := by
    rw [show o1.db.live = _ from l1, upd_self]
  obtain ⟨r2, l2, _⟩ := zscore_run ctx o1.db nd1 k _ e (zsetView_zset hk) m
  refine ⟨?_, l2, hk⟩
  rw [show o2.reply = _ from r2, get_add_scoreAfter]

/-- ZADD then ZSCORE: the answer is `fmtScore` of a score `s'` that is the one sent (after `zaddScore`) or an
IEEE-equal old score of the member -/
theorem zadd_zscore (ctx : Ctx) (db : Db) (nd : NodupKeys db.dict) (k : Bytes) (z : ZSet) (e : Option Int)
    (hv : zsetView db.live k = some (z, e)) (sb m : Bytes) (s : Dbl)
    (hf : notZaddFlag sb) (hs : Conv.float sb = .ok s) :
    let o1 := HashSet.run "zadd" ctx [k, sb, m] db
    let o2 := HashSet.run "zscore" ctx [k, m] o1.db
    (∃ s', o2.reply = .bulk (Cmd.fmtScore ctx s') ∧
      (s' = zaddScore ctx.version s ∨ (z.get m = some s' ∧ Dbl.eq (zaddScore ctx.version s) s' = true))) ∧
    o2.db.live = o1.db.live := by
  intro o1 o2
  obtain ⟨r, l, _⟩ := zadd_zscore_exact ctx db nd k z e hv sb m s hf hs
  refine ⟨⟨_, r, ?_⟩, l⟩
  unfold scoreAfter
  cases hg : z.get m with
  | none => exact Or.inl rfl
  | some old =>
    simp only []
    by_cases he : Dbl.eq (zaddScore ctx.version s) old = true
    · rw [if_pos he]; exact Or.inr ⟨rfl, he⟩
    · rw [if_neg he]; exact Or.inl rfl

/-! ### IEEE equality of canonical doubles -/

theorem two_mul_le_of_pow {m1 m2 k1 k2 : Nat} (h : m1 * 2 ^ k1 = m2 * 2 ^ k2) (hk : k1 < k2) : 2 * m2 ≤ m1 := by
  obtain ⟨d, rfl⟩ : ∃ d, k2 = k1 + (d + 1) := ⟨k2 - k1 - 1, by omega⟩
  have hp : 0 < 2 ^ k1 := Nat.pow_pos (by decide)
  have h' : m1 * 2 ^ k1 = (m2 * (2 ^ d * 2)) * 2 ^ k1 := by
    rw [h, Nat.pow_add, Nat.pow_succ]
    simp only [Nat.mul_comm, Nat.mul_left_comm]
  have hm := Nat.eq_of_mul_eq_mul_right hp h'
  have hd : 1 ≤ 2 ^ d := Nat.pow_pos (by decide)
  subst hm
  calc 2 * m2 = m2 * (1 * 2) := by omega
    _ ≤ m2 * (2 ^ d * 2) := Nat.mul_le_mul_left _ (Nat.mul_le_mul_right _ hd)

/-- two canonical doubles that are IEEE-equal and not zeros are THE SAME `Dbl`: the only value with two canonical
representations is zero (`+0`, `-0`) -/
theorem eq_of_eq_canon {a b : Dbl} (h : Dbl.eq a b = true) (ha : Canon a) (hb : Canon b)
    (hz : a.isZero = false) : a = b := by
  cases a with
  | nan => simp [Dbl.eq] at h
  | inf x =>
    cases b with
    | nan => simp [Dbl.eq] at h
    | inf y => simp only [Dbl.eq, beq_iff_eq] at h; rw [h]
    | fin _ _ _ => simp [Dbl.eq] at h
  | fin n1 m1 e1 =>
    cases b with
    | nan => simp [Dbl.eq] at h
    | inf y => simp [Dbl.eq] at h
    | fin n2 m2 e2 =>
      have hm1 : m1 ≠ 0 := by
        rintro rfl
        simp [Dbl.isZero] at hz
      simp only [Dbl.eq, Dbl.scaled, decide_eq_true_eq, pow2_eq] at h
      have hA : 0 < m1 * 2 ^ (e1 + 1074).toNat := Nat.mul_pos (by omega) (Nat.pow_pos (by decide))
      have hAB : n1 = n2 ∧ m1 * 2 ^ (e1 + 1074).toNat = m2 * 2 ^ (e2 + 1074).toNat := by
        generalize m1 * 2 ^ (e1 + 1074).toNat = A at h hA
        generalize m2 * 2 ^ (e2 + 1074).toNat = B at h
        cases n1 <;> cases n2 <;> simp only [if_true, Bool.false_eq_true, if_false] at h <;>
          first | exact ⟨rfl, by omega⟩ | (exfalso; omega)
      obtain ⟨rfl, hmul⟩ := hAB
      unfold Canon at ha hb
      have hlt : ¬ (e1 + 1074).toNat < (e2 + 1074).toNat := by
        intro hk
        have := two_mul_le_of_pow hmul hk
        rcases ha with ⟨_, _⟩ | ⟨_, _, _, _⟩ <;> rcases hb with ⟨_, _⟩ | ⟨_, _, _, _⟩ <;> omega
      have hgt : ¬ (e2 + 1074).toNat < (e1 + 1074).toNat := by
        intro hk
        have := two_mul_le_of_pow hmul.symm hk
        rcases ha with ⟨_, _⟩ | ⟨_, _, _, _⟩ <;> rcases hb with ⟨_, _⟩ | ⟨_, _, _, _⟩ <;> omega
      have hk : (e1 + 1074).toNat = (e2 + 1074).toNat := by omega
      rw [hk] at hmul
      have hm : m1 = m2 := Nat.eq_of_mul_eq_mul_right (Nat.pow_pos (by decide)) hmul
      have he : e1 = e2 := by
        rcases ha with ⟨_, _⟩ | ⟨_, _, _, _⟩ <;> rcases hb with ⟨_, _⟩ | ⟨_, _, _, _⟩ <;> omega
      rw [hm, he]

/-- non-vacuity: 1.0 is canonical and not a zero; and the hypothesis `isZero = false` is needed (`+0 == -0`) -/
example : Dbl.eq Dbl.one Dbl.one = true ∧ Canon Dbl.one ∧ Dbl.one.isZero = false ∧
    Dbl.eq (.fin false 0 (-1074)) (.fin true 0 (-1074)) = true ∧ Canon (.fin false 0 (-1074)) ∧
    Canon (.fin true 0 (-1074)) ∧ (Dbl.fin false 0 (-1074)) ≠ .fin true 0 (-1074) := by
  decide

/-- whatever is IEEE-equal to a zero is a zero -/
theorem isZero_of_eq_zero {a b : Dbl} (h : Dbl.eq a b = true) (hz : a.isZero = true) : b.isZero = true := by
  cases a with
  | nan => cases hz
  | inf x => cases hz
  | fin n1 m1 e1 =>
    have hm1 : m1 = 0 := by
      cases m1 with
      | zero => rfl
      | succ n => simp [Dbl.isZero] at hz
    subst hm1
    cases b with
    | nan => simp [Dbl.eq] at h
    | inf y => simp [Dbl.eq] at h
    | fin n2 m2 e2 =>
      simp only [Dbl.eq, Dbl.scaled, decide_eq_true_eq, pow2_eq, Nat.zero_mul] at h
      have hB : m2 * 2 ^ (e2 + 1074).toNat = 0 := by
        generalize m2 * 2 ^ (e2 + 1074).toNat = B at h
        cases n1 <;> cases n2 <;> simp only [if_true, Bool.false_eq_true, if_false] at h <;> omega
      have hm2 : m2 = 0 := by
        rcases Nat.mul_eq_zero.1 hB with h0 | h0
        · exact h0
        · exact absurd h0 (Nat.ne_of_gt (Nat.pow_pos (by decide)))
      subst hm2
      rfl

/-- two zeros are IEEE-equal whatever their signs -/
theorem eq_of_zeros {a b : Dbl} (ha : a.isZero = true) (hb : b.isZero = true) : Dbl.eq a b = true := by
  cases a with
  | nan => cases ha
  | inf x => cases ha
  | fin n1 m1 e1 =>
    cases b with
    | nan => cases hb
    | inf y => cases hb
    | fin n2 m2 e2 =>
      have hm1 : m1 = 0 := by
        cases m1 with
        | zero => rfl
        | succ n => simp [Dbl.isZero] at ha
      have hm2 : m2 = 0 := by
        cases m2 with
        | zero => rfl
        | succ n => simp [Dbl.isZero] at hb
      subst hm1 hm2
      simp [Dbl.eq, Dbl.scaled]

example : (Dbl.fin true 0 (-1074)).isZero = true ∧ (Dbl.fin false 0 (-1074)).isZero = true := by decide

/-! ### the version-dependent normalisation of the score -/

/-- version 6 stores the parsed score as it is (a `-0` stays `-0`) -/
theorem zaddScore_v6 (version : Nat) (hv : version < 7) (s : Dbl) : zaddScore version s = s := by
  unfold zaddScore
  rw [if_neg (by omega)]

/-- version 7 stores `0.0 + score` -/
theorem zaddScore_v7 (version : Nat) (hv : 7 ≤ version) (s : Dbl) : zaddScore version s = s.plusZero := by
  unfold zaddScore
  rw [if_pos hv]

/-- … which turns `-0` into `+0` -/
theorem plusZero_negzero : Dbl.plusZero (.fin true 0 (-1074)) = .fin false 0 (-1074) := by decide

theorem zaddScore_v7_negzero (version : Nat) (hv : 7 ≤ version) :
    zaddScore version (.fin true 0 (-1074)) = .fin false 0 (-1074) := by
  rw [zaddScore_v7 version hv, plusZero_negzero]

/-- `-0` is what `Conv.float` makes of the bytes `-0` (so the hypotheses of the theorems below are satisfiable with it) -/
example : Conv.float (strBytes "-0") = .ok (.fin true 0 (-1074)) ∧ notZaddFlag (strBytes "-0") :=
  ⟨by with_unfolding_all rfl, by decide +kernel⟩

/-- the reply format of a negative zero: `-0` in version 6, `0` in version 7 -/
theorem fmtScore_negzero_v6 (ctx : Ctx) (hv : ctx.version < 7) :
    Cmd.fmtScore ctx (.fin true 0 (-1074)) = strBytes "-0" := by
  unfold Cmd.fmtScore Cmd.encodeFloat
  rw [if_neg (by omega)]
  decide +kernel

theorem fmtScore_negzero_v7 (ctx : Ctx) (hv : 7 ≤ ctx.version) :
    Cmd.fmtScore ctx (.fin true 0 (-1074)) = strBytes "0" := by
  unfold Cmd.fmtScore Cmd.encodeFloat
  rw [if_pos hv]
  decide +kernel

theorem fmtScore_poszero (ctx : Ctx) : Cmd.fmtScore ctx (.fin false 0 (-1074)) = strBytes "0" := by
  unfold Cmd.fmtScore Cmd.encodeFloat
  split <;> decide +kernel

example : (⟨6, 0, 0, false, []⟩ : Ctx).version < 7 ∧ 7 ≤ (⟨7, 0, 0, false, []⟩ : Ctx).version := by decide

/-! ### the corollaries -/

/-- NON-ZERO scores come back exactly.  If the old score of the member (when there is one) is canonical — an invariant
of stored sorted sets, `ScoresCanon` — and the score sent is not a zero, then ZSCORE answers exactly
`fmtScore (zaddScore version s)`, and that is the score now stored for the member. -/
theorem zadd_zscore_nonzero (ctx : Ctx) (db : Db) (nd : NodupKeys db.dict) (k : Bytes) (z : ZSet) (e : Option Int)
    (hv : zsetView db.live k = some (z, e)) (sb m : Bytes) (s : Dbl)
    (hf : notZaddFlag sb) (hs : Conv.float sb = .ok s)
    (hold : ∀ old, z.get m = some old → Canon old)
    (hnz : (zaddScore ctx.version s).isZero = false) :
    let o1 := HashSet.run "zadd" ctx [k, sb, m] db
    let o2 := HashSet.run "zscore" ctx [k, m] o1.db
    o2.reply = .bulk (Cmd.fmtScore ctx (zaddScore ctx.version s)) ∧
    scoreAfter z m (zaddScore ctx.version s) = zaddScore ctx.version s ∧
    o2.db.live = o1.db.live := by
  intro o1 o2
  obtain ⟨r, l, _⟩ := zadd_zscore_exact ctx db nd k z e hv sb m s hf hs
  have hsa : scoreAfter z m (zaddScore ctx.version s) = zaddScore ctx.version s := by
    unfold scoreAfter
    cases hg : z.get m with
    | none => rfl
    | some old =>
      simp only []
      split
      · rename_i he
        exact (eq_of_eq_canon he (zaddScore_facts hs ctx.version).2 (hold old hg) hnz).symm
      · rfl
  refine ⟨?_, hsa, l⟩
  rw [← hsa]; exact r

/-- the hypothesis on the old score follows from `ScoresCanon` (with the two-index invariant) -/
theorem hold_of_scoresCanon {z : ZSet} (hz : z.Inv) (hc : ScoresCanon z) (m : Bytes) :
    ∀ old, z.get m = some old → Canon old := by
  intro old hg
  exact hc (old, m) ((ZSet.get_iff_mem_byscore hz).1 hg)

/-- ZERO scores: if the score sent is a zero (of either sign), ZSCORE answers the format of a zero `s'`; its SIGN is the
OLD one when the member already had a zero score (nothing is rewritten), and the one of `zaddScore version s` otherwise
(member absent, or present with a non-zero score). -/
theorem zadd_zscore_zero (ctx : Ctx) (db : Db) (nd : NodupKeys db.dict) (k : Bytes) (z : ZSet) (e : Option Int)
    (hv : zsetView db.live k = some (z, e)) (sb m : Bytes) (s : Dbl)
    (hf : notZaddFlag sb) (hs : Conv.float sb = .ok s)
    (hzero : (zaddScore ctx.version s).isZero = true) :
    let o1 := HashSet.run "zadd" ctx [k, sb, m] db
    let o2 := HashSet.run "zscore" ctx [k, m] o1.db
    ∃ s', o2.reply = .bulk (Cmd.fmtScore ctx s') ∧ s'.isZero = true ∧
      (∀ old, z.get m = some old → old.isZero = true → s' = old) ∧
      (∀ old, z.get m = some old → old.isZero = false → s' = zaddScore ctx.version s) ∧
      (z.get m = none → s' = zaddScore ctx.version s) := by
  intro o1 o2
  obtain ⟨r, _, _⟩ := zadd_zscore_exact ctx db nd k z e hv sb m s hf hs
  refine ⟨_, r, ?_, ?_, ?_, ?_⟩
  · unfold scoreAfter
    cases hg : z.get m with
    | none => exact hzero
    | some old =>
      simp only []
      split
      · rename_i he; exact isZero_of_eq_zero he hzero
      · exact hzero
  · intro old hg ho
    unfold scoreAfter
    rw [hg]
    simp only []
    rw [if_pos (eq_of_zeros hzero ho)]
  · intro old hg ho
    unfold scoreAfter
    rw [hg]
    simp only []
    rw [if_neg]
    intro he
    rw [isZero_of_eq_zero he hzero] at ho
    cases ho
  · intro hg
    unfold scoreAfter
    rw [hg]

/-! ### non-vacuity of part 3, and the statements replayed on a concrete database -/

/-- (for the examples) a sorted set holding `m ↦ +0` and `n ↦ 1.5`, stored under `z` with a deadline; `[2]` holds a
string; `[9]` is missing -/
def runExZ : ZSet := rebuild [([109], .fin false 0 (-1074)), ([110], .fin false 6755399441055744 (-52))]
def runExDb : Db := ⟨[([122], ⟨.zset runExZ, some 90⟩), ([2], ⟨.str [7], none⟩)], 5⟩
def runExC6 : Ctx := ⟨6, 5, 0, false, []⟩
def runExC7 : Ctx := ⟨7, 5, 0, false, []⟩
/-- (for the examples) the bytes of a bulk reply -/
def runBulkOf (r : Reply) : Bytes := match r with | .bulk b => b | _ => []

/-- the hypotheses of `zscore_run`, `zadd_run'`, `zadd_zscore*` hold: all three kinds of view occur, the scores parse,
are no option words; the old scores are canonical; `1.5` is not a zero, `-0` is one (version 6) -/
example :
    NodupKeys runExDb.dict ∧ zsetView runExDb.live [122] = some (runExZ, some 90) ∧
    zsetView runExDb.live [9] = some (ZSet.empty, none) ∧ zsetView runExDb.live [2] = none ∧
    Conv.float (strBytes "1.5") = .ok (.fin false 6755399441055744 (-52)) ∧ notZaddFlag (strBytes "1.5") ∧
    runExZ.Inv ∧ ScoresCanon runExZ ∧
    (∀ old, runExZ.get [109] = some old → Canon old) ∧
    (zaddScore 7 (.fin false 6755399441055744 (-52))).isZero = false ∧
    (zaddScore 6 (.fin false 6755399441055744 (-52))).isZero = false ∧
    (zaddScore 6 (.fin true 0 (-1074))).isZero = true ∧ (zaddScore 7 (.fin true 0 (-1074))).isZero = true ∧
    runExZ.get [109] = some (.fin false 0 (-1074)) ∧ runExZ.get [111] = none := by
  have hinv : runExZ.Inv := rebuild_inv _ (by decide)
  have hc : ScoresCanon runExZ := by unfold ScoresCanon; decide +kernel
  exact ⟨by decide, by rfl, by rfl, by rfl, by with_unfolding_all rfl, by decide +kernel, hinv, hc,
    hold_of_scoresCanon hinv hc _, by decide +kernel, by decide +kernel, by decide +kernel, by decide +kernel,
    by decide +kernel, by decide +kernel⟩

/-- the sign of zero, replayed through the runner:
* `ZADD k -0 m` on a missing key, then `ZSCORE k m`: `-0` in version 6, `0` in version 7;
* on a member that already has the score `+0`, version 6: the OLD `+0` is kept, the answer is `0`;
* on a member with the score `1.5`, version 6: re-scored, the answer is `-0`;
* a non-zero score comes back exactly -/
example :
    runBulkOf (HashSet.run "zscore" runExC6 [[9], [109]] (HashSet.run "zadd" runExC6 [[9], strBytes "-0", [109]] runExDb).db).reply
      = strBytes "-0" ∧
    runBulkOf (HashSet.run "zscore" runExC7 [[9], [109]] (HashSet.run "zadd" runExC7 [[9], strBytes "-0", [109]] runExDb).db).reply
      = strBytes "0" ∧
    runBulkOf (HashSet.run "zscore" runExC6 [[122], [109]]
      (HashSet.run "zadd" runExC6 [[122], strBytes "-0", [109]] runExDb).db).reply = strBytes "0" ∧
    runBulkOf (HashSet.run "zscore" runExC6 [[122], [110]]
      (HashSet.run "zadd" runExC6 [[122], strBytes "-0", [110]] runExDb).db).reply = strBytes "-0" ∧
    runBulkOf (HashSet.run "zscore" runExC7 [[122], [109]]
      (HashSet.run "zadd" runExC7 [[122], strBytes "1.5", [109]] runExDb).db).reply = strBytes "1.5" ∧
    (HashSet.run "zscore" runExC7 [[2], [109]] runExDb).reply.isErr = true := by
  refine ⟨by decide +kernel, by decide +kernel, by decide +kernel, by decide +kernel, by decide +kernel,
    by decide +kernel⟩

end FR.C18f
