import FR
import FR.Proofs.Basic
import FR.Proofs.Lists
import FR.Proofs.DecimalL
/-! # String commands: GETRANGE, SETRANGE, APPEND, INCRBY, SETBIT/GETBIT (C01) -/
namespace FR.Spec
open FR

/-- Declarative Redis GETRANGE -/
def getrangeSpec (v : Bytes) (s e : Int) : Bytes :=
  if s < 0 ∧ e < 0 ∧ s > e then []
  else
    let s' : Int := max 0 (norm s v.length)
    let e' : Int := min ((v.length : Int) - 1) (max 0 (norm e v.length))
    (List.range v.length).filterMap fun (i : Nat) =>
      if s' ≤ (i : Int) ∧ (i : Int) ≤ e' then v[i]? else none

/-- what SETRANGE writes -/
def setrangeBytes (old : Bytes) (o : Nat) (v : Bytes) : Bytes :=
  let out := if old.length < o then old ++ List.replicate (o - old.length) 0 else old
  out.take o ++ v ++ out.drop (o + v.length)

/-- GETBIT on the bytes -/
def getBitBytes (v : Bytes) (off : Int) : Int :=
  match v[(off / 8).toNat]? with
  | none => 0
  | some b => if (b.toNat >>> (7 - (off % 8).toNat)) % 2 == 1 then 1 else 0

/-- SETBIT: bytes the body stores (`v` is the current value, `[0]` for a missing key) -/
def setBitBytes (v : Bytes) (off : Int) (value : Int) : Bytes :=
  let byte := (off / 8).toNat
  let bit := 7 - (off % 8).toNat
  let v := if v.length < byte + 1 then v ++ List.replicate (byte + 1 - v.length) 0 else v
  let old := (v.getD byte 0).toNat
  let mask := 1 <<< bit
  let new := if value == 1 then old ||| mask else old &&& (255 - mask)
  v.set byte (UInt8.ofNat new)

end FR.Spec

namespace FR.Proofs
open FR FR.Spec

/-! ## GETRANGE -/

theorem getrange_window (v : Bytes) (s e : Int) :
    (let (a, b) := fixRangeString s e v.length; Py.slice v a b) = getrangeSpec v s e := by
  show Py.slice v (fixRangeString s e v.length).1 (fixRangeString s e v.length).2 = _
  unfold getrangeSpec fixRangeString
  split
  next h =>
    simp [Py.slice]
  next h =>
    simp only
    apply slice_eq_window
    intro i hi
    simp only [norm, Py.adj]
    repeat' split
    all_goals omega

theorem getrange_body (ctx : Ctx) (cis : List CI) (k : Nat) (s e : Int) :
    Cmd.getrange ctx [.key k, .int s, .int e] cis =
      ret (.bulk (getrangeSpec (Cmd.strGet (ciAt cis k) []) s e)) cis := by
  have := getrange_window (Cmd.strGet (ciAt cis k) []) s e
  simp only [Cmd.getrange]
  rw [← this]

/-! ## SETRANGE -/

theorem setrange_body (ctx : Ctx) (cis : List CI) (k : Nat) (off : Int) (v : Bytes)
    (h0 : 0 ≤ off) (hv : v ≠ []) (hmax : off + v.length ≤ Conv.MAX_STRING_SIZE) :
    Cmd.setrange ctx [.key k, .int off, .raw v] cis =
      (let out := setrangeBytes (Cmd.strGet (ciAt cis k) []) off.toNat v
       ret (.int out.length) (cis.set k ((ciAt cis k).update (.str out)))) := by
  simp only [Cmd.setrange]
  rw [if_neg (by omega), if_neg (by simpa using hv), if_neg (by omega)]
  rfl

theorem setrange_bytes (old : Bytes) (o : Nat) (v : Bytes) :
    (setrangeBytes old o v).length = max old.length (o + v.length) ∧
    ∀ i : Nat,
      (o ≤ i → i < o + v.length → (setrangeBytes old o v)[i]? = v[i - o]?) ∧
      (i < o → i < old.length → (setrangeBytes old o v)[i]? = old[i]?) ∧
      (old.length ≤ i → i < o → (setrangeBytes old o v)[i]? = some 0) ∧
      (o + v.length ≤ i → (setrangeBytes old o v)[i]? = old[i]?) := by
  unfold setrangeBytes
  simp only
  split
  next h =>
    refine ⟨by simp; omega, fun i => ⟨fun h1 h2 => ?_, fun h1 h2 => ?_, fun h1 h2 => ?_, fun h1 => ?_⟩⟩
    all_goals
      simp only [List.getElem?_append, List.length_append, List.length_take, List.length_replicate,
        List.getElem?_take, List.getElem?_drop, List.getElem?_replicate]
      repeat' split
      all_goals first | rfl | (exfalso; omega) | (congr 1; omega) | (symm; apply List.getElem?_eq_none; omega)
  next h =>
    refine ⟨by simp; omega, fun i => ⟨fun h1 h2 => ?_, fun h1 h2 => ?_, fun h1 h2 => ?_, fun h1 => ?_⟩⟩
    all_goals
      simp only [List.getElem?_append, List.length_append, List.length_take, 
        List.getElem?_take, List.getElem?_drop]
      repeat' split
      all_goals first | rfl | (exfalso; omega) | (congr 1; omega) | (symm; apply List.getElem?_eq_none; omega)

/-! ## APPEND -/

theorem append_length (ctx : Ctx) (cis : List CI) (k : Nat) (v : Bytes) :
    Cmd.append ctx [.key k, .raw v] cis =
      (let old := Cmd.strGet (ciAt cis k) []
       if old.length + v.length > Conv.MAX_STRING_SIZE then .error Msgs.STRING_OVERFLOW_MSG
       else ret (.int (old.length + v.length : Nat))
              (cis.set k ((ciAt cis k).update (.str (old ++ v))))) := by
  simp only [Cmd.append, List.length_append]

/-! ## INCRBY and friends -/

theorem conv_int_ok_iff (b : Bytes) (n : Int) :
    Conv.int b = .ok n ↔ parseCanonInt b = some n ∧ Conv.INT_MIN ≤ n ∧ n ≤ Conv.INT_MAX := by
  unfold Conv.int Conv.intRange
  cases hm : parseCanonInt b with
  | none => simp
  | some m =>
    simp only [Option.some.injEq]
    by_cases hr : Conv.INT_MIN ≤ m ∧ m ≤ Conv.INT_MAX
    · rw [if_pos hr]
      simp only [Except.ok.injEq]
      constructor
      · rintro rfl; exact ⟨rfl, hr⟩
      · rintro ⟨rfl, _⟩; rfl
    · rw [if_neg hr]
      simp only [reduceCtorEq, false_iff]
      rintro ⟨rfl, h⟩; exact hr h

theorem conv_int_error (b : Bytes) (e : Err) (h : Conv.int b = .error e) :
    e = Msgs.INVALID_INT_MSG ∧
    (parseCanonInt b = none ∨ ∃ n, parseCanonInt b = some n ∧ ¬ (Conv.INT_MIN ≤ n ∧ n ≤ Conv.INT_MAX)) := by
  unfold Conv.int Conv.intRange at h
  cases hm : parseCanonInt b with
  | none => rw [hm] at h; cases h; exact ⟨rfl, Or.inl rfl⟩
  | some m =>
    rw [hm] at h
    simp only at h
    split at h
    next => cases h
    next hr => cases h; exact ⟨rfl, Or.inr ⟨m, rfl, hr⟩⟩

/-- INCRBY/DECRBY/INCR/DECR: refused (error, hence no state change) when the stored value is not a
canonical 64-bit integer or the sum leaves the signed 64-bit range; otherwise the reply is the sum
and the stored string is its canonical decimal rendering. -/
theorem incr_overflow_refused_unchanged (cis : List CI) (k : Nat) (a : Int) :
    let c := ciAt cis k
    let stored := Cmd.strGet c (strBytes "0")
    (∀ e, Conv.int stored = .error e → Cmd.incrbyCore cis k a = .error e) ∧
    (∀ cur, Conv.int stored = .ok cur → ¬ (Conv.INT_MIN ≤ cur + a ∧ cur + a ≤ Conv.INT_MAX) →
        Cmd.incrbyCore cis k a = .error Msgs.OVERFLOW_MSG) ∧
    (∀ cur, Conv.int stored = .ok cur → (Conv.INT_MIN ≤ cur + a ∧ cur + a ≤ Conv.INT_MAX) →
        Cmd.incrbyCore cis k a =
          .ok { reply := .int (cur + a),
                cis := cis.set k (c.update (.str (intBytes (cur + a)))) }) := by
  intro c stored
  refine ⟨fun e h => ?_, fun cur h hr => ?_, fun cur h hr => ?_⟩
  · simp only [Cmd.incrbyCore]
    rw [show Conv.int (Cmd.strGet (ciAt cis k) (strBytes "0")) = .error e from h]
  · simp only [Cmd.incrbyCore]
    rw [show Conv.int (Cmd.strGet (ciAt cis k) (strBytes "0")) = .ok cur from h]
    simp only [Conv.encodeInt, if_neg hr]
  · simp only [Cmd.incrbyCore]
    rw [show Conv.int (Cmd.strGet (ciAt cis k) (strBytes "0")) = .ok cur from h]
    simp only [Conv.encodeInt, if_pos hr]
    rfl

/-- converse reading: what an `.ok` / `.error` outcome of the core means -/
theorem incr_ok_inv (cis : List CI) (k : Nat) (a : Int) (o : BodyOut)
    (h : Cmd.incrbyCore cis k a = .ok o) :
    ∃ cur, parseCanonInt (Cmd.strGet (ciAt cis k) (strBytes "0")) = some cur ∧
      Conv.INT_MIN ≤ cur ∧ cur ≤ Conv.INT_MAX ∧
      Conv.INT_MIN ≤ cur + a ∧ cur + a ≤ Conv.INT_MAX ∧
      o.reply = .int (cur + a) ∧
      o.cis = cis.set k ((ciAt cis k).update (.str (intBytes (cur + a)))) := by
  have ⟨h1, h2, h3⟩ := incr_overflow_refused_unchanged cis k a
  cases hc : Conv.int (Cmd.strGet (ciAt cis k) (strBytes "0")) with
  | error e => rw [h1 e hc] at h; cases h
  | ok cur =>
    by_cases hr : Conv.INT_MIN ≤ cur + a ∧ cur + a ≤ Conv.INT_MAX
    · rw [h3 cur hc hr] at h
      cases h
      have := (conv_int_ok_iff _ _).mp hc
      exact ⟨cur, this.1, this.2.1, this.2.2, hr.1, hr.2, rfl, rfl⟩
    · rw [h2 cur hc hr] at h; cases h

/-- after a successful INCRBY the stored string reads back (as an integer) as the reply -/
theorem incr_then_readable (cis : List CI) (k : Nat) (a : Int) (o : BodyOut)
    (h : Cmd.incrbyCore cis k a = .ok o) (hk : k < cis.length) :
    ∃ n, o.reply = .int n ∧ Conv.int (Cmd.strGet (ciAt o.cis k) (strBytes "0")) = .ok n := by
  obtain ⟨cur, _, _, _, h1, h2, hr, hc⟩ := incr_ok_inv cis k a o h
  refine ⟨cur + a, hr, ?_⟩
  rw [hc, ciAt_set_self _ _ _ hk]
  show Conv.int (intBytes (cur + a)) = _
  exact (conv_int_ok_iff _ _).mpr ⟨parseCanonInt_intBytes _, h1, h2⟩

/-! ## SETBIT / GETBIT -/

def byteBit (x k : Nat) : Int := if (x >>> k) % 2 == 1 then 1 else 0

set_option maxRecDepth 100000 in
theorem bit_facts : ∀ x < 256, ∀ k < 8,
    (x ||| (1 <<< k)) < 256 ∧ (x &&& (255 - (1 <<< k))) < 256 ∧
    ((x ||| (1 <<< k)) >>> k) % 2 = 1 ∧ ((x &&& (255 - (1 <<< k))) >>> k) % 2 = 0 ∧
    ∀ j < 8, j ≠ k → ((x ||| (1 <<< k)) >>> j) % 2 = (x >>> j) % 2 ∧
                      ((x &&& (255 - (1 <<< k))) >>> j) % 2 = (x >>> j) % 2 := by
  decide

set_option maxRecDepth 100000 in
theorem bit_facts2 : ∀ x < 256, ∀ k < 8,
    ((x ||| (1 <<< k)) = x ↔ (x >>> k) % 2 = 1) ∧
    ((x &&& (255 - (1 <<< k))) = x ↔ (x >>> k) % 2 = 0) := by
  decide

theorem getBitBytes_eq (v : Bytes) (off : Int) :
    getBitBytes v off = byteBit (v.getD (off / 8).toNat 0).toNat (7 - (off % 8).toNat) := by
  unfold getBitBytes byteBit
  rw [List.getD_eq_getElem?_getD]
  cases v[(off / 8).toNat]? with
  | none => simp
  | some b => rfl

theorem getbit_body (ctx : Ctx) (cis : List CI) (k : Nat) (off : Int) :
    Cmd.getbit ctx [.key k, .int off] cis =
      ret (.int (getBitBytes (Cmd.strGet (ciAt cis k) []) off)) cis := by
  cases h : (Cmd.strGet (ciAt cis k) [])[(off / 8).toNat]? <;>
    simp only [Cmd.getbit, getBitBytes, h]

/-- the new byte SETBIT writes -/
def newByte (old : Nat) (bit : Nat) (value : Int) : Nat :=
  if value == 1 then old ||| (1 <<< bit) else old &&& (255 - (1 <<< bit))

theorem setbit_body (ctx : Ctx) (cis : List CI) (k : Nat) (off value : Int) :
    Cmd.setbit ctx [.key k, .int off, .int value] cis =
      (let v := Cmd.strGet (ciAt cis k) [0]
       let byte := (off / 8).toNat
       let bit := 7 - (off % 8).toNat
       let vp := if v.length < byte + 1 then v ++ List.replicate (byte + 1 - v.length) 0 else v
       let old := (vp.getD byte 0).toNat
       let oldBit : Int := if old == newByte old bit value then value else 1 - value
       ret (.int oldBit) (cis.set k ((ciAt cis k).update (.str (setBitBytes v off value))))) := rfl

theorem pad_getD (v : Bytes) (n j : Nat) :
    (if v.length < n then v ++ List.replicate (n - v.length) 0 else v).getD j 0 = v.getD j 0 := by
  split
  next h =>
    simp only [List.getD_eq_getElem?_getD, List.getElem?_append, List.getElem?_replicate]
    split
    · rfl
    · rw [List.getElem?_eq_none (by omega)]
      split <;> rfl
  next => rfl

theorem setBitBytes_getD (v : Bytes) (off value : Int) (j : Nat) :
    (setBitBytes v off value).getD j 0 =
      if j = (off / 8).toNat then
        UInt8.ofNat (newByte (v.getD (off / 8).toNat 0).toNat (7 - (off % 8).toNat) value)
      else v.getD j 0 := by
  unfold setBitBytes
  simp only [pad_getD]
  rw [List.getD_eq_getElem?_getD]
  by_cases h : j = (off / 8).toNat
  · subst h
    rw [if_pos rfl, List.getElem?_set_self (by split <;> first | (simp only [List.length_append, List.length_replicate]; omega) | omega)]
    rfl
  · rw [if_neg h, List.getElem?_set_ne (Ne.symm h), ← List.getD_eq_getElem?_getD, pad_getD]

theorem newByte_lt (x k : Nat) (value : Int) (hx : x < 256) (hk : k < 8) : newByte x k value < 256 := by
  have := bit_facts x hx k hk
  unfold newByte; split
  · exact this.1
  · exact this.2.1

/-- after SETBIT, GETBIT of the same offset returns the value written -/
theorem setbit_getbit_same (v : Bytes) (off b : Int) (hb : b = 0 ∨ b = 1) :
    getBitBytes (setBitBytes v off b) off = b := by
  rw [getBitBytes_eq, setBitBytes_getD, if_pos rfl]
  have hx := UInt8.toNat_lt (v.getD (off / 8).toNat 0)
  have hk : 7 - (off % 8).toNat < 8 := by omega
  have hlt := newByte_lt _ _ b hx hk
  have f := bit_facts _ hx _ hk
  rw [UInt8.toNat_ofNat_of_lt' hlt]
  generalize (v.getD (off / 8).toNat 0).toNat = x at *
  generalize 7 - (off % 8).toNat = k at *
  unfold byteBit newByte
  rcases hb with rfl | rfl
  · simp [f.2.2.2.1]
  · simp [f.2.2.1]

/-- ... and every other bit is unchanged (bits beyond the old end read as 0 before and after) -/
theorem setbit_getbit_other (v : Bytes) (off off' b : Int) (h0 : 0 ≤ off) (h0' : 0 ≤ off')
    (hne : off' ≠ off) :
    getBitBytes (setBitBytes v off b) off' = getBitBytes v off' := by
  rw [getBitBytes_eq, getBitBytes_eq, setBitBytes_getD]
  split
  next hbyte =>
    have hx := UInt8.toNat_lt (v.getD (off / 8).toNat 0)
    have hk : 7 - (off % 8).toNat < 8 := by omega
    have hk' : 7 - (off' % 8).toNat < 8 := by omega
    have hkne : 7 - (off' % 8).toNat ≠ 7 - (off % 8).toNat := by omega
    have hlt := newByte_lt _ _ b hx hk
    have f := (bit_facts _ hx _ hk).2.2.2.2 _ hk' hkne
    rw [UInt8.toNat_ofNat_of_lt' hlt, hbyte]
    unfold byteBit newByte
    split
    · rw [f.1]
    · rw [f.2]
  next => rfl

/-- the reply of SETBIT is the previous value of the bit -/
theorem setbit_reply_old (x k : Nat) (b : Int) (hx : x < 256) (hk : k < 8) (hb : b = 0 ∨ b = 1) :
    (if x == newByte x k b then b else 1 - b) = byteBit x k := by
  have f := bit_facts2 x hx k hk
  have h2 : (x >>> k) % 2 = 0 ∨ (x >>> k) % 2 = 1 := by omega
  unfold byteBit newByte
  rcases hb with rfl | rfl
  · simp only [show ((0 : Int) == 1) = false from rfl, Bool.false_eq_true, if_false]
    rcases h2 with h | h
    · have := f.2.mpr h
      simp [this, h]
    · have : ¬ x = (x &&& (255 - 1 <<< k)) := fun e => by have := f.2.mp e.symm; omega
      simp [h, this]
  · simp only [show ((1 : Int) == 1) = true from rfl, if_true]
    rcases h2 with h | h
    · have : ¬ x = (x ||| 1 <<< k) := fun e => by have := f.1.mp e.symm; omega
      simp [h, this]
    · have := f.1.mpr h
      simp [this, h]

theorem setbit_body_old (ctx : Ctx) (cis : List CI) (k : Nat) (off value : Int)
    (hb : value = 0 ∨ value = 1) :
    Cmd.setbit ctx [.key k, .int off, .int value] cis =
      ret (.int (getBitBytes (Cmd.strGet (ciAt cis k) [0]) off))
        (cis.set k ((ciAt cis k).update (.str (setBitBytes (Cmd.strGet (ciAt cis k) [0]) off value)))) := by
  rw [setbit_body]
  simp only [pad_getD]
  rw [setbit_reply_old _ _ _ (UInt8.toNat_lt _) (by omega) hb, getBitBytes_eq]

end FR.Proofs
