import FR
/-! Run lemmas for the state monad helpers of `FR/Sys/Server.lean` and `FR/Sys/Process.lean`. -/
namespace FR
open M
set_option linter.unusedSimpArgs false

/-- the connection record `getConn c` returns in state `s` -/
abbrev Sys.conn (s : Sys) (c : Nat) : Conn := (getConn c s).1

/-- connection `c` is registered (open) in `s` -/
def Sys.HasConn (s : Sys) (c : Nat) : Prop := ∃ x ∈ s.srv.conns, x.id = c

def Sys.updConn (s : Sys) (c : Nat) (f : Conn → Conn) : Sys :=
  { s with srv := { s.srv with conns := s.srv.conns.map fun x => if x.id == c then f x else x } }

def Sys.emitS (s : Sys) (c : Nat) (r : Reply) : Sys :=
  if (s.conn c).closed then s else { s with out := (c, r) :: s.out }

theorem getConn_run (c : Nat) (s : Sys) : getConn c s = (s.conn c, s) := rfl
theorem modifyConn_run (c : Nat) (f) (s : Sys) : modifyConn c f s = ((), s.updConn c f) := rfl
theorem getDb_run (i : Nat) (s : Sys) : getDb i s = (⟨s.srv.dbs.getD i [], s.srv.time⟩, s) := rfl
theorem setDb_run (i : Nat) (db : Db) (s : Sys) :
    setDb i db s = ((), { s with srv := { s.srv with dbs := s.srv.dbs.set i db.dict } }) := rfl
theorem clearWatches_run (c : Nat) (s : Sys) :
    clearWatches c s = ((), s.updConn c fun x => { x with watchNotified := false, watches := [] }) := rfl

theorem emit_run (c : Nat) (r : Reply) (s : Sys) : emit c r s = ((), s.emitS c r) := by
  unfold emit Sys.emitS
  simp only [bind, StateT.bind, getConn_run]
  cases (s.conn c).closed <;> rfl

/-! ### connection lookup after an update -/

theorem Sys.conn_def (s : Sys) (c : Nat) :
    s.conn c = (s.srv.conns.find? (·.id == c)).getD { id := c } := rfl

theorem Sys.hasConn_iff (s : Sys) (c : Nat) :
    s.HasConn c ↔ (s.srv.conns.find? (·.id == c)).isSome = true := by
  unfold Sys.HasConn
  rw [List.find?_isSome]
  constructor
  · rintro ⟨x, hx, rfl⟩; exact ⟨x, hx, by simp⟩
  · rintro ⟨x, hx, h⟩; exact ⟨x, hx, by simpa using h⟩

theorem find_map_upd (l : List Conn) (c c' : Nat) (f : Conn → Conn) (hf : ∀ x, (f x).id = x.id) :
    (l.map fun x => if x.id == c then f x else x).find? (·.id == c')
      = (l.find? (·.id == c')).map (fun x => if x.id == c then f x else x) := by
  rw [List.find?_map]
  congr 1
  have : ((fun x : Conn => x.id == c') ∘ fun x => if (x.id == c) = true then f x else x)
      = fun x : Conn => x.id == c' := by
    funext x
    simp only [Function.comp]
    split <;> simp [hf]
  rw [this]

theorem Sys.conn_id (s : Sys) (c : Nat) : (s.conn c).id = c := by
  rw [Sys.conn_def]
  cases h : s.srv.conns.find? (·.id == c) with
  | none => rfl
  | some x => simpa using List.find?_some h

theorem Sys.conn_updConn_same {s : Sys} {c : Nat} (f : Conn → Conn) (h : s.HasConn c)
    (hf : ∀ x, (f x).id = x.id) : (s.updConn c f).conn c = f (s.conn c) := by
  rw [Sys.hasConn_iff] at h
  simp only [Sys.conn_def, Sys.updConn, find_map_upd _ _ _ _ hf]
  cases h' : s.srv.conns.find? (·.id == c) with
  | none => simp [h'] at h
  | some x =>
    have := List.find?_some h'
    simp only [Option.map_some, Option.getD_some, this, if_true]

theorem Sys.conn_updConn_ne {s : Sys} {c c' : Nat} (f : Conn → Conn) (hne : c' ≠ c)
    (hf : ∀ x, (f x).id = x.id) : (s.updConn c f).conn c' = s.conn c' := by
  simp only [Sys.conn_def, Sys.updConn, find_map_upd _ _ _ _ hf]
  cases h' : s.srv.conns.find? (·.id == c') with
  | none => rfl
  | some x =>
    have hx : x.id = c' := by simpa using List.find?_some h'
    have : (x.id == c) = false := by simp [hx, hne]
    simp only [Option.map_some, this, Option.getD_some]
    rfl

theorem Sys.hasConn_updConn {s : Sys} {c c' : Nat} (f : Conn → Conn)
    (hf : ∀ x, (f x).id = x.id) : (s.updConn c f).HasConn c' ↔ s.HasConn c' := by
  simp only [Sys.hasConn_iff, Sys.updConn, find_map_upd _ _ _ _ hf, Option.isSome_map]

@[simp] theorem Sys.updConn_dbs (s : Sys) (c f) : (s.updConn c f).srv.dbs = s.srv.dbs := rfl
@[simp] theorem Sys.updConn_subs (s : Sys) (c f) : (s.updConn c f).srv.subs = s.srv.subs := rfl
@[simp] theorem Sys.updConn_psubs (s : Sys) (c f) : (s.updConn c f).srv.psubs = s.srv.psubs := rfl
@[simp] theorem Sys.updConn_out (s : Sys) (c f) : (s.updConn c f).out = s.out := rfl
@[simp] theorem Sys.updConn_time (s : Sys) (c f) : (s.updConn c f).srv.time = s.srv.time := rfl

theorem Sys.emitS_srv (s : Sys) (c r) : (s.emitS c r).srv = s.srv := by
  unfold Sys.emitS; split <;> rfl
theorem Sys.emitS_conn (s : Sys) (c r c') : (s.emitS c r).conn c' = s.conn c' := by
  simp only [Sys.conn_def, Sys.emitS_srv]
theorem Sys.emitS_hasConn (s : Sys) (c r c') : (s.emitS c r).HasConn c' ↔ s.HasConn c' := by
  simp only [Sys.HasConn, Sys.emitS_srv]
theorem Sys.emitS_out (s : Sys) (c r) :
    (s.emitS c r).out = if (s.conn c).closed then s.out else (c, r) :: s.out := by
  unfold Sys.emitS; split <;> rfl


/-! ### MULTI / DISCARD / EXEC -/

theorem multiCmd_run_none {s : Sys} {c : Nat} (cis : List CI) (h : (s.conn c).tx = none) :
    multiCmd c cis s = (.ok (some .ok, cis), s.updConn c fun x => { x with tx := some [], txFailed := false }) := by
  unfold multiCmd
  simp only [bind, StateT.bind, getConn_run, h]
  rfl

theorem multiCmd_run_some {s : Sys} {c : Nat} (cis : List CI) (h : (s.conn c).tx.isSome) :
    multiCmd c cis s = (.error Msgs.MULTI_NESTED_MSG, s) := by
  unfold multiCmd
  simp only [bind, StateT.bind, getConn_run, h]
  rfl

theorem discardCmd_run_none {s : Sys} {c : Nat} (cis : List CI) (h : (s.conn c).tx = none) :
    discardCmd c cis s = (.error (Msgs.fmt1 Msgs.WITHOUT_MULTI_MSG "DISCARD"), s) := by
  unfold discardCmd
  simp only [bind, StateT.bind, getConn_run, h]
  rfl

theorem discardCmd_run_some {s : Sys} {c : Nat} (cis : List CI) (h : (s.conn c).tx.isSome) :
    discardCmd c cis s = (.ok (some .ok, cis),
      (s.updConn c fun x => { x with tx := none, txFailed := false }).updConn c
        fun x => { x with watchNotified := false, watches := [] }) := by
  unfold discardCmd
  have : (s.conn c).tx.isNone = false := by
    cases h' : (s.conn c).tx <;> simp_all
  simp only [bind, StateT.bind, getConn_run, this]
  rfl

theorem execCmd_run_none {s : Sys} {c : Nat} (inner : Inner) (cis : List CI) (h : (s.conn c).tx = none) :
    execCmd inner c cis s = (.error (Msgs.fmt1 Msgs.WITHOUT_MULTI_MSG "EXEC"), s) := by
  unfold execCmd
  simp only [bind, StateT.bind, getConn_run, h]
  rfl

theorem execCmd_run_failed {s : Sys} {c : Nat} (inner : Inner) (cis : List CI) {q}
    (h : (s.conn c).tx = some q) (hf : (s.conn c).txFailed = true) :
    execCmd inner c cis s = (.error Msgs.EXECABORT_MSG,
      (s.updConn c fun x => { x with tx := none }).updConn c
        fun x => { x with watchNotified := false, watches := [] }) := by
  unfold execCmd
  simp only [bind, StateT.bind, getConn_run, h, hf]
  rfl

theorem execCmd_run_dirty {s : Sys} {c : Nat} (inner : Inner) (cis : List CI) {q}
    (h : (s.conn c).tx = some q) (hf : (s.conn c).txFailed = false) (hw : (s.conn c).watchNotified = true) :
    execCmd inner c cis s = (.ok (some .nil, cis),
      (s.updConn c fun x => { x with tx := none, txFailed := false }).updConn c
        fun x => { x with watchNotified := false, watches := [] }) := by
  unfold execCmd
  simp only [bind, StateT.bind, getConn_run, h, hf, hw]
  rfl

theorem execCmd_eq_sequential {s : Sys} {c : Nat} (inner : Inner) (cis : List CI) {q}
    (h : (s.conn c).tx = some q) (hf : (s.conn c).txFailed = false) (hw : (s.conn c).watchNotified = false) :
    execCmd inner c cis s = (do
      modifyConn c fun x => { x with tx := none, txFailed := false }
      clearWatches c
      let results ← runQueue inner c q
      if results.any Option.isNone then
        modify fun s => { s with crashed := some "AssertionError" }
        return .ok (none, cis)
      else okR (.arr (results.map fun r => r.getD .nil)) cis : M SpecialOut) s := by
  unfold execCmd
  simp only [bind, StateT.bind, getConn_run, h, hf, hw]
  rfl

/-- one queued command, as run by EXEC -/
def queueStep (inner : Inner) (c : Nat) (a : String × List Bytes) : M (Option Reply) :=
  match SigTable.find a.1 with
  | none => do fault "exec: unknown queued command"; pure none
  | some sig => do
    modifyConn c fun x => { x with inTx := true }
    let r ← inner sig a.2
    modifyConn c fun x => { x with inTx := false }
    pure r

theorem runQueue_nil (inner : Inner) (c : Nat) : runQueue inner c [] = pure [] := rfl

theorem runQueue_cons (inner : Inner) (c : Nat) (a : String × List Bytes) (rest) :
    runQueue inner c (a :: rest) = (do
      let r ← queueStep inner c a
      let rs ← runQueue inner c rest
      pure (r :: rs)) := by
  obtain ⟨fname, fargs⟩ := a
  rw [runQueue]
  simp only [queueStep]
  cases SigTable.find fname <;> simp only [bind_assoc, pure_bind]

theorem runQueue_append (inner : Inner) (c : Nat) (q1 q2 : List (String × List Bytes)) :
    runQueue inner c (q1 ++ q2) = (do
      let r1 ← runQueue inner c q1
      let r2 ← runQueue inner c q2
      pure (r1 ++ r2)) := by
  induction q1 with
  | nil => simp [runQueue_nil]
  | cons a rest ih =>
    simp only [List.cons_append, runQueue_cons, ih, bind_assoc, pure_bind]

theorem scriptCmd_inner_irrel (i1 i2 : Inner) (c name args cis) :
    scriptCmd i1 c name args cis = scriptCmd i2 c name args cis := rfl

theorem special_inner_irrel (i1 i2 : Inner) (mode : Mode) (c : Nat) (name : String) (args cis)
    (h : name ≠ "exec") : special i1 mode c name args cis = special i2 mode c name args cis := by
  unfold special
  simp only []
  split <;> first | rfl | (exfalso; exact h rfl) | exact scriptCmd_inner_irrel ..

/-- the dummy innermost runner (an EXEC cannot be queued) -/
abbrev nestedStub : Inner := fun _ _ => do fault "nested exec"; return none

/-- EXEC's nested runner on a queued script command: the direct script runner -/
theorem runInner_script (mode : Mode) (c : Nat) (sig : Sig) (raw : List Bytes)
    (hs : scriptNames.contains sig.name = true) :
    runInner mode c sig raw = runScriptCmd mode c sig raw false := by
  unfold runInner
  simp only [hs, ↓reduceIte]

/-- EXEC's nested runner on every other queued command -/
theorem runInner_not_script (mode : Mode) (c : Nat) (sig : Sig) (raw : List Bytes)
    (hs : scriptNames.contains sig.name = false) :
    runInner mode c sig raw = runWith (special (fun _ _ => do fault "nested exec"; return none)) mode c sig raw false := by
  unfold runInner
  simp only [hs, Bool.false_eq_true, ↓reduceIte]

theorem scriptNames_contains_iff {n : String} : scriptNames.contains n = true ↔ n ∈ scriptNames := by
  simp only [List.contains_iff_mem]

theorem scriptNames_contains_false_iff {n : String} : scriptNames.contains n = false ↔ n ∉ scriptNames := by
  rw [← scriptNames_contains_iff]
  cases scriptNames.contains n <;> simp

/-- a regular (pure) command is not a script command -/
theorem regular_notScript {n : String} {body : Body} (h : Cmd.regular n = some body) :
    scriptNames.contains n = false := by
  cases hc : scriptNames.contains n with
  | false => rfl
  | true =>
    exfalso
    simp only [scriptNames, List.contains_cons, List.contains_nil, Bool.or_false, Bool.or_eq_true, beq_iff_eq] at hc
    have e1 : Cmd.regular "eval" = none := rfl
    have e2 : Cmd.regular "evalsha" = none := rfl
    have e3 : Cmd.regular "script" = none := rfl
    rcases hc with hc | hc | hc <;> subst hc
    · rw [e1] at h; cases h
    · rw [e2] at h; cases h
    · rw [e3] at h; cases h

theorem runInner_regular_eq (mode : Mode) (c : Nat) (sig : Sig) (raw : List Bytes) {body : Body}
    (h : Cmd.regular sig.name = some body) :
    runInner mode c sig raw = runWith (special (fun _ _ => do fault "nested exec"; return none)) mode c sig raw false :=
  runInner_not_script mode c sig raw (regular_notScript h)

/-- a property of both runners is a property of EXEC's nested runner -/
theorem runInner_cases {P : M (Option Reply) → Prop} (mode : Mode) (c : Nat) (sig : Sig) (raw : List Bytes)
    (h1 : scriptNames.contains sig.name = true → P (runScriptCmd mode c sig raw false))
    (h2 : scriptNames.contains sig.name = false → P (runWith (special (fun _ _ => do fault "nested exec"; return none)) mode c sig raw false)) :
    P (runInner mode c sig raw) := by
  cases hs : scriptNames.contains sig.name with
  | true => rw [runInner_script mode c sig raw hs]; exact h1 hs
  | false => rw [runInner_not_script mode c sig raw hs]; exact h2 hs

/-- EXEC runs a queued command exactly as the client's direct request would be run - script commands included -/
theorem runInner_eq_runCommand' (mode : Mode) (c : Nat) (sig : Sig) (raw : List Bytes) (h : sig.name ≠ "exec") :
    runInner mode c sig raw = runCommand mode c sig raw false := by
  unfold runInner runCommand
  split
  · rfl
  · unfold runWith
    simp only [special_inner_irrel _ (runInner mode c) mode c sig.name _ _ h]

theorem cleanupClosed_run_nil {s : Sys} (h : s.srv.closedSockets = []) : cleanupClosed s = ((), s) := by
  unfold cleanupClosed
  simp only [bind, StateT.bind, get, getThe, MonadStateOf.get, StateT.get, h, forIn, ForIn.forIn, List.forIn'_nil, pure, StateT.pure, modify, modifyGet, MonadStateOf.modifyGet, StateT.modifyGet]
  obtain ⟨⟨_, _, _, _, _, _, _, _, _, _⟩, _, _, _, _, _⟩ := s
  simp only at h
  subst h
  rfl

theorem processCommand_queued {s : Sys} (mode : Mode) (c : Nat) (nameB : Bytes) (args : List Bytes)
    {n : String} {sig : Sig} {q : List (String × List Bytes)}
    (hclosed : s.srv.closedSockets = [])
    (hname : commandName nameB = some n) (hus : n.startsWith "_" = false)
    (hfind : SigTable.find n = some sig) (harity : sig.checkArity args.length = true)
    (hnq : SigTable.notQueued.contains sig.name = false)
    (hnm : SigTable.notInMulti.contains sig.name = false)
    (htx : (s.conn c).tx = some q) :
    processCommand mode c (nameB :: args) s = (do
      let now ← nextClock
      modify fun s => { s with srv := { s.srv with time := now } }
      modifyConn c fun x => { x with tx := x.tx.map (· ++ [(sig.name, args)]) }
      emit c .queued : M Unit) s := by
  unfold processCommand
  simp only [bind, StateT.bind, getConn_run, hname, hus, hfind, cleanupClosed_run_nil hclosed, harity, htx, hnq, hnm,
    Bool.false_eq_true, ↓reduceIte, Option.isSome_some, Bool.not_false, Bool.not_true, Bool.and_self]

/-- (P)SUBSCRIBE / (P)UNSUBSCRIBE while a MULTI is open: refused at queue time, nothing is queued, the
transaction is marked failed (companion of `processCommand_queued`) -/
theorem processCommand_refused {s : Sys} (mode : Mode) (c : Nat) (nameB : Bytes) (args : List Bytes)
    {n : String} {sig : Sig} {q : List (String × List Bytes)}
    (hclosed : s.srv.closedSockets = [])
    (hname : commandName nameB = some n) (hus : n.startsWith "_" = false)
    (hfind : SigTable.find n = some sig) (harity : sig.checkArity args.length = true)
    (hnq : SigTable.notQueued.contains sig.name = false)
    (hnm : SigTable.notInMulti.contains sig.name = true)
    (htx : (s.conn c).tx = some q) :
    processCommand mode c (nameB :: args) s = (do
      let now ← nextClock
      modify fun s => { s with srv := { s.srv with time := now } }
      modifyConn c fun x => { x with txFailed := true }
      emit c (.err (strBytes Msgs.COMMAND_IN_MULTI_MSG)) : M Unit) s := by
  unfold processCommand
  simp only [bind, StateT.bind, getConn_run, hname, hus, hfind, cleanupClosed_run_nil hclosed, harity, htx, hnq, hnm,
    Bool.false_eq_true, ↓reduceIte, Option.isSome_some, Bool.not_false, Bool.not_true, Bool.and_self]


/-! ### PUBLISH -/

def chanDeliveries (srv : Server) (channel message : Bytes) : List (Nat × Reply) :=
  ((srv.subs.lookup channel).getD []).map
    (fun c => (c, Reply.arr [.bulk (strBytes "message"), .bulk channel, .bulk message]))

def patDeliveries (srv : Server) (channel message : Bytes) : List (Nat × Reply) :=
  (srv.psubs.filter (fun p => Glob.globMatch p.1 channel)).flatMap fun p =>
    p.2.map fun c => (c, Reply.arr [.bulk (strBytes "pmessage"), .bulk p.1, .bulk channel, .bulk message])

theorem deliveries_eq_append (srv : Server) (ch msg : Bytes) :
    deliveries srv ch msg = chanDeliveries srv ch msg ++ patDeliveries srv ch msg := rfl

theorem mem_deliveries (srv : Server) (ch msg : Bytes) (c : Nat) (r : Reply) :
    (c, r) ∈ deliveries srv ch msg ↔
      (c ∈ (srv.subs.lookup ch).getD [] ∧ r = .arr [.bulk (strBytes "message"), .bulk ch, .bulk msg]) ∨
      (∃ pat cs, (pat, cs) ∈ srv.psubs ∧ Glob.globMatch pat ch = true ∧ c ∈ cs ∧
        r = .arr [.bulk (strBytes "pmessage"), .bulk pat, .bulk ch, .bulk msg]) := by
  unfold deliveries
  simp only [List.mem_append, List.mem_map, List.mem_flatMap, List.mem_filter, Prod.mk.injEq, Prod.exists]
  constructor
  · rintro (⟨a, ha, rfl, rfl⟩ | ⟨pat, cs, ⟨hm, hg⟩, a, ha, rfl, rfl⟩)
    · exact .inl ⟨ha, rfl⟩
    · exact .inr ⟨pat, cs, hm, hg, ha, rfl⟩
  · rintro (⟨ha, rfl⟩ | ⟨pat, cs, hm, hg, ha, rfl⟩)
    · exact .inl ⟨c, ha, rfl, rfl⟩
    · exact .inr ⟨pat, cs, ⟨hm, hg⟩, c, ha, rfl, rfl⟩

theorem forM_cons_eq {m : Type → Type} [Monad m] {α} (a : α) (as : List α) (f : α → m PUnit) :
    (a :: as).forM f = (do f a; as.forM f) := rfl

theorem forM_emit_run (ds : List (Nat × Reply)) (s : Sys) :
    (ds.forM fun d => emit d.1 d.2) s =
      ((), { s with out := (ds.filter fun d => !(s.conn d.1).closed).reverse ++ s.out }) := by
  induction ds generalizing s with
  | nil => rfl
  | cons d ds ih =>
    rw [forM_cons_eq]
    simp only [bind, StateT.bind, emit_run, ih, Sys.emitS_conn]
    simp only [Sys.emitS, List.filter_cons]
    cases h : (s.conn d.1).closed <;> simp

theorem publish_run (ch msg : Bytes) (s : Sys) :
    publish ch msg s = ((deliveries s.srv ch msg).length,
      { s with out := ((deliveries s.srv ch msg).filter fun d => !(s.conn d.1).closed).reverse ++ s.out }) := by
  unfold publish
  simp only [bind, StateT.bind, get, getThe, MonadStateOf.get, StateT.get, forM_emit_run]
  rfl

/-! ### pub/sub tables -/

abbrev Tbl := List (Bytes × List Nat)

/-- the connections registered under `name` -/
def tblMembers (t : Tbl) (name : Bytes) : List Nat := (t.lookup name).getD []

theorem lookup_map_upd (t : Tbl) (n : Bytes) (g : List Nat → List Nat) :
    (t.map fun p => if p.1 == n then (p.1, g p.2) else p).lookup n = (t.lookup n).map g := by
  induction t with
  | nil => rfl
  | cons p t ih =>
    obtain ⟨k, v⟩ := p
    simp only [List.map_cons]
    by_cases h : k = n
    · subst h; simp
    · have h1 : (k == n) = false := by simpa using h
      have h2 : (n == k) = false := by simpa using fun e => h e.symm
      simp only [h1, Bool.false_eq_true, if_false, List.lookup_cons, h2, ih]

theorem lookup_map_upd_ne (t : Tbl) (n m : Bytes) (g : List Nat → List Nat) (hne : m ≠ n) :
    (t.map fun p => if p.1 == n then (p.1, g p.2) else p).lookup m = t.lookup m := by
  induction t with
  | nil => rfl
  | cons p t ih =>
    obtain ⟨k, v⟩ := p
    simp only [List.map_cons]
    by_cases h : k = n
    · subst h
      have h2 : (m == k) = false := by simpa using hne
      simp only [BEq.rfl, if_true, List.lookup_cons, h2, ih]
    · have h1 : (k == n) = false := by simpa using h
      simp only [h1, Bool.false_eq_true, if_false, List.lookup_cons, ih]

theorem lookup_filter_self (t : Tbl) (n : Bytes) : (t.filter fun p => p.1 != n).lookup n = none := by
  induction t with
  | nil => rfl
  | cons p t ih =>
    obtain ⟨k, v⟩ := p
    simp only [List.filter_cons]
    by_cases h : k = n
    · subst h; simp [ih]
    · have h1 : (k != n) = true := by simpa using h
      have h2 : (n == k) = false := by simpa using fun e => h e.symm
      simp only [h1, if_true, List.lookup_cons, h2, ih]

theorem lookup_append_none (t : Tbl) (n : Bytes) (v) (h : t.lookup n = none) :
    (t ++ [(n, v)]).lookup n = some v := by
  induction t with
  | nil => simp
  | cons p t ih =>
    obtain ⟨k, w⟩ := p
    simp only [List.lookup_cons, List.cons_append] at h ⊢
    cases hk : n == k
    · simp only [hk] at h; simp only [ih h]
    · simp [hk] at h


theorem lookup_filter_ne (t : Tbl) (n m : Bytes) (hne : m ≠ n) :
    (t.filter fun p => p.1 != n).lookup m = t.lookup m := by
  induction t with
  | nil => rfl
  | cons p t ih =>
    obtain ⟨k, v⟩ := p
    simp only [List.filter_cons]
    by_cases h : k = n
    · subst h
      have h2 : (m == k) = false := by simpa using hne
      simp [h2, ih, List.lookup_cons]
    · have h1 : (k != n) = true := by simpa using h
      simp only [h1, if_true, List.lookup_cons, ih]

theorem tblSubscribe_snd (t : Tbl) (n : Bytes) (c : Nat) :
    (tblSubscribe t n c).2 = !(tblMembers t n).contains c := by
  unfold tblSubscribe tblMembers
  cases h : t.lookup n with
  | none => simp
  | some cs => simp only [Option.getD_some]; split <;> simp_all

theorem tblSubscribe_members (t : Tbl) (n : Bytes) (c : Nat) :
    tblMembers (tblSubscribe t n c).1 n =
      if (tblMembers t n).contains c then tblMembers t n else tblMembers t n ++ [c] := by
  unfold tblSubscribe tblMembers
  cases h : t.lookup n with
  | none => simp [lookup_append_none _ _ _ h]
  | some cs =>
    simp only [Option.getD_some]
    split
    · simp [h]
    · rw [lookup_map_upd t n (· ++ [c]), h]; rfl

theorem tblSubscribe_members_ne (t : Tbl) (n m : Bytes) (c : Nat) (hne : m ≠ n) :
    tblMembers (tblSubscribe t n c).1 m = tblMembers t m := by
  unfold tblSubscribe tblMembers
  cases h : t.lookup n with
  | none =>
    have : (m == n) = false := by simpa using hne
    simp [List.lookup_append, List.lookup_cons, this]
  | some cs =>
    simp only
    split
    · rfl
    · rw [lookup_map_upd_ne t n m (· ++ [c]) hne]

theorem tblSubscribe_idem (t : Tbl) (n : Bytes) (c : Nat) :
    tblSubscribe (tblSubscribe t n c).1 n c = ((tblSubscribe t n c).1, false) := by
  have hm := tblSubscribe_members t n c
  have hc : (tblMembers (tblSubscribe t n c).1 n).contains c = true := by
    rw [hm]; split <;> simp_all
  generalize (tblSubscribe t n c).1 = t' at hc
  unfold tblMembers at hc
  unfold tblSubscribe
  cases h : t'.lookup n with
  | none => simp [h] at hc
  | some cs => simp only [h, Option.getD_some] at hc; simp only [hc, if_true]

theorem tblUnsubscribe_snd (t : Tbl) (n : Bytes) (c : Nat) :
    (tblUnsubscribe t n c).2 = (tblMembers t n).contains c := by
  unfold tblUnsubscribe tblMembers
  cases h : t.lookup n with
  | none => simp
  | some cs => simp only [Option.getD_some]; split <;> simp_all

theorem filter_ne_of_not_contains (cs : List Nat) (c : Nat) (h : cs.contains c = false) :
    cs.filter (· != c) = cs := by
  rw [List.filter_eq_self]
  intro a ha
  have : a ≠ c := by rintro rfl; simp_all
  simpa using this

theorem tblUnsubscribe_members (t : Tbl) (n : Bytes) (c : Nat) :
    tblMembers (tblUnsubscribe t n c).1 n = (tblMembers t n).filter (· != c) := by
  unfold tblUnsubscribe tblMembers
  cases h : t.lookup n with
  | none => simp [h]
  | some cs =>
    simp only [Option.getD_some]
    split
    · split
      · rename_i he
        rw [lookup_filter_self]
        simp only [List.isEmpty_iff] at he
        simp [he]
      · rw [lookup_map_upd t n (fun _ => cs.filter (· != c)), h]; rfl
    · rename_i hc
      rw [h, filter_ne_of_not_contains _ _ (by simpa using hc)]; rfl

theorem tblUnsubscribe_members_ne (t : Tbl) (n m : Bytes) (c : Nat) (hne : m ≠ n) :
    tblMembers (tblUnsubscribe t n c).1 m = tblMembers t m := by
  unfold tblUnsubscribe tblMembers
  cases h : t.lookup n with
  | none => rfl
  | some cs =>
    simp only
    split
    · split
      · rw [lookup_filter_ne t n m hne]
      · rw [lookup_map_upd_ne t n m (fun _ => cs.filter (· != c)) hne]
    · rfl

theorem tblUnsubscribe_idem (t : Tbl) (n : Bytes) (c : Nat) :
    tblUnsubscribe (tblUnsubscribe t n c).1 n c = ((tblUnsubscribe t n c).1, false) := by
  have hm := tblUnsubscribe_members t n c
  have hc : (tblMembers (tblUnsubscribe t n c).1 n).contains c = false := by
    rw [hm]; simp
  generalize (tblUnsubscribe t n c).1 = t' at hc
  unfold tblMembers at hc
  unfold tblUnsubscribe
  cases h : t'.lookup n with
  | none => rfl
  | some cs => simp only [h, Option.getD_some] at hc; simp only [hc, Bool.false_eq_true, if_false]

theorem tblUnsubscribe_unknown (t : Tbl) (n : Bytes) (c : Nat) (h : (tblMembers t n).contains c = false) :
    tblUnsubscribe t n c = (t, false) := by
  unfold tblMembers at h
  unfold tblUnsubscribe
  cases h' : t.lookup n with
  | none => rfl
  | some cs => simp only [h', Option.getD_some] at h; simp only [h, Bool.false_eq_true, if_false]



/-! ### SUBSCRIBE / UNSUBSCRIBE -/

def Sys.tbl (s : Sys) (pattern : Bool) : Tbl := if pattern then s.srv.psubs else s.srv.subs

def Sys.setTbl (s : Sys) (pattern : Bool) (t : Tbl) : Sys :=
  { s with srv := if pattern then { s.srv with psubs := t } else { s.srv with subs := t } }

theorem Sys.setTbl_conns (s : Sys) (p t) : (s.setTbl p t).srv.conns = s.srv.conns := by
  unfold Sys.setTbl; cases p <;> rfl
theorem Sys.setTbl_dbs (s : Sys) (p t) : (s.setTbl p t).srv.dbs = s.srv.dbs := by
  unfold Sys.setTbl; cases p <;> rfl
theorem Sys.setTbl_out (s : Sys) (p t) : (s.setTbl p t).out = s.out := rfl
theorem Sys.setTbl_conn (s : Sys) (p t c) : (s.setTbl p t).conn c = s.conn c := by
  simp only [Sys.conn_def, Sys.setTbl_conns]
theorem Sys.setTbl_hasConn (s : Sys) (p t c) : (s.setTbl p t).HasConn c ↔ s.HasConn c := by
  simp only [Sys.HasConn, Sys.setTbl_conns]
theorem Sys.setTbl_tbl (s : Sys) (p t) : (s.setTbl p t).tbl p = t := by
  unfold Sys.setTbl Sys.tbl; cases p <;> rfl

def subAck (pattern : Bool) (name : Bytes) (count : Nat) : Reply :=
  .arr [.bulk (strBytes (if pattern then "psubscribe" else "subscribe")), .bulk name, .int count]

/-- the state after subscribing to one name, before the acknowledgement -/
def Sys.subState (s : Sys) (c : Nat) (pattern : Bool) (name : Bytes) : Sys :=
  let r := tblSubscribe (s.tbl pattern) name c
  let s1 := s.setTbl pattern r.1
  if r.2 then s1.updConn c fun x => { x with pubsub := x.pubsub + 1 } else s1

def subStep (c : Nat) (pattern : Bool) (name : Bytes) : M Unit := do
  let s ← get
  let t := if pattern then s.srv.psubs else s.srv.subs
  let (t', added) := tblSubscribe t name c
  modify fun s => { s with srv := if pattern then { s.srv with psubs := t' } else { s.srv with subs := t' } }
  if added then modifyConn c fun x => { x with pubsub := x.pubsub + 1 }
  let conn ← getConn c
  emit c (.arr [.bulk (strBytes (if pattern then "psubscribe" else "subscribe")), .bulk name, .int conn.pubsub])

theorem subscribeGen_eq (c : Nat) (pattern : Bool) (names : List Bytes) :
    subscribeGen c pattern names = names.forM (subStep c pattern) := rfl

theorem subStep_run (c : Nat) (pattern : Bool) (name : Bytes) (s : Sys) :
    subStep c pattern name s =
      ((), (s.subState c pattern name).emitS c (subAck pattern name ((s.subState c pattern name).conn c).pubsub)) := by
  unfold subStep Sys.subState
  simp only [bind, StateT.bind, get, getThe, MonadStateOf.get, StateT.get]
  cases h : (tblSubscribe (s.tbl pattern) name c).2 <;>
  · have h' : (tblSubscribe (if pattern then s.srv.psubs else s.srv.subs) name c).2 = _ := h
    simp only [pure, h', Bool.false_eq_true, if_false, if_true, StateT.bind, emit_run, getConn_run,
      modifyConn_run, modify, modifyGet, MonadStateOf.modifyGet, StateT.modifyGet]
    rfl

theorem Sys.conn_updConn_proj {β} (s : Sys) (c c' : Nat) (f : Conn → Conn) (p : Conn → β)
    (hf : ∀ x, (f x).id = x.id) (hp : ∀ x, p (f x) = p x) :
    p ((s.updConn c f).conn c') = p (s.conn c') := by
  simp only [Sys.conn_def, Sys.updConn, find_map_upd _ _ _ _ hf]
  cases s.srv.conns.find? (·.id == c') with
  | none => rfl
  | some x =>
    simp only [Option.map_some, Option.getD_some]
    split
    · exact hp x
    · rfl

theorem Sys.subState_proj {β} (s : Sys) (c c' : Nat) (pattern : Bool) (name : Bytes) (p : Conn → β)
    (hp : ∀ (x : Conn) n, p { x with pubsub := n } = p x) :
    p ((s.subState c pattern name).conn c') = p (s.conn c') := by
  unfold Sys.subState
  simp only
  split
  · refine (Sys.conn_updConn_proj _ c c' (fun x => { x with pubsub := x.pubsub + 1 }) p (fun _ => rfl) (fun x => hp x _)).trans ?_
    rw [Sys.setTbl_conn]
  · rw [Sys.setTbl_conn]

theorem Sys.subState_out (s : Sys) (c : Nat) (pattern : Bool) (name : Bytes) :
    (s.subState c pattern name).out = s.out := by
  unfold Sys.subState; simp only; split <;> rfl

theorem Sys.subState_dbs (s : Sys) (c : Nat) (pattern : Bool) (name : Bytes) :
    (s.subState c pattern name).srv.dbs = s.srv.dbs := by
  unfold Sys.subState; simp only; split <;> simp only [Sys.updConn_dbs, Sys.setTbl_dbs]

theorem Sys.subState_tbl (s : Sys) (c : Nat) (pattern : Bool) (name : Bytes) :
    (s.subState c pattern name).tbl pattern = (tblSubscribe (s.tbl pattern) name c).1 := by
  unfold Sys.subState; simp only; split
  · exact Sys.setTbl_tbl ..
  · exact Sys.setTbl_tbl ..

theorem Sys.subState_pubsub (s : Sys) (c : Nat) (pattern : Bool) (name : Bytes) (hc : s.HasConn c) :
    ((s.subState c pattern name).conn c).pubsub =
      (s.conn c).pubsub + if (tblMembers (s.tbl pattern) name).contains c then 0 else 1 := by
  unfold Sys.subState
  simp only [tblSubscribe_snd]
  cases (tblMembers (s.tbl pattern) name).contains c
  · simp only [Bool.not_false, if_true, Bool.false_eq_true, if_false]
    refine (congrArg Conn.pubsub (Sys.conn_updConn_same (fun x => { x with pubsub := x.pubsub + 1 })
      ((Sys.setTbl_hasConn ..).2 hc) (fun _ => rfl))).trans ?_
    rw [Sys.setTbl_conn]
  · simp only [Bool.not_true, Bool.false_eq_true, if_false, if_true, Sys.setTbl_conn, Nat.add_zero]

theorem subscribeGen_single_run (c : Nat) (pattern : Bool) (name : Bytes) (s : Sys) :
    subscribeGen c pattern [name] s =
      ((), (s.subState c pattern name).emitS c (subAck pattern name ((s.subState c pattern name).conn c).pubsub)) := by
  rw [subscribeGen_eq, forM_cons_eq]
  simp only [bind, StateT.bind, subStep_run]
  rfl

theorem subscribeGen_out (c : Nat) (pattern : Bool) (names : List Bytes) (s : Sys)
    (hopen : (s.conn c).closed = false) :
    ∃ acks : List (Nat × Reply), (subscribeGen c pattern names s).2.out = acks ++ s.out ∧
      acks.length = names.length ∧ ∀ a ∈ acks, a.1 = c := by
  rw [subscribeGen_eq]
  induction names generalizing s with
  | nil => exact ⟨[], rfl, rfl, by simp⟩
  | cons n ns ih =>
    rw [forM_cons_eq]
    simp only [bind, StateT.bind, subStep_run]
    have h1 : ((s.subState c pattern n).conn c).closed = false := by
      rw [Sys.subState_proj _ _ _ _ _ Conn.closed (fun _ _ => rfl)]; exact hopen
    obtain ⟨acks, h2, h3, h4⟩ := ih ((s.subState c pattern n).emitS c
      (subAck pattern n ((s.subState c pattern n).conn c).pubsub)) (by rw [Sys.emitS_conn]; exact h1)
    refine ⟨acks ++ [(c, subAck pattern n ((s.subState c pattern n).conn c).pubsub)], ?_, ?_, ?_⟩
    · rw [h2, Sys.emitS_out, h1, Sys.subState_out]; simp
    · simp [h3]
    · intro a ha
      rcases List.mem_append.1 ha with h | h
      · exact h4 a h
      · simp at h; rw [h]

theorem subscribeGen_closed_out (c : Nat) (pattern : Bool) (names : List Bytes) (s : Sys)
    (hcl : (s.conn c).closed = true) : (subscribeGen c pattern names s).2.out = s.out := by
  rw [subscribeGen_eq]
  induction names generalizing s with
  | nil => rfl
  | cons n ns ih =>
    rw [forM_cons_eq]
    simp only [bind, StateT.bind, subStep_run]
    have h1 : ((s.subState c pattern n).conn c).closed = true := by
      rw [Sys.subState_proj _ _ _ _ _ Conn.closed (fun _ _ => rfl)]; exact hcl
    rw [ih _ (by rw [Sys.emitS_conn]; exact h1), Sys.emitS_out, h1, Sys.subState_out]; rfl



def unsubType (pattern : Bool) : Bytes := strBytes (if pattern then "punsubscribe" else "unsubscribe")

def unsubAck (pattern : Bool) (name : Bytes) (count : Nat) : Reply :=
  .arr [.bulk (unsubType pattern), .bulk name, .int count]

def Sys.unsubState (s : Sys) (c : Nat) (pattern : Bool) (name : Bytes) : Sys :=
  let r := tblUnsubscribe (s.tbl pattern) name c
  let s1 := s.setTbl pattern r.1
  if r.2 then s1.updConn c fun x => { x with pubsub := x.pubsub - 1 } else s1

def unsubStep (c : Nat) (pattern : Bool) (name : Bytes) : M Unit := do
  let s ← get
  let t := if pattern then s.srv.psubs else s.srv.subs
  let (t', removed) := tblUnsubscribe t name c
  modify fun s => { s with srv := if pattern then { s.srv with psubs := t' } else { s.srv with subs := t' } }
  if removed then modifyConn c fun x => { x with pubsub := x.pubsub - 1 }
  let conn ← getConn c
  emit c (.arr [.bulk (unsubType pattern), .bulk name, .int conn.pubsub])

theorem unsubStep_run (c : Nat) (pattern : Bool) (name : Bytes) (s : Sys) :
    unsubStep c pattern name s =
      ((), (s.unsubState c pattern name).emitS c (unsubAck pattern name ((s.unsubState c pattern name).conn c).pubsub)) := by
  unfold unsubStep Sys.unsubState
  simp only [bind, StateT.bind, get, getThe, MonadStateOf.get, StateT.get]
  cases h : (tblUnsubscribe (s.tbl pattern) name c).2 <;>
  · have h' : (tblUnsubscribe (if pattern then s.srv.psubs else s.srv.subs) name c).2 = _ := h
    simp only [pure, h', Bool.false_eq_true, if_false, if_true, StateT.bind, emit_run, getConn_run,
      modifyConn_run, modify, modifyGet, MonadStateOf.modifyGet, StateT.modifyGet]
    rfl

/-- the names `UNSUBSCRIBE` without arguments expands to -/
def Sys.subscribedNames (s : Sys) (c : Nat) (pattern : Bool) : List Bytes :=
  ((s.tbl pattern).filter fun p => p.2.contains c).map Prod.fst

theorem unsubscribeGen_explicit (c : Nat) (pattern : Bool) (names : List Bytes) (s : Sys) (h : names ≠ []) :
    unsubscribeGen c pattern names s = names.forM (unsubStep c pattern) s := by
  unfold unsubscribeGen
  have : names.isEmpty = false := by cases names <;> simp_all
  simp only [bind, StateT.bind, get, getThe, MonadStateOf.get, StateT.get, this, pure, StateT.pure,
    Bool.not_false, Bool.not_true, Bool.false_and, Bool.false_eq_true, if_false, if_true]
  rfl

theorem unsubscribeGen_nil_none (c : Nat) (pattern : Bool) (s : Sys) (h : s.subscribedNames c pattern = []) :
    unsubscribeGen c pattern [] s =
      ((), s.emitS c (.arr [.bulk (unsubType pattern), .nil, .int (s.conn c).pubsub])) := by
  unfold unsubscribeGen
  have h' : (List.filter (fun p => p.2.contains c) (if pattern then s.srv.psubs else s.srv.subs)).map Prod.fst = [] := h
  simp only [bind, StateT.bind, get, getThe, MonadStateOf.get, StateT.get, pure, StateT.pure, List.isEmpty_nil,
    Bool.not_false, Bool.not_true, Bool.true_and, Bool.false_eq_true, if_false, if_true, h', getConn_run, emit_run]
  rfl

theorem unsubscribeGen_nil_some (c : Nat) (pattern : Bool) (s : Sys) (h : s.subscribedNames c pattern ≠ []) :
    unsubscribeGen c pattern [] s = (s.subscribedNames c pattern).forM (unsubStep c pattern) s := by
  unfold unsubscribeGen
  have h' : ((List.filter (fun p => p.2.contains c) (if pattern then s.srv.psubs else s.srv.subs)).map Prod.fst).isEmpty = false := by
    have : (s.subscribedNames c pattern).isEmpty = false := by
      cases h2 : s.subscribedNames c pattern <;> simp_all
    exact this
  simp only [bind, StateT.bind, get, getThe, MonadStateOf.get, StateT.get, pure, StateT.pure, List.isEmpty_nil,
    Bool.not_false, Bool.not_true, Bool.true_and, Bool.false_eq_true, if_false, if_true, h']
  rfl


/-! generic lemmas about a `forM` of acknowledged steps -/

theorem forM_ack_out (c : Nat) (step : Bytes → M Unit) (st : Sys → Bytes → Sys) (ack : Sys → Bytes → Reply)
    (hrun : ∀ n s, step n s = ((), (st s n).emitS c (ack s n)))
    (hcl : ∀ s n, ((st s n).conn c).closed = (s.conn c).closed)
    (hout : ∀ s n, (st s n).out = s.out) (names : List Bytes) (s : Sys)
    (hopen : (s.conn c).closed = false) :
    ∃ acks : List (Nat × Reply), (names.forM step s).2.out = acks ++ s.out ∧
      acks.length = names.length ∧ ∀ a ∈ acks, a.1 = c := by
  induction names generalizing s with
  | nil => exact ⟨[], rfl, rfl, by simp⟩
  | cons n ns ih =>
    rw [forM_cons_eq]
    simp only [bind, StateT.bind, hrun]
    have h1 : ((st s n).conn c).closed = false := by rw [hcl]; exact hopen
    obtain ⟨acks, h2, h3, h4⟩ := ih ((st s n).emitS c (ack s n)) (by rw [Sys.emitS_conn]; exact h1)
    refine ⟨acks ++ [(c, ack s n)], ?_, ?_, ?_⟩
    · rw [h2, Sys.emitS_out, h1, hout]; simp
    · simp [h3]
    · intro a ha
      rcases List.mem_append.1 ha with h | h
      · exact h4 a h
      · simp at h; rw [h]

theorem forM_ack_frame {β} (P : Sys → β) (c : Nat) (step : Bytes → M Unit) (st : Sys → Bytes → Sys)
    (ack : Sys → Bytes → Reply)
    (hrun : ∀ n s, step n s = ((), (st s n).emitS c (ack s n)))
    (hst : ∀ s n, P (st s n) = P s) (hemit : ∀ s r, P (s.emitS c r) = P s)
    (names : List Bytes) (s : Sys) : P (names.forM step s).2 = P s := by
  induction names generalizing s with
  | nil => rfl
  | cons n ns ih =>
    rw [forM_cons_eq]
    simp only [bind, StateT.bind, hrun]
    rw [ih, hemit, hst]

theorem Sys.unsubState_proj {β} (s : Sys) (c c' : Nat) (pattern : Bool) (name : Bytes) (p : Conn → β)
    (hp : ∀ (x : Conn) n, p { x with pubsub := n } = p x) :
    p ((s.unsubState c pattern name).conn c') = p (s.conn c') := by
  unfold Sys.unsubState
  simp only
  split
  · refine (Sys.conn_updConn_proj _ c c' (fun x => { x with pubsub := x.pubsub - 1 }) p (fun _ => rfl) (fun x => hp x _)).trans ?_
    rw [Sys.setTbl_conn]
  · rw [Sys.setTbl_conn]

theorem Sys.unsubState_out (s : Sys) (c : Nat) (pattern : Bool) (name : Bytes) :
    (s.unsubState c pattern name).out = s.out := by
  unfold Sys.unsubState; simp only; split <;> rfl

theorem Sys.unsubState_dbs (s : Sys) (c : Nat) (pattern : Bool) (name : Bytes) :
    (s.unsubState c pattern name).srv.dbs = s.srv.dbs := by
  unfold Sys.unsubState; simp only; split <;> simp only [Sys.updConn_dbs, Sys.setTbl_dbs]

theorem Sys.unsubState_tbl (s : Sys) (c : Nat) (pattern : Bool) (name : Bytes) :
    (s.unsubState c pattern name).tbl pattern = (tblUnsubscribe (s.tbl pattern) name c).1 := by
  unfold Sys.unsubState; simp only; split
  · exact Sys.setTbl_tbl ..
  · exact Sys.setTbl_tbl ..

theorem Sys.unsubState_pubsub (s : Sys) (c : Nat) (pattern : Bool) (name : Bytes) (hc : s.HasConn c) :
    ((s.unsubState c pattern name).conn c).pubsub =
      (s.conn c).pubsub - if (tblMembers (s.tbl pattern) name).contains c then 1 else 0 := by
  unfold Sys.unsubState
  simp only [tblUnsubscribe_snd]
  cases (tblMembers (s.tbl pattern) name).contains c
  · simp only [Bool.false_eq_true, if_false, Sys.setTbl_conn, Nat.sub_zero]
  · simp only [if_true]
    refine (congrArg Conn.pubsub (Sys.conn_updConn_same (fun x => { x with pubsub := x.pubsub - 1 })
      ((Sys.setTbl_hasConn ..).2 hc) (fun _ => rfl))).trans ?_
    rw [Sys.setTbl_conn]

theorem Sys.setTbl_self (s : Sys) (p : Bool) : s.setTbl p (s.tbl p) = s := by
  unfold Sys.setTbl Sys.tbl; cases p <;> rfl

theorem Sys.unsubState_unknown (s : Sys) (c : Nat) (pattern : Bool) (name : Bytes)
    (h : (tblMembers (s.tbl pattern) name).contains c = false) : s.unsubState c pattern name = s := by
  unfold Sys.unsubState
  simp only [tblUnsubscribe_unknown _ _ _ h, Bool.false_eq_true, if_false, Sys.setTbl_self]

theorem unsubscribeGen_single_run (c : Nat) (pattern : Bool) (name : Bytes) (s : Sys) :
    unsubscribeGen c pattern [name] s =
      ((), (s.unsubState c pattern name).emitS c (unsubAck pattern name ((s.unsubState c pattern name).conn c).pubsub)) := by
  rw [unsubscribeGen_explicit _ _ _ _ (by simp), forM_cons_eq]
  simp only [bind, StateT.bind, unsubStep_run]
  rfl

theorem forM_unsubStep_out (c : Nat) (pattern : Bool) (names : List Bytes) (s : Sys)
    (hopen : (s.conn c).closed = false) :
    ∃ acks : List (Nat × Reply), (names.forM (unsubStep c pattern) s).2.out = acks ++ s.out ∧
      acks.length = names.length ∧ ∀ a ∈ acks, a.1 = c :=
  forM_ack_out c _ (fun s n => s.unsubState c pattern n)
    (fun s n => unsubAck pattern n ((s.unsubState c pattern n).conn c).pubsub)
    (fun n s => unsubStep_run c pattern n s)
    (fun s n => Sys.unsubState_proj s c c pattern n Conn.closed (fun _ _ => rfl))
    (fun s n => Sys.unsubState_out s c pattern n) names s hopen

theorem unsubscribeGen_out (c : Nat) (pattern : Bool) (names : List Bytes) (s : Sys)
    (hopen : (s.conn c).closed = false) :
    ∃ acks : List (Nat × Reply), (unsubscribeGen c pattern names s).2.out = acks ++ s.out ∧
      acks.length = (if names = [] then max 1 (s.subscribedNames c pattern).length else names.length) ∧
      ∀ a ∈ acks, a.1 = c := by
  by_cases hn : names = []
  · subst hn
    by_cases hs : s.subscribedNames c pattern = []
    · rw [unsubscribeGen_nil_none _ _ _ hs]
      refine ⟨[(c, .arr [.bulk (unsubType pattern), .nil, .int (s.conn c).pubsub])], ?_, by simp [hs], by simp⟩
      rw [Sys.emitS_out, hopen]; rfl
    · rw [unsubscribeGen_nil_some _ _ _ hs]
      obtain ⟨acks, h1, h2, h3⟩ := forM_unsubStep_out c pattern (s.subscribedNames c pattern) s hopen
      refine ⟨acks, h1, ?_, h3⟩
      have : 1 ≤ (s.subscribedNames c pattern).length := by
        cases h : s.subscribedNames c pattern <;> simp_all
      simp only [if_true, h2]; omega
  · rw [unsubscribeGen_explicit _ _ _ _ hn]
    simp only [hn, if_false]
    exact forM_unsubStep_out c pattern names s hopen

theorem forM_subStep_frame {β} (P : Sys → β) (c : Nat) (pattern : Bool)
    (hst : ∀ s n, P (s.subState c pattern n) = P s) (hemit : ∀ s r, P (s.emitS c r) = P s)
    (names : List Bytes) (s : Sys) : P (subscribeGen c pattern names s).2 = P s :=
  forM_ack_frame P c _ (fun s n => s.subState c pattern n)
    (fun s n => subAck pattern n ((s.subState c pattern n).conn c).pubsub)
    (fun n s => subStep_run c pattern n s) hst hemit names s

theorem forM_unsubStep_frame {β} (P : Sys → β) (c : Nat) (pattern : Bool)
    (hst : ∀ s n, P (s.unsubState c pattern n) = P s) (hemit : ∀ s r, P (s.emitS c r) = P s)
    (names : List Bytes) (s : Sys) : P (names.forM (unsubStep c pattern) s).2 = P s :=
  forM_ack_frame P c _ (fun s n => s.unsubState c pattern n)
    (fun s n => unsubAck pattern n ((s.unsubState c pattern n).conn c).pubsub)
    (fun n s => unsubStep_run c pattern n s) hst hemit names s

theorem unsubscribeGen_frame {β} (P : Sys → β) (c : Nat) (pattern : Bool)
    (hst : ∀ s n, P (s.unsubState c pattern n) = P s) (hemit : ∀ s r, P (s.emitS c r) = P s)
    (names : List Bytes) (s : Sys) : P (unsubscribeGen c pattern names s).2 = P s := by
  by_cases hn : names = []
  · subst hn
    by_cases hs : s.subscribedNames c pattern = []
    · rw [unsubscribeGen_nil_none _ _ _ hs]; exact hemit ..
    · rw [unsubscribeGen_nil_some _ _ _ hs]; exact forM_unsubStep_frame P c pattern hst hemit _ s
  · rw [unsubscribeGen_explicit _ _ _ _ hn]; exact forM_unsubStep_frame P c pattern hst hemit _ s



theorem watchCmd_run_some {s : Sys} {c : Nat} (d : Nat) (args : List Arg) (cis : List CI)
    (h : (s.conn c).tx.isSome) : watchCmd c d args cis s = (.error Msgs.WATCH_INSIDE_MULTI_MSG, s) := by
  unfold watchCmd
  simp only [bind, StateT.bind, getConn_run, h]
  rfl

theorem nextClock_run (s : Sys) : nextClock s =
    match s.clocks with
    | t :: rest => (t, { s with clocks := rest })
    | [] => (s.srv.time, if s.fault.isNone then { s with fault := some "clock readings exhausted" } else s) := by
  obtain ⟨srv, out, clocks, picks, flt, crashed⟩ := s
  cases clocks <;> rfl

theorem nextClock_srv (s : Sys) : (nextClock s).2.srv = s.srv := by
  rw [nextClock_run]
  split
  · rfl
  · simp only; split <;> rfl

theorem nextClock_out (s : Sys) : (nextClock s).2.out = s.out := by
  rw [nextClock_run]
  split
  · rfl
  · simp only; split <;> rfl

/-- the state after the clock refresh of `_process_command` -/
def Sys.refresh (s : Sys) : Sys :=
  { (nextClock s).2 with srv := { (nextClock s).2.srv with time := (nextClock s).1 } }

theorem Sys.refresh_conn (s : Sys) (c : Nat) : s.refresh.conn c = s.conn c := by
  simp only [Sys.conn_def, Sys.refresh, nextClock_srv]
theorem Sys.refresh_hasConn (s : Sys) (c : Nat) : s.refresh.HasConn c ↔ s.HasConn c := by
  simp only [Sys.HasConn, Sys.refresh, nextClock_srv]
theorem Sys.refresh_out (s : Sys) : s.refresh.out = s.out := nextClock_out s
theorem Sys.refresh_dbs (s : Sys) : s.refresh.srv.dbs = s.srv.dbs := by
  simp only [Sys.refresh, nextClock_srv]
theorem Sys.refresh_subs (s : Sys) : s.refresh.srv.subs = s.srv.subs := by
  simp only [Sys.refresh, nextClock_srv]
theorem Sys.refresh_psubs (s : Sys) : s.refresh.srv.psubs = s.srv.psubs := by
  simp only [Sys.refresh, nextClock_srv]

theorem processCommand_queued_state {s : Sys} (mode : Mode) (c : Nat) (nameB : Bytes) (args : List Bytes)
    {n : String} {sig : Sig} {q : List (String × List Bytes)}
    (hclosed : s.srv.closedSockets = [])
    (hname : commandName nameB = some n) (hus : n.startsWith "_" = false)
    (hfind : SigTable.find n = some sig) (harity : sig.checkArity args.length = true)
    (hnq : SigTable.notQueued.contains sig.name = false)
    (hnm : SigTable.notInMulti.contains sig.name = false)
    (htx : (s.conn c).tx = some q) :
    processCommand mode c (nameB :: args) s = ((),
      (s.refresh.updConn c fun x => { x with tx := x.tx.map (· ++ [(sig.name, args)]) }).emitS c .queued) := by
  rw [processCommand_queued mode c nameB args hclosed hname hus hfind harity hnq hnm htx]
  simp only [bind, StateT.bind, modifyConn_run, emit_run]
  rfl

/-- the refused (P)SUBSCRIBE / (P)UNSUBSCRIBE inside MULTI: only the clock refresh, `txFailed`, the error reply -/
theorem processCommand_refused_state {s : Sys} (mode : Mode) (c : Nat) (nameB : Bytes) (args : List Bytes)
    {n : String} {sig : Sig} {q : List (String × List Bytes)}
    (hclosed : s.srv.closedSockets = [])
    (hname : commandName nameB = some n) (hus : n.startsWith "_" = false)
    (hfind : SigTable.find n = some sig) (harity : sig.checkArity args.length = true)
    (hnq : SigTable.notQueued.contains sig.name = false)
    (hnm : SigTable.notInMulti.contains sig.name = true)
    (htx : (s.conn c).tx = some q) :
    processCommand mode c (nameB :: args) s = ((),
      (s.refresh.updConn c fun x => { x with txFailed := true }).emitS c
        (.err (strBytes Msgs.COMMAND_IN_MULTI_MSG))) := by
  rw [processCommand_refused mode c nameB args hclosed hname hus hfind harity hnq hnm htx]
  simp only [bind, StateT.bind, modifyConn_run, emit_run]
  rfl



/-! ### regular commands through `runWith` -/

def Sys.mapConns (s : Sys) (g : Conn → Conn) : Sys :=
  { s with srv := { s.srv with conns := s.srv.conns.map g } }

theorem Sys.conn_mapConns_pred (s : Sys) (g : Conn → Conn) (c : Nat) (Q : Conn → Prop)
    (hid : ∀ x, (g x).id = x.id) (hg : ∀ x, Q x → Q (g x)) (h : Q (s.conn c)) :
    Q ((s.mapConns g).conn c) := by
  simp only [Sys.conn_def, Sys.mapConns, List.find?_map] at h ⊢
  have : ((fun x : Conn => x.id == c) ∘ g) = fun x : Conn => x.id == c := by
    funext x; simp only [Function.comp, hid]
  rw [this]
  cases h' : s.srv.conns.find? (·.id == c) with
  | none => rw [h'] at h; exact h
  | some x => rw [h'] at h; exact hg x h

theorem Sys.updConn_eq_mapConns (s : Sys) (c : Nat) (f : Conn → Conn) :
    s.updConn c f = s.mapConns fun x => if x.id == c then f x else x := rfl

theorem Sys.conn_updConn_pred (s : Sys) (c c' : Nat) (f : Conn → Conn) (Q : Conn → Prop)
    (hid : ∀ x, (f x).id = x.id) (hf : ∀ x, Q x → Q (f x)) (h : Q (s.conn c')) :
    Q ((s.updConn c f).conn c') := by
  rw [Sys.updConn_eq_mapConns]
  apply Sys.conn_mapConns_pred _ _ _ Q _ _ h
  · intro x; split <;> simp [hid]
  · intro x hx; split
    · exact hf x hx
    · exact hx

def notifyFn (d : Nat) (key : Bytes) (x : Conn) : Conn :=
  let x := if x.watches.contains (d, key) then { x with watchNotified := true } else x
  match x.parked with
  | some p => if p.db == d then { x with parked := some { p with woken := true } } else x
  | none => x

theorem notifyWatch_run (d : Nat) (key : Bytes) (s : Sys) :
    notifyWatch d key s = ((), s.mapConns (notifyFn d key)) := rfl

theorem forM_notifyWatch_frame {β} (P : Sys → β) (hP : ∀ s g, P (s.mapConns g) = P s)
    (d : Nat) (ks : List Bytes) (s : Sys) : P (ks.forM (notifyWatch d) s).2 = P s := by
  induction ks generalizing s with
  | nil => rfl
  | cons k ks ih =>
    rw [forM_cons_eq]
    simp only [bind, StateT.bind, notifyWatch_run]
    rw [ih, hP]

/-- normal (non-transaction, nothing watched) mode of a connection -/
def Conn.normal (x : Conn) : Prop := x.tx = none ∧ x.watches = [] ∧ x.watchNotified = false

theorem notifyFn_id (d key x) : (notifyFn d key x).id = x.id := by
  unfold notifyFn; simp only; split <;> split <;> (try split) <;> rfl

theorem notifyFn_normal (d key x) (h : Conn.normal x) : Conn.normal (notifyFn d key x) := by
  obtain ⟨h1, h2, h3⟩ := h
  unfold notifyFn
  simp only [h2, List.contains_nil, Bool.false_eq_true, if_false]
  split
  · split
    · exact ⟨h1, rfl, h3⟩
    · exact ⟨h1, h2, h3⟩
  · exact ⟨h1, h2, h3⟩

theorem forM_notifyWatch_pred (Q : Conn → Prop) (hQ : ∀ d key x, Q x → Q (notifyFn d key x))
    (d : Nat) (ks : List Bytes) (c : Nat) (s : Sys)
    (h : Q (s.conn c)) : Q ((ks.forM (notifyWatch d) s).2.conn c) := by
  induction ks generalizing s with
  | nil => exact h
  | cons k ks ih =>
    rw [forM_cons_eq]
    simp only [bind, StateT.bind, notifyWatch_run]
    exact ih _ (Sys.conn_mapConns_pred _ _ _ Q (notifyFn_id d k) (hQ d k) h)

def Sys.faultS (s : Sys) (f : Option String) : Sys :=
  match f with
  | some msg => if s.fault.isNone then { s with fault := some msg } else s
  | none => s

theorem Sys.faultS_srv (s : Sys) (f) : (s.faultS f).srv = s.srv := by
  unfold Sys.faultS; split
  · split <;> rfl
  · rfl

/-- the outcome of the pure runner for a regular command issued on connection `c` in state `s` -/
def Sys.regularOut (s : Sys) (c : Nat) (sig : Sig) (body : Body) (raw : List Bytes) (fromScript : Bool) : RunOut :=
  runRegular sig body
    { version := s.srv.version, time := s.srv.time, dbnum := (s.conn c).db, inTx := (s.conn c).inTx, picks := s.picks }
    (runGate sig fromScript ((s.conn c).pubsub > 0)) raw ⟨s.srv.dbs.getD (s.conn c).db [], s.srv.time⟩

def Sys.afterRegular (s : Sys) (d : Nat) (o : RunOut) : Sys :=
  (o.notified.forM (notifyWatch d)
    (Sys.faultS { s with srv := { s.srv with dbs := s.srv.dbs.set d o.db.dict }, picks := s.picks.drop o.picksUsed }
      o.fault)).2

/-! #### the subscriber-mode check at the head of `_run_command`

A subscribed connection that issues a command outside the allow-list is refused before the arguments are looked at:
the reply is the context error and the state is literally unchanged. -/

/-- `_run_command` refuses the command: the connection is in subscriber mode and the command is not on the allow-list -/
def Sys.refuses (s : Sys) (c : Nat) (sig : Sig) : Bool :=
  decide ((s.conn c).pubsub > 0) && !SigTable.pubsubAllowed.contains sig.name

/-- the reply of a refused command -/
def refusalReply : Reply := .err (strBytes Msgs.BAD_COMMAND_IN_PUBSUB_MSG)

theorem Sys.refuses_eq_true {s : Sys} {c : Nat} {sig : Sig} :
    s.refuses c sig = true ↔ (s.conn c).pubsub > 0 ∧ sig.name ∉ SigTable.pubsubAllowed := by
  simp [Sys.refuses]

theorem Sys.refuses_eq_false {s : Sys} {c : Nat} {sig : Sig} :
    s.refuses c sig = false ↔ ((s.conn c).pubsub = 0 ∨ SigTable.pubsubAllowed.contains sig.name = true) := by
  simp only [Sys.refuses, Bool.and_eq_false_iff, decide_eq_false_iff_not, Bool.not_eq_false', Nat.not_lt,
    Nat.le_zero_eq, gt_iff_lt]

theorem Sys.refuses_of_unsubscribed {s : Sys} {c : Nat} (sig : Sig) (h : (s.conn c).pubsub = 0) :
    s.refuses c sig = false := Sys.refuses_eq_false.2 (.inl h)

/-- behind the check the subscriber branch of the old gate is dead -/
theorem runGate_of_not_refused {s : Sys} {c : Nat} {sig : Sig} (fromScript : Bool) (h : s.refuses c sig = false) :
    runGate sig fromScript (decide ((s.conn c).pubsub > 0)) = runGate sig fromScript false := by
  unfold Sys.refuses at h
  unfold runGate
  simp only [h, Bool.false_and, Bool.false_eq_true, if_false]

/-- for a refused command the old gate (now dead code) is closed too -/
theorem runGate_of_refused {s : Sys} {c : Nat} {sig : Sig} (fromScript : Bool) (h : s.refuses c sig = true) :
    ∃ e, runGate sig fromScript (decide ((s.conn c).pubsub > 0)) = some e := by
  unfold Sys.refuses at h
  unfold runGate
  simp only [h, if_true]
  split <;> exact ⟨_, rfl⟩

/-- outside scripts the old gate of a refused command carries the subscriber-mode error -/
theorem runGate_direct_of_refused {s : Sys} {c : Nat} {sig : Sig} (h : s.refuses c sig = true) :
    runGate sig false (decide ((s.conn c).pubsub > 0)) = some Msgs.BAD_COMMAND_IN_PUBSUB_MSG := by
  unfold Sys.refuses at h
  unfold runGate
  simp only [h, Bool.false_and, Bool.false_eq_true, if_false, if_true]

/-- the pure runner with a closed gate notifies nothing, uses no pick and reports no model fault -/
theorem runRegular_gated (sig : Sig) (body : Body) (ctx : Ctx) (e : Err) (raw : List Bytes) (db : Db) :
    (runRegular sig body ctx (some e) raw db).notified = [] ∧
    (runRegular sig body ctx (some e) raw db).picksUsed = 0 ∧
    (runRegular sig body ctx (some e) raw db).fault = none := by
  unfold runRegular
  split <;> exact ⟨rfl, rfl, rfl⟩

/-- an open (old) gate means the command is not refused -/
theorem Sys.refuses_of_gate_none {s : Sys} {c : Nat} {sig : Sig} {fromScript : Bool}
    (h : runGate sig fromScript (decide ((s.conn c).pubsub > 0)) = none) : s.refuses c sig = false := by
  cases hr : s.refuses c sig with
  | false => rfl
  | true => obtain ⟨e, he⟩ := runGate_of_refused fromScript hr; rw [he] at h; cases h

/-- for a command that scripts may call, or outside scripts, a closed (old) gate is the subscriber-mode refusal -/
theorem Sys.refuses_of_gate_some {s : Sys} {c : Nat} {sig : Sig} {fromScript : Bool} {e : Err}
    (hns : (fromScript && sig.noScript) = false)
    (h : runGate sig fromScript (decide ((s.conn c).pubsub > 0)) = some e) :
    s.refuses c sig = true ∧ e = Msgs.BAD_COMMAND_IN_PUBSUB_MSG := by
  unfold runGate at h
  rw [hns] at h
  simp only [Bool.false_eq_true, if_false] at h
  split at h
  · rename_i h'
    exact ⟨h', (Option.some.inj h).symm⟩
  · cases h

/-- the part of `_run_command` behind the subscriber-mode check (the former `runWith`) -/
def runWithBody (special : Mode → Nat → String → List Arg → List CI → M (Except Err (Option Reply × List CI)))
    (mode : Mode) (c : Nat) (sig : Sig) (raw : List Bytes) (fromScript : Bool) : M (Option Reply) := do
  let conn ← getConn c
  let d := conn.db
  let db ← getDb d
  let gate := runGate sig fromScript (conn.pubsub > 0)
  match Cmd.regular sig.name with
  | some body =>
    let s ← get
    let ctx : Ctx := { version := s.srv.version, time := s.srv.time, dbnum := d, inTx := conn.inTx, picks := s.picks }
    let o := runRegular sig body ctx gate raw db
    setDb d o.db
    modify fun s => { s with picks := s.picks.drop o.picksUsed }
    match o.fault with | some f => fault f | none => pure ()
    o.notified.forM (notifyWatch d)
    return some o.reply
  | none =>
    let (db', res) := sig.apply raw db
    setDb d db'
    match res with
    | .error e => return some (.err (strBytes e))
    | .ok (.short r) => return some r
    | .ok (.ok args cis) =>
      match gate with
      | some e => return some (.err (strBytes e))
      | none =>
        match ← special mode c sig.name args cis with
        | .error e =>
          if e.startsWith "model:" then fault e
          writebackAll d cis
          return some (.err (strBytes e))
        | .ok (r, cis') =>
          writebackAll d cis'
          return r

/-- `_run_command` = the subscriber-mode check, then the rest -/
theorem runWith_eq_ite (special) (mode : Mode) (c : Nat) (sig : Sig) (raw : List Bytes) (fromScript : Bool) (s : Sys) :
    runWith special mode c sig raw fromScript s =
      if s.refuses c sig then (some refusalReply, s) else runWithBody special mode c sig raw fromScript s := by
  unfold runWith runWithBody Sys.refuses refusalReply
  simp only [bind, StateT.bind, getConn_run]
  split <;> rfl

/-- a refused command: the context error, and the state is literally unchanged -/
theorem runWith_refused (special) (mode : Mode) (c : Nat) (sig : Sig) (raw : List Bytes) (fromScript : Bool) {s : Sys}
    (h : s.refuses c sig = true) :
    runWith special mode c sig raw fromScript s = (some refusalReply, s) := by
  rw [runWith_eq_ite, if_pos h]

theorem runWith_not_refused (special) (mode : Mode) (c : Nat) (sig : Sig) (raw : List Bytes) (fromScript : Bool) {s : Sys}
    (h : s.refuses c sig = false) :
    runWith special mode c sig raw fromScript s = runWithBody special mode c sig raw fromScript s := by
  rw [runWith_eq_ite, h]; rfl

/-- the part of `runScriptCmd` behind the subscriber-mode check (the former `runScriptCmd`) -/
def runScriptCmdBody (mode : Mode) (c : Nat) (sig : Sig) (raw : List Bytes) (fromScript : Bool) : M (Option Reply) := do
  let conn ← getConn c
  let db ← getDb conn.db
  let (db', res) := sig.apply raw db
  setDb conn.db db'
  match res with
  | .error e => return some (.err (strBytes e))
  | .ok (.short r) => return some r
  | .ok (.ok args _) =>
    match runGate sig fromScript (conn.pubsub > 0) with
    | some e => return some (.err (strBytes e))
    | none =>
      match ← scriptBody (special (fun _ _ => do fault "nested exec"; return none)) mode c sig.name args with
      | .ok r => return some r
      | .error e =>
        if e.startsWith "model:" then fault e
        return some (.err (strBytes e))

theorem runScriptCmd_eq_ite (mode : Mode) (c : Nat) (sig : Sig) (raw : List Bytes) (fromScript : Bool) (s : Sys) :
    runScriptCmd mode c sig raw fromScript s =
      if s.refuses c sig then (some refusalReply, s) else runScriptCmdBody mode c sig raw fromScript s := by
  unfold runScriptCmd runScriptCmdBody Sys.refuses refusalReply
  simp only [bind, StateT.bind, getConn_run]
  split <;> rfl

theorem runScriptCmd_refused (mode : Mode) (c : Nat) (sig : Sig) (raw : List Bytes) (fromScript : Bool) {s : Sys}
    (h : s.refuses c sig = true) :
    runScriptCmd mode c sig raw fromScript s = (some refusalReply, s) := by
  rw [runScriptCmd_eq_ite, if_pos h]

theorem runScriptCmd_not_refused (mode : Mode) (c : Nat) (sig : Sig) (raw : List Bytes) (fromScript : Bool) {s : Sys}
    (h : s.refuses c sig = false) :
    runScriptCmd mode c sig raw fromScript s = runScriptCmdBody mode c sig raw fromScript s := by
  rw [runScriptCmd_eq_ite, h]; rfl

/-- `_run_command` of a client command refuses in subscriber mode, whatever the command -/
theorem runCommand_refused (mode : Mode) (c : Nat) (sig : Sig) (raw : List Bytes) (fromScript : Bool) {s : Sys}
    (h : s.refuses c sig = true) :
    runCommand mode c sig raw fromScript s = (some refusalReply, s) := by
  unfold runCommand
  split
  · exact runScriptCmd_refused mode c sig raw fromScript h
  · exact runWith_refused _ mode c sig raw fromScript h

/-- `Sys.regularOut` still carries the old gate: for a refused command it notifies nothing -/
theorem Sys.regularOut_of_refused {s : Sys} {c : Nat} {sig : Sig} (body : Body) (raw : List Bytes) (fromScript : Bool)
    (h : s.refuses c sig = true) :
    (s.regularOut c sig body raw fromScript).notified = [] ∧
    (s.regularOut c sig body raw fromScript).picksUsed = 0 ∧
    (s.regularOut c sig body raw fromScript).fault = none := by
  obtain ⟨e, he⟩ := runGate_of_refused fromScript h
  unfold Sys.regularOut
  rw [he]
  exact runRegular_gated ..

/-- a regular command that is not refused: the pure runner on the selected database -/
theorem runWith_regular_run (special) (mode : Mode) (c : Nat) (sig : Sig) (raw : List Bytes) (fromScript : Bool)
    {body : Body} (h : Cmd.regular sig.name = some body) (s : Sys) (hr : s.refuses c sig = false) :
    runWith special mode c sig raw fromScript s =
      (some (s.regularOut c sig body raw fromScript).reply,
        s.afterRegular (s.conn c).db (s.regularOut c sig body raw fromScript)) := by
  rw [runWith_not_refused special mode c sig raw fromScript hr]
  unfold runWithBody Sys.afterRegular Sys.regularOut
  simp only [bind, StateT.bind, getConn_run, getDb_run, h, get, getThe, MonadStateOf.get, StateT.get, setDb_run,
    modify, modifyGet, MonadStateOf.modifyGet, StateT.modifyGet, pure, StateT.pure]
  generalize runRegular _ _ _ _ _ _ = o
  cases hf : o.fault <;> rfl


theorem Sys.afterRegular_dbs (s : Sys) (d : Nat) (o : RunOut) :
    (s.afterRegular d o).srv.dbs = s.srv.dbs.set d o.db.dict := by
  unfold Sys.afterRegular
  rw [forM_notifyWatch_frame (fun s => s.srv.dbs) (fun _ _ => rfl), Sys.faultS_srv]

theorem Sys.afterRegular_pred (s : Sys) (d : Nat) (o : RunOut) (c : Nat) (Q : Conn → Prop)
    (hQ : ∀ d key x, Q x → Q (notifyFn d key x)) (h : Q (s.conn c)) : Q ((s.afterRegular d o).conn c) := by
  unfold Sys.afterRegular
  apply forM_notifyWatch_pred Q hQ
  simp only [Sys.conn_def, Sys.faultS_srv] at h ⊢
  exact h

theorem getD_set_ne {α} (l : List α) (d j : Nat) (x dflt : α) (h : j ≠ d) :
    (l.set d x).getD j dflt = l.getD j dflt := by
  simp only [List.getD_eq_getElem?_getD, List.getElem?_set_ne (Ne.symm h)]

theorem getD_set_self {α} (l : List α) (d : Nat) (x dflt : α) (h : d < l.length) :
    (l.set d x).getD d dflt = x := by
  simp only [List.getD_eq_getElem?_getD, List.getElem?_set_self h, Option.getD_some]

/-! ### the transaction state after EXEC -/

theorem Sys.hasConn_of_tx {s : Sys} {c : Nat} (h : (s.conn c).tx.isSome) : s.HasConn c := by
  rw [Sys.hasConn_iff]
  rw [Sys.conn_def] at h
  cases h' : s.srv.conns.find? (·.id == c) with
  | none => rw [h'] at h; simp at h
  | some x => rfl

theorem queueStep_normal (inner : Inner) (c : Nat) (a : String × List Bytes) (s : Sys)
    (hinner : ∀ sig, SigTable.find a.1 = some sig → ∀ s : Sys, (s.conn c).normal → ((inner sig a.2 s).2.conn c).normal)
    (h : (s.conn c).normal) : ((queueStep inner c a s).2.conn c).normal := by
  unfold queueStep
  cases hf : SigTable.find a.1 with
  | none =>
    simp only [bind, StateT.bind, fault, modify, modifyGet, MonadStateOf.modifyGet, StateT.modifyGet, pure, StateT.pure]
    split <;> exact h
  | some sig =>
    simp only [bind, StateT.bind, modifyConn_run, pure, StateT.pure]
    have h2 := hinner sig hf _
      (Sys.conn_updConn_pred s c c (fun x => { x with inTx := true }) Conn.normal (fun _ => rfl) (fun x hx => hx) h)
    revert h2
    generalize inner sig a.2 _ = r
    intro h2
    obtain ⟨r1, r2⟩ := r
    exact Sys.conn_updConn_pred r2 c c (fun x => { x with inTx := false }) Conn.normal (fun _ => rfl) (fun x hx => hx) h2

theorem runQueue_normal (inner : Inner) (c : Nat) (q : List (String × List Bytes)) (s : Sys)
    (hinner : ∀ a ∈ q, ∀ sig, SigTable.find a.1 = some sig →
      ∀ s : Sys, (s.conn c).normal → ((inner sig a.2 s).2.conn c).normal)
    (h : (s.conn c).normal) : ((runQueue inner c q s).2.conn c).normal := by
  induction q generalizing s with
  | nil => exact h
  | cons a rest ih =>
    rw [runQueue_cons]
    simp only [bind, StateT.bind, pure, StateT.pure]
    apply ih _ (fun b hb => hinner b (List.mem_cons_of_mem _ hb))
    exact queueStep_normal inner c a s (hinner a (List.mem_cons_self ..)) h

theorem clear_normal {s : Sys} {c : Nat} (hc : s.HasConn c) (f : Conn → Conn) (hid : ∀ x, (f x).id = x.id)
    (hf : ∀ x, (f x).tx = none) :
    (((s.updConn c f).updConn c fun x => { x with watchNotified := false, watches := [] }).conn c).normal := by
  rw [Sys.conn_updConn_same (fun x => { x with watchNotified := false, watches := [] })
    ((Sys.hasConn_updConn f hid).2 hc) (fun _ => rfl), Sys.conn_updConn_same f hc hid]
  exact ⟨hf _, rfl, rfl⟩

theorem execCmd_normal (inner : Inner) (c : Nat) (cis : List CI) (s : Sys) {q : List (String × List Bytes)}
    (htx : (s.conn c).tx = some q)
    (hinner : ∀ a ∈ q, ∀ sig, SigTable.find a.1 = some sig →
      ∀ s : Sys, (s.conn c).normal → ((inner sig a.2 s).2.conn c).normal) :
    ((execCmd inner c cis s).2.conn c).normal := by
  have hc : s.HasConn c := Sys.hasConn_of_tx (by rw [htx]; rfl)
  cases hf : (s.conn c).txFailed with
  | true =>
    rw [execCmd_run_failed inner cis htx hf]
    exact clear_normal hc _ (fun _ => rfl) (fun _ => rfl)
  | false =>
    cases hw : (s.conn c).watchNotified with
    | true =>
      rw [execCmd_run_dirty inner cis htx hf hw]
      exact clear_normal hc _ (fun _ => rfl) (fun _ => rfl)
    | false =>
      rw [execCmd_eq_sequential inner cis htx hf hw]
      simp only [bind, StateT.bind, modifyConn_run, clearWatches_run]
      have h0 := clear_normal hc (fun x => { x with tx := none, txFailed := false }) (fun _ => rfl) (fun _ => rfl)
      have h1 := runQueue_normal inner c q _ hinner h0
      split
      · rename_i rs s' heq
        rw [heq] at h1
        split <;> exact h1

theorem runWith_regular_normal (special) (mode : Mode) (c : Nat) (sig : Sig) (raw : List Bytes) (fromScript : Bool)
    {body : Body} (h : Cmd.regular sig.name = some body) (s : Sys) (c' : Nat) (hn : (s.conn c').normal) :
    ((runWith special mode c sig raw fromScript s).2.conn c').normal := by
  cases hr : s.refuses c sig with
  | true => rw [runWith_refused special mode c sig raw fromScript hr]; exact hn
  | false =>
    rw [runWith_regular_run special mode c sig raw fromScript h s hr]
    exact Sys.afterRegular_pred _ _ _ _ Conn.normal notifyFn_normal hn

/-! ### SELECT, new connections -/

theorem selectCmd_run (c : Nat) (i : Int) (cis : List CI) (s : Sys) :
    selectCmd c [.int i] cis s = (.ok (some .ok, cis), s.updConn c fun x => { x with db := i.toNat }) := rfl

theorem openConn_run (c : Nat) (s : Sys) :
    openConn c s = ((), { s with srv := { s.srv with conns := s.srv.conns ++ [{ id := c }] } }) := rfl

theorem openConn_conn_new (c : Nat) (s : Sys) (h : ¬ s.HasConn c) :
    (openConn c s).2.HasConn c ∧ (openConn c s).2.conn c = { id := c } := by
  rw [openConn_run]
  refine ⟨⟨{ id := c }, by simp, rfl⟩, ?_⟩
  rw [Sys.hasConn_iff] at h
  simp only [Sys.conn_def, List.find?_append]
  cases h' : s.srv.conns.find? (·.id == c) with
  | none => simp
  | some x => rw [h'] at h; simp at h

theorem openConn_conn_other (c c' : Nat) (s : Sys) (hne : c' ≠ c) :
    (openConn c s).2.conn c' = s.conn c' := by
  rw [openConn_run]
  simp only [Sys.conn_def, List.find?_append]
  cases h' : s.srv.conns.find? (·.id == c') with
  | none =>
    have : (c == c') = false := by simpa using fun e => hne e.symm
    simp [this]
  | some x => simp


end FR
