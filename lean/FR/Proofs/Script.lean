import FR
import FR.Proofs.System
import FR.Proofs.Decimal
/-! Helper lemmas for the script bridge (`FR/Sys/Process.lean`, section "Scripts"). -/
namespace FR
open M
set_option linter.unusedSimpArgs false

/-! ## redis → Lua -/

theorem replyToLua_bulk (b : Bytes) : replyToLua (.bulk b) = .ok (.str b) := by simp only [replyToLua]
theorem replyToLua_int (n : Int) : replyToLua (.int n) = .ok (.int n) := by simp only [replyToLua]
theorem replyToLua_status (s : Bytes) : replyToLua (.status s) = .ok (.table [] [(strBytes "ok", .str s)]) := by
  simp only [replyToLua]
theorem replyToLua_nil : replyToLua .nil = .ok (.bool false) := by simp only [replyToLua]
theorem replyToLua_err (e : Bytes) : replyToLua (.err e) = .error (bytesStr e) := by simp only [replyToLua]
theorem replyToLua_arr (xs : List Reply) : replyToLua (.arr xs) = (repliesToLua xs).map (LuaVal.table · []) := by
  simp only [replyToLua]
theorem repliesToLua_nil : repliesToLua [] = .ok [] := by simp only [repliesToLua]
theorem repliesToLua_cons_err {x : Reply} {e} (xs : List Reply) (h : replyToLua x = .error e) :
    repliesToLua (x :: xs) = .error e := by
  simp only [repliesToLua, h]
theorem repliesToLua_cons_ok {x : Reply} {v} (xs : List Reply) (h : replyToLua x = .ok v) :
    repliesToLua (x :: xs) = (repliesToLua xs).map (v :: ·) := by
  simp only [repliesToLua, h]

/-- the array conversion is element-wise -/
theorem repliesToLua_ok_iff (xs : List Reply) (vs : List LuaVal) :
    repliesToLua xs = .ok vs ↔ xs.map replyToLua = vs.map .ok := by
  induction xs generalizing vs with
  | nil =>
    rw [repliesToLua_nil]
    constructor
    · intro h; cases h; rfl
    · intro h; cases vs with
      | nil => rfl
      | cons _ _ => cases h
  | cons x xs ih =>
    cases hx : replyToLua x with
    | error e =>
      rw [repliesToLua_cons_err xs hx]
      constructor
      · intro h; cases h
      · intro h
        cases vs with
        | nil => cases h
        | cons v vs =>
          simp only [List.map_cons, List.cons.injEq, hx] at h
          cases h.1
    | ok v =>
      rw [repliesToLua_cons_ok xs hx]
      constructor
      · intro h
        cases hr : repliesToLua xs with
        | error e => rw [hr] at h; cases h
        | ok ws =>
          rw [hr] at h
          cases h
          simp only [List.map_cons, hx, (ih ws).1 hr]
      · intro h
        cases vs with
        | nil => cases h
        | cons w ws =>
          simp only [List.map_cons, List.cons.injEq, hx] at h
          cases h.1
          rw [(ih ws).2 h.2]
          rfl

theorem repliesToLua_ok_iff_get (xs : List Reply) (vs : List LuaVal) :
    repliesToLua xs = .ok vs ↔
      vs.length = xs.length ∧ ∀ (i : Nat) (h₁ : i < xs.length) (h₂ : i < vs.length), replyToLua xs[i] = .ok vs[i] := by
  rw [repliesToLua_ok_iff]
  constructor
  · intro h
    have hl : vs.length = xs.length := by
      have := congrArg List.length h
      simpa using this.symm
    refine ⟨hl, fun i h₁ h₂ => ?_⟩
    have := congrArg (fun l => l[i]?) h
    simpa [h₁, h₂] using this
  · rintro ⟨hl, h⟩
    apply List.ext_getElem
    · simp [hl]
    · intro i h₁ h₂
      simp at h₁ h₂
      simp [h i h₁ h₂]

/-! ## Lua → redis -/

theorem luaToReplyF_nil (f : Nat) (nested : Bool) : luaToReplyF (f + 1) nested .nil = .ok .nil := rfl
theorem luaToReplyF_false (f : Nat) (nested : Bool) : luaToReplyF (f + 1) nested (.bool false) = .ok .nil := rfl
theorem luaToReplyF_true (f : Nat) (nested : Bool) : luaToReplyF (f + 1) nested (.bool true) = .ok (.int 1) := rfl
theorem luaToReplyF_int (f : Nat) (nested : Bool) (n : Int) : luaToReplyF (f + 1) nested (.int n) = .ok (.int n) := rfl
theorem luaToReplyF_flt (f : Nat) (nested : Bool) (d : Dbl) :
    luaToReplyF (f + 1) nested (.flt d) = .ok (.int d.truncToInt) := rfl
theorem luaToReplyF_str (f : Nat) (nested : Bool) (b : Bytes) : luaToReplyF (f + 1) nested (.str b) = .ok (.bulk b) := rfl
theorem luaToReplyF_pystr (f : Nat) (nested : Bool) (b : Bytes) :
    luaToReplyF (f + 1) nested (.pystr b) = .ok (.bulk b) := rfl

theorem luaToReplyF_table (f : Nat) (nested : Bool) (arr : List LuaVal) (hash : List (Bytes × LuaVal)) :
    luaToReplyF (f + 1) nested (.table arr hash) =
      match hash.lookup (strBytes "ok") with
      | some v =>
        match luaToReplyF f true v with
        | .ok (.bulk m) => .ok (.status m)
        | .ok _ => .error Msgs.LUA_WRONG_NUMBER_ARGS_MSG
        | .error e => .error e
      | none =>
        match hash.lookup (strBytes "err") with
        | some v =>
          match luaToReplyF f true v with
          | .ok (.bulk m) => if nested then .ok (.err m) else .error (bytesStr m)
          | .ok _ => .error Msgs.LUA_WRONG_NUMBER_ARGS_MSG
          | .error e => .error e
        | none => (arr.mapM (luaToReplyF f true)).map .arr := rfl

theorem luaToReplyF_table_ok {f : Nat} {nested : Bool} {arr : List LuaVal} {hash : List (Bytes × LuaVal)} {v m}
    (h : hash.lookup (strBytes "ok") = some v) (hv : luaToReplyF f true v = .ok (.bulk m)) :
    luaToReplyF (f + 1) nested (.table arr hash) = .ok (.status m) := by
  rw [luaToReplyF_table]; simp only [h, hv]

theorem luaToReplyF_table_ok_bad {f : Nat} {nested : Bool} {arr : List LuaVal} {hash : List (Bytes × LuaVal)} {v r}
    (h : hash.lookup (strBytes "ok") = some v) (hv : luaToReplyF f true v = .ok r) (hr : ∀ m, r ≠ .bulk m) :
    luaToReplyF (f + 1) nested (.table arr hash) = .error Msgs.LUA_WRONG_NUMBER_ARGS_MSG := by
  rw [luaToReplyF_table]; simp only [h, hv]

theorem luaToReplyF_table_err {f : Nat} {nested : Bool} {arr : List LuaVal} {hash : List (Bytes × LuaVal)} {v m}
    (hok : hash.lookup (strBytes "ok") = none)
    (h : hash.lookup (strBytes "err") = some v) (hv : luaToReplyF f true v = .ok (.bulk m)) :
    luaToReplyF (f + 1) nested (.table arr hash) = if nested then .ok (.err m) else .error (bytesStr m) := by
  rw [luaToReplyF_table]; simp only [hok, h, hv]

theorem luaToReplyF_table_err_bad {f : Nat} {nested : Bool} {arr : List LuaVal} {hash : List (Bytes × LuaVal)} {v r}
    (hok : hash.lookup (strBytes "ok") = none)
    (h : hash.lookup (strBytes "err") = some v) (hv : luaToReplyF f true v = .ok r) (hr : ∀ m, r ≠ .bulk m) :
    luaToReplyF (f + 1) nested (.table arr hash) = .error Msgs.LUA_WRONG_NUMBER_ARGS_MSG := by
  rw [luaToReplyF_table]; simp only [hok, h, hv]

theorem luaToReplyF_table_plain {f : Nat} {nested : Bool} {arr : List LuaVal} {hash : List (Bytes × LuaVal)}
    (hok : hash.lookup (strBytes "ok") = none) (herr : hash.lookup (strBytes "err") = none) :
    luaToReplyF (f + 1) nested (.table arr hash) = (arr.mapM (luaToReplyF f true)).map .arr := by
  rw [luaToReplyF_table]; simp only [hok, herr]

/-- a Lua value that is not a string (and not a table) converts to a non-bulk reply -/
def LuaVal.isPlainNonString : LuaVal → Bool
  | .nil | .bool _ | .int _ | .flt _ => true
  | _ => false

theorem luaToReplyF_nonString {f : Nat} {v : LuaVal} (h : v.isPlainNonString = true) :
    ∃ r, luaToReplyF (f + 1) true v = .ok r ∧ ∀ m, r ≠ .bulk m := by
  cases v with
  | nil => exact ⟨_, rfl, fun m h => by cases h⟩
  | bool b => cases b <;> exact ⟨_, rfl, fun m h => by cases h⟩
  | int n => exact ⟨_, rfl, fun m h => by cases h⟩
  | flt d => exact ⟨_, rfl, fun m h => by cases h⟩
  | str b => cases h
  | pystr b => cases h
  | table a hsh => cases h

/-! ## arguments -/

theorem luaToArg_other (version : Nat) (v : LuaVal) (h : ∀ b, v ≠ .str b) (hi : ∀ n, v ≠ .int n) (hf : ∀ d, v ≠ .flt d) :
    luaToArg version v = .error (if version < 7 then Msgs.LUA_COMMAND_ARG_MSG6 else Msgs.LUA_COMMAND_ARG_MSG) := by
  cases v with
  | str b => exact absurd rfl (h b)
  | int n => exact absurd rfl (hi n)
  | flt d => exact absurd rfl (hf d)
  | nil => rfl
  | bool b => rfl
  | pystr b => rfl
  | table a hsh => rfl

/-! ## the gate, error-freeness, depth, round trip -/


theorem runGate_noScript (sig : Sig) (subscribed : Bool) (h : sig.noScript = true) :
    runGate sig true subscribed = some Msgs.COMMAND_IN_SCRIPT_MSG := by
  simp only [runGate, h, Bool.and_self, if_true]

theorem runGate_direct (sig : Sig) : runGate sig false false = none := by
  simp [runGate]

def forbiddenInScripts : List String :=
  ["multi","exec","discard","watch","unwatch","eval","evalsha","script","subscribe","psubscribe","unsubscribe",
   "punsubscribe","blpop","brpop","brpoplpush","save","bgsave"]

set_option maxRecDepth 100000 in
theorem sigs_noScript_iff : ∀ sig ∈ SigTable.sigs, (sig.noScript = true ↔ sig.name ∈ forbiddenInScripts) := by
  decide

mutual
def Reply.errFree : Reply → Bool
  | .err _ => false
  | .arr xs => Reply.errFreeL xs
  | _ => true
def Reply.errFreeL : List Reply → Bool
  | [] => true
  | x :: xs => x.errFree && Reply.errFreeL xs
end

mutual
def Reply.depth : Reply → Nat
  | .status _ => 2
  | .arr xs => Reply.depthL xs + 1
  | _ => 1
def Reply.depthL : List Reply → Nat
  | [] => 0
  | x :: xs => max x.depth (Reply.depthL xs)
end

theorem lookup_ok_single (s : Bytes) : List.lookup (strBytes "ok") [(strBytes "ok", LuaVal.str s)] = some (.str s) := by
  simp [List.lookup]

mutual
theorem roundtripF : (r : Reply) → (v : LuaVal) → (fuel : Nat) → (nested : Bool) →
    replyToLua r = .ok v → r.depth ≤ fuel → luaToReplyF fuel nested v = .ok r
  | .nil, v, fuel, nested, h, hd => by
    rw [replyToLua_nil] at h; cases h
    simp only [Reply.depth] at hd
    obtain ⟨f, rfl⟩ : ∃ f, fuel = f + 1 := ⟨fuel - 1, by omega⟩
    rfl
  | .int n, v, fuel, nested, h, hd => by
    rw [replyToLua_int] at h; cases h
    simp only [Reply.depth] at hd
    obtain ⟨f, rfl⟩ : ∃ f, fuel = f + 1 := ⟨fuel - 1, by omega⟩
    rfl
  | .bulk b, v, fuel, nested, h, hd => by
    rw [replyToLua_bulk] at h; cases h
    simp only [Reply.depth] at hd
    obtain ⟨f, rfl⟩ : ∃ f, fuel = f + 1 := ⟨fuel - 1, by omega⟩
    rfl
  | .status b, v, fuel, nested, h, hd => by
    rw [replyToLua_status] at h; cases h
    simp only [Reply.depth] at hd
    obtain ⟨f, rfl⟩ : ∃ f, fuel = f + 2 := ⟨fuel - 2, by omega⟩
    exact luaToReplyF_table_ok (lookup_ok_single b) rfl
  | .err e, v, fuel, nested, h, hd => by
    rw [replyToLua_err] at h; cases h
  | .arr xs, v, fuel, nested, h, hd => by
    rw [replyToLua_arr] at h
    cases hr : repliesToLua xs with
    | error e => rw [hr] at h; cases h
    | ok vs =>
      rw [hr] at h; cases h
      simp only [Reply.depth] at hd
      obtain ⟨f, rfl⟩ : ∃ f, fuel = f + 1 := ⟨fuel - 1, by omega⟩
      rw [luaToReplyF_table_plain rfl rfl, roundtripL xs vs f hr (by omega)]
      rfl
theorem roundtripL : (xs : List Reply) → (vs : List LuaVal) → (fuel : Nat) →
    repliesToLua xs = .ok vs → Reply.depthL xs ≤ fuel → vs.mapM (luaToReplyF fuel true) = .ok xs
  | [], vs, fuel, h, hd => by
    rw [repliesToLua_nil] at h; cases h; rfl
  | x :: xs, vs, fuel, h, hd => by
    cases hx : replyToLua x with
    | error e => rw [repliesToLua_cons_err xs hx] at h; cases h
    | ok v =>
      rw [repliesToLua_cons_ok xs hx] at h
      cases hr : repliesToLua xs with
      | error e => rw [hr] at h; cases h
      | ok ws =>
        rw [hr] at h; cases h
        simp only [Reply.depthL] at hd
        rw [List.mapM_cons, roundtripF x v fuel true hx (by omega), roundtripL xs ws fuel hr (by omega)]
        rfl
end

mutual
theorem errFree_of_ok : (r : Reply) → (v : LuaVal) → replyToLua r = .ok v → r.errFree = true
  | .nil, _, _ => rfl
  | .int _, _, _ => rfl
  | .bulk _, _, _ => rfl
  | .status _, _, _ => rfl
  | .err e, v, h => by rw [replyToLua_err] at h; cases h
  | .arr xs, v, h => by
    rw [replyToLua_arr] at h
    cases hr : repliesToLua xs with
    | error e => rw [hr] at h; cases h
    | ok vs => simp only [Reply.errFree]; exact errFreeL_of_ok xs vs hr
theorem errFreeL_of_ok : (xs : List Reply) → (vs : List LuaVal) → repliesToLua xs = .ok vs → Reply.errFreeL xs = true
  | [], _, _ => rfl
  | x :: xs, vs, h => by
    cases hx : replyToLua x with
    | error e => rw [repliesToLua_cons_err xs hx] at h; cases h
    | ok v =>
      rw [repliesToLua_cons_ok xs hx] at h
      cases hr : repliesToLua xs with
      | error e => rw [hr] at h; cases h
      | ok ws =>
        simp only [Reply.errFreeL, errFree_of_ok x v hx, errFreeL_of_ok xs ws hr, Bool.and_self]
end

mutual
theorem ok_of_errFree : (r : Reply) → r.errFree = true → ∃ v, replyToLua r = .ok v
  | .nil, _ => ⟨_, replyToLua_nil⟩
  | .int _, _ => ⟨_, replyToLua_int _⟩
  | .bulk _, _ => ⟨_, replyToLua_bulk _⟩
  | .status _, _ => ⟨_, replyToLua_status _⟩
  | .err e, h => by simp [Reply.errFree] at h
  | .arr xs, h => by
    simp only [Reply.errFree] at h
    obtain ⟨vs, hvs⟩ := okL_of_errFree xs h
    exact ⟨_, by rw [replyToLua_arr, hvs]; rfl⟩
theorem okL_of_errFree : (xs : List Reply) → Reply.errFreeL xs = true → ∃ vs, repliesToLua xs = .ok vs
  | [], _ => ⟨_, repliesToLua_nil⟩
  | x :: xs, h => by
    simp only [Reply.errFreeL, Bool.and_eq_true] at h
    obtain ⟨v, hv⟩ := ok_of_errFree x h.1
    obtain ⟨vs, hvs⟩ := okL_of_errFree xs h.2
    exact ⟨_, by rw [repliesToLua_cons_ok xs hv, hvs]; rfl⟩
end

/-! ## EVAL / EVALSHA / SCRIPT -/

abbrev Special := Mode → Nat → String → List Arg → List CI → M (Except Err (Option Reply × List CI))

theorem nextPick_run_cons (p : List Bytes) (more : List (List Bytes)) (s : Sys) (h : s.picks = p :: more) :
    nextPick s = (some p, { s with picks := more }) := by
  simp only [nextPick, bind, StateT.bind, get, getThe, MonadStateOf.get, StateT.get, pure, StateT.pure, h, set, StateT.set]

theorem shaHint_run (sha : Bytes) (more : List (List Bytes)) (s : Sys) (h : s.picks = [strBytes "sha", sha] :: more) :
    shaHint s = (some sha, { s with picks := more }) := by
  simp only [shaHint, bind, StateT.bind, nextPick_run_cons _ _ s h, beq_self_eq_true, if_true]
  rfl

/-- the state in which the trace of an accepted EVAL runs -/
def Sys.cacheScript (s : Sys) (more : List (List Bytes)) (sha script : Bytes) : Sys :=
  { s with picks := more, srv := { s.srv with scripts := ZSet.dictSet s.srv.scripts sha script } }

theorem evalBody_run (special : Special) (mode : Mode) (c : Nat) (script : Bytes) (numkeys : Int) (rest : List Bytes)
    (sha : Bytes) (more : List (List Bytes)) (s : Sys) (h : s.picks = [strBytes "sha", sha] :: more) :
    (evalBody special mode c script numkeys rest).run s =
      if numkeys > rest.length then (.error Msgs.TOO_MANY_KEYS_MSG, { s with picks := more })
      else if numkeys < 0 then (.error Msgs.NEGATIVE_KEYS_MSG, { s with picks := more })
      else (runTrace special mode c sha 100000).run (s.cacheScript more sha script) := by
  simp only [evalBody, StateT.run, bind, StateT.bind, shaHint_run sha more s h]
  split
  · rfl
  · split
    · rfl
    · rfl

theorem lookup_map_set_self_s {β} (d : List (Bytes × β)) (k : Bytes) (v : β) (h : d.any (fun p => p.1 == k) = true) :
    (d.map (fun p => if p.1 == k then (k, v) else p)).lookup k = some v := by
  induction d with
  | nil => simp at h
  | cons p d ih =>
    obtain ⟨a, b⟩ := p
    cases hk : (a == k)
    · have hk' : (k == a) = false := by
        cases h' : (k == a)
        · rfl
        · rw [eq_of_beq h'] at hk; simp at hk
      simp only [List.any_cons, hk, Bool.false_or] at h
      simp only [List.map_cons, hk, Bool.false_eq_true, if_false, List.lookup, hk']
      exact ih h
    · simp only [List.map_cons, hk, if_true, List.lookup, beq_self_eq_true]

theorem lookup_append_single_self {β} (d : List (Bytes × β)) (k : Bytes) (v : β) (h : d.any (fun p => p.1 == k) = false) :
    (d ++ [(k, v)]).lookup k = some v := by
  induction d with
  | nil => simp only [List.nil_append, List.lookup, beq_self_eq_true]
  | cons p d ih =>
    obtain ⟨a, b⟩ := p
    simp only [List.any_cons, Bool.or_eq_false_iff] at h
    have hk' : (k == a) = false := by
      cases h' : (k == a)
      · rfl
      · rw [eq_of_beq h'] at h; simp at h
    simp only [List.cons_append, List.lookup, hk']
    exact ih h.2

theorem lookup_dictSet_self {β} (d : List (Bytes × β)) (k : Bytes) (v : β) :
    (ZSet.dictSet d k v).lookup k = some v := by
  unfold ZSet.dictSet
  cases h : d.any (fun p => p.1 == k)
  · simp only [Bool.false_eq_true, if_false]; exact lookup_append_single_self d k v h
  · simp only [if_true]; exact lookup_map_set_self_s d k v h

theorem lookup_dictSet_ne {β} (d : List (Bytes × β)) (k k' : Bytes) (v : β) (hne : k' ≠ k) :
    (ZSet.dictSet d k v).lookup k' = d.lookup k' := by
  unfold ZSet.dictSet
  have hk0 : (k' == k) = false := by simpa using hne
  have h1 : (d.map (fun p => if p.1 == k then (k, v) else p)).lookup k' = d.lookup k' := by
    induction d with
    | nil => rfl
    | cons p d ih =>
      obtain ⟨a, b⟩ := p
      cases hk : (a == k)
      · simp only [List.map_cons, hk, Bool.false_eq_true, if_false, List.lookup, ih]
      · have : (k' == a) = false := by rw [eq_of_beq hk]; exact hk0
        simp only [List.map_cons, hk, if_true, List.lookup, hk0, this, ih]
  have h2 : (d ++ [(k, v)]).lookup k' = d.lookup k' := by
    clear h1
    induction d with
    | nil => simp only [List.nil_append, List.lookup, hk0]
    | cons p d ih =>
      obtain ⟨a, b⟩ := p
      simp only [List.cons_append, List.lookup, ih]
  split
  · exact h1
  · exact h2

theorem rawArgs_raws (l : List Bytes) : Cmd.rawArgs (l.map Arg.raw) = l := by
  induction l with
  | nil => rfl
  | cons a l ih => simp only [List.map_cons, Cmd.rawArgs, ih]

theorem scriptBody_eval (special : Special) (mode : Mode) (c : Nat) (script : Bytes) (numkeys : Int) (rest : List Arg) :
    scriptBody special mode c "eval" (.raw script :: .int numkeys :: rest) =
      evalBody special mode c script numkeys (Cmd.rawArgs rest) := by
  funext s
  simp only [scriptBody, bind, StateT.bind, get, getThe, MonadStateOf.get, StateT.get, pure, StateT.pure]

theorem scriptBody_evalsha_run (special : Special) (mode : Mode) (c : Nat) (sha : Bytes) (numkeys : Int) (rest : List Arg)
    (s : Sys) :
    (scriptBody special mode c "evalsha" (.raw sha :: .int numkeys :: rest)).run s =
      match s.srv.scripts.lookup sha with
      | none => (.error Msgs.NO_MATCHING_SCRIPT_MSG, s)
      | some script => (evalBody special mode c script numkeys (Cmd.rawArgs rest)).run s := by
  simp only [scriptBody, StateT.run, bind, StateT.bind, get, getThe, MonadStateOf.get, StateT.get, pure, StateT.pure]
  cases hL : List.lookup sha s.srv.scripts <;> rfl

theorem casematch_excl {sub : Bytes} {a b : String} (ha : casematch sub a = true) (hab : strBytes a ≠ strBytes b) :
    casematch sub b = false := by
  unfold casematch at *
  rw [eq_of_beq ha]
  simpa using hab

theorem scriptBody_load_run (special : Special) (mode : Mode) (c : Nat) (sub src h : Bytes) (more : List (List Bytes))
    (s : Sys) (hsub : casematch sub "load" = true) (hp : s.picks = [strBytes "sha", h] :: more) :
    (scriptBody special mode c "script" [.raw sub, .raw src]).run s = (.ok (.bulk h), s.cacheScript more h src) := by
  simp only [scriptBody, StateT.run, bind, StateT.bind, get, getThe, MonadStateOf.get, StateT.get, pure, StateT.pure,
    hsub, if_true, Cmd.rawArgs, shaHint_run h more s hp]
  rfl

theorem scriptBody_exists_run (special : Special) (mode : Mode) (c : Nat) (sub : Bytes) (hs : List Bytes)
    (s : Sys) (hsub : casematch sub "exists" = true) (hv : s.srv.version ≥ 7 → hs ≠ []) :
    (scriptBody special mode c "script" (.raw sub :: hs.map .raw)).run s =
      (.ok (.arr (hs.map fun h => .int (if (s.srv.scripts.lookup h).isSome then 1 else 0))), s) := by
  have hl : casematch sub "load" = false := casematch_excl hsub (by rw [strBytes_eq, strBytes_eq]; decide)
  have hc : (decide (s.srv.version ≥ 7) && hs.isEmpty) = false := by
    cases hs with
    | nil => simp at hv; simp; omega
    | cons a l => simp
  simp only [scriptBody, StateT.run, bind, StateT.bind, get, getThe, MonadStateOf.get, StateT.get, pure, StateT.pure,
    hsub, hl, if_true, rawArgs_raws, hc, Bool.false_eq_true, if_false]

theorem scriptBody_exists_noargs7 (special : Special) (mode : Mode) (c : Nat) (sub : Bytes)
    (s : Sys) (hsub : casematch sub "exists" = true) (hv : s.srv.version ≥ 7) :
    (scriptBody special mode c "script" [.raw sub]).run s =
      (.error (Msgs.fmt1 Msgs.WRONG_ARGS_MSG "script|exists"), s) := by
  have hl : casematch sub "load" = false := casematch_excl hsub (by rw [strBytes_eq, strBytes_eq]; decide)
  simp only [scriptBody, StateT.run, bind, StateT.bind, get, getThe, MonadStateOf.get, StateT.get, pure, StateT.pure,
    hsub, hl, if_true, Cmd.rawArgs, hv, List.isEmpty_nil, decide_true, Bool.and_self, Bool.false_eq_true, if_false]

/-- the argument list of SCRIPT FLUSH the code accepts -/
def flushArgOk (raw : List Bytes) : Prop :=
  raw = [] ∨ ∃ a, raw = [a] ∧ (casenorm a = strBytes "sync" ∨ casenorm a = strBytes "async")

theorem scriptBody_flush_run (special : Special) (mode : Mode) (c : Nat) (sub : Bytes) (raw : List Bytes)
    (s : Sys) (hsub : casematch sub "flush" = true) (hraw : flushArgOk raw) :
    (scriptBody special mode c "script" (.raw sub :: raw.map .raw)).run s =
      (.ok .ok, { s with srv := { s.srv with scripts := [] } }) := by
  have hl : casematch sub "load" = false := casematch_excl hsub (by rw [strBytes_eq, strBytes_eq]; decide)
  have he : casematch sub "exists" = false := casematch_excl hsub (by rw [strBytes_eq, strBytes_eq]; decide)
  have hc : (decide (raw.length > 1) || (raw.length == 1 && casenorm (raw.headD []) != strBytes "sync" &&
      casenorm (raw.headD []) != strBytes "async")) = false := by
    rcases hraw with rfl | ⟨a, rfl, h | h⟩
    · rfl
    · simp [h]
    · simp [h]
  simp only [scriptBody, StateT.run, bind, StateT.bind, get, getThe, MonadStateOf.get, StateT.get, pure, StateT.pure,
    hsub, hl, he, if_true, rawArgs_raws, hc, Bool.false_eq_true, if_false]
  rfl

/-! ## the gate inside the nested runner -/

set_option maxRecDepth 100000 in
theorem noScript_not_regular : ∀ sig ∈ SigTable.sigs, sig.noScript = true → (Cmd.regular sig.name).isNone = true := by
  decide

/-- a command flagged `no_script` that reaches the gate from a script is refused before its body runs:
the outcome does not depend on the table of bodies -/
theorem runWith_noScript_run (special : Special) (mode : Mode) (c : Nat) (sig : Sig) (raw : List Bytes) (s : Sys)
    (h : sig.noScript = true) (hreg : Cmd.regular sig.name = none) (hr : s.refuses c sig = false) :
    runWith special mode c sig raw true s =
      let d := (s.conn c).db
      let o := sig.apply raw ⟨s.srv.dbs.getD d [], s.srv.time⟩
      (some (match o.2 with
        | .error e => .err (strBytes e)
        | .ok (.short r) => r
        | .ok (.ok _ _) => .err (strBytes Msgs.COMMAND_IN_SCRIPT_MSG)),
       { s with srv := { s.srv with dbs := s.srv.dbs.set d o.1.dict } }) := by
  rw [runWith_not_refused special mode c sig raw true hr]
  simp only [runWithBody, bind, StateT.bind, getConn_run, getDb_run, hreg, runGate_noScript sig _ h]
  rcases hap : sig.apply raw ⟨s.srv.dbs.getD (s.conn c).db [], s.srv.time⟩ with ⟨db', res⟩
  simp only [setDb_run]
  rcases res with e | (r | ⟨args, cis⟩) <;> rfl

/-! ## what is handed to Lua never contains a Lua nil -/

mutual
/-- no `nil` in any array part (a Lua table cannot hold one: the array would end there) -/
def LuaVal.nilFree : LuaVal → Bool
  | .nil => false
  | .table arr hash => LuaVal.nilFreeL arr && LuaVal.nilFreeH hash
  | _ => true
def LuaVal.nilFreeL : List LuaVal → Bool
  | [] => true
  | x :: xs => x.nilFree && LuaVal.nilFreeL xs
def LuaVal.nilFreeH : List (Bytes × LuaVal) → Bool
  | [] => true
  | (_, v) :: rest => v.nilFree && LuaVal.nilFreeH rest
end

mutual
theorem nilFree_of_replyToLua : (r : Reply) → (v : LuaVal) → replyToLua r = .ok v → v.nilFree = true
  | .nil, v, h => by rw [replyToLua_nil] at h; cases h; rfl
  | .int _, v, h => by rw [replyToLua_int] at h; cases h; rfl
  | .bulk _, v, h => by rw [replyToLua_bulk] at h; cases h; rfl
  | .status _, v, h => by rw [replyToLua_status] at h; cases h; rfl
  | .err e, v, h => by rw [replyToLua_err] at h; cases h
  | .arr xs, v, h => by
    rw [replyToLua_arr] at h
    cases hr : repliesToLua xs with
    | error e => rw [hr] at h; cases h
    | ok vs =>
      rw [hr] at h; cases h
      simp only [LuaVal.nilFree, nilFreeL_of_repliesToLua xs vs hr, LuaVal.nilFreeH, Bool.and_self]
theorem nilFreeL_of_repliesToLua : (xs : List Reply) → (vs : List LuaVal) → repliesToLua xs = .ok vs →
    LuaVal.nilFreeL vs = true
  | [], vs, h => by rw [repliesToLua_nil] at h; cases h; rfl
  | x :: xs, vs, h => by
    cases hx : replyToLua x with
    | error e => rw [repliesToLua_cons_err xs hx] at h; cases h
    | ok v =>
      rw [repliesToLua_cons_ok xs hx] at h
      cases hr : repliesToLua xs with
      | error e => rw [hr] at h; cases h
      | ok ws =>
        rw [hr] at h; cases h
        simp only [LuaVal.nilFreeL, nilFree_of_replyToLua x v hx, nilFreeL_of_repliesToLua xs ws hr, Bool.and_self]
end

section Codec
open LuaVal

/-! ## the hint codec -/

def hexByte (n : Nat) : UInt8 := if n < 10 then UInt8.ofNat (48 + n) else UInt8.ofNat (87 + n)

def hexBytes (b : Bytes) : Bytes := b.flatMap fun c => [hexByte (c.toNat / 16), hexByte (c.toNat % 16)]

theorem utf8EncodeChar_hexDigit_all : ∀ n, n < 16 → String.utf8EncodeChar (hexDigit n) = [hexByte n] := by decide
theorem utf8EncodeChar_hexDigit {n : Nat} (h : n < 16) : String.utf8EncodeChar (hexDigit n) = [hexByte n] := utf8EncodeChar_hexDigit_all n h

theorem charOfNat_hexByte_all : ∀ n, n < 16 → Char.ofNat (hexByte n).toNat = hexDigit n := by decide
theorem charOfNat_hexByte {n : Nat} (h : n < 16) : Char.ofNat (hexByte n).toNat = hexDigit n := charOfNat_hexByte_all n h

theorem hexVal_hexDigit_all : ∀ n, n < 16 → hexVal (hexDigit n) = some n := by decide
theorem hexVal_hexDigit {n : Nat} (h : n < 16) : hexVal (hexDigit n) = some n := hexVal_hexDigit_all n h

theorem hexByte_range_all : ∀ n, n < 16 →
    (48 ≤ (hexByte n).toNat ∧ (hexByte n).toNat ≤ 57) ∨ (97 ≤ (hexByte n).toNat ∧ (hexByte n).toNat ≤ 102) := by decide
theorem hexByte_range {n : Nat} (h : n < 16) :
    (48 ≤ (hexByte n).toNat ∧ (hexByte n).toNat ≤ 57) ∨ (97 ≤ (hexByte n).toNat ∧ (hexByte n).toNat ≤ 102) := hexByte_range_all n h

theorem strBytes_toHex (b : Bytes) : strBytes (toHex b) = hexBytes b := by
  unfold strBytes toHex hexBytes
  rw [strBytes_ofList]
  induction b with
  | nil => rfl
  | cons c b ih =>
    have h1 : c.toNat / 16 < 16 := by have := c.toNat_lt; omega
    have h2 : c.toNat % 16 < 16 := by omega
    simp only [List.flatMap_cons, List.flatMap_nil, List.flatMap_append, List.append_nil,
      utf8EncodeChar_hexDigit h1, utf8EncodeChar_hexDigit h2, ih]
    rfl

theorem bytesStr_hexBytes (b : Bytes) : bytesStr (hexBytes b) = toHex b := by
  unfold bytesStr toHex hexBytes
  congr 1
  induction b with
  | nil => rfl
  | cons c b ih =>
    have h1 : c.toNat / 16 < 16 := by have := c.toNat_lt; omega
    have h2 : c.toNat % 16 < 16 := by omega
    simp only [List.flatMap_cons, List.map_append, List.map_cons, List.map_nil, charOfNat_hexByte h1,
      charOfNat_hexByte h2, ih]

theorem fromHex_toHex (b : Bytes) : fromHex (toHex b) = some b := by
  unfold fromHex toHex
  rw [String.toList_ofList]
  induction b with
  | nil => rfl
  | cons c b ih =>
    have h1 : c.toNat / 16 < 16 := by have := c.toNat_lt; omega
    have h2 : c.toNat % 16 < 16 := by omega
    simp only [List.flatMap_cons, List.cons_append, List.nil_append, fromHexChars, hexVal_hexDigit h1,
      hexVal_hexDigit h2, ih]
    congr 2
    rw [Nat.div_add_mod' c.toNat 16]
    exact UInt8.ofNat_toNat

theorem hexBytes_not_mem (b : Bytes) (x : UInt8) (hx : x ∈ hexBytes b) :
    (48 ≤ x.toNat ∧ x.toNat ≤ 57) ∨ (97 ≤ x.toNat ∧ x.toNat ≤ 102) := by
  unfold hexBytes at hx
  rw [List.mem_flatMap] at hx
  obtain ⟨c, _, hc⟩ := hx
  have h1 : c.toNat / 16 < 16 := by have := c.toNat_lt; omega
  have h2 : c.toNat % 16 < 16 := by omega
  simp only [List.mem_cons, List.not_mem_nil, or_false] at hc
  rcases hc with rfl | rfl
  · exact hexByte_range h1
  · exact hexByte_range h2

theorem takeUntil_append (c : UInt8) (x r : Bytes) (h : c ∉ x) : takeUntil c (x ++ c :: r) = (x, r) := by
  induction x with
  | nil => simp [takeUntil]
  | cons a x ih =>
    have ha : (a == c) = false := by
      simp only [List.mem_cons, not_or] at h
      simpa using fun e => h.1 e.symm
    simp only [List.cons_append, takeUntil, ha, Bool.false_eq_true, if_false]
    rw [ih (fun hm => h (List.mem_cons_of_mem _ hm))]

theorem hexBytes_no (b : Bytes) (c : UInt8) (hc : c.toNat = 59 ∨ c.toNat = 61 ∨ c.toNat = 44 ∨ c.toNat = 124 ∨ c.toNat = 125) :
    c ∉ hexBytes b := by
  intro h
  have := hexBytes_not_mem b c h
  omega

theorem takeUntil_hex (c : UInt8) (k r : Bytes) (hc : c.toNat = 59 ∨ c.toNat = 61) :
    takeUntil c (hexBytes k ++ c :: r) = (hexBytes k, r) :=
  takeUntil_append c _ r (hexBytes_no k c (by omega))

theorem fromHex_bytesStr_hexBytes (k : Bytes) : fromHex (bytesStr (hexBytes k)) = some k := by
  rw [bytesStr_hexBytes, fromHex_toHex]

/-! ### unfolding lemmas of the parser -/

theorem parse_nil (fuel : Nat) (r : Bytes) : parse (fuel + 1) (78 :: r) = some (.nil, r) := by
  simp only [parse]
theorem parse_true (fuel : Nat) (r : Bytes) : parse (fuel + 1) (84 :: r) = some (.bool true, r) := by
  simp only [parse]
theorem parse_false (fuel : Nat) (r : Bytes) : parse (fuel + 1) (70 :: r) = some (.bool false, r) := by
  simp only [parse]
theorem parse_int (fuel : Nat) (r : Bytes) : parse (fuel + 1) (73 :: r) =
    (parseCanonInt (takeUntil 59 r).1).map fun n => (.int n, (takeUntil 59 r).2) := by
  simp only [parse]
theorem parse_flt (fuel : Nat) (r : Bytes) : parse (fuel + 1) (68 :: r) =
    if (takeUntil 59 r).1.all isDigit && !(takeUntil 59 r).1.isEmpty
    then some (.flt (Dbl.ofBits (UInt64.ofNat (digitsVal (takeUntil 59 r).1))), (takeUntil 59 r).2) else none := by
  simp only [parse]
theorem parse_str (fuel : Nat) (r : Bytes) : parse (fuel + 1) (83 :: r) =
    (fromHex (bytesStr (takeUntil 59 r).1)).map fun x => (.str x, (takeUntil 59 r).2) := by
  simp only [parse]
theorem parse_pystr (fuel : Nat) (r : Bytes) : parse (fuel + 1) (85 :: r) =
    (fromHex (bytesStr (takeUntil 59 r).1)).map fun x => (.pystr x, (takeUntil 59 r).2) := by
  simp only [parse]
theorem parse_table (fuel : Nat) (r : Bytes) : parse (fuel + 1) (123 :: r) =
    match parse.arrLoop fuel (r.length + 2) r [] with
    | some (arr, r1) => (parse.hashLoop fuel (r.length + 2) r1 []).map fun (h, r2) => (.table arr h, r2)
    | none => none := by
  simp only [parse]
  rfl

theorem arrLoop_end (fuel f : Nat) (r : Bytes) (acc) :
    parse.arrLoop fuel (f + 1) (124 :: r) acc = some (acc.reverse, r) := by
  simp only [parse.arrLoop]
theorem arrLoop_comma (fuel f : Nat) (r : Bytes) (acc) :
    parse.arrLoop fuel (f + 1) (44 :: r) acc = parse.arrLoop fuel f r acc := by
  simp only [parse.arrLoop]
theorem arrLoop_elem (fuel f : Nat) (x : UInt8) (t : Bytes) (acc) (h1 : x ≠ 124) (h2 : x ≠ 44) :
    parse.arrLoop fuel (f + 1) (x :: t) acc =
      match parse fuel (x :: t) with
      | some (v, r) => parse.arrLoop fuel f r (v :: acc)
      | none => none := by
  rw [parse.arrLoop.eq_def]
  simp only
  split
  · rename_i heq; cases heq; exact absurd rfl h1
  · rename_i heq; cases heq; exact absurd rfl h2
  · rfl

theorem hashLoop_end (fuel f : Nat) (r : Bytes) (acc) :
    parse.hashLoop fuel (f + 1) (125 :: r) acc = some (acc.reverse, r) := by
  simp only [parse.hashLoop]
theorem hashLoop_comma (fuel f : Nat) (r : Bytes) (acc) :
    parse.hashLoop fuel (f + 1) (44 :: r) acc = parse.hashLoop fuel f r acc := by
  simp only [parse.hashLoop]
theorem hashLoop_elem (fuel f : Nat) (x : UInt8) (t : Bytes) (acc) (h1 : x ≠ 125) (h2 : x ≠ 44) :
    parse.hashLoop fuel (f + 1) (x :: t) acc =
      match fromHex (bytesStr (takeUntil 61 (x :: t)).1), parse fuel (takeUntil 61 (x :: t)).2 with
      | some k', some (v, r') => parse.hashLoop fuel f r' ((k', v) :: acc)
      | _, _ => none := by
  rw [parse.hashLoop.eq_def]
  simp only
  split
  · rename_i heq; cases heq; exact absurd rfl h1
  · rename_i heq; cases heq; exact absurd rfl h2
  · rfl

/-! ### the round trip -/

mutual
/-- every float is in the canonical representation `Dbl.ofBits` produces -/
def LuaVal.fltOk : LuaVal → Prop
  | .flt d => Dbl.ofBits d.toBits = d
  | .table arr hash => LuaVal.fltOkL arr ∧ LuaVal.fltOkH hash
  | _ => True
def LuaVal.fltOkL : List LuaVal → Prop
  | [] => True
  | x :: xs => x.fltOk ∧ LuaVal.fltOkL xs
def LuaVal.fltOkH : List (Bytes × LuaVal) → Prop
  | [] => True
  | (_, v) :: rest => v.fltOk ∧ LuaVal.fltOkH rest
end

theorem ser_head (v : LuaVal) : ∃ a t, v.ser = a :: t ∧ a ≠ 124 ∧ a ≠ 44 ∧ a ≠ 125 := by
  cases v with
  | nil => exact ⟨78, [], by simp only [ser], by decide, by decide, by decide⟩
  | bool b => cases b
              · exact ⟨70, [], by simp only [ser], by decide, by decide, by decide⟩
              · exact ⟨84, [], by simp only [ser], by decide, by decide, by decide⟩
  | int n => exact ⟨73, _, by simp only [ser]; rfl, by decide, by decide, by decide⟩
  | flt d => exact ⟨68, _, by simp only [ser]; rfl, by decide, by decide, by decide⟩
  | str b => exact ⟨83, _, by simp only [ser]; rfl, by decide, by decide, by decide⟩
  | pystr b => exact ⟨85, _, by simp only [ser]; rfl, by decide, by decide, by decide⟩
  | table a h => exact ⟨123, _, by simp only [ser]; rfl, by decide, by decide, by decide⟩

theorem serList_cons2 (x y : LuaVal) (ys : List LuaVal) :
    serList (x :: y :: ys) = x.ser ++ 44 :: serList (y :: ys) := by
  rw [serList]
  intro h; cases h
theorem serList_single (x : LuaVal) : serList [x] = x.ser := by rw [serList]
theorem serHash_cons2 (k : Bytes) (v : LuaVal) (p : Bytes × LuaVal) (ps : List (Bytes × LuaVal)) :
    serHash ((k, v) :: p :: ps) = hexBytes k ++ 61 :: v.ser ++ 44 :: serHash (p :: ps) := by
  rw [serHash, strBytes_toHex]
  intro h; cases h
theorem serHash_single (k : Bytes) (v : LuaVal) : serHash [(k, v)] = hexBytes k ++ 61 :: v.ser := by
  rw [serHash, strBytes_toHex]

theorem not_mem_intBytes_59 (n : Int) : (59 : UInt8) ∉ intBytes n := by
  unfold intBytes
  have hd : (59 : UInt8) ∉ natDigits n.natAbs := by
    intro h
    have := natDigits_isDigit_of_mem h
    revert this; decide
  split
  · intro h
    rcases List.mem_cons.1 h with h | h
    · revert h; decide
    · exact hd h
  · exact hd

theorem not_mem_natDigits_59 (n : Nat) : (59 : UInt8) ∉ natDigits n := by
  intro h
  have := natDigits_isDigit_of_mem h
  revert this; decide

theorem hexBytes_head_ne (k : Bytes) (t : Bytes) :
    ∃ a u, hexBytes k ++ 61 :: t = a :: u ∧ a ≠ 125 ∧ a ≠ 44 := by
  cases hk : hexBytes k with
  | nil => exact ⟨61, t, rfl, by decide, by decide⟩
  | cons a u =>
    refine ⟨a, u ++ 61 :: t, rfl, ?_, ?_⟩
    · intro e
      exact hexBytes_no k a (by subst e; decide) (by rw [hk]; exact List.mem_cons_self)
    · intro e
      exact hexBytes_no k a (by subst e; decide) (by rw [hk]; exact List.mem_cons_self)

theorem ser_length_pos (v : LuaVal) : 0 < v.ser.length := by
  obtain ⟨a, t, h, _⟩ := ser_head v
  rw [h]; simp

theorem serList_count (xs : List LuaVal) : 2 * xs.length ≤ (serList xs).length + 1 := by
  induction xs with
  | nil => simp
  | cons x xs ih =>
    have := ser_length_pos x
    cases xs with
    | nil => rw [serList_single]; simp only [List.length_cons, List.length_nil]; omega
    | cons y ys =>
      rw [serList_cons2]
      simp only [List.length_cons, List.length_append] at ih ⊢
      omega

theorem serHash_count (hs : List (Bytes × LuaVal)) : 2 * hs.length ≤ (serHash hs).length + 1 := by
  induction hs with
  | nil => simp
  | cons p ps ih =>
    obtain ⟨k, v⟩ := p
    have := ser_length_pos v
    cases ps with
    | nil => rw [serHash_single]; simp only [List.length_cons, List.length_nil, List.length_append]; omega
    | cons q qs =>
      rw [serHash_cons2]
      simp only [List.length_cons, List.length_append] at ih ⊢
      omega

mutual
theorem parse_ser : (v : LuaVal) → v.fltOk → ∀ (fuel : Nat) (rest : Bytes), v.ser.length ≤ fuel →
    parse fuel (v.ser ++ rest) = some (v, rest)
  | .nil, _, fuel, rest, hl => by
    simp only [ser, List.length_cons, List.length_nil] at hl
    obtain ⟨f, rfl⟩ : ∃ f, fuel = f + 1 := ⟨fuel - 1, by omega⟩
    simp only [ser, List.cons_append, List.nil_append, parse_nil]
  | .bool true, _, fuel, rest, hl => by
    simp only [ser, List.length_cons, List.length_nil] at hl
    obtain ⟨f, rfl⟩ : ∃ f, fuel = f + 1 := ⟨fuel - 1, by omega⟩
    simp only [ser, List.cons_append, List.nil_append, parse_true]
  | .bool false, _, fuel, rest, hl => by
    simp only [ser, List.length_cons, List.length_nil] at hl
    obtain ⟨f, rfl⟩ : ∃ f, fuel = f + 1 := ⟨fuel - 1, by omega⟩
    simp only [ser, List.cons_append, List.nil_append, parse_false]
  | .int n, _, fuel, rest, hl => by
    have hpos := ser_length_pos (.int n)
    obtain ⟨f, rfl⟩ : ∃ f, fuel = f + 1 := ⟨fuel - 1, by omega⟩
    simp only [ser, List.cons_append, List.append_assoc, List.nil_append, parse_int,
      takeUntil_append 59 _ rest (not_mem_intBytes_59 n), parseCanonInt_intBytes, Option.map_some]
  | .flt d, hd, fuel, rest, hl => by
    have hpos := ser_length_pos (.flt d)
    obtain ⟨f, rfl⟩ : ∃ f, fuel = f + 1 := ⟨fuel - 1, by omega⟩
    have hne : (natDigits d.toBits.toNat).isEmpty = false := by
      cases h : natDigits d.toBits.toNat with
      | nil => exact absurd h (natDigits_ne_nil _)
      | cons _ _ => rfl
    have hd' : Dbl.ofBits d.toBits = d := by simpa only [LuaVal.fltOk] using hd
    simp only [ser, List.cons_append, List.append_assoc, List.nil_append, parse_flt,
      takeUntil_append 59 _ rest (not_mem_natDigits_59 _), natDigits_all_isDigit, hne, Bool.not_false,
      Bool.and_self, if_true, digitsVal_natDigits, UInt64.ofNat_toNat, hd']
  | .str b, _, fuel, rest, hl => by
    have hpos := ser_length_pos (.str b)
    obtain ⟨f, rfl⟩ : ∃ f, fuel = f + 1 := ⟨fuel - 1, by omega⟩
    simp only [ser, strBytes_toHex, List.cons_append, List.append_assoc, List.nil_append, parse_str,
      takeUntil_hex 59 b rest (Or.inl rfl), fromHex_bytesStr_hexBytes, Option.map_some]
  | .pystr b, _, fuel, rest, hl => by
    have hpos := ser_length_pos (.pystr b)
    obtain ⟨f, rfl⟩ : ∃ f, fuel = f + 1 := ⟨fuel - 1, by omega⟩
    simp only [ser, strBytes_toHex, List.cons_append, List.append_assoc, List.nil_append, parse_pystr,
      takeUntil_hex 59 b rest (Or.inl rfl), fromHex_bytesStr_hexBytes, Option.map_some]
  | .table arr hash, hd, fuel, rest, hl => by
    simp only [ser, List.length_cons, List.length_append, List.length_nil] at hl
    obtain ⟨f, rfl⟩ : ∃ f, fuel = f + 1 := ⟨fuel - 1, by omega⟩
    have hd' : LuaVal.fltOkL arr ∧ LuaVal.fltOkH hash := by simpa only [LuaVal.fltOk] using hd
    have e : (LuaVal.table arr hash).ser ++ rest =
        123 :: (serList arr ++ 124 :: (serHash hash ++ 125 :: rest)) := by
      simp only [ser, List.cons_append, List.append_assoc, List.nil_append]
    have hA := serList_count arr
    have hH := serHash_count hash
    rw [e, parse_table,
      arrLoop_ser arr hd'.1 f _ (serHash hash ++ 125 :: rest) [] (by omega)
        (by simp only [List.length_append, List.length_cons]; omega)]
    simp only [List.reverse_nil, List.nil_append]
    rw [hashLoop_ser hash hd'.2 f _ rest [] (by omega)
        (by simp only [List.length_append, List.length_cons]; omega)]
    rfl
theorem arrLoop_ser : (xs : List LuaVal) → LuaVal.fltOkL xs → ∀ (fuel f : Nat) (rest : Bytes) (acc : List LuaVal),
    (serList xs).length ≤ fuel → 2 * xs.length + 1 ≤ f →
    parse.arrLoop fuel f (serList xs ++ 124 :: rest) acc = some (acc.reverse ++ xs, rest)
  | [], _, fuel, f, rest, acc, hl, hf => by
    obtain ⟨f', rfl⟩ : ∃ f', f = f' + 1 := ⟨f - 1, by omega⟩
    simp only [serList, List.nil_append, arrLoop_end, List.append_nil]
  | x :: xs, hd, fuel, f, rest, acc, hl, hf => by
    have hd' : x.fltOk ∧ LuaVal.fltOkL xs := by simpa only [LuaVal.fltOkL] using hd
    have ihx := parse_ser x hd'.1 fuel
    have ihxs := arrLoop_ser xs hd'.2 fuel
    obtain ⟨a, t, hat, h1, h2, _⟩ := ser_head x
    simp only [List.length_cons] at hf
    obtain ⟨f', rfl⟩ : ∃ f', f = f' + 2 := ⟨f - 2, by omega⟩
    cases xs with
    | nil =>
      rw [serList_single] at hl ⊢
      have hp := ihx (124 :: rest) hl
      rw [hat] at hp ⊢
      rw [List.cons_append] at hp ⊢
      rw [arrLoop_elem _ _ _ _ _ h1 h2, hp]
      simp only [arrLoop_end, List.reverse_cons]
    | cons y ys =>
      rw [serList_cons2] at hl ⊢
      simp only [List.length_append, List.length_cons] at hl
      have hp := ihx (44 :: (serList (y :: ys) ++ 124 :: rest)) (by omega)
      have e : (x.ser ++ 44 :: serList (y :: ys)) ++ 124 :: rest =
          x.ser ++ 44 :: (serList (y :: ys) ++ 124 :: rest) := by
        simp only [List.append_assoc, List.cons_append]
      rw [e]
      rw [hat] at hp ⊢
      rw [List.cons_append] at hp ⊢
      rw [arrLoop_elem _ _ _ _ _ h1 h2, hp]
      simp only [arrLoop_comma]
      simp only [List.length_cons] at hf
      rw [ihxs f' rest (x :: acc) (by omega) (by simp only [List.length_cons]; omega)]
      simp only [List.reverse_cons, List.append_assoc, List.singleton_append]
theorem hashLoop_ser : (hs : List (Bytes × LuaVal)) → LuaVal.fltOkH hs →
    ∀ (fuel f : Nat) (rest : Bytes) (acc : List (Bytes × LuaVal)),
    (serHash hs).length ≤ fuel → 2 * hs.length + 1 ≤ f →
    parse.hashLoop fuel f (serHash hs ++ 125 :: rest) acc = some (acc.reverse ++ hs, rest)
  | [], _, fuel, f, rest, acc, hl, hf => by
    obtain ⟨f', rfl⟩ : ∃ f', f = f' + 1 := ⟨f - 1, by omega⟩
    simp only [serHash, List.nil_append, hashLoop_end, List.append_nil]
  | (k, v) :: ps, hd, fuel, f, rest, acc, hl, hf => by
    have hd' : v.fltOk ∧ LuaVal.fltOkH ps := by simpa only [LuaVal.fltOkH] using hd
    have ihv := parse_ser v hd'.1 fuel
    have ihps := hashLoop_ser ps hd'.2 fuel
    simp only [List.length_cons] at hf
    obtain ⟨f', rfl⟩ : ∃ f', f = f' + 2 := ⟨f - 2, by omega⟩
    cases ps with
    | nil =>
      rw [serHash_single] at hl ⊢
      simp only [List.length_append, List.length_cons] at hl
      have hp := ihv (125 :: rest) (by omega)
      have e : (hexBytes k ++ 61 :: v.ser) ++ 125 :: rest = hexBytes k ++ 61 :: (v.ser ++ 125 :: rest) := by
        simp only [List.append_assoc, List.cons_append]
      rw [e]
      obtain ⟨a, u, hau, h1, h2⟩ := hexBytes_head_ne k (v.ser ++ 125 :: rest)
      rw [hau, hashLoop_elem _ _ _ _ _ h1 h2, ← hau, takeUntil_hex 61 k _ (Or.inr rfl)]
      simp only [fromHex_bytesStr_hexBytes, hp, hashLoop_end, List.reverse_cons]
    | cons p ps =>
      rw [serHash_cons2] at hl ⊢
      simp only [List.length_append, List.length_cons] at hl
      have hp := ihv (44 :: (serHash (p :: ps) ++ 125 :: rest)) (by omega)
      have e : (hexBytes k ++ 61 :: v.ser ++ 44 :: serHash (p :: ps)) ++ 125 :: rest =
          hexBytes k ++ 61 :: (v.ser ++ 44 :: (serHash (p :: ps) ++ 125 :: rest)) := by
        simp only [List.append_assoc, List.cons_append]
      rw [e]
      obtain ⟨a, u, hau, h1, h2⟩ := hexBytes_head_ne k (v.ser ++ 44 :: (serHash (p :: ps) ++ 125 :: rest))
      rw [hau, hashLoop_elem _ _ _ _ _ h1 h2, ← hau, takeUntil_hex 61 k _ (Or.inr rfl)]
      simp only [fromHex_bytesStr_hexBytes, hp, hashLoop_comma]
      simp only [List.length_cons] at hf
      rw [ihps f' rest ((k, v) :: acc) (by omega) (by simp only [List.length_cons]; omega)]
      simp only [List.reverse_cons, List.append_assoc, List.singleton_append]
end

theorem ofBytes_ser (v : LuaVal) (h : v.fltOk) : LuaVal.ofBytes v.ser = some v := by
  unfold LuaVal.ofBytes
  have := parse_ser v h (v.ser.length + 1) [] (by omega)
  rw [List.append_nil] at this
  rw [this]

mutual
/-- no float anywhere in the value -/
def LuaVal.noFlt : LuaVal → Bool
  | .flt _ => false
  | .table arr hash => LuaVal.noFltL arr && LuaVal.noFltH hash
  | _ => true
def LuaVal.noFltL : List LuaVal → Bool
  | [] => true
  | x :: xs => x.noFlt && LuaVal.noFltL xs
def LuaVal.noFltH : List (Bytes × LuaVal) → Bool
  | [] => true
  | (_, v) :: rest => v.noFlt && LuaVal.noFltH rest
end

mutual
theorem fltOk_of_noFlt : (v : LuaVal) → v.noFlt = true → v.fltOk
  | .nil, _ | .bool _, _ | .int _, _ | .str _, _ | .pystr _, _ => by simp only [LuaVal.fltOk]
  | .flt d, h => by simp [LuaVal.noFlt] at h
  | .table arr hash, h => by
    simp only [LuaVal.noFlt, Bool.and_eq_true] at h
    simp only [LuaVal.fltOk]
    exact ⟨fltOkL_of_noFlt arr h.1, fltOkH_of_noFlt hash h.2⟩
theorem fltOkL_of_noFlt : (xs : List LuaVal) → LuaVal.noFltL xs = true → LuaVal.fltOkL xs
  | [], _ => by simp only [LuaVal.fltOkL]
  | x :: xs, h => by
    simp only [LuaVal.noFltL, Bool.and_eq_true] at h
    simp only [LuaVal.fltOkL]
    exact ⟨fltOk_of_noFlt x h.1, fltOkL_of_noFlt xs h.2⟩
theorem fltOkH_of_noFlt : (hs : List (Bytes × LuaVal)) → LuaVal.noFltH hs = true → LuaVal.fltOkH hs
  | [], _ => by simp only [LuaVal.fltOkH]
  | (k, v) :: ps, h => by
    simp only [LuaVal.noFltH, Bool.and_eq_true] at h
    simp only [LuaVal.fltOkH]
    exact ⟨fltOk_of_noFlt v h.1, fltOkH_of_noFlt ps h.2⟩
end


theorem ofBytes_ser_flt (d : Dbl) : LuaVal.ofBytes (LuaVal.flt d).ser = some (.flt (Dbl.ofBits d.toBits)) := by
  unfold LuaVal.ofBytes
  have hne : (natDigits d.toBits.toNat).isEmpty = false := by
    cases h : natDigits d.toBits.toNat with
    | nil => exact absurd h (natDigits_ne_nil _)
    | cons _ _ => rfl
  have e : (LuaVal.flt d).ser = 68 :: (natDigits d.toBits.toNat ++ 59 :: []) := by
    simp only [ser, List.cons_append]
  rw [e]
  simp only [parse_flt, takeUntil_append 59 _ [] (not_mem_natDigits_59 _), natDigits_all_isDigit, hne, Bool.not_false,
    Bool.and_self, if_true, digitsVal_natDigits, UInt64.ofNat_toNat]

end Codec

end FR
