import FR
/-!
# Sorted sets: order lemmas, the two-index invariant, and agreement of the read operations

Helper lemmas for `FR/Props/C03.lean`.
-/
namespace FR

/-! ## 1. Order lemmas -/

/-! ### `bytesLt` is a strict total order -/

theorem bytesLt_irrefl (a : Bytes) : bytesLt a a = false := by
  induction a with
  | nil => rfl
  | cons x xs ih =>
    simp only [bytesLt, ih, UInt8.lt_irrefl, gt_iff_lt, if_false]

theorem bytesLt_trans {a b c : Bytes} : bytesLt a b = true → bytesLt b c = true → bytesLt a c = true := by
  induction a generalizing b c with
  | nil =>
    cases b with
    | nil => intro h; simp [bytesLt] at h
    | cons y ys =>
      cases c with
      | nil => intro _ h; simp [bytesLt] at h
      | cons z zs => intro _ _; rfl
  | cons x xs ih =>
    cases b with
    | nil => intro h; simp [bytesLt] at h
    | cons y ys =>
      cases c with
      | nil => intro _ h; simp [bytesLt] at h
      | cons z zs =>
        simp only [bytesLt, gt_iff_lt]
        intro h1 h2
        have hxy := @UInt8.lt_iff_toNat_lt x y
        have hyx := @UInt8.lt_iff_toNat_lt y x
        have hyz := @UInt8.lt_iff_toNat_lt y z
        have hzy := @UInt8.lt_iff_toNat_lt z y
        have hxz := @UInt8.lt_iff_toNat_lt x z
        have hzx := @UInt8.lt_iff_toNat_lt z x
        by_cases c1 : x < y
        · by_cases c2 : y < z
          · have : x < z := UInt8.lt_trans c1 c2
            simp [this]
          · by_cases c3 : z < y
            · simp [c2, c3] at h2
            · have : x < z := by rw [hxz]; rw [hxy] at c1; rw [hyz] at c2; rw [hzy] at c3; omega
              simp [this]
        · by_cases c1' : y < x
          · simp [c1, c1'] at h1
          · simp only [c1, c1', if_false] at h1
            have exy : x = y := by
              apply UInt8.toNat_inj.mp; rw [hxy] at c1; rw [hyx] at c1'; omega
            subst exy
            by_cases c2 : x < z
            · simp [c2]
            · by_cases c3 : z < x
              · simp [c2, c3] at h2
              · simp only [c2, c3, if_false] at h2 ⊢
                exact ih h1 h2

theorem bytesLt_trichotomy (a b : Bytes) : bytesLt a b = true ∨ a = b ∨ bytesLt b a = true := by
  induction a generalizing b with
  | nil =>
    cases b with
    | nil => right; left; rfl
    | cons y ys => left; rfl
  | cons x xs ih =>
    cases b with
    | nil => right; right; rfl
    | cons y ys =>
      simp only [bytesLt, gt_iff_lt]
      have hxy := @UInt8.lt_iff_toNat_lt x y
      have hyx := @UInt8.lt_iff_toNat_lt y x
      by_cases c1 : x < y
      · left; simp [c1]
      · by_cases c2 : y < x
        · right; right; simp [c2]
        · have exy : x = y := by
            apply UInt8.toNat_inj.mp; rw [hxy] at c1; rw [hyx] at c2; omega
          subst exy
          simp only [c1, if_false]
          rcases ih ys with h | h | h
          · left; exact h
          · right; left; rw [h]
          · right; right; exact h

theorem bytesLt_asymm {a b : Bytes} (h : bytesLt a b = true) : bytesLt b a = false := by
  cases hb : bytesLt b a with
  | false => rfl
  | true =>
    have := bytesLt_trans h hb
    rw [bytesLt_irrefl] at this
    exact absurd this (by decide)

/-! ### `Dbl.lt` / `Dbl.eq`: a strict weak order on non-NaN doubles -/

namespace Dbl

/-- class of a double: -inf, finite, +inf -/
def cls : Dbl → Int
  | .inf true => -1
  | .inf false => 1
  | _ => 0

theorem lt_iff (a b : Dbl) : lt a b = true ↔
    a.isNaN = false ∧ b.isNaN = false ∧ (cls a < cls b ∨ (cls a = cls b ∧ scaled a < scaled b)) := by
  cases a with
  | nan => cases b <;> simp [lt, isNaN]
  | inf x =>
    cases b with
    | nan => simp [lt, isNaN]
    | inf y => cases x <;> cases y <;> simp [lt, isNaN, cls, scaled]
    | fin n m e => cases x <;> simp [lt, isNaN, cls]
  | fin n m e =>
    cases b with
    | nan => simp [lt, isNaN]
    | inf y => cases y <;> simp [lt, isNaN, cls]
    | fin n' m' e' => simp [lt, isNaN, cls]

theorem eq_iff (a b : Dbl) : eq a b = true ↔
    a.isNaN = false ∧ b.isNaN = false ∧ cls a = cls b ∧ scaled a = scaled b := by
  cases a with
  | nan => cases b <;> simp [eq, isNaN]
  | inf x =>
    cases b with
    | nan => simp [eq, isNaN]
    | inf y => cases x <;> cases y <;> simp [eq, isNaN, cls, scaled]
    | fin n m e => cases x <;> simp [eq, isNaN, cls]
  | fin n m e =>
    cases b with
    | nan => simp [eq, isNaN]
    | inf y => cases y <;> simp [eq, isNaN, cls]
    | fin n' m' e' => simp [eq, isNaN, cls]

theorem lt_irrefl (a : Dbl) : lt a a = false := by
  cases h : lt a a with
  | false => rfl
  | true => rw [lt_iff] at h; omega

theorem lt_trans {a b c : Dbl} (h1 : lt a b = true) (h2 : lt b c = true) : lt a c = true := by
  rw [lt_iff] at *
  refine ⟨h1.1, h2.2.1, ?_⟩
  omega

theorem lt_asymm {a b : Dbl} (h1 : lt a b = true) : lt b a = false := by
  cases h : lt b a with
  | false => rfl
  | true => rw [lt_iff] at *; omega

theorem eq_refl {a : Dbl} (h : a.isNaN = false) : eq a a = true := by
  rw [eq_iff]; exact ⟨h, h, rfl, rfl⟩

theorem eq_symm {a b : Dbl} (h : eq a b = true) : eq b a = true := by
  rw [eq_iff] at *; exact ⟨h.2.1, h.1, h.2.2.1.symm, h.2.2.2.symm⟩

theorem eq_comm (a b : Dbl) : eq a b = eq b a := by
  cases h : eq a b with
  | true => exact (eq_symm h).symm
  | false =>
    cases h' : eq b a with
    | false => rfl
    | true => rw [eq_symm h'] at h; exact h.symm

theorem eq_trans {a b c : Dbl} (h1 : eq a b = true) (h2 : eq b c = true) : eq a c = true := by
  rw [eq_iff] at *
  exact ⟨h1.1, h2.2.1, h1.2.2.1.trans h2.2.2.1, h1.2.2.2.trans h2.2.2.2⟩

theorem lt_of_lt_of_eq {a b c : Dbl} (h1 : lt a b = true) (h2 : eq b c = true) : lt a c = true := by
  rw [lt_iff] at *; rw [eq_iff] at h2
  refine ⟨h1.1, h2.2.1, ?_⟩
  omega

theorem lt_of_eq_of_lt {a b c : Dbl} (h1 : eq a b = true) (h2 : lt b c = true) : lt a c = true := by
  rw [lt_iff] at *; rw [eq_iff] at h1
  refine ⟨h1.1, h2.2.1, ?_⟩
  omega

theorem eq_of_lt {a b : Dbl} (h : lt a b = true) : eq a b = false := by
  cases h' : eq a b with
  | false => rfl
  | true => rw [lt_iff] at h; rw [eq_iff] at h'; omega

theorem eq_of_gt {a b : Dbl} (h : lt b a = true) : eq a b = false := by
  cases h' : eq a b with
  | false => rfl
  | true => rw [lt_iff] at h; rw [eq_iff] at h'; omega

/-- on non-NaN doubles exactly one of `a < b`, `a == b`, `b < a` holds -/
theorem trichotomy {a b : Dbl} (ha : a.isNaN = false) (hb : b.isNaN = false) :
    (lt a b = true ∧ eq a b = false ∧ lt b a = false) ∨
    (lt a b = false ∧ eq a b = true ∧ lt b a = false) ∨
    (lt a b = false ∧ eq a b = false ∧ lt b a = true) := by
  have h1 := lt_iff a b
  have h2 := eq_iff a b
  have h3 := lt_iff b a
  cases e1 : lt a b <;> cases e2 : eq a b <;> cases e3 : lt b a <;>
    simp only [e1, e2, e3, ha, hb, true_and, Bool.false_eq_true, false_iff, true_iff] at h1 h2 h3 <;>
    simp <;> omega

theorem lt_nan_left (b : Dbl) : lt .nan b = false := by cases b <;> rfl
theorem lt_nan_right (a : Dbl) : lt a .nan = false := by cases a <;> rfl
theorem eq_nan_left (b : Dbl) : eq .nan b = false := by cases b <;> rfl
theorem eq_nan_right (a : Dbl) : eq a .nan = false := by cases a <;> rfl

theorem isNaN_of_lt_left {a b : Dbl} (h : lt a b = true) : a.isNaN = false := ((lt_iff a b).mp h).1
theorem isNaN_of_lt_right {a b : Dbl} (h : lt a b = true) : b.isNaN = false := ((lt_iff a b).mp h).2.1
theorem isNaN_of_eq_left {a b : Dbl} (h : eq a b = true) : a.isNaN = false := ((eq_iff a b).mp h).1
theorem isNaN_of_eq_right {a b : Dbl} (h : eq a b = true) : b.isNaN = false := ((eq_iff a b).mp h).2.1

end Dbl


/-! ### `LexB.lt` and `pairLt` -/

theorem LexB.lt_irrefl (a : LexB) : LexB.lt a a = false := by
  cases a <;> simp [LexB.lt, bytesLt_irrefl]

theorem LexB.lt_trans {a b c : LexB} : LexB.lt a b = true → LexB.lt b c = true → LexB.lt a c = true := by
  cases a <;> cases b <;> cases c <;> simp [LexB.lt]
  exact bytesLt_trans

theorem LexB.lt_trichotomy (a b : LexB) : LexB.lt a b = true ∨ a = b ∨ LexB.lt b a = true := by
  cases a <;> cases b <;> simp [LexB.lt]
  exact bytesLt_trichotomy _ _

theorem LexB.lt_asymm {a b : LexB} (h : LexB.lt a b = true) : LexB.lt b a = false := by
  cases hb : LexB.lt b a with
  | false => rfl
  | true =>
    have := LexB.lt_trans h hb
    rw [LexB.lt_irrefl] at this
    exact absurd this (by decide)

/-- `pairLt` is irreflexive (for every score, NaN included) -/
theorem pairLt_irrefl (s : Dbl) (m : LexB) : pairLt s m s m = false := by
  unfold pairLt
  split
  · exact LexB.lt_irrefl m
  · exact Dbl.lt_irrefl s

/-- `pairLt` is transitive (for every score: comparisons with NaN are false) -/
theorem pairLt_trans {s1 s2 s3 : Dbl} {m1 m2 m3 : LexB}
    (h1 : pairLt s1 m1 s2 m2 = true) (h2 : pairLt s2 m2 s3 m3 = true) : pairLt s1 m1 s3 m3 = true := by
  unfold pairLt at *
  by_cases e12 : Dbl.eq s1 s2 = true
  · rw [if_pos e12] at h1
    by_cases e23 : Dbl.eq s2 s3 = true
    · rw [if_pos e23] at h2
      rw [if_pos (Dbl.eq_trans e12 e23)]
      exact LexB.lt_trans h1 h2
    · rw [if_neg e23] at h2
      have h13 := Dbl.lt_of_eq_of_lt e12 h2
      rw [if_neg (by rw [Dbl.eq_of_lt h13]; decide)]
      exact h13
  · rw [if_neg e12] at h1
    by_cases e23 : Dbl.eq s2 s3 = true
    · rw [if_pos e23] at h2
      have h13 := Dbl.lt_of_lt_of_eq h1 e23
      rw [if_neg (by rw [Dbl.eq_of_lt h13]; decide)]
      exact h13
    · rw [if_neg e23] at h2
      have h13 := Dbl.lt_trans h1 h2
      rw [if_neg (by rw [Dbl.eq_of_lt h13]; decide)]
      exact h13

theorem pairLt_asymm {s1 s2 : Dbl} {m1 m2 : LexB} (h : pairLt s1 m1 s2 m2 = true) :
    pairLt s2 m2 s1 m1 = false := by
  cases hb : pairLt s2 m2 s1 m1 with
  | false => rfl
  | true =>
    have := pairLt_trans h hb
    rw [pairLt_irrefl] at this
    exact absurd this (by decide)

/-- totality of `pairLt` on non-NaN scores, up to `Dbl.eq` on the scores -/
theorem pairLt_trichotomy {s1 s2 : Dbl} (m1 m2 : LexB) (h1 : s1.isNaN = false) (h2 : s2.isNaN = false) :
    pairLt s1 m1 s2 m2 = true ∨ (Dbl.eq s1 s2 = true ∧ m1 = m2) ∨ pairLt s2 m2 s1 m1 = true := by
  unfold pairLt
  rcases Dbl.trichotomy h1 h2 with ⟨a, b, c⟩ | ⟨a, b, c⟩ | ⟨a, b, c⟩
  · left; rw [b]; exact a
  · rw [b, Dbl.eq_comm s2 s1, b]
    simp only [if_true]
    rcases LexB.lt_trichotomy m1 m2 with h | h | h
    · left; exact h
    · right; left; exact ⟨trivial, h⟩
    · right; right; exact h
  · right; right; rw [Dbl.eq_comm s2 s1, b]; exact c

/-- total on pairs with different members -/
theorem pairLt_total_of_ne {s1 s2 : Dbl} {m1 m2 : LexB} (h1 : s1.isNaN = false) (h2 : s2.isNaN = false)
    (hne : m1 ≠ m2) : pairLt s1 m1 s2 m2 = true ∨ pairLt s2 m2 s1 m1 = true := by
  rcases pairLt_trichotomy m1 m2 h1 h2 with h | ⟨_, h⟩ | h
  · left; exact h
  · exact absurd h hne
  · right; exact h

theorem not_pairLt_iff_of_ne {s1 s2 : Dbl} {m1 m2 : LexB} (h1 : s1.isNaN = false) (h2 : s2.isNaN = false)
    (hne : m1 ≠ m2) : pairLt s1 m1 s2 m2 = false ↔ pairLt s2 m2 s1 m1 = true := by
  constructor
  · intro h
    rcases pairLt_total_of_ne h1 h2 hne with h' | h'
    · rw [h] at h'; exact absurd h' (by decide)
    · exact h'
  · exact pairLt_asymm


/-! ## 2. The invariant -/

namespace ZSet

/-- strict order on the entries of `byscore` (Python tuple comparison) -/
abbrev PLt (a b : Dbl × Bytes) : Prop := pairLt a.1 (.val a.2) b.1 (.val b.2) = true

/-- invariant of the two indexes of a sorted set -/
def Inv (z : ZSet) : Prop :=
  z.byscore.Pairwise (fun a b => pairLt a.1 (.val a.2) b.1 (.val b.2) = true)
  ∧ (z.bylex.map Prod.fst).Nodup
  ∧ (∀ m s, (m, s) ∈ z.bylex ↔ (s, m) ∈ z.byscore)
  ∧ (∀ p ∈ z.byscore, p.1.isNaN = false)

theorem empty_inv : ZSet.empty.Inv := by
  refine ⟨List.Pairwise.nil, List.nodup_nil, ?_, ?_⟩
  · intro m s; simp [ZSet.empty]
  · intro p hp; simp [ZSet.empty] at hp

/-! ### association lists -/

theorem lookup_some_mem {β} {d : List (Bytes × β)} {k : Bytes} {v : β} (h : d.lookup k = some v) :
    (k, v) ∈ d := by
  induction d with
  | nil => simp at h
  | cons x xs ih =>
    obtain ⟨k', v'⟩ := x
    rw [List.lookup_cons] at h
    by_cases e : k = k'
    · subst e; simp at h; subst h; simp
    · have : (k == k') = false := by simpa using e
      rw [this] at h
      exact List.mem_cons_of_mem _ (ih h)

theorem lookup_none_iff {β} {d : List (Bytes × β)} {k : Bytes} :
    d.lookup k = none ↔ k ∉ d.map Prod.fst := by
  induction d with
  | nil => simp
  | cons x xs ih =>
    obtain ⟨k', v'⟩ := x
    rw [List.lookup_cons]
    by_cases e : k = k'
    · subst e; simp
    · have : (k == k') = false := by simpa using e
      rw [this]; simp only [List.map_cons, List.mem_cons, not_or]
      rw [ih]; exact ⟨fun h => ⟨e, h⟩, fun h => h.2⟩

theorem lookup_of_mem_nodup {β} {d : List (Bytes × β)} {k : Bytes} {v : β}
    (hn : (d.map Prod.fst).Nodup) (h : (k, v) ∈ d) : d.lookup k = some v := by
  induction d with
  | nil => simp at h
  | cons x xs ih =>
    obtain ⟨k', v'⟩ := x
    rw [List.map_cons, List.nodup_cons] at hn
    rw [List.lookup_cons]
    rcases List.mem_cons.mp h with h | h
    · cases h; simp
    · have hk : k ∈ xs.map Prod.fst := List.mem_map.mpr ⟨(k, v), h, rfl⟩
      have e : k ≠ k' := fun e => hn.1 (e ▸ hk)
      have : (k == k') = false := by simpa using e
      rw [this]; exact ih hn.2 h

theorem lookup_iff_mem_of_nodup {β} {d : List (Bytes × β)} {k : Bytes} {v : β}
    (hn : (d.map Prod.fst).Nodup) : d.lookup k = some v ↔ (k, v) ∈ d :=
  ⟨lookup_some_mem, lookup_of_mem_nodup hn⟩

theorem any_key_iff {β} (d : List (Bytes × β)) (k : Bytes) :
    d.any (fun p => p.1 == k) = true ↔ k ∈ d.map Prod.fst := by
  simp only [List.any_eq_true, beq_iff_eq, List.mem_map]

theorem map_fst_dictSet {β} (d : List (Bytes × β)) (k : Bytes) (v : β) :
    (dictSet d k v).map Prod.fst = if k ∈ d.map Prod.fst then d.map Prod.fst else d.map Prod.fst ++ [k] := by
  unfold dictSet
  by_cases h : k ∈ d.map Prod.fst
  · rw [if_pos ((any_key_iff d k).mpr h), if_pos h, List.map_map]
    apply List.map_congr_left
    intro p _
    simp only [Function.comp]
    split
    · rename_i e; simpa using Eq.symm (by simpa using e)
    · rfl
  · rw [if_neg (fun h' => h ((any_key_iff d k).mp h')), if_neg h]
    simp

theorem mem_dictSet {β} (d : List (Bytes × β)) (k : Bytes) (v : β) (k' : Bytes) (v' : β) :
    (k', v') ∈ dictSet d k v ↔ (k' = k ∧ v' = v) ∨ (k' ≠ k ∧ (k', v') ∈ d) := by
  unfold dictSet
  by_cases h : k ∈ d.map Prod.fst
  · rw [if_pos ((any_key_iff d k).mpr h)]
    simp only [List.mem_map]
    constructor
    · rintro ⟨p, hp, e⟩
      by_cases c : p.1 = k
      · have : (p.1 == k) = true := by simpa using c
        rw [if_pos this] at e
        cases e; left; exact ⟨rfl, rfl⟩
      · have : ¬ (p.1 == k) = true := by simpa using c
        rw [if_neg this] at e
        subst e; right; exact ⟨c, hp⟩
    · rintro (⟨e1, e2⟩ | ⟨ne, hm⟩)
      · subst e1 e2
        obtain ⟨p, hp, e⟩ := List.mem_map.mp h
        refine ⟨p, hp, ?_⟩
        have : (p.1 == k') = true := by simpa using e
        rw [if_pos this]
      · refine ⟨(k', v'), hm, ?_⟩
        have : ¬ ((k', v').1 == k) = true := by simpa using ne
        rw [if_neg this]
  · rw [if_neg (fun h' => h ((any_key_iff d k).mp h'))]
    simp only [List.mem_append, List.mem_singleton, Prod.mk.injEq]
    constructor
    · rintro (hm | ⟨e1, e2⟩)
      · right
        refine ⟨?_, hm⟩
        intro e; subst e
        exact h (List.mem_map.mpr ⟨(k', v'), hm, rfl⟩)
      · left; exact ⟨e1, e2⟩
    · rintro (⟨e1, e2⟩ | ⟨_, hm⟩)
      · right; exact ⟨e1, e2⟩
      · left; exact hm

theorem lookup_map_replace {β} (d : List (Bytes × β)) (k : Bytes) (v : β) (k' : Bytes) :
    (d.map (fun p => if p.1 == k then (k, v) else p)).lookup k' =
      if k' = k then (if d.any (fun p => p.1 == k) then some v else none) else d.lookup k' := by
  induction d with
  | nil => simp
  | cons x xs ih =>
    obtain ⟨a, b⟩ := x
    simp only [List.map_cons, List.any_cons]
    by_cases c : a = k
    · subst c
      simp only [beq_self_eq_true, if_true, Bool.true_or, List.lookup_cons]
      by_cases c' : k' = a
      · subst c'; simp
      · have : (k' == a) = false := by simpa using c'
        rw [this, if_neg c']; simp only []
        rw [ih, if_neg c']
    · have hc : (a == k) = false := by simpa using c
      simp only [hc, Bool.false_or, Bool.false_eq_true, if_false, List.lookup_cons]
      by_cases c' : k' = a
      · subst c'
        have : ¬ k' = k := c
        simp [this]
      · have : (k' == a) = false := by simpa using c'
        rw [this]; simp only []
        exact ih

theorem lookup_append_single {β} (d : List (Bytes × β)) (k : Bytes) (v : β) (k' : Bytes) :
    (d ++ [(k, v)]).lookup k' =
      match d.lookup k' with
      | some x => some x
      | none => if k' = k then some v else none := by
  induction d with
  | nil =>
    simp only [List.nil_append, List.lookup_cons, List.lookup_nil]
    by_cases c : k' = k
    · subst c; simp
    · have : (k' == k) = false := by simpa using c
      rw [this, if_neg c]
  | cons x xs ih =>
    obtain ⟨a, b⟩ := x
    simp only [List.cons_append, List.lookup_cons]
    by_cases c' : k' = a
    · subst c'; simp
    · have : (k' == a) = false := by simpa using c'
      rw [this]; simp only []
      exact ih

theorem lookup_dictSet {β} (d : List (Bytes × β)) (k : Bytes) (v : β) (k' : Bytes) :
    (dictSet d k v).lookup k' = if k' = k then some v else d.lookup k' := by
  unfold dictSet
  by_cases h : d.any (fun p => p.1 == k) = true
  · rw [if_pos h, lookup_map_replace, if_pos h]
  · rw [if_neg h, lookup_append_single]
    have hk : k ∉ d.map Prod.fst := fun h' => h ((any_key_iff d k).mpr h')
    by_cases c : k' = k
    · subst c
      rw [lookup_none_iff.mpr hk]
    · simp only [c, if_false]
      cases d.lookup k' <;> rfl

theorem length_dictSet {β} (d : List (Bytes × β)) (k : Bytes) (v : β) :
    (dictSet d k v).length = if k ∈ d.map Prod.fst then d.length else d.length + 1 := by
  have := congrArg List.length (map_fst_dictSet d k v)
  rw [List.length_map] at this
  rw [this]
  split <;> simp

theorem map_fst_dictDel {β} (d : List (Bytes × β)) (k : Bytes) :
    (dictDel d k).map Prod.fst = (d.map Prod.fst).filter (fun x => x != k) := by
  unfold dictDel
  rw [List.filter_map]
  rfl

theorem mem_dictDel {β} (d : List (Bytes × β)) (k : Bytes) (k' : Bytes) (v' : β) :
    (k', v') ∈ dictDel d k ↔ k' ≠ k ∧ (k', v') ∈ d := by
  unfold dictDel
  simp only [List.mem_filter, bne_iff_ne, ne_eq]
  exact And.comm

theorem lookup_dictDel {β} (d : List (Bytes × β)) (k : Bytes) (k' : Bytes) :
    (dictDel d k).lookup k' = if k' = k then none else d.lookup k' := by
  unfold dictDel
  induction d with
  | nil => simp
  | cons x xs ih =>
    obtain ⟨a, b⟩ := x
    by_cases c : a = k
    · subst c
      have : ((a, b).1 != a) = false := by simp
      rw [List.filter_cons, this]; simp only [Bool.false_eq_true, if_false]
      rw [ih, List.lookup_cons]
      by_cases c' : k' = a
      · simp [c']
      · have : (k' == a) = false := by simpa using c'
        rw [this]
    · have : ((a, b).1 != k) = true := by simpa using c
      rw [List.filter_cons, this]; simp only [if_true]
      rw [List.lookup_cons, List.lookup_cons]
      by_cases c' : k' = a
      · subst c'
        have : ¬ k' = k := c
        simp [this]
      · have : (k' == a) = false := by simpa using c'
        rw [this]; simp only []
        exact ih

/-- deleting a key from a duplicate-free dict removes exactly one entry -/
theorem length_dictDel {β} (d : List (Bytes × β)) (k : Bytes) (hn : (d.map Prod.fst).Nodup) :
    (dictDel d k).length = if k ∈ d.map Prod.fst then d.length - 1 else d.length := by
  unfold dictDel
  induction d with
  | nil => simp
  | cons x xs ih =>
    obtain ⟨a, b⟩ := x
    rw [List.map_cons, List.nodup_cons] at hn
    have ih := ih hn.2
    by_cases c : a = k
    · subst c
      have : ((a, b).1 != a) = false := by simp
      rw [List.filter_cons, this]; simp only [Bool.false_eq_true, if_false]
      rw [ih, if_neg hn.1]
      simp
    · have : ((a, b).1 != k) = true := by simpa using c
      rw [List.filter_cons, this]; simp only [if_true, List.length_cons]
      rw [ih]
      have hk : k ∈ List.map Prod.fst ((a, b) :: xs) ↔ k ∈ List.map Prod.fst xs := by
        simp only [List.map_cons, List.mem_cons]
        constructor
        · rintro (e | h)
          · exact absurd e.symm c
          · exact h
        · exact Or.inr
      by_cases hm : k ∈ List.map Prod.fst xs
      · rw [if_pos hm, if_pos (hk.mpr hm)]
        have : 0 < xs.length := by
          cases xs with
          | nil => simp at hm
          | cons _ _ => simp
        omega
      · rw [if_neg hm, if_neg (fun h => hm (hk.mp h))]

/-! ### the sorted list -/

theorem mem_insertSortedPair (s : Dbl) (m : Bytes) (l : List (Dbl × Bytes)) (p : Dbl × Bytes) :
    p ∈ insertSortedPair s m l ↔ p = (s, m) ∨ p ∈ l := by
  induction l with
  | nil => simp [insertSortedPair]
  | cons x xs ih =>
    obtain ⟨s', m'⟩ := x
    unfold insertSortedPair
    split
    · simp
    · simp only [List.mem_cons, ih]
      constructor
      · rintro (h | h | h)
        · exact Or.inr (Or.inl h)
        · exact Or.inl h
        · exact Or.inr (Or.inr h)
      · rintro (h | h | h)
        · exact Or.inr (Or.inl h)
        · exact Or.inl h
        · exact Or.inr (Or.inr h)

theorem length_insertSortedPair (s : Dbl) (m : Bytes) (l : List (Dbl × Bytes)) :
    (insertSortedPair s m l).length = l.length + 1 := by
  induction l with
  | nil => simp [insertSortedPair]
  | cons x xs ih =>
    obtain ⟨s', m'⟩ := x
    unfold insertSortedPair
    split
    · simp
    · simp [ih]

/-- inserting a fresh member into a strictly sorted list keeps it strictly sorted -/
theorem pairwise_insertSortedPair {s : Dbl} {m : Bytes} {l : List (Dbl × Bytes)}
    (hs : l.Pairwise PLt) (hnan : ∀ p ∈ l, p.1.isNaN = false) (hsn : s.isNaN = false)
    (hfresh : ∀ p ∈ l, p.2 ≠ m) : (insertSortedPair s m l).Pairwise PLt := by
  induction l with
  | nil => simp [insertSortedPair]
  | cons x xs ih =>
    obtain ⟨s', m'⟩ := x
    rw [List.pairwise_cons] at hs
    unfold insertSortedPair
    split
    · rename_i hlt
      rw [List.pairwise_cons]
      refine ⟨?_, List.pairwise_cons.mpr hs⟩
      intro a ha
      rcases List.mem_cons.mp ha with ha | ha
      · subst ha; exact hlt
      · exact pairLt_trans hlt (hs.1 a ha)
    · rename_i hlt
      rw [List.pairwise_cons]
      refine ⟨?_, ih hs.2 (fun p hp => hnan p (List.mem_cons_of_mem _ hp))
        (fun p hp => hfresh p (List.mem_cons_of_mem _ hp))⟩
      intro a ha
      rcases (mem_insertSortedPair s m xs a).mp ha with ha | ha
      · subst ha
        have hne : LexB.val m ≠ LexB.val m' := by
          intro e; cases e; exact hfresh (s', m) (List.mem_cons_self) rfl
        have hs' : s'.isNaN = false := hnan (s', m') (List.mem_cons_self)
        rcases pairLt_total_of_ne hsn hs' hne with h | h
        · exact absurd h hlt
        · exact h
      · exact hs.1 a ha

theorem mem_removePair (m : Bytes) (l : List (Dbl × Bytes)) (p : Dbl × Bytes) :
    p ∈ removePair m l ↔ p ∈ l ∧ p.2 ≠ m := by
  simp [removePair]

theorem pairwise_removePair {m : Bytes} {l : List (Dbl × Bytes)} (hs : l.Pairwise PLt) :
    (removePair m l).Pairwise PLt := hs.filter _

/-! ### `get` -/

theorem get_some_mem {z : ZSet} {m : Bytes} {s : Dbl} (h : z.get m = some s) : (m, s) ∈ z.bylex :=
  lookup_some_mem h

theorem get_iff_mem {z : ZSet} (hz : z.Inv) {m : Bytes} {s : Dbl} : z.get m = some s ↔ (m, s) ∈ z.bylex :=
  lookup_iff_mem_of_nodup hz.2.1

theorem get_iff_mem_byscore {z : ZSet} (hz : z.Inv) {m : Bytes} {s : Dbl} :
    z.get m = some s ↔ (s, m) ∈ z.byscore :=
  (get_iff_mem hz).trans (hz.2.2.1 m s)

theorem get_none_iff {z : ZSet} {m : Bytes} : z.get m = none ↔ m ∉ z.bylex.map Prod.fst :=
  lookup_none_iff

theorem get_none_iff_byscore {z : ZSet} (hz : z.Inv) {m : Bytes} :
    z.get m = none ↔ ∀ p ∈ z.byscore, p.2 ≠ m := by
  rw [get_none_iff]
  constructor
  · intro h p hp e
    apply h
    have : (p.2, p.1) ∈ z.bylex := (hz.2.2.1 p.2 p.1).mpr hp
    exact List.mem_map.mpr ⟨(p.2, p.1), this, e⟩
  · intro h hm
    obtain ⟨q, hq, e⟩ := List.mem_map.mp hm
    have : (q.2, q.1) ∈ z.byscore := (hz.2.2.1 q.1 q.2).mp hq
    exact h _ this e

/-- the score of a member is unique in `byscore` -/
theorem byscore_score_unique {z : ZSet} (hz : z.Inv) {m : Bytes} {s s' : Dbl}
    (h : (s, m) ∈ z.byscore) (h' : (s', m) ∈ z.byscore) : s = s' := by
  have a := (get_iff_mem_byscore hz).mpr h
  have b := (get_iff_mem_byscore hz).mpr h'
  rw [a] at b; exact Option.some.inj b

/-! ### `add` / `discard` preserve the invariant -/

theorem add_inv {z : ZSet} {m : Bytes} {s : Dbl} (hz : z.Inv) (hs : s.isNaN = false) : (z.add m s).1.Inv := by
  unfold add
  cases hg : z.get m with
  | some old =>
    simp only []
    split
    · exact hz
    · obtain ⟨h1, h2, h3, h4⟩ := hz
      have hmem : m ∈ z.bylex.map Prod.fst := by
        false_or_by_contra
        rename_i hh
        rw [get_none_iff.mpr hh] at hg; cases hg
      refine ⟨?_, ?_, ?_, ?_⟩
      · apply pairwise_insertSortedPair (pairwise_removePair h1)
        · intro p hp; exact h4 p ((mem_removePair m _ p).mp hp).1
        · exact hs
        · intro p hp; exact ((mem_removePair m _ p).mp hp).2
      · simp only []
        rw [map_fst_dictSet, if_pos hmem]; exact h2
      · intro m' s'
        simp only [mem_dictSet, mem_insertSortedPair, mem_removePair, Prod.mk.injEq]
        rw [h3 m' s']
        constructor
        · rintro (⟨e1, e2⟩ | ⟨ne, hm⟩)
          · exact Or.inl ⟨e2, e1⟩
          · exact Or.inr ⟨hm, ne⟩
        · rintro (⟨e1, e2⟩ | ⟨hm, ne⟩)
          · exact Or.inl ⟨e2, e1⟩
          · exact Or.inr ⟨ne, hm⟩
      · intro p hp
        rcases (mem_insertSortedPair _ _ _ p).mp hp with e | hp
        · subst e; exact hs
        · exact h4 p ((mem_removePair m _ p).mp hp).1
  | none =>
    simp only []
    obtain ⟨h1, h2, h3, h4⟩ := hz
    have hmem : m ∉ z.bylex.map Prod.fst := get_none_iff.mp hg
    have hfresh : ∀ p ∈ z.byscore, p.2 ≠ m := (get_none_iff_byscore ⟨h1, h2, h3, h4⟩).mp hg
    refine ⟨?_, ?_, ?_, ?_⟩
    · exact pairwise_insertSortedPair h1 h4 hs hfresh
    · simp only []
      rw [map_fst_dictSet, if_neg hmem]
      rw [List.nodup_append]
      refine ⟨h2, by simp, ?_⟩
      intro a ha b hb
      simp only [List.mem_singleton] at hb
      subst hb
      intro e; subst e; exact hmem ha
    · intro m' s'
      simp only [mem_dictSet, mem_insertSortedPair, Prod.mk.injEq]
      rw [h3 m' s']
      constructor
      · rintro (⟨e1, e2⟩ | ⟨ne, hm⟩)
        · exact Or.inl ⟨e2, e1⟩
        · exact Or.inr hm
      · rintro (⟨e1, e2⟩ | hm)
        · exact Or.inl ⟨e2, e1⟩
        · exact Or.inr ⟨fun e => hfresh _ hm e, hm⟩
    · intro p hp
      rcases (mem_insertSortedPair _ _ _ p).mp hp with e | hp
      · subst e; exact hs
      · exact h4 p hp

theorem discard_inv {z : ZSet} {m : Bytes} (hz : z.Inv) : (z.discard m).Inv := by
  unfold discard
  cases hg : z.get m with
  | none => exact hz
  | some old =>
    simp only []
    obtain ⟨h1, h2, h3, h4⟩ := hz
    refine ⟨pairwise_removePair h1, ?_, ?_, ?_⟩
    · simp only []
      rw [map_fst_dictDel]
      exact h2.sublist (List.filter_sublist)
    · intro m' s'
      simp only [mem_dictDel, mem_removePair]
      rw [h3 m' s']
      exact And.comm
    · intro p hp; exact h4 p ((mem_removePair m _ p).mp hp).1

/-! ### results of `add` / `discard` -/

theorem get_add (z : ZSet) (m : Bytes) (s : Dbl) (m' : Bytes) :
    (z.add m s).1.get m' =
      if m' = m then
        (match z.get m with
         | some old => if Dbl.eq s old then some old else some s
         | none => some s)
      else z.get m' := by
  unfold add
  cases hg : z.get m with
  | some old =>
    simp only []
    by_cases he : Dbl.eq s old = true
    · rw [if_pos he, if_pos he]
      by_cases c : m' = m
      · subst c; rw [if_pos rfl]; exact hg
      · rw [if_neg c]
    · rw [if_neg he, if_neg he]
      simp only [get]
      exact lookup_dictSet _ _ _ _
  | none =>
    simp only [get]
    exact lookup_dictSet _ _ _ _

/-- after `add m s` the member has score `s`, or keeps an IEEE-equal old score (`-0.0` vs `0.0`) -/
theorem get_add_self (z : ZSet) (m : Bytes) (s : Dbl) :
    (z.add m s).1.get m = some s ∨
      ∃ old, z.get m = some old ∧ Dbl.eq s old = true ∧ (z.add m s).1.get m = some old := by
  rw [get_add, if_pos rfl]
  cases hg : z.get m with
  | none => left; rfl
  | some old =>
    simp only []
    by_cases he : Dbl.eq s old = true
    · right; exact ⟨old, rfl, he, by rw [if_pos he]⟩
    · left; rw [if_neg he]

theorem get_add_self_eq (z : ZSet) (m : Bytes) (s : Dbl) :
    ∃ s', (z.add m s).1.get m = some s' ∧ (s' = s ∨ Dbl.eq s s' = true) := by
  rcases get_add_self z m s with h | ⟨old, _, he, h⟩
  · exact ⟨s, h, Or.inl rfl⟩
  · exact ⟨old, h, Or.inr he⟩

theorem get_add_other (z : ZSet) {m m' : Bytes} (s : Dbl) (h : m' ≠ m) : (z.add m s).1.get m' = z.get m' := by
  rw [get_add, if_neg h]

theorem add_changed (z : ZSet) (m : Bytes) (s : Dbl) :
    (z.add m s).2 = match z.get m with
      | some old => !Dbl.eq s old
      | none => true := by
  unfold add
  cases z.get m with
  | none => rfl
  | some old => simp only []; split <;> simp_all

theorem add_unchanged {z : ZSet} {m : Bytes} {s : Dbl} (h : (z.add m s).2 = false) : (z.add m s).1 = z := by
  unfold add at *
  cases hg : z.get m with
  | none => rw [hg] at h; simp at h
  | some old =>
    rw [hg] at h; simp only [] at h ⊢
    split
    · rfl
    · rename_i he; rw [if_neg he] at h; simp at h

theorem len_add (z : ZSet) (m : Bytes) (s : Dbl) :
    (z.add m s).1.len = if z.get m = none then z.len + 1 else z.len := by
  unfold add
  cases hg : z.get m with
  | some old =>
    simp only []
    split
    · simp
    · simp only [len, length_dictSet]
      have hmem : m ∈ z.bylex.map Prod.fst := by
        false_or_by_contra
        rename_i hh
        rw [get_none_iff.mpr hh] at hg; cases hg
      rw [if_pos hmem]; simp
  | none =>
    simp only [len, length_dictSet]
    rw [if_neg (get_none_iff.mp hg)]; simp

theorem get_discard (z : ZSet) (m m' : Bytes) :
    (z.discard m).get m' = if m' = m then none else z.get m' := by
  unfold discard
  cases hg : z.get m with
  | none =>
    simp only []
    by_cases c : m' = m
    · subst c; rw [if_pos rfl]; exact hg
    · rw [if_neg c]
  | some old =>
    simp only [get]
    exact lookup_dictDel _ _ _

theorem len_discard {z : ZSet} (hz : z.Inv) (m : Bytes) :
    (z.discard m).len = if z.get m = none then z.len else z.len - 1 := by
  unfold discard
  cases hg : z.get m with
  | none => simp
  | some old =>
    simp only [len]
    rw [length_dictDel _ _ hz.2.1]
    have hmem : m ∈ z.bylex.map Prod.fst := by
      false_or_by_contra
      rename_i hh
      rw [get_none_iff.mpr hh] at hg; cases hg
    rw [if_pos hmem]; simp

/-- example used by the non-vacuity witnesses: `b ↦ 2`, `a ↦ 1`, `c ↦ 2` added in this order -/
def example3 : ZSet :=
  (((ZSet.empty.add [98] (Dbl.ofInt 2)).1.add [97] (Dbl.ofInt 1)).1.add [99] (Dbl.ofInt 2)).1

/-! ## 3. The read operations agree under the invariant -/

theorem members_sorted {z : ZSet} (hz : z.Inv) :
    z.byscore.Pairwise (fun a b => pairLt a.1 (.val a.2) b.1 (.val b.2) = true) := hz.1

theorem byscore_nodup {z : ZSet} (hz : z.Inv) : z.byscore.Nodup := by
  rw [List.nodup_iff_pairwise_ne]
  refine hz.1.imp ?_
  intro a b hab e
  subst e
  rw [pairLt_irrefl] at hab
  exact absurd hab (by decide)

theorem members_nodup {z : ZSet} (hz : z.Inv) : (z.byscore.map Prod.snd).Nodup := by
  rw [List.nodup_iff_pairwise_ne, List.pairwise_map]
  refine List.Pairwise.imp_of_mem ?_ hz.1
  intro a b ha hb hab e
  obtain ⟨s, m⟩ := a
  obtain ⟨s', m'⟩ := b
  simp only at e
  subst e
  have := byscore_score_unique hz ha hb
  subst this
  rw [pairLt_irrefl] at hab
  exact absurd hab (by decide)

theorem nodup_of_nodup_map {α β} (f : α → β) {l : List α} (h : (l.map f).Nodup) : l.Nodup := by
  rw [List.nodup_iff_pairwise_ne] at *
  rw [List.pairwise_map] at h
  exact h.imp (fun hab e => hab (congrArg f e))

theorem byscore_perm {z : ZSet} (hz : z.Inv) : (z.bylex.map (fun p => (p.2, p.1))).Perm z.byscore := by
  rw [List.perm_ext_iff_of_nodup ?_ (byscore_nodup hz)]
  · intro a
    obtain ⟨s, m⟩ := a
    rw [← hz.2.2.1 m s]
    simp only [List.mem_map, Prod.mk.injEq]
    constructor
    · rintro ⟨p, hp, e1, e2⟩
      obtain ⟨a, b⟩ := p
      simp only at e1 e2; subst e1 e2; exact hp
    · intro h; exact ⟨(m, s), h, rfl, rfl⟩
  · apply nodup_of_nodup_map Prod.snd
    rw [List.map_map]
    exact hz.2.1

theorem byscore_length {z : ZSet} (hz : z.Inv) : z.byscore.length = z.len := by
  rw [← (byscore_perm hz).length_eq, List.length_map]; rfl

/-! ### rank -/

theorem takeWhile_ne_index {l : List (Dbl × Bytes)} {s : Dbl} {m : Bytes}
    (hm : (s, m) ∈ l) (hu : ∀ s', (s', m) ∈ l → s' = s) :
    l[(l.takeWhile (fun p => p.2 != m)).length]? = some (s, m) := by
  induction l with
  | nil => simp at hm
  | cons x xs ih =>
    obtain ⟨s', m'⟩ := x
    rw [List.takeWhile_cons]
    by_cases c : m' = m
    · subst c
      have : ¬ ((s', m').2 != m') = true := by simp
      rw [if_neg this]
      have := hu s' List.mem_cons_self
      subst this
      simp
    · have hc : ((s', m').2 != m) = true := by simpa using c
      rw [if_pos hc]
      simp only [List.length_cons, List.getElem?_cons_succ]
      apply ih
      · rcases List.mem_cons.mp hm with e | h
        · cases e; exact absurd rfl c
        · exact h
      · intro s'' h; exact hu s'' (List.mem_cons_of_mem _ h)

theorem rank_none_iff (z : ZSet) (m : Bytes) : z.rank m = none ↔ z.get m = none := by
  unfold rank
  cases z.get m <;> simp

/-- the rank of a member is its index in the sorted list -/
theorem rank_is_index {z : ZSet} (hz : z.Inv) {m : Bytes} {i : Nat} (h : z.rank m = some i) :
    ∃ s, z.byscore[i]? = some (s, m) ∧ z.get m = some s := by
  unfold rank at h
  cases hg : z.get m with
  | none => rw [hg] at h; cases h
  | some s =>
    rw [hg] at h
    simp only [Option.some.injEq] at h
    subst h
    refine ⟨s, ?_, rfl⟩
    have hm : (s, m) ∈ z.byscore := (get_iff_mem_byscore hz).mp hg
    exact takeWhile_ne_index hm (fun s' h' => byscore_score_unique hz h' hm)

theorem rank_lt_len {z : ZSet} (hz : z.Inv) {m : Bytes} {i : Nat} (h : z.rank m = some i) : i < z.len := by
  obtain ⟨s, h1, _⟩ := rank_is_index hz h
  rw [← byscore_length hz]
  false_or_by_contra
  rename_i hh
  rw [List.getElem?_eq_none (by omega)] at h1
  cases h1

/-- conversely, the index of an entry of `byscore` is the rank of its member -/
theorem rank_of_index {z : ZSet} (hz : z.Inv) {m : Bytes} {s : Dbl} {i : Nat}
    (h : z.byscore[i]? = some (s, m)) : z.rank m = some i := by
  have hm : (s, m) ∈ z.byscore := List.mem_of_getElem? h
  have hg := (get_iff_mem_byscore hz).mpr hm
  cases hr : z.rank m with
  | none => rw [(rank_none_iff z m).mp hr] at hg; cases hg
  | some j =>
    obtain ⟨s', h1, _⟩ := rank_is_index hz hr
    -- two positions holding the same member in a list whose members are duplicate free
    have hn := members_nodup hz
    have hi : i < z.byscore.length := by
      false_or_by_contra; rename_i hh
      rw [List.getElem?_eq_none (by omega)] at h; cases h
    have hj : j < z.byscore.length := by
      false_or_by_contra; rename_i hh
      rw [List.getElem?_eq_none (by omega)] at h1; cases h1
    have e1 : (z.byscore.map Prod.snd)[i]? = some m := by rw [List.getElem?_map, h]; rfl
    have e2 : (z.byscore.map Prod.snd)[j]? = some m := by rw [List.getElem?_map, h1]; rfl
    have hj' : j < (z.byscore.map Prod.snd).length := by simpa using hj
    have := (List.getElem?_inj hj' hn).mp (e2.trans e1.symm)
    rw [this]

/-! ### bisect windows on a sorted list are filters -/

theorem take_length_takeWhile {α} (P : α → Bool) (l : List α) :
    l.take (l.takeWhile P).length = l.takeWhile P := by
  induction l with
  | nil => rfl
  | cons x xs ih =>
    rw [List.takeWhile_cons]
    split
    · simp [ih]
    · simp

theorem takeWhile_eq_filter_of_downclosed {α} {P : α → Bool} {l : List α}
    (h : l.Pairwise (fun a b => P b = true → P a = true)) : l.takeWhile P = l.filter P := by
  induction l with
  | nil => rfl
  | cons x xs ih =>
    rw [List.pairwise_cons] at h
    rw [List.takeWhile_cons, List.filter_cons]
    by_cases c : P x = true
    · rw [if_pos c, if_pos c, ih h.2]
    · rw [if_neg c, if_neg c]
      symm
      rw [List.filter_eq_nil_iff]
      intro a ha hp
      exact c (h.1 a ha hp)

/-- on a list sorted w.r.t. an order for which `P1`, `P2` are downward closed, the index window
`[#P1, #P2)` is the filter `¬P1 ∧ P2` -/
theorem window_eq_filter {α} {P1 P2 : α → Bool} {l : List α}
    (h1 : l.Pairwise (fun a b => P1 b = true → P1 a = true))
    (h2 : l.Pairwise (fun a b => P2 b = true → P2 a = true)) :
    (l.drop (l.takeWhile P1).length).take ((l.takeWhile P2).length - (l.takeWhile P1).length)
      = l.filter (fun p => !P1 p && P2 p) := by
  induction l with
  | nil => rfl
  | cons x xs ih =>
    have h1' := List.pairwise_cons.mp h1
    have h2' := List.pairwise_cons.mp h2
    rw [List.takeWhile_cons, List.takeWhile_cons, List.filter_cons]
    by_cases c1 : P1 x = true
    · rw [if_pos c1]
      have hf : ¬ ((!P1 x && P2 x) = true) := by simp [c1]
      rw [if_neg hf]
      by_cases c2 : P2 x = true
      · rw [if_pos c2]
        simp only [List.length_cons, List.drop_succ_cons, Nat.add_sub_add_right]
        exact ih h1'.2 h2'.2
      · rw [if_neg c2]
        simp only [List.length_nil, Nat.zero_sub, List.take_zero]
        symm
        rw [List.filter_eq_nil_iff]
        intro a ha hp
        simp only [Bool.and_eq_true] at hp
        exact c2 (h2'.1 a ha hp.2)
    · rw [if_neg c1]
      by_cases c2 : P2 x = true
      · rw [if_pos c2]
        have hf : (!P1 x && P2 x) = true := by simp [c1, c2]
        rw [if_pos hf]
        simp only [List.length_nil, List.drop_zero, Nat.sub_zero, List.length_cons, List.take_succ_cons]
        rw [take_length_takeWhile, takeWhile_eq_filter_of_downclosed h2'.2]
        congr 1
        apply List.filter_congr
        intro a ha
        have : P1 a = false := by
          cases hp : P1 a with
          | false => rfl
          | true => exact absurd (h1'.1 a ha hp) c1
        simp [this]
      · rw [if_neg c2]
        have hf : ¬ ((!P1 x && P2 x) = true) := by simp [c2]
        rw [if_neg hf]
        simp only [List.length_nil, Nat.sub_zero, List.take_zero]
        symm
        rw [List.filter_eq_nil_iff]
        intro a ha hp
        simp only [Bool.and_eq_true] at hp
        exact c2 (h2'.1 a ha hp.2)

/-- "strictly below the bound `(s, b)`" is downward closed -/
theorem below_downclosed {l : List (Dbl × Bytes)} (hs : l.Pairwise PLt) (s : Dbl) (b : LexB) :
    l.Pairwise (fun x y => (fun p : Dbl × Bytes => pairLt p.1 (.val p.2) s b) y = true →
      (fun p : Dbl × Bytes => pairLt p.1 (.val p.2) s b) x = true) :=
  hs.imp (fun hxy hy => pairLt_trans hxy hy)

/-- "not above the bound `(s, b)`" is downward closed -/
theorem notAbove_downclosed {l : List (Dbl × Bytes)} (hs : l.Pairwise PLt) (s : Dbl) (b : LexB) :
    l.Pairwise (fun x y => (fun p : Dbl × Bytes => !pairLt s b p.1 (.val p.2)) y = true →
      (fun p : Dbl × Bytes => !pairLt s b p.1 (.val p.2)) x = true) := by
  refine hs.imp ?_
  intro x y hxy hy
  simp only [Bool.not_eq_true'] at hy ⊢
  cases h : pairLt s b x.1 (.val x.2) with
  | false => rfl
  | true => rw [pairLt_trans h hxy] at hy; exact hy

/-- "below the window" for an inclusive / exclusive lower bound -/
def lowP (inc : Bool) (s : Dbl) (b : LexB) (p : Dbl × Bytes) : Bool :=
  if inc then pairLt p.1 (.val p.2) s b else !pairLt s b p.1 (.val p.2)

/-- "not above the window" for an inclusive / exclusive upper bound -/
def hiP (inc : Bool) (s : Dbl) (b : LexB) (p : Dbl × Bytes) : Bool :=
  if inc then !pairLt s b p.1 (.val p.2) else pairLt p.1 (.val p.2) s b

/-- `irange` for all four inclusive/exclusive combinations is a filter of the sorted list -/
theorem irange_eq_filter_gen {z : ZSet} (hz : z.Inv) (s1 : Dbl) (b1 : LexB) (s2 : Dbl) (b2 : LexB)
    (inc1 inc2 : Bool) :
    z.irange s1 b1 s2 b2 inc1 inc2 = z.byscore.filter (fun p => !lowP inc1 s1 b1 p && hiP inc2 s2 b2 p) := by
  have hs := hz.1
  unfold irange bisectLeft bisectRight
  cases inc1 <;> cases inc2 <;> simp only [lowP, hiP, if_true, if_false, Bool.false_eq_true]
  · exact window_eq_filter (notAbove_downclosed hs s1 b1) (below_downclosed hs s2 b2)
  · exact window_eq_filter (notAbove_downclosed hs s1 b1) (notAbove_downclosed hs s2 b2)
  · exact window_eq_filter (below_downclosed hs s1 b1) (below_downclosed hs s2 b2)
  · exact window_eq_filter (below_downclosed hs s1 b1) (notAbove_downclosed hs s2 b2)

/-- bisect window = filter (inclusive bounds; holds for every `s1 s2`, NaN included) -/
theorem irange_eq_filter {z : ZSet} (hz : z.Inv) (s1 : Dbl) (b1 : LexB) (s2 : Dbl) (b2 : LexB) :
    z.irange s1 b1 s2 b2 true true =
      z.byscore.filter (fun p => !pairLt p.1 (.val p.2) s1 b1 && !pairLt s2 b2 p.1 (.val p.2)) :=
  irange_eq_filter_gen hz s1 b1 s2 b2 true true

theorem bisectLeft_eq_filter {z : ZSet} (hz : z.Inv) (s : Dbl) (b : LexB) :
    z.bisectLeft s b = (z.byscore.filter (fun p => pairLt p.1 (.val p.2) s b)).length := by
  unfold bisectLeft
  rw [takeWhile_eq_filter_of_downclosed (below_downclosed hz.1 s b)]

theorem bisectRight_eq_filter {z : ZSet} (hz : z.Inv) (s : Dbl) (b : LexB) :
    z.bisectRight s b = (z.byscore.filter (fun p => !pairLt s b p.1 (.val p.2))).length := by
  unfold bisectRight
  rw [takeWhile_eq_filter_of_downclosed (notAbove_downclosed hz.1 s b)]

/-- for a bound that is not a member (`BeforeAny` / `AfterAny`) the two bisects coincide -/
theorem bisectLeft_eq_bisectRight {z : ZSet} (hz : z.Inv) {s : Dbl} (hs : s.isNaN = false) {b : LexB}
    (hb : ∀ m, b ≠ .val m) : z.bisectLeft s b = z.bisectRight s b := by
  rw [bisectLeft_eq_filter hz, bisectRight_eq_filter hz]
  congr 1
  apply List.filter_congr
  intro p hp
  have hp' := hz.2.2.2 p hp
  have hne : LexB.val p.2 ≠ b := fun e => hb p.2 e.symm
  cases h : pairLt s b p.1 (.val p.2) with
  | true => simp only [Bool.not_true]; exact pairLt_asymm h
  | false =>
    simp only [Bool.not_false]
    exact (not_pairLt_iff_of_ne hs hp' (Ne.symm hne)).mp h

theorem irange_length (z : ZSet) (s1 : Dbl) (b1 : LexB) (s2 : Dbl) (b2 : LexB) :
    (z.irange s1 b1 s2 b2 true true).length = z.bisectRight s2 b2 - z.bisectLeft s1 b1 := by
  unfold irange
  simp only [if_true, List.length_take, List.length_drop]
  have : z.bisectRight s2 b2 ≤ z.byscore.length := by
    unfold bisectRight
    exact (List.takeWhile_sublist _).length_le
  omega

theorem takeWhile_ne_eq_takeWhile_lt {l : List (Dbl × Bytes)} {s : Dbl} {m : Bytes}
    (hs : l.Pairwise PLt) (hm : (s, m) ∈ l) (hu : ∀ s', (s', m) ∈ l → s' = s) :
    l.takeWhile (fun p => p.2 != m) = l.takeWhile (fun p => pairLt p.1 (.val p.2) s (.val m)) := by
  induction l with
  | nil => rfl
  | cons x xs ih =>
    obtain ⟨s', m'⟩ := x
    rw [List.pairwise_cons] at hs
    rw [List.takeWhile_cons, List.takeWhile_cons]
    by_cases c : m' = m
    · subst c
      have := hu s' List.mem_cons_self
      subst this
      have h1 : ¬ ((s', m').2 != m') = true := by simp
      have h2 : ¬ pairLt (s', m').1 (.val (s', m').2) s' (.val m') = true := by
        simp only [pairLt_irrefl]; decide
      rw [if_neg h1, if_neg h2]
    · have hx : (s, m) ∈ xs := by
        rcases List.mem_cons.mp hm with e | h
        · cases e; exact absurd rfl c
        · exact h
      have h1 : ((s', m').2 != m) = true := by simpa using c
      have h2 : pairLt (s', m').1 (.val (s', m').2) s (.val m) = true := hs.1 _ hx
      rw [if_pos h1, if_pos h2, ih hs.2 hx (fun s'' h => hu s'' (List.mem_cons_of_mem _ h))]

/-- the rank of a member is the number of entries strictly below `(score, member)` -/
theorem rank_eq_bisectLeft {z : ZSet} (hz : z.Inv) {m : Bytes} {s : Dbl} (hg : z.get m = some s) :
    z.rank m = some (z.bisectLeft s (.val m)) := by
  unfold rank bisectLeft
  rw [hg]
  have hm : (s, m) ∈ z.byscore := (get_iff_mem_byscore hz).mp hg
  simp only []
  rw [takeWhile_ne_eq_takeWhile_lt hz.1 hm (fun s' h' => byscore_score_unique hz h' hm)]

/-! ### score ranges: `zcount`, inclusive / exclusive bounds -/

open FR.Cmd in
theorem upperTail_ne_val (e : Bool) (m : Bytes) : upperTail e ≠ .val m := by
  cases e <;> simp [upperTail]

open FR.Cmd in
theorem lowerTail_ne_val (e : Bool) (m : Bytes) : lowerTail e ≠ .val m := by
  cases e <;> simp [lowerTail]

open FR.Cmd in
/-- `ZSet.zcount` (two `bisect_left`s) counts exactly the elements `irange` returns -/
theorem zcount_eq_length {z : ZSet} (hz : z.Inv) (s1 : Dbl) (e1 : Bool) {s2 : Dbl} (e2 : Bool)
    (h2 : s2.isNaN = false) :
    z.zcount s1 (lowerTail e1) s2 (upperTail e2) =
      (z.irange s1 (lowerTail e1) s2 (upperTail e2) true true).length := by
  rw [irange_length]
  unfold zcount
  rw [bisectLeft_eq_bisectRight hz h2 (upperTail_ne_val e2)]

theorem pairLt_after (s : Dbl) (m : Bytes) (t : Dbl) : pairLt s (.val m) t .after = Dbl.le s t := by
  unfold pairLt Dbl.le LexB.lt
  cases Dbl.eq s t <;> simp

theorem pairLt_before (s : Dbl) (m : Bytes) (t : Dbl) : pairLt s (.val m) t .before = Dbl.lt s t := by
  unfold pairLt LexB.lt
  cases h : Dbl.eq s t with
  | false => simp
  | true =>
    simp only [if_true]
    cases h' : Dbl.lt s t with
    | false => rfl
    | true => rw [Dbl.eq_of_lt h'] at h; cases h

theorem before_pairLt (t : Dbl) (s : Dbl) (m : Bytes) : pairLt t .before s (.val m) = Dbl.le t s := by
  unfold pairLt Dbl.le LexB.lt
  cases Dbl.eq t s <;> simp

theorem after_pairLt (t : Dbl) (s : Dbl) (m : Bytes) : pairLt t .after s (.val m) = Dbl.lt t s := by
  unfold pairLt LexB.lt
  cases h : Dbl.eq t s with
  | false => simp
  | true =>
    simp only [if_true]
    cases h' : Dbl.lt t s with
    | false => rfl
    | true => rw [Dbl.eq_of_lt h'] at h; cases h

theorem _root_.FR.Dbl.not_le {a b : Dbl} (ha : a.isNaN = false) (hb : b.isNaN = false) :
    (!Dbl.le a b) = Dbl.lt b a := by
  unfold Dbl.le
  rcases Dbl.trichotomy ha hb with ⟨x, y, w⟩ | ⟨x, y, w⟩ | ⟨x, y, w⟩ <;> simp [x, y, w]

theorem _root_.FR.Dbl.not_lt {a b : Dbl} (ha : a.isNaN = false) (hb : b.isNaN = false) :
    (!Dbl.lt a b) = Dbl.le b a := by
  unfold Dbl.le
  rcases Dbl.trichotomy ha hb with ⟨x, y, w⟩ | ⟨x, y, w⟩ | ⟨x, y, w⟩ <;>
    simp [x, y, w, Dbl.eq_comm b a]

open FR.Cmd in
/-- ZRANGEBYSCORE bounds: `(` is exclusive, otherwise inclusive -/
theorem zrangebyscore_spec {z : ZSet} (hz : z.Inv) {mn mx : Dbl} (mne mxe : Bool)
    (hmn : mn.isNaN = false) (hmx : mx.isNaN = false) (s : Dbl) (m : Bytes) :
    (s, m) ∈ z.irange mn (lowerTail mne) mx (upperTail mxe) true true ↔
      (s, m) ∈ z.byscore ∧
      (if mne then Dbl.lt mn s else Dbl.le mn s) = true ∧
      (if mxe then Dbl.lt s mx else Dbl.le s mx) = true := by
  rw [irange_eq_filter hz, List.mem_filter]
  apply and_congr_right
  intro hm
  have hs : s.isNaN = false := hz.2.2.2 _ hm
  simp only [Bool.and_eq_true]
  apply and_congr
  · cases mne
    · simp only [lowerTail, Bool.false_eq_true, if_false]
      rw [pairLt_before, Dbl.not_lt hs hmn]
    · simp only [lowerTail, if_true]
      rw [pairLt_after, Dbl.not_le hs hmn]
  · cases mxe
    · simp only [upperTail, Bool.false_eq_true, if_false]
      rw [after_pairLt, Dbl.not_lt hmx hs]
    · simp only [upperTail, if_true]
      rw [before_pairLt, Dbl.not_le hmx hs]

/-- the reverse rank mirrors the rank: the member sits at index `len - 1 - rank` of the reversed list -/
theorem revrank_is_index {z : ZSet} (hz : z.Inv) {m : Bytes} {i : Nat} (h : z.rank m = some i) :
    ∃ s, z.byscore.reverse[z.len - 1 - i]? = some (s, m) ∧ z.get m = some s := by
  obtain ⟨s, h1, h2⟩ := rank_is_index hz h
  have hi := rank_lt_len hz h
  have hl := byscore_length hz
  refine ⟨s, ?_, h2⟩
  rw [List.getElem?_reverse (by omega), hl]
  have : z.len - 1 - (z.len - 1 - i) = i := by omega
  rw [this]; exact h1

end ZSet

/-! ## 4. Command level: no NaN score is ever stored, the invariant is preserved -/

theorem Dbl.ite_not_nan (c : Prop) [Decidable c] {a b : Dbl} (ha : a.isNaN = false) (hb : b.isNaN = false) :
    (if c then a else b).isNaN = false := by split <;> assumption

theorem Dbl.roundPos_aux (neg : Bool) (p : Nat × Int) :
    (match p with | (m, e) => if e > 971 then Dbl.inf neg else Dbl.fin neg m e).isNaN = false := by
  obtain ⟨m, e⟩ := p
  simp only []
  split <;> rfl

theorem Dbl.roundPos_not_nan (neg : Bool) (num den : Nat) : (Dbl.roundPos neg num den).isNaN = false := by
  unfold Dbl.roundPos
  apply Dbl.ite_not_nan _ rfl
  exact Dbl.roundPos_aux neg _

theorem Dbl.addFin_not_nan (n1 : Bool) (m1 : Nat) (e1 : Int) (n2 : Bool) (m2 : Nat) (e2 : Int) :
    (Dbl.addFin n1 m1 e1 n2 m2 e2).isNaN = false := by
  unfold Dbl.addFin
  apply Dbl.ite_not_nan _ rfl
  apply Dbl.ite_not_nan _ (Dbl.roundPos_not_nan _ _ _) (Dbl.roundPos_not_nan _ _ _)

theorem Dbl.plusZero_not_nan {d : Dbl} (h : d.isNaN = false) : d.plusZero.isNaN = false := by
  unfold Dbl.plusZero Dbl.zero
  cases d with
  | nan => cases h
  | inf b => rfl
  | fin n m e => exact Dbl.addFin_not_nan _ _ _ _ _ _

namespace Cmd

theorem Conv.floatGen_not_nan {msg : String} {a b c d : Bool} {x : Bytes} {r : Dbl}
    (h : Conv.floatGen msg a b c d x = .ok r) : r.isNaN = false := by
  unfold Conv.floatGen at h
  extract_lets v v' at h
  by_cases c1 : (!a && (v'.head?.map PyFloat.isSpace).getD false) = true
  · rw [if_pos c1] at h; cases h
  · rw [if_neg c1] at h
    by_cases c2 : (v'.getLast?.map PyFloat.isSpace).getD false = true
    · rw [if_pos c2] at h; cases h
    · rw [if_neg c2] at h
      by_cases c3 : v'.contains 95 = true
      · rw [if_pos c3] at h; cases h
      · rw [if_neg c3] at h
        cases hp : PyFloat.parse v' with
        | none => rw [hp] at h; cases h
        | some y =>
          rw [hp] at h
          simp only [] at h
          by_cases c4 : y.isNaN = true
          · rw [if_pos c4] at h; cases h
          · rw [if_neg c4] at h
            split at h
            · cases h
            · cases h; simpa using c4

theorem Conv.float_not_nan {x : Bytes} {r : Dbl} (h : Conv.float x = .ok r) : r.isNaN = false :=
  Conv.floatGen_not_nan h

theorem parseScorePairs_not_nan (version : Nat) (l : List Bytes) {ps : List (Dbl × Bytes)}
    (h : parseScorePairs version l = .ok ps) : ∀ p ∈ ps, p.1.isNaN = false := by
  fun_induction parseScorePairs version l generalizing ps with
  | case1 s m rest e he => cases h
  | case2 s m rest d hd e he ih => cases h
  | case3 s m rest d hd ps' hps ih =>
    cases h
    intro p hp
    rcases List.mem_cons.mp hp with e | hp
    · subst e
      have := Conv.float_not_nan hd
      simp only []
      split
      · exact Dbl.plusZero_not_nan this
      · exact this
    · exact ih hps p hp
  | case4 l hl => cases h; intro p hp; cases hp

/-- every command item that holds a sorted set holds one satisfying the invariant -/
def CIsInv (cis : List CI) : Prop := ∀ c ∈ cis, ∀ z, c.val = some (.zset z) → z.Inv

theorem zsetOf_inv {cis : List CI} (h : CIsInv cis) (k : Nat) : (zsetOf (ciAt cis k)).Inv := by
  unfold ciAt
  rw [List.getD_eq_getElem?_getD]
  cases hk : cis[k]? with
  | none =>
    exact ZSet.empty_inv
  | some c =>
    simp only [Option.getD_some]
    unfold zsetOf
    split
    · rename_i z hz
      exact h c (List.mem_of_getElem? hk) z hz
    · exact ZSet.empty_inv

theorem putZ_inv {cis : List CI} (h : CIsInv cis) (k : Nat) {z : ZSet} (hz : z.Inv) : CIsInv (putZ cis k z) := by
  intro c hc z' hz'
  unfold putZ at hc
  rcases List.mem_or_eq_of_mem_set hc with hc | hc
  · exact h c hc z' hz'
  · subst hc
    simp only [Option.some.injEq, Value.zset.injEq] at hz'
    subst hz'; exact hz

theorem foldl_inv {α} (g : ZSet × Nat → α → ZSet × Nat) (P : α → Prop)
    (hg : ∀ st a, st.1.Inv → P a → (g st a).1.Inv) (l : List α) (hl : ∀ a ∈ l, P a)
    (st : ZSet × Nat) (hst : st.1.Inv) : (l.foldl g st).1.Inv := by
  induction l generalizing st with
  | nil => exact hst
  | cons x xs ih =>
    rw [List.foldl_cons]
    exact ih (fun a ha => hl a (List.mem_cons_of_mem _ ha)) _ (hg st x hst (hl x List.mem_cons_self))

theorem foldl_discard_inv (ms : List Bytes) {z : ZSet} (hz : z.Inv) : (ms.foldl ZSet.discard z).Inv := by
  induction ms generalizing z with
  | nil => exact hz
  | cons x xs ih => exact ih (ZSet.discard_inv hz)

theorem zincrbyCore_inv {ctx : Ctx} {cis : List CI} {k : Nat} {incr : Dbl} {m : Bytes} {out : BodyOut}
    (hc : CIsInv cis) (h : zincrbyCore ctx cis k incr m = .ok out) : CIsInv out.cis := by
  unfold zincrbyCore at h
  extract_lets z score at h
  by_cases hn : score.isNaN = true
  · rw [if_pos hn] at h; cases h
  · rw [if_neg hn] at h
    cases h
    exact putZ_inv hc k (ZSet.add_inv (zsetOf_inv hc k) (by simpa using hn))

theorem zremCore_inv {cis : List CI} {k : Nat} {ms : List Bytes} {out : BodyOut}
    (hc : CIsInv cis) (h : zremCore cis k ms = .ok out) : CIsInv out.cis := by
  unfold zremCore at h
  simp only [] at h
  split at h
  · cases h
    exact putZ_inv hc k (foldl_discard_inv ms (zsetOf_inv hc k))
  · cases h; exact hc

theorem zincrby_inv {ctx : Ctx} {args : List Arg} {cis : List CI} {out : BodyOut}
    (hc : CIsInv cis) (h : zincrby ctx args cis = .ok out) : CIsInv out.cis := by
  unfold zincrby at h
  split at h
  · exact zincrbyCore_inv hc h
  · cases h

theorem zrem_inv {ctx : Ctx} {args : List Arg} {cis : List CI} {out : BodyOut}
    (hc : CIsInv cis) (h : zrem ctx args cis = .ok out) : CIsInv out.cis := by
  unfold zrem at h
  split at h
  · exact zremCore_inv hc h
  · cases h

theorem zremrangebylex_inv {ctx : Ctx} {args : List Arg} {cis : List CI} {out : BodyOut}
    (hc : CIsInv cis) (h : zremrangebylex ctx args cis = .ok out) : CIsInv out.cis := by
  unfold zremrangebylex at h
  split at h
  · exact zremCore_inv hc h
  · cases h

theorem zremrangebyscore_inv {ctx : Ctx} {args : List Arg} {cis : List CI} {out : BodyOut}
    (hc : CIsInv cis) (h : zremrangebyscore ctx args cis = .ok out) : CIsInv out.cis := by
  unfold zremrangebyscore at h
  split at h
  · exact zremCore_inv hc h
  · cases h

theorem zremrangebyrank_inv {ctx : Ctx} {args : List Arg} {cis : List CI} {out : BodyOut}
    (hc : CIsInv cis) (h : zremrangebyrank ctx args cis = .ok out) : CIsInv out.cis := by
  unfold zremrangebyrank at h
  split at h
  · exact zremCore_inv hc h
  · cases h

theorem zadd_inv {ctx : Ctx} {args : List Arg} {cis : List CI} {out : BodyOut}
    (hc : CIsInv cis) (h : zadd ctx args cis = .ok out) : CIsInv out.cis := by
  unfold zadd at h
  split at h
  · rename_i k rest
    generalize parseZaddFlags (rawArgs rest) {} = pf at h
    obtain ⟨f, elements⟩ := pf
    simp only [] at h
    by_cases c1 : (f.nx && f.xx) = true
    · rw [if_pos c1] at h; cases h
    · rw [if_neg c1] at h
      by_cases c2 : (elements.isEmpty || elements.length % 2 != 0) = true
      · rw [if_pos c2] at h; cases h
      · rw [if_neg c2] at h
        by_cases c3 : (f.incr && elements.length != 2) = true
        · rw [if_pos c3] at h; cases h
        · rw [if_neg c3] at h
          cases hp : parseScorePairs ctx.version elements with
          | error e => rw [hp] at h; cases h
          | ok items =>
            rw [hp] at h
            simp only [] at h
            have hnn := parseScorePairs_not_nan _ _ hp
            by_cases ci : f.incr = true
            · rw [if_pos ci] at h
              split at h
              · split at h
                · cases h; exact hc
                · exact zincrbyCore_inv hc h
              · cases h
            · rw [if_neg ci] at h
              generalize hfold : List.foldl
                  (fun (st : ZSet × Nat) (p : Dbl × Bytes) =>
                    if ((!f.nx || !st.fst.contains p.snd) && (!f.xx || st.fst.contains p.snd)) = true then
                      ((st.fst.add p.snd p.fst).fst, if (st.fst.add p.snd p.fst).snd = true then st.snd + 1 else st.snd)
                    else st)
                  (zsetOf (ciAt cis k), 0) items = res at h
              have hres : res.1.Inv := by
                rw [← hfold]
                apply foldl_inv _ (fun p => p.1.isNaN = false) _ items hnn _ (zsetOf_inv hc k)
                intro st a hst ha
                split
                · exact ZSet.add_inv hst ha
                · exact hst
              cases h
              simp only []
              split
              · exact putZ_inv hc k hres
              · exact hc
  · cases h

/-- all stored scores of all sorted sets in the items are non-NaN -/
theorem CIsInv.no_nan {cis : List CI} (h : CIsInv cis) :
    ∀ c ∈ cis, ∀ z, c.val = some (.zset z) → ∀ m s, z.get m = some s → s.isNaN = false := by
  intro c hc z hz m s hg
  have hi := h c hc z hz
  exact hi.2.2.2 (s, m) ((ZSet.get_iff_mem_byscore hi).mp hg)

theorem limitItems_all {α} (l : List α) (cnt : Int) (h : cnt < 0) : limitItems l 0 cnt = l := by
  induction l generalizing cnt with
  | nil => rfl
  | cons x xs ih =>
    unfold limitItems
    have h1 : ¬ ((0 : Int) != 0) = true := by simp
    have h2 : ¬ (cnt == 0) = true := by simp; omega
    rw [if_neg h1, if_neg h2, ih (cnt - 1) (by omega)]

/-- ZCOUNT returns the number of members ZRANGEBYSCORE returns for the same bounds -/
theorem zcount_matches_zrangebyscore (ctx : Ctx) {cis : List CI} (hc : CIsInv cis) (k : Nat)
    (mn : Dbl) (mne : Bool) {mx : Dbl} (mxe : Bool) (hmx : mx.isNaN = false) :
    ∃ items : List (Dbl × Bytes),
      zrangebyscore ctx [.key k, .score mn mne, .score mx mxe] cis
        = ret (.arr (items.map fun p => .bulk p.2)) cis ∧
      zcount ctx [.key k, .score mn mne, .score mx mxe] cis = ret (.int items.length) cis := by
  refine ⟨(zsetOf (ciAt cis k)).irange mn (lowerTail mne) mx (upperTail mxe) true true, ?_, ?_⟩
  · simp only [zrangebyscore, rawArgs, zrangebyscoreGen, parseRbsOpts, withScores]
    rw [limitItems_all _ _ (by decide)]
    rfl
  · simp only [zcount]
    rw [ZSet.zcount_eq_length (zsetOf_inv hc k) mn mne mxe hmx]

/-- ZREVRANK is `len - 1 - ZRANK` (definition level) -/
theorem zrevrank_mirror (ctx : Ctx) (k : Nat) (m : Bytes) (cis : List CI) :
    zrevrank ctx [.key k, .raw m] cis =
      match (zsetOf (ciAt cis k)).rank m with
      | some r => ret (.int (((zsetOf (ciAt cis k)).len : Int) - 1 - r)) cis
      | none => ret .nil cis := rfl

end Cmd

end FR
