import FR.Proofs.StrKeys
import FR.Proofs.ScanSys
import FR.Proofs.ZStore
/-!
# The DUMP payload codec round trip for the collection types (helper lemmas for `FR.Props.C01d`)

`Cmd.dumpValue` / `Cmd.loadValue` (FR/Cmd/Keys.lean) are the model's payload codec.  This file proves

* Part 1: `splitOn sep (joinWith sep xs) = xs` for separator-free items; `hexB` never emits `,` or `=` and is never empty;
* Part 2: the round trip for lists, sets, hashes;
* Part 3: canonical doubles (`Dbl.Canon`) are exactly those that survive `ofBits ∘ toBits`;
* Part 4: the round trip for sorted sets (the decoder re-inserts the pairs in `byscore` order);
* Part 5: the lift to `RESTORE` / `DUMP` run by `runRegular`, and the in-place commands on the copy.
-/
namespace FR.DumpRound
open FR FR.StrKeys
set_option linter.unusedSimpArgs false
set_option linter.unusedVariables false

/-! ## Part 1: split / join -/

theorem go_end (sep : UInt8) (x : Bytes) (hx : sep ∉ x) (cur : Bytes) :
    Cmd.splitOn.go sep x cur = [cur.reverse ++ x] := by
  induction x generalizing cur with
  | nil => simp [Cmd.splitOn.go]
  | cons c cs ih =>
    have hc : (c == sep) = false := by
      simp only [beq_eq_false_iff_ne, ne_eq]
      intro e; exact hx (by simp [e])
    have hcs : sep ∉ cs := fun h => hx (List.mem_cons_of_mem _ h)
    rw [Cmd.splitOn.go, hc]
    simp only [Bool.false_eq_true, if_false]
    rw [ih hcs]
    simp

theorem go_sep (sep : UInt8) (x : Bytes) (hx : sep ∉ x) (rest cur : Bytes) :
    Cmd.splitOn.go sep (x ++ sep :: rest) cur = (cur.reverse ++ x) :: Cmd.splitOn.go sep rest [] := by
  induction x generalizing cur with
  | nil => simp [Cmd.splitOn.go]
  | cons c cs ih =>
    have hc : (c == sep) = false := by
      simp only [beq_eq_false_iff_ne, ne_eq]
      intro e; exact hx (by simp [e])
    have hcs : sep ∉ cs := fun h => hx (List.mem_cons_of_mem _ h)
    rw [List.cons_append, Cmd.splitOn.go, hc]
    simp only [Bool.false_eq_true, if_false]
    rw [ih hcs]
    simp

/-- splitting a joined list of separator-free items gives the items back (a non-empty list of items) -/
theorem splitOn_joinWith (sep : UInt8) (x : Bytes) (xs : List Bytes) (h : ∀ y ∈ x :: xs, sep ∉ y) :
    Cmd.splitOn sep (Cmd.joinWith sep (x :: xs)) = x :: xs := by
  unfold Cmd.splitOn
  induction xs generalizing x with
  | nil =>
    simp only [Cmd.joinWith]
    rw [go_end sep x (h x (by simp))]
    simp
  | cons y ys ih =>
    simp only [Cmd.joinWith]
    rw [go_sep sep x (h x (by simp))]
    rw [ih y (fun z hz => h z (List.mem_cons_of_mem _ hz))]
    simp

theorem joinWith_ne_nil (sep : UInt8) (x : Bytes) (xs : List Bytes) (hx : x ≠ []) :
    Cmd.joinWith sep (x :: xs) ≠ [] := by
  cases xs with
  | nil => simpa [Cmd.joinWith] using hx
  | cons y ys =>
    simp only [Cmd.joinWith]
    cases x with
    | nil => exact absurd rfl hx
    | cons a as => simp

/-- `parseItems` inverts `joinWith 44` on non-empty comma-free items (the empty list included) -/
theorem parseItems_joinWith (xs : List Bytes) (h : ∀ y ∈ xs, (44 : UInt8) ∉ y ∧ y ≠ []) :
    Cmd.parseItems (Cmd.joinWith 44 xs) = xs := by
  cases xs with
  | nil => rfl
  | cons x xs =>
    unfold Cmd.parseItems
    have hne := joinWith_ne_nil 44 x xs (h x (by simp)).2
    have : (Cmd.joinWith 44 (x :: xs)).isEmpty = false := by
      cases hj : Cmd.joinWith 44 (x :: xs) with
      | nil => exact absurd hj hne
      | cons _ _ => rfl
    rw [this]
    simp only [Bool.false_eq_true, if_false]
    exact splitOn_joinWith 44 x xs (fun y hy => (h y hy).1)

/-! ### the bytes `hexB` emits -/

theorem hexDigit_bytes : ∀ n < 16,
    UInt8.ofNat (hexDigit n).toNat ≠ 44 ∧ UInt8.ofNat (hexDigit n).toNat ≠ 61 := by
  decide

theorem hexB_eq (b : Bytes) :
    Cmd.hexB b = if b.isEmpty then [95] else (hexChars b).map (fun ch => UInt8.ofNat ch.toNat) := by
  unfold Cmd.hexB
  split
  · rfl
  · exact strBytes_hex _ (allHex_hexChars b)

theorem hexB_ne_nil (b : Bytes) : Cmd.hexB b ≠ [] := by
  rw [hexB_eq]
  cases b with
  | nil => simp
  | cons c cs => simp [hexChars]

theorem hexB_no_sep (b : Bytes) : (44 : UInt8) ∉ Cmd.hexB b ∧ (61 : UInt8) ∉ Cmd.hexB b := by
  rw [hexB_eq]
  split
  · simp
  · constructor
    · intro hm
      obtain ⟨ch, hch, e⟩ := List.mem_map.1 hm
      obtain ⟨n, hn, rfl⟩ := allHex_hexChars b ch hch
      exact (hexDigit_bytes n hn).1 e
    · intro hm
      obtain ⟨ch, hch, e⟩ := List.mem_map.1 hm
      obtain ⟨n, hn, rfl⟩ := allHex_hexChars b ch hch
      exact (hexDigit_bytes n hn).2 e

theorem mapM_unhexB_hexB (l : List Bytes) : (l.map Cmd.hexB).mapM Cmd.unhexB = some l := by
  induction l with
  | nil => rfl
  | cons x xs ih => simp [List.mapM_cons, unhexB_hexB, ih]

/-! ## Part 2: lists, sets, hashes -/

/-- LIST: the payload decodes to the same list, element order exact, arbitrary bytes (the empty string and the
empty list included) -/
theorem loadValue_dumpValue_list (l : List Bytes) :
    Cmd.loadValue (Cmd.dumpValue (.list l)) = some (.list l) := by
  simp only [Cmd.dumpValue, Cmd.loadValue]
  rw [parseItems_joinWith _ (by
    intro y hy
    obtain ⟨b, _, rfl⟩ := List.mem_map.1 hy
    exact ⟨(hexB_no_sep b).1, hexB_ne_nil b⟩)]
  rw [mapM_unhexB_hexB]
  rfl

/-- SET: the payload decodes to the members in ascending byte order -/
theorem loadValue_dumpValue_set (s : List Bytes) :
    Cmd.loadValue (Cmd.dumpValue (.set s)) = some (.set (sortBy bytesLt s)) := by
  simp only [Cmd.dumpValue, Cmd.loadValue]
  rw [parseItems_joinWith _ (by
    intro y hy
    obtain ⟨b, _, rfl⟩ := List.mem_map.1 hy
    exact ⟨(hexB_no_sep b).1, hexB_ne_nil b⟩)]
  rw [mapM_unhexB_hexB]
  rfl

/-- the decoder of one `field=value` item of a hash payload -/
def hashItem (it : Bytes) : Option (Bytes × Bytes) :=
  match Cmd.splitOn 61 it with
  | [a, b] => (Cmd.unhexB a).bind fun a' => (Cmd.unhexB b).map fun b' => (a', b')
  | _ => none

theorem splitOn_pair (a b : Bytes) (ha : (61 : UInt8) ∉ a) (hb : (61 : UInt8) ∉ b) :
    Cmd.splitOn 61 (a ++ 61 :: b) = [a, b] := by
  unfold Cmd.splitOn
  rw [go_sep 61 a ha, go_end 61 b hb]
  simp

theorem hashItem_enc (p : Bytes × Bytes) : hashItem (Cmd.hexB p.1 ++ 61 :: Cmd.hexB p.2) = some p := by
  unfold hashItem
  rw [splitOn_pair _ _ (hexB_no_sep p.1).2 (hexB_no_sep p.2).2]
  simp [unhexB_hexB]

theorem mapM_hashItem (h : List (Bytes × Bytes)) :
    (h.map fun p => Cmd.hexB p.1 ++ 61 :: Cmd.hexB p.2).mapM hashItem = some h := by
  induction h with
  | nil => rfl
  | cons x xs ih => simp [List.mapM_cons, hashItem_enc, ih]

theorem no44_append {a b : Bytes} (ha : (44 : UInt8) ∉ a) (hb : (44 : UInt8) ∉ b) :
    (44 : UInt8) ∉ a ++ 61 :: b := by
  intro h
  rcases List.mem_append.1 h with h | h
  · exact ha h
  · rcases List.mem_cons.1 h with h | h
    · exact absurd h (by decide)
    · exact hb h

/-- HASH: the payload decodes to the same association list: field order exact, arbitrary field and value bytes
(empty ones, and bytes equal to `,` `=` `_` included: they are hex-encoded) -/
theorem loadValue_dumpValue_hash (h : List (Bytes × Bytes)) :
    Cmd.loadValue (Cmd.dumpValue (.hash h)) = some (.hash h) := by
  simp only [Cmd.dumpValue, Cmd.loadValue]
  rw [parseItems_joinWith _ (by
    intro y hy
    obtain ⟨p, _, rfl⟩ := List.mem_map.1 hy
    refine ⟨no44_append (hexB_no_sep p.1).1 (hexB_no_sep p.2).1, ?_⟩
    cases Cmd.hexB p.1 <;> simp)]
  exact congrArg (Option.map Value.hash) (mapM_hashItem h)

/-! ## Part 3: canonical doubles and the bit image -/

/-- the canonical representation of a binary64 value inside `Dbl`: subnormals (and both zeros) are
`m < 2^52, e = -1074`; normals are `2^52 ≤ m < 2^53, -1074 ≤ e ≤ 971`; infinities and the NaN are canonical -/
def Canon : Dbl → Prop
  | .fin _ m e => (m < 2^52 ∧ e = -1074) ∨ (2^52 ≤ m ∧ m < 2^53 ∧ -1074 ≤ e ∧ e ≤ 971)
  | _ => True

instance (d : Dbl) : Decidable (Canon d) := by
  unfold Canon; split <;> infer_instance

theorem or3 (t fr : Nat) (hfr : fr < 2^52) : (t <<< 52 ||| fr) = t * 2^52 + fr := by
  rw [← Nat.shiftLeft_add_eq_or_of_lt hfr, Nat.shiftLeft_eq]

/-- the three fields packed into 64 bits, as a number -/
theorem bitsNat (s : Bool) (ex fr : Nat) (hex : ex < 2048) (hfr : fr < 2^52) :
    ((if s then (0x8000000000000000 : UInt64) else 0) ||| (UInt64.ofNat ex <<< 52) ||| UInt64.ofNat fr).toNat
      = (if s then 2^63 else 0) + ex * 2^52 + fr := by
  have h1 : ex % 2^64 = ex := Nat.mod_eq_of_lt (by omega)
  have h2 : fr % 2^64 = fr := Nat.mod_eq_of_lt (by omega)
  have h3 : (ex <<< 52) % 2^64 = ex <<< 52 := Nat.mod_eq_of_lt (by rw [Nat.shiftLeft_eq]; omega)
  have h4 : ((52 : UInt64).toNat % 64) = 52 := by decide
  simp only [UInt64.toNat_or, UInt64.toNat_shiftLeft, UInt64.toNat_ofNat', h1, h2, h4, h3]
  cases s with
  | false =>
    have : (0 : UInt64).toNat = 0 := rfl
    simp only [Bool.false_eq_true, if_false, this, Nat.zero_or, Nat.zero_add]
    exact or3 ex fr hfr
  | true =>
    have : (0x8000000000000000 : UInt64).toNat = 2048 <<< 52 := by decide
    simp only [if_true, this, ← Nat.shiftLeft_or_distrib]
    rw [or3 _ fr hfr]
    have : (2048 ||| ex) = 2048 + ex := by
      have := Nat.shiftLeft_add_eq_or_of_lt (i := 11) (b := ex) (by omega) 1
      simpa using this.symm
    rw [this]; omega

theorem fieldsNat (n : Nat) (s : Bool) (ex fr : Nat) (hex : ex < 2048) (hfr : fr < 2^52)
    (hn : n = (if s then 2^63 else 0) + ex * 2^52 + fr) :
    n >>> 63 = (if s then 1 else 0) ∧ (n >>> 52) &&& 0x7FF = ex ∧ n &&& 0xFFFFFFFFFFFFF = fr := by
  have e1 : (0x7FF : Nat) = 2^11 - 1 := by decide
  have e2 : (0xFFFFFFFFFFFFF : Nat) = 2^52 - 1 := by decide
  rw [e1, e2, Nat.and_two_pow_sub_one_eq_mod, Nat.and_two_pow_sub_one_eq_mod, Nat.shiftRight_eq_div_pow,
    Nat.shiftRight_eq_div_pow]
  subst hn
  cases s <;> simp only [if_true, Bool.false_eq_true, if_false] <;> omega

/-- `Dbl.ofBits` of three packed fields -/
theorem ofBits_pack (s : Bool) (ex fr : Nat) (hex : ex < 2048) (hfr : fr < 2^52) :
    Dbl.ofBits ((if s then (0x8000000000000000 : UInt64) else 0) ||| (UInt64.ofNat ex <<< 52) ||| UInt64.ofNat fr) =
      if ex == 0x7FF then (if fr == 0 then .inf s else .nan)
      else if ex == 0 then .fin s fr (-1074)
      else .fin s (fr + Dbl.pow2 52) ((ex : Int) - 1075) := by
  obtain ⟨f1, f2, f3⟩ := fieldsNat _ s ex fr hex hfr (bitsNat s ex fr hex hfr)
  generalize (if s then (0x8000000000000000 : UInt64) else 0) ||| (UInt64.ofNat ex <<< 52) ||| UInt64.ofNat fr = b
    at f1 f2 f3
  have h63 : ((63 : UInt64).toNat % 64) = 63 := by decide
  have h52 : ((52 : UInt64).toNat % 64) = 52 := by decide
  have g1 : ((b >>> 63) == 1) = s := by
    have : (b >>> 63).toNat = if s then 1 else 0 := by rw [UInt64.toNat_shiftRight, h63]; exact f1
    cases s with
    | true =>
      have : b >>> 63 = 1 := UInt64.toNat_inj.1 (by rw [this]; rfl)
      rw [this]; rfl
    | false =>
      have hne : b >>> 63 ≠ 1 := by
        intro e; rw [e] at this; exact absurd this (by decide)
      simpa using hne
  have g2 : ((b >>> 52) &&& 0x7FF).toNat = ex := by
    rw [UInt64.toNat_and, UInt64.toNat_shiftRight, h52]; exact f2
  have g3 : (b &&& 0xFFFFFFFFFFFFF).toNat = fr := by
    rw [UInt64.toNat_and]; exact f3
  unfold Dbl.ofBits
  simp only [g1, g2, g3]

theorem pow2_52 : Dbl.pow2 52 = 2^52 := by decide

/-- a canonical double survives the 64-bit image exactly: both zeros, subnormals, normals, both infinities
(and the single NaN of the model) -/
theorem ofBits_toBits {d : Dbl} (h : Canon d) : Dbl.ofBits (Dbl.toBits d) = d := by
  cases d with
  | nan => decide
  | inf neg => cases neg <;> decide
  | fin neg m e =>
    unfold Dbl.toBits
    simp only [pow2_52]
    rcases h with ⟨hm, he⟩ | ⟨h1, h2, h3, h4⟩
    · subst he
      have hz : (UInt64.ofNat 0 <<< 52) = 0 := by decide
      have : (if neg then (0x8000000000000000 : UInt64) else 0) ||| UInt64.ofNat m =
          (if neg then (0x8000000000000000 : UInt64) else 0) ||| (UInt64.ofNat 0 <<< 52) ||| UInt64.ofNat m := by
        rw [hz, UInt64.or_zero]
      simp only [hm, if_true]
      rw [this, ofBits_pack neg 0 m (by omega) hm]
      rfl
    · have hm : ¬ m < 2^52 := by omega
      simp only [hm, if_false]
      rw [ofBits_pack neg (e + 1075).toNat (m - 2^52) (by omega) (by omega)]
      have c1 : ((e + 1075).toNat == 0x7FF) = false := by
        simp only [beq_eq_false_iff_ne, ne_eq]; omega
      have c2 : ((e + 1075).toNat == 0) = false := by
        simp only [beq_eq_false_iff_ne, ne_eq]; omega
      rw [c1, c2]
      simp only [Bool.false_eq_true, if_false, pow2_52]
      congr 1
      · omega
      · omega

/-- whatever `Dbl.ofBits` produces is canonical … -/
theorem canon_ofBits (b : UInt64) : Canon (Dbl.ofBits b) := by
  have hfr : (b &&& 0xFFFFFFFFFFFFF).toNat < 2^52 := by
    rw [UInt64.toNat_and]
    have : (0xFFFFFFFFFFFFF : UInt64).toNat = 2^52 - 1 := by decide
    rw [this, Nat.and_two_pow_sub_one_eq_mod]
    exact Nat.mod_lt _ (by decide)
  have hex : ((b >>> 52) &&& 0x7FF).toNat < 2048 := by
    rw [UInt64.toNat_and]
    have : (0x7FF : UInt64).toNat = 2^11 - 1 := by decide
    rw [this, Nat.and_two_pow_sub_one_eq_mod]
    exact Nat.mod_lt _ (by decide)
  unfold Dbl.ofBits
  simp only
  split
  · split <;> trivial
  · rename_i h1
    split
    · exact Or.inl ⟨hfr, rfl⟩
    · rename_i h2
      simp only [beq_iff_eq] at h1 h2
      rw [pow2_52]
      refine Or.inr ⟨?_, ?_, ?_, ?_⟩ <;> omega

/-- … so `Canon` is EXACTLY the set of doubles that survive the codec -/
theorem canon_iff (d : Dbl) : Canon d ↔ Dbl.ofBits (Dbl.toBits d) = d :=
  ⟨ofBits_toBits, fun h => h ▸ canon_ofBits _⟩

/-! ## Part 4: sorted sets -/

/-- the `bylex` entry of a `byscore` entry -/
def swap (p : Dbl × Bytes) : Bytes × Dbl := (p.2, p.1)

/-- the decoder of one `member=bits` item of a sorted-set payload -/
def zsetItem (it : Bytes) : Option (Bytes × Dbl) :=
  match Cmd.splitOn 61 it with
  | [a, b] =>
    (Cmd.unhexB a).bind fun a' =>
      if b.all isDigit && !b.isEmpty then some (a', Dbl.ofBits (UInt64.ofNat (digitsVal b))) else none
  | _ => none

/-- what the decoder does with the decoded pairs: insert them one after the other into the empty sorted set -/
def rebuild (ps : List (Bytes × Dbl)) : ZSet :=
  ps.foldl (fun (z : ZSet) (p : Bytes × Dbl) => (z.add p.1 p.2).1) ZSet.empty

theorem strBytes_toString (n : Nat) : strBytes (toString n) = natDigits n := rfl

theorem natDigits_no_sep (n : Nat) : (44 : UInt8) ∉ natDigits n ∧ (61 : UInt8) ∉ natDigits n := by
  constructor <;> intro h <;> exact absurd (natDigits_isDigit_of_mem h) (by decide)

theorem zsetItem_enc (p : Dbl × Bytes) :
    zsetItem (Cmd.hexB p.2 ++ 61 :: strBytes (toString (Dbl.toBits p.1).toNat)) =
      some (p.2, Dbl.ofBits (Dbl.toBits p.1)) := by
  unfold zsetItem
  rw [strBytes_toString, splitOn_pair _ _ (hexB_no_sep p.2).2 (natDigits_no_sep _).2]
  have hne : (natDigits (Dbl.toBits p.1).toNat).isEmpty = false := by
    cases h : natDigits (Dbl.toBits p.1).toNat with
    | nil => exact absurd h (natDigits_ne_nil _)
    | cons _ _ => rfl
  simp [unhexB_hexB, natDigits_all_isDigit, hne, digitsVal_natDigits]

theorem mapM_zsetItem (l : List (Dbl × Bytes)) :
    (l.map fun p => Cmd.hexB p.2 ++ 61 :: strBytes (toString (Dbl.toBits p.1).toNat)).mapM zsetItem =
      some (l.map fun p => (p.2, Dbl.ofBits (Dbl.toBits p.1))) := by
  induction l with
  | nil => rfl
  | cons x xs ih =>
    rw [List.map_cons, List.mapM_cons, zsetItem_enc, ih]
    rfl

/-- ZSET, unconditionally: the payload decodes to the sorted set rebuilt from the `byscore` list, every score
sent through its 64-bit image -/
theorem loadValue_dumpValue_zset_raw (z : ZSet) :
    Cmd.loadValue (Cmd.dumpValue (.zset z)) =
      some (.zset (rebuild (z.byscore.map fun p => (p.2, Dbl.ofBits (Dbl.toBits p.1))))) := by
  simp only [Cmd.dumpValue, Cmd.loadValue]
  rw [parseItems_joinWith _ (by
    intro y hy
    obtain ⟨p, _, rfl⟩ := List.mem_map.1 hy
    refine ⟨?_, ?_⟩
    · rw [strBytes_toString]; exact no44_append (hexB_no_sep p.2).1 (natDigits_no_sep _).1
    · cases Cmd.hexB p.2 <;> simp)]
  exact congrArg (Option.map fun (ps : List (Bytes × Dbl)) => Value.zset (rebuild ps)) (mapM_zsetItem z.byscore)

/-- every score of the sorted set is in canonical representation -/
def ScoresCanon (z : ZSet) : Prop := ∀ p ∈ z.byscore, Canon p.1

theorem map_canon {l : List (Dbl × Bytes)} (h : ∀ p ∈ l, Canon p.1) :
    (l.map fun p => (p.2, Dbl.ofBits (Dbl.toBits p.1))) = l.map swap := by
  apply List.map_congr_left
  intro p hp
  simp only [swap, ofBits_toBits (h p hp)]

theorem insertSortedPair_last (s : Dbl) (m : Bytes) (l : List (Dbl × Bytes))
    (h : ∀ p ∈ l, ZSet.PLt p (s, m)) : ZSet.insertSortedPair s m l = l ++ [(s, m)] := by
  induction l with
  | nil => rfl
  | cons x xs ih =>
    obtain ⟨s', m'⟩ := x
    have hx : pairLt s (.val m) s' (.val m') = false := pairLt_asymm (h (s', m') (by simp))
    unfold ZSet.insertSortedPair
    rw [hx]
    simp only [Bool.false_eq_true, if_false, List.cons_append]
    rw [ih (fun p hp => h p (List.mem_cons_of_mem _ hp))]

theorem map_swap_fst (l : List (Dbl × Bytes)) : (l.map swap).map Prod.fst = l.map Prod.snd := by
  rw [List.map_map]; rfl

/-- inserting the entries of a strictly sorted list with distinct members, in order, appends each of them to
both indexes -/
theorem foldl_add_sorted (suf pre : List (Dbl × Bytes)) (hs : (pre ++ suf).Pairwise ZSet.PLt)
    (hn : ((pre ++ suf).map Prod.snd).Nodup) :
    (suf.map swap).foldl (fun (z : ZSet) (p : Bytes × Dbl) => (z.add p.1 p.2).1) ⟨pre.map swap, pre⟩ =
      ⟨(pre ++ suf).map swap, pre ++ suf⟩ := by
  induction suf generalizing pre with
  | nil => simp
  | cons x rest ih =>
    obtain ⟨s, m⟩ := x
    have hfresh : m ∉ pre.map Prod.snd := by
      intro hm
      rw [List.map_append, List.map_cons] at hn
      have := (List.nodup_append.1 hn).2.2 m hm m (by simp)
      exact this rfl
    have hlt : ∀ p ∈ pre, ZSet.PLt p (s, m) := by
      intro p hp
      exact (List.pairwise_append.1 hs).2.2 p hp (s, m) (by simp)
    have hget : (ZSet.mk (pre.map swap) pre).get m = none := by
      rw [ZSet.get_none_iff]
      show m ∉ (pre.map swap).map Prod.fst
      rw [map_swap_fst]; exact hfresh
    have hany : (pre.map swap).any (fun p => p.1 == m) = false := by
      cases h : (pre.map swap).any (fun p => p.1 == m) with
      | false => rfl
      | true =>
        rw [ZSet.any_key_iff, map_swap_fst] at h
        exact absurd h hfresh
    have hadd : ((ZSet.mk (pre.map swap) pre).add m s).1 =
        ⟨(pre ++ [(s, m)]).map swap, pre ++ [(s, m)]⟩ := by
      unfold ZSet.add
      rw [hget]
      simp only [ZSet.dictSet, hany, Bool.false_eq_true, if_false, insertSortedPair_last s m pre hlt,
        List.map_append, List.map_cons, List.map_nil, swap]
    simp only [List.map_cons, List.foldl_cons, swap]
    rw [hadd]
    have e : pre ++ (s, m) :: rest = (pre ++ [(s, m)]) ++ rest := by simp
    rw [e] at hs hn ⊢
    exact ih _ hs hn

/-- the sorted set the decoder builds from the payload of a well-formed one: the same `byscore` index, and a
`bylex` index holding the same pairs in `byscore` order -/
def restoredZ (z : ZSet) : ZSet := ⟨z.byscore.map swap, z.byscore⟩

theorem rebuild_byscore {z : ZSet} (hz : z.Inv) : rebuild (z.byscore.map swap) = restoredZ z := by
  have := foldl_add_sorted z.byscore [] (by simpa using hz.1) (by simpa using ZSet.members_nodup hz)
  simpa [rebuild, ZSet.empty, restoredZ] using this

/-- ZSET: for a sorted set satisfying the two-index invariant whose scores are canonical doubles -/
theorem loadValue_dumpValue_zset {z : ZSet} (hz : z.Inv) (hc : ScoresCanon z) :
    Cmd.loadValue (Cmd.dumpValue (.zset z)) = some (.zset (restoredZ z)) := by
  rw [loadValue_dumpValue_zset_raw, map_canon hc, rebuild_byscore hz]

/-! ### what `restoredZ` keeps -/

theorem restoredZ_byscore (z : ZSet) : (restoredZ z).byscore = z.byscore := rfl

theorem restoredZ_inv {z : ZSet} (hz : z.Inv) : (restoredZ z).Inv := by
  refine ⟨hz.1, ?_, ?_, hz.2.2.2⟩
  · show ((z.byscore.map swap).map Prod.fst).Nodup
    rw [map_swap_fst]; exact ZSet.members_nodup hz
  · intro m s
    show (m, s) ∈ z.byscore.map swap ↔ (s, m) ∈ z.byscore
    simp only [List.mem_map, swap]
    constructor
    · rintro ⟨p, hp, e⟩
      obtain ⟨a, b⟩ := p
      simp only [Prod.mk.injEq] at e
      obtain ⟨rfl, rfl⟩ := e
      exact hp
    · intro h; exact ⟨(s, m), h, rfl⟩

/-- the member → score map is the same -/
theorem restoredZ_get {z : ZSet} (hz : z.Inv) (m : Bytes) : (restoredZ z).get m = z.get m := by
  have hr := restoredZ_inv hz
  cases h : z.get m with
  | some s =>
    rw [ZSet.get_iff_mem_byscore hr]
    exact (ZSet.get_iff_mem_byscore hz).1 h
  | none =>
    rw [ZSet.get_none_iff_byscore hr]
    exact (ZSet.get_none_iff_byscore hz).1 h

/-- the `bylex` index is a permutation of the original one -/
theorem restoredZ_bylex_perm {z : ZSet} (hz : z.Inv) : (restoredZ z).bylex.Perm z.bylex := by
  have h := (ZSet.byscore_perm hz).symm.map swap
  have e : (z.bylex.map (fun p => (p.2, p.1))).map swap = z.bylex := by
    rw [List.map_map]
    conv => rhs; rw [← List.map_id z.bylex]
    apply List.map_congr_left
    intro p _; rfl
  rw [e] at h
  exact h

theorem restoredZ_scoresCanon {z : ZSet} (hc : ScoresCanon z) : ScoresCanon (restoredZ z) := hc

/-- dumping the copy gives the very same payload again (the payload only depends on `byscore`) -/
theorem dumpValue_restoredZ (z : ZSet) : Cmd.dumpValue (.zset (restoredZ z)) = Cmd.dumpValue (.zset z) := rfl

/-- decoding is idempotent on its image -/
theorem restoredZ_idem (z : ZSet) : restoredZ (restoredZ z) = restoredZ z := rfl

/-! ## Part 5: the value level in one statement, and the lift to `DUMP` / `RESTORE` run by `runRegular` -/

/-- what `loadValue` makes of the payload of `v`: sets come back in ascending byte order, sorted sets with
`bylex` re-created in `byscore` order; strings, lists and hashes come back as they are -/
def restoredValue : Value → Value
  | .set s => .set (sortBy bytesLt s)
  | .zset z => .zset (restoredZ z)
  | v => v

/-- the well-formedness the sorted-set case needs (nothing for the other types) -/
def ZWF : Value → Prop
  | .zset z => z.Inv ∧ ScoresCanon z
  | _ => True

/-- ROUND TRIP of the codec, all five types -/
theorem loadValue_dumpValue (v : Value) (h : ZWF v) :
    Cmd.loadValue (Cmd.dumpValue v) = some (restoredValue v) := by
  cases v with
  | str b => exact loadValue_dumpValue_str b
  | list l => exact loadValue_dumpValue_list l
  | set s => exact loadValue_dumpValue_set s
  | hash h' => exact loadValue_dumpValue_hash h'
  | zset z => exact loadValue_dumpValue_zset h.1 h.2

/-- "equal up to what the codec normalises": strings, lists (order), hashes (field order) are EQUAL; a set has
the same members with the same multiplicities (a permutation); a sorted set has the same `byscore` index, the
same member → score map, and a `bylex` index that is a permutation of the original -/
def Same : Value → Value → Prop
  | .set s', .set s => s'.Perm s
  | .zset z', .zset z => z'.byscore = z.byscore ∧ (∀ m, z'.get m = z.get m) ∧ z'.bylex.Perm z.bylex ∧ z'.Inv
  | .str a, .str b => a = b
  | .list a, .list b => a = b
  | .hash a, .hash b => a = b
  | _, _ => False

theorem restoredValue_same (v : Value) (h : ZWF v) : Same (restoredValue v) v := by
  cases v with
  | str b => exact rfl
  | list l => exact rfl
  | set s => exact ScanSys.sortBy_perm bytesLt s
  | hash h' => exact rfl
  | zset z => exact ⟨rfl, restoredZ_get h.1, restoredZ_bylex_perm h.1, restoredZ_inv h.1⟩

theorem restoredValue_ty (v : Value) : (restoredValue v).ty = v.ty := by
  cases v <;> rfl

theorem isEmpty_of_length_eq {α β} {a : List α} {b : List β} (h : a.length = b.length) :
    a.isEmpty = b.isEmpty := by
  cases a <;> cases b <;> simp at h ⊢

theorem restoredValue_isEmptyColl (v : Value) (h : ZWF v) : (restoredValue v).isEmptyColl = v.isEmptyColl := by
  cases v with
  | str b => rfl
  | list l => rfl
  | set s => exact isEmpty_of_length_eq (ScanSys.length_sortBy bytesLt s)
  | hash h' => rfl
  | zset z =>
    show (z.byscore.map swap).isEmpty = z.bylex.isEmpty
    exact isEmpty_of_length_eq (by rw [List.length_map]; exact ZSet.byscore_length h.1)

/-- the copy is well formed again, and dumping it gives the same payload: the payload is canonical -/
theorem restoredValue_zwf (v : Value) (h : ZWF v) : ZWF (restoredValue v) := by
  cases v with
  | zset z => exact ⟨restoredZ_inv h.1, h.2⟩
  | _ => trivial

theorem sortBy_of_sorted {l : List Bytes} (h : l.Pairwise (fun a b => bytesLt b a = false)) :
    sortBy bytesLt l = l := by
  induction l with
  | nil => rfl
  | cons x xs ih =>
    rw [List.pairwise_cons] at h
    show insertSorted bytesLt x (sortBy bytesLt xs) = x :: xs
    rw [ih h.2]
    cases xs with
    | nil => rfl
    | cons y ys =>
      have hxy : bytesLt x y = true ∨ x = y := by
        rcases bytesLt_trichotomy x y with h' | h' | h'
        · exact Or.inl h'
        · exact Or.inr h'
        · have := h.1 y (by simp); rw [h'] at this; cases this
      unfold insertSorted
      rcases hxy with h' | h'
      · rw [h']; rfl
      · subst h'
        rw [bytesLt_irrefl]
        simp only [Bool.false_eq_true, if_false]
        -- x :: insertSorted x ys = x :: x :: ys
        congr 1
        have hys : ys.Pairwise (fun a b => bytesLt b a = false) := (List.pairwise_cons.1 h.2).2
        have hx : ∀ z ∈ ys, bytesLt z x = false := fun z hz => h.1 z (by simp [hz])
        clear ih h
        induction ys with
        | nil => rfl
        | cons z zs ihz =>
          unfold insertSorted
          have hz := hx z (by simp)
          rcases bytesLt_trichotomy x z with h' | h' | h'
          · rw [h']; rfl
          · subst h'
            rw [bytesLt_irrefl]
            simp only [Bool.false_eq_true, if_false]
            congr 1
            exact ihz (List.pairwise_cons.1 hys).2 (fun w hw => hx w (by simp [hw]))
          · rw [h'] at hz; cases hz

theorem sortBy_idem (s : List Bytes) : sortBy bytesLt (sortBy bytesLt s) = sortBy bytesLt s :=
  sortBy_of_sorted (ScanSys.sortBy_sorted bytesLt (fun _ _ h => bytesLt_asymm h)
    (fun _ _ _ h1 h2 => bytesLt_trans h1 h2) s)

/-- decoding is idempotent: a restored copy is a fixed point of DUMP-then-RESTORE -/
theorem restoredValue_idem (v : Value) : restoredValue (restoredValue v) = restoredValue v := by
  cases v with
  | set s => show Value.set _ = Value.set _; rw [sortBy_idem]
  | _ => rfl

/-- `DUMP` of the copy returns the very same payload as `DUMP` of the original -/
theorem dumpValue_restoredValue (v : Value) : Cmd.dumpValue (restoredValue v) = Cmd.dumpValue v := by
  cases v with
  | set s => show (84 : UInt8) :: _ = 84 :: _; rw [sortBy_idem]
  | _ => rfl

/-! ### RESTORE of a DUMP payload, through the real runner -/

/-- the deadline RESTORE assigns for a relative ttl in milliseconds -/
def deadline (time ttl : Int) : Option Int := if ttl = 0 then none else some (time + ttl * TICKS_MS)

theorem restore_run (ctx : Ctx) (db : Db) (nd : NodupKeys db.dict) (ne : NoEmpty db.dict) (ht : ctx.time = db.time)
    (k ttlb payload : Bytes) (opts : List Bytes) :
    ((runRegular sigRestore Cmd.restore ctx none (k :: ttlb :: payload :: opts) db).reply,
      (runRegular sigRestore Cmd.restore ctx none (k :: ttlb :: payload :: opts) db).db.live) =
      match Conv.int ttlb with
      | .error m => (.err (strBytes m), db.live)
      | .ok ttl => restoreSpec db.time db.live k payload opts ttl :=
  (refines _ _ (regular_expModSound "restore" _ rfl) ctx _ nd).trans
    (restore_runL ctx db.time db.live (liveOK ne) ht k ttlb payload opts)

theorem dump_run (ctx : Ctx) (db : Db) (nd : NodupKeys db.dict) (k : Bytes) :
    ((runRegular sigDump Cmd.dump ctx none [k] db).reply, (runRegular sigDump Cmd.dump ctx none [k] db).db.live) =
      (match db.live k with
        | none => .nil
        | some it => .bulk (Cmd.dumpMagic ++ Cmd.dumpValue it.value), db.live) :=
  (refines _ _ (regular_expModSound "dump" _ rfl) ctx _ nd).trans (dump_runL ctx db.time db.live k)

/-- RESTORE of the payload of ANY well-formed non-empty value `v`, with any number of REPLACE words: BUSYKEY
(and no change) iff the key is live and there is no REPLACE; otherwise the key holds `restoredValue v` with the
requested deadline, and nothing else changes -/
theorem restore_of_dump (ctx : Ctx) (db : Db) (nd : NodupKeys db.dict) (ne : NoEmpty db.dict)
    (ht : ctx.time = db.time) (k ttlb : Bytes) (ttl : Int) (httl : Conv.int ttlb = .ok ttl) (h0 : 0 ≤ ttl)
    (v : Value) (hw : ZWF v) (hv : v.isEmptyColl = false)
    (opts : List Bytes) (hopts : ∀ a ∈ opts, casematch a "replace" = true) :
    ((runRegular sigRestore Cmd.restore ctx none (k :: ttlb :: (Cmd.dumpMagic ++ Cmd.dumpValue v) :: opts) db).reply,
      (runRegular sigRestore Cmd.restore ctx none (k :: ttlb :: (Cmd.dumpMagic ++ Cmd.dumpValue v) :: opts) db).db.live) =
      if (db.live k).isSome = true ∧ opts = [] then (.err (strBytes Msgs.RESTORE_KEY_EXISTS), db.live)
      else (.ok, upd db.live k (some ⟨restoredValue v, deadline db.time ttl⟩)) := by
  rw [restore_run ctx db nd ne ht]
  simp only [httl]
  have hall : opts.all (fun a => casematch a "replace") = true := by
    rw [List.all_eq_true]; exact hopts
  have hdec : decodePayload (Cmd.dumpMagic ++ Cmd.dumpValue v) = some (restoredValue v) := by
    rw [decodePayload_dump, loadValue_dumpValue v hw]
  have hne : (restoredValue v).isEmptyColl = false := by rw [restoredValue_isEmptyColl v hw, hv]
  have hn : ¬ ttl < 0 := by omega
  unfold restoreSpec
  simp only [hall, Bool.not_true, Bool.false_eq_true, if_false, hdec, hn, restoredItem, hne, deadline]
  cases opts with
  | nil => cases hl : (db.live k).isSome <;> simp
  | cons a as => simp

/-! ### DUMP then RESTORE -/

/-- the invariants and the clock survive a run -/
theorem run_keeps (sig : Sig) (body : Body) (ctx : Ctx) (raw : List Bytes) (db : Db)
    (nd : NodupKeys db.dict) (ne : NoEmpty db.dict) :
    NodupKeys (runRegular sig body ctx none raw db).db.dict ∧
    NoEmpty (runRegular sig body ctx none raw db).db.dict ∧
    (runRegular sig body ctx none raw db).db.time = db.time :=
  ⟨runRegular_nodup sig body ctx none raw nd, runRegular_noEmpty sig body ctx none raw nd ne,
    runRegular_time sig body ctx none raw nd⟩

/-- `DUMP k₀` then `RESTORE k ttl payload [REPLACE …]` where `k` is free or a REPLACE is given: both succeed, and the
key space afterwards is the one before with `k` holding `restoredValue v` and the requested deadline -/
theorem dump_then_restore (ctx : Ctx) (db : Db) (nd : NodupKeys db.dict) (ne : NoEmpty db.dict)
    (ht : ctx.time = db.time) (k0 k ttlb : Bytes) (v : Value) (e0 : Option Int) (ttl : Int)
    (hlive : db.live k0 = some ⟨v, e0⟩) (hw : ZWF v)
    (httl : Conv.int ttlb = .ok ttl) (hpos : 0 ≤ ttl)
    (opts : List Bytes) (hopts : ∀ a ∈ opts, casematch a "replace" = true)
    (hfree : (db.live k).isSome = true → opts ≠ []) :
    ∃ payload, (runRegular sigDump Cmd.dump ctx none [k0] db).reply = .bulk payload ∧
      let db1 := (runRegular sigDump Cmd.dump ctx none [k0] db).db
      let o2 := runRegular sigRestore Cmd.restore ctx none (k :: ttlb :: payload :: opts) db1
      o2.reply = .ok ∧
      o2.db.live = upd db.live k (some ⟨restoredValue v, deadline db.time ttl⟩) ∧
      NodupKeys o2.db.dict ∧ NoEmpty o2.db.dict ∧ o2.db.time = db.time := by
  have hd := dump_run ctx db nd k0
  simp only [hlive] at hd
  have hr1 := congrArg Prod.fst hd
  have hl1 := congrArg Prod.snd hd
  simp only at hr1 hl1
  obtain ⟨nd1, ne1, t1⟩ := run_keeps sigDump Cmd.dump ctx [k0] db nd ne
  refine ⟨_, hr1, ?_⟩
  intro db1 o2
  have hv : v.isEmptyColl = false := (liveOK ne).nonempty k0 _ hlive
  have hrs := restore_of_dump ctx db1 nd1 ne1 (ht.trans t1.symm) k ttlb ttl httl hpos v hw hv opts hopts
  have hcond : ¬ ((db1.live k).isSome = true ∧ opts = []) := by
    intro ⟨h1, h2⟩
    rw [show db1.live = db.live from hl1] at h1
    exact hfree h1 h2
  rw [if_neg hcond] at hrs
  obtain ⟨nd2, ne2, t2⟩ := run_keeps sigRestore Cmd.restore ctx
    (k :: ttlb :: (Cmd.dumpMagic ++ Cmd.dumpValue v) :: opts) db1 nd1 ne1
  refine ⟨congrArg Prod.fst hrs, ?_, nd2, ne2, t2.trans t1⟩
  have := congrArg Prod.snd hrs
  simp only at this
  rw [this, show db1.live = db.live from hl1, show db1.time = db.time from t1]

/-! ### the in-place commands on the copy: RPUSH, SADD, HSET, ZADD through the real runner -/

theorem typed_ci {live : HashSet.Live} {k : Bytes} {v : Value} {e : Option Int} (h : live k = some ⟨v, e⟩) :
    HashSet.typeOK live (some v.ty) k = true ∧
    HashSet.ciOf live (some v.ty) k = ⟨k, some v, e, false, false⟩ := by
  unfold HashSet.typeOK HashSet.ciOf
  rw [h]
  exact ⟨by simp, rfl⟩

/-- `putAt` of a non-empty value is the point update -/
theorem putAt_eq (live : HashSet.Live) (k : Bytes) (v : Value) (e : Option Int) (hv : v.isEmptyColl = false) :
    HashSet.putAt live k v e = upd live k (some ⟨v, e⟩) := by
  funext x
  simp [HashSet.putAt, upd, hv]

theorem arity_rpush (n : Nat) : HashSet.ArityOK (HashSet.sigOf "rpush") (n + 1 + 1) :=
  HashSet.arity_var "rpush" _ 2 rfl rfl (by omega)

/-- RPUSH k x xs… on a key holding a list: appended at the tail, deadline kept, nothing else touched -/
theorem rpush_run (ctx : Ctx) (db : Db) (nd : NodupKeys db.dict) (k : Bytes) (l : List Bytes) (e : Option Int)
    (hl : db.live k = some ⟨.list l, e⟩) (x : Bytes) (xs : List Bytes) :
    (HashSet.run "rpush" ctx (k :: x :: xs) db).reply = .int ((l ++ x :: xs).length : Nat) ∧
    (HashSet.run "rpush" ctx (k :: x :: xs) db).db.live = upd db.live k (some ⟨.list (l ++ x :: xs), e⟩) := by
  obtain ⟨h1, h2⟩ : HashSet.typeOK db.live (some .list) k = true ∧
      HashSet.ciOf db.live (some .list) k = ⟨k, some (.list l), e, false, false⟩ := typed_ci hl
  have := HashSet.run_key1_write (HashSet.sigOf "rpush") (some .list) 1 rfl (by decide) Cmd.rpush ctx k (x :: xs) nd
    (arity_rpush xs.length) h1 (r := .int ((l ++ x :: xs).length : Nat)) (v' := .list (l ++ x :: xs)) (by
      rw [h2]
      simp only [Cmd.rpush, HashSet.rawArgs_map]
      rfl)
  rw [h2] at this
  refine ⟨this.1, ?_⟩
  rw [show (HashSet.run "rpush" ctx (k :: x :: xs) db).db.live = _ from this.2.1]
  exact putAt_eq _ _ _ _ (by simp [Value.isEmptyColl])

theorem setUnion_ne_nil (s : List Bytes) (m : Bytes) (ms : List Bytes) : Cmd.setUnion s (m :: ms) ≠ [] := by
  intro h
  have := (HashSet.mem_setUnion s (m :: ms) m).2 (Or.inr (by simp))
  rw [h] at this; cases this

/-- SADD k m ms… on a key holding a set -/
theorem sadd_run (ctx : Ctx) (db : Db) (nd : NodupKeys db.dict) (k : Bytes) (s : List Bytes) (e : Option Int)
    (hl : db.live k = some ⟨.set s, e⟩) (m : Bytes) (ms : List Bytes) :
    (HashSet.run "sadd" ctx (k :: m :: ms) db).reply =
      .int ((Cmd.setUnion s (m :: ms)).length - s.length : Nat) ∧
    (HashSet.run "sadd" ctx (k :: m :: ms) db).db.live =
      upd db.live k (some ⟨.set (Cmd.setUnion s (m :: ms)), e⟩) := by
  have hv : HashSet.setView db.live k = some (s, e) := by simp [HashSet.setView, hl]
  have := HashSet.run_sadd ctx k nd hv m ms
  refine ⟨this.1, ?_⟩
  rw [this.2.1]
  refine putAt_eq _ _ _ _ ?_
  show (Cmd.setUnion s (m :: ms)).isEmpty = false
  cases h : Cmd.setUnion s (m :: ms) with
  | nil => exact absurd h (setUnion_ne_nil s m ms)
  | cons _ _ => rfl

/-- HSET k f v on a key holding a hash: the field is overwritten in place or appended -/
theorem hset_run (ctx : Ctx) (db : Db) (nd : NodupKeys db.dict) (k : Bytes) (h : List (Bytes × Bytes))
    (e : Option Int) (hl : db.live k = some ⟨.hash h, e⟩) (f v : Bytes) :
    (HashSet.run "hset" ctx [k, f, v] db).reply = .int (if (h.lookup f).isSome then 0 else 1) ∧
    (HashSet.run "hset" ctx [k, f, v] db).db.live = upd db.live k (some ⟨.hash (ZSet.dictSet h f v), e⟩) := by
  have hv : HashSet.hashView db.live k = some (h, e) := by simp [HashSet.hashView, hl]
  have := HashSet.run_hset ctx k nd hv f v [] rfl
  have e1 : HashSet.hsetRec h (Cmd.fieldPairs [f, v]) =
      (ZSet.dictSet h f v, if (h.lookup f).isSome then 0 else 1) := by
    simp only [Cmd.fieldPairs, HashSet.hsetRec, HashSet.any_eq_isSome]
    cases (h.lookup f).isSome <;> rfl
  rw [e1] at this
  refine ⟨by rw [this.1]; cases (h.lookup f).isSome <;> rfl, ?_⟩
  rw [this.2.1]
  refine putAt_eq _ _ _ _ ?_
  show (ZSet.dictSet h f v).isEmpty = false
  unfold ZSet.dictSet
  split
  · rename_i hany
    cases h with
    | nil => simp at hany
    | cons _ _ => rfl
  · cases h <;> rfl

/-- the four option words of ZADD -/
def notZaddFlag (a : Bytes) : Prop :=
  casematch a "ch" = false ∧ casematch a "nx" = false ∧ casematch a "xx" = false ∧ casematch a "incr" = false

instance (a : Bytes) : Decidable (notZaddFlag a) := by unfold notZaddFlag; infer_instance

/-- the score ZADD stores for the parsed score `s` (version 7 adds `0.0 +`) -/
def zaddScore (version : Nat) (s : Dbl) : Dbl := if version ≥ 7 then s.plusZero else s

theorem zadd_body (ctx : Ctx) (k : Bytes) (z : ZSet) (e : Option Int) (sb m : Bytes) (s : Dbl)
    (hf : notZaddFlag sb) (hs : Conv.float sb = .ok s) :
    Cmd.zadd ctx (.key 0 :: [sb, m].map .raw) [⟨k, some (.zset z), e, false, false⟩] =
      ret (.int (((z.add m (zaddScore ctx.version s)).1.len : Int) - z.len))
        (if (z.add m (zaddScore ctx.version s)).2 = true then
          [{ (⟨k, some (.zset z), e, false, false⟩ : CI) with
              val := some (.zset (z.add m (zaddScore ctx.version s)).1), modified := true }]
         else [⟨k, some (.zset z), e, false, false⟩]) := by
  obtain ⟨f1, f2, f3, f4⟩ := hf
  have hp : Cmd.parseZaddFlags [sb, m] {} = ({}, [sb, m]) := by
    simp only [Cmd.parseZaddFlags, f1, f2, f3, f4, Bool.false_eq_true, if_false]
  have hpp : Cmd.parseScorePairs ctx.version [sb, m] = .ok [(zaddScore ctx.version s, m)] := by
    simp only [Cmd.parseScorePairs, hs, zaddScore]
  simp only [Cmd.zadd, List.map_cons, List.map_nil, Cmd.rawArgs, hp, hpp]
  simp only [Bool.and_self, Bool.false_eq_true, if_false, List.isEmpty_cons, List.length_cons, List.length_nil,
    Bool.false_or, Bool.false_and, List.foldl_cons, List.foldl_nil, Bool.not_false, Bool.true_or, if_true]
  have hz : Cmd.zsetOf (ciAt [(⟨k, some (.zset z), e, false, false⟩ : CI)] 0) = z := rfl
  rw [hz]
  cases hc : (z.add m (zaddScore ctx.version s)).2 with
  | true => simp [Cmd.putZ, ciAt, ret]
  | false => simp [ret]

theorem add_ne_empty (z : ZSet) (m : Bytes) (s : Dbl) : (Value.zset (z.add m s).1).isEmptyColl = false := by
  obtain ⟨s', h, _⟩ := ZSet.get_add_self_eq z m s
  show (z.add m s).1.bylex.isEmpty = false
  cases hb : (z.add m s).1.bylex with
  | nil => simp [ZSet.get, hb] at h
  | cons _ _ => rfl

/-- ZADD k score member (no option words) on a key holding a sorted set: the member is inserted / re-scored by
`ZSet.add`, the reply is the number of NEW members, the deadline is kept, nothing else is touched -/
theorem zadd_run (ctx : Ctx) (db : Db) (nd : NodupKeys db.dict) (k : Bytes) (z : ZSet) (e : Option Int)
    (hl : db.live k = some ⟨.zset z, e⟩) (sb m : Bytes) (s : Dbl)
    (hf : notZaddFlag sb) (hs : Conv.float sb = .ok s) :
    (HashSet.run "zadd" ctx [k, sb, m] db).reply =
      .int (((z.add m (zaddScore ctx.version s)).1.len : Int) - z.len) ∧
    (HashSet.run "zadd" ctx [k, sb, m] db).db.live =
      upd db.live k (some ⟨.zset (z.add m (zaddScore ctx.version s)).1, e⟩) := by
  obtain ⟨h1, h2⟩ : HashSet.typeOK db.live (some .zset) k = true ∧
      HashSet.ciOf db.live (some .zset) k = ⟨k, some (.zset z), e, false, false⟩ := typed_ci hl
  have har : HashSet.ArityOK (HashSet.sigOf "zadd") (([sb, m] : List Bytes).length + 1) :=
    HashSet.arity_var "zadd" _ 3 rfl rfl (by simp)
  have hb := zadd_body ctx k z e sb m s hf hs
  cases hc : (z.add m (zaddScore ctx.version s)).2 with
  | true =>
    rw [hc] at hb
    simp only [if_true] at hb
    have := HashSet.run_key1_write (HashSet.sigOf "zadd") (some .zset) 2 rfl (by decide) Cmd.zadd ctx k [sb, m] nd
      har h1 (r := .int (((z.add m (zaddScore ctx.version s)).1.len : Int) - z.len))
      (v' := .zset (z.add m (zaddScore ctx.version s)).1) (by rw [h2]; exact hb)
    rw [h2] at this
    refine ⟨this.1, ?_⟩
    rw [show (HashSet.run "zadd" ctx [k, sb, m] db).db.live = _ from this.2.1]
    exact putAt_eq _ _ _ _ (add_ne_empty _ _ _)
  | false =>
    rw [hc] at hb
    simp only [Bool.false_eq_true, if_false] at hb
    have := HashSet.run_key1_read (HashSet.sigOf "zadd") (some .zset) 2 rfl (by decide) Cmd.zadd ctx k [sb, m] nd
      har h1 (r := .int (((z.add m (zaddScore ctx.version s)).1.len : Int) - z.len)) (by rw [h2]; exact hb)
    refine ⟨this.1, ?_⟩
    rw [show (HashSet.run "zadd" ctx [k, sb, m] db).db.live = _ from this.2.1, ZSet.add_unchanged hc]
    funext x
    unfold upd
    split
    · rename_i hx; rw [hx, hl]
    · rfl

/-- `DUMP k₀`, `RESTORE k ttl payload` into a free key `k ≠ k₀`: the facts the three-step theorems start from -/
theorem copy_made (ctx : Ctx) (db : Db) (nd : NodupKeys db.dict) (ne : NoEmpty db.dict)
    (ht : ctx.time = db.time) (k0 k ttlb : Bytes) (v : Value) (e0 : Option Int) (ttl : Int)
    (hlive : db.live k0 = some ⟨v, e0⟩) (hw : ZWF v) (hk : db.live k = none) (hne : k ≠ k0)
    (httl : Conv.int ttlb = .ok ttl) (hpos : 0 ≤ ttl) :
    ∃ payload, (runRegular sigDump Cmd.dump ctx none [k0] db).reply = .bulk payload ∧
      let db1 := (runRegular sigDump Cmd.dump ctx none [k0] db).db
      let o2 := runRegular sigRestore Cmd.restore ctx none [k, ttlb, payload] db1
      o2.reply = .ok ∧
      o2.db.live k = some ⟨restoredValue v, deadline db.time ttl⟩ ∧
      o2.db.live k0 = some ⟨v, e0⟩ ∧
      NodupKeys o2.db.dict := by
  obtain ⟨payload, h1, h2⟩ := dump_then_restore ctx db nd ne ht k0 k ttlb v e0 ttl hlive hw httl hpos []
    (by intro a ha; cases ha) (by rw [hk]; intro h; cases h)
  refine ⟨payload, h1, ?_⟩
  intro db1 o2
  obtain ⟨r2, l2, nd2, _, _⟩ := h2
  refine ⟨r2, ?_, ?_, nd2⟩
  · rw [show o2.db.live = _ from l2, upd_self]
  · rw [show o2.db.live = _ from l2, upd_ne _ _ (fun e => hne e.symm), hlive]

/-! ## Part 6: representation invariants of the copy; undecodable bodies -/

/-- unique hash fields / duplicate-free sets carry over to the copy -/
theorem restoredValue_valueWF {v : Value} (h : HashSet.ValueWF v) : HashSet.ValueWF (restoredValue v) := by
  cases v with
  | set s => exact ScanSys.nodup_sortBy bytesLt h
  | hash _ => exact h
  | str _ => trivial
  | list _ => trivial
  | zset _ => trivial

/-- a point update with a well-formed value keeps `LiveWF` -/
theorem liveWF_upd {db out : Db} (wf : HashSet.LiveWF db) {k : Bytes} {v : Value} {e : Option Int}
    (ho : out.live = upd db.live k (some ⟨v, e⟩)) (hv : HashSet.ValueWF v) : HashSet.LiveWF out := by
  intro x it hx
  rw [ho] at hx
  by_cases hk : x = k
  · subst hk
    rw [upd_self] at hx
    cases hx; exact hv
  · rw [upd_ne _ _ hk] at hx
    exact wf x it hx

/-- every sorted set stored in the database has canonical scores only -/
def DbCanon (db : Db) : Prop := ∀ q ∈ db.dict, ∀ z, q.2.value = .zset z → ScoresCanon z

/-- the sorted-set hypotheses follow from the two database invariants -/
theorem zwf_of_db {db : Db} (hz : ZStore.DbZInv db) (hc : DbCanon db) {k : Bytes} {it : Item} (h : db.live k = some it) :
    ZWF it.value := by
  have hm := (StrKeys.live_mem h).1
  cases hv : it.value with
  | zset z => exact ⟨hz _ hm z hv, hc _ hm z hv⟩
  | _ => trivial

/-- the sorted set rebuilt by the decoder always satisfies the two-index invariant when no score is a NaN, and
its scores are among the decoded ones -/
theorem rebuild_inv_aux (ps : List (Bytes × Dbl)) (z : ZSet) (hz : z.Inv) (hn : ∀ p ∈ ps, p.2.isNaN = false) :
    (ps.foldl (fun (z : ZSet) (p : Bytes × Dbl) => (z.add p.1 p.2).1) z).Inv := by
  induction ps generalizing z with
  | nil => exact hz
  | cons p ps ih =>
    simp only [List.foldl_cons]
    exact ih _ (ZSet.add_inv hz (hn p (by simp))) (fun q hq => hn q (List.mem_cons_of_mem _ hq))

theorem rebuild_inv (ps : List (Bytes × Dbl)) (hn : ∀ p ∈ ps, p.2.isNaN = false) : (rebuild ps).Inv :=
  rebuild_inv_aux ps _ ZSet.empty_inv hn

/-! ### bodies that do not decode -/

theorem loadValue_nil : Cmd.loadValue [] = none := rfl

/-- an unknown type tag -/
theorem loadValue_bad_tag (t : UInt8) (rest : Bytes)
    (h : t ≠ 83 ∧ t ≠ 76 ∧ t ≠ 84 ∧ t ≠ 72 ∧ t ≠ 90) : Cmd.loadValue (t :: rest) = none := by
  obtain ⟨h1, h2, h3, h4, h5⟩ := h
  unfold Cmd.loadValue
  split <;> first | rfl | (rename_i heq; cases heq; contradiction)

/-- a payload with the DUMP header whose body does not decode is "undecodable" -/
theorem decodePayload_undecodable (body : Bytes) (h : Cmd.loadValue body = none) :
    decodePayload (Cmd.dumpMagic ++ body) = none := by
  rw [decodePayload_dump, h]

/-- a payload without the DUMP header -/
theorem decodePayload_no_header (payload : Bytes)
    (h : (payload.take Cmd.dumpMagic.length == Cmd.dumpMagic) = false) : decodePayload payload = none := by
  unfold decodePayload; rw [h]; rfl

/-- exact characterisation of the payloads RESTORE rejects -/
theorem decodePayload_none_iff (payload : Bytes) :
    decodePayload payload = none ↔
      (payload.take Cmd.dumpMagic.length == Cmd.dumpMagic) = false ∨
      ∃ body, payload = Cmd.dumpMagic ++ body ∧ Cmd.loadValue body = none := by
  constructor
  · intro h
    cases hh : (payload.take Cmd.dumpMagic.length == Cmd.dumpMagic) with
    | false => exact Or.inl rfl
    | true =>
      right
      have e : payload = Cmd.dumpMagic ++ payload.drop Cmd.dumpMagic.length := by
        have := List.take_append_drop Cmd.dumpMagic.length payload
        rw [eq_of_beq hh] at this
        exact this.symm
      refine ⟨_, e, ?_⟩
      unfold decodePayload at h
      rw [hh] at h
      simpa using h
  · rintro (h | ⟨body, rfl, h⟩)
    · exact decodePayload_no_header _ h
    · exact decodePayload_undecodable _ h

/-- RESTORE with a payload that does not decode, on a free key or with REPLACE: the payload error, nothing changes -/
theorem restore_undecodable (ctx : Ctx) (db : Db) (nd : NodupKeys db.dict) (ne : NoEmpty db.dict)
    (ht : ctx.time = db.time) (k ttlb payload : Bytes) (ttl : Int) (httl : Conv.int ttlb = .ok ttl)
    (hbad : decodePayload payload = none)
    (opts : List Bytes) (hopts : ∀ a ∈ opts, casematch a "replace" = true)
    (hfree : (db.live k).isSome = true → opts ≠ []) :
    ((runRegular sigRestore Cmd.restore ctx none (k :: ttlb :: payload :: opts) db).reply,
      (runRegular sigRestore Cmd.restore ctx none (k :: ttlb :: payload :: opts) db).db.live) =
      (.err (strBytes Msgs.RESTORE_INVALID_CHECKSUM_MSG), db.live) := by
  rw [restore_run ctx db nd ne ht]
  simp only [httl]
  have hall : opts.all (fun a => casematch a "replace") = true := by
    rw [List.all_eq_true]; exact hopts
  unfold restoreSpec
  simp only [hall, Bool.not_true, Bool.false_eq_true, if_false, hbad]
  cases opts with
  | nil =>
    cases hl : (db.live k).isSome with
    | false => simp
    | true => exact absurd rfl (hfree hl)
  | cons a as => simp

/-! ## Part 7: every double the arithmetic produces is canonical -/

theorem pow2_eq (n : Nat) : Dbl.pow2 n = 2 ^ n := by
  unfold Dbl.pow2; exact Nat.one_shiftLeft n

theorem two_mul_div_le (N D : Nat) (hD : 0 < D) : (2 * N) / D ≤ 2 * (N / D) + 1 := by
  have h : (2 * N) / D < 2 * (N / D) + 2 := by
    rw [Nat.div_lt_iff_lt_mul hD]
    have h1 := Nat.div_add_mod N D
    have h2 := Nat.mod_lt N hD
    have e : (2 * (N / D) + 2) * D = 2 * (D * (N / D)) + 2 * D := by
      rw [Nat.add_mul, Nat.mul_assoc, Nat.mul_comm (N / D) D]
    rw [e]
    generalize D * (N / D) = u at *
    omega
  omega

theorem div_lt_pow (num den a b P K : Nat) (hn : num < 2 ^ (a + 1)) (hd : 2 ^ b ≤ den)
    (h : a + 1 + P ≤ 53 + b + K) : (num * 2 ^ P) / (den * 2 ^ K) < 2 ^ 53 := by
  have hpos : 0 < den * 2 ^ K := Nat.mul_pos (Nat.lt_of_lt_of_le (Nat.pow_pos (by decide)) hd) (Nat.pow_pos (by decide))
  rw [Nat.div_lt_iff_lt_mul hpos]
  calc num * 2 ^ P < 2 ^ (a + 1) * 2 ^ P := Nat.mul_lt_mul_of_pos_right hn (Nat.pow_pos (by decide))
    _ = 2 ^ (a + 1 + P) := (Nat.pow_add 2 _ _).symm
    _ ≤ 2 ^ (53 + b + K) := Nat.pow_le_pow_right (by decide) h
    _ = 2 ^ 53 * (2 ^ b * 2 ^ K) := by rw [Nat.pow_add, Nat.pow_add, Nat.mul_assoc]
    _ ≤ 2 ^ 53 * (den * 2 ^ K) := Nat.mul_le_mul_left _ (Nat.mul_le_mul_right _ hd)

theorem le_div_pow (num den a b P K : Nat) (hn : 2 ^ a ≤ num) (hd : den < 2 ^ (b + 1)) (hd0 : 0 < den)
    (h : 52 + (b + 1) + K ≤ a + P) : 2 ^ 52 ≤ (num * 2 ^ P) / (den * 2 ^ K) := by
  have hpos : 0 < den * 2 ^ K := Nat.mul_pos hd0 (Nat.pow_pos (by decide))
  rw [Nat.le_div_iff_mul_le hpos]
  calc 2 ^ 52 * (den * 2 ^ K) ≤ 2 ^ 52 * (2 ^ (b + 1) * 2 ^ K) :=
        Nat.mul_le_mul_left _ (Nat.mul_le_mul_right _ (Nat.le_of_lt hd))
    _ = 2 ^ (52 + (b + 1) + K) := by rw [← Nat.pow_add, ← Nat.pow_add]; congr 1; omega
    _ ≤ 2 ^ (a + P) := Nat.pow_le_pow_right (by decide) h
    _ = 2 ^ a * 2 ^ P := Nat.pow_add 2 _ _
    _ ≤ num * 2 ^ P := Nat.mul_le_mul_right _ hn

/-- the quotient `roundPos` looks at for the exponent `e` -/
def rq (num den : Nat) (e : Int) : Nat :=
  if e ≥ 0 then num / (den * Dbl.pow2 e.toNat) else (num * Dbl.pow2 (-e).toNat) / den

/-- uniform form: `floor (num · 2^(K−e) / (den · 2^K))` for any `K ≥ e` -/
theorem rq_eq (num den : Nat) (e : Int) (K : Nat) (hK : e ≤ K) :
    rq num den e = (num * 2 ^ ((K : Int) - e).toNat) / (den * 2 ^ K) := by
  unfold rq
  simp only [pow2_eq]
  by_cases he : e ≥ 0
  · rw [if_pos he]
    have hk : K = e.toNat + ((K : Int) - e).toNat := by omega
    conv => rhs; rw [hk, Nat.pow_add, ← Nat.mul_assoc]
    rw [← hk]
    exact (Nat.mul_div_mul_right _ _ (Nat.pow_pos (by decide))).symm
  · rw [if_neg he]
    have hk : ((K : Int) - e).toNat = (-e).toNat + K := by omega
    rw [hk, Nat.pow_add, ← Nat.mul_assoc]
    exact (Nat.mul_div_mul_right _ _ (Nat.pow_pos (by decide))).symm



def rE0 (num den : Nat) : Int := (num.log2 : Int) - (den.log2 : Int) - 52
def rE1 (num den : Nat) : Int :=
  if rq num den (rE0 num den) ≥ Dbl.pow2 53 then rE0 num den + 1
  else if rq num den (rE0 num den) < Dbl.pow2 52 then rE0 num den - 1 else rE0 num den
def rE (num den : Nat) : Int := if rE1 num den < -1074 then -1074 else rE1 num den

theorem rE1_facts (num den : Nat) (hnum : num ≠ 0) (hden : 0 < den) :
    2 ^ 52 ≤ rq num den (rE1 num den) ∧ rq num den (rE1 num den) < 2 ^ 53 ∧ rE1 num den ≤ rE0 num den := by
  have hn1 : 2 ^ num.log2 ≤ num := Nat.log2_self_le hnum
  have hn2 : num < 2 ^ (num.log2 + 1) := Nat.lt_log2_self
  have hd1 : 2 ^ den.log2 ≤ den := Nat.log2_self_le (by omega)
  have hd2 : den < 2 ^ (den.log2 + 1) := Nat.lt_log2_self
  have hK0 : rE0 num den ≤ ((rE0 num den).toNat + 1 : Nat) := by omega
  have hK1 : rE0 num den - 1 ≤ ((rE0 num den).toNat + 1 : Nat) := by omega
  have q0 := rq_eq num den (rE0 num den) _ hK0
  have q1 := rq_eq num den (rE0 num den - 1) _ hK1
  have hdef : rE0 num den = (num.log2 : Int) - (den.log2 : Int) - 52 := rfl
  have L1 : rq num den (rE0 num den) < 2 ^ 53 := by
    rw [q0]
    exact div_lt_pow num den num.log2 den.log2 _ _ hn2 hd1 (by omega)
  unfold rE1
  simp only [pow2_eq]
  rw [if_neg (by omega)]
  by_cases hlt : rq num den (rE0 num den) < 2 ^ 52
  · rw [if_pos hlt]
    refine ⟨?_, ?_, by omega⟩
    · rw [q1]
      exact le_div_pow num den num.log2 den.log2 _ _ hn1 hd2 hden (by omega)
    · have hP : (((rE0 num den).toNat + 1 : Nat) - (rE0 num den - 1)).toNat =
          (((rE0 num den).toNat + 1 : Nat) - rE0 num den).toNat + 1 := by omega
      rw [q1, hP, Nat.pow_succ, ← Nat.mul_assoc, Nat.mul_comm _ 2]
      have := two_mul_div_le (num * 2 ^ (((rE0 num den).toNat + 1 : Nat) - rE0 num den).toNat)
        (den * 2 ^ ((rE0 num den).toNat + 1)) (Nat.mul_pos hden (Nat.pow_pos (by decide)))
      rw [← q0] at this
      omega
  · rw [if_neg hlt]
    exact ⟨by omega, L1, by omega⟩

theorem rE_facts (num den : Nat) (hnum : num ≠ 0) (hden : 0 < den) :
    rq num den (rE num den) < 2 ^ 53 ∧ -1074 ≤ rE num den ∧
    (rE num den ≠ -1074 → 2 ^ 52 ≤ rq num den (rE num den)) := by
  obtain ⟨f1, f2, f3⟩ := rE1_facts num den hnum hden
  unfold rE
  by_cases hc : rE1 num den < -1074
  · rw [if_pos hc]
    refine ⟨?_, by omega, fun h => absurd rfl h⟩
    have hK1 : rE1 num den ≤ ((rE0 num den).toNat + 1 : Nat) := by omega
    have hK2 : (-1074 : Int) ≤ ((rE0 num den).toNat + 1 : Nat) := by omega
    have hle : rq num den (-1074) ≤ rq num den (rE1 num den) := by
      rw [rq_eq num den _ _ hK1, rq_eq num den _ _ hK2]
      apply Nat.div_le_div_right
      apply Nat.mul_le_mul_left
      apply Nat.pow_le_pow_right (by decide)
      omega
    omega
  · rw [if_neg hc]
    exact ⟨f2, by omega, fun _ => f1⟩

/-- the part of `roundPos` after the exponent has been chosen -/
def rTail (neg : Bool) (n' d' : Nat) (e : Int) : Dbl :=
  let qq := n' / d'
  let r := n' % d'
  let up := decide (2 * r > d') || (decide (2 * r == d') && qq % 2 == 1)
  let m := if up then qq + 1 else qq
  match (if m == Dbl.pow2 53 then (Dbl.pow2 52, e + 1) else (m, e)) with
  | (m, e) => if e > 971 then .inf neg else .fin neg m e

theorem rTail_canon (neg : Bool) (n' d' : Nat) (e : Int) (h53 : n' / d' < 2 ^ 53) (he : -1074 ≤ e)
    (hq : e ≠ -1074 → 2 ^ 52 ≤ n' / d') : Canon (rTail neg n' d' e) := by
  unfold rTail
  simp only [pow2_eq]
  generalize (decide (2 * (n' % d') > d') || (decide (2 * (n' % d') == d') && n' / d' % 2 == 1)) = up
  have hm : n' / d' ≤ (if up = true then n' / d' + 1 else n' / d') ∧
      (if up = true then n' / d' + 1 else n' / d') ≤ 2 ^ 53 := by
    cases up <;> simp <;> omega
  generalize (if up = true then n' / d' + 1 else n' / d') = m at hm
  by_cases h : m = 2 ^ 53
  · have : (m == 2 ^ 53) = true := by simpa using h
    simp only [this, if_true]
    split
    · trivial
    · exact Or.inr ⟨by omega, by omega, by omega, by omega⟩
  · have : (m == 2 ^ 53) = false := by simpa using h
    simp only [this, Bool.false_eq_true, if_false]
    split
    · trivial
    · by_cases hm52 : m < 2 ^ 52
      · by_cases he' : e = -1074
        · exact Or.inl ⟨hm52, he'⟩
        · have := hq he'; omega
      · exact Or.inr ⟨by omega, by omega, he, by omega⟩

theorem roundPos_eq (neg : Bool) (num den : Nat) :
    Dbl.roundPos neg num den =
      if num == 0 then .fin neg 0 (-1074)
      else
        match (if rE num den ≥ 0 then (num, den * Dbl.pow2 (rE num den).toNat)
               else (num * Dbl.pow2 (-(rE num den)).toNat, den)) with
        | (n', d') => rTail neg n' d' (rE num den) := by
  unfold Dbl.roundPos
  split
  · rfl
  · rfl

/-- `roundPos` always returns a canonical double (or an infinity) -/
theorem roundPos_canon (neg : Bool) (num den : Nat) (hden : 0 < den) : Canon (Dbl.roundPos neg num den) := by
  rw [roundPos_eq]
  by_cases h0 : num = 0
  · subst h0; exact Or.inl ⟨by decide, rfl⟩
  · have : (num == 0) = false := by simpa using h0
    rw [this]
    simp only [Bool.false_eq_true, if_false]
    obtain ⟨f1, f2, f3⟩ := rE_facts num den h0 hden
    unfold rq at f1 f3
    by_cases hge : rE num den ≥ 0
    · rw [if_pos hge] at f1 f3 ⊢
      exact rTail_canon neg _ _ _ f1 f2 f3
    · rw [if_neg hge] at f1 f3 ⊢
      exact rTail_canon neg _ _ _ f1 f2 f3

section arith
open FR.Cmd

theorem canon_zero (neg : Bool) : Canon (.fin neg 0 (-1074)) := Or.inl ⟨by decide, rfl⟩

theorem pow2_pos (n : Nat) : 0 < Dbl.pow2 n := by rw [pow2_eq]; exact Nat.pow_pos (by decide)

theorem ite_canon (c : Prop) [Decidable c] {a b : Dbl} (ha : Canon a) (hb : Canon b) :
    Canon (if c then a else b) := by split <;> assumption

theorem addFin_canon (n1 : Bool) (m1 : Nat) (e1 : Int) (n2 : Bool) (m2 : Nat) (e2 : Int) :
    Canon (Dbl.addFin n1 m1 e1 n2 m2 e2) := by
  unfold Dbl.addFin
  apply ite_canon _ (canon_zero _)
  exact ite_canon _ (roundPos_canon _ _ _ (by decide)) (roundPos_canon _ _ _ (pow2_pos _))

/-- `+` on doubles returns a canonical double, whatever the operands are -/
theorem add_canon (a b : Dbl) : Canon (Dbl.add a b) := by
  unfold Dbl.add
  split <;> first | trivial | exact addFin_canon _ _ _ _ _ _ | (split <;> trivial)

/-- `*` on doubles returns a canonical double, whatever the operands are -/
theorem mul_canon (a b : Dbl) : Canon (Dbl.mul a b) := by
  unfold Dbl.mul
  split
  · trivial
  · trivial
  · trivial
  · split <;> trivial
  · split <;> trivial
  · apply ite_canon _ (canon_zero _)
    exact ite_canon _ (roundPos_canon _ _ _ (by decide)) (roundPos_canon _ _ _ (pow2_pos _))

theorem plusZero_canon (d : Dbl) : Canon d.plusZero := add_canon _ _

theorem ofInt_canon (n : Int) : Canon (Dbl.ofInt n) := by
  unfold Dbl.ofInt
  split
  · exact canon_zero _
  · exact roundPos_canon _ _ _ (by decide)

theorem ofDecimal_canon (neg : Bool) (digits : Nat) (exp10 : Int) : Canon (Dbl.ofDecimal neg digits exp10) := by
  unfold Dbl.ofDecimal
  split
  · exact canon_zero _
  · simp only []
    split
    · trivial
    · split
      · exact canon_zero _
      · split
        · exact roundPos_canon _ _ _ (by decide)
        · exact roundPos_canon _ _ _ (Nat.pow_pos (by decide))

theorem pyMax_canon {a b : Dbl} (ha : Canon a) (hb : Canon b) : Canon (Dbl.pyMax a b) := by
  unfold Dbl.pyMax; split <;> assumption

theorem pyMin_canon {a b : Dbl} (ha : Canon a) (hb : Canon b) : Canon (Dbl.pyMin a b) := by
  unfold Dbl.pyMin; split <;> assumption

theorem parseUnsigned_canon {neg : Bool} {b : Bytes} {d : Dbl} (h : PyFloat.parseUnsigned neg b = some d) :
    Canon d := by
  unfold PyFloat.parseUnsigned at h
  simp only [] at h
  repeat' (split at h)
  all_goals first | (cases h; done) | (cases h; trivial) | (cases h; exact ofDecimal_canon _ _ _)

theorem parse_canon {b : Bytes} {d : Dbl} (h : PyFloat.parse b = some d) : Canon d := by
  unfold PyFloat.parse at h
  simp only [] at h
  split at h <;> exact parseUnsigned_canon h

/-- every double a `Float` converter returns is canonical -/
theorem floatGen_canon {msg : String} {a b c d : Bool} {x : Bytes} {r : Dbl}
    (h : Conv.floatGen msg a b c d x = .ok r) : Canon r := by
  unfold Conv.floatGen at h
  extract_lets v v' at h
  split at h
  · cases h
  · split at h
    · cases h
    · split at h
      · cases h
      · cases hp : PyFloat.parse v' with
        | none => rw [hp] at h; cases h
        | some y =>
          rw [hp] at h
          simp only [] at h
          split at h
          · cases h
          · split at h
            · cases h
            · cases h; exact parse_canon hp

theorem float_canon {x : Bytes} {r : Dbl} (h : Conv.float x = .ok r) : Canon r := floatGen_canon h

theorem parseScorePairs_canon (version : Nat) (l : List Bytes) {ps : List (Dbl × Bytes)}
    (h : parseScorePairs version l = .ok ps) : ∀ p ∈ ps, Canon p.1 := by
  fun_induction parseScorePairs version l generalizing ps with
  | case1 s m rest e he => cases h
  | case2 s m rest d hd e he ih => cases h
  | case3 s m rest d hd ps' hps ih =>
    cases h
    intro p hp
    rcases List.mem_cons.mp hp with e | hp
    · subst e
      simp only []
      split
      · exact plusZero_canon _
      · exact float_canon hd
    · exact ih hps p hp
  | case4 l hl => cases h; intro p hp; cases hp

/-! ### canonical scores are preserved by the sorted-set operations -/

theorem scoresCanon_empty : ScoresCanon ZSet.empty := by intro p hp; cases hp

theorem scoresCanon_add {z : ZSet} (hc : ScoresCanon z) (m : Bytes) {s : Dbl} (hs : Canon s) :
    ScoresCanon (z.add m s).1 := by
  unfold ZSet.add
  split
  · split
    · exact hc
    · intro p hp
      rcases (ZSet.mem_insertSortedPair s m _ p).1 hp with e | hp
      · subst e; exact hs
      · exact hc p ((ZSet.mem_removePair m _ p).1 hp).1
  · intro p hp
    rcases (ZSet.mem_insertSortedPair s m _ p).1 hp with e | hp
    · subst e; exact hs
    · exact hc p hp

theorem scoresCanon_discard {z : ZSet} (hc : ScoresCanon z) (m : Bytes) : ScoresCanon (z.discard m) := by
  unfold ZSet.discard
  split
  · exact hc
  · intro p hp
    exact hc p ((ZSet.mem_removePair m _ p).1 hp).1

/-- whatever RESTORE decodes — forged payloads included — has canonical scores -/
theorem scoresCanon_rebuild (ps : List (Bytes × Dbl)) (h : ∀ p ∈ ps, Canon p.2) : ScoresCanon (rebuild ps) := by
  unfold rebuild
  have : ∀ (z : ZSet), ScoresCanon z →
      ScoresCanon (ps.foldl (fun (z : ZSet) (p : Bytes × Dbl) => (z.add p.1 p.2).1) z) := by
    induction ps with
    | nil => intro z hz; exact hz
    | cons p ps ih =>
      intro z hz
      simp only [List.foldl_cons]
      exact ih (fun q hq => h q (List.mem_cons_of_mem _ hq)) _ (scoresCanon_add hz _ (h p (by simp)))
  exact this _ scoresCanon_empty

/-- every command item that holds a sorted set holds one with canonical scores -/
def CIsCanon (cis : List CI) : Prop := ∀ c ∈ cis, ∀ z, c.val = some (.zset z) → ScoresCanon z

theorem zsetOf_canon {cis : List CI} (h : CIsCanon cis) (k : Nat) : ScoresCanon (zsetOf (ciAt cis k)) := by
  unfold ciAt
  rw [List.getD_eq_getElem?_getD]
  cases hk : cis[k]? with
  | none => exact scoresCanon_empty
  | some c =>
    simp only [Option.getD_some]
    unfold zsetOf
    split
    · rename_i z hz
      exact h c (List.mem_of_getElem? hk) z hz
    · exact scoresCanon_empty

theorem putZ_canon {cis : List CI} (h : CIsCanon cis) (k : Nat) {z : ZSet} (hz : ScoresCanon z) :
    CIsCanon (putZ cis k z) := by
  intro c hc z' hz'
  unfold putZ at hc
  rcases List.mem_or_eq_of_mem_set hc with hc | hc
  · exact h c hc z' hz'
  · subst hc
    simp only [Option.some.injEq, Value.zset.injEq] at hz'
    subst hz'; exact hz

theorem foldl_canon {α} (g : ZSet × Nat → α → ZSet × Nat) (P : α → Prop)
    (hg : ∀ st a, ScoresCanon st.1 → P a → ScoresCanon (g st a).1) (l : List α) (hl : ∀ a ∈ l, P a)
    (st : ZSet × Nat) (hst : ScoresCanon st.1) : ScoresCanon (l.foldl g st).1 := by
  induction l generalizing st with
  | nil => exact hst
  | cons x xs ih =>
    rw [List.foldl_cons]
    exact ih (fun a ha => hl a (List.mem_cons_of_mem _ ha)) _ (hg st x hst (hl x List.mem_cons_self))

theorem zincrbyCore_canon {ctx : Ctx} {cis : List CI} {k : Nat} {incr : Dbl} {m : Bytes} {out : BodyOut}
    (hc : CIsCanon cis) (hi : Canon incr) (h : zincrbyCore ctx cis k incr m = .ok out) : CIsCanon out.cis := by
  unfold zincrbyCore at h
  extract_lets z score at h
  have hs : Canon score := by
    show Canon (match z.get m with | some old => Dbl.add old incr | none => incr)
    split
    · exact add_canon _ _
    · exact hi
  by_cases hn : score.isNaN = true
  · rw [if_pos hn] at h; cases h
  · rw [if_neg hn] at h
    cases h
    exact putZ_canon hc k (scoresCanon_add (zsetOf_canon hc k) m hs)

/-- ZINCRBY stores canonical scores only (the increment comes from a `Float` converter) -/
theorem zincrby_canon {ctx : Ctx} {args : List Arg} {cis : List CI} {out : BodyOut}
    (hc : CIsCanon cis) (ha : ∀ d, Arg.flt d ∈ args → Canon d) (h : zincrby ctx args cis = .ok out) :
    CIsCanon out.cis := by
  unfold zincrby at h
  split at h
  · rename_i k incr m
    exact zincrbyCore_canon hc (ha incr (by simp)) h
  · cases h

/-- ZADD (every option combination, INCR included) stores canonical scores only -/
theorem zadd_canon {ctx : Ctx} {args : List Arg} {cis : List CI} {out : BodyOut}
    (hc : CIsCanon cis) (h : zadd ctx args cis = .ok out) : CIsCanon out.cis := by
  unfold zadd at h
  split at h
  · rename_i k rest
    generalize parseZaddFlags (rawArgs rest) {} = pf at h
    obtain ⟨f, elements⟩ := pf
    simp only [] at h
    by_cases c1 : (f.nx && f.xx) = true
    · rw [if_pos c1] at h; cases h
    · rw [if_neg c1] at h
      by_cases c2 : (elements.isEmpty || elements.length % 2 != 0) = true
      · rw [if_pos c2] at h; cases h
      · rw [if_neg c2] at h
        by_cases c3 : (f.incr && elements.length != 2) = true
        · rw [if_pos c3] at h; cases h
        · rw [if_neg c3] at h
          cases hp : parseScorePairs ctx.version elements with
          | error e => rw [hp] at h; cases h
          | ok items =>
            rw [hp] at h
            simp only [] at h
            have hnn := parseScorePairs_canon _ _ hp
            by_cases ci : f.incr = true
            · rw [if_pos ci] at h
              split at h
              · rename_i s m tl
                split at h
                · cases h; exact hc
                · exact zincrbyCore_canon hc (hnn (s, m) (by simp)) h
              · cases h
            · rw [if_neg ci] at h
              generalize hfold : List.foldl
                  (fun (st : ZSet × Nat) (p : Dbl × Bytes) =>
                    if ((!f.nx || !st.fst.contains p.snd) && (!f.xx || st.fst.contains p.snd)) = true then
                      ((st.fst.add p.snd p.fst).fst, if (st.fst.add p.snd p.fst).snd = true then st.snd + 1 else st.snd)
                    else st)
                  (zsetOf (ciAt cis k), 0) items = res at h
              have hres : ScoresCanon res.1 := by
                rw [← hfold]
                apply foldl_canon _ (fun p => Canon p.1) _ items hnn _ (zsetOf_canon hc k)
                intro st a hst ha
                split
                · exact scoresCanon_add hst _ ha
                · exact hst
              cases h
              simp only []
              split
              · exact putZ_canon hc k hres
              · exact hc
  · cases h

theorem mapM_some_mem {α β} {f : α → Option β} : ∀ {l : List α} {ps : List β}, l.mapM f = some ps →
    ∀ p ∈ ps, ∃ x ∈ l, f x = some p := by
  intro l
  induction l with
  | nil =>
    intro ps h p hp
    simp only [List.mapM_nil] at h
    cases h; cases hp
  | cons a as ih =>
    intro ps h p hp
    rw [List.mapM_cons] at h
    cases ha : f a with
    | none => rw [ha] at h; cases h
    | some b =>
      cases has : as.mapM f with
      | none => rw [ha, has] at h; cases h
      | some bs =>
        rw [ha, has] at h
        cases h
        rcases List.mem_cons.1 hp with e | hp
        · subst e; exact ⟨a, by simp, ha⟩
        · obtain ⟨x, hx, hfx⟩ := ih has p hp
          exact ⟨x, List.mem_cons_of_mem _ hx, hfx⟩

theorem zsetItem_canon {it : Bytes} {p : Bytes × Dbl} (h : zsetItem it = some p) : Canon p.2 := by
  unfold zsetItem at h
  split at h
  · rename_i a b _
    cases ha : unhexB a with
    | none => rw [ha] at h; cases h
    | some a' =>
      rw [ha] at h
      simp only [Option.bind_some] at h
      split at h
      · cases h; exact canon_ofBits _
      · cases h
  · cases h

/-- whatever sorted set RESTORE decodes — from a forged payload as well — has canonical scores only -/
theorem loadValue_zset_canon {body : Bytes} {z : ZSet} (h : Cmd.loadValue body = some (.zset z)) :
    ScoresCanon z := by
  unfold Cmd.loadValue at h
  split at h
  · cases hx : unhexB _ with
    | none => rw [hx] at h; cases h
    | some _ => rw [hx] at h; cases h
  · cases hx : List.mapM unhexB _ with
    | none => rw [hx] at h; cases h
    | some _ => rw [hx] at h; cases h
  · cases hx : List.mapM unhexB _ with
    | none => rw [hx] at h; cases h
    | some _ => rw [hx] at h; cases h
  · rename_i rest
    cases hx : (Cmd.parseItems rest).mapM hashItem with
    | none => exact absurd (show Option.map Value.hash ((Cmd.parseItems rest).mapM hashItem) = _ from h) (by rw [hx]; simp)
    | some _ => exact absurd (show Option.map Value.hash ((Cmd.parseItems rest).mapM hashItem) = _ from h) (by rw [hx]; simp)
  · rename_i rest
    have h' : Option.map (fun (ps : List (Bytes × Dbl)) => Value.zset (rebuild ps))
        ((Cmd.parseItems rest).mapM zsetItem) = some (.zset z) := h
    cases hx : (Cmd.parseItems rest).mapM zsetItem with
    | none => rw [hx] at h'; cases h'
    | some ps =>
      rw [hx] at h'
      simp only [Option.map_some, Option.some.injEq, Value.zset.injEq] at h'
      subst h'
      apply scoresCanon_rebuild
      intro p hp
      obtain ⟨it, _, hit⟩ := mapM_some_mem hx p hp
      exact zsetItem_canon hit
  · cases h

end arith

end FR.DumpRound
