import FR.Proofs.C18fGrammar
/-!
# C18f helper — `Dbl.fmtF17Human` of a finite double is a literal of the float grammar

`fmtF17Human (.fin neg m e)` prints `N / 10^17` where `N = humanN m e = round_half_even (m·2^e·10^17)`:
sign, the canonical digits of `N / 10^17`, and (when non-empty) `.` followed by the 17-digit zero-padded
rendering of `N % 10^17` with trailing zeros stripped.  The bytes are the rendering of a valid `DecLit` with no
exponent whose mantissa satisfies `mant · 10^17 = N · 10^(#fraction digits)`.
-/
namespace FR.C18f
open FR

/-! ## the rounded integer -/

theorem pow2_eq (n : Nat) : Dbl.pow2 n = 2 ^ n := by
  unfold Dbl.pow2; exact Nat.one_shiftLeft n

/-- round-half-even of `n / den` -/
def roundHE (n den : Nat) : Nat :=
  let q := n / den
  let r := n % den
  if decide (2 * r > den) || (decide (2 * r == den) && q % 2 == 1) then q + 1 else q

/-- numerator of the exact value `m·2^e` -/
def humanNum (m : Nat) (e : Int) : Nat := if e ≥ 0 then m * Dbl.pow2 e.toNat else m
/-- denominator of the exact value `m·2^e` -/
def humanDen (e : Int) : Nat := if e ≥ 0 then 1 else Dbl.pow2 (-e).toNat

/-- the integer `N = round_half_even(m·2^e · 10^17)` that `fmtF17Human` prints as `N / 10^17` -/
def humanN (m : Nat) (e : Int) : Nat :=
  let num := if e ≥ 0 then m * Dbl.pow2 e.toNat else m
  let den := if e ≥ 0 then 1 else Dbl.pow2 (-e).toNat
  let n' := num * 10 ^ 17
  let q := n' / den
  let r := n' % den
  if decide (2 * r > den) || (decide (2 * r == den) && q % 2 == 1) then q + 1 else q

theorem humanN_eq_roundHE (m : Nat) (e : Int) :
    humanN m e = roundHE (humanNum m e * 10 ^ 17) (humanDen e) := rfl

theorem humanDen_pos (e : Int) : 0 < humanDen e := by
  unfold humanDen
  split
  · decide
  · rw [pow2_eq]; exact Nat.pow_pos (by decide)

/-- `|roundHE n den · den − n| ≤ den / 2` -/
theorem roundHE_spec (n den : Nat) (hden : 0 < den) :
    2 * (roundHE n den * den) ≤ 2 * n + den ∧ 2 * n ≤ 2 * (roundHE n den * den) + den := by
  have hdm : den * (n / den) + n % den = n := Nat.div_add_mod n den
  have hr : n % den < den := Nat.mod_lt n hden
  rw [Nat.mul_comm den] at hdm
  unfold roundHE
  simp only []
  generalize hq : n / den = q at *
  generalize hrr : n % den = r at *
  split
  · rename_i hup
    have h2 : den ≤ 2 * r := by
      simp only [Bool.or_eq_true, Bool.and_eq_true, decide_eq_true_eq, beq_iff_eq] at hup
      omega
    rw [Nat.add_mul, Nat.one_mul]
    generalize q * den = X at *
    omega
  · rename_i hup
    have h2 : 2 * r ≤ den := by
      simp only [Bool.or_eq_true, Bool.and_eq_true, decide_eq_true_eq, beq_iff_eq] at hup
      omega
    generalize q * den = X at *
    omega

/-- `|N·den − num·10^17| ≤ den / 2` with `num / den = m·2^e` -/
theorem humanN_spec (m : Nat) (e : Int) :
    let num := if e ≥ 0 then m * Dbl.pow2 e.toNat else m
    let den := if e ≥ 0 then 1 else Dbl.pow2 (-e).toNat
    2 * (humanN m e * den) ≤ 2 * num * 10 ^ 17 + den ∧ 2 * num * 10 ^ 17 ≤ 2 * (humanN m e * den) + den := by
  intro num den
  have h := roundHE_spec (humanNum m e * 10 ^ 17) (humanDen e) (humanDen_pos e)
  rw [← humanN_eq_roundHE] at h
  show 2 * (humanN m e * humanDen e) ≤ 2 * humanNum m e * 10 ^ 17 + humanDen e ∧
    2 * humanNum m e * 10 ^ 17 ≤ 2 * (humanN m e * humanDen e) + humanDen e
  rw [Nat.mul_assoc 2 (humanNum m e)]
  exact h

/-- for `e ≥ 0` the denominator is 1: nothing is rounded -/
theorem humanN_exact (m : Nat) (e : Int) (h : e ≥ 0) : humanN m e = m * 2 ^ e.toNat * 10 ^ 17 := by
  unfold humanN
  simp only [if_pos h, Nat.mod_one, Nat.div_one, pow2_eq]
  rfl

/-! ## the characters of the output -/

/-- the model's (private) `stripZeros` -/
def stripZ (l : List Char) : List Char := (l.reverse.dropWhile (· == '0')).reverse

/-- the output as a function of the integer part and the 17-digit fraction -/
def fmtParts (neg : Bool) (ip fpN : Nat) : String :=
  let fs := (toString fpN).toList
  let fp := stripZ (List.replicate (17 - fs.length) '0' ++ fs)
  (if neg then "-" else "") ++ toString ip ++ (if fp.isEmpty then "" else "." ++ String.ofList fp)

/-- the output as a function of the rounded integer -/
def fmtOf (neg : Bool) (N : Nat) : String := fmtParts neg (N / 10 ^ 17) (N % 10 ^ 17)

theorem fmtF17Human_eq (neg : Bool) (m : Nat) (e : Int) :
    Dbl.fmtF17Human (.fin neg m e) = fmtOf neg (humanN m e) := by
  by_cases h : e ≥ 0
  · simp only [Dbl.fmtF17Human, humanN, if_pos h]
    rfl
  · simp only [Dbl.fmtF17Human, humanN, if_neg h]
    rfl

theorem strBytes_toList (s : String) : strBytes s = s.toList.flatMap String.utf8EncodeChar := by
  unfold strBytes
  rw [← strBytes_ofList, String.ofList_toList]

theorem toString_toList (n : Nat) : (toString n).toList = Nat.toDigits 10 n := by
  rw [Nat.toString_eq_ofList_toDigits, String.toList_ofList]

/-! ## digit characters and their bytes -/

/-- a decimal digit character -/
def DigC (c : Char) : Prop := ∃ d, d < 10 ∧ c = Nat.digitChar d

/-- the byte of a digit character -/
def encC (c : Char) : UInt8 := digitByte (c.toNat - 48)

theorem digC_enc {c : Char} (h : DigC c) : String.utf8EncodeChar c = [encC c] := by
  obtain ⟨d, hd, rfl⟩ := h
  match d, hd with
  | 0, _ | 1, _ | 2, _ | 3, _ | 4, _ | 5, _ | 6, _ | 7, _ | 8, _ | 9, _ => decide

theorem digC_zero {c : Char} (h : DigC c) : (c == '0') = (encC c == 48) := by
  obtain ⟨d, hd, rfl⟩ := h
  match d, hd with
  | 0, _ | 1, _ | 2, _ | 3, _ | 4, _ | 5, _ | 6, _ | 7, _ | 8, _ | 9, _ => decide

theorem digC_char_zero : DigC '0' := ⟨0, by decide, rfl⟩
theorem encC_char_zero : encC '0' = 48 := by decide

theorem toDigits_digC (n : Nat) : ∀ c ∈ Nat.toDigits 10 n, DigC c := by
  induction n using Nat.strongRecOn with
  | _ n ih =>
    rw [Nat.toDigits_eq_if (by decide)]
    split
    · intro c hc
      rw [List.mem_singleton] at hc
      exact ⟨n, ‹_›, hc⟩
    · intro c hc
      rcases List.mem_append.mp hc with hc | hc
      · exact ih (n / 10) (by omega) c hc
      · rw [List.mem_singleton] at hc
        exact ⟨n % 10, Nat.mod_lt n (by decide), hc⟩

theorem flatMap_enc : ∀ (l : List Char), (∀ c ∈ l, DigC c) → l.flatMap String.utf8EncodeChar = l.map encC
  | [], _ => rfl
  | c :: l, h => by
    rw [List.flatMap_cons, List.map_cons, digC_enc (h c (List.mem_cons_self ..)),
      flatMap_enc l (fun x hx => h x (List.mem_cons_of_mem _ hx))]
    rfl

theorem natDigits_eq_map (n : Nat) : natDigits n = (Nat.toDigits 10 n).map encC := by
  rw [natDigits_eq_flatMap, flatMap_enc _ (toDigits_digC n)]

/-! ## stripping trailing zeros -/

/-- `stripZeros` on bytes -/
def stripB (b : Bytes) : Bytes := (b.reverse.dropWhile (· == 48)).reverse

theorem map_dropWhile_zero : ∀ (l : List Char), (∀ c ∈ l, DigC c) →
    (l.dropWhile (· == '0')).map encC = (l.map encC).dropWhile (· == 48)
  | [], _ => rfl
  | c :: l, h => by
    have hc := digC_zero (h c (List.mem_cons_self ..))
    rw [List.map_cons, List.dropWhile_cons, List.dropWhile_cons]
    by_cases h0 : (c == '0') = true
    · rw [if_pos h0, if_pos (hc ▸ h0)]
      exact map_dropWhile_zero l (fun x hx => h x (List.mem_cons_of_mem _ hx))
    · rw [if_neg h0, if_neg (hc ▸ h0), List.map_cons]

theorem stripZ_map (l : List Char) (h : ∀ c ∈ l, DigC c) : (stripZ l).map encC = stripB (l.map encC) := by
  unfold stripZ stripB
  rw [List.map_reverse, map_dropWhile_zero _ (fun c hc => h c (List.mem_reverse.mp hc)), List.map_reverse]

theorem stripZ_mem {l : List Char} {c : Char} (h : c ∈ stripZ l) : c ∈ l := by
  unfold stripZ at h
  exact List.mem_reverse.mp ((List.dropWhile_sublist _).subset (List.mem_reverse.mp h))

theorem dropWhile_zero_spec : ∀ (l : Bytes), ∃ j, l = List.replicate j 48 ++ l.dropWhile (· == 48)
  | [] => ⟨0, rfl⟩
  | c :: l => by
    rw [List.dropWhile_cons]
    split
    · rename_i h
      have hc : c = 48 := by simpa using h
      obtain ⟨j, hj⟩ := dropWhile_zero_spec l
      refine ⟨j + 1, ?_⟩
      rw [List.replicate_succ, List.cons_append, ← hj, hc]
    · exact ⟨0, rfl⟩

/-- the stripped string is the original minus a block of trailing `0`s -/
theorem stripB_spec (b : Bytes) : ∃ j, b = stripB b ++ List.replicate j 48 := by
  obtain ⟨j, hj⟩ := dropWhile_zero_spec b.reverse
  refine ⟨j, ?_⟩
  have := congrArg List.reverse hj
  rw [List.reverse_reverse, List.reverse_append, List.reverse_replicate] at this
  exact this

theorem dropWhile_zero_head : ∀ (l : Bytes), (l.dropWhile (· == 48)).head? ≠ some 48
  | [] => by simp
  | c :: l => by
    rw [List.dropWhile_cons]
    split
    · exact dropWhile_zero_head l
    · rename_i h
      intro hh
      rw [List.head?_cons, Option.some.injEq] at hh
      subst hh
      exact h rfl

/-- nothing is left to strip -/
theorem stripB_getLast (b : Bytes) : (stripB b).getLast? ≠ some 48 := by
  unfold stripB
  rw [List.getLast?_reverse]
  exact dropWhile_zero_head _

theorem decNat_zeros (j : Nat) : decNat (List.replicate j 48) = 0 := by
  induction j with
  | zero => rfl
  | succ j ih =>
    rw [List.replicate_succ, decNat, ih]
    simp

theorem digits_zeros (j : Nat) : Digits (List.replicate j 48) := by
  intro c hc
  rw [List.eq_of_mem_replicate hc]
  decide

/-! ## the length of `natDigits` -/

theorem natDigits_length_le {n k : Nat} (h : n < 10 ^ (k + 1)) : (natDigits n).length ≤ k + 1 := by
  obtain ⟨d, rest, hd, h48, h0⟩ := natDigits_head n
  by_cases hn : n = 0
  · rw [hd, h0 hn]; simp
  · have hdig : Digits (natDigits n) := (digits_iff_all _).mpr (natDigits_all_isDigit n)
    rw [hd] at hdig
    have hge := decNat_ge (rest := rest) hdig.head (fun hh => hn (h48.mp hh))
    rw [← hd, ← digitsVal_eq_decNat, digitsVal_natDigits] at hge
    rw [hd, List.length_cons]
    have : ¬ k + 1 ≤ rest.length := by
      intro hle
      have := Nat.pow_le_pow_right (n := 10) (by decide) hle
      omega
    omega

/-! ## the theorem -/

/-- the bytes of `fmtParts neg ip fpN` -/
theorem fmtParts_bytes (neg : Bool) (ip fpN : Nat) (hlt : fpN < 10 ^ (16 + 1)) :
    ∃ F : Bytes, Digits F ∧ F.length ≤ 17 ∧ decNat F * 10 ^ (17 - F.length) = fpN ∧ F.getLast? ≠ some 48 ∧
      strBytes (fmtParts neg ip fpN) =
        (if neg then [45] else []) ++ (natDigits ip ++ (if F = [] then [] else 46 :: F)) := by
  -- the padded fraction
  have hDlen := natDigits_length_le hlt
  have hD : Digits (natDigits fpN) := (digits_iff_all _).mpr (natDigits_all_isDigit fpN)
  have hPdig : Digits (List.replicate (17 - (natDigits fpN).length) 48 ++ natDigits fpN) :=
    (digits_zeros _).append hD
  have hPlen : (List.replicate (17 - (natDigits fpN).length) 48 ++ natDigits fpN).length = 17 := by
    rw [List.length_append, List.length_replicate]; omega
  have hPval : decNat (List.replicate (17 - (natDigits fpN).length) 48 ++ natDigits fpN) = fpN := by
    rw [decNat_append, decNat_zeros, ← digitsVal_eq_decNat, digitsVal_natDigits]; simp
  generalize hP : List.replicate (17 - (natDigits fpN).length) 48 ++ natDigits fpN = P at hPdig hPlen hPval
  obtain ⟨j, hj⟩ := stripB_spec P
  have hFlen : (stripB P).length + j = 17 := by
    rw [← hPlen]
    conv => rhs; rw [hj]
    rw [List.length_append, List.length_replicate]
  have hFdig : Digits (stripB P) := by
    intro c hc
    exact hPdig c (by rw [hj]; exact List.mem_append_left _ hc)
  refine ⟨stripB P, hFdig, by omega, ?_, stripB_getLast P, ?_⟩
  · rw [show 17 - (stripB P).length = j by omega, ← hPval]
    conv => rhs; rw [hj]
    rw [decNat_append, decNat_zeros, List.length_replicate, Nat.add_zero]
  · -- the characters
    have hfs : (toString fpN).toList = Nat.toDigits 10 fpN := toString_toList fpN
    have hpadC : ∀ c ∈ List.replicate (17 - (Nat.toDigits 10 fpN).length) '0' ++ Nat.toDigits 10 fpN, DigC c := by
      intro c hc
      rcases List.mem_append.mp hc with hc | hc
      · rw [List.eq_of_mem_replicate hc]; exact digC_char_zero
      · exact toDigits_digC fpN c hc
    have hpadB : (List.replicate (17 - (Nat.toDigits 10 fpN).length) '0' ++ Nat.toDigits 10 fpN).map encC = P := by
      rw [List.map_append, List.map_replicate, encC_char_zero, ← natDigits_eq_map, ← hP]
      congr 3
      rw [natDigits_eq_map, List.length_map]
    have hstrip : (stripZ (List.replicate (17 - (Nat.toDigits 10 fpN).length) '0' ++ Nat.toDigits 10 fpN)).map encC
        = stripB P := by
      rw [stripZ_map _ hpadC, hpadB]
    have hstripF : (stripZ (List.replicate (17 - (Nat.toDigits 10 fpN).length) '0' ++
        Nat.toDigits 10 fpN)).flatMap String.utf8EncodeChar = stripB P := by
      rw [flatMap_enc _ (fun c hc => hpadC c (stripZ_mem hc)), hstrip]
    unfold fmtParts
    simp only [hfs]
    generalize stripZ (List.replicate (17 - (Nat.toDigits 10 fpN).length) '0' ++ Nat.toDigits 10 fpN) = fpC
      at hstrip hstripF
    rw [strBytes_toList, String.toList_append, String.toList_append, List.flatMap_append, List.flatMap_append,
      toString_toList, ← natDigits_eq_flatMap, List.append_assoc]
    congr 1
    · cases neg
      · rfl
      · decide
    · congr 1
      by_cases hemp : fpC = []
      · subst hemp
        rw [← hstrip]
        rfl
      · have hne : stripB P ≠ [] := by
          rw [← hstrip]
          intro h
          exact hemp (List.map_eq_nil_iff.mp h)
        have hie : fpC.isEmpty = false := by
          cases fpC with
          | nil => exact absurd rfl hemp
          | cons _ _ => rfl
        rw [if_neg hne, hie, if_neg (by decide), String.toList_append, String.toList_ofList (l := fpC),
          List.flatMap_append, hstripF]
        rfl

/-- the literal printed for the rounded integer `N` -/
def humanLit (neg : Bool) (N : Nat) (F : Bytes) : DecLit :=
  { sign := if neg then Sgn.minus else Sgn.none
    ip := natDigits (N / 10 ^ 17)
    frac := if F = [] then none else some F
    exp := none }

theorem humanLit_fp (neg : Bool) (N : Nat) (F : Bytes) : (humanLit neg N F).fp = F := by
  unfold DecLit.fp humanLit
  by_cases h : F = []
  · simp [h]
  · simp [h]

theorem humanLit_fracBytes (neg : Bool) (N : Nat) (F : Bytes) :
    (humanLit neg N F).fracBytes = if F = [] then [] else 46 :: F := by
  unfold DecLit.fracBytes humanLit
  by_cases h : F = []
  · simp [h]
  · simp [h]

/-- THE THEOREM: the human-friendly rendering of any finite double is a valid literal of the grammar, without
exponent, whose integer digits are the canonical digits of `N / 10^17` and whose fraction digits are the
17-digit rendering of `N % 10^17` without its trailing zeros (`N = humanN m e`) -/
theorem fmtF17Human_lit (neg : Bool) (m : Nat) (e : Int) :
    ∃ L : DecLit, L.Valid ∧ strBytes (Dbl.fmtF17Human (.fin neg m e)) = L.render ∧
      L.sign = (if neg then Sgn.minus else Sgn.none) ∧ L.exp = none ∧ L.fp.length ≤ 17 ∧
      L.mant * 10 ^ 17 = humanN m e * 10 ^ L.fp.length ∧
      L.ip = natDigits (humanN m e / 10 ^ 17) ∧
      decNat L.fp * 10 ^ (17 - L.fp.length) = humanN m e % 10 ^ 17 ∧
      L.fp.getLast? ≠ some 48 ∧ (L.frac = none ↔ L.fp = []) := by
  obtain ⟨F, hFd, hFl, hFv, hnz, hb⟩ := fmtParts_bytes neg (humanN m e / 10 ^ 17) (humanN m e % 10 ^ 17)
    (Nat.mod_lt _ (Nat.pow_pos (by decide)))
  generalize hN : humanN m e = N at *
  have hfp := humanLit_fp neg N F
  refine ⟨humanLit neg N F, ?_, ?_, rfl, rfl, ?_, ?_, rfl, ?_, ?_, ?_⟩
  · refine ⟨?_, ?_, Or.inl (natDigits_ne_nil _), ?_⟩
    · exact (digits_iff_all _).mpr (natDigits_all_isDigit _)
    · rw [hfp]; exact hFd
    · intro x hx; cases hx
  · rw [fmtF17Human_eq, hN]
    unfold fmtOf DecLit.render
    rw [hb, humanLit_fracBytes]
    have h1 : (humanLit neg N F).sign.bytes = if neg then [45] else [] := by
      cases neg <;> rfl
    have h2 : (humanLit neg N F).expBytes = [] := rfl
    rw [h1, h2, List.append_nil]
    rfl
  · rw [hfp]; exact hFl
  · rw [hfp]
    show decNat (natDigits (N / 10 ^ 17) ++ (humanLit neg N F).fp) * 10 ^ 17 = _
    rw [hfp, decNat_append, ← digitsVal_eq_decNat, digitsVal_natDigits]
    have hsplit : N = 10 ^ 17 * (N / 10 ^ 17) + N % 10 ^ 17 := (Nat.div_add_mod N (10 ^ 17)).symm
    have hpow : (10 : Nat) ^ 17 = 10 ^ F.length * 10 ^ (17 - F.length) := by
      rw [← Nat.pow_add]; congr 1; omega
    rw [← hFv] at hsplit
    generalize N / 10 ^ 17 = ip at *
    generalize decNat F = dF at *
    conv => rhs; rw [hsplit]
    rw [hpow]
    generalize (10 : Nat) ^ F.length = A
    generalize (10 : Nat) ^ (17 - F.length) = B
    rw [Nat.add_mul, Nat.add_mul]
    congr 1
    · ac_rfl
    · ac_rfl
  · rw [hfp]; exact hFv
  · rw [hfp]; exact hnz
  · rw [hfp]
    unfold humanLit
    by_cases h : F = []
    · simp [h]
    · simp [h]

end FR.C18f
