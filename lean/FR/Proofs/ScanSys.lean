import FR.Proofs.Scan
import FR.Proofs.AsyncLife
import FR.Proofs.History
import FR.Proofs.Ttl
import FR.Proofs.ZSet
import FR.Proofs.HashSetAlg
/-!
# The SCAN family as the server runs it (C15, system level) — helper lemmas

* `sortBy` is a sorting function (permutation, sorted, strictly sorted on duplicate-free keys);
* one SCAN request through `runCommand` / `processCommand` / `stepEv` in closed form;
* one SSCAN / HSCAN / ZSCAN request through `runRegular`, `runCommand`, `processCommand`, `stepEv`;
* the client loop `iter` (follow the returned cursors from 0 until 0 comes back) and its run;
* what a moving key set does to a cursor that is an index into the sorted key list.
-/
namespace FR.ScanSys
open FR FR.M FR.Cmd FR.Spec FR.Proofs
set_option linter.unusedSimpArgs false
set_option linter.unusedVariables false

/-! ## 0. `sortBy` sorts -/

section sort
variable {α : Type} (lt : α → α → Bool)

theorem insertSorted_perm (x : α) (l : List α) : (insertSorted lt x l).Perm (x :: l) := by
  induction l with
  | nil => exact List.Perm.refl _
  | cons y ys ih =>
    unfold insertSorted
    split
    · exact List.Perm.refl _
    · exact (List.Perm.cons y ih).trans (List.Perm.swap x y ys)

theorem sortBy_perm (l : List α) : (sortBy lt l).Perm l := by
  induction l with
  | nil => exact List.Perm.refl _
  | cons x xs ih =>
    show (insertSorted lt x (sortBy lt xs)).Perm (x :: xs)
    exact (insertSorted_perm lt x _).trans (List.Perm.cons x ih)

theorem mem_sortBy {l : List α} {x : α} : x ∈ sortBy lt l ↔ x ∈ l := (sortBy_perm lt l).mem_iff

theorem length_sortBy (l : List α) : (sortBy lt l).length = l.length := (sortBy_perm lt l).length_eq

theorem nodup_sortBy {l : List α} (h : l.Nodup) : (sortBy lt l).Nodup := (sortBy_perm lt l).nodup_iff.2 h

/-- `a` may stand before `b` -/
def NotAfter (a b : α) : Prop := lt b a = false

variable (asymm : ∀ a b, lt a b = true → lt b a = false)
  (trans : ∀ a b c, lt a b = true → lt b c = true → lt a c = true)
include asymm trans

theorem insertSorted_sorted (x : α) {l : List α} (h : l.Pairwise (NotAfter lt)) :
    (insertSorted lt x l).Pairwise (NotAfter lt) := by
  induction l with
  | nil => simp [insertSorted]
  | cons y ys ih =>
    rw [List.pairwise_cons] at h
    unfold insertSorted
    split
    · rename_i hxy
      rw [List.pairwise_cons]
      refine ⟨fun z hz => ?_, List.pairwise_cons.2 h⟩
      rcases List.mem_cons.1 hz with rfl | hz
      · exact asymm _ _ hxy
      · -- x < y ≤ z
        show lt z x = false
        cases hzx : lt z x with
        | false => rfl
        | true =>
          have : lt z y = true := trans _ _ _ hzx hxy
          have h2 : lt z y = false := h.1 z hz
          rw [this] at h2; cases h2
    · rename_i hxy
      have hxy : lt x y = false := by simpa using hxy
      rw [List.pairwise_cons]
      refine ⟨fun z hz => ?_, ih h.2⟩
      rcases List.mem_cons.1 ((insertSorted_perm lt x ys).mem_iff.1 hz) with e | hz'
      · subst e; exact hxy
      · exact h.1 z hz'

theorem sortBy_sorted (l : List α) : (sortBy lt l).Pairwise (NotAfter lt) := by
  induction l with
  | nil => exact List.Pairwise.nil
  | cons x xs ih => exact insertSorted_sorted lt asymm trans x ih

end sort

/-- sorting by a byte-string key: the result is non-decreasing in the key … -/
theorem sortBy_key_sorted {α : Type} (f : α → Bytes) (l : List α) :
    (sortBy (fun a b => bytesLt (f a) (f b)) l).Pairwise (fun a b => bytesLt (f b) (f a) = false) :=
  sortBy_sorted (fun a b => bytesLt (f a) (f b)) (fun _ _ h => bytesLt_asymm h) 
    (fun a b c h1 h2 => bytesLt_trans (a := f a) (b := f b) (c := f c) h1 h2) l

/-- … and strictly increasing when the keys are pairwise different -/
theorem sortBy_key_strict {α : Type} (f : α → Bytes) {l : List α} (h : (l.map f).Nodup) :
    (sortBy (fun a b => bytesLt (f a) (f b)) l).Pairwise (fun a b => bytesLt (f a) (f b) = true) := by
  have hs := sortBy_key_sorted f l
  have hn : ((sortBy (fun a b => bytesLt (f a) (f b)) l).map f).Nodup :=
    ((sortBy_perm _ l).map f).nodup_iff.2 h
  rw [List.Nodup, List.pairwise_map] at hn
  refine (hs.and hn).imp ?_
  intro a b ⟨h1, h2⟩
  rcases bytesLt_trichotomy (f a) (f b) with h | h | h
  · exact h
  · exact absurd h h2
  · rw [h] at h1; cases h1

theorem sortBy_bytes_strict {l : List Bytes} (h : l.Nodup) :
    (sortBy bytesLt l).Pairwise (fun a b => bytesLt a b = true) := by
  have := sortBy_key_strict (fun x : Bytes => x) (l := l) (by simpa using h)
  exact this

/-! ## 1. `Signature.apply` for the two signature shapes of the SCAN family, exactly -/

theorem pass1_bytes (db : Db) (xs : List Bytes) (n : Nat) (acc : List Arg) :
    Sig.pass1 db (xs.zip (List.replicate n .bytes)) acc =
      (db, .ok (.inr (acc.reverse ++ (xs.take n).map .raw))) := by
  induction xs generalizing n acc with
  | nil => simp [Sig.pass1]
  | cons x xs ih =>
    cases n with
    | zero => simp [Sig.pass1]
    | succ n =>
      simp only [List.replicate_succ, List.zip_cons_cons, Sig.pass1, Conv.decode, List.take_succ_cons, List.map_cons]
      rw [ih]; simp

theorem pass2_bytes (db : Db) (xs : List Bytes) (n : Nat) (accA : List Arg) (accC : List CI) :
    Sig.pass2 db ((xs.map Arg.raw).zip (List.replicate n .bytes)) accA accC =
      (db, .ok (accA.reverse ++ (xs.take n).map .raw, accC.reverse)) := by
  induction xs generalizing n accA with
  | nil => simp [Sig.pass2]
  | cons x xs ih =>
    cases n with
    | zero => simp [Sig.pass2]
    | succ n =>
      simp only [List.map_cons, List.replicate_succ, List.zip_cons_cons, Sig.pass2, List.take_succ_cons]
      rw [ih]; simp

theorem types_pairs (s : Sig) (hrep : s.rep = [.bytes, .bytes]) (n : Nat) :
    s.types n = s.fixed ++ List.replicate (n - s.fixed.length) .bytes :=
  HashSet.types_eq s n .bytes (by rw [hrep]; simp) (by rw [hrep]; simp)

/-- `SCAN cursor [opt value]*`: no key is looked up, the database is not touched -/
theorem apply_scan (s : Sig) (hfix : s.fixed = [.int]) (hrep : s.rep = [.bytes, .bytes]) (cb : Bytes)
    (opts : List Bytes) (db : Db) :
    s.apply (cb :: opts) db =
      (db, if opts.length % 2 = 1 then .error s.wrongArgs else
        match Conv.int cb with
        | .error e => .error e
        | .ok n => .ok (.ok (.int n :: opts.map .raw) [])) := by
  unfold Sig.apply
  have har : s.checkArity (cb :: opts).length = true := by
    simp [Sig.checkArity, hfix, hrep]
  rw [har, types_pairs s hrep, hfix, hrep]
  simp only [Bool.not_true, Bool.false_eq_true, if_false, List.length_cons, List.length_nil, List.isEmpty_cons,
    Bool.not_false, Bool.true_and, Nat.add_sub_cancel, List.cons_append, List.nil_append, List.zip_cons_cons,
    Nat.zero_add, bne_iff_ne, ne_eq]
  by_cases hodd : opts.length % 2 = 1
  · have : ¬ opts.length % 2 = 0 := by omega
    simp [hodd, this]
  · have h0 : opts.length % 2 = 0 := by omega
    simp only [h0, not_true_eq_false, if_false, hodd]
    simp only [Sig.pass1, Conv.decode]
    cases hc : Conv.int cb with
    | error e => rfl
    | ok n =>
      simp only [Except.map]
      rw [pass1_bytes]
      simp only [List.reverse_cons, List.reverse_nil, List.nil_append, List.singleton_append, List.length_replicate,
        List.take_length, List.zip_cons_cons, Sig.pass2]
      rw [pass2_bytes]
      simp

/-- the `CommandItem` for key `k` of declared type `T` built from the looked-up item -/
def ciFor (T : Ty) (k : Bytes) (item : Option Item) : CI :=
  match item with
  | some it => ⟨k, some it.value, it.expireat, false, false⟩
  | none => ⟨k, T.default, none, false, false⟩

/-- `xSCAN key cursor [opt value]*`: the cursor is converted first, then the key is looked up once (lazy expiry)
and its type checked -/
theorem apply_keyscan (s : Sig) (T : Ty) (hfix : s.fixed = [.key (some T) .unspecified, .int])
    (hrep : s.rep = [.bytes, .bytes]) (key cb : Bytes) (opts : List Bytes) (db : Db) :
    s.apply (key :: cb :: opts) db =
      if opts.length % 2 = 1 then (db, .error s.wrongArgs) else
        match Conv.int cb with
        | .error e => (db, .error e)
        | .ok n =>
          ((db.get key).1,
            match (db.get key).2 with
            | some it =>
              if it.value.ty != T then .error Msgs.WRONGTYPE_MSG
              else .ok (.ok (.key 0 :: .int n :: opts.map .raw) [ciFor T key (some it)])
            | none => .ok (.ok (.key 0 :: .int n :: opts.map .raw) [ciFor T key none])) := by
  unfold Sig.apply
  have har : s.checkArity (key :: cb :: opts).length = true := by
    simp [Sig.checkArity, hfix, hrep]
  rw [har, types_pairs s hrep, hfix, hrep]
  simp only [Bool.not_true, Bool.false_eq_true, if_false, List.length_cons, List.length_nil, List.isEmpty_cons,
    Bool.not_false, Bool.true_and, List.cons_append, List.nil_append, List.zip_cons_cons,
    Nat.zero_add, bne_iff_ne, ne_eq]
  have e2 : opts.length + 1 + 1 - (0 + 1 + 1) = opts.length := by omega
  rw [e2]
  by_cases hodd : opts.length % 2 = 1
  · have : ¬ opts.length % 2 = 0 := by omega
    simp [hodd, this]
  · have h0 : opts.length % 2 = 0 := by omega
    simp only [h0, not_true_eq_false, if_false, hodd]
    simp only [Sig.pass1, Conv.decode, bne_self_eq_false, Bool.false_eq_true, if_false]
    cases hc : Conv.int cb with
    | error e => rfl
    | ok n =>
      simp only [Except.map]
      rw [pass1_bytes]
      simp only [List.reverse_cons, List.reverse_nil, List.nil_append, List.singleton_append, List.length_replicate,
        List.take_length, List.zip_cons_cons, Sig.pass2, List.cons_append, List.length_nil]
      generalize db.get key = g
      obtain ⟨db', item⟩ := g
      cases item with
      | none =>
        simp only [Sig.pass2]
        rw [pass2_bytes]
        simp [ciFor]
      | some it =>
        simp only
        by_cases hty : it.value.ty = T
        · simp only [hty, bne_self_eq_false, Bool.false_eq_true, if_false, Sig.pass2]
          rw [pass2_bytes]
          simp [ciFor, hty]
        · have : (it.value.ty != T) = true := by simpa using hty
          simp [this, hty]

/-! ## 2. One SCAN request -/

/-- the signature of SCAN -/
def scanSig : Sig := ⟨"scan", [.int], [.bytes, .bytes], false, 1, 0, true⟩

theorem find_scan : SigTable.find "scan" = some scanSig := rfl

/-- the list SCAN pages through: the live keys of the database, sorted byte-wise -/
def scanKeys (D : Db) : List Bytes := sortBy bytesLt ((Db.purge D).dict.map Prod.fst)

/-- the stored type of a live key, as SCAN's TYPE filter sees it -/
def scanType (D : Db) : Bytes → Bytes := typeNameOf (Db.purge D)

/-- `_scan` on the live keys of `D` -/
def scanResult (D : Db) (cursor : Int) (opts : List Bytes) : Except Err Reply :=
  Cmd.scanReply (scanKeys D) id (scanType D) true cursor opts (fun p => p.map .bulk)

/-- the request gets past `Signature.apply` (even number of option words, integer cursor) -/
def scanReaches (cb : Bytes) (opts : List Bytes) : Bool :=
  decide (opts.length % 2 = 0) && (match Conv.int cb with | .ok _ => true | .error _ => false)

/-- the reply to `SCAN cb opts…` on database `D`, every error path included -/
def scanAnswer (D : Db) (cb : Bytes) (opts : List Bytes) : Reply :=
  if opts.length % 2 = 1 then .err (strBytes scanSig.wrongArgs) else
    match Conv.int cb with
    | .error e => .err (strBytes e)
    | .ok cursor =>
      match scanResult D cursor opts with
      | .ok r => r
      | .error e => .err (strBytes e)

theorem set_getD_self {α} (l : List α) (i : Nat) (x : α) : l.set i (l.getD i x) = l := by
  induction l generalizing i with
  | nil => rfl
  | cons a as ih =>
    cases i with
    | zero => rfl
    | succ i => simp only [List.set_cons_succ, List.getD_cons_succ, ih]

theorem setDbS_dbAt (s : Sys) (d : Nat) : s.setDbS d (s.dbAt d) = s := by
  unfold Sys.setDbS Sys.dbAt
  simp only [set_getD_self]

theorem purge_time (db : Db) : (Db.purge db).time = db.time := rfl

theorem purge_nil (t : Int) : Db.purge ⟨[], t⟩ = ⟨[], t⟩ := rfl

/-- reading back the purged database -/
theorem dbAt_setDbS_purge (s : Sys) (d : Nat) :
    (s.setDbS d (Db.purge (s.dbAt d))).dbAt d = Db.purge (s.dbAt d) := by
  by_cases hd : d < s.srv.dbs.length
  · exact Sys.setDbS_dbAt_self s d _ hd rfl
  · have hd : s.srv.dbs.length ≤ d := by omega
    rw [Sys.setDbS_out_of_range s d _ hd, Sys.dbAt_out_of_range s d hd]
    rfl

theorem setDbS_setDbS (s : Sys) (d : Nat) (a b : Db) : (s.setDbS d a).setDbS d b = s.setDbS d b := by
  unfold Sys.setDbS
  simp only [List.set_set]

theorem liveKeys_run (d : Nat) (s : Sys) :
    liveKeys d s = ((Db.purge (s.dbAt d)).dict.map Prod.fst, s.setDbS d (Db.purge (s.dbAt d))) := rfl

theorem scanCmd_run (d : Nat) (cursor : Int) (rest : List Arg) (cis : List CI) (s : Sys) :
    scanCmd d (.int cursor :: rest) cis s =
      ((match scanResult (s.dbAt d) cursor (Cmd.rawArgs rest) with
        | .ok r => .ok (some r, cis)
        | .error e => .error e), s.setDbS d (Db.purge (s.dbAt d))) := by
  unfold scanCmd
  simp only [bind, StateT.bind, liveKeys_run, getDb_run', dbAt_setDbS_purge]
  unfold scanResult scanKeys scanType
  generalize scanReply _ _ _ _ _ _ _ = r
  cases r <;> rfl

theorem special_scan (inner : Inner) (mode : Mode) (c : Nat) (args : List Arg) (cis : List CI) (s : Sys) :
    special inner mode c "scan" args cis s = scanCmd (s.conn c).db args cis s := by
  unfold special
  simp only [bind, StateT.bind, getConn_run]

theorem convInt_error {b : Bytes} {e : Err} (h : Conv.int b = .error e) : e = Msgs.INVALID_INT_MSG := by
  unfold Conv.int Conv.intRange at h
  split at h
  · split at h
    · cases h
    · exact (Except.error.inj h).symm
  · exact (Except.error.inj h).symm

theorem parseScanOpts_error (t : Bool) : ∀ (opts : List Bytes) (o : ScanOpts) (e : Err),
    parseScanOpts t opts o = .error e → e = Msgs.SYNTAX_ERROR_MSG ∨ e = Msgs.INVALID_INT_MSG
  | [], o, e, h => by simp [parseScanOpts] at h
  | [_], o, e, h => by
    simp only [parseScanOpts, Except.error.injEq] at h
    exact Or.inl h.symm
  | a :: v :: rest, o, e, h => by
    rw [parseScanOpts] at h
    split at h
    · exact parseScanOpts_error t rest _ e h
    · split at h
      · split at h
        · rename_i e' hc
          rw [Except.error.inj h] at hc
          exact Or.inr (convInt_error hc)
        · split at h
          · exact Or.inl (Except.error.inj h).symm
          · exact parseScanOpts_error t rest _ e h
      · split at h
        · exact parseScanOpts_error t rest _ e h
        · exact Or.inl (Except.error.inj h).symm

/-- the only errors `_scan` raises -/
theorem scanReply_error {α} (elems : List α) keyOf typeName (t : Bool) (cursor : Int) opts render (e : Err)
    (h : scanReply elems keyOf typeName t cursor opts render = .error e) :
    e = Msgs.INVALID_CURSOR_MSG ∨ e = Msgs.SYNTAX_ERROR_MSG ∨ e = Msgs.INVALID_INT_MSG := by
  unfold scanReply at h
  split at h
  · exact Or.inl (Except.error.inj h).symm
  · split at h
    · exact Or.inr (Or.inl (Except.error.inj h).symm)
    · split at h
      · rename_i e' hp
        rw [Except.error.inj h] at hp
        exact Or.inr (parseScanOpts_error t opts {} e hp)
      · split at h <;> cases h

theorem scanReply_error_not_model {α} (elems : List α) keyOf typeName (t : Bool) (cursor : Int) opts render (e : Err)
    (h : scanReply elems keyOf typeName t cursor opts render = .error e) :
    e.startsWith "model:" = false := by
  rcases scanReply_error elems keyOf typeName t cursor opts render e h with rfl | rfl | rfl <;> decide +kernel

/-- the state after a SCAN request was run by `_run_command`: the selected database is purged iff the body was reached -/
def afterScan (s : Sys) (d : Nat) (cb : Bytes) (opts : List Bytes) : Sys :=
  if scanReaches cb opts then s.setDbS d (Db.purge (s.dbAt d)) else s

theorem gate_none (sig : Sig) (hn : sig.noScript = false ∨ True) (n : Nat) (h : n = 0) :
    runGate sig false (decide (n > 0)) = none := by
  subst h; simp [runGate]

/-- `_run_command` of SCAN, in closed form -/
theorem runWith_scan (inner : Inner) (mode : Mode) (c : Nat) (cb : Bytes) (opts : List Bytes) (s : Sys)
    (hpub : (s.conn c).pubsub = 0) :
    runWith (special inner) mode c scanSig (cb :: opts) false s =
      (some (scanAnswer (s.dbAt (s.conn c).db) cb opts), afterScan s (s.conn c).db cb opts) := by
  have hreg : Cmd.regular "scan" = none := rfl
  have hname : scanSig.name = "scan" := rfl
  rw [runWith_not_refused _ mode c scanSig _ false (Sys.refuses_of_unsubscribed scanSig hpub)]
  unfold runWithBody
  simp only [bind, StateT.bind, getConn_run, getDb_run', hname, hreg, apply_scan scanSig rfl rfl, setDb_run',
    setDbS_dbAt, gate_none scanSig (Or.inr trivial) _ hpub]
  unfold scanAnswer afterScan scanReaches
  by_cases hodd : opts.length % 2 = 1
  · have h0 : ¬ opts.length % 2 = 0 := by omega
    simp only [hodd, if_true, h0, decide_false, Bool.false_and, Bool.false_eq_true, if_false]
    rfl
  · have h0 : opts.length % 2 = 0 := by omega
    rw [if_neg hodd, if_neg hodd]
    simp only [h0, decide_true, Bool.true_and]
    cases hc : Conv.int cb with
    | error e => rfl
    | ok cursor =>
      simp only [if_true]
      cases hr : scanResult (s.dbAt (s.conn c).db) cursor opts with
      | ok r =>
        simp only [StateT.bind, special_scan, scanCmd_run, HashSet.rawArgs_map, hr]
        rfl
      | error e =>
        have hm : e.startsWith "model:" = false := scanReply_error_not_model _ _ _ _ _ _ _ e hr
        simp only [StateT.bind, special_scan, scanCmd_run, HashSet.rawArgs_map, hr]
        show (if e.startsWith "model:" = true then _ else _ : M (Option Reply)) _ = _
        rw [hm]
        rfl

theorem runCommand_scan (mode : Mode) (c : Nat) (cb : Bytes) (opts : List Bytes) (s : Sys)
    (hpub : (s.conn c).pubsub = 0) :
    runCommand mode c scanSig (cb :: opts) false s =
      (some (scanAnswer (s.dbAt (s.conn c).db) cb opts), afterScan s (s.conn c).db cb opts) := by
  unfold runCommand
  have : scriptNames.contains scanSig.name = false := by decide
  rw [this]
  exact runWith_scan _ mode c cb opts s hpub

/-! ## 3. The prologue of `_process_command` (clean-up of closed sockets, clock refresh) -/

/-- the state in which `_run_command` starts -/
def prologue (s : Sys) : Sys := (cleanupClosed s).2.refresh

theorem foldl_forget_proj {β} (P : Sys → β) (hP : ∀ s c, P (s.forget c) = P s) (l : List Nat) (s : Sys) :
    P (l.foldl Sys.forget s) = P s := by
  induction l generalizing s with
  | nil => rfl
  | cons a as ih => rw [List.foldl_cons, ih, hP]

theorem cleanupClosed_proj {β} (P : Sys → β) (hP : ∀ s c, P (s.forget c) = P s)
    (hC : ∀ s, P s.clearClosed = P s) (s : Sys) : P (cleanupClosed s).2 = P s := by
  rw [cleanupClosed_run]
  show P (_ : Sys).clearClosed = _
  rw [hC, foldl_forget_proj P hP]

/-- the clock reading the request brings (the old time when the hints are exhausted) -/
def reading (s : Sys) : Int := s.clocks.headD s.srv.time

theorem nextClock_fst (s : Sys) : (nextClock s).1 = s.clocks.headD s.srv.time := by
  rw [nextClock_run]; cases s.clocks <;> rfl

theorem prologue_dbs (s : Sys) : (prologue s).srv.dbs = s.srv.dbs := by
  unfold prologue
  rw [Sys.refresh_dbs]
  exact cleanupClosed_proj (fun s => s.srv.dbs) (fun _ _ => rfl) (fun _ => rfl) s

theorem prologue_time (s : Sys) : (prologue s).srv.time = reading s := by
  unfold prologue Sys.refresh reading
  show (nextClock (cleanupClosed s).2).1 = _
  rw [nextClock_fst, cleanupClosed_proj (fun s => s.clocks) (fun _ _ => rfl) (fun _ => rfl) s,
    cleanupClosed_proj (fun s => s.srv.time) (fun _ _ => rfl) (fun _ => rfl) s]

theorem prologue_out (s : Sys) : (prologue s).out = s.out := by
  unfold prologue
  rw [Sys.refresh_out]
  exact cleanupClosed_proj (fun s => s.out) (fun _ _ => rfl) (fun _ => rfl) s

theorem nextClock_crashed (s : Sys) : (nextClock s).2.crashed = s.crashed := by
  rw [nextClock_run]
  split
  · rfl
  · simp only; split <;> rfl

theorem nextClock_picks (s : Sys) : (nextClock s).2.picks = s.picks := by
  rw [nextClock_run]
  split
  · rfl
  · simp only; split <;> rfl

theorem nextClock_fault_cons (s : Sys) {t : Int} {r : List Int} (h : s.clocks = t :: r) : (nextClock s).2.fault = s.fault := by
  rw [nextClock_run, h]

theorem prologue_crashed (s : Sys) : (prologue s).crashed = s.crashed := by
  unfold prologue Sys.refresh
  show (nextClock (cleanupClosed s).2).2.crashed = _
  rw [nextClock_crashed]
  exact cleanupClosed_proj (fun s => s.crashed) (fun _ _ => rfl) (fun _ => rfl) s

theorem prologue_picks (s : Sys) : (prologue s).picks = s.picks := by
  unfold prologue Sys.refresh
  show (nextClock (cleanupClosed s).2).2.picks = _
  rw [nextClock_picks]
  exact cleanupClosed_proj (fun s => s.picks) (fun _ _ => rfl) (fun _ => rfl) s

theorem prologue_fault (s : Sys) {t : Int} {r : List Int} (h : s.clocks = t :: r) : (prologue s).fault = s.fault := by
  unfold prologue Sys.refresh
  show (nextClock (cleanupClosed s).2).2.fault = _
  have hc : (cleanupClosed s).2.clocks = t :: r := by
    rw [cleanupClosed_proj (fun s => s.clocks) (fun _ _ => rfl) (fun _ => rfl) s]; exact h
  rw [nextClock_fault_cons _ hc]
  exact cleanupClosed_proj (fun s => s.fault) (fun _ _ => rfl) (fun _ => rfl) s

/-- the connection records keep everything except (for sockets closed meanwhile) their watches -/
theorem prologue_conn (s : Sys) (c : Nat) :
    (prologue s).conn c = s.conn c ∨ (prologue s).conn c = (s.conn c).cleared := by
  unfold prologue
  rw [Sys.refresh_conn]
  exact cleanupClosed_conn_any s c

theorem prologue_conn_db (s : Sys) (c : Nat) : ((prologue s).conn c).db = (s.conn c).db := by
  rcases prologue_conn s c with h | h <;> rw [h] <;> rfl
theorem prologue_conn_pubsub (s : Sys) (c : Nat) : ((prologue s).conn c).pubsub = (s.conn c).pubsub := by
  rcases prologue_conn s c with h | h <;> rw [h] <;> rfl
theorem prologue_conn_tx (s : Sys) (c : Nat) : ((prologue s).conn c).tx = (s.conn c).tx := by
  rcases prologue_conn s c with h | h <;> rw [h] <;> rfl
theorem prologue_conn_closed (s : Sys) (c : Nat) : ((prologue s).conn c).closed = (s.conn c).closed := by
  rcases prologue_conn s c with h | h <;> rw [h] <;> rfl
theorem prologue_conn_inTx (s : Sys) (c : Nat) : ((prologue s).conn c).inTx = (s.conn c).inTx := by
  rcases prologue_conn s c with h | h <;> rw [h] <;> rfl

theorem prologue_dbAt (s : Sys) (d : Nat) : (prologue s).dbAt d = ⟨s.srv.dbs.getD d [], reading s⟩ := by
  unfold Sys.dbAt
  rw [prologue_dbs, prologue_time]

theorem prologue_dataInv {s : Sys} (h : s.DataInv) : (prologue s).DataInv := h.frame (prologue_dbs s)

/-- `_process_command` once the signature is known and the command is neither refused for its arity nor queued -/
theorem processCommand_run (mode : Mode) (c : Nat) (nameB : Bytes) (args : List Bytes) (sig : Sig) (s : Sys)
    (hname : lookupSig nameB = some sig) (har : sig.checkArity args.length = true)
    (htx : (s.conn c).tx = none) :
    processCommand mode c (nameB :: args) s =
      (do match ← runCommand mode c sig args false with
          | some r => emit c r
          | none => pure ()
          if (← get).crashed.isSome then modifyConn c fun x => { x with dead := true } : M Unit) (prologue s) := by
  rw [processCommand_cons]
  simp only [bind, StateT.bind, getConn_run, hname, dispatch_eq]
  unfold dispatchBody
  simp only [har, htx, Bool.not_true, Bool.false_eq_true, if_false, Option.isSome_none, Bool.false_and]
  rfl

/-- mark the connection dead when an exception escaped (never the case for the SCAN family) -/
def markDead (s : Sys) (c : Nat) : Sys :=
  if s.crashed.isSome then s.updConn c (fun x => { x with dead := true }) else s

theorem finish_run (c : Nat) (m : M (Option Reply)) (p s1 : Sys) (r : Reply) (h : m p = (some r, s1)) :
    (do match ← m with
        | some r => emit c r
        | none => pure ()
        if (← MonadState.get).crashed.isSome then modifyConn c fun x => { x with dead := true } : M Unit) p =
      ((), markDead (s1.emitS c r) c) := by
  simp only [bind, StateT.bind, h, emit_run]
  show (if (s1.emitS c r).crashed.isSome = true then modifyConn c _ else pure ()) (s1.emitS c r) = _
  unfold markDead
  split <;> rfl

/-- the state after one SCAN request processed by `_process_command` -/
def scanStep (s : Sys) (c : Nat) (cb : Bytes) (opts : List Bytes) : Sys :=
  markDead ((afterScan (prologue s) (s.conn c).db cb opts).emitS c
    (scanAnswer ((prologue s).dbAt (s.conn c).db) cb opts)) c

/-- **SCAN through `_process_command`, closed form** (connection outside MULTI and not in subscriber mode) -/
theorem processCommand_scan (mode : Mode) (c : Nat) (nameB cb : Bytes) (opts : List Bytes) (s : Sys)
    (hname : lookupSig nameB = some scanSig) (htx : (s.conn c).tx = none) (hpub : (s.conn c).pubsub = 0) :
    processCommand mode c (nameB :: cb :: opts) s = ((), scanStep s c cb opts) := by
  rw [processCommand_run mode c nameB (cb :: opts) scanSig s hname (by simp [Sig.checkArity, scanSig]) htx]
  have hpub' : ((prologue s).conn c).pubsub = 0 := by rw [prologue_conn_pubsub, hpub]
  rw [finish_run c _ _ _ _ (runCommand_scan mode c cb opts _ hpub'), prologue_conn_db]
  rfl

/-! ## 4. The client loop -/

/-- the pages of one complete iteration, one list per call (`scanAll` is their concatenation) -/
def scanPages {α} (elems : List α) (keyOf : α → Bytes) (typeName : Bytes → Bytes) (o : ScanOpts) :
    Nat → Int → List (List α)
  | 0, _ => []
  | fuel + 1, cursor =>
    let r := scanPage elems keyOf typeName cursor o
    if r.1 = 0 then [r.2] else r.2 :: scanPages elems keyOf typeName o fuel r.1

theorem scanPages_flatten {α} (elems : List α) keyOf typeName (o : ScanOpts) (fuel : Nat) (c : Int) :
    (scanPages elems keyOf typeName o fuel c).flatten = scanAll elems keyOf typeName o fuel c := by
  induction fuel generalizing c with
  | zero => rfl
  | succ fuel ih =>
    simp only [scanPages, scanAll]
    split
    · simp
    · simp [ih]

theorem scanPages_length {α} (elems : List α) keyOf typeName (o : ScanOpts) (fuel : Nat) (c : Int) :
    (scanPages elems keyOf typeName o fuel c).length = (scanTrace elems keyOf typeName o fuel c).length := by
  induction fuel generalizing c with
  | zero => rfl
  | succ fuel ih =>
    simp only [scanPages, scanTrace]
    split
    · rfl
    · simp [ih]

/-- all pages of a complete iteration: they concatenate to the matching elements, and there are `scanCalls` of them -/
theorem scanPages_complete {α} (elems : List α) keyOf typeName (o : ScanOpts) (hc : 0 < o.count) :
    (scanPages elems keyOf typeName o (elems.length + 1) 0).flatten = elems.filter (matchPredicate keyOf typeName o) ∧
    (scanPages elems keyOf typeName o (elems.length + 1) 0).length = scanCalls elems.length o.count.toNat := by
  refine ⟨by rw [scanPages_flatten, scan_complete _ _ _ _ hc], ?_⟩
  rw [scanPages_length, (scan_terminates elems keyOf typeName o hc).1]
  simp

/-- what the client reads off a reply of the SCAN family: the next cursor and the page -/
def decodeScanReply : Reply → Option (Int × List Reply)
  | .arr [.bulk b, .arr page] => (parseCanonInt b).map fun n => (n, page)
  | .arr [.int n, .arr page] => some (n, page)
  | _ => none

/-- COUNT is positive after parsing -/
theorem parse_count_pos (t : Bool) : ∀ (opts : List Bytes) (o0 o : ScanOpts),
    parseScanOpts t opts o0 = .ok o → 0 < o0.count → 0 < o.count
  | [], o0, o, h, h0 => by simp only [parseScanOpts, Except.ok.injEq] at h; subst h; exact h0
  | [_], o0, o, h, h0 => by simp [parseScanOpts] at h
  | a :: v :: rest, o0, o, h, h0 => by
    rw [parseScanOpts] at h
    split at h
    · exact parse_count_pos t rest _ o h h0
    · split at h
      · split at h
        · cases h
        · split at h
          · cases h
          · exact parse_count_pos t rest _ o h (by simp only; omega)
      · split at h
        · exact parse_count_pos t rest _ o h h0
        · cases h

theorem parse_count_pos' {t : Bool} {opts : List Bytes} {o : ScanOpts} (h : parseScanOpts t opts {} = .ok o) :
    0 < o.count := parse_count_pos t opts {} o h (by decide)

/-- one `_scan` call, as the client decodes it, is one `scanPage` -/
theorem decode_scanReply {α} (elems : List α) keyOf typeName (t : Bool) (cursor : Int) opts
    (render : List α → List Reply) (o : ScanOpts) (hc : 0 ≤ cursor) (hp : parseScanOpts t opts {} = .ok o)
    (hr : render [] = []) (r : Reply) (h : scanReply elems keyOf typeName t cursor opts render = .ok r) :
    decodeScanReply r =
      some ((scanPage elems keyOf typeName cursor o).1, render (scanPage elems keyOf typeName cursor o).2) := by
  by_cases hlt : cursor < elems.length
  · rw [scanReply_page elems keyOf typeName t cursor opts render o hc hlt hp] at h
    cases h
    simp only [decodeScanReply, FR.parseCanonInt_intBytes, Option.map_some]
  · have hl : opts.length % 2 = 0 := ((parse_ok_iff t opts {}).mp ⟨o, hp⟩).1
    unfold scanReply at h
    rw [if_neg (by omega), if_neg (by simp [hl]), hp] at h
    simp only at h
    rw [if_pos (by omega)] at h
    cases h
    have h1 : (scanPage elems keyOf typeName cursor o).2 = [] := by
      rw [scanPage_snd, List.drop_of_length_le (by omega)]; simp
    have hcnt : 0 < o.count := parse_count_pos' hp
    simp only [decodeScanReply, h1, hr, scanPage_fst, FR.parseCanonInt_intBytes, Option.map_some]
    rw [if_pos (by omega)]

/-- the hints one request brings: the clock reading taken under the lock, and whatever else the harness recorded
(the SCAN family consumes nothing else) -/
structure Hint where
  time : Int
  clocks : List Int := []
  picks : List (List Bytes) := []

/-- the event "connection `c` sends the request `fields`" -/
def request (mode : Mode) (c : Nat) (fields : List Bytes) (h : Hint) : Ev :=
  .request mode c fields (h.time :: h.clocks) h.picks

/-- the one reply that connection `c` received during the last event -/
def lastReply (s : Sys) (c : Nat) : Option Reply :=
  match s.out with
  | [(c', r)] => if c' = c then some r else none
  | _ => none

structure IterOut where
  /-- the pages received, one per request made -/
  pages : List (List Reply)
  /-- cursor 0 came back -/
  finished : Bool
  final : Sys

/-- the client loop: send `req cursor`, read the reply, continue with the returned cursor until it is 0.
One `Hint` is used per request; the loop also stops when the hints run out or a reply is not a SCAN page. -/
def iter (mode : Mode) (c : Nat) (req : Int → List Bytes) : List Hint → Int → Sys → IterOut
  | [], _, s => ⟨[], false, s⟩
  | h :: hs, cur, s =>
    let s' := stepEv s (request mode c (req cur) h)
    match (lastReply s' c).bind decodeScanReply with
    | none => ⟨[], false, s'⟩
    | some (next, page) =>
      if next = 0 then ⟨[page], true, s'⟩
      else
        let o := iter mode c req hs next s'
        ⟨page :: o.pages, o.finished, o.final⟩

/-- **The loop against any server that answers every call with one `scanPage` over a fixed list.** -/
theorem iter_spec {α} (mode : Mode) (c : Nat) (req : Int → List Bytes) (I : List Hint → Sys → Prop)
    (E : List α) (keyOf : α → Bytes) (ty : Bytes → Bytes) (o : ScanOpts) (render : List α → List Reply)
    (hcount : 0 < o.count)
    (hstep : ∀ h hs (cur : Int) s, I (h :: hs) s → 0 ≤ cur → (cur = 0 ∨ cur < E.length) →
      (lastReply (stepEv s (request mode c (req cur) h)) c).bind decodeScanReply =
        some ((scanPage E keyOf ty cur o).1, render (scanPage E keyOf ty cur o).2) ∧
      I hs (stepEv s (request mode c (req cur) h))) :
    ∀ (fuel : Nat) (cur : Int) (hs : List Hint) (s : Sys), I hs s → 0 ≤ cur → (cur = 0 ∨ cur < E.length) →
      scanFinished E keyOf ty o fuel cur = true → (scanPages E keyOf ty o fuel cur).length ≤ hs.length →
      (iter mode c req hs cur s).pages = (scanPages E keyOf ty o fuel cur).map render ∧
      (iter mode c req hs cur s).finished = true ∧
      I (hs.drop (scanPages E keyOf ty o fuel cur).length) (iter mode c req hs cur s).final := by
  intro fuel
  induction fuel with
  | zero => intro cur hs s _ _ _ hf; simp [scanFinished] at hf
  | succ fuel ih =>
    intro cur hs s hI hc hr hf hl
    cases hs with
    | nil =>
      simp only [scanPages] at hl
      split at hl <;> simp at hl
    | cons h hs =>
      obtain ⟨hd, hI'⟩ := hstep h hs cur s hI hc hr
      simp only [iter, hd]
      simp only [scanPages, scanFinished] at hf hl ⊢
      by_cases h0 : (scanPage E keyOf ty cur o).1 = 0
      · simp only [h0, if_true, List.map_cons, List.map_nil, List.length_cons, List.length_nil, List.drop_succ_cons,
          List.drop_zero, true_and]
        exact hI'
      · simp only [h0, if_false, List.map_cons, List.length_cons, List.drop_succ_cons] at hf hl ⊢
        have hfst := scanPage_fst E keyOf ty cur o
        have hnext : (scanPage E keyOf ty cur o).1 = cur + o.count ∧ cur + o.count < E.length := by
          rw [hfst] at h0 ⊢
          split
          · rename_i hge; rw [if_pos hge] at h0; exact absurd rfl h0
          · exact ⟨rfl, by omega⟩
        have := ih (scanPage E keyOf ty cur o).1 hs _ hI' (by omega) (Or.inr (by omega)) hf (by omega)
        exact ⟨by rw [this.1], this.2.1, this.2.2⟩

/-- … from cursor 0, with enough hints: the pages are exactly `scanPages`, cursor 0 comes back -/
theorem iter_complete {α} (mode : Mode) (c : Nat) (req : Int → List Bytes) (I : List Hint → Sys → Prop)
    (E : List α) (keyOf : α → Bytes) (ty : Bytes → Bytes) (o : ScanOpts) (render : List α → List Reply)
    (hcount : 0 < o.count)
    (hstep : ∀ h hs (cur : Int) s, I (h :: hs) s → 0 ≤ cur → (cur = 0 ∨ cur < E.length) →
      (lastReply (stepEv s (request mode c (req cur) h)) c).bind decodeScanReply =
        some ((scanPage E keyOf ty cur o).1, render (scanPage E keyOf ty cur o).2) ∧
      I hs (stepEv s (request mode c (req cur) h)))
    (hs : List Hint) (s : Sys) (hI : I hs s) (hlen : scanCalls E.length o.count.toNat ≤ hs.length) :
    (iter mode c req hs 0 s).pages = (scanPages E keyOf ty o (E.length + 1) 0).map render ∧
    (iter mode c req hs 0 s).finished = true ∧
    I (hs.drop (scanCalls E.length o.count.toNat)) (iter mode c req hs 0 s).final := by
  have hp := scanPages_complete E keyOf ty o hcount
  have := iter_spec mode c req I E keyOf ty o render hcount hstep (E.length + 1) 0 hs s hI (by omega) (Or.inl rfl)
    (scan_terminates E keyOf ty o hcount).2 (by rw [hp.2]; exact hlen)
  rw [hp.2] at this
  exact this

/-! ## 5. One SCAN event -/

/-- the state in which the `_process_command` of an event starts: per-event outputs reset, hints loaded -/
def start (s : Sys) (h : Hint) : Sys := s.beginEvent.withHints (h.time :: h.clocks) h.picks

theorem stepEv_request (s : Sys) (mode : Mode) (c : Nat) (fields : List Bytes) (h : Hint) :
    stepEv s (request mode c fields h) = (processCommand mode c fields (start s h)).2 := rfl

theorem start_srv (s : Sys) (h : Hint) : (start s h).srv = s.srv := rfl
theorem start_conn (s : Sys) (h : Hint) (c : Nat) : (start s h).conn c = s.conn c := rfl

theorem prologue_start_dbAt (s : Sys) (h : Hint) (d : Nat) :
    (prologue (start s h)).dbAt d = ⟨s.srv.dbs.getD d [], h.time⟩ := by
  rw [prologue_dbAt]; rfl

theorem markDead_of_none {s : Sys} (c : Nat) (h : s.crashed = none) : markDead s c = s := by
  unfold markDead; rw [h]; rfl

theorem afterScan_out (s : Sys) (d cb opts) : (afterScan s d cb opts).out = s.out := by
  unfold afterScan; split <;> rfl
theorem afterScan_conn (s : Sys) (d cb opts c) : (afterScan s d cb opts).conn c = s.conn c := by
  unfold afterScan; split <;> rfl
theorem afterScan_time (s : Sys) (d cb opts) : (afterScan s d cb opts).srv.time = s.srv.time := by
  unfold afterScan; split <;> rfl
theorem afterScan_fault (s : Sys) (d cb opts) : (afterScan s d cb opts).fault = s.fault := by
  unfold afterScan; split <;> rfl
theorem afterScan_dbs (s : Sys) (d cb opts) : (afterScan s d cb opts).srv.dbs =
    if scanReaches cb opts then s.srv.dbs.set d (Db.purge (s.dbAt d)).dict else s.srv.dbs := by
  unfold afterScan; split <;> rfl

theorem afterScan_crashed (s : Sys) (d cb opts) : (afterScan s d cb opts).crashed = s.crashed := by
  unfold afterScan; split <;> rfl

theorem emitS_crashed (s : Sys) (c r) : (s.emitS c r).crashed = s.crashed := by
  unfold Sys.emitS; split <;> rfl

theorem emitS_fault (s : Sys) (c r) : (s.emitS c r).fault = s.fault := by
  unfold Sys.emitS; split <;> rfl

/-- **One SCAN event.**  Connection `c` (outside MULTI, not in subscriber mode, socket open) sends
`SCAN cb opts…`; nothing else happens.  The reply is `scanAnswer` computed on the selected database at the clock
reading the request brings; that database is purged of its expired entries (if the body was reached) and nothing
else changes in any database; the connection stays as it was. -/
theorem scan_event (mode : Mode) (c : Nat) (nameB cb : Bytes) (opts : List Bytes) (s : Sys) (h : Hint)
    (hname : lookupSig nameB = some scanSig) (htx : (s.conn c).tx = none) (hpub : (s.conn c).pubsub = 0)
    (hclosed : (s.conn c).closed = false) :
    let s' := stepEv s (request mode c (nameB :: cb :: opts) h)
    let db : Db := ⟨s.srv.dbs.getD (s.conn c).db [], h.time⟩
    s'.out = [(c, scanAnswer db cb opts)] ∧
    s'.srv.dbs = (if scanReaches cb opts then s.srv.dbs.set (s.conn c).db (Db.purge db).dict else s.srv.dbs) ∧
    s'.srv.time = h.time ∧ s'.fault = none ∧ s'.crashed = none ∧
    (s'.conn c).db = (s.conn c).db ∧ (s'.conn c).tx = none ∧ (s'.conn c).pubsub = 0 ∧
    (s'.conn c).closed = false := by
  intro s' db
  have e : s' = scanStep (start s h) c cb opts := by
    show stepEv s _ = _
    rw [stepEv_request, processCommand_scan mode c nameB cb opts (start s h) hname htx hpub]
  have hcr : (prologue (start s h)).crashed = none := by rw [prologue_crashed]; rfl
  have e2 : s' = (afterScan (prologue (start s h)) (s.conn c).db cb opts).emitS c (scanAnswer db cb opts) := by
    rw [e]; unfold scanStep
    rw [markDead_of_none c (by rw [emitS_crashed, afterScan_crashed, hcr]), start_conn, prologue_start_dbAt]
  have hcl : ((afterScan (prologue (start s h)) (s.conn c).db cb opts).conn c).closed = false := by
    rw [afterScan_conn, prologue_conn_closed, start_conn, hclosed]
  refine ⟨?_, ?_, ?_, ?_, ?_, ?_, ?_, ?_, ?_⟩
  · rw [e2, Sys.emitS_out, hcl, afterScan_out, prologue_out]; rfl
  · rw [e2, Sys.emitS_srv, afterScan_dbs, prologue_start_dbAt, prologue_dbs]; rfl
  · rw [e2, Sys.emitS_srv, afterScan_time, prologue_time]; rfl
  · rw [e2, emitS_fault, afterScan_fault, prologue_fault (start s h) (t := h.time) (r := h.clocks) rfl]; rfl
  · rw [e2, emitS_crashed, afterScan_crashed, hcr]
  · rw [e2, Sys.emitS_conn, afterScan_conn, prologue_conn_db, start_conn]
  · rw [e2, Sys.emitS_conn, afterScan_conn, prologue_conn_tx, start_conn, htx]
  · rw [e2, Sys.emitS_conn, afterScan_conn, prologue_conn_pubsub, start_conn, hpub]
  · rw [e2, Sys.emitS_conn, hcl]

/-! ## 6. The SCAN iteration -/

/-- the stored type of a key of a dictionary (`none` for an absent key), as the TYPE filter sees it -/
def dictType (dict : Dict) : Bytes → Bytes := typeNameOf ⟨dict, 0⟩

theorem typeNameOf_eq (db : Db) : typeNameOf db = dictType db.dict := rfl

/-- the entries of `dict` that are not expired at clock `t` -/
def purgeAt (t : Int) (dict : Dict) : Dict := (Db.purge ⟨dict, t⟩).dict

theorem purgeAt_idem (t : Int) (dict : Dict) : purgeAt t (purgeAt t dict) = purgeAt t dict := by
  unfold purgeAt
  exact congrArg Db.dict (Db.purge_idem ⟨dict, t⟩)

theorem convInt_intBytes {n : Int} (h0 : 0 ≤ n) (h1 : n < 2 ^ 63) : Conv.int (intBytes n) = .ok n := by
  unfold Conv.int Conv.intRange
  rw [FR.parseCanonInt_intBytes]
  have e1 : Conv.INT_MIN = -9223372036854775808 := by decide
  have e2 : Conv.INT_MAX = 9223372036854775807 := by decide
  simp only [e1, e2]
  rw [if_pos (by omega)]

theorem scanReply_ok {α} (elems : List α) keyOf typeName (t : Bool) (cursor : Int) opts
    (render : List α → List Reply) (o : ScanOpts) (hc : 0 ≤ cursor) (hp : parseScanOpts t opts {} = .ok o) :
    ∃ r, scanReply elems keyOf typeName t cursor opts render = .ok r := by
  have hok := (parse_ok_iff t opts {}).mp ⟨o, hp⟩
  cases h : scanReply elems keyOf typeName t cursor opts render with
  | ok r => exact ⟨r, rfl⟩
  | error e =>
    rcases (scan_errors_iff elems keyOf typeName t cursor opts render).mp ⟨e, h⟩ with h' | h' | h'
    · omega
    · omega
    · rw [hok.2] at h'; cases h'

/-- a well-formed SCAN request is answered with one `scanPage` over the sorted live keys -/
theorem scanAnswer_decode (db : Db) (cur : Int) (opts : List Bytes) (o : ScanOpts)
    (hp : parseScanOpts true opts {} = .ok o) (hc : 0 ≤ cur) (hint : Conv.int (intBytes cur) = .ok cur) :
    decodeScanReply (scanAnswer db (intBytes cur) opts) =
      some ((scanPage (scanKeys db) id (scanType db) cur o).1,
        ((scanPage (scanKeys db) id (scanType db) cur o).2).map .bulk) := by
  have hl : opts.length % 2 = 0 := ((parse_ok_iff true opts {}).mp ⟨o, hp⟩).1
  unfold scanAnswer
  rw [if_neg (by omega), hint]
  simp only
  obtain ⟨r, hr⟩ := scanReply_ok (scanKeys db) id (scanType db) true cur opts (fun p => p.map .bulk) o hc hp
  unfold scanResult
  rw [hr]
  exact decode_scanReply _ _ _ _ _ _ _ o hc hp rfl r hr

/-- the request `SCAN cursor opts…` -/
def scanReq (nameB : Bytes) (opts : List Bytes) (cur : Int) : List Bytes := nameB :: intBytes cur :: opts

/-- the invariant of a SCAN iteration by connection `c` on database `d`: `L` is the dictionary of `d` purged at
any of the clock readings still to come -/
def ScanInv (c d : Nat) (L : Dict) (hs : List Hint) (s : Sys) : Prop :=
  s.DataInv ∧ (s.conn c).tx = none ∧ (s.conn c).pubsub = 0 ∧ (s.conn c).closed = false ∧ (s.conn c).db = d ∧
  ∀ h ∈ hs, purgeAt h.time (s.srv.dbs.getD d []) = L

theorem lastReply_single (s : Sys) (c : Nat) (r : Reply) (h : s.out = [(c, r)]) : lastReply s c = some r := by
  unfold lastReply; rw [h]; simp

theorem getD_set_purge (dbs : List Dict) (d : Nat) (t : Int) :
    (dbs.set d (purgeAt t (dbs.getD d []))).getD d [] = purgeAt t (dbs.getD d []) := by
  by_cases hd : d < dbs.length
  · exact getD_set_self _ _ _ _ hd
  · have hd : dbs.length ≤ d := by omega
    rw [List.set_eq_of_length_le hd]
    have : dbs.getD d [] = [] := by
      rw [List.getD_eq_getElem?_getD, List.getElem?_eq_none hd]; rfl
    rw [this]; rfl

theorem scan_step (mode : Mode) (c d : Nat) (nameB : Bytes) (opts : List Bytes) (o : ScanOpts) (L : Dict)
    (hname : lookupSig nameB = some scanSig) (hp : parseScanOpts true opts {} = .ok o)
    (hbound : L.length ≤ 2 ^ 63)
    (h : Hint) (hs : List Hint) (cur : Int) (s : Sys) (hI : ScanInv c d L (h :: hs) s) (hc : 0 ≤ cur)
    (hr : cur = 0 ∨ cur < (sortBy bytesLt (L.map Prod.fst)).length) :
    (lastReply (stepEv s (request mode c (scanReq nameB opts cur) h)) c).bind decodeScanReply =
      some ((scanPage (sortBy bytesLt (L.map Prod.fst)) id (dictType L) cur o).1,
        ((scanPage (sortBy bytesLt (L.map Prod.fst)) id (dictType L) cur o).2).map .bulk) ∧
    ScanInv c d L hs (stepEv s (request mode c (scanReq nameB opts cur) h)) := by
  obtain ⟨hinv, htx, hpub, hcl, hdb, hL⟩ := hI
  have hev := scan_event mode c nameB (intBytes cur) opts s h hname htx hpub hcl
  simp only at hev
  obtain ⟨hout, hdbs, htime, hfault, hcr, h1, h2, h3, h4⟩ := hev
  have hlen : (sortBy bytesLt (L.map Prod.fst)).length = L.length := by rw [length_sortBy, List.length_map]
  have hint : Conv.int (intBytes cur) = .ok cur := convInt_intBytes hc (by omega)
  have hLh : (Db.purge ⟨s.srv.dbs.getD d [], h.time⟩).dict = L := hL h (by simp)
  have hreach : scanReaches (intBytes cur) opts = true := by
    have hl : opts.length % 2 = 0 := ((parse_ok_iff true opts {}).mp ⟨o, hp⟩).1
    simp [scanReaches, hl, hint]
  rw [hdb] at hout hdbs
  constructor
  · show (lastReply (stepEv s (request mode c (nameB :: intBytes cur :: opts) h)) c).bind decodeScanReply = _
    rw [lastReply_single _ c _ hout]
    simp only [Option.bind_some]
    rw [scanAnswer_decode _ cur opts o hp hc hint]
    unfold scanKeys scanType
    rw [hLh, typeNameOf_eq, hLh]
  · show ScanInv c d L hs (stepEv s (request mode c (nameB :: intBytes cur :: opts) h))
    rw [hreach] at hdbs
    simp only [if_true] at hdbs
    refine ⟨?_, h2, h3, h4, by rw [h1, hdb], ?_⟩
    · intro x hx
      rw [hdbs] at hx
      rcases List.mem_or_eq_of_mem_set hx with hx | rfl
      · exact hinv x hx
      · exact (hinv.dbAt d).purge (db := ⟨s.srv.dbs.getD d [], h.time⟩)
    · intro h' hh'
      rw [hdbs]
      have := getD_set_purge s.srv.dbs d h.time
      unfold purgeAt at this
      rw [this, hLh]
      have := hL h' (by simp [hh'])
      rw [← this]
      exact purgeAt_idem _ _

theorem set_set_same {α} (l : List α) (d : Nat) (a b : α) : (l.set d a).set d b = l.set d b := by
  simp only [List.set_set]

/-- **A complete SCAN iteration with no other event in between.** -/
theorem scan_iteration (mode : Mode) (c d : Nat) (nameB : Bytes) (opts : List Bytes) (o : ScanOpts) (L : Dict)
    (hs : List Hint) (s : Sys)
    (hname : lookupSig nameB = some scanSig) (hp : parseScanOpts true opts {} = .ok o)
    (hinv : s.DataInv) (htx : (s.conn c).tx = none) (hpub : (s.conn c).pubsub = 0)
    (hcl : (s.conn c).closed = false) (hdb : (s.conn c).db = d)
    (hL : ∀ h ∈ hs, purgeAt h.time (s.srv.dbs.getD d []) = L)
    (hbound : L.length ≤ 2 ^ 63) (hlen : scanCalls L.length o.count.toNat ≤ hs.length) :
    let K := sortBy bytesLt (L.map Prod.fst)
    let out := iter mode c (scanReq nameB opts) hs 0 s
    out.finished = true ∧
    out.pages = (scanPages K id (dictType L) o (K.length + 1) 0).map (fun p => p.map Reply.bulk) ∧
    out.pages.length = scanCalls L.length o.count.toNat ∧
    out.pages.flatten = (K.filter (matchPredicate id (dictType L) o)).map Reply.bulk ∧
    out.final.srv.dbs = s.srv.dbs.set d L ∧
    ScanInv c d L (hs.drop (scanCalls L.length o.count.toNat)) out.final := by
  intro K out
  have hcount : 0 < o.count := parse_count_pos' hp
  have hKlen : K.length = L.length := by
    show (sortBy bytesLt (L.map Prod.fst)).length = _
    rw [length_sortBy, List.length_map]
  let I : List Hint → Sys → Prop := fun hs' s' =>
    ScanInv c d L hs' s' ∧ hs'.length ≤ hs.length ∧ (hs'.length = hs.length → s'.srv.dbs = s.srv.dbs) ∧
    (hs'.length < hs.length → s'.srv.dbs = s.srv.dbs.set d L)
  have hstep : ∀ h hs' (cur : Int) s', I (h :: hs') s' → 0 ≤ cur → (cur = 0 ∨ cur < K.length) →
      (lastReply (stepEv s' (request mode c (scanReq nameB opts cur) h)) c).bind decodeScanReply =
        some ((scanPage K id (dictType L) cur o).1, ((scanPage K id (dictType L) cur o).2).map Reply.bulk) ∧
      I hs' (stepEv s' (request mode c (scanReq nameB opts cur) h)) := by
    intro h hs' cur s' hI hc hr
    obtain ⟨hS, hle, heq, hlt⟩ := hI
    have hst := scan_step mode c d nameB opts o L hname hp hbound h hs' cur s' hS hc hr
    refine ⟨hst.1, hst.2, ?_, ?_, ?_⟩
    · simp only [List.length_cons] at hle; omega
    · intro e; simp only [List.length_cons] at hle; omega
    · intro _
      -- the database list after the step
      obtain ⟨hinv', htx', hpub', hcl', hdb', hL'⟩ := hS
      have hev := scan_event mode c nameB (intBytes cur) opts s' h hname htx' hpub' hcl'
      simp only at hev
      have hdbs := hev.2.1
      have hint : Conv.int (intBytes cur) = .ok cur := convInt_intBytes hc (by omega)
      have hreach : scanReaches (intBytes cur) opts = true := by
        have hl : opts.length % 2 = 0 := ((parse_ok_iff true opts {}).mp ⟨o, hp⟩).1
        simp [scanReaches, hl, hint]
      rw [hreach, hdb'] at hdbs
      simp only [if_true] at hdbs
      have hLh : (Db.purge ⟨s'.srv.dbs.getD d [], h.time⟩).dict = L := hL' h (by simp)
      show (stepEv s' (request mode c (nameB :: intBytes cur :: opts) h)).srv.dbs = _
      rw [hdbs, hLh]
      simp only [List.length_cons] at hle heq hlt
      by_cases hh : hs'.length + 1 = hs.length
      · rw [heq hh]
      · rw [hlt (by omega), set_set_same]
  have hI0 : I hs s := ⟨⟨hinv, htx, hpub, hcl, hdb, hL⟩, Nat.le_refl _, fun _ => rfl, fun h => absurd h (Nat.lt_irrefl _)⟩
  have hmain := iter_complete mode c (scanReq nameB opts) I K id (dictType L) o (fun p => p.map Reply.bulk) hcount
    hstep hs s hI0 (by rw [hKlen]; exact hlen)
  have hpc := scanPages_complete K id (dictType L) o hcount
  rw [hKlen] at hmain hpc
  obtain ⟨hpages, hfin, hIf⟩ := hmain
  have h1 := scanCalls_spec L.length o.count.toNat (by omega)
  refine ⟨hfin, ?_, ?_, ?_, ?_, hIf.1⟩
  · rw [hpages, hKlen]
  · rw [hpages, List.length_map, hpc.2]
  · rw [hpages, ← List.map_flatten, hpc.1]
  · apply hIf.2.2.2
    rw [List.length_drop]
    omega

/-! ## 7. SSCAN / HSCAN / ZSCAN through the generic runner -/

/-- what distinguishes the three keyed variants: the stored type, the element list the cursor indexes
(computed from the `CommandItem` of the key), the byte string MATCH looks at, and the rendering of a page -/
structure KScan where
  name : String
  T : Ty
  α : Type
  elems : CI → List α
  keyOf : α → Bytes
  render : Nat → CI → List α → List Reply
  body : Body

namespace KScan

/-- the registered signature: `(Key(T), Int, *[bytes, bytes])` -/
def sig (K : KScan) : Sig := ⟨K.name, [.key (some K.T) .unspecified, .int], [.bytes, .bytes], false, 2, 0, true⟩

/-- the variant is the command registered under its name -/
structure Ok (K : KScan) : Prop where
  find : SigTable.find K.name = some K.sig
  regular : Cmd.regular K.name = some K.body
  notScript : scriptNames.contains K.name = false
  body_eq : ∀ (ctx : Ctx) (cursor : Int) (rest : List Arg) (ci : CI),
    K.body ctx (.key 0 :: .int cursor :: rest) [ci] =
      match scanReply (K.elems ci) K.keyOf (fun _ => []) false cursor (Cmd.rawArgs rest) (K.render ctx.version ci) with
      | .ok r => ret r [ci]
      | .error e => .error e
  render_nil : ∀ v ci, K.render v ci [] = []
  render_append : ∀ v ci (a b : List K.α), K.render v ci (a ++ b) = K.render v ci a ++ K.render v ci b
  missing : ∀ key, K.elems (ciFor K.T key none) = []

end KScan

def sscanK : KScan :=
  ⟨"sscan", .set, Bytes, fun ci => sortBy bytesLt (setOf ci), id, fun _ _ p => p.map .bulk, Cmd.sscan⟩

def hscanK : KScan :=
  ⟨"hscan", .hash, Bytes, fun ci => sortBy bytesLt ((hashOf ci).map Prod.fst), id,
    fun _ ci p => p.flatMap fun f => [.bulk f, .bulk (((hashOf ci).lookup f).getD [])], Cmd.hscan⟩

def zscanK : KScan :=
  ⟨"zscan", .zset, Bytes × Dbl, fun ci => sortBy (fun a b => bytesLt a.1 b.1) (zsetOf ci).bylex, Prod.fst,
    fun v _ p => p.flatMap fun x => [.bulk x.1, .bulk (encodeFloat v x.2 false)], Cmd.zscan⟩

theorem sscanK_ok : sscanK.Ok :=
  ⟨rfl, rfl, by decide, fun _ _ _ _ => rfl, fun _ _ => rfl, fun _ _ a b => List.map_append, fun _ => rfl⟩
theorem hscanK_ok : hscanK.Ok :=
  ⟨rfl, rfl, by decide, fun _ _ _ _ => rfl, fun _ _ => rfl, fun _ _ a b => List.flatMap_append, fun _ => rfl⟩
theorem zscanK_ok : zscanK.Ok :=
  ⟨rfl, rfl, by decide, fun _ _ _ _ => rfl, fun _ _ => rfl, fun _ _ a b => List.flatMap_append, fun _ => rfl⟩

/-- the reply to `xSCAN key cb opts…` when `item` is what is stored (and not expired) under the key -/
def kscanAnswer (K : KScan) (version : Nat) (item : Option Item) (key cb : Bytes) (opts : List Bytes) : Reply :=
  if opts.length % 2 = 1 then .err (strBytes K.sig.wrongArgs) else
    match Conv.int cb with
    | .error e => .err (strBytes e)
    | .ok cursor =>
      if (match item with | some it => it.value.ty != K.T | none => false) then .err (strBytes Msgs.WRONGTYPE_MSG)
      else
        match scanReply (K.elems (ciFor K.T key item)) K.keyOf (fun _ => []) false cursor opts
            (K.render version (ciFor K.T key item)) with
        | .ok r => r
        | .error e => .err (strBytes e)

theorem ciFor_clean (T : Ty) (k : Bytes) (item : Option Item) : (ciFor T k item).Clean := by
  cases item <;> exact ⟨rfl, rfl⟩

/-- **The keyed variants through `runRegular`.**  The only access to the database is the look-up of the key (after the
cursor was converted); nobody is notified, no hint is consumed, no model fault. -/
theorem runRegular_kscan (K : KScan) (hK : K.Ok) (ctx : Ctx) (key cb : Bytes) (opts : List Bytes) (db : Db) :
    (runRegular K.sig K.body ctx none (key :: cb :: opts) db).db =
      (if scanReaches cb opts then (db.get key).1 else db) ∧
    (runRegular K.sig K.body ctx none (key :: cb :: opts) db).reply =
      kscanAnswer K ctx.version (db.get key).2 key cb opts ∧
    (runRegular K.sig K.body ctx none (key :: cb :: opts) db).notified = [] ∧
    (runRegular K.sig K.body ctx none (key :: cb :: opts) db).picksUsed = 0 ∧
    (runRegular K.sig K.body ctx none (key :: cb :: opts) db).fault = none := by
  unfold runRegular kscanAnswer scanReaches
  rw [apply_keyscan K.sig K.T rfl rfl]
  by_cases hodd : opts.length % 2 = 1
  · have h0 : ¬ opts.length % 2 = 0 := by omega
    rw [if_pos hodd, if_pos hodd]
    simp [h0]
  · have h0 : opts.length % 2 = 0 := by omega
    rw [if_neg hodd, if_neg hodd]
    simp only [h0, decide_true, Bool.true_and]
    cases hc : Conv.int cb with
    | error e => simp
    | ok cursor =>
      simp only [if_true]
      cases hi : (db.get key).2 with
      | none =>
        simp only [Bool.false_eq_true, if_false, hK.body_eq, HashSet.rawArgs_map]
        cases hr : scanReply (K.elems (ciFor K.T key none)) K.keyOf (fun _ => []) false cursor opts
            (K.render ctx.version (ciFor K.T key none)) with
        | ok r =>
          simp only [ret, writebackPure_clean (cis := [ciFor K.T key none])
            (fun c hc => by rw [List.mem_singleton.1 hc]; exact ciFor_clean _ _ _)]
          and_intros <;> first | rfl | trivial
        | error e =>
          have hm : e.startsWith "model:" = false := scanReply_error_not_model _ _ _ _ _ _ _ e hr
          simp only [writebackPure_clean (cis := [ciFor K.T key none])
            (fun c hc => by rw [List.mem_singleton.1 hc]; exact ciFor_clean _ _ _), hm]
          and_intros <;> first | rfl | trivial
      | some it =>
        simp only
        by_cases hty : it.value.ty = K.T
        · have hne : (it.value.ty != K.T) = false := by simp [hty]
          simp only [hne, Bool.false_eq_true, if_false, hK.body_eq, HashSet.rawArgs_map]
          cases hr : scanReply (K.elems (ciFor K.T key (some it))) K.keyOf (fun _ => []) false cursor opts
              (K.render ctx.version (ciFor K.T key (some it))) with
          | ok r =>
            simp only [ret, writebackPure_clean (cis := [ciFor K.T key (some it)])
              (fun c hc => by rw [List.mem_singleton.1 hc]; exact ciFor_clean _ _ _)]
            and_intros <;> first | rfl | trivial
          | error e =>
            have hm : e.startsWith "model:" = false := scanReply_error_not_model _ _ _ _ _ _ _ e hr
            simp only [writebackPure_clean (cis := [ciFor K.T key (some it)])
              (fun c hc => by rw [List.mem_singleton.1 hc]; exact ciFor_clean _ _ _), hm]
            and_intros <;> first | rfl | trivial
        · have hne : (it.value.ty != K.T) = true := by simp [hty]
          simp only [hne, if_true]
          and_intros <;> first | rfl | trivial

/-! ## 8. One SSCAN / HSCAN / ZSCAN request at system level -/

theorem afterRegular_quiet (s : Sys) (d : Nat) (o : RunOut) (h1 : o.notified = []) (h2 : o.fault = none)
    (h3 : o.picksUsed = 0) : s.afterRegular d o = s.setDbS d o.db := by
  unfold Sys.afterRegular
  rw [h1, h2, h3]
  rfl

/-- the state after a keyed scan request was run by `_run_command`: the key was looked up (and lazily deleted when
expired) iff the request got past the conversion of the cursor -/
def afterKScan (s : Sys) (d : Nat) (key cb : Bytes) (opts : List Bytes) : Sys :=
  if scanReaches cb opts then s.setDbS d ((s.dbAt d).get key).1 else s

theorem runCommand_kscan (K : KScan) (hK : K.Ok) (mode : Mode) (c : Nat) (key cb : Bytes) (opts : List Bytes)
    (s : Sys) (hpub : (s.conn c).pubsub = 0) :
    runCommand mode c K.sig (key :: cb :: opts) false s =
      (some (kscanAnswer K s.srv.version ((s.dbAt (s.conn c).db).get key).2 key cb opts),
        afterKScan s (s.conn c).db key cb opts) := by
  unfold runCommand
  have hns : scriptNames.contains K.sig.name = false := hK.notScript
  rw [hns]
  simp only [Bool.false_eq_true, if_false]
  rw [runWith_regular_run _ mode c K.sig _ false (body := K.body) hK.regular s (Sys.refuses_of_unsubscribed K.sig hpub)]
  have hg : runGate K.sig false (decide ((s.conn c).pubsub > 0)) = none := by
    rw [hpub]; simp [runGate, KScan.sig]
  have ho : s.regularOut c K.sig K.body (key :: cb :: opts) false =
      runRegular K.sig K.body
        { version := s.srv.version, time := s.srv.time, dbnum := (s.conn c).db, inTx := (s.conn c).inTx, picks := s.picks }
        none (key :: cb :: opts) (s.dbAt (s.conn c).db) := by
    unfold Sys.regularOut; rw [hg]; rfl
  rw [ho]
  obtain ⟨h1, h2, h3, h4, h5⟩ := runRegular_kscan K hK
    { version := s.srv.version, time := s.srv.time, dbnum := (s.conn c).db, inTx := (s.conn c).inTx, picks := s.picks }
    key cb opts (s.dbAt (s.conn c).db)
  rw [afterRegular_quiet _ _ _ h3 h5 h4, h1, h2]
  unfold afterKScan
  split
  · rfl
  · rw [setDbS_dbAt]

/-- the state after one keyed scan request processed by `_process_command` -/
def kscanStep (K : KScan) (s : Sys) (c : Nat) (key cb : Bytes) (opts : List Bytes) : Sys :=
  markDead ((afterKScan (prologue s) (s.conn c).db key cb opts).emitS c
    (kscanAnswer K (prologue s).srv.version (((prologue s).dbAt (s.conn c).db).get key).2 key cb opts)) c

/-- **SSCAN / HSCAN / ZSCAN through `_process_command`, closed form** -/
theorem processCommand_kscan (K : KScan) (hK : K.Ok) (mode : Mode) (c : Nat) (nameB key cb : Bytes)
    (opts : List Bytes) (s : Sys)
    (hname : lookupSig nameB = some K.sig) (htx : (s.conn c).tx = none) (hpub : (s.conn c).pubsub = 0) :
    processCommand mode c (nameB :: key :: cb :: opts) s = ((), kscanStep K s c key cb opts) := by
  rw [processCommand_run mode c nameB (key :: cb :: opts) K.sig s hname (by simp [Sig.checkArity, KScan.sig]) htx]
  have hpub' : ((prologue s).conn c).pubsub = 0 := by rw [prologue_conn_pubsub, hpub]
  rw [finish_run c _ _ _ _ (runCommand_kscan K hK mode c key cb opts _ hpub'), prologue_conn_db]
  rfl

theorem refresh_version (s : Sys) : s.refresh.srv.version = s.srv.version := by
  simp only [Sys.refresh, nextClock_srv]

theorem prologue_version (s : Sys) : (prologue s).srv.version = s.srv.version := by
  unfold prologue
  rw [refresh_version]
  exact cleanupClosed_proj (fun s => s.srv.version) (fun _ _ => rfl) (fun _ => rfl) s

theorem afterKScan_out (s : Sys) (d key cb opts) : (afterKScan s d key cb opts).out = s.out := by
  unfold afterKScan; split <;> rfl
theorem afterKScan_conn (s : Sys) (d key cb opts c) : (afterKScan s d key cb opts).conn c = s.conn c := by
  unfold afterKScan; split <;> rfl
theorem afterKScan_time (s : Sys) (d key cb opts) : (afterKScan s d key cb opts).srv.time = s.srv.time := by
  unfold afterKScan; split <;> rfl
theorem afterKScan_version (s : Sys) (d key cb opts) : (afterKScan s d key cb opts).srv.version = s.srv.version := by
  unfold afterKScan; split <;> rfl
theorem afterKScan_fault (s : Sys) (d key cb opts) : (afterKScan s d key cb opts).fault = s.fault := by
  unfold afterKScan; split <;> rfl
theorem afterKScan_crashed (s : Sys) (d key cb opts) : (afterKScan s d key cb opts).crashed = s.crashed := by
  unfold afterKScan; split <;> rfl
theorem afterKScan_dbs (s : Sys) (d key cb opts) : (afterKScan s d key cb opts).srv.dbs =
    if scanReaches cb opts then s.srv.dbs.set d ((s.dbAt d).get key).1.dict else s.srv.dbs := by
  unfold afterKScan; split <;> rfl

/-- **One SSCAN / HSCAN / ZSCAN event.**  The reply is `kscanAnswer` on the item stored (and not expired at the
clock reading of the request) under the key in the selected database; the only possible change of any database
is the lazy deletion of that key when it is expired. -/
theorem kscan_event (K : KScan) (hK : K.Ok) (mode : Mode) (c : Nat) (nameB key cb : Bytes) (opts : List Bytes)
    (s : Sys) (h : Hint)
    (hname : lookupSig nameB = some K.sig) (htx : (s.conn c).tx = none) (hpub : (s.conn c).pubsub = 0)
    (hclosed : (s.conn c).closed = false) :
    let s' := stepEv s (request mode c (nameB :: key :: cb :: opts) h)
    let db : Db := ⟨s.srv.dbs.getD (s.conn c).db [], h.time⟩
    s'.out = [(c, kscanAnswer K s.srv.version (db.get key).2 key cb opts)] ∧
    s'.srv.dbs = (if scanReaches cb opts then s.srv.dbs.set (s.conn c).db (db.get key).1.dict else s.srv.dbs) ∧
    s'.srv.time = h.time ∧ s'.srv.version = s.srv.version ∧ s'.fault = none ∧ s'.crashed = none ∧
    (s'.conn c).db = (s.conn c).db ∧ (s'.conn c).tx = none ∧ (s'.conn c).pubsub = 0 ∧
    (s'.conn c).closed = false := by
  intro s' db
  have e : s' = kscanStep K (start s h) c key cb opts := by
    show stepEv s _ = _
    rw [stepEv_request, processCommand_kscan K hK mode c nameB key cb opts (start s h) hname htx hpub]
  have hcr : (prologue (start s h)).crashed = none := by rw [prologue_crashed]; rfl
  have hv : (prologue (start s h)).srv.version = s.srv.version := by rw [prologue_version]; rfl
  have e2 : s' = (afterKScan (prologue (start s h)) (s.conn c).db key cb opts).emitS c
      (kscanAnswer K s.srv.version (db.get key).2 key cb opts) := by
    rw [e]; unfold kscanStep
    rw [markDead_of_none c (by rw [emitS_crashed, afterKScan_crashed, hcr]), start_conn, prologue_start_dbAt, hv]
  have hcl : ((afterKScan (prologue (start s h)) (s.conn c).db key cb opts).conn c).closed = false := by
    rw [afterKScan_conn, prologue_conn_closed, start_conn, hclosed]
  refine ⟨?_, ?_, ?_, ?_, ?_, ?_, ?_, ?_, ?_, ?_⟩
  · rw [e2, Sys.emitS_out, hcl, afterKScan_out, prologue_out]; rfl
  · rw [e2, Sys.emitS_srv, afterKScan_dbs, prologue_start_dbAt, prologue_dbs]; rfl
  · rw [e2, Sys.emitS_srv, afterKScan_time, prologue_time]; rfl
  · rw [e2, Sys.emitS_srv, afterKScan_version, hv]
  · rw [e2, emitS_fault, afterKScan_fault, prologue_fault (start s h) (t := h.time) (r := h.clocks) rfl]; rfl
  · rw [e2, emitS_crashed, afterKScan_crashed, hcr]
  · rw [e2, Sys.emitS_conn, afterKScan_conn, prologue_conn_db, start_conn]
  · rw [e2, Sys.emitS_conn, afterKScan_conn, prologue_conn_tx, start_conn, htx]
  · rw [e2, Sys.emitS_conn, afterKScan_conn, prologue_conn_pubsub, start_conn, hpub]
  · rw [e2, Sys.emitS_conn, hcl]

/-! ## 9. The SSCAN / HSCAN / ZSCAN iteration -/

theorem get_live_entry {db : Db} {k : Bytes} {it : Item} (h : db.dict.lookup k = some it)
    (he : db.expired it = false) : db.get k = (db, some it) := by
  unfold Db.get; rw [h]; simp [he]

theorem get_absent {db : Db} {k : Bytes} (h : db.dict.lookup k = none) : db.get k = (db, none) := by
  unfold Db.get; rw [h]

/-- the deadline of `it` (if any) has not passed at clock `t` -/
def LiveAt (it : Item) (t : Int) : Prop := ∀ e, it.expireat = some e → t ≤ e

theorem expired_false_of_liveAt {it : Item} {t : Int} (h : LiveAt it t) (dict : Dict) :
    Db.expired ⟨dict, t⟩ it = false := by
  unfold Db.expired
  cases he : it.expireat with
  | none => rfl
  | some e => have := h e he; simp only [decide_eq_false_iff_not]; omega

theorem render_flatten (K : KScan) (hK : K.Ok) (v : Nat) (ci : CI) (ps : List (List K.α)) :
    (ps.map (K.render v ci)).flatten = K.render v ci ps.flatten := by
  induction ps with
  | nil => simp [hK.render_nil]
  | cons p ps ih => simp only [List.map_cons, List.flatten_cons, ih, hK.render_append]

/-- a well-formed keyed scan request on a key holding the right type is answered with one `scanPage` -/
theorem kscanAnswer_decode (K : KScan) (hK : K.Ok) (v : Nat) (it : Item) (hty : it.value.ty = K.T) (key : Bytes)
    (cur : Int) (opts : List Bytes) (o : ScanOpts)
    (hp : parseScanOpts false opts {} = .ok o) (hc : 0 ≤ cur) (hint : Conv.int (intBytes cur) = .ok cur) :
    decodeScanReply (kscanAnswer K v (some it) key (intBytes cur) opts) =
      some ((scanPage (K.elems (ciFor K.T key (some it))) K.keyOf (fun _ => []) cur o).1,
        K.render v (ciFor K.T key (some it))
          (scanPage (K.elems (ciFor K.T key (some it))) K.keyOf (fun _ => []) cur o).2) := by
  have hl : opts.length % 2 = 0 := ((parse_ok_iff false opts {}).mp ⟨o, hp⟩).1
  unfold kscanAnswer
  rw [if_neg (by omega), hint]
  have hne : (it.value.ty != K.T) = false := by simp [hty]
  simp only [hne, Bool.false_eq_true, if_false]
  obtain ⟨r, hr⟩ := scanReply_ok (K.elems (ciFor K.T key (some it))) K.keyOf (fun _ => []) false cur opts
    (K.render v (ciFor K.T key (some it))) o hc hp
  rw [hr]
  exact decode_scanReply _ _ _ _ _ _ _ o hc hp (hK.render_nil _ _) r hr

/-- the request `xSCAN key cursor opts…` -/
def kscanReq (nameB key : Bytes) (opts : List Bytes) (cur : Int) : List Bytes := nameB :: key :: intBytes cur :: opts

/-- the invariant of a keyed iteration: connection `c` is on database `d`, whose dictionaries are `dbs` and hold the
item `it` under `key`, not expired at any of the readings to come; the emulated version is `v` -/
def KInv (c d : Nat) (key : Bytes) (it : Item) (v : Nat) (dbs : List Dict) (hs : List Hint) (s : Sys) : Prop :=
  (s.conn c).tx = none ∧ (s.conn c).pubsub = 0 ∧ (s.conn c).closed = false ∧ (s.conn c).db = d ∧
  s.srv.version = v ∧ s.srv.dbs = dbs ∧ (dbs.getD d []).lookup key = some it ∧ ∀ h ∈ hs, LiveAt it h.time

theorem kscan_step (K : KScan) (hK : K.Ok) (mode : Mode) (c d : Nat) (nameB key : Bytes) (opts : List Bytes)
    (o : ScanOpts) (it : Item) (v : Nat) (dbs : List Dict)
    (hname : lookupSig nameB = some K.sig) (hp : parseScanOpts false opts {} = .ok o)
    (hty : it.value.ty = K.T) (hbound : (K.elems (ciFor K.T key (some it))).length ≤ 2 ^ 63)
    (h : Hint) (hs : List Hint) (cur : Int) (s : Sys) (hI : KInv c d key it v dbs (h :: hs) s) (hc : 0 ≤ cur)
    (hr : cur = 0 ∨ cur < (K.elems (ciFor K.T key (some it))).length) :
    (lastReply (stepEv s (request mode c (kscanReq nameB key opts cur) h)) c).bind decodeScanReply =
      some ((scanPage (K.elems (ciFor K.T key (some it))) K.keyOf (fun _ => []) cur o).1,
        K.render v (ciFor K.T key (some it))
          (scanPage (K.elems (ciFor K.T key (some it))) K.keyOf (fun _ => []) cur o).2) ∧
    KInv c d key it v dbs hs (stepEv s (request mode c (kscanReq nameB key opts cur) h)) := by
  obtain ⟨htx, hpub, hcl, hdb, hv, hdbs, hlook, hlive⟩ := hI
  have hev := kscan_event K hK mode c nameB key (intBytes cur) opts s h hname htx hpub hcl
  simp only at hev
  obtain ⟨hout, hdbs', htime, hver, hfault, hcr, h1, h2, h3, h4⟩ := hev
  have hint : Conv.int (intBytes cur) = .ok cur := convInt_intBytes hc (by omega)
  rw [hdb, hdbs] at hout hdbs'
  have hget : (⟨dbs.getD d [], h.time⟩ : Db).get key = (⟨dbs.getD d [], h.time⟩, some it) :=
    get_live_entry hlook (expired_false_of_liveAt (hlive h (by simp)) _)
  rw [hget] at hout hdbs'
  constructor
  · show (lastReply (stepEv s (request mode c (nameB :: key :: intBytes cur :: opts) h)) c).bind decodeScanReply = _
    rw [lastReply_single _ c _ hout]
    simp only [Option.bind_some]
    rw [hv, kscanAnswer_decode K hK v it hty key cur opts o hp hc hint]
  · show KInv c d key it v dbs hs (stepEv s (request mode c (nameB :: key :: intBytes cur :: opts) h))
    refine ⟨h2, h3, h4, by rw [h1, hdb], by rw [hver, hv], ?_, hlook, fun h' hh' => hlive h' (by simp [hh'])⟩
    rw [hdbs']
    split
    · exact set_getD_self _ _ _
    · rfl

/-- **A complete SSCAN / HSCAN / ZSCAN iteration with no other event in between**, over a key that holds a value
of the right type and does not expire during the iteration. -/
theorem kscan_iteration (K : KScan) (hK : K.Ok) (mode : Mode) (c d : Nat) (nameB key : Bytes) (opts : List Bytes)
    (o : ScanOpts) (it : Item) (hs : List Hint) (s : Sys)
    (hname : lookupSig nameB = some K.sig) (hp : parseScanOpts false opts {} = .ok o)
    (htx : (s.conn c).tx = none) (hpub : (s.conn c).pubsub = 0)
    (hcl : (s.conn c).closed = false) (hdb : (s.conn c).db = d)
    (hlook : (s.srv.dbs.getD d []).lookup key = some it) (hty : it.value.ty = K.T)
    (hlive : ∀ h ∈ hs, LiveAt it h.time)
    (hbound : (K.elems (ciFor K.T key (some it))).length ≤ 2 ^ 63)
    (hlen : scanCalls (K.elems (ciFor K.T key (some it))).length o.count.toNat ≤ hs.length) :
    let ci := ciFor K.T key (some it)
    let E := K.elems ci
    let out := iter mode c (kscanReq nameB key opts) hs 0 s
    out.finished = true ∧
    out.pages = (scanPages E K.keyOf (fun _ => []) o (E.length + 1) 0).map (K.render s.srv.version ci) ∧
    out.pages.length = scanCalls E.length o.count.toNat ∧
    out.pages.flatten = K.render s.srv.version ci (E.filter (matchPredicate K.keyOf (fun _ => []) o)) ∧
    out.final.srv.dbs = s.srv.dbs ∧
    KInv c d key it s.srv.version s.srv.dbs (hs.drop (scanCalls E.length o.count.toNat)) out.final := by
  intro ci E out
  have hcount : 0 < o.count := parse_count_pos' hp
  have hstep := fun h hs' (cur : Int) s' =>
    kscan_step K hK mode c d nameB key opts o it s.srv.version s.srv.dbs hname hp hty hbound h hs' cur s'
  have hI0 : KInv c d key it s.srv.version s.srv.dbs hs s := ⟨htx, hpub, hcl, hdb, rfl, rfl, hlook, hlive⟩
  have hmain := iter_complete mode c (kscanReq nameB key opts) (KInv c d key it s.srv.version s.srv.dbs) E K.keyOf
    (fun _ => []) o (K.render s.srv.version ci) hcount hstep hs s hI0 hlen
  have hpc := scanPages_complete E K.keyOf (fun _ => []) o hcount
  obtain ⟨hpages, hfin, hIf⟩ := hmain
  refine ⟨hfin, hpages, ?_, ?_, hIf.2.2.2.2.2.1, hIf⟩
  · rw [hpages, List.length_map, hpc.2]
  · rw [hpages, render_flatten K hK, hpc.1]

/-! ## 10. Error replies at command level -/

theorem scanReply_ok_shape {α} (elems : List α) keyOf typeName (t : Bool) (cursor : Int) opts render (r : Reply)
    (h : scanReply elems keyOf typeName t cursor opts render = .ok r) : r.isErr = false := by
  unfold scanReply at h
  split at h
  · cases h
  · split at h
    · cases h
    · split at h
      · cases h
      · split at h <;> (cases h; rfl)

/-- `_scan` run on well-typed input, as a reply -/
def replyOf (res : Except Err Reply) : Reply :=
  match res with
  | .ok r => r
  | .error e => .err (strBytes e)

theorem replyOf_isErr {α} (elems : List α) keyOf typeName (t : Bool) (cursor : Int) opts render :
    (replyOf (scanReply elems keyOf typeName t cursor opts render)).isErr = true ↔
      (cursor < 0 ∨ opts.length % 2 = 1 ∨ allPairsOk t opts = false) := by
  rw [← scan_errors_iff elems keyOf typeName t cursor opts render]
  cases h : scanReply elems keyOf typeName t cursor opts render with
  | ok r => simp [replyOf, scanReply_ok_shape _ _ _ _ _ _ _ r h]
  | error e => simp [replyOf, Reply.isErr]

theorem scanAnswer_eq (D : Db) (cb : Bytes) (opts : List Bytes) :
    scanAnswer D cb opts =
      if opts.length % 2 = 1 then .err (strBytes scanSig.wrongArgs) else
        match Conv.int cb with
        | .error e => .err (strBytes e)
        | .ok cursor => replyOf (scanResult D cursor opts) := by
  unfold scanAnswer replyOf
  split
  · rfl
  · cases Conv.int cb <;> rfl

theorem kscanAnswer_eq (K : KScan) (v : Nat) (item : Option Item) (key cb : Bytes) (opts : List Bytes) :
    kscanAnswer K v item key cb opts =
      if opts.length % 2 = 1 then .err (strBytes K.sig.wrongArgs) else
        match Conv.int cb with
        | .error e => .err (strBytes e)
        | .ok cursor =>
          if (match item with | some it => it.value.ty != K.T | none => false) then .err (strBytes Msgs.WRONGTYPE_MSG)
          else replyOf (scanReply (K.elems (ciFor K.T key item)) K.keyOf (fun _ => []) false cursor opts
            (K.render v (ciFor K.T key item))) := by
  unfold kscanAnswer replyOf
  split
  · rfl
  · cases Conv.int cb with
    | error e => rfl
    | ok c => rfl

/-- the error cases of `_scan`, as replies -/
theorem replyOf_errors {α} (elems : List α) keyOf typeName (t : Bool) (cursor : Int) opts render :
    (cursor < 0 → replyOf (scanReply elems keyOf typeName t cursor opts render) =
      .err (strBytes Msgs.INVALID_CURSOR_MSG)) ∧
    (∀ pre a v rest, opts = pre ++ a :: v :: rest → 0 ≤ cursor → rest.length % 2 = 0 →
      pre.length % 2 = 0 → allPairsOk t pre = true → optPairOk t a v = false →
      replyOf (scanReply elems keyOf typeName t cursor opts render) = .err (strBytes (optPairErr a v))) := by
  refine ⟨fun h => ?_, fun pre a v rest e hc hr hp hok hbad => ?_⟩
  · rw [scan_errors_cursor elems keyOf typeName t cursor opts render h]; rfl
  · rw [e, scan_errors_bad_option elems keyOf typeName t cursor pre a v rest render hc hr hp hok hbad]; rfl

/-! ## 11. Interleaved writes: what a cursor that is an index into the sorted key list guarantees -/

/-- what one SCAN call sees: the sorted list of live keys and their types at that moment -/
structure View where
  keys : List Bytes
  ty : Bytes → Bytes

/-- the cursor dialogue when the key list may be different at every call: `(returned cursor, page)` per call,
until cursor 0 comes back or the views run out -/
def pureDialogue (o : ScanOpts) : List View → Int → List (Int × List Bytes)
  | [], _ => []
  | v :: rest, cur =>
    let r := scanPage v.keys id v.ty cur o
    (r.1, r.2) :: (if r.1 = 0 then [] else pureDialogue o rest r.1)

/-- the number of keys smaller than `k`: the index of `k` in the sorted list -/
def rank (k : Bytes) (keys : List Bytes) : Nat := (keys.filter (fun x => bytesLt x k)).length

theorem sorted_rank {k : Bytes} : ∀ {K : List Bytes}, K.Pairwise (fun a b => bytesLt a b = true) → k ∈ K →
    K[rank k K]? = some k
  | [], _, h => by cases h
  | x :: xs, hs, h => by
    rw [List.pairwise_cons] at hs
    by_cases hx : x = k
    · subst hx
      have : (x :: xs).filter (fun y => bytesLt y x) = [] := by
        rw [List.filter_eq_nil_iff]
        intro y hy
        rcases List.mem_cons.1 hy with rfl | hy
        · simp [bytesLt_irrefl]
        · simp [bytesLt_asymm (hs.1 y hy)]
      simp [rank, this]
    · have hk : k ∈ xs := by
        rcases List.mem_cons.1 h with e | e
        · exact absurd e.symm hx
        · exact e
      have hlt : bytesLt x k = true := hs.1 k hk
      have : rank k (x :: xs) = rank k xs + 1 := by simp [rank, List.filter_cons, hlt]
      rw [this, List.getElem?_cons_succ]
      exact sorted_rank hs.2 hk

/-- an element at position `pos` with `cur ≤ pos < cur + COUNT` that passes the filters is on the page -/
theorem page_mem (K : List Bytes) (ty : Bytes → Bytes) (o : ScanOpts) (cur pos : Nat) (k : Bytes)
    (hk : K[pos]? = some k) (h1 : cur ≤ pos) (h2 : (pos : Int) < cur + o.count)
    (hm : matchPredicate id ty o k = true) : k ∈ (scanPage K id ty cur o).2 := by
  rw [scanPage_snd, List.mem_filter]
  refine ⟨?_, hm⟩
  rw [List.mem_iff_getElem?]
  refine ⟨pos - cur, ?_⟩
  rw [List.getElem?_take, if_pos (by omega), List.getElem?_drop, Int.toNat_natCast]
  have : cur + (pos - cur) = pos := by omega
  rw [this, hk]

/-- **What is guaranteed under interleaved writes.**  If at every call `k` is in the (sorted) list and passes the
filters, and the number of keys smaller than `k` never decreases from one call to a later one, then a dialogue
that reaches cursor 0 returns `k` at least once. -/
theorem cover_from (o : ScanOpts) (hc : 0 < o.count) (k : Bytes) :
    ∀ (vs : List View) (cur : Nat),
      (∀ v ∈ vs, v.keys.Pairwise (fun a b => bytesLt a b = true)) →
      (∀ v ∈ vs, k ∈ v.keys) → (∀ v ∈ vs, matchPredicate id v.ty o k = true) →
      vs.Pairwise (fun a b => rank k a.keys ≤ rank k b.keys) →
      (∀ v ∈ vs.head?, cur ≤ rank k v.keys) →
      ((pureDialogue o vs cur).getLast?).map Prod.fst = some 0 →
      ∃ p ∈ pureDialogue o vs cur, k ∈ p.2
  | [], cur, _, _, _, _, _, hfin => by simp [pureDialogue] at hfin
  | v :: rest, cur, hsort, hmem, hmatch, hrank, hcur, hfin => by
    have hpos := sorted_rank (hsort v (by simp)) (hmem v (by simp))
    have hle : cur ≤ rank k v.keys := hcur v (by simp)
    have hlt : rank k v.keys < v.keys.length := by
      rcases Nat.lt_or_ge (rank k v.keys) v.keys.length with h | h
      · exact h
      · rw [List.getElem?_eq_none h] at hpos; cases hpos
    by_cases hwin : (rank k v.keys : Int) < cur + o.count
    · exact ⟨_, by simp [pureDialogue], page_mem v.keys v.ty o cur _ k hpos hle hwin (hmatch v (by simp))⟩
    · -- the window ends before `k`: the dialogue goes on with cursor `cur + COUNT`
      have hfst : (scanPage v.keys id v.ty cur o).1 = ((cur + o.count.toNat : Nat) : Int) := by
        rw [scanPage_fst, if_neg (by omega)]; omega
      have hne : (scanPage v.keys id v.ty cur o).1 ≠ 0 := by rw [hfst]; omega
      simp only [pureDialogue, hne, if_false] at hfin ⊢
      rw [List.pairwise_cons] at hrank
      cases rest with
      | nil => simp [pureDialogue, hne] at hfin
      | cons v' rest' =>
        have hfin' : ((pureDialogue o (v' :: rest') (scanPage v.keys id v.ty cur o).1).getLast?).map Prod.fst = some 0 := by
          have hnil : pureDialogue o (v' :: rest') (scanPage v.keys id v.ty cur o).1 ≠ [] := by simp [pureDialogue]
          obtain ⟨y, ys, e⟩ := List.exists_cons_of_ne_nil hnil
          rw [e] at hfin ⊢
          simpa using hfin
        rw [hfst] at hfin' ⊢
        have := cover_from o hc k (v' :: rest') (cur + o.count.toNat)
          (fun w hw => hsort w (by simp [hw])) (fun w hw => hmem w (by simp [hw]))
          (fun w hw => hmatch w (by simp [hw])) hrank.2
          (by
            intro w hw
            simp only [List.head?_cons, Option.mem_def, Option.some.injEq] at hw
            subst hw
            have := hrank.1 v' (by simp)
            omega) hfin'
        obtain ⟨p, hp, hkp⟩ := this
        exact ⟨p, List.mem_cons_of_mem _ hp, hkp⟩

/-- the dialogue against the server when ANYTHING may happen between two calls: call `j` is made from the arbitrary
pre-state `calls[j].1` (with the hints `calls[j].2`) and with the cursor that call `j-1` returned -/
def sysDialogue (mode : Mode) (c : Nat) (nameB : Bytes) (opts : List Bytes) :
    List (Sys × Hint) → Int → List (Int × List Reply)
  | [], _ => []
  | (s, h) :: rest, cur =>
    match (lastReply (stepEv s (request mode c (scanReq nameB opts cur) h)) c).bind decodeScanReply with
    | none => []
    | some (next, page) => (next, page) :: (if next = 0 then [] else sysDialogue mode c nameB opts rest next)

/-- the database connection `c` has selected, at the clock reading of the call -/
def callDb (c : Nat) (p : Sys × Hint) : Db := ⟨p.1.srv.dbs.getD (p.1.conn c).db [], p.2.time⟩

/-- what the call sees -/
def viewOf (c : Nat) (p : Sys × Hint) : View := ⟨scanKeys (callDb c p), scanType (callDb c p)⟩

/-- the pre-state of a call is fit for a SCAN by connection `c` -/
def CallOk (c : Nat) (p : Sys × Hint) : Prop :=
  (p.1.conn c).tx = none ∧ (p.1.conn c).pubsub = 0 ∧ (p.1.conn c).closed = false ∧
  (scanKeys (callDb c p)).length ≤ 2 ^ 63

theorem sysDialogue_eq (mode : Mode) (c : Nat) (nameB : Bytes) (opts : List Bytes) (o : ScanOpts)
    (hname : lookupSig nameB = some scanSig) (hp : parseScanOpts true opts {} = .ok o) :
    ∀ (calls : List (Sys × Hint)) (cur : Int), 0 ≤ cur → cur < 2 ^ 63 → (∀ p ∈ calls, CallOk c p) →
      sysDialogue mode c nameB opts calls cur =
        (pureDialogue o (calls.map (viewOf c)) cur).map (fun q => (q.1, q.2.map Reply.bulk))
  | [], cur, _, _, _ => rfl
  | (s, h) :: rest, cur, hc, hb, hok => by
    obtain ⟨htx, hpub, hcl, hlen⟩ := hok (s, h) (by simp)
    have hev := scan_event mode c nameB (intBytes cur) opts s h hname htx hpub hcl
    simp only at hev
    have hout := hev.1
    have hint : Conv.int (intBytes cur) = .ok cur := convInt_intBytes hc hb
    have hd : (lastReply (stepEv s (request mode c (scanReq nameB opts cur) h)) c).bind decodeScanReply =
        some ((scanPage (scanKeys (callDb c (s, h))) id (scanType (callDb c (s, h))) cur o).1,
          ((scanPage (scanKeys (callDb c (s, h))) id (scanType (callDb c (s, h))) cur o).2).map Reply.bulk) := by
      show (lastReply (stepEv s (request mode c (nameB :: intBytes cur :: opts) h)) c).bind decodeScanReply = _
      rw [lastReply_single _ c _ hout]
      simp only [Option.bind_some]
      exact scanAnswer_decode _ cur opts o hp hc hint
    have hcount : 0 < o.count := parse_count_pos' hp
    simp only [sysDialogue, hd, List.map_cons, pureDialogue, viewOf]
    by_cases h0 : (scanPage (scanKeys (callDb c (s, h))) id (scanType (callDb c (s, h))) cur o).1 = 0
    · simp [h0]
    · simp only [h0, if_false, List.map_cons]
      have hfst := scanPage_fst (scanKeys (callDb c (s, h))) id (scanType (callDb c (s, h))) cur o
      have hnext : (scanPage (scanKeys (callDb c (s, h))) id (scanType (callDb c (s, h))) cur o).1 = cur + o.count ∧
          cur + o.count < (scanKeys (callDb c (s, h))).length := by
        rw [hfst] at h0 ⊢
        split
        · rename_i hge; rw [if_pos hge] at h0; exact absurd rfl h0
        · exact ⟨rfl, by omega⟩
      have ih := sysDialogue_eq mode c nameB opts o hname hp rest
        (scanPage (scanKeys (callDb c (s, h))) id (scanType (callDb c (s, h))) cur o).1 (by omega) (by omega)
        (fun p hp' => hok p (by simp [hp']))
      rw [ih]

/-- the number of live keys smaller than `k` -/
def liveRank (k : Bytes) (db : Db) : Nat :=
  (((Db.purge db).dict.map Prod.fst).filter (fun x => bytesLt x k)).length

theorem rank_scanKeys (k : Bytes) (db : Db) : rank k (scanKeys db) = liveRank k db := by
  unfold rank scanKeys liveRank
  exact ((sortBy_perm bytesLt _).filter _).length_eq

theorem scanKeys_sorted {db : Db} (nd : NodupKeys db.dict) :
    (scanKeys db).Pairwise (fun a b => bytesLt a b = true) :=
  sortBy_bytes_strict (Db.purge_nodup nd)

theorem mem_scanKeys {db : Db} {k : Bytes} : k ∈ scanKeys db ↔ (db.live k).isSome = true := by
  unfold scanKeys Db.live
  rw [mem_sortBy]
  cases h : (Db.purge db).dict.lookup k with
  | none =>
    simp only [Option.isSome_none, Bool.false_eq_true, iff_false]
    intro hm
    obtain ⟨q, hq, rfl⟩ := List.mem_map.1 hm
    exact (Db.lookup_none_iff.1 h) q hq rfl
  | some it =>
    simp only [Option.isSome_some, iff_true]
    exact List.mem_map.2 ⟨_, Db.lookup_some_mem h, rfl⟩

/-- no live key smaller than `k` disappears between two moments ⇒ the rank of `k` does not decrease -/
theorem liveRank_mono {k : Bytes} {a b : Db} (nd : NodupKeys a.dict)
    (h : ∀ x, bytesLt x k = true → (a.live x).isSome = true → (b.live x).isSome = true) :
    liveRank k a ≤ liveRank k b := by
  unfold liveRank
  apply List.Nodup.length_le_of_subset
  · exact (Db.purge_nodup nd : ((Db.purge a).dict.map Prod.fst).Nodup).filter _
  · intro x hx
    rw [List.mem_filter] at hx ⊢
    refine ⟨?_, hx.2⟩
    have ha : x ∈ scanKeys a := (mem_sortBy bytesLt).2 hx.1
    have hb : x ∈ scanKeys b := mem_scanKeys.2 (h x hx.2 (mem_scanKeys.1 ha))
    exact (mem_sortBy bytesLt).1 hb

/-- **The guarantee under arbitrary interleaved events.**  Connection `c` runs a SCAN dialogue; between two calls
anything may happen (the pre-state of every call is arbitrary).  If at every call `c` is fit for SCAN, `k` is a live
key of the selected database that passes MATCH and TYPE, and the number of live keys smaller than `k` never
decreases from one call to a later one, then a dialogue that reaches cursor 0 has returned `k`. -/
theorem sys_cover (mode : Mode) (c : Nat) (nameB : Bytes) (opts : List Bytes) (o : ScanOpts) (k : Bytes)
    (hname : lookupSig nameB = some scanSig) (hp : parseScanOpts true opts {} = .ok o)
    (calls : List (Sys × Hint))
    (hok : ∀ p ∈ calls, CallOk c p) (hinv : ∀ p ∈ calls, p.1.DataInv)
    (hlive : ∀ p ∈ calls, ((callDb c p).live k).isSome = true)
    (hmatch : ∀ p ∈ calls, matchPredicate id (scanType (callDb c p)) o k = true)
    (hrank : calls.Pairwise (fun a b => liveRank k (callDb c a) ≤ liveRank k (callDb c b)))
    (hfin : ((sysDialogue mode c nameB opts calls 0).getLast?).map Prod.fst = some 0) :
    ∃ p ∈ sysDialogue mode c nameB opts calls 0, Reply.bulk k ∈ p.2 := by
  have heq := sysDialogue_eq mode c nameB opts o hname hp calls 0 (by omega) (by omega) hok
  rw [heq] at hfin ⊢
  have hfin' : ((pureDialogue o (calls.map (viewOf c)) 0).getLast?).map Prod.fst = some 0 := by
    rw [List.getLast?_map] at hfin
    cases hl : (pureDialogue o (calls.map (viewOf c)) 0).getLast? with
    | none => rw [hl] at hfin; cases hfin
    | some q => rw [hl] at hfin; simpa using hfin
  have := cover_from o (parse_count_pos' hp) k (calls.map (viewOf c)) 0
    (by
      intro v hv
      obtain ⟨p, hp', rfl⟩ := List.mem_map.1 hv
      exact scanKeys_sorted ((hinv p hp').dbAt (p.1.conn c).db).1)
    (by
      intro v hv
      obtain ⟨p, hp', rfl⟩ := List.mem_map.1 hv
      exact mem_scanKeys.2 (hlive p hp'))
    (by
      intro v hv
      obtain ⟨p, hp', rfl⟩ := List.mem_map.1 hv
      exact hmatch p hp')
    (by
      rw [List.pairwise_map]
      refine hrank.imp ?_
      intro a b hab
      show rank k (scanKeys _) ≤ rank k (scanKeys _)
      rw [rank_scanKeys, rank_scanKeys]; exact hab)
    (by intro v _; exact Nat.zero_le _)
    hfin'
  obtain ⟨q, hq, hkq⟩ := this
  exact ⟨(q.1, q.2.map Reply.bulk), List.mem_map.2 ⟨q, hq, rfl⟩, List.mem_map.2 ⟨k, hkq, rfl⟩⟩

/-! ## 12. Missing key, wrong type; the stability hypothesis in terms of key lists -/

theorem kscanAnswer_missing (K : KScan) (hK : K.Ok) (v : Nat) (key cb : Bytes) (opts : List Bytes) (cur : Int)
    (heven : opts.length % 2 = 0) (hint : Conv.int cb = .ok cur) (hc : 0 ≤ cur)
    (hok : allPairsOk false opts = true) :
    kscanAnswer K v none key cb opts = .arr [.bulk (intBytes 0), .arr []] := by
  rw [kscanAnswer_eq, if_neg (by omega), hint]
  simp only [Bool.false_eq_true, if_false]
  rw [hK.missing, scan_missing_empty _ _ _ _ _ _ hc heven hok]
  rfl

theorem kscanAnswer_wrongtype (K : KScan) (v : Nat) (it : Item) (hty : it.value.ty ≠ K.T) (key cb : Bytes)
    (opts : List Bytes) (cur : Int) (heven : opts.length % 2 = 0) (hint : Conv.int cb = .ok cur) :
    kscanAnswer K v (some it) key cb opts = .err (strBytes Msgs.WRONGTYPE_MSG) := by
  rw [kscanAnswer_eq, if_neg (by omega), hint]
  have : (it.value.ty != K.T) = true := by simp [hty]
  simp only [this, if_true]

theorem get_snd_eq_live {db : Db} (nd : NodupKeys db.dict) (k : Bytes) : (db.get k).2 = db.live k :=
  Db.get_result k nd

/-- two filters of a dictionary with unique keys that keep the same keys keep the same entries -/
theorem filter_eq_of_keys_eq (p q : Bytes × Item → Bool) : ∀ {d : Dict}, NodupKeys d →
    (d.filter p).map Prod.fst = (d.filter q).map Prod.fst → d.filter p = d.filter q
  | [], _, _ => rfl
  | x :: xs, nd, h => by
    have nd' := (Db.nodup_cons.1 nd)
    have hx : ∀ (r : Bytes × Item → Bool), x.1 ∉ (xs.filter r).map Prod.fst := by
      intro r hm
      obtain ⟨y, hy, e⟩ := List.mem_map.1 hm
      exact nd'.1 y (List.mem_filter.1 hy).1 e
    simp only [List.filter_cons] at h ⊢
    cases hp : p x <;> cases hq : q x <;> simp only [hp, hq, if_true, Bool.false_eq_true, if_false] at h ⊢
    · exact filter_eq_of_keys_eq p q nd'.2 h
    · exfalso
      apply hx p
      rw [h]; simp
    · exfalso
      apply hx q
      rw [← h]; simp
    · simp only [List.map_cons, List.cons.injEq, true_and] at h
      rw [filter_eq_of_keys_eq p q nd'.2 h]

/-- the hypothesis of `scan_iteration` says exactly that the live key list is the same at all readings -/
theorem purgeAt_eq_iff_keys {dict : Dict} (nd : NodupKeys dict) (t t' : Int) :
    purgeAt t dict = purgeAt t' dict ↔ (purgeAt t dict).map Prod.fst = (purgeAt t' dict).map Prod.fst :=
  ⟨fun h => by rw [h], fun h => filter_eq_of_keys_eq _ _ nd h⟩

end FR.ScanSys
