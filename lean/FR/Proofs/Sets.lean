import FR
import FR.Proofs.Basic
/-! # SRANDMEMBER / SPOP: every accepted random pick is a legal one (C02) -/
namespace FR.Proofs
open FR

theorem setIns_length_le (acc : List Bytes) (x : Bytes) :
    (Cmd.setIns acc x).length ≤ acc.length + 1 := by
  unfold Cmd.setIns; split <;> simp

theorem foldl_setIns_length (p acc : List Bytes) :
    (p.foldl Cmd.setIns acc).length ≤ acc.length + p.length ∧
    ((p.foldl Cmd.setIns acc).length = acc.length + p.length → p.Nodup ∧ ∀ x ∈ p, x ∉ acc) := by
  induction p generalizing acc with
  | nil => simp
  | cons x xs ih =>
    simp only [List.foldl_cons, List.length_cons]
    have ⟨h1, h2⟩ := ih (Cmd.setIns acc x)
    by_cases hx : x ∈ acc
    · have e : Cmd.setIns acc x = acc := by simp [Cmd.setIns, hx]
      rw [e] at h1 h2 ⊢
      refine ⟨by omega, fun h => by omega⟩
    · have e : Cmd.setIns acc x = acc ++ [x] := by simp [Cmd.setIns, hx]
      rw [e] at h1 h2 ⊢
      simp only [List.length_append, List.length_cons, List.length_nil] at h1 h2
      refine ⟨by omega, fun h => ?_⟩
      have ⟨hn, hd⟩ := h2 (by omega)
      have hxa : x ∉ acc := hx
      refine ⟨List.nodup_cons.mpr ⟨fun hm => ?_, hn⟩, ?_⟩
      · exact hd x hm (by simp)
      · intro y hy
        rcases List.mem_cons.mp hy with rfl | hy
        · exact hxa
        · intro hya
          exact hd y hy (by simp [hya])

theorem validSample_spec (s p : List Bytes) (h : Cmd.validSample s p = true) :
    (∀ x ∈ p, x ∈ s) ∧ p.Nodup := by
  simp only [Cmd.validSample, Bool.and_eq_true, List.all_eq_true, beq_iff_eq] at h
  refine ⟨fun x hx => by simpa using h.1 x hx, ?_⟩
  have := (foldl_setIns_length p []).2 (by simpa [Cmd.dedup] using h.2)
  exact this.1

theorem singletons_flatten (s : List Bytes) (ps : List (List Bytes))
    (h : ps.all (fun p => match p with | [x] => s.contains x | _ => false) = true) :
    (∀ x ∈ ps.flatten, x ∈ s) ∧ ps.flatten.length = ps.length := by
  induction ps with
  | nil => simp
  | cons p ps ih =>
    simp only [List.all_cons, Bool.and_eq_true] at h
    have ⟨i1, i2⟩ := ih h.2
    match p, h.1 with
    | [x], hx =>
      simp only [List.flatten_cons, List.singleton_append, List.mem_cons, List.length_cons]
      refine ⟨?_, by omega⟩
      rintro y (rfl | hy)
      · simpa using hx
      · exact i1 y hy

/-- SRANDMEMBER/SPOP core: what an accepted pick looks like -/
theorem srandCore_spec (ctx : Ctx) (s : List Bytes) (count : Option Int) (r : Reply) (used : Nat)
    (picked : List Bytes) (h : Cmd.srandCore ctx s count = some (r, used, picked)) :
    (∀ x ∈ picked, x ∈ s) ∧
    (match count with
     | none => picked.length ≤ 1 ∧ (s ≠ [] → picked.length = 1) ∧
               r = Reply.ofOptBulk picked.head?
     | some n =>
       r = Reply.bulks picked ∧
       (0 ≤ n → picked.length = min n.toNat s.length ∧ picked.Nodup) ∧
       (n < 0 → (s ≠ [] → picked.length = (-n).toNat) ∧ (s = [] → picked = []))) := by
  revert h
  cases count with
  | none =>
    intro h
    simp only [Cmd.srandCore] at h
    split at h
    next he =>
      cases h
      simp_all [Reply.ofOptBulk]
    next hne =>
      split at h
      next x rest hp =>
        split at h
        next hx =>
          cases h
          have hx : x ∈ s := by simpa using hx
          simp [hx, Reply.ofOptBulk]
        next => cases h
      next => cases h
  | some n =>
    intro h
    simp only [Cmd.srandCore] at h
    split at h
    next hn =>
      split at h
      next p rest hp =>
        split at h
        next hv =>
          cases h
          simp only [Bool.and_eq_true, beq_iff_eq] at hv
          have ⟨hsub, hnd⟩ := validSample_spec s _ hv.1
          exact ⟨hsub, rfl, fun _ => ⟨hv.2, hnd⟩, fun h => by omega⟩
        next => cases h
      next => cases h
    next hn =>
      split at h
      next he =>
        cases h
        have : s = [] := by simpa using he
        subst this
        simp [Reply.bulks]
      next hne =>
        split at h
        next hv =>
          cases h
          simp only [Bool.and_eq_true, beq_iff_eq] at hv
          have ⟨hsub, hlen⟩ := singletons_flatten s _ hv.2
          refine ⟨hsub, rfl, fun h => by omega, fun _ => ⟨fun _ => ?_, fun he => ?_⟩⟩
          · rw [hlen, hv.1]
          · subst he; simp at hne
        next => cases h

theorem mem_setDiff (a b : List Bytes) (x : Bytes) : x ∈ Cmd.setDiff a b ↔ x ∈ a ∧ x ∉ b := by
  simp [Cmd.setDiff]

/-- SPOP: the reply is an accepted pick and exactly the picked members leave the set -/
theorem spop_spec (ctx : Ctx) (k : Nat) (rest : List Arg) (cis : List CI) (o : BodyOut)
    (h : Cmd.spop ctx (.key k :: rest) cis = .ok o) :
    ∃ r used picked,
      Cmd.srandCore ctx (Cmd.setOf (ciAt cis k)) (Cmd.intArgs rest).head? = some (r, used, picked) ∧
      o.reply = r ∧ o.picksUsed = used ∧
      (o.cis = if picked.isEmpty then cis
               else Cmd.putSet cis k (Cmd.setDiff (Cmd.setOf (ciAt cis k)) picked)) := by
  unfold Cmd.spop at h
  simp only at h
  split at h
  next => cases h
  next =>
    split at h
    next hc =>
      rw [hc]
      split at h
      next => cases h
      next r used picked hs =>
        refine ⟨r, used, picked, hs, ?_⟩
        split at h <;> (cases h; simp_all)
    next n hc =>
      rw [hc]
      split at h
      next => cases h
      next =>
        split at h
        next => cases h
        next r used picked hs =>
          refine ⟨r, used, picked, hs, ?_⟩
          split at h <;> (cases h; simp_all)

end FR.Proofs
