import FR.Proofs.Conserve
import FR.Proofs.StrKeys
import FR.Proofs.Lists
/-!
# C11c, database level: the regular list commands conserve list elements

For LPUSH / RPUSH / LPUSHX / RPUSHX / LPOP / RPOP (with and without count) / RPOPLPUSH / LMOVE / LLEN / LRANGE run by the
pure runner `runRegular` on a database without TTLs:

  `count x (elements stored afterwards) + count x (elements the reply hands out) =
   count x (elements stored before) + count x (elements the command pushed)`.

`popsOf name reply` / `pushesOf name args reply` read the two ledgers off the request and its reply.
-/
namespace FR.C11c
open FR FR.Db FR.Conserve FR.StrKeys
set_option linter.unusedSimpArgs false
set_option linter.unusedVariables false
set_option linter.unusedSectionVars false

/-! ## the two ledgers of one command -/

def bulkOf : Reply → List Bytes
  | .bulk b => [b]
  | _ => []

/-- the list elements a reply hands to the client, given the name of the command it answers: the element of an LPOP /
RPOP reply (a bulk) or all elements of its counted form (an array of bulks), the element of the `[key, element]` reply of
BLPOP / BRPOP; nothing for any other command (the element moved by RPOPLPUSH / LMOVE / BRPOPLPUSH stays stored) -/
def popsOf (name : String) (r : Reply) : List Bytes :=
  if name = "lpop" ∨ name = "rpop" then
    match r with
    | .bulk x => [x]
    | .arr xs => xs.flatMap bulkOf
    | _ => []
  else if name = "blpop" ∨ name = "brpop" then popElem r
  else []

/-- the elements a push command added, read off its arguments `key v₁ … vₙ` and its reply: all values when the reply is
a non-zero integer (the new length), nothing when it is `0` (LPUSHX / RPUSHX on a missing key) or an error -/
def pushesOf (name : String) (args : List Bytes) (r : Reply) : List Bytes :=
  if name = "lpush" ∨ name = "rpush" ∨ name = "lpushx" ∨ name = "rpushx" then
    match r with
    | .int n => if n = 0 then [] else args.tail
    | _ => []
  else []

theorem popsOf_err (name : String) (m : Bytes) : popsOf name (.err m) = [] := by
  unfold popsOf popElem
  split
  · rfl
  · split <;> rfl

theorem pushesOf_err (name : String) (args : List Bytes) (m : Bytes) : pushesOf name args (.err m) = [] := by
  unfold pushesOf; split <;> rfl

theorem popsOf_nil (name : String) : popsOf name .nil = [] := by
  unfold popsOf popElem
  split
  · rfl
  · split <;> rfl

theorem pushesOf_nil (name : String) (args : List Bytes) : pushesOf name args .nil = [] := by
  unfold pushesOf; split <;> rfl

theorem popsOf_status (name : String) (b : Bytes) : popsOf name (.status b) = [] := by
  unfold popsOf popElem
  split
  · rfl
  · split <;> rfl

theorem pushesOf_status (name : String) (args : List Bytes) (b : Bytes) : pushesOf name args (.status b) = [] := by
  unfold pushesOf; split <;> rfl

/-! ## databases without TTLs -/

theorem purge_noTTL {db : Db} (h : NoTTLd db.dict) : Db.purge db = db := by
  unfold Db.purge
  have : db.dict.filter (fun p => !db.expired p.2) = db.dict := by
    rw [List.filter_eq_self]
    intro q hq
    simp [Db.expired, h q hq]
  rw [this]

theorem live_noTTL {db : Db} (h : NoTTLd db.dict) : db.live = fun k => db.dict.lookup k := by
  funext k; unfold Db.live; rw [purge_noTTL h]

theorem reads_noTTL {db db' : Db} (hr : Reads db db') (h : NoTTLd db.dict) : db' = db := by
  have h' : NoTTLd db'.dict := fun q hq => h q (hr.sub q hq)
  have := hr.eq
  rw [purge_noTTL h, purge_noTTL h'] at this
  exact this

theorem apply_noTTL (sig : Sig) (raw : List Bytes) {db : Db} (nd : NodupKeys db.dict) (h : NoTTLd db.dict) :
    sig.apply raw db = (db, applyL sig raw (fun k => db.dict.lookup k)) := by
  have h1 := reads_noTTL (Sig.apply_reads sig raw nd) h
  have h2 := apply_eq sig raw nd
  rw [live_noTTL h] at h2
  exact Prod.ext h1 h2

/-- the outcomes of the pure runner on a database without TTLs -/
theorem runRegular_noTTL (sig : Sig) (body : Body) (ctx : Ctx) (gate : Option Err) (raw : List Bytes) {db : Db}
    (nd : NodupKeys db.dict) (h : NoTTLd db.dict) :
    ((runRegular sig body ctx gate raw db).db = db ∧
      ((∃ m, (runRegular sig body ctx gate raw db).reply = .err m) ∨
        ∃ r, applyL sig raw (fun k => db.dict.lookup k) = .ok (.short r) ∧ (runRegular sig body ctx gate raw db).reply = r)) ∨
    ∃ args cis out, applyL sig raw (fun k => db.dict.lookup k) = .ok (.ok args cis) ∧ body ctx args cis = .ok out ∧
      (runRegular sig body ctx gate raw db).db = (writebackPure db out.cis).1 ∧
      (runRegular sig body ctx gate raw db).reply = out.reply := by
  rw [runRegular_eq, apply_noTTL sig raw nd h]
  have hc := fun args cis => Sig.apply_clean sig raw db (args := args) (cis := cis)
  rw [apply_noTTL sig raw nd h] at hc
  simp only at hc ⊢
  generalize applyL sig raw (fun k => db.dict.lookup k) = x at hc ⊢
  cases x with
  | error e => exact .inl ⟨rfl, .inl ⟨_, rfl⟩⟩
  | ok ap =>
    cases ap with
    | short r => exact .inl ⟨rfl, .inr ⟨r, rfl, rfl⟩⟩
    | ok args cis =>
      cases gate with
      | some e => exact .inl ⟨rfl, .inl ⟨_, rfl⟩⟩
      | none =>
        simp only [runTail]
        cases hb : body ctx args cis with
        | error e =>
          simp only
          rw [writebackPure_clean (hc args cis rfl)]
          exact .inl ⟨rfl, .inl ⟨_, rfl⟩⟩
        | ok o => exact .inr ⟨args, cis, o, rfl, hb, rfl, rfl⟩

/-! ## write-back of list values: counts -/

theorem count_dictElems_split {d : Dict} (nd : NodupKeys d) (k : Bytes) (x : Bytes) :
    (dictElems d).count x = (elemsAt d k).count x + (dictElems (erase d k)).count x := by
  rw [(dictElems_split nd k).count_eq x, List.count_append]

/-- a `CommandItem` carrying a (possibly empty) list that was modified, on a key without TTL -/
structure ListCI (c : CI) (l : List Bytes) : Prop where
  mod : c.modified = true
  val : c.val = some (.list l)
  exp : c.expireat = none

/-- writing back a modified list: the new elements replace those under the key -/
theorem count_writeback {db : Db} (nd : NodupKeys db.dict) (ht : NoTTLd db.dict) {c : CI} {l : List Bytes}
    (hc : ListCI c l) (x : Bytes) :
    (dictElems (c.writeback db).1.dict).count x + (elemsAt db.dict c.key).count x =
      (dictElems db.dict).count x + l.count x := by
  have h1 := (writeback_list_perm nd ht c hc.mod l hc.val).count_eq x
  rw [List.count_append] at h1
  have h2 := count_dictElems_split nd c.key x
  omega

theorem noTTL_erase {d : Dict} (h : NoTTLd d) (k : Bytes) : NoTTLd (erase d k) :=
  fun q hq => h q (mem_erase hq)

theorem noTTL_setRaw {d : Dict} (h : NoTTLd d) (k : Bytes) (it : Item) (hit : it.expireat = none) :
    NoTTLd (setRaw d k it) := by
  intro q hq
  rcases mem_setRaw hq with hq | rfl
  · exact h q hq
  · exact hit

theorem noTTL_writeback {db : Db} (ht : NoTTLd db.dict) {c : CI} {l : List Bytes} (hc : ListCI c l) :
    NoTTLd (c.writeback db).1.dict := by
  unfold CI.writeback
  simp only [hc.mod, if_true, hc.val]
  split
  · rw [pop_eq]; exact noTTL_erase ht _
  · unfold Db.put
    simp only [get_fst_noTTL ht]
    exact noTTL_setRaw ht _ _ hc.exp

theorem elemsAt_writeback_self {db : Db} (ht : NoTTLd db.dict) {c : CI} {l : List Bytes} (hc : ListCI c l) :
    elemsAt (c.writeback db).1.dict c.key = l := by
  unfold CI.writeback
  simp only [hc.mod, if_true, hc.val, Value.isEmptyColl, List.isEmpty_iff]
  by_cases hl : l = []
  · subst hl
    simp only [if_true, pop_eq]
    exact elemsAt_erase _ _
  · simp only [hl, if_false]
    unfold Db.put
    simp only [get_fst_noTTL ht]
    rw [elemsAt_setRaw]; rfl

theorem elemsAt_erase_ne (d : Dict) {k k' : Bytes} (h : k ≠ k') : elemsAt (erase d k') k = elemsAt d k := by
  unfold elemsAt; rw [lookup_erase_ne h]

theorem elemsAt_setRaw_ne (d : Dict) {k k' : Bytes} (it : Item) (h : k ≠ k') :
    elemsAt (setRaw d k' it) k = elemsAt d k := by
  unfold elemsAt; rw [lookup_setRaw_ne it h]

theorem elemsAt_writeback_ne {db : Db} (ht : NoTTLd db.dict) {c : CI} {l : List Bytes} (hc : ListCI c l)
    {k : Bytes} (h : k ≠ c.key) : elemsAt (c.writeback db).1.dict k = elemsAt db.dict k := by
  unfold CI.writeback
  simp only [hc.mod, if_true, hc.val]
  split
  · rw [pop_eq]; exact elemsAt_erase_ne _ h
  · unfold Db.put
    simp only [get_fst_noTTL ht]
    exact elemsAt_setRaw_ne _ _ h

/-! ## `Signature.apply` for a signature whose only key is its first argument -/

def NonKey (t : ArgTy) : Prop := ∀ ty mr, t ≠ .key ty mr

/-- the conversion of the non-key arguments, left to right -/
def decodeAll : List (Bytes × ArgTy) → Except Err (List Arg)
  | [] => .ok []
  | (b, t) :: rest =>
    match Conv.decode t b with
    | .error e => .error e
    | .ok a =>
      match decodeAll rest with
      | .error e => .error e
      | .ok as => .ok (a :: as)

theorem decodeAll_length {l : List (Bytes × ArgTy)} {as : List Arg} (h : decodeAll l = .ok as) :
    as.length = l.length := by
  induction l generalizing as with
  | nil => simp only [decodeAll, Except.ok.injEq] at h; subst h; rfl
  | cons x rest ih =>
    obtain ⟨b, t⟩ := x
    simp only [decodeAll] at h
    split at h
    · cases h
    · split at h
      · cases h
      · rename_i as' has
        simp only [Except.ok.injEq] at h
        subst h
        simp [ih has]

theorem pass1L_nonkey (live : Bytes → Option Item) (l : List (Bytes × ArgTy)) (h : ∀ x ∈ l, NonKey x.2)
    (acc : List Arg) :
    pass1L live l acc =
      match decodeAll l with
      | .error e => .error e
      | .ok as => .ok (.inr (acc.reverse ++ as)) := by
  induction l generalizing acc with
  | nil => simp [pass1L, decodeAll]
  | cons x rest ih =>
    obtain ⟨b, t⟩ := x
    have ht : NonKey t := h (b, t) (by simp)
    have hrest : ∀ x ∈ rest, NonKey x.2 := fun x hx => h x (by simp [hx])
    have step : pass1L live ((b, t) :: rest) acc =
        match Conv.decode t b with
        | .error e => .error e
        | .ok a => pass1L live rest (a :: acc) := by
      cases t with
      | key ty mr => exact absurd rfl (ht ty mr)
      | _ => rfl
    rw [step]
    simp only [decodeAll]
    cases Conv.decode t b with
    | error e => rfl
    | ok a =>
      simp only
      rw [ih hrest]
      cases decodeAll rest with
      | error e => rfl
      | ok as => simp

theorem pass2L_nonkey (live : Bytes → Option Item) (l : List (Arg × ArgTy)) (h : ∀ x ∈ l, NonKey x.2)
    (accA : List Arg) (accC : List CI) :
    pass2L live l accA accC = .ok (accA.reverse ++ l.map (·.1), accC.reverse) := by
  induction l generalizing accA with
  | nil => simp [pass2L]
  | cons x rest ih =>
    obtain ⟨a, t⟩ := x
    have ht : NonKey t := h (a, t) (by simp)
    have hrest : ∀ x ∈ rest, NonKey x.2 := fun x hx => h x (by simp [hx])
    have step : pass2L live ((a, t) :: rest) accA accC = pass2L live rest (a :: accA) accC := by
      cases t with
      | key ty mr => exact absurd rfl (ht ty mr)
      | _ => simp [pass2L]
    rw [step, ih hrest]
    simp

/-- the `CommandItem` built for a key of declared type `ty` -/
def keyCI (live : Bytes → Option Item) (ty : Option Ty) (k : Bytes) : Except Err CI :=
  match ty, live k with
  | some ty, some it =>
    if it.value.ty != ty then .error Msgs.WRONGTYPE_MSG else .ok ⟨k, some it.value, it.expireat, false, false⟩
  | some ty, none => .ok ⟨k, ty.default, none, false, false⟩
  | none, some it => .ok ⟨k, some it.value, it.expireat, false, false⟩
  | none, none => .ok ⟨k, none, none, false, false⟩

theorem types_eq (sig : Sig) (n : Nat) :
    sig.types n = sig.fixed ++ (List.range (n - sig.fixed.length)).map (fun i => sig.rep.getD (i % sig.rep.length) .bytes) := rfl

theorem types_length (sig : Sig) (n : Nat) (har : sig.checkArity n = true) : (sig.types n).length = n := by
  rw [types_eq]
  simp only [List.length_append, List.length_map, List.length_range]
  unfold Sig.checkArity at har
  split at har
  · simp only [Bool.not_eq_true', Bool.or_eq_false_iff, decide_eq_false_iff_not] at har
    omega
  · rename_i h
    simp only [bne_iff_ne, ne_eq, Decidable.not_not] at h
    omega

/-- all argument types after the fixed ones come from `rep` (when the arity check passed) -/
theorem types_rep_mem (sig : Sig) (n : Nat) (har : sig.checkArity n = true) :
    ∀ t ∈ (List.range (n - sig.fixed.length)).map (fun i => sig.rep.getD (i % sig.rep.length) .bytes), t ∈ sig.rep := by
  intro t ht
  simp only [List.mem_map, List.mem_range] at ht
  obtain ⟨i, hi, rfl⟩ := ht
  have hne : n ≠ sig.fixed.length := by omega
  unfold Sig.checkArity at har
  rw [if_pos (by simpa using hne)] at har
  simp only [Bool.not_eq_true', Bool.or_eq_false_iff, decide_eq_false_iff_not] at har
  have hrep : sig.rep ≠ [] := by
    intro e; rw [e] at har; simp at har
  have hpos : 0 < sig.rep.length := List.length_pos_iff.mpr hrep
  have hlt : i % sig.rep.length < sig.rep.length := Nat.mod_lt _ hpos
  rw [List.getD_eq_getElem?_getD, List.getElem?_eq_getElem hlt]
  exact List.getElem_mem hlt

theorem types_tail (sig : Sig) (ty : Option Ty) (mr : MissingRet) (fx : List ArgTy) (hfix : sig.fixed = .key ty mr :: fx)
    (n : Nat) :
    sig.types n = .key ty mr :: (fx ++ (List.range (n - sig.fixed.length)).map
      (fun i => sig.rep.getD (i % sig.rep.length) .bytes)) := by
  rw [types_eq]
  conv => lhs; arg 1; rw [hfix]
  rfl

/-- **`Signature.apply` of a signature `key, non-keys…`**: an error, or the key's `CommandItem` and the converted
remaining arguments -/
theorem applyL_key1 (sig : Sig) (ty : Option Ty) (fx : List ArgTy) (hfix : sig.fixed = .key ty .unspecified :: fx)
    (hfx : ∀ t ∈ fx, NonKey t) (hrep : ∀ t ∈ sig.rep, NonKey t)
    (k : Bytes) (rest : List Bytes) (live : Bytes → Option Item) :
    (∃ e, applyL sig (k :: rest) live = .error e) ∨
    ∃ as ci, applyL sig (k :: rest) live = .ok (.ok (.key 0 :: as) [ci]) ∧ keyCI live ty k = .ok ci ∧
      sig.checkArity (rest.length + 1) = true ∧
      decodeAll (rest.zip (sig.types (rest.length + 1)).tail) = .ok as := by
  unfold applyL
  cases har : sig.checkArity (k :: rest).length with
  | false => left; simp only [Bool.not_false, if_true]; exact ⟨_, rfl⟩
  | true =>
  simp only [Bool.not_true, Bool.false_eq_true, if_false]
  split
  · exact .inl ⟨_, rfl⟩
  have har' : sig.checkArity (rest.length + 1) = true := har
  have htys := types_tail sig ty .unspecified fx hfix (rest.length + 1)
  have hnk : ∀ t ∈ (sig.types (rest.length + 1)).tail, NonKey t := by
    intro t ht
    rw [htys, List.tail_cons, List.mem_append] at ht
    rcases ht with h | h
    · exact hfx t h
    · exact hrep t (types_rep_mem sig _ har' t h)
  have htys' : sig.types (rest.length + 1) = .key ty .unspecified :: (sig.types (rest.length + 1)).tail := by
    rw [htys]; rfl
  simp only [List.length_cons]
  rw [htys', List.zip_cons_cons]
  have p1 : pass1L live ((k, ArgTy.key ty MissingRet.unspecified) :: rest.zip (sig.types (rest.length + 1)).tail) [] =
      pass1L live (rest.zip (sig.types (rest.length + 1)).tail) [.raw k] := by
    simp [pass1L]
  rw [p1, pass1L_nonkey live _ (fun x hx => hnk _ (List.of_mem_zip hx).2)]
  cases hd : decodeAll (rest.zip (sig.types (rest.length + 1)).tail) with
  | error e => exact .inl ⟨_, rfl⟩
  | ok as =>
    simp only [List.reverse_cons, List.reverse_nil, List.nil_append, List.singleton_append, List.zip_cons_cons]
    have has : as.length = (rest.zip (sig.types (rest.length + 1)).tail).length := decodeAll_length hd
    have hle : as.length ≤ (sig.types (rest.length + 1)).tail.length := by
      rw [has, List.length_zip]; exact Nat.min_le_right _ _
    have hmap : (as.zip (sig.types (rest.length + 1)).tail).map (·.1) = as := List.map_fst_zip hle
    have p2 : ∀ (ci : CI), pass2L live (as.zip (sig.types (rest.length + 1)).tail) [.key 0] [ci] =
        .ok (.key 0 :: as, [ci]) := by
      intro ci
      rw [pass2L_nonkey live _ (fun x hx => hnk _ (List.of_mem_zip hx).2), hmap]
      rfl
    unfold pass2L
    cases hty : ty <;> cases hl : live k
    all_goals simp only [hl]
    · right; refine ⟨as, ⟨k, none, none, false, false⟩, ?_, ?_, trivial, by rw [List.tail_cons]; exact hd⟩
      · rw [show ([] : List CI).length = 0 from rfl, p2]
      · simp [keyCI, hl]
    · rename_i it
      right; refine ⟨as, ⟨k, some it.value, it.expireat, false, false⟩, ?_, ?_, trivial, by rw [List.tail_cons]; exact hd⟩
      · rw [show ([] : List CI).length = 0 from rfl, p2]
      · simp [keyCI, hl]
    · rename_i t
      right; refine ⟨as, ⟨k, t.default, none, false, false⟩, ?_, ?_, trivial, by rw [List.tail_cons]; exact hd⟩
      · rw [show ([] : List CI).length = 0 from rfl, p2]
      · simp [keyCI, hl]
    · rename_i t it
      by_cases hw : (it.value.ty != t) = true
      · left; simp only [hw, if_true]; exact ⟨_, rfl⟩
      · right; refine ⟨as, ⟨k, some it.value, it.expireat, false, false⟩, ?_, ?_, trivial, by rw [List.tail_cons]; exact hd⟩
        · simp only [hw, if_false]
          rw [show ([] : List CI).length = 0 from rfl, p2]
          simp
        · simp [keyCI, hl, hw]

theorem decodeAll_raw (l : List (Bytes × ArgTy)) (h : ∀ x ∈ l, x.2 = .bytes ∨ x.2 = .sstr) :
    decodeAll l = .ok (l.map fun x => Arg.raw x.1) := by
  induction l with
  | nil => rfl
  | cons x rest ih =>
    obtain ⟨b, t⟩ := x
    have hd : Conv.decode t b = .ok (.raw b) := by
      rcases h (b, t) (by simp) with ht | ht <;> simp only at ht <;> subst ht <;> rfl
    simp only [decodeAll, hd, ih (fun x hx => h x (by simp [hx])), List.map_cons]

theorem decodeAll_int (l : List (Bytes × ArgTy)) (h : ∀ x ∈ l, x.2 = .int) :
    (∃ e, decodeAll l = .error e) ∨ ∃ ns : List Int, decodeAll l = .ok (ns.map Arg.int) ∧ ns.length = l.length := by
  induction l with
  | nil => exact .inr ⟨[], rfl, rfl⟩
  | cons x rest ih =>
    obtain ⟨b, t⟩ := x
    have ht : t = .int := h (b, t) (by simp)
    subst ht
    simp only [decodeAll, Conv.decode]
    cases Conv.int b with
    | error e => exact .inl ⟨e, rfl⟩
    | ok n =>
      rcases ih (fun x hx => h x (by simp [hx])) with ⟨e, he⟩ | ⟨ns, hns, hlen⟩
      · left; simp only [Except.map, he]; exact ⟨_, rfl⟩
      · right; refine ⟨n :: ns, ?_, by simp [hlen]⟩
        simp only [Except.map, hns, List.map_cons]

/-- what `Signature.apply` knows about a key, on a dictionary without TTLs -/
structure FaithfulCI (d : Dict) (k : Bytes) (ci : CI) : Prop where
  key : ci.key = k
  mod : ci.modified = false
  exm : ci.expMod = false
  exp : ci.expireat = none
  elems : Cmd.listOf ci = elemsAt d k

theorem keyCI_faithful {d : Dict} (ht : NoTTLd d) {ty : Option Ty} {k : Bytes} {ci : CI}
    (h : keyCI (fun k => d.lookup k) ty k = .ok ci) : FaithfulCI d k ci := by
  unfold keyCI at h
  simp only at h
  cases hl : d.lookup k with
  | none =>
    rw [hl] at h
    cases ty with
    | none =>
      simp only [Except.ok.injEq] at h; subst h
      exact ⟨rfl, rfl, rfl, rfl, by simp [Cmd.listOf, elemsAt, hl]⟩
    | some t =>
      simp only [Except.ok.injEq] at h; subst h
      refine ⟨rfl, rfl, rfl, rfl, ?_⟩
      cases t <;> simp [Cmd.listOf, elemsAt, hl, Ty.default]
  | some it =>
    rw [hl] at h
    have he : it.expireat = none := ht _ (lookup_some_mem hl)
    have hfin : ∀ ci, ci = (⟨k, some it.value, it.expireat, false, false⟩ : CI) → FaithfulCI d k ci := by
      intro ci hci; subst hci
      refine ⟨rfl, rfl, rfl, he, ?_⟩
      simp only [Cmd.listOf, elemsAt, hl]
      cases it.value <;> rfl
    cases ty with
    | none =>
      simp only [Except.ok.injEq] at h
      exact hfin ci h.symm
    | some t =>
      simp only at h
      split at h
      · cases h
      · simp only [Except.ok.injEq] at h
        exact hfin ci h.symm

theorem keyCI_list {live : Bytes → Option Item} {k : Bytes} {ci : CI}
    (h : keyCI live (some .list) k = .ok ci) : ∃ l, ci.val = some (.list l) := by
  unfold keyCI at h
  cases hl : live k with
  | none =>
    rw [hl] at h
    simp only [Except.ok.injEq] at h; subst h
    exact ⟨[], rfl⟩
  | some it =>
    rw [hl] at h
    simp only at h
    split at h
    · cases h
    · rename_i hw
      simp only [Except.ok.injEq] at h; subst h
      cases hv : it.value with
      | list l => exact ⟨l, rfl⟩
      | _ => rw [hv] at hw; simp [Value.ty] at hw

theorem rawArgs_map_raw' (l : List (Bytes × ArgTy)) : Cmd.rawArgs (l.map fun x => Arg.raw x.1) = l.map (·.1) := by
  induction l with
  | nil => rfl
  | cons x rest ih => simp [Cmd.rawArgs, ih]

/-! ## the single-key commands -/

theorem ciAt_single (ci : CI) : ciAt [ci] 0 = ci := rfl

theorem setList_single (ci : CI) (l : List Bytes) :
    Cmd.setList [ci] 0 l = [{ ci with val := some (.list l), modified := true }] := rfl

theorem listOf_of_val {ci : CI} {l : List Bytes} (h : ci.val = some (.list l)) : Cmd.listOf ci = l := by
  unfold Cmd.listOf; rw [h]

/-- the outcome of a single-key list command in terms of its `CommandItem`: nothing changed and the reply carries no
element, or the list was replaced by `l'` and the books balance -/
def OneKeyOut (name : String) (raw : List Bytes) (ci : CI) (out : BodyOut) : Prop :=
  (out.cis = [ci] ∧ popsOf name out.reply = [] ∧ pushesOf name raw out.reply = []) ∨
  ∃ l', out.cis = [{ ci with val := some (.list l'), modified := true }] ∧
    ∀ x, l'.count x + (popsOf name out.reply).count x = (Cmd.listOf ci).count x + (pushesOf name raw out.reply).count x

theorem one_key_conserve {db : Db} (nd : NodupKeys db.dict) (ht : NoTTLd db.dict) {ci : CI} {k : Bytes}
    (hf : FaithfulCI db.dict k ci) {out : BodyOut} {name : String} {raw : List Bytes}
    (h : OneKeyOut name raw ci out) :
    NoTTLd (writebackPure db out.cis).1.dict ∧
    ∀ x, (dictElems (writebackPure db out.cis).1.dict).count x + (popsOf name out.reply).count x =
      (dictElems db.dict).count x + (pushesOf name raw out.reply).count x := by
  rcases h with ⟨hc, hp, hq⟩ | ⟨l', hc, hbal⟩
  · rw [hc, hp, hq, writebackPure_clean (by intro c hc'; simp only [List.mem_singleton] at hc'; subst hc'; exact ⟨hf.mod, hf.exm⟩)]
    exact ⟨ht, fun _ => rfl⟩
  · have hL : ListCI ({ ci with val := some (.list l'), modified := true } : CI) l' := ⟨rfl, rfl, hf.exp⟩
    rw [hc, writebackPure_cons, writebackPure_nil]
    refine ⟨noTTL_writeback ht hL, fun x => ?_⟩
    have h1 := count_writeback nd ht hL x
    have h2 := hbal x
    have h3 : elemsAt db.dict ({ ci with val := some (.list l'), modified := true } : CI).key = Cmd.listOf ci := by
      rw [hf.elems]; show elemsAt db.dict ci.key = _; rw [hf.key]
    rw [h3] at h1
    simp only at h1 ⊢
    omega

theorem applyL_nil (sig : Sig) (live : Bytes → Option Item) (h : sig.fixed ≠ []) :
    applyL sig [] live = .error sig.wrongArgs := by
  unfold applyL Sig.checkArity
  have : 0 < sig.fixed.length := List.length_pos_iff.mpr h
  have h1 : ((0 : Nat) != sig.fixed.length) = true := by simp; omega
  simp [h1, this]

/-- the conclusion at the level of the pure runner -/
def RegConserves (name : String) (raw : List Bytes) (db : Db) (o : RunOut) : Prop :=
  NoTTLd o.db.dict ∧
  ∀ x, (dictElems o.db.dict).count x + (popsOf name o.reply).count x =
    (dictElems db.dict).count x + (pushesOf name raw o.reply).count x

theorem regConserves_same {name : String} {raw : List Bytes} {db : Db} {o : RunOut} (ht : NoTTLd db.dict)
    (hdb : o.db = db) (hp : popsOf name o.reply = []) (hq : pushesOf name raw o.reply = []) :
    RegConserves name raw db o := by
  unfold RegConserves
  rw [hdb, hp, hq]
  exact ⟨ht, fun _ => rfl⟩

/-- a single-key list command run by the pure runner conserves, once its body is known to -/
theorem regular1_conserve (sig : Sig) (body : Body) (ty : Option Ty) (fx : List ArgTy)
    (hfix : sig.fixed = .key ty .unspecified :: fx) (hfx : ∀ t ∈ fx, NonKey t) (hrep : ∀ t ∈ sig.rep, NonKey t)
    (hbody : ∀ ctx k rest as ci, decodeAll (rest.zip (sig.types (rest.length + 1)).tail) = .ok as →
      sig.checkArity (rest.length + 1) = true → (∀ live, keyCI live ty k = .ok ci → ty = some .list → ∃ l, ci.val = some (.list l)) →
      (∃ e, body ctx (.key 0 :: as) [ci] = .error e) ∨
        ∃ out, body ctx (.key 0 :: as) [ci] = .ok out ∧ OneKeyOut sig.name (k :: rest) ci out)
    (ctx : Ctx) (gate : Option Err) (raw : List Bytes) {db : Db} (nd : NodupKeys db.dict) (ht : NoTTLd db.dict) :
    RegConserves sig.name raw db (runRegular sig body ctx gate raw db) := by
  rcases runRegular_noTTL sig body ctx gate raw nd ht with ⟨hdb, ⟨m, hm⟩ | ⟨r, hr, _⟩⟩ | ⟨args, cis, out, hap, hb, hdb, hrep'⟩
  · exact regConserves_same ht hdb (by rw [hm]; exact popsOf_err _ _) (by rw [hm]; exact pushesOf_err _ _ _)
  · exfalso
    cases raw with
    | nil => rw [applyL_nil sig _ (by rw [hfix]; simp)] at hr; cases hr
    | cons k rest =>
      rcases applyL_key1 sig ty fx hfix hfx hrep k rest (fun k => db.dict.lookup k) with ⟨e, he⟩ | ⟨as, ci, he, _⟩
      · rw [he] at hr; cases hr
      · rw [he] at hr; cases hr
  · cases raw with
    | nil => rw [applyL_nil sig _ (by rw [hfix]; simp)] at hap; cases hap
    | cons k rest =>
      rcases applyL_key1 sig ty fx hfix hfx hrep k rest (fun k => db.dict.lookup k) with ⟨e, he⟩ | ⟨as, ci, he, hci, har, hd⟩
      · rw [he] at hap; cases hap
      · rw [he] at hap
        simp only [Except.ok.injEq, Sig.Applied.ok.injEq] at hap
        obtain ⟨rfl, rfl⟩ := hap
        have hf := keyCI_faithful ht hci
        have hl : ∀ live, keyCI live ty k = .ok ci → ty = some .list → ∃ l, ci.val = some (.list l) := by
          intro live h e; subst e; exact keyCI_list h
        rcases hbody ctx k rest as ci hd har hl with ⟨e, he'⟩ | ⟨out', ho, hone⟩
        · rw [he'] at hb; cases hb
        · rw [ho] at hb
          simp only [Except.ok.injEq] at hb
          subst hb
          unfold RegConserves
          rw [hdb, hrep']
          exact one_key_conserve nd ht hf hone

/-! ### the bodies -/

def kList : ArgTy := .key (some .list) .unspecified
def kAny : ArgTy := .key none .unspecified

theorem nonKey_bytes : NonKey .bytes := fun _ _ h => by cases h
theorem nonKey_int : NonKey .int := fun _ _ h => by cases h
theorem nonKey_sstr : NonKey .sstr := fun _ _ h => by cases h

def IsPush (name : String) : Prop := name = "lpush" ∨ name = "rpush" ∨ name = "lpushx" ∨ name = "rpushx"
def IsPop (name : String) : Prop := name = "lpop" ∨ name = "rpop"
def IsBPop (name : String) : Prop := name = "blpop" ∨ name = "brpop"

instance (name : String) : Decidable (IsPush name) := by unfold IsPush; infer_instance
instance (name : String) : Decidable (IsPop name) := by unfold IsPop; infer_instance
instance (name : String) : Decidable (IsBPop name) := by unfold IsBPop; infer_instance

theorem popsOf_of_not {name : String} (h1 : ¬ IsPop name) (h2 : ¬ IsBPop name) (r : Reply) : popsOf name r = [] := by
  unfold popsOf IsPop IsBPop at *
  rw [if_neg h1, if_neg h2]

theorem pushesOf_of_not {name : String} (h : ¬ IsPush name) (raw : List Bytes) (r : Reply) : pushesOf name raw r = [] := by
  unfold pushesOf IsPush at *
  rw [if_neg h]

theorem IsPush.not_pop {name : String} (h : IsPush name) : ¬ IsPop name ∧ ¬ IsBPop name := by
  unfold IsPush at h; unfold IsPop IsBPop
  rcases h with rfl | rfl | rfl | rfl <;> decide

theorem IsPop.not_push {name : String} (h : IsPop name) : ¬ IsPush name := by
  unfold IsPop at h; unfold IsPush
  rcases h with rfl | rfl <;> decide

theorem pushesOf_push {name : String} (hn : IsPush name) (raw : List Bytes) (r : Reply) :
    pushesOf name raw r = (match r with | .int n => if n = 0 then [] else raw.tail | _ => []) := if_pos hn

theorem popsOf_pop {name : String} (hn : IsPop name) (r : Reply) :
    popsOf name r = (match r with | .bulk x => [x] | .arr xs => xs.flatMap bulkOf | _ => []) := if_pos hn

/-- the outcome of a push that produced the list `l` from the values `vs` -/
theorem pushOut {name : String} (hn : IsPush name) (k : Bytes) (vs : List Bytes) (ci : CI) (l : List Bytes)
    (hl : ∀ x, l.count x = vs.count x + (Cmd.listOf ci).count x) :
    OneKeyOut name (k :: vs) ci { reply := .int l.length, cis := [{ ci with val := some (.list l), modified := true }] } := by
  right
  refine ⟨l, rfl, fun x => ?_⟩
  rw [popsOf_of_not hn.not_pop.1 hn.not_pop.2]
  have hp : pushesOf name (k :: vs) (.int l.length) = if (l.length : Int) = 0 then [] else vs := by
    rw [pushesOf_push hn]; rfl
  rw [hp]
  by_cases h0 : (l.length : Int) = 0
  · rw [if_pos h0]
    have : l = [] := by
      have : l.length = 0 := by exact_mod_cast h0
      exact List.length_eq_zero_iff.mp this
    have h := hl x
    rw [this] at h ⊢
    simp only [List.count_nil] at h ⊢
    omega
  · rw [if_neg h0]
    have h := hl x
    simp only [List.count_nil]
    omega

theorem lpush_out {name : String} (hn : IsPush name) (ctx : Ctx) (k : Bytes) (vs : List (Bytes × ArgTy)) (ci : CI) :
    ∃ out, Cmd.lpush ctx (.key 0 :: vs.map fun x => Arg.raw x.1) [ci] = .ok out ∧
      OneKeyOut name (k :: vs.map (·.1)) ci out := by
  refine ⟨_, rfl, ?_⟩
  rw [rawArgs_map_raw', ciAt_single, setList_single]
  apply pushOut hn
  intro x
  simp [Cmd.pushLeft, List.count_append, List.count_reverse]

theorem rpush_out {name : String} (hn : IsPush name) (ctx : Ctx) (k : Bytes) (vs : List (Bytes × ArgTy)) (ci : CI) :
    ∃ out, Cmd.rpush ctx (.key 0 :: vs.map fun x => Arg.raw x.1) [ci] = .ok out ∧
      OneKeyOut name (k :: vs.map (·.1)) ci out := by
  refine ⟨_, rfl, ?_⟩
  rw [rawArgs_map_raw', ciAt_single, setList_single]
  apply pushOut hn
  intro x
  simp [Cmd.pushRight, List.count_append]
  omega

theorem zeroOut {name : String} (hn : IsPush name) (raw : List Bytes) (ci : CI) :
    OneKeyOut name raw ci { reply := .int 0, cis := [ci] } := by
  left
  refine ⟨rfl, popsOf_of_not hn.not_pop.1 hn.not_pop.2 _, ?_⟩
  rw [pushesOf_push hn]; rfl

theorem lpushx_out {name : String} (hn : IsPush name) (ctx : Ctx) (k : Bytes) (vs : List (Bytes × ArgTy)) (ci : CI) :
    ∃ out, Cmd.lpushx ctx (.key 0 :: vs.map fun x => Arg.raw x.1) [ci] = .ok out ∧
      OneKeyOut name (k :: vs.map (·.1)) ci out := by
  cases ht : ci.truthy
  · have e : Cmd.lpushx ctx (.key 0 :: vs.map fun x => Arg.raw x.1) [ci] = ret (.int 0) [ci] := by
      simp [Cmd.lpushx, ciAt, ht]
    rw [e]; exact ⟨_, rfl, zeroOut hn _ ci⟩
  · have e : Cmd.lpushx ctx (.key 0 :: vs.map fun x => Arg.raw x.1) [ci] =
        Cmd.lpush ctx (.key 0 :: vs.map fun x => Arg.raw x.1) [ci] := by
      simp [Cmd.lpushx, ciAt, ht]
    rw [e]; exact lpush_out hn ctx k vs ci

theorem rpushx_out {name : String} (hn : IsPush name) (ctx : Ctx) (k : Bytes) (vs : List (Bytes × ArgTy)) (ci : CI) :
    ∃ out, Cmd.rpushx ctx (.key 0 :: vs.map fun x => Arg.raw x.1) [ci] = .ok out ∧
      OneKeyOut name (k :: vs.map (·.1)) ci out := by
  cases ht : ci.truthy
  · have e : Cmd.rpushx ctx (.key 0 :: vs.map fun x => Arg.raw x.1) [ci] = ret (.int 0) [ci] := by
      simp [Cmd.rpushx, ciAt, ht]
    rw [e]; exact ⟨_, rfl, zeroOut hn _ ci⟩
  · have e : Cmd.rpushx ctx (.key 0 :: vs.map fun x => Arg.raw x.1) [ci] =
        Cmd.rpush ctx (.key 0 :: vs.map fun x => Arg.raw x.1) [ci] := by
      simp [Cmd.rpushx, ciAt, ht]
    rw [e]; exact rpush_out hn ctx k vs ci

/-! ### LPOP / RPOP -/

theorem flatMap_bulkOf (l : List Bytes) : (l.map Reply.bulk).flatMap bulkOf = l := by
  induction l with
  | nil => rfl
  | cons x xs ih => simp [bulkOf, ih]

theorem pops_counted {name : String} (hn : IsPop name) (popped : List Bytes) :
    popsOf name (Reply.bulks popped) = popped := by
  rw [popsOf_pop hn]; exact flatMap_bulkOf popped

theorem pops_single {name : String} (hn : IsPop name) (popped : List Bytes) (h : popped.length ≤ 1) :
    popsOf name (Reply.ofOptBulk popped.head?) = popped := by
  rw [popsOf_pop hn]
  match popped, h with
  | [], _ => rfl
  | [x], _ => rfl
  | _ :: _ :: _, h => simp at h

theorem popN_count (left : Bool) (l : List Bytes) (n : Nat) (x : Bytes) :
    (if left then Cmd.popLeftN l n else Cmd.popRightN l n).2.count x +
      (if left then Cmd.popLeftN l n else Cmd.popRightN l n).1.count x = l.count x := by
  cases left
  · simp only [Bool.false_eq_true, if_false]
    have := congrArg (List.count x) (FR.Proofs.popRightN_conserve l n)
    rw [List.count_append, List.count_reverse] at this
    exact this
  · simp only [if_true]
    have := congrArg (List.count x) (FR.Proofs.popLeftN_conserve l n)
    rw [List.count_append] at this
    omega

theorem pop1_length (left : Bool) (l : List Bytes) :
    (if left then Cmd.popLeftN l 1 else Cmd.popRightN l 1).1.length ≤ 1 := by
  cases left
  · simp only [Bool.false_eq_true, if_false]
    have := (FR.Proofs.popRightN_length l 1).1
    omega
  · simp only [if_true]
    have := (FR.Proofs.popLeftN_length l 1).1
    omega

theorem filterMap_ints (ns : List Int) :
    (ns.map Arg.int).filterMap (fun a => match a with | .int n => some n | _ => none) = ns := by
  induction ns with
  | nil => rfl
  | cons n ns ih => simp [ih]

theorem nilOut {name : String} (hn : IsPop name) (raw : List Bytes) (ci : CI) :
    OneKeyOut name raw ci { reply := .nil, cis := [ci] } :=
  .inl ⟨rfl, popsOf_nil _, pushesOf_nil _ _⟩

/-- the inner function of `_list_pop` on the single `CommandItem` -/
def goPop (left : Bool) (ci : CI) (count : Nat) (single : Bool) : Except Err BodyOut :=
  if !ci.truthy then ret .nil [ci]
  else match ci.val with
    | some (.list l) =>
      ret (if single then Reply.ofOptBulk (if left then Cmd.popLeftN l count else Cmd.popRightN l count).1.head?
           else Reply.bulks (if left then Cmd.popLeftN l count else Cmd.popRightN l count).1)
        (Cmd.setList [ci] 0 (if left then Cmd.popLeftN l count else Cmd.popRightN l count).2)
    | _ => .error Msgs.WRONGTYPE_MSG

theorem listPop_nil (left : Bool) (ctx : Ctx) (ci : CI) :
    Cmd.listPop left ctx [.key 0] [ci] = goPop left ci 1 true := by
  unfold Cmd.listPop goPop
  simp only [List.filterMap_nil, List.length_nil, ciAt_single]
  rfl

theorem listPop_one (left : Bool) (ctx : Ctx) (ci : CI) (n : Int) :
    Cmd.listPop left ctx [.key 0, .int n] [ci] =
      if n < 0 then .error Msgs.INDEX_ERROR_MSG
      else if n == 0 && ctx.version == 6 then ret .nil [ci]
      else goPop left ci n.toNat false := by
  unfold Cmd.listPop goPop
  simp only [List.filterMap_cons, List.filterMap_nil, List.length_cons, List.length_nil, ciAt_single]
  rfl

theorem listPop_many (left : Bool) (ctx : Ctx) (ci : CI) (n m : Int) (rest : List Int) :
    Cmd.listPop left ctx (.key 0 :: .int n :: .int m :: rest.map Arg.int) [ci] = .error Msgs.SYNTAX_ERROR_MSG := by
  unfold Cmd.listPop
  simp only [List.filterMap_cons, List.length_cons]
  rw [if_pos (by omega)]

theorem goPop_out {name : String} (hn : IsPop name) (raw : List Bytes) (left : Bool) (ci : CI) (count : Nat) (single : Bool)
    (hs : single = true → count = 1) :
    (∃ e, goPop left ci count single = .error e) ∨
    ∃ out, goPop left ci count single = .ok out ∧ OneKeyOut name raw ci out := by
  unfold goPop
  cases ht : ci.truthy
  · right; exact ⟨_, rfl, nilOut hn raw ci⟩
  · simp only [Bool.not_true, Bool.false_eq_true, if_false]
    cases hv : ci.val with
    | none => exact .inl ⟨_, rfl⟩
    | some v =>
      cases v with
      | list l =>
        right
        refine ⟨_, rfl, .inr ⟨_, rfl, fun x => ?_⟩⟩
        rw [pushesOf_of_not hn.not_push, listOf_of_val hv]
        simp only [List.count_nil, Nat.add_zero]
        have hc := popN_count left l count x
        cases single
        · simp only [Bool.false_eq_true, if_false]
          rw [pops_counted hn]
          exact hc
        · simp only [if_true]
          have h1 := hs rfl
          subst h1
          rw [pops_single hn _ (pop1_length left l)]
          exact hc
      | _ => exact .inl ⟨_, rfl⟩

theorem listPop_out {name : String} (hn : IsPop name) (raw : List Bytes) (left : Bool) (ctx : Ctx) (ns : List Int) (ci : CI) :
    (∃ e, Cmd.listPop left ctx (.key 0 :: ns.map Arg.int) [ci] = .error e) ∨
    ∃ out, Cmd.listPop left ctx (.key 0 :: ns.map Arg.int) [ci] = .ok out ∧ OneKeyOut name raw ci out := by
  match ns with
  | [] =>
    rw [List.map_nil, listPop_nil]
    exact goPop_out hn raw left ci 1 true (fun _ => rfl)
  | [n] =>
    rw [List.map_cons, List.map_nil, listPop_one]
    split
    · exact .inl ⟨_, rfl⟩
    · split
      · exact .inr ⟨_, rfl, nilOut hn raw ci⟩
      · exact goPop_out hn raw left ci n.toNat false (fun h => by cases h)
  | n :: m :: rest =>
    rw [List.map_cons, List.map_cons, listPop_many]
    exact .inl ⟨_, rfl⟩

/-! ### LLEN / LRANGE -/

theorem keepOut {name : String} (h1 : ¬ IsPop name) (h2 : ¬ IsBPop name) (h3 : ¬ IsPush name) (raw : List Bytes)
    (ci : CI) (r : Reply) : OneKeyOut name raw ci { reply := r, cis := [ci] } :=
  .inl ⟨rfl, popsOf_of_not h1 h2 _, pushesOf_of_not h3 _ _⟩

theorem llen_out {name : String} (h1 : ¬ IsPop name) (h2 : ¬ IsBPop name) (h3 : ¬ IsPush name) (raw : List Bytes)
    (ctx : Ctx) (args : List Arg) (ci : CI) :
    (∃ e, Cmd.llen ctx args [ci] = .error e) ∨ ∃ out, Cmd.llen ctx args [ci] = .ok out ∧ OneKeyOut name raw ci out := by
  unfold Cmd.llen
  split
  · exact .inr ⟨_, rfl, keepOut h1 h2 h3 raw ci _⟩
  · exact .inl ⟨_, rfl⟩

theorem lrange_out {name : String} (h1 : ¬ IsPop name) (h2 : ¬ IsBPop name) (h3 : ¬ IsPush name) (raw : List Bytes)
    (ctx : Ctx) (args : List Arg) (ci : CI) :
    (∃ e, Cmd.lrange ctx args [ci] = .error e) ∨ ∃ out, Cmd.lrange ctx args [ci] = .ok out ∧ OneKeyOut name raw ci out := by
  unfold Cmd.lrange
  split
  · exact .inr ⟨_, rfl, keepOut h1 h2 h3 raw ci _⟩
  · exact .inl ⟨_, rfl⟩

/-! ### the single-key commands through the pure runner -/

theorem tail_all (sig : Sig) (ty : Option Ty) (fx : List ArgTy) (hfix : sig.fixed = .key ty .unspecified :: fx)
    (n : Nat) (har : sig.checkArity n = true) (P : ArgTy → Prop) (hfx : ∀ t ∈ fx, P t) (hrep : ∀ t ∈ sig.rep, P t) :
    ∀ t ∈ (sig.types n).tail, P t := by
  intro t ht
  rw [types_tail sig ty .unspecified fx hfix n, List.tail_cons, List.mem_append] at ht
  rcases ht with h | h
  · exact hfx t h
  · exact hrep t (types_rep_mem sig n har t h)

theorem zip_tail_fst (sig : Sig) (rest : List Bytes) (har : sig.checkArity (rest.length + 1) = true) :
    (rest.zip (sig.types (rest.length + 1)).tail).map (·.1) = rest := by
  apply List.map_fst_zip
  rw [List.length_tail, types_length sig _ har]
  omega

theorem push_conserve (sig : Sig) (body : Body) (hfix : sig.fixed = [kList, .bytes]) (hrep : sig.rep = [.bytes])
    (hn : IsPush sig.name)
    (hout : ∀ ctx k (vs : List (Bytes × ArgTy)) ci, ∃ out, body ctx (.key 0 :: vs.map fun x => Arg.raw x.1) [ci] = .ok out ∧
      OneKeyOut sig.name (k :: vs.map (·.1)) ci out)
    (ctx : Ctx) (gate : Option Err) (raw : List Bytes) {db : Db} (nd : NodupKeys db.dict) (ht : NoTTLd db.dict) :
    RegConserves sig.name raw db (runRegular sig body ctx gate raw db) := by
  refine regular1_conserve sig body (some .list) [.bytes] hfix (by simp [nonKey_bytes]) (by rw [hrep]; simp [nonKey_bytes])
    ?_ ctx gate raw nd ht
  intro ctx k rest as ci hd har _
  have hall := tail_all sig (some .list) [.bytes] hfix _ har (fun t => t = .bytes ∨ t = .sstr)
    (by simp) (by rw [hrep]; simp)
  rw [decodeAll_raw _ (fun x hx => hall _ (List.of_mem_zip hx).2)] at hd
  simp only [Except.ok.injEq] at hd
  subst hd
  obtain ⟨out, ho, hone⟩ := hout ctx k (rest.zip (sig.types (rest.length + 1)).tail) ci
  rw [zip_tail_fst sig rest har] at hone
  exact .inr ⟨out, ho, hone⟩

def sigLpush : Sig := ⟨"lpush", [kList, .bytes], [.bytes], false, 1, 0, true⟩
def sigRpush : Sig := ⟨"rpush", [kList, .bytes], [.bytes], false, 1, 0, true⟩
def sigLpushx : Sig := ⟨"lpushx", [kList, .bytes], [.bytes], false, 1, 0, true⟩
def sigRpushx : Sig := ⟨"rpushx", [kList, .bytes], [.bytes], false, 1, 0, true⟩
def sigLpop : Sig := ⟨"lpop", [kAny], [.int], false, 1, 0, true⟩
def sigRpop : Sig := ⟨"rpop", [kAny], [.int], false, 1, 0, true⟩
def sigLlen : Sig := ⟨"llen", [kList], [], false, 1, 0, false⟩
def sigLrange : Sig := ⟨"lrange", [kList, .int, .int], [], false, 3, 0, false⟩

theorem pop_conserve (sig : Sig) (left : Bool) (hfix : sig.fixed = [kAny]) (hrep : sig.rep = [.int])
    (hn : IsPop sig.name)
    (ctx : Ctx) (gate : Option Err) (raw : List Bytes) {db : Db} (nd : NodupKeys db.dict) (ht : NoTTLd db.dict) :
    RegConserves sig.name raw db (runRegular sig (Cmd.listPop left) ctx gate raw db) := by
  refine regular1_conserve sig _ none [] hfix (by simp) (by rw [hrep]; simp [nonKey_int]) ?_ ctx gate raw nd ht
  intro ctx k rest as ci hd har _
  have hall := tail_all sig none [] hfix _ har (fun t => t = .int) (by simp) (by rw [hrep]; simp)
  rcases decodeAll_int _ (fun x hx => hall _ (List.of_mem_zip hx).2) with ⟨e, he⟩ | ⟨ns, hns, _⟩
  · rw [he] at hd; cases hd
  · rw [hns] at hd
    simp only [Except.ok.injEq] at hd
    subst hd
    exact listPop_out hn (k :: rest) left ctx ns ci

theorem keep_conserve (sig : Sig) (body : Body) (fx : List ArgTy) (hfix : sig.fixed = kList :: fx)
    (hfx : ∀ t ∈ fx, NonKey t) (hrep : sig.rep = [])
    (hout : ∀ ctx args ci raw, (∃ e, body ctx args [ci] = .error e) ∨ ∃ out, body ctx args [ci] = .ok out ∧ OneKeyOut sig.name raw ci out)
    (ctx : Ctx) (gate : Option Err) (raw : List Bytes) {db : Db} (nd : NodupKeys db.dict) (ht : NoTTLd db.dict) :
    RegConserves sig.name raw db (runRegular sig body ctx gate raw db) := by
  refine regular1_conserve sig body (some .list) fx hfix hfx (by rw [hrep]; simp) ?_ ctx gate raw nd ht
  intro ctx k rest as ci _ _ _
  exact hout ctx _ ci _

/-- **the single-key regular list commands conserve** -/
theorem lpush_conserve (ctx : Ctx) (gate : Option Err) (raw : List Bytes) {db : Db} (nd : NodupKeys db.dict) (ht : NoTTLd db.dict) :
    RegConserves "lpush" raw db (runRegular sigLpush Cmd.lpush ctx gate raw db) :=
  push_conserve sigLpush Cmd.lpush rfl rfl (.inl rfl) (fun ctx k vs ci => lpush_out (.inl rfl) ctx k vs ci) ctx gate raw nd ht

theorem rpush_conserve (ctx : Ctx) (gate : Option Err) (raw : List Bytes) {db : Db} (nd : NodupKeys db.dict) (ht : NoTTLd db.dict) :
    RegConserves "rpush" raw db (runRegular sigRpush Cmd.rpush ctx gate raw db) :=
  push_conserve sigRpush Cmd.rpush rfl rfl (.inr (.inl rfl)) (fun ctx k vs ci => rpush_out (.inr (.inl rfl)) ctx k vs ci) ctx gate raw nd ht

theorem lpushx_conserve (ctx : Ctx) (gate : Option Err) (raw : List Bytes) {db : Db} (nd : NodupKeys db.dict) (ht : NoTTLd db.dict) :
    RegConserves "lpushx" raw db (runRegular sigLpushx Cmd.lpushx ctx gate raw db) :=
  push_conserve sigLpushx Cmd.lpushx rfl rfl (.inr (.inr (.inl rfl)))
    (fun ctx k vs ci => lpushx_out (.inr (.inr (.inl rfl))) ctx k vs ci) ctx gate raw nd ht

theorem rpushx_conserve (ctx : Ctx) (gate : Option Err) (raw : List Bytes) {db : Db} (nd : NodupKeys db.dict) (ht : NoTTLd db.dict) :
    RegConserves "rpushx" raw db (runRegular sigRpushx Cmd.rpushx ctx gate raw db) :=
  push_conserve sigRpushx Cmd.rpushx rfl rfl (.inr (.inr (.inr rfl)))
    (fun ctx k vs ci => rpushx_out (.inr (.inr (.inr rfl))) ctx k vs ci) ctx gate raw nd ht

theorem lpop_conserve (ctx : Ctx) (gate : Option Err) (raw : List Bytes) {db : Db} (nd : NodupKeys db.dict) (ht : NoTTLd db.dict) :
    RegConserves "lpop" raw db (runRegular sigLpop Cmd.lpop ctx gate raw db) :=
  pop_conserve sigLpop true rfl rfl (.inl rfl) ctx gate raw nd ht

theorem rpop_conserve (ctx : Ctx) (gate : Option Err) (raw : List Bytes) {db : Db} (nd : NodupKeys db.dict) (ht : NoTTLd db.dict) :
    RegConserves "rpop" raw db (runRegular sigRpop Cmd.rpop ctx gate raw db) :=
  pop_conserve sigRpop false rfl rfl (.inr rfl) ctx gate raw nd ht

theorem llen_conserve (ctx : Ctx) (gate : Option Err) (raw : List Bytes) {db : Db} (nd : NodupKeys db.dict) (ht : NoTTLd db.dict) :
    RegConserves "llen" raw db (runRegular sigLlen Cmd.llen ctx gate raw db) :=
  keep_conserve sigLlen Cmd.llen [] rfl (by simp) rfl
    (fun ctx args ci raw => llen_out (by decide) (by decide) (by decide) raw ctx args ci) ctx gate raw nd ht

theorem lrange_conserve (ctx : Ctx) (gate : Option Err) (raw : List Bytes) {db : Db} (nd : NodupKeys db.dict) (ht : NoTTLd db.dict) :
    RegConserves "lrange" raw db (runRegular sigLrange Cmd.lrange ctx gate raw db) :=
  keep_conserve sigLrange Cmd.lrange [.int, .int] rfl (by simp [nonKey_int]) rfl
    (fun ctx args ci raw => lrange_out (by decide) (by decide) (by decide) raw ctx args ci) ctx gate raw nd ht

/-! ### the two-key commands: signatures -/

def sigRpoplpush : Sig := ⟨"rpoplpush", [.key (some .list) .nil, kList], [], false, 2, 0, false⟩
def sigLmove : Sig := ⟨"lmove", [.key (some .list) .nil, kList, .sstr, .sstr], [], false, 4, 0, false⟩


theorem applyL_rpoplpush (s d : Bytes) (live : Bytes → Option Item) :
    applyL sigRpoplpush [s, d] live =
      match live s with
      | none => .ok (.short .nil)
      | some _ =>
        match keyCI live (some .list) s, keyCI live (some .list) d with
        | .ok cs, .ok cd => .ok (.ok [.key 0, .key 1] [cs, cd])
        | .error e, _ => .error e
        | _, .error e => .error e := by
  cases hs : live s <;> cases hd : live d <;>
    simp [applyL, Sig.checkArity, Sig.types, pass1L, pass2L, sigRpoplpush, kList, keyCI, hs, hd, Sig.missingReply]
  · rename_i it
    by_cases h1 : it.value.ty = Ty.list <;> simp [h1]
  · rename_i it it2
    by_cases h1 : it.value.ty = Ty.list <;> by_cases h2 : it2.value.ty = Ty.list <;> simp [h1, h2]

theorem applyL_lmove (s d a b : Bytes) (live : Bytes → Option Item) :
    applyL sigLmove [s, d, a, b] live =
      match live s with
      | none => .ok (.short .nil)
      | some _ =>
        match keyCI live (some .list) s, keyCI live (some .list) d with
        | .ok cs, .ok cd => .ok (.ok [.key 0, .key 1, .raw a, .raw b] [cs, cd])
        | .error e, _ => .error e
        | _, .error e => .error e := by
  cases hs : live s <;> cases hd : live d <;>
    simp [applyL, Sig.checkArity, Sig.types, pass1L, pass2L, sigLmove, kList, keyCI, hs, hd, Sig.missingReply, Conv.decode]
  · rename_i it
    by_cases h1 : it.value.ty = Ty.list <;> simp [h1]
  · rename_i it it2
    by_cases h1 : it.value.ty = Ty.list <;> by_cases h2 : it2.value.ty = Ty.list <;> simp [h1, h2]


/-! ### the two-key commands -/

theorem two_key_conserve {db : Db} (nd : NodupKeys db.dict) (ht : NoTTLd db.dict) {cs cd : CI} {ks kd : Bytes}
    (hfs : FaithfulCI db.dict ks cs) (hfd : FaithfulCI db.dict kd cd) (l1 l2 : List Bytes)
    (hbal : if cs.key = cd.key then l1 = l2 ∧ ∀ x, l2.count x = (Cmd.listOf cs).count x
      else ∀ x, l1.count x + l2.count x = (Cmd.listOf cs).count x + (Cmd.listOf cd).count x) :
    NoTTLd (writebackPure db [{ cs with val := some (.list l1), modified := true },
        { cd with val := some (.list l2), modified := true }]).1.dict ∧
    ∀ x, (dictElems (writebackPure db [{ cs with val := some (.list l1), modified := true },
        { cd with val := some (.list l2), modified := true }]).1.dict).count x = (dictElems db.dict).count x := by
  have hL1 : ListCI ({ cs with val := some (.list l1), modified := true } : CI) l1 := ⟨rfl, rfl, hfs.exp⟩
  have hL2 : ListCI ({ cd with val := some (.list l2), modified := true } : CI) l2 := ⟨rfl, rfl, hfd.exp⟩
  rw [writebackPure_cons, writebackPure_cons, writebackPure_nil]
  have nd1 := CI.writeback_nodup ({ cs with val := some (.list l1), modified := true } : CI) nd
  have ht1 := noTTL_writeback ht hL1
  refine ⟨noTTL_writeback ht1 hL2, fun x => ?_⟩
  have h1 := count_writeback nd ht hL1 x
  have h2 := count_writeback nd1 ht1 hL2 x
  have e0s : elemsAt db.dict ({ cs with val := some (.list l1), modified := true } : CI).key = Cmd.listOf cs := by
    rw [hfs.elems]; show elemsAt db.dict cs.key = _; rw [hfs.key]
  rw [e0s] at h1
  by_cases hk : cs.key = cd.key
  · rw [if_pos hk] at hbal
    have e1 : elemsAt (CI.writeback { cs with val := some (.list l1), modified := true } db).1.dict
        ({ cd with val := some (.list l2), modified := true } : CI).key = l1 := by
      show elemsAt _ cd.key = _
      rw [← hk]
      exact elemsAt_writeback_self ht hL1
    rw [e1] at h2
    obtain ⟨rfl, hb⟩ := hbal
    have := hb x
    simp only at h1 h2 ⊢
    omega
  · rw [if_neg hk] at hbal
    have e1 : elemsAt (CI.writeback { cs with val := some (.list l1), modified := true } db).1.dict
        ({ cd with val := some (.list l2), modified := true } : CI).key = Cmd.listOf cd := by
      show elemsAt _ cd.key = _
      rw [elemsAt_writeback_ne ht hL1 (fun e => hk e.symm), hfd.elems, hfd.key]
    rw [e1] at h2
    have := hbal x
    simp only at h1 h2 ⊢
    omega

theorem moveCore_out (cs cd : CI) (fromLeft toLeft : Bool) :
    ∃ out, Cmd.moveCore [cs, cd] 0 1 fromLeft toLeft = .ok out ∧
      (out.cis = [cs, cd] ∨ ∃ l1 l2, out.cis = [{ cs with val := some (.list l1), modified := true },
          { cd with val := some (.list l2), modified := true }] ∧
        (if cs.key = cd.key then l1 = l2 ∧ ∀ x, l2.count x = (Cmd.listOf cs).count x
          else ∀ x, l1.count x + l2.count x = (Cmd.listOf cs).count x + (Cmd.listOf cd).count x)) := by
  unfold Cmd.moveCore
  have hc0 : ciAt [cs, cd] 0 = cs := rfl
  have hc1 : ciAt [cs, cd] 1 = cd := rfl
  simp only [hc0, hc1]
  have hcnt := popN_count fromLeft (Cmd.listOf cs) 1
  have hlen := pop1_length fromLeft (Cmd.listOf cs)
  generalize (if fromLeft = true then Cmd.popLeftN (Cmd.listOf cs) 1 else Cmd.popRightN (Cmd.listOf cs) 1) = pr at hcnt hlen
  obtain ⟨popped, remaining⟩ := pr
  simp only at hcnt hlen ⊢
  match popped, hlen with
  | [], _ => exact ⟨_, rfl, .inl rfl⟩
  | [el], _ =>
    simp only [List.head?_cons]
    by_cases hk : cs.key = cd.key
    · have hb : (cs.key == cd.key) = true := by simpa using hk
      simp only [hb, if_true]
      refine ⟨_, rfl, .inr ⟨_, _, rfl, ?_⟩⟩
      rw [if_pos hk]
      refine ⟨rfl, fun x => ?_⟩
      have := hcnt x
      cases toLeft <;> simp only [List.count_cons, List.count_append, List.count_nil, if_true, Bool.false_eq_true, if_false] at this ⊢ <;> omega
    · have hb : (cs.key == cd.key) = false := by simpa using hk
      simp only [hb, Bool.false_eq_true, if_false]
      refine ⟨_, rfl, .inr ⟨_, _, rfl, ?_⟩⟩
      rw [if_neg hk]
      intro x
      have := hcnt x
      cases toLeft <;> simp only [List.count_cons, List.count_append, List.count_nil, if_true, Bool.false_eq_true, if_false] at this ⊢ <;> omega
  | _ :: _ :: _, h => simp at h

theorem applyL_arity_err (sig : Sig) (raw : List Bytes) (live : Bytes → Option Item)
    (h : sig.checkArity raw.length = false) : applyL sig raw live = .error sig.wrongArgs := by
  unfold applyL; simp [h]

/-- the shapes of `Signature.apply` for RPOPLPUSH / LMOVE -/
def MoveApplied (sig : Sig) (body : Body) (raw : List Bytes) (live : Bytes → Option Item) : Prop :=
  (∃ e, applyL sig raw live = .error e) ∨ applyL sig raw live = .ok (.short .nil) ∨
  ∃ s d cs cd args, applyL sig raw live = .ok (.ok args [cs, cd]) ∧
    keyCI live (some .list) s = .ok cs ∧ keyCI live (some .list) d = .ok cd ∧
    ∀ ctx, (∃ e, body ctx args [cs, cd] = .error e) ∨ ∃ fl tl, body ctx args [cs, cd] = Cmd.moveCore [cs, cd] 0 1 fl tl

theorem moveApplied_of {sig : Sig} {body : Body} {raw : List Bytes} {live : Bytes → Option Item} {s d : Bytes} {args : List Arg}
    (h : applyL sig raw live =
      match live s with
      | none => .ok (.short .nil)
      | some _ =>
        match keyCI live (some .list) s, keyCI live (some .list) d with
        | .ok cs, .ok cd => .ok (.ok args [cs, cd])
        | .error e, _ => .error e
        | _, .error e => .error e)
    (hb : ∀ ctx cs cd, (∃ e, body ctx args [cs, cd] = .error e) ∨ ∃ fl tl, body ctx args [cs, cd] = Cmd.moveCore [cs, cd] 0 1 fl tl) :
    MoveApplied sig body raw live := by
  rw [MoveApplied, h]
  cases live s with
  | none => exact .inr (.inl rfl)
  | some it =>
    simp only
    cases hs : keyCI live (some .list) s with
    | error e => exact .inl ⟨e, rfl⟩
    | ok cs =>
      cases hd : keyCI live (some .list) d with
      | error e => exact .inl ⟨e, rfl⟩
      | ok cd => exact .inr (.inr ⟨s, d, cs, cd, args, rfl, hs, hd, fun ctx => hb ctx cs cd⟩)

theorem rpoplpush_applied (raw : List Bytes) (live : Bytes → Option Item) :
    MoveApplied sigRpoplpush Cmd.rpoplpush raw live := by
  match raw with
  | [s, d] =>
    exact moveApplied_of (applyL_rpoplpush s d live) (fun ctx cs cd => .inr ⟨false, true, rfl⟩)
  | [] => exact .inl ⟨_, applyL_arity_err _ _ _ rfl⟩
  | [_] => exact .inl ⟨_, applyL_arity_err _ _ _ rfl⟩
  | _ :: _ :: _ :: rest =>
    refine .inl ⟨_, applyL_arity_err _ _ _ ?_⟩
    simp [Sig.checkArity, sigRpoplpush]

theorem lmove_applied (raw : List Bytes) (live : Bytes → Option Item) :
    MoveApplied sigLmove Cmd.lmove raw live := by
  match raw with
  | [s, d, a, b] =>
    refine moveApplied_of (applyL_lmove s d a b live) (fun ctx cs cd => ?_)
    unfold Cmd.lmove
    simp only
    split
    · exact .inl ⟨_, rfl⟩
    · split
      · exact .inl ⟨_, rfl⟩
      · exact .inr ⟨_, _, rfl⟩
  | [] => exact .inl ⟨_, applyL_arity_err _ _ _ rfl⟩
  | [_] => exact .inl ⟨_, applyL_arity_err _ _ _ rfl⟩
  | [_, _] => exact .inl ⟨_, applyL_arity_err _ _ _ rfl⟩
  | [_, _, _] => exact .inl ⟨_, applyL_arity_err _ _ _ rfl⟩
  | _ :: _ :: _ :: _ :: _ :: rest =>
    refine .inl ⟨_, applyL_arity_err _ _ _ ?_⟩
    simp [Sig.checkArity, sigLmove]

theorem move_conserve (sig : Sig) (body : Body) (h1 : ¬ IsPop sig.name) (h2 : ¬ IsBPop sig.name) (h3 : ¬ IsPush sig.name)
    (happ : ∀ raw live, MoveApplied sig body raw live)
    (ctx : Ctx) (gate : Option Err) (raw : List Bytes) {db : Db} (nd : NodupKeys db.dict) (ht : NoTTLd db.dict) :
    RegConserves sig.name raw db (runRegular sig body ctx gate raw db) := by
  unfold RegConserves
  simp only [popsOf_of_not h1 h2, pushesOf_of_not h3, List.count_nil, Nat.add_zero]
  rcases runRegular_noTTL sig body ctx gate raw nd ht with ⟨hdb, _⟩ | ⟨args, cis, out, hap, hb, hdb, _⟩
  · rw [hdb]; exact ⟨ht, fun _ => rfl⟩
  · rw [hdb]
    rcases happ raw (fun k => db.dict.lookup k) with ⟨e, he⟩ | he | ⟨s, d, cs, cd, args', he, hcs, hcd, hbody⟩
    · rw [he] at hap; cases hap
    · rw [he] at hap; cases hap
    · rw [he] at hap
      simp only [Except.ok.injEq, Sig.Applied.ok.injEq] at hap
      obtain ⟨rfl, rfl⟩ := hap
      have hfs := keyCI_faithful ht hcs
      have hfd := keyCI_faithful ht hcd
      rcases hbody ctx with ⟨e, he'⟩ | ⟨fl, tl, he'⟩
      · rw [he'] at hb; cases hb
      · rw [he'] at hb
        obtain ⟨out', ho, hcases⟩ := moveCore_out cs cd fl tl
        rw [ho] at hb
        simp only [Except.ok.injEq] at hb
        subst hb
        rcases hcases with hc | ⟨l1, l2, hc, hbal⟩
        · rw [hc, writebackPure_clean (by
            intro c hc'
            simp only [List.mem_cons, List.not_mem_nil, or_false] at hc'
            rcases hc' with rfl | rfl
            · exact ⟨hfs.mod, hfs.exm⟩
            · exact ⟨hfd.mod, hfd.exm⟩)]
          exact ⟨ht, fun _ => rfl⟩
        · rw [hc]
          exact two_key_conserve nd ht hfs hfd l1 l2 hbal

theorem rpoplpush_conserve (ctx : Ctx) (gate : Option Err) (raw : List Bytes) {db : Db} (nd : NodupKeys db.dict) (ht : NoTTLd db.dict) :
    RegConserves "rpoplpush" raw db (runRegular sigRpoplpush Cmd.rpoplpush ctx gate raw db) :=
  move_conserve sigRpoplpush Cmd.rpoplpush (by decide) (by decide) (by decide) rpoplpush_applied ctx gate raw nd ht

theorem lmove_conserve (ctx : Ctx) (gate : Option Err) (raw : List Bytes) {db : Db} (nd : NodupKeys db.dict) (ht : NoTTLd db.dict) :
    RegConserves "lmove" raw db (runRegular sigLmove Cmd.lmove ctx gate raw db) :=
  move_conserve sigLmove Cmd.lmove (by decide) (by decide) (by decide) lmove_applied ctx gate raw nd ht


/-! ## all regular commands of the family -/

/-- the regular (non-blocking) commands of the list family -/
def regNames : List String :=
  ["lpush", "rpush", "lpushx", "rpushx", "lpop", "rpop", "rpoplpush", "lmove", "llen", "lrange"]

/-- **Conservation by the regular list commands**, for the signature and body the tables give them. -/
theorem regular_family_conserve (sig : Sig) (body : Body) (hfind : SigTable.find sig.name = some sig)
    (hreg : Cmd.regular sig.name = some body) (hn : sig.name ∈ regNames)
    (ctx : Ctx) (gate : Option Err) (raw : List Bytes) {db : Db} (nd : NodupKeys db.dict) (ht : NoTTLd db.dict) :
    RegConserves sig.name raw db (runRegular sig body ctx gate raw db) := by
  have key : ∀ (n : String) (sg : Sig) (bd : Body), sig.name = n → SigTable.find n = some sg → Cmd.regular n = some bd →
      RegConserves n raw db (runRegular sg bd ctx gate raw db) →
      RegConserves sig.name raw db (runRegular sig body ctx gate raw db) := by
    intro n sg bd hname hf hr hc
    rw [hname] at hfind hreg
    rw [hf] at hfind
    rw [hr] at hreg
    have e1 : sg = sig := Option.some.inj hfind
    have e2 : bd = body := Option.some.inj hreg
    subst e1 e2
    rw [hname]; exact hc
  simp only [regNames, List.mem_cons, List.not_mem_nil, or_false] at hn
  rcases hn with h | h | h | h | h | h | h | h | h | h
  · exact key "lpush" sigLpush Cmd.lpush h rfl rfl (lpush_conserve ctx gate raw nd ht)
  · exact key "rpush" sigRpush Cmd.rpush h rfl rfl (rpush_conserve ctx gate raw nd ht)
  · exact key "lpushx" sigLpushx Cmd.lpushx h rfl rfl (lpushx_conserve ctx gate raw nd ht)
  · exact key "rpushx" sigRpushx Cmd.rpushx h rfl rfl (rpushx_conserve ctx gate raw nd ht)
  · exact key "lpop" sigLpop Cmd.lpop h rfl rfl (lpop_conserve ctx gate raw nd ht)
  · exact key "rpop" sigRpop Cmd.rpop h rfl rfl (rpop_conserve ctx gate raw nd ht)
  · exact key "rpoplpush" sigRpoplpush Cmd.rpoplpush h rfl rfl (rpoplpush_conserve ctx gate raw nd ht)
  · exact key "lmove" sigLmove Cmd.lmove h rfl rfl (lmove_conserve ctx gate raw nd ht)
  · exact key "llen" sigLlen Cmd.llen h rfl rfl (llen_conserve ctx gate raw nd ht)
  · exact key "lrange" sigLrange Cmd.lrange h rfl rfl (lrange_conserve ctx gate raw nd ht)

end FR.C11c
