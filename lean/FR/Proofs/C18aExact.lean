import FR.Proofs.C18aAlg
import Mathlib.Data.Rat.Floor
/-!
# C18a helper — exact cases of `add` / `mul`, `ofInt`, `truncToInt`, `plusZero`
-/
namespace FR.C18a
open FR FR.C18f FR.DumpRound

/-- EXACT WHEN REPRESENTABLE: if the exact sum is the value of a canonical double `c ≠ 0`, the sum IS `c` -/
theorem add_exact {a b : Dbl} {x y : ℚ} (ha : a.toRat = some x) (hb : b.toRat = some y)
    (n : Bool) (m : Nat) (e : Int) (hwf : Dbl.WF (.fin n m e)) (hm : m ≠ 0) (h : x + y = Dbl.val (.fin n m e)) :
    Dbl.add a b = .fin n m e := by
  rw [add_eq_RN ha hb, h]; exact RN_val_of_ne _ n m e hwf hm

theorem mul_exact {a b : Dbl} {x y : ℚ} (ha : a.toRat = some x) (hb : b.toRat = some y)
    (n : Bool) (m : Nat) (e : Int) (hwf : Dbl.WF (.fin n m e)) (hm : m ≠ 0) (h : x * y = Dbl.val (.fin n m e)) :
    Dbl.mul a b = .fin n m e := by
  rw [mul_eq_RN ha hb, h]; exact RN_val_of_ne _ n m e hwf hm

/-- an exact zero sum: `+0`, unless both operands carry the sign bit -/
theorem add_zero_sum {a b : Dbl} {x y : ℚ} (ha : a.toRat = some x) (hb : b.toRat = some y) (h : x + y = 0) :
    Dbl.add a b = .fin (a.signBit && b.signBit) 0 (-1074) := by
  rw [add_eq_RN ha hb, h, RN_zero]

theorem val_eq_zero_iff (n : Bool) (m : Nat) (e : Int) : Dbl.val (.fin n m e) = 0 ↔ m = 0 := by
  rw [val_fin, mul_assoc]
  constructor
  · intro h
    rcases mul_eq_zero.mp h with h | h
    · exact absurd h (sgn_ne_zero n)
    · rcases mul_eq_zero.mp h with h | h
      · exact_mod_cast h
      · exact absurd h (two_zpow_pos e).ne'
  · rintro rfl; simp

theorem val_neg_iff (n : Bool) (m : Nat) (e : Int) : Dbl.val (.fin n m e) < 0 ↔ n = true ∧ m ≠ 0 := by
  obtain ⟨v1, v2⟩ := val_sign n m e
  have hz := val_eq_zero_iff n m e
  constructor
  · intro h
    cases n
    · have := v2 rfl; linarith
    · exact ⟨rfl, fun hm => by rw [hz.mpr hm] at h; exact lt_irrefl _ h⟩
  · rintro ⟨rfl, hm⟩
    exact lt_of_le_of_ne (v1 rfl) (fun h => hm (hz.mp h))

theorem val_pos_iff (n : Bool) (m : Nat) (e : Int) : 0 < Dbl.val (.fin n m e) ↔ n = false ∧ m ≠ 0 := by
  obtain ⟨v1, v2⟩ := val_sign n m e
  have hz := val_eq_zero_iff n m e
  constructor
  · intro h
    cases n
    · exact ⟨rfl, fun hm => by rw [hz.mpr hm] at h; exact lt_irrefl _ h⟩
    · have := v1 rfl; linarith
  · rintro ⟨rfl, hm⟩
    exact lt_of_le_of_ne (v2 rfl) (fun h => hm (hz.mp h.symm))

theorem val_flip (n : Bool) (m : Nat) (e : Int) : Dbl.val (.fin (!n) m e) = - Dbl.val (.fin n m e) := by
  rw [val_fin, val_fin]; cases n <;> simp

/-- `x + (−x) = +0` for every finite `x` (zeros included) -/
theorem add_neg_self (n : Bool) (m : Nat) (e : Int) :
    Dbl.add (.fin n m e) (.fin (!n) m e) = .fin false 0 (-1074) := by
  rw [add_fin_eq_RN, val_flip, add_neg_cancel, RN_zero]
  cases n <;> rfl

/-- `x * 1 = x` -/
theorem mul_one' (n : Bool) (m : Nat) (e : Int) (hwf : Dbl.WF (.fin n m e)) :
    Dbl.mul (.fin n m e) Dbl.one = .fin n m e := by
  have h1 : Dbl.val Dbl.one = 1 := by
    show Dbl.val (.fin false (Dbl.pow2 52) (-52)) = 1
    rw [val_fin, pow2_eq]
    norm_num
  show Dbl.mul (.fin n m e) (.fin false (Dbl.pow2 52) (-52)) = _
  rw [mul_fin_eq_RN]
  change Dbl.RN (n != false) (Dbl.val (.fin n m e) * Dbl.val Dbl.one) = _
  rw [h1, mul_one, Bool.bne_false]
  exact RN_val n m e hwf

/-- `x + (+0) = x` unless `x = -0` (then the sum is `+0`) -/
theorem add_zero' (n : Bool) (m : Nat) (e : Int) (hwf : Dbl.WF (.fin n m e)) :
    Dbl.add (.fin n m e) Dbl.zero = if m = 0 then .fin false 0 (-1074) else .fin n m e := by
  show Dbl.add (.fin n m e) (.fin false 0 (-1074)) = _
  rw [add_fin_eq_RN, Bool.and_false]
  have h0 : Dbl.val (.fin false 0 (-1074)) = 0 := (val_eq_zero_iff _ _ _).mpr rfl
  rw [h0, add_zero]
  split
  · rename_i hm; subst hm
    rw [(val_eq_zero_iff n 0 e).mpr rfl, RN_zero]
  · rename_i hm; exact RN_val_of_ne _ n m e hwf hm

/-- `0.0 + d`: identity on canonical doubles, except that `-0` becomes `+0` -/
theorem plusZero_eq (d : Dbl) (hwf : Dbl.WF d) :
    d.plusZero = if d.isZero then .fin false 0 (-1074) else d := by
  cases d with
  | nan => rfl
  | inf n => rfl
  | fin n m e =>
    unfold Dbl.plusZero
    rw [add_comm', add_zero' n m e hwf]
    cases m <;> rfl

/-! ### `ofInt` -/

theorem ofInt_eq_RN (n : Int) : Dbl.ofInt n = Dbl.RN false (n : ℚ) := by
  unfold Dbl.ofInt Dbl.RN
  by_cases h : n = 0
  · subst h; simp [Dbl.zero]
  · have hb : (n == 0) = false := by simpa using h
    have hq : (n : ℚ) ≠ 0 := by exact_mod_cast h
    rw [hb, if_neg hq]
    simp only [Bool.false_eq_true, if_false]
    have hneg : decide (n < 0) = decide ((n : ℚ) < 0) := by
      congr 1; rw [eq_iff_iff]; exact Int.cast_lt_zero.symm
    rw [hneg]
    symm
    apply roundAbs_of_abs _ _ _ _ (by decide)
    rw [← Int.cast_abs, Int.abs_eq_natAbs]
    simp

/-- `ofInt n` is exact for `|n| ≤ 2^53` -/
theorem ofInt_exact (n : Int) (h : n.natAbs ≤ 2 ^ 53) :
    ∃ m e, Dbl.ofInt n = .fin (decide (n < 0)) m e ∧ Dbl.val (.fin (decide (n < 0)) m e) = (n : ℚ) := by
  by_cases h0 : n = 0
  · subst h0; exact ⟨0, -1074, rfl, by rw [val_fin]; simp⟩
  · by_cases h53 : n.natAbs = 2 ^ 53
    · refine ⟨2 ^ 52, 1, ?_, ?_⟩
      · have hb : (n == 0) = false := by simpa using h0
        unfold Dbl.ofInt
        rw [hb, h53]
        simp only [Bool.false_eq_true, if_false]
        cases decide (n < 0) <;> decide +kernel
      · rw [val_fin]
        by_cases hn : n < 0
        · have : n = -(2 ^ 53 : Int) := by omega
          subst this; norm_num
        · have : n = (2 ^ 53 : Int) := by omega
          subst this; norm_num
    · have hb : (n == 0) = false := by simpa using h0
      obtain ⟨m, e, hr, he1, he2, hm⟩ :=
        roundPos_exact_int (decide (n < 0)) n.natAbs (by omega) (by omega)
      refine ⟨m, e, ?_, ?_⟩
      · unfold Dbl.ofInt
        rw [hb]; simpa using hr
      · obtain ⟨k, hk⟩ : ∃ k : Nat, e = -(k : Int) := ⟨(-e).toNat, by omega⟩
        subst hk
        have hk' : (- -(k : Int)).toNat = k := by omega
        rw [hk'] at hm
        rw [val_fin, hm, zpow_neg, zpow_natCast]
        push_cast
        have hp : ((2 : ℚ) ^ k) ≠ 0 := by positivity
        have hcast : ((n.natAbs : Nat) : ℚ) = |(n : ℚ)| := by
          rw [← Int.cast_abs, Int.abs_eq_natAbs]; simp
        rw [hcast]
        by_cases hn : n < 0
        · have hq : (n : ℚ) < 0 := by exact_mod_cast hn
          simp only [hn, decide_true, if_true, abs_of_neg hq]
          field_simp
        · have hq : (0 : ℚ) ≤ (n : ℚ) := by exact_mod_cast (not_lt.mp hn)
          simp only [hn, decide_false, Bool.false_eq_true, if_false, abs_of_nonneg hq]
          field_simp

theorem ofInt_toRat (n : Int) (h : n.natAbs ≤ 2 ^ 53) : (Dbl.ofInt n).toRat = some (n : ℚ) := by
  obtain ⟨m, e, h1, h2⟩ := ofInt_exact n h
  rw [h1]; show some _ = some _; rw [h2]

theorem ofInt_signBit (n : Int) (h : n.natAbs ≤ 2 ^ 53) : (Dbl.ofInt n).signBit = decide (n < 0) := by
  obtain ⟨m, e, h1, _⟩ := ofInt_exact n h
  rw [h1]; rfl

/-- integer sums are exact as long as the operands are (the sum may exceed `2^53`: it is then correctly rounded) -/
theorem add_ofInt (i j : Int) (hi : i.natAbs ≤ 2 ^ 53) (hj : j.natAbs ≤ 2 ^ 53) :
    Dbl.add (Dbl.ofInt i) (Dbl.ofInt j) = Dbl.ofInt (i + j) := by
  rw [add_eq_RN (ofInt_toRat i hi) (ofInt_toRat j hj), ofInt_signBit i hi, ofInt_signBit j hj, ofInt_eq_RN (i + j)]
  push_cast
  by_cases h : ((i : ℚ) + (j : ℚ)) = 0
  · rw [h, RN_zero, RN_zero]
    have : i + j = 0 := by exact_mod_cast h
    have : ¬ (i < 0 ∧ j < 0) := by omega
    have : (decide (i < 0) && decide (j < 0)) = false := by simpa using this
    rw [this]
  · rw [RN_of_ne h, RN_of_ne h]

/-- integer products: exact/correctly rounded; a zero product has the xor sign (`0 * -5 = -0`) -/
theorem mul_ofInt (i j : Int) (hi : i.natAbs ≤ 2 ^ 53) (hj : j.natAbs ≤ 2 ^ 53) (h0 : i * j ≠ 0) :
    Dbl.mul (Dbl.ofInt i) (Dbl.ofInt j) = Dbl.ofInt (i * j) := by
  rw [mul_eq_RN (ofInt_toRat i hi) (ofInt_toRat j hj), ofInt_eq_RN (i * j)]
  push_cast
  have h : ((i : ℚ) * (j : ℚ)) ≠ 0 := by exact_mod_cast h0
  rw [RN_of_ne h, RN_of_ne h]

/-! ### `truncToInt` -/

theorem truncToInt_fin (n : Bool) (m : Nat) (e : Int) :
    Dbl.truncToInt (.fin n m e) = (if n then -1 else 1) * ⌊(m : ℚ) * (2 : ℚ) ^ e⌋ := by
  have hmag : (((if e ≥ 0 then m * Dbl.pow2 e.toNat else m / Dbl.pow2 (-e).toNat : Nat)) : Int) =
      ⌊(m : ℚ) * (2 : ℚ) ^ e⌋ := by
    simp only [pow2_eq]
    split
    · rename_i he
      have : e = (e.toNat : Int) := by omega
      conv_rhs => rw [this, zpow_natCast]
      have : (m : ℚ) * (2 : ℚ) ^ e.toNat = ((m * 2 ^ e.toNat : Nat) : ℚ) := by push_cast; ring
      rw [this, Int.floor_natCast]
    · rename_i he
      have : e = -((-e).toNat : Int) := by omega
      conv_rhs => rw [this, zpow_neg, zpow_natCast, ← div_eq_mul_inv]
      have : (m : ℚ) / (2 : ℚ) ^ (-e).toNat = ((m : Int) : ℚ) / ((2 ^ (-e).toNat : Nat) : ℚ) := by push_cast; ring
      rw [this, Rat.floor_intCast_div_natCast]
      push_cast
      rfl
  unfold Dbl.truncToInt
  simp only []
  rw [hmag]
  cases n <;> simp

/-- `truncToInt` is truncation toward zero of the value -/
theorem truncToInt_eq (n : Bool) (m : Nat) (e : Int) :
    Dbl.truncToInt (.fin n m e) =
      if Dbl.val (.fin n m e) < 0 then ⌈Dbl.val (.fin n m e)⌉ else ⌊Dbl.val (.fin n m e)⌋ := by
  rw [truncToInt_fin, val_fin]
  cases n
  · have : ¬ ((if false = true then (-1 : ℚ) else 1) * (m : ℚ) * (2 : ℚ) ^ e < 0) := by
      simp only [Bool.false_eq_true, if_false, one_mul, not_lt]
      exact mul_nonneg (by positivity) (two_zpow_pos e).le
    rw [if_neg this]
    simp
  · simp only [if_true]
    have e1 : (-1 : ℚ) * (m : ℚ) * (2 : ℚ) ^ e = -((m : ℚ) * (2 : ℚ) ^ e) := by ring
    rw [e1, Int.ceil_neg, Int.floor_neg]
    split
    · ring
    · rename_i h
      have h0 : (m : ℚ) * (2 : ℚ) ^ e = 0 := by
        have : (0 : ℚ) ≤ (m : ℚ) * (2 : ℚ) ^ e := mul_nonneg (by positivity) (two_zpow_pos e).le
        have := not_lt.mp h
        linarith
      rw [h0]; simp

end FR.C18a
