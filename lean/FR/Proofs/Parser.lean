import FR.Proofs.Decimal
/-! Helper lemmas on the RESP request parser (`splitLine`, `headerNum`, `parseFields`, `tryParse`). -/
namespace FR

/-! ### `splitLine` -/

theorem splitLine_append_lf (l r : Bytes) (h : ∀ c ∈ l, c ≠ 10) :
    splitLine (l ++ 10 :: r) = some (l ++ [10], r) := by
  induction l with
  | nil => simp [splitLine]
  | cons c cs ih =>
    have hc : c ≠ 10 := h c (by simp)
    have ih' := ih (fun x hx => h x (by simp [hx]))
    simp only [List.cons_append, splitLine, beq_iff_eq, hc, if_false, ih']

theorem splitLine_append_right {b l r : Bytes} (x : Bytes) (h : splitLine b = some (l, r)) :
    splitLine (b ++ x) = some (l, r ++ x) := by
  induction b generalizing l with
  | nil => simp [splitLine] at h
  | cons c cs ih =>
    simp only [splitLine, List.cons_append] at h ⊢
    split at h
    · rename_i hc
      simp only [Option.some.injEq, Prod.mk.injEq] at h
      obtain ⟨rfl, rfl⟩ := h
      rw [if_pos hc]
    · rename_i hc
      rw [if_neg hc]
      split at h
      · rename_i l' r' hs
        simp only [Option.some.injEq, Prod.mk.injEq] at h
        obtain ⟨rfl, rfl⟩ := h
        rw [ih hs]
      · simp at h

/-- a split consumes at least one byte and loses nothing -/
theorem splitLine_eq {b l r : Bytes} (h : splitLine b = some (l, r)) : b = l ++ r ∧ l ≠ [] := by
  induction b generalizing l with
  | nil => simp [splitLine] at h
  | cons c cs ih =>
    simp only [splitLine] at h
    split at h
    · simp only [Option.some.injEq, Prod.mk.injEq] at h
      obtain ⟨rfl, rfl⟩ := h
      simp
    · split at h
      · rename_i l' r' hs
        simp only [Option.some.injEq, Prod.mk.injEq] at h
        obtain ⟨rfl, rfl⟩ := h
        obtain ⟨e, _⟩ := ih hs
        simp [e]
      · simp at h

theorem natDigits_no_lf (n : Nat) : ∀ c ∈ natDigits n, c ≠ 10 := by
  intro c hc h
  have := natDigits_isDigit_of_mem hc
  subst h
  revert this; decide

theorem splitLine_header (ty : UInt8) (hty : ty ≠ 10) (n : Nat) (x : Bytes) :
    splitLine (ty :: natDigits n ++ [13, 10] ++ x) = some (ty :: natDigits n ++ [13, 10], x) := by
  have h := splitLine_append_lf (ty :: natDigits n ++ [13]) x (by
    intro c hc
    simp only [List.cons_append, List.mem_cons, List.mem_append, List.not_mem_nil, or_false] at hc
    rcases hc with rfl | hc | rfl
    · exact hty
    · exact natDigits_no_lf n c hc
    · decide)
  simpa [List.append_assoc] using h

/-! ### `headerNum` -/

theorem headerNum_header (ty : UInt8) (n : Nat) :
    headerNum ty (ty :: natDigits n ++ [13, 10]) = some (n : Int) := by
  simp only [List.cons_append, headerNum, bne_self_eq_false, Bool.false_eq_true, if_false,
    List.length_append, List.length_cons, List.length_nil, Nat.zero_add, Nat.reduceAdd,
    Nat.add_sub_cancel]
  rw [List.drop_left, List.take_left]
  simp [parseCanonInt_natDigits]

/-! ### `parseFields` / `tryParse` on encodings -/

/-- the per-field part of `encodeRequest` -/
def encodeFields (fields : List Bytes) : Bytes :=
  fields.flatMap fun f => 36 :: natDigits f.length ++ [13, 10] ++ f ++ [13, 10]

theorem encodeRequest_eq (fields : List Bytes) :
    encodeRequest fields = 42 :: natDigits fields.length ++ [13, 10] ++ encodeFields fields := rfl

theorem encodeFields_cons (f : Bytes) (fs : List Bytes) :
    encodeFields (f :: fs) =
      36 :: natDigits f.length ++ [13, 10] ++ (f ++ [13, 10] ++ encodeFields fs) := by
  simp [encodeFields, List.append_assoc]

theorem parseFields_encode (fields : List Bytes) (rest : Bytes) :
    parseFields fields.length (encodeFields fields ++ rest) = some (fields, rest) := by
  induction fields with
  | nil => rfl
  | cons f fs ih =>
    rw [encodeFields_cons, List.length_cons, parseFields, List.append_assoc,
      splitLine_header 36 (by decide)]
    simp only [headerNum_header, Int.toNat_natCast]
    rw [if_neg (by simp only [List.length_append, List.length_cons, List.length_nil]; omega)]
    have hdrop : List.drop (f.length + 2) (f ++ [13, 10] ++ encodeFields fs ++ rest) =
        encodeFields fs ++ rest := by
      rw [List.append_assoc, List.append_assoc, List.drop_append]
      simp
    have htake : List.take f.length (f ++ [13, 10] ++ encodeFields fs ++ rest) = f := by
      rw [List.append_assoc, List.append_assoc, List.take_left]
    rw [hdrop, htake, ih]

theorem tryParse_encode' (fields : List Bytes) (rest : Bytes) :
    tryParse (encodeRequest fields ++ rest) = some (fields, rest) := by
  rw [encodeRequest_eq, tryParse, List.append_assoc, splitLine_header 42 (by decide)]
  simp only [headerNum_header, Int.toNat_natCast]
  exact parseFields_encode fields rest

/-! ### prefix stability -/

theorem parseFields_append {n : Nat} {buf r : Bytes} {fs : List Bytes} (x : Bytes)
    (h : parseFields n buf = some (fs, r)) : parseFields n (buf ++ x) = some (fs, r ++ x) := by
  induction n generalizing buf fs with
  | zero =>
    simp only [parseFields, Option.some.injEq, Prod.mk.injEq] at h
    obtain ⟨rfl, rfl⟩ := h
    rfl
  | succ n ih =>
    rw [parseFields] at h ⊢
    split at h
    · simp at h
    · rename_i line rest hs
      rw [splitLine_append_right x hs]
      simp only
      split at h
      · simp at h
      · rename_i len hl
        simp only at h
        split at h
        · simp at h
        · rename_i hlen
          have hlen' : ¬ (rest ++ x).length < len.toNat + 2 := by
            simp only [List.length_append]; omega
          rw [if_neg hlen']
          split at h
          · rename_i fs' r' hp
            simp only [Option.some.injEq, Prod.mk.injEq] at h
            obtain ⟨rfl, rfl⟩ := h
            have hd : List.drop (len.toNat + 2) (rest ++ x) = List.drop (len.toNat + 2) rest ++ x := by
              rw [List.drop_append_of_le_length (by omega)]
            have ht : List.take len.toNat (rest ++ x) = List.take len.toNat rest := by
              rw [List.take_append_of_le_length (by omega)]
            rw [hd, ih hp, ht]
          · simp at h

theorem tryParse_append {buf r : Bytes} {fs : List Bytes} (x : Bytes)
    (h : tryParse buf = some (fs, r)) : tryParse (buf ++ x) = some (fs, r ++ x) := by
  rw [tryParse] at h ⊢
  split at h
  · simp at h
  · rename_i line rest hs
    rw [splitLine_append_right x hs]
    simp only
    split at h
    · simp at h
    · rename_i n hn
      exact parseFields_append x h

/-! ### progress -/

theorem parseFields_length {n : Nat} {buf r : Bytes} {fs : List Bytes}
    (h : parseFields n buf = some (fs, r)) : r.length ≤ buf.length := by
  induction n generalizing buf fs with
  | zero =>
    simp only [parseFields, Option.some.injEq, Prod.mk.injEq] at h
    obtain ⟨_, rfl⟩ := h
    exact Nat.le_refl _
  | succ n ih =>
    rw [parseFields] at h
    split at h
    · simp at h
    · rename_i line rest hs
      obtain ⟨e, _⟩ := splitLine_eq hs
      simp only at h
      split at h
      · simp at h
      · split at h
        · simp at h
        · split at h
          · rename_i fs' r' hp
            simp only [Option.some.injEq, Prod.mk.injEq] at h
            obtain ⟨_, rfl⟩ := h
            have := ih hp
            simp only [List.length_drop] at this
            rw [e, List.length_append]; omega
          · simp at h

theorem tryParse_length_lt {buf r : Bytes} {fs : List Bytes} (h : tryParse buf = some (fs, r)) :
    r.length < buf.length := by
  rw [tryParse] at h
  split at h
  · simp at h
  · rename_i line rest hs
    obtain ⟨e, hne⟩ := splitLine_eq hs

    split at h
    · simp at h
    · have := parseFields_length h
      have : 0 < line.length := List.length_pos_iff.mpr hne
      rw [e, List.length_append]; omega

/-! ### `parseAll` -/

/-- repeatedly extract complete requests (at most `fuel` of them); returns them with the unparsed tail -/
def parseAll : Nat → Bytes → List (List Bytes) × Bytes
  | 0, buf => ([], buf)
  | fuel + 1, buf =>
    match tryParse buf with
    | none => ([], buf)
    | some (fs, rest) => (fs :: (parseAll fuel rest).1, (parseAll fuel rest).2)

theorem tryParse_nil : tryParse [] = none := rfl

theorem parseAll_nil (fuel : Nat) : parseAll fuel [] = ([], []) := by
  cases fuel <;> rfl

/-- the stream encoding of a list of requests -/
def encodeStream (reqs : List (List Bytes)) : Bytes := (reqs.map encodeRequest).flatten

theorem parseAll_encode_append (reqs : List (List Bytes)) (tail : Bytes) (fuel : Nat) :
    parseAll (reqs.length + fuel) (encodeStream reqs ++ tail) =
      (reqs ++ (parseAll fuel tail).1, (parseAll fuel tail).2) := by
  induction reqs with
  | nil => simp [encodeStream]
  | cons q qs ih =>
    have e : encodeStream (q :: qs) ++ tail = encodeRequest q ++ (encodeStream qs ++ tail) := by
      simp [encodeStream, List.append_assoc]
    rw [e, show (q :: qs).length + fuel = (qs.length + fuel) + 1 by simp; omega, parseAll,
      tryParse_encode']
    simp only [ih, List.cons_append]

/-- chunk-insensitivity for arbitrary byte streams -/
theorem parseAll_append_aux (fuel : Nat) (a b : Bytes) (fuel2 : Nat) :
    parseAll ((parseAll fuel a).1.length + fuel2) (a ++ b) =
      ((parseAll fuel a).1 ++ (parseAll fuel2 ((parseAll fuel a).2 ++ b)).1,
        (parseAll fuel2 ((parseAll fuel a).2 ++ b)).2) := by
  induction fuel generalizing a with
  | zero => simp [parseAll]
  | succ fuel ih =>
    rw [parseAll]
    split
    · simp
    · rename_i fs rest hp
      simp only [List.length_cons, List.cons_append]
      rw [show (parseAll fuel rest).1.length + 1 + fuel2 = ((parseAll fuel rest).1.length + fuel2) + 1 by omega,
        parseAll, tryParse_append b hp]
      simp only [ih rest]

theorem parseAll_exhausted (fuel : Nat) (buf : Bytes) (h : buf.length < fuel) :
    tryParse (parseAll fuel buf).2 = none := by
  induction fuel generalizing buf with
  | zero => omega
  | succ fuel ih =>
    rw [parseAll]
    split
    · assumption
    · rename_i fs rest hp
      have := tryParse_length_lt hp
      exact ih rest (by omega)

/-! ### command-name normalisation -/

theorem lowerByte_toNat (c : UInt8) :
    (lowerByte c).toNat = if 65 ≤ c.toNat ∧ c.toNat ≤ 90 then c.toNat + 32 else c.toNat := by
  unfold lowerByte
  by_cases h : 65 ≤ c.toNat ∧ c.toNat ≤ 90
  · have h' : (65 ≤ c && c ≤ 90) = true := by simp [UInt8.le_iff_toNat_le, h]
    rw [if_pos h', if_pos h, UInt8.toNat_add]
    show (c.toNat + 32) % 256 = _
    omega
  · have h' : ¬ (65 ≤ c && c ≤ 90) = true := by simpa [UInt8.le_iff_toNat_le] using h
    rw [if_neg h', if_neg h]

theorem lowerByte_idem (c : UInt8) : lowerByte (lowerByte c) = lowerByte c := by
  apply UInt8.toNat_inj.mp
  rw [lowerByte_toNat (lowerByte c), lowerByte_toNat c]
  split
  · rw [if_neg (by omega)]
  · rfl

theorem lowerByte_lt_128 (c : UInt8) : (lowerByte c < 128) = (c < 128) := by
  simp only [UInt8.lt_iff_toNat_lt, lowerByte_toNat]
  apply propext
  show (if 65 ≤ c.toNat ∧ c.toNat ≤ 90 then c.toNat + 32 else c.toNat) < 128 ↔ c.toNat < 128
  split <;> omega

theorem commandName_lower (b : Bytes) : commandName (b.map lowerByte) = commandName b := by
  unfold commandName
  have h1 : (b.map lowerByte).all (fun c => c < 128) = b.all (fun c => c < 128) := by
    rw [List.all_map]
    congr 1
    funext c
    simp only [Function.comp, lowerByte_lt_128]
  have h2 : (b.map lowerByte).map lowerByte = b.map lowerByte := by
    rw [List.map_map]
    congr 1
    funext c
    exact lowerByte_idem c
  rw [h1, h2]

theorem commandName_congr {a b : Bytes} (h : a.map lowerByte = b.map lowerByte) :
    commandName a = commandName b := by
  rw [← commandName_lower a, ← commandName_lower b, h]

/-! ### `processCommand`: the signature is looked up from the first field only -/

open M

def lookupSig (nameB : Bytes) : Option Sig :=
  match commandName nameB with
  | some n => if n.startsWith "_" then none else SigTable.find n
  | none => none

def findConn (s : Sys) (c : Nat) : Option Conn := s.srv.conns.find? (·.id == c)

theorem find_map_conns (g : Conn → Conn) (hid : ∀ x, (g x).id = x.id) (c : Nat) (l : List Conn) :
    (l.map g).find? (·.id == c) = (l.find? (·.id == c)).map g := by
  induction l with
  | nil => rfl
  | cons x xs ih =>
    simp only [List.map_cons, List.find?_cons, hid]
    split
    · rfl
    · exact ih

theorem getConn_run_p (c : Nat) (s : Sys) : (getConn c).run s = ((findConn s c).getD { id := c }, s) := rfl

theorem findConn_modifyConn (c c' : Nat) (f : Conn → Conn) (hid : ∀ x, (f x).id = x.id) (s : Sys) :
    findConn ((modifyConn c f).run s).2 c' = (findConn s c').map (fun x => if x.id == c then f x else x) := by
  show List.find? _ (List.map _ _) = _
  rw [find_map_conns _ _ c']
  · rfl
  · intro x; split <;> simp [hid]

/-- the `tx` queue of connection `c`, if the connection exists -/
def txOf (s : Sys) (c : Nat) : Option (Option (List (String × List Bytes))) := (findConn s c).map (·.tx)

theorem txOf_modifyConn_keep (c c' : Nat) (f : Conn → Conn) (hid : ∀ x, (f x).id = x.id)
    (htx : ∀ x, (f x).tx = x.tx) (s : Sys) :
    txOf ((modifyConn c f).run s).2 c' = txOf s c' := by
  unfold txOf
  rw [findConn_modifyConn c c' f hid, Option.map_map]
  congr 1
  funext x
  simp only [Function.comp]
  split <;> simp [htx]

theorem txOf_modifyConn_self (c : Nat) (f : Conn → Conn) (hid : ∀ x, (f x).id = x.id)
    (g : Option (List (String × List Bytes)) → Option (List (String × List Bytes)))
    (htx : ∀ x, (f x).tx = g x.tx) (s : Sys) :
    txOf ((modifyConn c f).run s).2 c = (txOf s c).map g := by
  unfold txOf
  rw [findConn_modifyConn c c f hid, Option.map_map, Option.map_map]
  cases h : findConn s c with
  | none => rfl
  | some x =>
    have : x.id = c := by
      have := List.find?_some h
      simpa using this
    simp [this, htx]

theorem forIn_preserves {α β : Type} (P : Sys → Prop) (l : List α) (body : α → β → M (ForInStep β))
    (h : ∀ a b s, P s → P ((body a b).run s).2) (b : β) (s : Sys) (hs : P s) :
    P ((forIn l b body).run s).2 := by
  induction l generalizing b s with
  | nil => exact hs
  | cons a as ih =>
    rw [List.forIn_cons]
    simp only [StateT.run_bind]
    have := h a b s hs
    generalize (body a b).run s = r at this
    obtain ⟨step, s'⟩ := r
    cases step with
    | done b' => exact this
    | yield b' => exact ih b' s' this

theorem txOf_congr_conns {s1 s2 : Sys} (c : Nat) (h : s1.srv.conns = s2.srv.conns) :
    txOf s1 c = txOf s2 c := by
  unfold txOf findConn; rw [h]

def cleanupBody (c : Nat) (_ : PUnit) : M (ForInStep PUnit) := do
  modify fun s => { s with srv := { s.srv with
    subs := s.srv.subs.map (fun p => (p.1, p.2.filter (· != c))),
    psubs := s.srv.psubs.map (fun p => (p.1, p.2.filter (· != c))) } }
  clearWatches c
  pure (ForInStep.yield PUnit.unit)

theorem cleanupClosed_conns (s : Sys) :
    (cleanupClosed.run s).2.srv.conns =
      ((forIn s.srv.closedSockets PUnit.unit cleanupBody).run s).2.srv.conns := rfl

theorem txOf_cleanupClosed (c : Nat) (s : Sys) : txOf (cleanupClosed.run s).2 c = txOf s c := by
  rw [txOf_congr_conns c (cleanupClosed_conns s)]
  refine forIn_preserves (fun s' => txOf s' c = txOf s c) _ _ ?_ _ s rfl
  intro a b s' hs'
  rw [← hs']
  exact txOf_modifyConn_keep a c (fun x => { x with watchNotified := false, watches := [] })
    (fun _ => rfl) (fun _ => rfl) _

/-- what `processCommand` does once the signature is known -/
def dispatch (mode : Mode) (c : Nat) (conn : Conn) (sig : Sig) (args : List Bytes) : M Unit := do
  cleanupClosed
  let now ← nextClock
  modify fun s => { s with srv := { s.srv with time := now } }
  if !sig.checkArity args.length then
    if conn.tx.isSome then modifyConn c fun x => { x with txFailed := true }
    if sig.name == "exec" then
      modifyConn c fun x => { x with tx := none, txFailed := false }
      clearWatches c
      emit c (.err (strBytes ("EXECABORT Transaction discarded because of: " ++ (sig.wrongArgs.drop 4))))
    else emit c (.err (strBytes sig.wrongArgs))
  else if conn.tx.isSome && !SigTable.notQueued.contains sig.name then
    if SigTable.notInMulti.contains sig.name then
      modifyConn c fun x => { x with txFailed := true }
      emit c (.err (strBytes Msgs.COMMAND_IN_MULTI_MSG))
    else
      modifyConn c fun x => { x with tx := x.tx.map (· ++ [(sig.name, args)]) }
      emit c .queued
  else
    match ← runCommand mode c sig args false with
    | some r => emit c r
    | none => pure ()
    if (← get).crashed.isSome then modifyConn c fun x => { x with dead := true }

theorem processCommand_cons (mode : Mode) (c : Nat) (nameB : Bytes) (args : List Bytes) :
    processCommand mode c (nameB :: args) = (do
      let conn ← getConn c
      match lookupSig nameB with
      | none =>
        if conn.tx.isSome then modifyConn c fun x => { x with txFailed := true }
        emit c (.err (strBytes unknownCommandPrefix))
      | some sig => dispatch mode c conn sig args) := rfl

theorem txOf_nextClock (c : Nat) (s : Sys) : txOf (nextClock.run s).2 c = txOf s c := by
  unfold nextClock
  simp only [StateT.run_bind]
  show txOf (StateT.run (match s.clocks with
    | t :: rest => do set { s with clocks := rest }; return t
    | [] => do fault "clock readings exhausted"; return s.srv.time) s).2 c = _
  split
  · rfl
  · show txOf (if s.fault.isNone then _ else s) c = _
    split <;> rfl

theorem txOf_emit (c c' : Nat) (r : Reply) (s : Sys) : txOf ((emit c r).run s).2 c' = txOf s c' := by
  show txOf (StateT.run (if !((findConn s c).getD { id := c }).closed then
    (modify fun s => { s with out := (c, r) :: s.out } : M Unit) else pure ()) s).2 c' = _
  split <;> rfl

theorem txOf_queued (mode : Mode) (c : Nat) (conn : Conn) (sig : Sig) (args : List Bytes) (s : Sys)
    (hconn : conn.tx.isSome = true)
    (har : sig.checkArity args.length = true)
    (hnq : SigTable.notQueued.contains sig.name = false)
    (hnm : SigTable.notInMulti.contains sig.name = false) :
    txOf ((dispatch mode c conn sig args).run s).2 c =
      (txOf s c).map (·.map (· ++ [(sig.name, args)])) := by
  unfold dispatch
  simp only [har, hconn, hnq, hnm, Bool.not_true, Bool.false_eq_true, if_false, Bool.not_false, Bool.and_self,
    if_true, StateT.run_bind]
  simp only [bind]
  rw [txOf_emit, txOf_modifyConn_self c
    (fun x => { x with tx := x.tx.map (· ++ [(sig.name, args)]) }) (fun _ => rfl) (Option.map (· ++ [(sig.name, args)])) (fun _ => rfl)]
  congr 1
  rw [← txOf_cleanupClosed c s, ← txOf_nextClock c (cleanupClosed.run s).2]
  exact txOf_congr_conns c rfl

/-- the refused (P)SUBSCRIBE / (P)UNSUBSCRIBE inside MULTI leaves the queue as it is -/
theorem txOf_refused (mode : Mode) (c : Nat) (conn : Conn) (sig : Sig) (args : List Bytes) (s : Sys)
    (hconn : conn.tx.isSome = true)
    (har : sig.checkArity args.length = true)
    (hnq : SigTable.notQueued.contains sig.name = false)
    (hnm : SigTable.notInMulti.contains sig.name = true) :
    txOf ((dispatch mode c conn sig args).run s).2 c = txOf s c := by
  unfold dispatch
  simp only [har, hconn, hnq, hnm, Bool.not_true, Bool.false_eq_true, if_false, Bool.not_false, Bool.and_self,
    if_true, StateT.run_bind]
  simp only [bind]
  rw [txOf_emit, txOf_modifyConn_keep c c (fun x => { x with txFailed := true }) (fun _ => rfl) (fun _ => rfl)]
  rw [← txOf_cleanupClosed c s, ← txOf_nextClock c (cleanupClosed.run s).2]
  exact txOf_congr_conns c rfl

/-! ### `drain` / `sendall`: chunk-insensitivity relative to buffer-independence of `processCommand` -/

def connOf (s : Sys) (c : Nat) : Conn := (findConn s c).getD { id := c }

def setBuf (c : Nat) (X : Bytes) (s : Sys) : Sys := ((modifyConn c fun x => { x with buf := X }).run s).2
def appendBuf (c : Nat) (b : Bytes) (s : Sys) : Sys :=
  ((modifyConn c fun x => { x with buf := x.buf ++ b }).run s).2

theorem drain_zero (mode : Mode) (c : Nat) (s : Sys) : (drain mode c 0).run s = ((), s) := rfl

theorem drain_succ (mode : Mode) (c : Nat) (f : Nat) (s : Sys) :
    (drain mode c (f + 1)).run s =
      if (connOf s c).paused || (connOf s c).dead then ((), s)
      else match tryParse (connOf s c).buf with
        | none => ((), s)
        | some (fields, rest) =>
          (drain mode c f).run ((processCommand mode c fields).run (setBuf c rest s)).2 := by
  rw [drain]
  simp only [StateT.run_bind, getConn_run_p]
  show StateT.run (if (connOf s c).paused || (connOf s c).dead then _ else _) s = _
  split
  · rfl
  · show StateT.run (match tryParse (connOf s c).buf with | none => _ | some (fields, rest) => _) s = _
    split <;> rfl

theorem sendall_run (mode : Mode) (c : Nat) (data : Bytes) (s : Sys) :
    (sendall mode c data).run s =
      if (connOf s c).dead then ((), { s with crashed := some "StopIteration" })
      else (drain mode c ((connOf s c).buf.length + data.length + 1)).run (appendBuf c data s) := by
  rw [sendall]
  simp only [StateT.run_bind, getConn_run_p]
  show StateT.run (if (connOf s c).dead then _ else _) s = _
  split <;> rfl

/-! conn-list algebra -/

theorem modifyConn_comp (c : Nat) (f g : Conn → Conn) (hid : ∀ x, (f x).id = x.id) (s : Sys) :
    ((modifyConn c g).run ((modifyConn c f).run s).2).2 = ((modifyConn c (g ∘ f)).run s).2 := by
  have key : (s.srv.conns.map fun x => if x.id == c then f x else x).map
      (fun x => if x.id == c then g x else x) =
      s.srv.conns.map fun x => if x.id == c then (g ∘ f) x else x := by
    rw [List.map_map]
    apply List.map_congr_left
    intro x _
    simp only [Function.comp]
    by_cases h : (x.id == c) = true
    · simp only [h, if_true, hid]
    · simp [h]
  show ({ s with srv := { s.srv with conns := (s.srv.conns.map _).map _ } } : Sys) = _
  rw [key]
  rfl

theorem modifyConn_noconn (c : Nat) (f : Conn → Conn) (s : Sys) (h : findConn s c = none) :
    ((modifyConn c f).run s).2 = s := by
  show ({ s with srv := { s.srv with conns := s.srv.conns.map _ } } : Sys) = s
  have : s.srv.conns.map (fun x => if (x.id == c) = true then f x else x) = s.srv.conns := by
    rw [List.map_congr_left (g := id)]
    · simp
    · intro x hx
      have := List.find?_eq_none.mp h x hx
      simp only [this]; rfl
  rw [this]

theorem findConn_modifyConn_self (c : Nat) (f : Conn → Conn) (hid : ∀ x, (f x).id = x.id) (s : Sys) :
    findConn ((modifyConn c f).run s).2 c = (findConn s c).map f := by
  rw [findConn_modifyConn c c f hid]
  cases h : findConn s c with
  | none => rfl
  | some x =>
    have : (x.id == c) = true := by
      unfold findConn at h
      exact List.find?_some (p := fun x : Conn => x.id == c) h
    have this' : x.id = c := by simpa using this
    simp [this']

theorem appendBuf_setBuf (c : Nat) (X b : Bytes) (s : Sys) :
    appendBuf c b (setBuf c X s) = setBuf c (X ++ b) s :=
  modifyConn_comp c (fun x => { x with buf := X }) (fun x => { x with buf := x.buf ++ b }) (fun _ => rfl) s

theorem setBuf_appendBuf (c : Nat) (X b : Bytes) (s : Sys) :
    setBuf c X (appendBuf c b s) = setBuf c X s :=
  modifyConn_comp c (fun x => { x with buf := x.buf ++ b }) (fun x => { x with buf := X }) (fun _ => rfl) s

theorem appendBuf_appendBuf (c : Nat) (a b : Bytes) (s : Sys) :
    appendBuf c b (appendBuf c a s) = appendBuf c (a ++ b) s := by
  have := modifyConn_comp c (fun x => { x with buf := x.buf ++ a }) (fun x => { x with buf := x.buf ++ b })
    (fun _ => rfl) s
  have e : ((fun x : Conn => { x with buf := x.buf ++ b }) ∘ (fun x : Conn => { x with buf := x.buf ++ a })) =
      (fun x => { x with buf := x.buf ++ (a ++ b) }) := by
    funext x; simp [Function.comp]
  unfold appendBuf
  rw [this, e]

theorem connOf_setBuf_some {c : Nat} {s : Sys} {x : Conn} (h : findConn s c = some x) (X : Bytes) :
    connOf (setBuf c X s) c = { x with buf := X } := by
  unfold connOf setBuf
  rw [findConn_modifyConn_self c (fun x => { x with buf := X }) (fun _ => rfl), h]; rfl

theorem connOf_appendBuf_some {c : Nat} {s : Sys} {x : Conn} (h : findConn s c = some x) (b : Bytes) :
    connOf (appendBuf c b s) c = { x with buf := x.buf ++ b } := by
  unfold connOf appendBuf
  rw [findConn_modifyConn_self c (fun x => { x with buf := x.buf ++ b }) (fun _ => rfl), h]; rfl

theorem connOf_some {c : Nat} {s : Sys} {x : Conn} (h : findConn s c = some x) : connOf s c = x := by
  unfold connOf; rw [h]; rfl

theorem connOf_none {c : Nat} {s : Sys} (h : findConn s c = none) : connOf s c = { id := c } := by
  unfold connOf; rw [h]; rfl

theorem buf_setBuf_le (c : Nat) (X : Bytes) (s : Sys) : (connOf (setBuf c X s) c).buf.length ≤ X.length := by
  cases h : findConn s c with
  | none =>
    rw [show setBuf c X s = s from modifyConn_noconn c _ s h, connOf_none h]
    exact Nat.zero_le _
  | some x => rw [connOf_setBuf_some h]; exact Nat.le_refl _

theorem buf_appendBuf_le (c : Nat) (b : Bytes) (s : Sys) :
    (connOf (appendBuf c b s) c).buf.length ≤ (connOf s c).buf.length + b.length := by
  cases h : findConn s c with
  | none =>
    rw [show appendBuf c b s = s from modifyConn_noconn c _ s h]
    omega
  | some x => rw [connOf_appendBuf_some h, connOf_some h]; simp

/-- `processCommand` neither reads nor writes the connection's input buffer -/
def BufIndependent (mode : Mode) (c : Nat) : Prop :=
  ∀ (fields : List Bytes) (X : Bytes) (s : Sys),
    (processCommand mode c fields).run (setBuf c X s) =
      ((), setBuf c X ((processCommand mode c fields).run s).2)

theorem drain_noconn (mode : Mode) (c : Nat) (f : Nat) (s : Sys) (h : findConn s c = none) :
    (drain mode c f).run s = ((), s) := by
  cases f with
  | zero => rfl
  | succ f => rw [drain_succ, connOf_none h]; rfl

theorem drain_fuel_irrel {mode : Mode} {c : Nat} (hNI : BufIndependent mode c) :
    ∀ (f1 f2 : Nat) (s : Sys), (connOf s c).buf.length < f1 → (connOf s c).buf.length < f2 →
      (drain mode c f1).run s = (drain mode c f2).run s := by
  intro f1
  induction f1 with
  | zero => intro _ _ h; omega
  | succ f1 ih =>
    intro f2 s h1 h2
    cases f2 with
    | zero => omega
    | succ f2 =>
      rw [drain_succ, drain_succ]
      split
      · rfl
      · split
        · rfl
        · rename_i fields rest hp
          have hlt := tryParse_length_lt hp
          rw [hNI]
          have := buf_setBuf_le c rest ((processCommand mode c fields).run s).2
          exact ih f2 (setBuf c rest ((processCommand mode c fields).run s).2) (by omega) (by omega)

theorem drain_append {mode : Mode} {c : Nat} (hNI : BufIndependent mode c) (b : Bytes) :
    ∀ (fR : Nat) (R : Sys) (fL f2 : Nat), (connOf R c).buf.length < fR →
      (connOf R c).buf.length + b.length < fL →
      (connOf ((drain mode c fR).run R).2 c).buf.length + b.length < f2 →
      (drain mode c fL).run (appendBuf c b R) =
        (drain mode c f2).run (appendBuf c b ((drain mode c fR).run R).2) := by
  intro fR
  induction fR with
  | zero => intro _ _ _ h; omega
  | succ fR ih =>
    intro R fL f2 hR hL h2
    cases hx : findConn R c with
    | none =>
      have e : appendBuf c b R = R := modifyConn_noconn c _ R hx
      rw [drain_noconn mode c (fR + 1) R hx]
      simp only [e, drain_noconn mode c _ R hx]
    | some x =>
      have hcR := connOf_some hx
      have hcL := connOf_appendBuf_some hx b
      rw [hcR] at hR hL
      rw [drain_succ mode c fR R, hcR] at h2 ⊢
      by_cases hpd : (x.paused || x.dead) = true
      · rw [if_pos hpd] at h2 ⊢
        simp only at h2 ⊢
        cases fL with
        | zero => omega
        | succ fL =>
          cases f2 with
          | zero => omega
          | succ f2 =>
            rw [drain_succ, drain_succ, hcL]
            simp only [hpd, if_true]
      · rw [if_neg hpd] at h2 ⊢
        cases hp : tryParse x.buf with
        | none =>
          simp only [hp] at h2 ⊢
          rw [hcR] at h2
          exact drain_fuel_irrel hNI fL f2 _ (by rw [hcL]; simp; omega) (by rw [hcL]; simp; omega)
        | some p =>
          obtain ⟨fields, rest⟩ := p
          simp only [hp] at h2 ⊢
          have hlt := tryParse_length_lt hp
          cases fL with
          | zero => omega
          | succ fL =>
            rw [drain_succ mode c fL, hcL, if_neg hpd]
            simp only [tryParse_append b hp]
            rw [setBuf_appendBuf, hNI, hNI] at *
            rw [← appendBuf_setBuf]
            have hle := buf_setBuf_le c rest ((processCommand mode c fields).run R).2
            exact ih _ fL f2 (by omega) (by omega) h2

theorem sendall_append_aux {mode : Mode} {c : Nat} (hNI : BufIndependent mode c) (a b : Bytes) (s : Sys)
    (halive : (connOf ((sendall mode c a).run s).2 c).dead = false) :
    (do sendall mode c a; sendall mode c b : M Unit).run s = (sendall mode c (a ++ b)).run s := by
  simp only [StateT.run_bind]
  show (sendall mode c b).run ((sendall mode c a).run s).2 = _
  rw [sendall_run mode c b, if_neg (by simp [halive])]
  rw [sendall_run mode c a] at halive ⊢
  rw [sendall_run mode c (a ++ b)]
  by_cases hd : (connOf s c).dead = true
  · rw [if_pos hd] at halive
    have : (connOf ({ s with crashed := some "StopIteration" } : Sys) c).dead = true := hd
    rw [this] at halive
    cases halive
  · rw [if_neg hd] at halive ⊢
    rw [if_neg hd, ← appendBuf_appendBuf]
    have h1 := buf_appendBuf_le c a s
    exact (drain_append hNI b ((connOf s c).buf.length + a.length + 1) (appendBuf c a s)
      ((connOf s c).buf.length + (a ++ b).length + 1)
      ((connOf ((drain mode c ((connOf s c).buf.length + a.length + 1)).run (appendBuf c a s)).2 c).buf.length
        + b.length + 1)
      (by omega) (by simp only [List.length_append]; omega) (by omega)).symm


end FR
