import FR.Glob.Render
import FR.Proofs.Glob
/-!
# C16 (regex text): a deep embedding of the regex fragment that `compile_pattern` emits

* `Rx` / `Rx.Matches`: the fragment and its TEXTBOOK semantics (language membership), written
  without any reference to the backtracking matcher `matchA`.
* `parseRx`: a decoder of the regex TEXT (bytes) of the fragment back into `Rx`
  (`^ … \Z`, `.`, `.*`, `\c`, ordinary bytes, `[…]` / `[^…]` with ranges, `(?!)`).
* `rxOf`: the obvious translation of the model's atoms, and the lemmas behind `FR.Props.C16r`:
  `parseRx (render as) = some (rxOf as)`, `matchA as s ↔ (rxOf as).Matches s`, lexical facts.

What stays trusted after this file: CPython's `re` (bytes pattern, flag `re.S`, method `match`)
implements `Rx.Matches` on every text accepted by `parseRx`.
-/
namespace FR.Glob

/-! ## the fragment and its textbook semantics -/

/-- a member of a `[...]` set: one byte or an inclusive range of byte values -/
inductive RItem where
  | ch (c : UInt8)
  | range (lo hi : UInt8)
  deriving Repr, DecidableEq

/-- byte `c` belongs to the set member -/
def RItem.Has (c : UInt8) : RItem → Prop
  | .ch x => c = x
  | .range lo hi => lo.toNat ≤ c.toNat ∧ c.toNat ≤ hi.toNat

/-- the regular-expression fragment -/
inductive Rx where
  /-- the empty regex (matches the empty string) -/
  | eps
  /-- `(?!)`: a look-ahead that always fails (the empty language) -/
  | fail
  /-- `.` under `re.S`: any single byte, newline included -/
  | any
  /-- a literal byte (written plainly or as `\c`) -/
  | lit (c : UInt8)
  /-- `[items]` (`neg = false`) or `[^items]` (`neg = true`) -/
  | set (neg : Bool) (items : List RItem)
  /-- concatenation -/
  | cat (a b : Rx)
  /-- Kleene star -/
  | star (r : Rx)
  deriving Repr, DecidableEq

/-- textbook language membership: `r.Matches s` iff the WHOLE string `s` is in the language of `r`.
Python's `regex.match(s)` anchors at the start, `\Z` anchors at the end of the subject, so
`compile_pattern(p).match(s) is not None` iff `s` is in the language of the text between the
anchors. -/
inductive Rx.Matches : Rx → B → Prop
  | eps : Matches .eps []
  | any (c : UInt8) : Matches .any [c]
  | lit (c : UInt8) : Matches (.lit c) [c]
  | setPos (items : List RItem) (c : UInt8) :
      (∃ it ∈ items, it.Has c) → Matches (.set false items) [c]
  | setNeg (items : List RItem) (c : UInt8) :
      (¬ ∃ it ∈ items, it.Has c) → Matches (.set true items) [c]
  | cat {a b : Rx} {s t : B} : Matches a s → Matches b t → Matches (.cat a b) (s ++ t)
  | starNil {r : Rx} : Matches (.star r) []
  | starCons {r : Rx} {s t : B} : Matches r s → Matches (.star r) t → Matches (.star r) (s ++ t)

/-! ### inversion lemmas -/

theorem Rx.eps_iff (s : B) : Rx.eps.Matches s ↔ s = [] := by
  constructor
  · intro h; cases h; rfl
  · rintro rfl; exact .eps

theorem Rx.fail_iff (s : B) : Rx.fail.Matches s ↔ False := by
  constructor
  · intro h; cases h
  · intro h; exact h.elim

theorem Rx.any_iff (s : B) : Rx.any.Matches s ↔ ∃ c, s = [c] := by
  constructor
  · intro h; cases h with | any c => exact ⟨c, rfl⟩
  · rintro ⟨c, rfl⟩; exact .any c

theorem Rx.lit_iff (x : UInt8) (s : B) : (Rx.lit x).Matches s ↔ s = [x] := by
  constructor
  · intro h; cases h; rfl
  · rintro rfl; exact .lit x

theorem Rx.set_iff (neg : Bool) (items : List RItem) (s : B) :
    (Rx.set neg items).Matches s ↔
      ∃ c, s = [c] ∧ (neg = false ↔ ∃ it ∈ items, it.Has c) := by
  constructor
  · intro h
    cases h with
    | setPos _ c h => exact ⟨c, rfl, by simp [h]⟩
    | setNeg _ c h => exact ⟨c, rfl, by simp [h]⟩
  · rintro ⟨c, rfl, h⟩
    cases neg with
    | false => exact .setPos items c (h.mp rfl)
    | true => exact .setNeg items c (fun hc => by have := h.mpr hc; simp at this)

theorem Rx.cat_iff (a b : Rx) (s : B) :
    (Rx.cat a b).Matches s ↔ ∃ u v, s = u ++ v ∧ a.Matches u ∧ b.Matches v := by
  constructor
  · intro h; cases h with | cat h1 h2 => exact ⟨_, _, rfl, h1, h2⟩
  · rintro ⟨u, v, rfl, h1, h2⟩; exact .cat h1 h2

theorem Rx.star_iff (r : Rx) (s : B) :
    (Rx.star r).Matches s ↔
      s = [] ∨ ∃ u v, s = u ++ v ∧ r.Matches u ∧ (Rx.star r).Matches v := by
  constructor
  · intro h
    cases h with
    | starNil => exact .inl rfl
    | starCons h1 h2 => exact .inr ⟨_, _, rfl, h1, h2⟩
  · rintro (rfl | ⟨u, v, rfl, h1, h2⟩)
    · exact .starNil
    · exact .starCons h1 h2

/-- `.*` under `re.S` is the set of all strings -/
theorem Rx.star_any_all (s : B) : (Rx.star .any).Matches s := by
  induction s with
  | nil => exact .starNil
  | cons c t ih => exact Rx.Matches.starCons (s := [c]) (.any c) ih

theorem Rx.cat_star_any_nil (r : Rx) :
    (Rx.cat (.star .any) r).Matches [] ↔ r.Matches [] := by
  rw [Rx.cat_iff]
  constructor
  · rintro ⟨u, v, h, _, h2⟩
    have hv : v = [] := by
      cases u with
      | nil => simpa using h.symm
      | cons _ _ => simp at h
    exact hv ▸ h2
  · intro h; exact ⟨[], [], rfl, .starNil, h⟩

theorem Rx.cat_star_any_cons (r : Rx) (c : UInt8) (t : B) :
    (Rx.cat (.star .any) r).Matches (c :: t) ↔
      r.Matches (c :: t) ∨ (Rx.cat (.star .any) r).Matches t := by
  rw [Rx.cat_iff, Rx.cat_iff]
  constructor
  · rintro ⟨u, v, h, _, h2⟩
    cases u with
    | nil => left; simp at h; exact h ▸ h2
    | cons d u' =>
      right
      simp at h
      exact ⟨u', v, h.2, Rx.star_any_all u', h2⟩
  · rintro (h | ⟨u, v, rfl, _, h2⟩)
    · exact ⟨[], c :: t, rfl, .starNil, h⟩
    · exact ⟨c :: u, v, rfl, Rx.star_any_all _, h2⟩

/-- concatenation with a regex whose language consists of single bytes -/
theorem Rx.cat_single_nil (a r : Rx) (P : UInt8 → Prop)
    (ha : ∀ u, a.Matches u ↔ ∃ c, u = [c] ∧ P c) : ¬ (Rx.cat a r).Matches [] := by
  rw [Rx.cat_iff]
  rintro ⟨u, v, h, h1, _⟩
  obtain ⟨c, rfl, _⟩ := (ha u).mp h1
  simp at h

theorem Rx.cat_single_cons (a r : Rx) (P : UInt8 → Prop)
    (ha : ∀ u, a.Matches u ↔ ∃ c, u = [c] ∧ P c) (c : UInt8) (t : B) :
    (Rx.cat a r).Matches (c :: t) ↔ P c ∧ r.Matches t := by
  rw [Rx.cat_iff]
  constructor
  · rintro ⟨u, v, h, h1, h2⟩
    obtain ⟨d, rfl, hd⟩ := (ha u).mp h1
    simp at h
    obtain ⟨rfl, rfl⟩ := h
    exact ⟨hd, h2⟩
  · rintro ⟨hc, h2⟩
    exact ⟨[c], t, rfl, (ha [c]).mpr ⟨c, rfl, hc⟩, h2⟩

/-! ## decoding the regex text -/

def cDot : UInt8 := 46
def cZ : UInt8 := 90
/-- the text of `(?!)` -/
def neverText : B := [40, 63, 33, 41]

/-- one character of the text, possibly escaped: `\c` for a byte `c` that `re.escape` escapes
(all of them punctuation or white space, for which Python's `re` reads `\c` as the literal `c`),
or an ordinary byte standing for itself. -/
def parseChar : B → Option (UInt8 × B)
  | [] => none
  | c :: rest =>
    if c = cBS then
      match rest with
      | [] => none
      | d :: rest' => if isEscaped d then some (d, rest') else none
    else if isEscaped c then none else some (c, rest)

/-- a complete text that is one (possibly escaped) character -/
def unescape (s : B) : Option UInt8 :=
  match parseChar s with
  | some (c, []) => some c
  | _ => none

/-- the members of a set up to and including the closing `]`; a range `a-b` needs `a ≤ b`
(Python: "bad character range" otherwise). `n` is fuel. -/
def parseItems : Nat → B → Option (List RItem × B)
  | 0, _ => none
  | n + 1, s =>
    if s.head? = some cRB then some ([], s.tail)
    else match parseChar s with
      | none => none
      | some (lo, r1) =>
        if r1.head? = some cDash then
          match parseChar r1.tail with
          | none => none
          | some (hi, r2) =>
            if lo ≤ hi then (parseItems n r2).map (fun p => (.range lo hi :: p.1, p.2)) else none
        else (parseItems n r1).map (fun p => (.ch lo :: p.1, p.2))

/-- the pieces after `^`, up to the final `\Z`; right-nested concatenation. `n` is fuel. -/
def parsePieces : Nat → B → Option Rx
  | 0, _ => none
  | n + 1, s =>
    if s = [cBS, cZ] then some .eps
    else if s.head? = some cDot then
      if s.tail.head? = some cStar then (parsePieces n s.tail.tail).map (.cat (.star .any))
      else (parsePieces n s.tail).map (.cat .any)
    else if s.head? = some cLB then
      let neg : Bool := decide (s.tail.head? = some cCaret)
      let body := if neg then s.tail.tail else s.tail
      match parseItems (body.length + 1) body with
      | some (it :: its, r) => (parsePieces n r).map (.cat (.set neg (it :: its)))
      | _ => none
    else if neverText.isPrefixOf s then (parsePieces n (s.drop 4)).map (.cat .fail)
    else match parseChar s with
      | some (c, r) => (parsePieces n r).map (.cat (.lit c))
      | none => none

/-- decode `^ pieces \Z` -/
def parseRx (s : B) : Option Rx :=
  match s with
  | [] => none
  | c :: rest => if c = cCaret then parsePieces (rest.length + 1) rest else none

/-! ## translation of the model's atoms -/

def rItem : CItem → RItem
  | .ch c => .ch c
  | .range lo hi => .range lo hi

def rxAtom : Atom → Rx
  | .any => .any
  | .star => .star .any
  | .lit c => .lit c
  | .never => .fail
  | .cls neg items => .set neg (items.map rItem)

def rxOf : List Atom → Rx
  | [] => .eps
  | a :: as => .cat (rxAtom a) (rxOf as)

/-- side conditions under which the text is a well-formed regex: a range is ordered, a set is not
empty (Python would read `[]…` as a set starting with a literal `]`) -/
def ItemOK : CItem → Prop
  | .ch _ => True
  | .range lo hi => lo ≤ hi

def AtomOK : Atom → Prop
  | .cls _ items => items ≠ [] ∧ ∀ it ∈ items, ItemOK it
  | _ => True

def AtomsOK (as : List Atom) : Prop := ∀ a ∈ as, AtomOK a

/-! ## facts about `escapeByte` -/

theorem escapeByte_cases (c : UInt8) :
    (isEscaped c = true ∧ escapeByte c = [cBS, c]) ∨ (isEscaped c = false ∧ escapeByte c = [c]) := by
  unfold escapeByte
  cases h : isEscaped c <;> simp

theorem not_escaped_ne {c : UInt8} (h : isEscaped c = false) :
    c ≠ cBS ∧ c ≠ cDot ∧ c ≠ cLB ∧ c ≠ cRB ∧ c ≠ cDash ∧ c ≠ cStar ∧ c ≠ cCaret ∧ c ≠ 40 := by
  refine ⟨?_, ?_, ?_, ?_, ?_, ?_, ?_, ?_⟩ <;> (rintro rfl; revert h; decide)

theorem escaped_ne_Z {c : UInt8} (h : isEscaped c = true) : c ≠ cZ := by
  rintro rfl; revert h; decide

theorem escapeByte_length (c : UInt8) :
    (escapeByte c).length = if isEscaped c then 2 else 1 := by
  unfold escapeByte; split <;> rfl

theorem escapeByte_length_pos (c : UInt8) : 1 ≤ (escapeByte c).length := by
  rw [escapeByte_length]; split <;> omega

theorem parseChar_escapeByte (c : UInt8) (r : B) :
    parseChar (escapeByte c ++ r) = some (c, r) := by
  rcases escapeByte_cases c with ⟨h, he⟩ | ⟨h, he⟩
  · rw [he]; simp [parseChar, h]
  · rw [he]; simp [parseChar, h, (not_escaped_ne h).1]

theorem unescape_escapeByte (c : UInt8) : unescape (escapeByte c) = some c := by
  have := parseChar_escapeByte c []
  rw [List.append_nil] at this
  simp [unescape, this]

theorem escapeByte_injective {a b : UInt8} (h : escapeByte a = escapeByte b) : a = b := by
  have ha := unescape_escapeByte a
  rw [h, unescape_escapeByte] at ha
  exact (Option.some.inj ha).symm

/-- the first byte of an escaped character is `\` or an ordinary byte -/
theorem escapeByte_head (c : UInt8) (r : B) :
    ∃ d t, escapeByte c ++ r = d :: t ∧ (d = cBS ∨ isEscaped d = false) := by
  rcases escapeByte_cases c with ⟨_, he⟩ | ⟨h, he⟩
  · exact ⟨cBS, c :: r, by rw [he]; rfl, .inl rfl⟩
  · exact ⟨c, r, by rw [he]; rfl, .inr h⟩

theorem head_ne_of {d : UInt8} (h : d = cBS ∨ isEscaped d = false) :
    d ≠ cDot ∧ d ≠ cLB ∧ d ≠ cRB ∧ d ≠ cDash ∧ d ≠ cStar ∧ d ≠ cCaret ∧ d ≠ 40 := by
  rcases h with rfl | h
  · decide
  · have := not_escaped_ne h
    exact ⟨this.2.1, this.2.2.1, this.2.2.2.1, this.2.2.2.2.1, this.2.2.2.2.2.1,
      this.2.2.2.2.2.2.1, this.2.2.2.2.2.2.2⟩

/-! ## `parseRx (render as) = some (rxOf as)` -/

theorem renderItems_length (items : List CItem) : items.length ≤ (renderItems items).length := by
  induction items with
  | nil => simp [renderItems]
  | cons it its ih =>
    cases it with
    | ch c => have := escapeByte_length_pos c; simp [renderItems, renderItem]; omega
    | range lo hi => have := escapeByte_length_pos lo; simp [renderItems, renderItem]; omega

/-- what can stand first in `items ]` : a `\`, an ordinary byte, or the closing `]` -/
theorem renderItems_head (items : List CItem) (R : B) :
    ∃ d t, renderItems items ++ cRB :: R = d :: t ∧ (d = cRB ∨ d = cBS ∨ isEscaped d = false) := by
  cases items with
  | nil => exact ⟨cRB, R, rfl, .inl rfl⟩
  | cons it its =>
    cases it with
    | ch c =>
      obtain ⟨d, t, h, hd⟩ := escapeByte_head c (renderItems its ++ cRB :: R)
      exact ⟨d, t, by simp only [renderItems, renderItem, List.append_assoc]; exact h, .inr hd⟩
    | range lo hi =>
      obtain ⟨d, t, h, hd⟩ := escapeByte_head lo (cDash :: escapeByte hi ++ (renderItems its ++ cRB :: R))
      exact ⟨d, t, by simpa only [renderItems, renderItem, List.append_assoc, List.cons_append] using h,
        .inr hd⟩

theorem renderItems_head_ne (items : List CItem) (R : B) :
    (renderItems items ++ cRB :: R).head? ≠ some cCaret ∧
    (renderItems items ++ cRB :: R).head? ≠ some cDash := by
  obtain ⟨d, t, h, hd⟩ := renderItems_head items R
  rw [h]
  simp only [List.head?_cons, ne_eq, Option.some.injEq]
  rcases hd with rfl | hd
  · decide
  · have := head_ne_of hd
    exact ⟨this.2.2.2.2.2.1, this.2.2.2.1⟩

theorem parseItems_render (items : List CItem) (hok : ∀ it ∈ items, ItemOK it) (R : B) :
    ∀ n, items.length < n →
      parseItems n (renderItems items ++ cRB :: R) = some (items.map rItem, R) := by
  induction items with
  | nil =>
    intro n hn
    cases n with
    | zero => simp at hn
    | succ m => simp [parseItems, renderItems]
  | cons it its ih =>
    intro n hn
    cases n with
    | zero => simp at hn
    | succ m =>
      have hm : its.length < m := by simp at hn; omega
      have ih' := ih (fun x hx => hok x (List.mem_cons_of_mem _ hx)) m hm
      have hne := renderItems_head_ne its R
      cases it with
      | ch c =>
        obtain ⟨d, t, h, hd⟩ := escapeByte_head c (renderItems its ++ cRB :: R)
        have hd' := head_ne_of hd
        have hpc := parseChar_escapeByte c (renderItems its ++ cRB :: R)
        have e : renderItems (.ch c :: its) ++ cRB :: R
            = escapeByte c ++ (renderItems its ++ cRB :: R) := by
          simp only [renderItems, renderItem, List.append_assoc]
        rw [e, parseItems]
        have h1 : (escapeByte c ++ (renderItems its ++ cRB :: R)).head? ≠ some cRB := by
          rw [h]; simp [hd'.2.2.1]
        simp only [h1, if_false, hpc, hne.2, ih', Option.map_some, List.map_cons, rItem]
      | range lo hi =>
        have hle : lo ≤ hi := hok (.range lo hi) (List.mem_cons_self ..)
        obtain ⟨d, t, h, hd⟩ :=
          escapeByte_head lo (cDash :: (escapeByte hi ++ (renderItems its ++ cRB :: R)))
        have hd' := head_ne_of hd
        have hpc := parseChar_escapeByte lo (cDash :: (escapeByte hi ++ (renderItems its ++ cRB :: R)))
        have hpc2 := parseChar_escapeByte hi (renderItems its ++ cRB :: R)
        have e : renderItems (.range lo hi :: its) ++ cRB :: R
            = escapeByte lo ++ (cDash :: (escapeByte hi ++ (renderItems its ++ cRB :: R))) := by
          simp only [renderItems, renderItem, List.append_assoc, List.cons_append]
        rw [e, parseItems]
        have h1 : (escapeByte lo ++ (cDash :: (escapeByte hi ++ (renderItems its ++ cRB :: R)))).head?
            ≠ some cRB := by
          rw [h]; simp [hd'.2.2.1]
        simp only [h1, if_false, hpc, List.head?_cons, if_true, List.tail_cons, hpc2, hle, ih',
          Option.map_some, List.map_cons, rItem]

/-- the first byte of `pieces \Z` is never `*` (so `.` followed by `*` is always the `.*` piece) -/
theorem renderAtoms_head_ne_star (as : List Atom) :
    (renderAtoms as ++ [cBS, cZ]).head? ≠ some cStar := by
  cases as with
  | nil => simp [renderAtoms]; decide
  | cons a as =>
    cases a with
    | any => simp [renderAtoms, renderAtom]; decide
    | star => simp [renderAtoms, renderAtom]; decide
    | never => simp [renderAtoms, renderAtom]; decide
    | cls neg items => simp [renderAtoms, renderAtom]; decide
    | lit c =>
      obtain ⟨d, t, h, hd⟩ := escapeByte_head c (renderAtoms as ++ [cBS, cZ])
      simp only [renderAtoms, renderAtom, List.append_assoc]
      rw [h]
      simp [(head_ne_of hd).2.2.2.2.1]

theorem renderAtoms_length (as : List Atom) : as.length ≤ (renderAtoms as).length := by
  induction as with
  | nil => simp [renderAtoms]
  | cons a as ih =>
    cases a with
    | lit c => have := escapeByte_length_pos c; simp [renderAtoms, renderAtom]; omega
    | _ => simp [renderAtoms, renderAtom]; omega

theorem parsePieces_render (as : List Atom) (hok : AtomsOK as) :
    ∀ n, as.length < n → parsePieces n (renderAtoms as ++ [cBS, cZ]) = some (rxOf as) := by
  induction as with
  | nil =>
    intro n hn
    cases n with
    | zero => simp at hn
    | succ m => simp [parsePieces, renderAtoms, rxOf]
  | cons a as ih =>
    intro n hn
    cases n with
    | zero => simp at hn
    | succ m =>
      have hm : as.length < m := by simp at hn; omega
      have ih' := ih (fun x hx => hok x (List.mem_cons_of_mem _ hx)) m hm
      have hns := renderAtoms_head_ne_star as
      cases a with
      | any =>
        have e : renderAtoms (.any :: as) ++ [cBS, cZ] = cDot :: (renderAtoms as ++ [cBS, cZ]) := rfl
        rw [e, parsePieces]
        have h0 : ¬ (cDot :: (renderAtoms as ++ [cBS, cZ]) = [cBS, cZ]) := by
          intro h; injection h with h _; revert h; decide
        simp only [h0, if_false, List.head?_cons, if_true, List.tail_cons, hns, ih',
          Option.map_some, rxOf, rxAtom]
      | star =>
        have e : renderAtoms (.star :: as) ++ [cBS, cZ]
            = cDot :: cStar :: (renderAtoms as ++ [cBS, cZ]) := rfl
        rw [e, parsePieces]
        have h0 : ¬ (cDot :: cStar :: (renderAtoms as ++ [cBS, cZ]) = [cBS, cZ]) := by
          intro h; injection h with h _; revert h; decide
        simp only [h0, if_false, List.head?_cons, if_true, List.tail_cons, ih',
          Option.map_some, rxOf, rxAtom]
      | never =>
        have e : renderAtoms (.never :: as) ++ [cBS, cZ]
            = 40 :: 63 :: 33 :: 41 :: (renderAtoms as ++ [cBS, cZ]) := rfl
        rw [e, parsePieces]
        have h0 : ¬ ((40 : UInt8) :: 63 :: 33 :: 41 :: (renderAtoms as ++ [cBS, cZ]) = [cBS, cZ]) := by
          intro h; injection h with h _; revert h; decide
        have h1 : ¬ ((some (40 : UInt8)) = some cDot) := by decide
        have h2 : ¬ ((some (40 : UInt8)) = some cLB) := by decide
        simp [h0, h1, h2, neverText, List.isPrefixOf, ih', rxOf, rxAtom]
      | lit c =>
        have e : renderAtoms (.lit c :: as) ++ [cBS, cZ]
            = escapeByte c ++ (renderAtoms as ++ [cBS, cZ]) := by
          simp only [renderAtoms, renderAtom, List.append_assoc]
        have hpc := parseChar_escapeByte c (renderAtoms as ++ [cBS, cZ])
        rw [e] 
        rcases escapeByte_cases c with ⟨hc, he⟩ | ⟨hc, he⟩
        · rw [he] at hpc ⊢
          rw [parsePieces]
          have h0 : ¬ ([cBS, c] ++ (renderAtoms as ++ [cBS, cZ]) = [cBS, cZ]) := by
            intro h; simp at h
          have h1 : ([cBS, c] ++ (renderAtoms as ++ [cBS, cZ])).head? ≠ some cDot := by
            simp; decide
          have h2 : ([cBS, c] ++ (renderAtoms as ++ [cBS, cZ])).head? ≠ some cLB := by
            simp; decide
          have h3 : neverText.isPrefixOf ([cBS, c] ++ (renderAtoms as ++ [cBS, cZ])) = false := by
            simp [neverText, List.isPrefixOf]; intro h; exact absurd h (by decide)
          simp only [h0, h1, h2, h3, if_false, hpc, ih', Option.map_some, rxOf, rxAtom,
            Bool.false_eq_true]
        · rw [he] at hpc ⊢
          rw [parsePieces]
          have hne := not_escaped_ne hc
          have h0 : ¬ ([c] ++ (renderAtoms as ++ [cBS, cZ]) = [cBS, cZ]) := by
            intro h; simp at h; exact hne.1 h.1
          have h1 : ([c] ++ (renderAtoms as ++ [cBS, cZ])).head? ≠ some cDot := by
            simp [hne.2.1]
          have h2 : ([c] ++ (renderAtoms as ++ [cBS, cZ])).head? ≠ some cLB := by
            simp [hne.2.2.1]
          have h3 : neverText.isPrefixOf ([c] ++ (renderAtoms as ++ [cBS, cZ])) = false := by
            simp [neverText, List.isPrefixOf]; intro h; exact absurd h.symm hne.2.2.2.2.2.2.2
          simp only [h0, h1, h2, h3, if_false, hpc, ih', Option.map_some, rxOf, rxAtom,
            Bool.false_eq_true]
      | cls neg items =>
        obtain ⟨hne, hitems⟩ : items ≠ [] ∧ ∀ it ∈ items, ItemOK it := hok _ (List.mem_cons_self ..)
        have hlen := renderItems_length items
        have hpi := parseItems_render items hitems (renderAtoms as ++ [cBS, cZ])
          ((renderItems items ++ cRB :: (renderAtoms as ++ [cBS, cZ])).length + 1)
          (by simp; omega)
        have hhead := renderItems_head_ne items (renderAtoms as ++ [cBS, cZ])
        obtain ⟨it, its, rfl⟩ : ∃ it its, items = it :: its := by
          cases items with
          | nil => exact absurd rfl hne
          | cons it its => exact ⟨it, its, rfl⟩
        have h1 : ¬ ((some cLB) = some cDot) := by decide
        cases neg with
        | false =>
          have e : renderAtoms (.cls false (it :: its) :: as) ++ [cBS, cZ]
              = cLB :: (renderItems (it :: its) ++ cRB :: (renderAtoms as ++ [cBS, cZ])) := by
            simp [renderAtoms, renderAtom]
          rw [e, parsePieces]
          have h0 : ¬ (cLB :: (renderItems (it :: its) ++ cRB :: (renderAtoms as ++ [cBS, cZ]))
              = [cBS, cZ]) := by
            intro h; injection h with h _; revert h; decide
          simp only [h0, if_false, List.head?_cons, h1, if_true, List.tail_cons, hhead.1,
            decide_false, Bool.false_eq_true, hpi, List.map_cons, ih', Option.map_some, rxOf, rxAtom]
        | true =>
          have e : renderAtoms (.cls true (it :: its) :: as) ++ [cBS, cZ]
              = cLB :: cCaret :: (renderItems (it :: its) ++ cRB :: (renderAtoms as ++ [cBS, cZ])) := by
            simp [renderAtoms, renderAtom]
          rw [e, parsePieces]
          have h0 : ¬ (cLB :: cCaret :: (renderItems (it :: its) ++ cRB :: (renderAtoms as ++ [cBS, cZ]))
              = [cBS, cZ]) := by
            intro h; injection h with h _; revert h; decide
          simp only [h0, if_false, List.head?_cons, h1, if_true, List.tail_cons,
            decide_true, hpi, List.map_cons, ih', Option.map_some, rxOf, rxAtom]

theorem parseRx_render (as : List Atom) (hok : AtomsOK as) :
    parseRx (render as) = some (rxOf as) := by
  have hlen := renderAtoms_length as
  simp only [render, parseRx, if_true]
  exact parsePieces_render as hok _ (by simp; omega)

/-! ## the backtracking matcher decides the textbook language -/

theorem rItem_has (c : UInt8) (it : CItem) : (rItem it).Has c ↔ it.matches c = true := by
  cases it with
  | ch x =>
    simp only [rItem, RItem.Has, CItem.matches, beq_iff_eq]
    exact ⟨fun h => h.symm, fun h => h.symm⟩
  | range lo hi =>
    simp only [rItem, RItem.Has, CItem.matches, Bool.and_eq_true, decide_eq_true_eq,
      UInt8.le_iff_toNat_le]

theorem items_has (c : UInt8) (items : List CItem) :
    (∃ it ∈ items.map rItem, it.Has c) ↔ items.any (CItem.matches c) = true := by
  simp only [List.mem_map, List.any_eq_true]
  constructor
  · rintro ⟨_, ⟨it, hit, rfl⟩, h⟩; exact ⟨it, hit, (rItem_has c it).mp h⟩
  · rintro ⟨it, hit, h⟩; exact ⟨_, ⟨it, hit, rfl⟩, (rItem_has c it).mpr h⟩

/-- every atom except `.*` denotes a set of one-byte strings, the one `matches1` decides -/
theorem rxAtom_single (a : Atom) (h : a ≠ .star) (u : B) :
    (rxAtom a).Matches u ↔ ∃ c, u = [c] ∧ a.matches1 c = true := by
  cases a with
  | star => exact absurd rfl h
  | any => simp [rxAtom, Rx.any_iff, Atom.matches1]
  | lit x =>
    simp only [rxAtom, Rx.lit_iff, Atom.matches1, beq_iff_eq]
    constructor
    · rintro rfl; exact ⟨x, rfl, rfl⟩
    · rintro ⟨c, rfl, rfl⟩; rfl
  | never => simp [rxAtom, Rx.fail_iff, Atom.matches1]
  | cls neg items =>
    simp only [rxAtom, Rx.set_iff, Atom.matches1, items_has]
    constructor
    · rintro ⟨c, rfl, hc⟩
      refine ⟨c, rfl, ?_⟩
      cases neg <;> cases hm : items.any (CItem.matches c) <;> simp [hm] at hc ⊢
    · rintro ⟨c, rfl, hc⟩
      refine ⟨c, rfl, ?_⟩
      cases neg <;> cases hm : items.any (CItem.matches c) <;> simp [hm] at hc ⊢

theorem matchA_iff_matches (as : List Atom) :
    ∀ s, matchA as s = true ↔ (rxOf as).Matches s := by
  induction as with
  | nil =>
    intro s
    rw [matchA_nil, rxOf, Rx.eps_iff]
    cases s <;> simp
  | cons a as ih =>
    by_cases ha : a = .star
    · subst ha
      intro s
      induction s with
      | nil => rw [matchA_star_nil, rxOf, rxAtom, Rx.cat_star_any_nil]; exact ih []
      | cons c t ih2 =>
        rw [matchA_star_cons, Bool.or_eq_true, rxOf, rxAtom, Rx.cat_star_any_cons, ih (c :: t)]
        rw [rxOf, rxAtom] at ih2
        rw [ih2]
    · intro s
      cases s with
      | nil =>
        rw [matchA_cons_nil a as ha, rxOf]
        have := Rx.cat_single_nil (rxAtom a) (rxOf as) _ (rxAtom_single a ha)
        simp [this]
      | cons c t =>
        rw [matchA_cons_cons a as c t ha, rxOf, Bool.and_eq_true,
          Rx.cat_single_cons (rxAtom a) (rxOf as) _ (rxAtom_single a ha), ih t]

/-! ## `compile` only produces well-formed atoms -/

theorem u8_min_le_max (a b : UInt8) : min a b ≤ max a b := by
  rw [u8_min, u8_max]
  split
  · exact UInt8.le_of_lt ‹_›
  · exact UInt8.not_lt.mp ‹_›

theorem scanClass_ok (p : B) : ∀ it ∈ (scanClass p).1, ItemOK it := by
  induction p using scanClass.induct <;> (unfold scanClass; simp_all [ItemOK, u8_min_le_max])

theorem classAtom_ok (p : B) : AtomOK (classAtom p).1 := by
  simp only [classAtom]
  split
  · split <;> exact trivial
  · rename_i h
    exact ⟨by intro he; rw [he] at h; exact h rfl, scanClass_ok _⟩

set_option linter.unusedSimpArgs false in
theorem compile_atomsOK (p : B) : AtomsOK (compile p) := by
  induction p using compile.induct with
  | case1 => simp [compile, AtomsOK]
  | case2 c rest h ih => 
    rw [compile_cons]; simp only [h, if_true]
    intro a ha; rcases List.mem_cons.mp ha with rfl | ha
    · exact trivial
    · exact ih a ha
  | case3 c rest h1 h2 ih =>
    rw [compile_cons]; simp only [h1, h2, if_true, if_false]
    intro a ha; rcases List.mem_cons.mp ha with rfl | ha
    · exact trivial
    · exact ih a ha
  | case4 c h1 h2 h3 =>
    rw [compile_cons]; simp only [h1, h2, h3, if_true, if_false]
    intro a ha; rcases List.mem_cons.mp ha with rfl | ha
    · exact trivial
    · simp at ha
  | case5 c h1 h2 h3 x rest' ih =>
    rw [compile_cons]; simp only [h1, h2, h3, if_true, if_false]
    intro a ha; rcases List.mem_cons.mp ha with rfl | ha
    · exact trivial
    · exact ih a ha
  | case6 c rest h1 h2 h3 h4 _ ih =>
    rw [compile_cons]; simp only [h1, h2, h3, h4, if_true, if_false]
    intro a ha; rcases List.mem_cons.mp ha with rfl | ha
    · exact classAtom_ok rest
    · exact ih a ha
  | case7 c rest h1 h2 h3 h4 ih =>
    rw [compile_cons]; simp only [h1, h2, h3, h4, if_true, if_false]
    intro a ha; rcases List.mem_cons.mp ha with rfl | ha
    · exact trivial
    · exact ih a ha

/-! ## lexical facts about the text (to be read against the `re` syntax documentation) -/

/-- brute force over the 256 byte values -/
theorem forall_u8 {P : UInt8 → Prop} (h : ∀ n, n < 256 → P (UInt8.ofNat n)) (c : UInt8) : P c := by
  have := h c.toNat (UInt8.toNat_lt c)
  rwa [UInt8.ofNat_toNat] at this

/-- the bytes that are special in Python `re` syntax outside a set: `. ^ $ * + ? { } [ ] \ | ( )` -/
def isReMeta (c : UInt8) : Bool :=
  c == 46 || c == 94 || c == 36 || c == 42 || c == 43 || c == 63 || c == 123 || c == 125 ||
  c == 91 || c == 93 || c == 92 || c == 124 || c == 40 || c == 41

/-- the bytes that are special inside a set: `] \ ^ -` -/
def isSetMeta (c : UInt8) : Bool := c == 93 || c == 92 || c == 94 || c == 45

/-- ASCII letters and digits: the only bytes `x` for which `\x` is (or may become) something other
than the literal `x` in Python `re` (`\d`, `\Z`, `\1`, `\n`, …; unknown letter escapes are errors) -/
def isAlnum (c : UInt8) : Bool :=
  (48 ≤ c && c ≤ 57) || (65 ≤ c && c ≤ 90) || (97 ≤ c && c ≤ 122)

theorem meta_isEscaped (c : UInt8) : (isReMeta c || isSetMeta c) = true → isEscaped c = true :=
  forall_u8 (P := fun c => (isReMeta c || isSetMeta c) = true → isEscaped c = true)
    (by decide +kernel) c

theorem isEscaped_not_alnum (c : UInt8) : isEscaped c = true → isAlnum c = false :=
  forall_u8 (P := fun c => isEscaped c = true → isAlnum c = false) (by decide +kernel) c

/-- every byte with a syntactic role (outside or inside a set) is written with a backslash -/
theorem escapeByte_special (c : UInt8) (h : (isReMeta c || isSetMeta c) = true) :
    escapeByte c = [cBS, c] := by
  simp [escapeByte, meta_isEscaped c h]

/-- a byte written without a backslash has no syntactic role -/
theorem escapeByte_plain (c : UInt8) (h : escapeByte c = [c]) :
    isReMeta c = false ∧ isSetMeta c = false := by
  have hc : isEscaped c = false := by
    rcases escapeByte_cases c with ⟨_, he⟩ | ⟨hc, _⟩
    · rw [he] at h; simp at h
    · exact hc
  have : (isReMeta c || isSetMeta c) = false := by
    cases hm : (isReMeta c || isSetMeta c)
    · rfl
    · rw [meta_isEscaped c hm] at hc; exact absurd hc (by decide)
  simpa using this

/-- a backslash is only ever put in front of punctuation / white space, never in front of an ASCII
letter or digit: `\c` in the text is always the literal `c` (no `\d`, `\b`, `\1`, …) -/
theorem escapeByte_escaped_not_alnum (c : UInt8) (h : escapeByte c = [cBS, c]) :
    isAlnum c = false := by
  rcases escapeByte_cases c with ⟨hc, _⟩ | ⟨_, he⟩
  · exact isEscaped_not_alnum c hc
  · rw [he] at h; simp at h

inductive Tok where
  /-- `\c` -/
  | esc (c : UInt8)
  /-- an unescaped byte with a syntactic role -/
  | special (c : UInt8)
  /-- an unescaped byte without a syntactic role -/
  | plain (c : UInt8)
  deriving Repr, DecidableEq

def tokOf (c : UInt8) : Tok := if isReMeta c || isSetMeta c then .special c else .plain c

/-- a lexer that knows nothing about `render`: a backslash takes the next byte with it
(`pending = true` after a backslash); a lone trailing backslash is a `special`. -/
def lexAux : Bool → B → List Tok
  | pending, [] => if pending then [.special cBS] else []
  | pending, c :: r =>
    if pending then .esc c :: lexAux false r
    else if c = cBS then lexAux true r
    else tokOf c :: lexAux false r

def lex (s : B) : List Tok := lexAux false s

/-- the token of a character written through `re.escape` -/
def charTok (c : UInt8) : Tok := if isEscaped c then .esc c else .plain c

def itemToks : CItem → List Tok
  | .ch c => [charTok c]
  | .range lo hi => [charTok lo, .special cDash, charTok hi]

def itemsToks : List CItem → List Tok
  | [] => []
  | it :: its => itemToks it ++ itemsToks its

def atomToks : Atom → List Tok
  | .any => [.special 46]
  | .star => [.special 46, .special 42]
  | .lit c => [charTok c]
  | .never => [.special 40, .special 63, .plain 33, .special 41]
  | .cls neg items =>
    .special cLB :: ((if neg then [.special cCaret] else []) ++ (itemsToks items ++ [.special cRB]))

def atomsToks : List Atom → List Tok
  | [] => []
  | a :: as => atomToks a ++ atomsToks as

theorem lexAux_special (c : UInt8) (hc : c ≠ cBS) (hm : (isReMeta c || isSetMeta c) = true)
    (t : B) : lexAux false (c :: t) = .special c :: lexAux false t := by
  rw [lexAux]; simp only [Bool.false_eq_true, if_false, hc, tokOf, hm, if_true]

theorem lexAux_plain (c : UInt8) (hc : c ≠ cBS) (hm : (isReMeta c || isSetMeta c) = false)
    (t : B) : lexAux false (c :: t) = .plain c :: lexAux false t := by
  rw [lexAux]; simp only [Bool.false_eq_true, if_false, hc, tokOf, hm]

theorem lexAux_bs (c : UInt8) (t : B) : lexAux false (cBS :: c :: t) = .esc c :: lexAux false t := by
  rw [lexAux]; simp only [Bool.false_eq_true, if_false, if_true]; rw [lexAux]; simp

theorem lexAux_escapeByte (c : UInt8) (r : B) :
    lexAux false (escapeByte c ++ r) = charTok c :: lexAux false r := by
  rcases escapeByte_cases c with ⟨hc, he⟩ | ⟨hc, he⟩
  · rw [he]; show lexAux false (cBS :: c :: r) = _
    rw [lexAux_bs]; simp [charTok, hc]
  · rw [he]
    have hm : (isReMeta c || isSetMeta c) = false := by
      cases hm : (isReMeta c || isSetMeta c)
      · rfl
      · rw [meta_isEscaped c hm] at hc; exact absurd hc (by decide)
    show lexAux false (c :: r) = _
    rw [lexAux_plain c (not_escaped_ne hc).1 hm]; simp [charTok, hc]

theorem lexAux_renderItems (items : List CItem) (r : B) :
    lexAux false (renderItems items ++ r) = itemsToks items ++ lexAux false r := by
  induction items with
  | nil => simp [renderItems, itemsToks]
  | cons it its ih =>
    cases it with
    | ch c =>
      simp only [renderItems, renderItem, List.append_assoc, lexAux_escapeByte, ih, itemsToks,
        itemToks, List.cons_append, List.nil_append]
    | range lo hi =>
      simp only [renderItems, renderItem, List.append_assoc, List.cons_append, lexAux_escapeByte]
      rw [lexAux_special cDash (by decide) (by decide), lexAux_escapeByte, ih]
      simp [itemsToks, itemToks]

theorem lexAux_renderAtoms (as : List Atom) (r : B) :
    lexAux false (renderAtoms as ++ r) = atomsToks as ++ lexAux false r := by
  induction as with
  | nil => simp [renderAtoms, atomsToks]
  | cons a as ih =>
    cases a with
    | any =>
      have : renderAtoms (.any :: as) ++ r = 46 :: (renderAtoms as ++ r) := rfl
      rw [this, lexAux_special 46 (by decide) (by decide), ih]; simp [atomsToks, atomToks]
    | star =>
      have : renderAtoms (.star :: as) ++ r = 46 :: 42 :: (renderAtoms as ++ r) := rfl
      rw [this, lexAux_special 46 (by decide) (by decide),
        lexAux_special 42 (by decide) (by decide), ih]
      simp [atomsToks, atomToks]
    | never =>
      have : renderAtoms (.never :: as) ++ r = 40 :: 63 :: 33 :: 41 :: (renderAtoms as ++ r) := rfl
      rw [this, lexAux_special 40 (by decide) (by decide),
        lexAux_special 63 (by decide) (by decide), lexAux_plain 33 (by decide) (by decide),
        lexAux_special 41 (by decide) (by decide), ih]
      simp [atomsToks, atomToks]
    | lit c =>
      simp only [renderAtoms, renderAtom, List.append_assoc, lexAux_escapeByte, ih, atomsToks,
        atomToks, List.cons_append, List.nil_append]
    | cls neg items =>
      cases neg with
      | false =>
        have : renderAtoms (.cls false items :: as) ++ r
            = cLB :: (renderItems items ++ cRB :: (renderAtoms as ++ r)) := by
          simp [renderAtoms, renderAtom]
        rw [this, lexAux_special cLB (by decide) (by decide), lexAux_renderItems,
          lexAux_special cRB (by decide) (by decide), ih]
        simp [atomsToks, atomToks]
      | true =>
        have : renderAtoms (.cls true items :: as) ++ r
            = cLB :: cCaret :: (renderItems items ++ cRB :: (renderAtoms as ++ r)) := by
          simp [renderAtoms, renderAtom]
        rw [this, lexAux_special cLB (by decide) (by decide),
          lexAux_special cCaret (by decide) (by decide), lexAux_renderItems,
          lexAux_special cRB (by decide) (by decide), ih]
        simp [atomsToks, atomToks]

theorem lex_render_eq (as : List Atom) :
    lex (render as) = .special cCaret :: (atomsToks as ++ [.esc cZ]) := by
  unfold lex render
  rw [lexAux_special cCaret (by decide) (by decide), lexAux_renderAtoms]
  show _ :: (_ ++ lexAux false (cBS :: cZ :: [])) = _
  rw [lexAux_bs]; simp [lexAux]

/-- the bytes that occur unescaped with a syntactic role: `. * ( ? ) [ ^ ] -` -/
def structural : List UInt8 := [46, 42, 40, 63, 41, 91, 94, 93, 45]

theorem charTok_ne_special (c d : UInt8) : charTok c ≠ .special d := by
  unfold charTok; split <;> simp

theorem charTok_esc {c d : UInt8} (h : charTok c = .esc d) : isEscaped d = true := by
  unfold charTok at h
  split at h
  · injection h with h; subst h; assumption
  · simp at h

theorem itemsToks_special (items : List CItem) (c : UInt8) (h : Tok.special c ∈ itemsToks items) :
    c = cDash := by
  induction items with
  | nil => simp [itemsToks] at h
  | cons it its ih =>
    simp only [itemsToks, List.mem_append] at h
    rcases h with h | h
    · cases it with
      | ch x => simp [itemToks, (charTok_ne_special x c).symm] at h
      | range lo hi =>
        simp [itemToks, (charTok_ne_special lo c).symm, (charTok_ne_special hi c).symm] at h
        exact h
    · exact ih h

theorem itemsToks_esc (items : List CItem) (c : UInt8) (h : Tok.esc c ∈ itemsToks items) :
    isEscaped c = true := by
  induction items with
  | nil => simp [itemsToks] at h
  | cons it its ih =>
    simp only [itemsToks, List.mem_append] at h
    rcases h with h | h
    · cases it with
      | ch x => simp [itemToks] at h; exact charTok_esc h.symm
      | range lo hi =>
        simp [itemToks] at h
        rcases h with h | h
        · exact charTok_esc h.symm
        · exact charTok_esc h.symm
    · exact ih h

theorem atomsToks_special (as : List Atom) (c : UInt8) (h : Tok.special c ∈ atomsToks as) :
    c ∈ structural := by
  induction as with
  | nil => simp [atomsToks] at h
  | cons a as ih =>
    simp only [atomsToks, List.mem_append] at h
    rcases h with h | h
    · cases a with
      | any => simp [atomToks] at h; subst h; decide
      | star => simp [atomToks] at h; rcases h with rfl | rfl <;> decide
      | never => simp [atomToks] at h; rcases h with rfl | rfl | rfl <;> decide
      | lit x => simp [atomToks, (charTok_ne_special x c).symm] at h
      | cls neg items =>
        simp only [atomToks, List.mem_cons, List.mem_append, Tok.special.injEq] at h
        rcases h with rfl | h | h | h
        · decide
        · cases neg <;> simp at h
          subst h; decide
        · rw [itemsToks_special items c h]; decide
        · simp at h; subst h; decide
    · exact ih h

theorem atomsToks_esc (as : List Atom) (c : UInt8) (h : Tok.esc c ∈ atomsToks as) :
    isEscaped c = true := by
  induction as with
  | nil => simp [atomsToks] at h
  | cons a as ih =>
    simp only [atomsToks, List.mem_append] at h
    rcases h with h | h
    · cases a with
      | any => simp [atomToks] at h
      | star => simp [atomToks] at h
      | never => simp [atomToks] at h
      | lit x => simp [atomToks] at h; exact charTok_esc h.symm
      | cls neg items =>
        simp only [atomToks, List.mem_cons, List.mem_append] at h
        rcases h with h | h | h | h
        · simp at h
        · cases neg <;> simp at h
        · exact itemsToks_esc items c h
        · simp at h
    · exact ih h

end FR.Glob
