import FR.Proofs.DbFrame
import FR.Proofs.BufIndep
import FR.Proofs.AsyncLife
/-!
# C13 for raw writes: the relation `Sim` lifted through the parser loop (`drain`, `sendall`, `sendallGuarded`)

`DrainOkA T A mode c fuel s` : every request the parser loop `drain mode c fuel` processes when it is run from `s`
satisfies `ReqOkA T A` (the hypotheses of `processCommand_rel`).  It is judged along the run from `s` (as `OkHist`);
`drainOkA_of_parse` gives the static sufficient condition "every complete request in the buffer satisfies `ReqOkA`".
-/
namespace FR.DbFrame
open FR FR.M
set_option linter.unusedVariables false
set_option linter.unusedSimpArgs false

/-- the hypotheses of `processCommand_rel` about one request -/
def ReqOkA (T : Nat → Prop) (A : String × List Bytes → Prop) (fields : List Bytes) : Prop :=
  QAllowed T (cmdName fields, fields.tail) ∧ cmdName fields ≠ "eval" ∧ cmdName fields ≠ "evalsha" ∧
    A (cmdName fields, fields.tail) ∧ (cmdName fields = "exec" → ∀ e, A e → QAllowed T e)

theorem ReqOk.toA {T : Nat → Prop} {fields : List Bytes} (h : ReqOk T fields) : ReqOkA T (QAllowed T) fields :=
  ⟨h.1, h.2.1, h.2.2, h.1, fun _ _ h => h⟩

/-- every request processed by `drain mode c fuel` run from `s` satisfies `ReqOkA T A` -/
def DrainOkA (T : Nat → Prop) (A : String × List Bytes → Prop) (mode : Mode) (c : Nat) : Nat → Sys → Prop
  | 0, _ => True
  | fuel + 1, s =>
    if (connOf s c).paused || (connOf s c).dead then True
    else match tryParse (connOf s c).buf with
      | none => True
      | some (fields, rest) =>
        ReqOkA T A fields ∧ DrainOkA T A mode c fuel ((processCommand mode c fields).run (setBuf c rest s)).2

section loop
variable {T : Nat → Prop} {c : Nat} {b : Bool} {A : String × List Bytes → Prop} {D1 D2 : List Dict}
local notation "R" => Sim T c b A D1 D2

theorem Sim.connOf {s1 s2 : Sys} (h : R s1 s2) (c' : Nat) : connOf s2 c' = connOf s1 c' := h.agree.conn c'

theorem Sim.setBuf {s1 s2 : Sys} (h : R s1 s2) (X : Bytes) : R (setBuf c X s1) (setBuf c X s2) :=
  ((rel_modifyConn c (fun x => { x with buf := X }) (fun _ => rfl) (fun _ => rfl) (fun _ => rfl)) s1 s2 h).2

theorem Sim.appendBuf {s1 s2 : Sys} (h : R s1 s2) (X : Bytes) : R (appendBuf c X s1) (appendBuf c X s2) :=
  ((rel_modifyConn c (fun x => { x with buf := x.buf ++ X }) (fun _ => rfl) (fun _ => rfl) (fun _ => rfl)) s1 s2 h).2

/-- **the parser loop** -/
theorem drain_sim (mode : Mode) (fuel : Nat) {s1 s2 : Sys} (h : Sim T c true A D1 D2 s1 s2)
    (hok : DrainOkA T A mode c fuel s1) :
    Sim T c true A D1 D2 ((drain mode c fuel).run s1).2 ((drain mode c fuel).run s2).2 := by
  induction fuel generalizing s1 s2 with
  | zero => exact h
  | succ fuel ih =>
    rw [drain_succ, drain_succ, Sim.connOf h c]
    rw [DrainOkA] at hok
    split
    · exact h
    · rename_i hpd
      rw [if_neg hpd] at hok
      split
      · exact h
      · rename_i fields rest hp
        rw [hp] at hok
        obtain ⟨hr, hok'⟩ := hok
        have h1 := Sim.setBuf h rest
        have h2 := (processCommand_rel (T := T) (c := c) (A := A) (D1 := D1) (D2 := D2) mode fields
          hr.1 hr.2.1 hr.2.2.1 hr.2.2.2.1 hr.2.2.2.2 _ _ h1).2
        exact ih h2 hok'

/-- what a write of `data` on connection `c` will process is covered: judged in the state the write starts from -/
def SendOkA (T : Nat → Prop) (A : String × List Bytes → Prop) (mode : Mode) (c : Nat) (data : Bytes) (s : Sys) : Prop :=
  s.srv.connected = true → (connOf s c).dead = false →
    DrainOkA T A mode c ((connOf s c).buf.length + data.length + 1) (appendBuf c data s)

/-- **`sendall`** -/
theorem sendall_sim (mode : Mode) (data : Bytes) {s1 s2 : Sys} (h : Sim T c true A D1 D2 s1 s2)
    (hok : (connOf s1 c).dead = false →
      DrainOkA T A mode c ((connOf s1 c).buf.length + data.length + 1) (appendBuf c data s1)) :
    Sim T c true A D1 D2 ((sendall mode c data).run s1).2 ((sendall mode c data).run s2).2 := by
  rw [sendall_run, sendall_run, Sim.connOf h c]
  split
  · exact Sim.frame h (fun s => { s with crashed := some "StopIteration" }) (fun _ _ => rfl) rfl rfl rfl
  · rename_i hd
    exact drain_sim mode _ (Sim.appendBuf h data) (hok (by simpa using hd))

/-- **`sendallGuarded`** (`FakeSocket.sendall` with the outage check) -/
theorem sendallGuarded_sim (mode : Mode) (data : Bytes) {s1 s2 : Sys} (h : Sim T c true A D1 D2 s1 s2)
    (hok : SendOkA T A mode c data s1) :
    Sim T c true A D1 D2 (sendallGuarded mode c data s1).2 (sendallGuarded mode c data s2).2 := by
  have hc : s2.srv.connected = s1.srv.connected := by rw [h.eqv]
  cases hup : s1.srv.connected with
  | false =>
    rw [sendallGuarded_run_down mode c data s1 hup, sendallGuarded_run_down mode c data s2 (hc.trans hup)]
    exact Sim.frame h (fun s => { s with crashed := some "ConnectionError" }) (fun _ _ => rfl) rfl rfl rfl
  | true =>
    rw [sendallGuarded_run_up mode c data s1 hup, sendallGuarded_run_up mode c data s2 (hc.trans hup)]
    exact sendall_sim mode data h (hok hup)

end loop

/-! ## A static sufficient condition: every complete request in the buffer is covered -/

theorem drainOkA_of_parse {T : Nat → Prop} {A : String × List Bytes → Prop} (mode : Mode) (c : Nat) (fuel : Nat)
    (s : Sys) (h : ∀ n, ∀ f ∈ (parseAll n (connOf s c).buf).1, ReqOkA T A f) : DrainOkA T A mode c fuel s := by
  induction fuel generalizing s with
  | zero => trivial
  | succ fuel ih =>
    rw [DrainOkA]
    split
    · trivial
    · split
      · trivial
      · rename_i fields rest hp
        refine ⟨h 1 fields (by simp [parseAll, hp]), ih _ ?_⟩
        intro n f hf
        rw [FR.BufIndep.bufIndependent mode c fields rest s] at hf
        cases hx : findConn ((processCommand mode c fields).run s).2 c with
        | none =>
          rw [show setBuf c rest ((processCommand mode c fields).run s).2 = _ from modifyConn_noconn c _ _ hx,
            connOf_none hx] at hf
          rw [show ({ id := c } : Conn).buf = [] from rfl, parseAll_nil] at hf
          cases hf
        | some x =>
          rw [connOf_setBuf_some hx] at hf
          exact h (n + 1) f (by simp only [parseAll, hp]; exact List.mem_cons_of_mem _ hf)

theorem sendOkA_of_parse {T : Nat → Prop} {A : String × List Bytes → Prop} (mode : Mode) (c : Nat) (data : Bytes)
    (s : Sys) (h : ∀ n, ∀ f ∈ (parseAll n ((connOf s c).buf ++ data)).1, ReqOkA T A f) : SendOkA T A mode c data s := by
  intro _ _
  refine drainOkA_of_parse mode c _ _ ?_
  cases hx : findConn s c with
  | none =>
    rw [show appendBuf c data s = s from modifyConn_noconn c _ s hx, connOf_none hx]
    intro n f hf
    rw [show ({ id := c } : Conn).buf = [] from rfl, parseAll_nil] at hf
    cases hf
  | some x =>
    rw [connOf_appendBuf_some hx, ← connOf_some hx]
    exact h

/-- the complete requests of an encoded stream followed by an incomplete tail are the encoded ones -/
theorem parseAll_encodeStream_sub (reqs : List (List Bytes)) (tail : Bytes) (ht : tryParse tail = none) (n : Nat) :
    ∀ f ∈ (parseAll n (encodeStream reqs ++ tail)).1, f ∈ reqs := by
  induction reqs generalizing n with
  | nil =>
    intro f hf
    cases n with
    | zero => cases hf
    | succ n => simp [parseAll, encodeStream, ht] at hf
  | cons q qs ih =>
    intro f hf
    cases n with
    | zero => cases hf
    | succ n =>
      have e : encodeStream (q :: qs) ++ tail = encodeRequest q ++ (encodeStream qs ++ tail) := by
        simp [encodeStream, List.append_assoc]
      rw [e, parseAll, tryParse_encode'] at hf
      rcases List.mem_cons.1 hf with rfl | hf
      · exact List.mem_cons_self
      · exact List.mem_cons_of_mem _ (ih n f hf)

/-! ## Histories with raw writes -/

/-- the events covered by the history theorem with raw writes: those of `OkEv`, and `.send` when the connection is
selected on `T`, its queue is covered, and every request the write will process is covered (`SendOkA`, judged in the
state the write is run from: per-event outputs reset, hints loaded) -/
def OkEvW (T : Nat → Prop) (s : Sys) : Ev → Prop
  | .send mode c data clocks picks =>
    T (s.conn c).db ∧ (∀ q, (s.conn c).tx = some q → ∀ e ∈ q, QAllowed T e) ∧
      SendOkA T (QAllowed T) mode c data (s.beginEvent.withHints clocks picks)
  | e => OkEv T s e

theorem OkEv.toW {T : Nat → Prop} {s : Sys} {e : Ev} (h : OkEv T s e) : OkEvW T s e := by
  cases e <;> first | exact h | exact absurd h id

theorem stepEv_agreeW {T : Nat → Prop} {s1 s2 : Sys} (h : Agree T s1 s2) (e : Ev) (hok : OkEvW T s1 e) :
    StepOk T s1 s2 (stepEv s1 e) (stepEv s2 e) := by
  cases e with
  | send mode c data clocks picks =>
    obtain ⟨hsel, hq, hs⟩ := hok
    have hb : Agree T (s1.beginEvent.withHints clocks picks) (s2.beginEvent.withHints clocks picks) :=
      h.map (fun s => s.beginEvent.withHints clocks picks) (fun _ _ => rfl) (fun _ => rfl)
    have hr := sendallGuarded_sim mode data (hb.toSim c true (QAllowed T) (fun _ => hsel) hq) hs
    exact ⟨hr.agree, hr.off1, hr.off2⟩
  | _ => exact stepEv_agree h _ hok

/-- every event of the history is covered (raw writes admitted), judged along the run from `s` -/
def OkHistW (T : Nat → Prop) : Sys → List Ev → Prop
  | _, [] => True
  | s, e :: es => OkEvW T s e ∧ OkHistW T (stepEv s e) es

theorem OkHist.toW {T : Nat → Prop} {s : Sys} {evs : List Ev} (h : OkHist T s evs) : OkHistW T s evs := by
  induction evs generalizing s with
  | nil => trivial
  | cons e es ih => exact ⟨h.1.toW, ih h.2⟩

theorem history_agreeW {T : Nat → Prop} (evs : List Ev) {s1 s2 : Sys} (h : Agree T s1 s2) (hok : OkHistW T s1 evs) :
    outs s2 evs = outs s1 evs ∧ StepOk T s1 s2 (evs.foldl stepEv s1) (evs.foldl stepEv s2) := by
  induction evs generalizing s1 s2 with
  | nil => exact ⟨rfl, h, fun _ _ => rfl, fun _ _ => rfl⟩
  | cons e es ih =>
    obtain ⟨he, hes⟩ := hok
    have hstep := stepEv_agreeW h e he
    obtain ⟨ho, hr⟩ := ih hstep.agree hes
    refine ⟨?_, hr.agree, ?_, ?_⟩
    · simp only [outs, ho, hstep.agree.out]
    · intro j hj; rw [List.foldl_cons, hr.off1 j hj, hstep.off1 j hj]
    · intro j hj; rw [List.foldl_cons, hr.off2 j hj, hstep.off2 j hj]

/-! ## The requests a write processes, as a list -/

/-- the requests `drain mode c fuel` hands to `processCommand` when it is run from `s`, in order -/
def drainReqs (mode : Mode) (c : Nat) : Nat → Sys → List (List Bytes)
  | 0, _ => []
  | fuel + 1, s =>
    if (connOf s c).paused || (connOf s c).dead then []
    else match tryParse (connOf s c).buf with
      | none => []
      | some (fields, rest) =>
        fields :: drainReqs mode c fuel ((processCommand mode c fields).run (setBuf c rest s)).2

/-- the requests `sendallGuarded mode c data` processes when it is run from `s` (none during an outage or on a dead
connection) -/
def sendReqs (mode : Mode) (c : Nat) (data : Bytes) (s : Sys) : List (List Bytes) :=
  if s.srv.connected && !(connOf s c).dead then
    drainReqs mode c ((connOf s c).buf.length + data.length + 1) (appendBuf c data s)
  else []

theorem drainOkA_iff {T : Nat → Prop} {A : String × List Bytes → Prop} (mode : Mode) (c : Nat) (fuel : Nat) (s : Sys) :
    DrainOkA T A mode c fuel s ↔ ∀ f ∈ drainReqs mode c fuel s, ReqOkA T A f := by
  induction fuel generalizing s with
  | zero => simp [DrainOkA, drainReqs]
  | succ fuel ih =>
    rw [DrainOkA, drainReqs]
    split
    · simp
    · split
      · simp
      · simp only [ih, List.mem_cons, forall_eq_or_imp]

theorem sendOkA_iff {T : Nat → Prop} {A : String × List Bytes → Prop} (mode : Mode) (c : Nat) (data : Bytes) (s : Sys) :
    SendOkA T A mode c data s ↔ ∀ f ∈ sendReqs mode c data s, ReqOkA T A f := by
  unfold SendOkA sendReqs
  rw [drainOkA_iff]
  cases s.srv.connected <;> cases (connOf s c).dead <;> simp

end FR.DbFrame
