import FR.Proofs.C18fRound
import FR.Proofs.C18fFmt
/-!
# C18f helper — what INCRBYFLOAT / HINCRBYFLOAT store can be read back

`encodeFloat_reparses`: for every finite canonical double `s` and both emulated versions, the human-friendly
encoding `Cmd.encodeFloat version s true` (the `%.17f` rendering without trailing zeros) is accepted by the plain
`Float` converter, and the value read back is finite.
-/
namespace FR.C18f
open FR FR.DumpRound

theorem addFin_zero_left (n : Bool) (m : Nat) (e : Int) (he : -1074 ≤ e) :
    Dbl.addFin false 0 (-1074) n m e =
      if ((if n then -1 else 1) * ((m * 2 ^ (e + 1074).toNat : Nat) : Int) == 0) = true then .fin (false && n) 0 (-1074)
      else Dbl.roundPos (decide ((if n then -1 else 1) * ((m * 2 ^ (e + 1074).toNat : Nat) : Int) < 0))
        ((if n then -1 else 1) * ((m * 2 ^ (e + 1074).toNat : Nat) : Int)).natAbs (2 ^ 1074) := by
  unfold Dbl.addFin
  have hmin : min (-1074 : Int) e = -1074 := by omega
  have e1 : (e - -1074).toNat = (e + 1074).toNat := by omega
  have e2 : ((-1074 : Int) - -1074).toNat = 0 := by decide
  have e3 : (- (-1074 : Int)).toNat = 1074 := by decide
  simp only [hmin, e1, e2, e3, DumpRound.pow2_eq, Bool.false_eq_true, if_false, Nat.zero_mul, Int.one_mul,
    Int.natCast_zero, Int.zero_add]
  rw [if_neg (by decide : ¬ (-1074 : Int) ≥ 0)]

set_option exponentiation.threshold 2200 in
/-- `0.0 + d` of a finite canonical double is finite -/
theorem plusZero_finite {d : Dbl} (hf : d.isFinite = true) (hc : Canon d) : d.plusZero.isFinite = true := by
  cases d with
  | nan => cases hf
  | inf b => cases hf
  | fin n m e =>
    have he : -1074 ≤ e ∧ e ≤ 971 ∧ m < 2 ^ 53 := by
      rcases hc with ⟨h1, h2⟩ | ⟨h1, h2, h3, h4⟩
      · exact ⟨by omega, by omega, by omega⟩
      · exact ⟨h3, h4, h2⟩
    show (Dbl.addFin false 0 (-1074) n m e).isFinite = true
    rw [addFin_zero_left n m e he.1]
    generalize hS : (if n then -1 else 1) * ((m * 2 ^ (e + 1074).toNat : Nat) : Int) = S
    have hmag : S.natAbs = m * 2 ^ (e + 1074).toNat := by
      rw [← hS]
      cases n with
      | false =>
        show ((1 : Int) * ((m * 2 ^ (e + 1074).toNat : Nat) : Int)).natAbs = _
        rw [Int.one_mul, Int.natAbs_natCast]
      | true =>
        show ((-1 : Int) * ((m * 2 ^ (e + 1074).toNat : Nat) : Int)).natAbs = _
        rw [Int.neg_mul, Int.one_mul, Int.natAbs_neg, Int.natAbs_natCast]
    split
    · rfl
    · rename_i hs
      have hm0 : S.natAbs ≠ 0 := by
        intro h0
        have := Int.natAbs_eq_zero.mp h0
        rw [this] at hs
        exact hs rfl
      rcases roundPos_shape (decide (S < 0)) S.natAbs (2 ^ 1074) with h | ⟨m', e', h⟩
      · exfalso
        have hinf : (Dbl.roundPos (decide (S < 0)) S.natAbs (2 ^ 1074)).isInf = true := by rw [h]; rfl
        rw [roundPos_isInf_iff _ _ _ hm0 (Nat.pow_pos (by decide)), hmag] at hinf
        have hp : 2 ^ (e + 1074).toNat ≤ 2 ^ 2045 := Nat.pow_le_pow_right (by decide) (by omega)
        have h1 : m * 2 ^ (e + 1074).toNat ≤ (2 ^ 53 - 1) * 2 ^ (e + 1074).toNat :=
          Nat.mul_le_mul_right _ (by omega)
        have h2 : (2 ^ 53 - 1) * 2 ^ (e + 1074).toNat ≤ (2 ^ 53 - 1) * 2 ^ 2045 := Nat.mul_le_mul_left _ hp
        unfold ovf at hinf
        generalize m * 2 ^ (e + 1074).toNat = X at *
        generalize (2 ^ 53 - 1) * 2 ^ (e + 1074).toNat = Y at *
        omega
      · rw [h]; rfl

theorem round_bound (N C D : Nat) (hD : 0 < D) (h : 2 * (N * D) ≤ 2 * C + D) : N ≤ C + 1 := by
  by_cases c : N ≤ C + 1
  · exact c
  · exfalso
    have h1 : (C + 2) * D ≤ N * D := Nat.mul_le_mul_right _ (by omega)
    rw [Nat.add_mul] at h1
    have h2 : C * 1 ≤ C * D := Nat.mul_le_mul_left _ hD
    generalize N * D = A at *
    generalize C * D = B at *
    omega

set_option exponentiation.threshold 1100 in
theorem humanN_lt_ovf (m : Nat) (e : Int) (he : e ≤ 971) (hm : m < 2 ^ 53) : humanN m e < ovf * 10 ^ 17 := by
  have hm' : m ≤ 2 ^ 53 - 1 := by omega
  by_cases hge : e ≥ 0
  · rw [humanN_exact m e hge]
    have hp : 2 ^ e.toNat ≤ 2 ^ 971 := Nat.pow_le_pow_right (by decide) (by omega)
    have h1 : m * 2 ^ e.toNat ≤ (2 ^ 53 - 1) * 2 ^ e.toNat := Nat.mul_le_mul_right _ hm'
    have h2 : (2 ^ 53 - 1) * 2 ^ e.toNat ≤ (2 ^ 53 - 1) * 2 ^ 971 := Nat.mul_le_mul_left _ hp
    have h3 : m * 2 ^ e.toNat < ovf := by
      apply Nat.lt_of_le_of_lt (Nat.le_trans h1 h2)
      unfold ovf
      decide +kernel
    exact Nat.mul_lt_mul_of_pos_right h3 (Nat.pow_pos (by decide))
  · have hs := (humanN_spec m e).1
    simp only [if_neg hge, pow2_eq] at hs
    have hden : 0 < 2 ^ (-e).toNat := Nat.pow_pos (by decide)
    have hN2 : humanN m e ≤ m * 10 ^ 17 + 1 :=
      round_bound _ _ _ hden (by rw [Nat.mul_assoc] at hs; exact hs)
    have h4 : m * 10 ^ 17 + 1 ≤ (2 ^ 53 - 1) * 10 ^ 17 + 1 :=
      Nat.add_le_add_right (Nat.mul_le_mul_right _ hm') 1
    apply Nat.lt_of_le_of_lt (Nat.le_trans hN2 h4)
    unfold ovf
    decide +kernel

set_option exponentiation.threshold 1100 in
/-- the `%.17f` rendering of a finite canonical double is accepted by the plain `Float` converter and reads
back as a finite double -/
theorem fmtF17Human_reparses (neg : Bool) (m : Nat) (e : Int) (hc : Canon (.fin neg m e)) :
    ∃ d', Conv.float (strBytes (Dbl.fmtF17Human (.fin neg m e))) = .ok d' ∧ d'.isFinite = true := by
  have he : e ≤ 971 ∧ m < 2 ^ 53 := by
    rcases hc with ⟨h1, h2⟩ | ⟨h1, h2, h3, h4⟩
    · exact ⟨by omega, by omega⟩
    · exact ⟨h4, h2⟩
  obtain ⟨L, hv, hb, hsg, hexp, hfl, hmant, _⟩ := fmtF17Human_lit neg m e
  have hx : expoC L = 0 := by unfold expoC; rw [hexp]
  have hN : humanN m e < ovf * 10 ^ 17 := humanN_lt_ovf m e he.1 he.2
  have hM : L.mant < ovf * 10 ^ L.fp.length := by
    have : L.mant * 10 ^ 17 < ovf * 10 ^ L.fp.length * 10 ^ 17 := by
      rw [hmant, Nat.mul_assoc, Nat.mul_comm (10 ^ L.fp.length), ← Nat.mul_assoc]
      exact Nat.mul_lt_mul_of_pos_right hN (Nat.pow_pos (by decide))
    exact Nat.lt_of_mul_lt_mul_right this
  refine ⟨modelVal L, ?_, ?_⟩
  · unfold Conv.float
    rw [floatGen_ok_iff]
    refine Or.inl ⟨L, hv, hb, rfl, ?_⟩
    by_cases h0 : L.mant = 0
    · exact Or.inr (Or.inl h0)
    · right; right
      unfold modelVal
      rw [hx]
      constructor
      · cases hi : (Dbl.ofDecimal L.sign.neg L.mant (0 - (L.fp.length : Int))).isInf with
        | false => rfl
        | true =>
          exfalso
          rw [ofDecimal_isInf_iff] at hi
          have e1 : (-(0 - (L.fp.length : Int))).toNat = L.fp.length := by omega
          have e2 : (0 - (L.fp.length : Int)).toNat = 0 := by omega
          rw [e1, e2, Nat.pow_zero, Nat.mul_one] at hi
          omega
      · cases hz : (Dbl.ofDecimal L.sign.neg L.mant (0 - (L.fp.length : Int))).isZero with
        | false => rfl
        | true =>
          exfalso
          rw [ofDecimal_isZero_iff] at hz
          have e1 : (-(0 - (L.fp.length : Int))).toNat = L.fp.length := by omega
          have e2 : (0 - (L.fp.length : Int)).toNat = 0 := by omega
          rw [e1, e2, Nat.pow_zero, Nat.mul_one] at hz
          rcases hz with hz | hz
          · exact h0 hz
          · have hp : 10 ^ L.fp.length ≤ 10 ^ 17 := Nat.pow_le_pow_right (by decide) hfl
            have h1 : 1 * 2 ^ 1075 ≤ L.mant * 2 ^ 1075 := Nat.mul_le_mul_right _ (by omega)
            generalize 10 ^ L.fp.length = P at *
            omega
  · unfold modelVal
    rcases ofDecimal_shape L.sign.neg L.mant (expoC L - (L.fp.length : Int)) with h | ⟨m', e', h⟩
    · exfalso
      have hi : (Dbl.ofDecimal L.sign.neg L.mant (expoC L - (L.fp.length : Int))).isInf = true := by rw [h]; rfl
      rw [hx, ofDecimal_isInf_iff] at hi
      have e1 : (-(0 - (L.fp.length : Int))).toNat = L.fp.length := by omega
      have e2 : (0 - (L.fp.length : Int)).toNat = 0 := by omega
      rw [e1, e2, Nat.pow_zero, Nat.mul_one] at hi
      omega
    · rw [h]; rfl

/-- what INCRBYFLOAT / HINCRBYFLOAT store (`Cmd.encodeFloat version s true`, `s` finite and canonical) is a string
the plain `Float` converter accepts, with a finite value -/
theorem encodeFloat_reparses (version : Nat) (s : Dbl) (hf : s.isFinite = true) (hc : Canon s) :
    ∃ d', Conv.float (Cmd.encodeFloat version s true) = .ok d' ∧ d'.isFinite = true := by
  have key : ∀ d : Dbl, d.isFinite = true → Canon d →
      ∃ d', Conv.float (Dbl.encode d true) = .ok d' ∧ d'.isFinite = true := by
    intro d hf hc
    cases d with
    | nan => cases hf
    | inf b => cases hf
    | fin n m e => exact fmtF17Human_reparses n m e hc
  unfold Cmd.encodeFloat
  split
  · exact key _ (plusZero_finite hf hc) (plusZero_canon s)
  · exact key _ hf hc


/-- `0.0 + d = d` for every canonical finite double except `-0` (which becomes `+0`) -/
theorem plusZero_eq_self (n : Bool) (m : Nat) (e : Int) (hc : Canon (.fin n m e)) (hm : m ≠ 0) :
    (Dbl.fin n m e).plusZero = .fin n m e := by
  have he : -1074 ≤ e := by
    rcases hc with ⟨h1, h2⟩ | ⟨h1, h2, h3, h4⟩ <;> omega
  show Dbl.addFin false 0 (-1074) n m e = _
  rw [addFin_zero_left n m e he]
  have hX : m * 2 ^ (e + 1074).toNat ≠ 0 := Nat.mul_ne_zero hm (Nat.ne_of_gt (Nat.pow_pos (by decide)))
  generalize hXd : m * 2 ^ (e + 1074).toNat = X at *
  cases n with
  | false =>
    have h1 : ((if false = true then -1 else 1) * (X : Int) == 0) = false := by
      have : ¬ ((1 : Int) * (X : Int) = 0) := by omega
      simpa using this
    rw [h1]
    simp only [Bool.false_eq_true, if_false, Int.one_mul, Int.natAbs_natCast]
    have : decide ((X : Int) < 0) = false := decide_eq_false (by omega)
    rw [this, ← hXd]
    exact roundPos_exact_canon false m e hc hm
  | true =>
    have h1 : ((if true = true then -1 else 1) * (X : Int) == 0) = false := by
      have : ¬ ((-1 : Int) * (X : Int) = 0) := by omega
      simpa using this
    rw [h1]
    simp only [if_true, Bool.false_eq_true, if_false, Int.neg_mul, Int.one_mul, Int.natAbs_neg,
      Int.natAbs_natCast]
    have : decide (-(X : Int) < 0) = true := decide_eq_true (by omega)
    rw [this, ← hXd]
    exact roundPos_exact_canon true m e hc hm

theorem plusZero_zero (n : Bool) : (Dbl.fin n 0 (-1074)).plusZero = .fin false 0 (-1074) := by
  cases n <;> decide

end FR.C18f
