import FR.Proofs.History
import FR.Proofs.AsyncLife
/-!
# Pub/sub over histories (C10, lifted to `runHistory`)

Part 1: a generic invariant tower.  `view s` is what the pub/sub layer can observe of a state: the two
subscription tables, the list of closed sockets awaiting clean-up, `(id, closed, pubsub)` of every connection
record, and the emitted replies.  An invariant that only depends on `view` (class `Frame`) is pushed through every
monadic building block of `FR/Sys/Server.lean` / `FR/Sys/Process.lean`, given what the few view-changing
primitives (`emit c`, `publish`, `subscribeGen c`, `unsubscribeGen c`, `cleanupClosed`) do to it.
-/
namespace FR.PubSubHist
open FR FR.M
set_option linter.unusedSimpArgs false
set_option linter.unusedVariables false
set_option linter.unusedSectionVars false

/-! ## the view -/

/-- what the pub/sub layer observes of a connection record -/
def ckey (x : Conn) : Nat × Bool × Nat := (x.id, x.closed, x.pubsub)

structure View where
  subs : Tbl
  psubs : Tbl
  closedSockets : List Nat
  conns : List (Nat × Bool × Nat)
  out : List (Nat × Reply)

def view (s : Sys) : View := ⟨s.srv.subs, s.srv.psubs, s.srv.closedSockets, s.srv.conns.map ckey, s.out⟩

/-- an invariant that depends on the view only -/
class Frame (I : Sys → Prop) : Prop where
  frame : ∀ s s' : Sys, view s' = view s → I s → I s'

/-- `m` does not change the view -/
def Keeps {α : Type} (m : M α) : Prop := ∀ s, view (m s).2 = view s

theorem Keeps.pres {I : Sys → Prop} [Frame I] {α : Type} {m : M α} (h : Keeps m) : Pres I m :=
  fun s hs => Frame.frame s _ (h s) hs

theorem map_ckey_congr (l : List Conn) (g : Conn → Conn) (hg : ∀ x, ckey (g x) = ckey x) :
    (l.map g).map ckey = l.map ckey := by
  rw [List.map_map]
  exact List.map_congr_left (fun x _ => hg x)

theorem view_mapConns (s : Sys) (g : Conn → Conn) (hg : ∀ x, ckey (g x) = ckey x) :
    view (s.mapConns g) = view s := by
  unfold view Sys.mapConns
  simp only [map_ckey_congr _ g hg]

theorem view_updConn (s : Sys) (c : Nat) (f : Conn → Conn) (hf : ∀ x, ckey (f x) = ckey x) :
    view (s.updConn c f) = view s := by
  rw [Sys.updConn_eq_mapConns]
  apply view_mapConns
  intro x; split
  · exact hf x
  · rfl

theorem ckey_notifyFn (d : Nat) (k : Bytes) (x : Conn) : ckey (notifyFn d k x) = ckey x := by
  unfold notifyFn; simp only; split <;> split <;> (try split) <;> rfl

section leaves
variable {I : Sys → Prop} [Frame I]

theorem fr_getConn (c : Nat) : Pres I (getConn c) := fun _ h => h
theorem fr_get : Pres I (get : M Sys) := fun _ h => h
theorem fr_getDb (i : Nat) : Pres I (getDb i) := fun _ h => h
theorem fr_setDb (i : Nat) (db : Db) : Pres I (setDb i db) := Keeps.pres (fun _ => rfl)

theorem fr_modifyConn (c : Nat) (f : Conn → Conn) (hf : ∀ x, ckey (f x) = ckey x) : Pres I (modifyConn c f) :=
  Keeps.pres (fun s => view_updConn s c f hf)

theorem fr_clearWatches (c : Nat) : Pres I (clearWatches c) := fr_modifyConn c _ (fun _ => rfl)

theorem fr_notifyWatch (d : Nat) (k : Bytes) : Pres I (notifyWatch d k) :=
  Keeps.pres (fun s => view_mapConns s _ (ckey_notifyFn d k))

theorem fr_fault (msg : String) : Pres I (M.fault msg) := by
  refine Keeps.pres (fun s => ?_)
  show view (if s.fault.isNone then { s with fault := some msg } else s) = view s
  split <;> rfl

theorem fr_nextClock : Pres I nextClock := by
  refine Keeps.pres (fun s => ?_)
  unfold view
  rw [nextClock_srv, nextClock_out]

theorem fr_modify (g : Sys → Sys) (h : ∀ s, view (g s) = view s) : Pres I (modify g) :=
  Keeps.pres h

theorem fr_at_set {β : Type} {s s' : Sys} {g : PUnit → M β} (hs : I s) (h : view s' = view s) (hg : Pres I (g ⟨⟩)) :
    PresAt I s (set s' >>= g) :=
  hg s' (Frame.frame s s' h hs)

theorem fr_writebackAll (d : Nat) (cis : List CI) : Pres I (writebackAll d cis) := by
  unfold writebackAll
  refine Pres.forM (fun ci => ?_)
  refine Pres.bind (fr_getDb d) (fun db => ?_)
  split
  refine Pres.bind (fr_setDb d _) (fun _ => ?_)
  split
  · exact fr_notifyWatch d ci.key
  · exact Pres.pure _

theorem fr_liveKeys (d : Nat) : Pres I (liveKeys d) := by
  unfold liveKeys
  refine Pres.bind (fr_getDb d) (fun db => ?_)
  split
  exact Pres.bind (fr_setDb d _) (fun _ => Pres.pure _)

theorem fr_clearDb (d : Nat) : Pres I (clearDb d) := by
  unfold clearDb
  refine Pres.bind (fr_liveKeys d) (fun ks => ?_)
  refine Pres.bind (Pres.forM (fun k => fr_notifyWatch d k)) (fun _ => ?_)
  exact fr_setDb d _

theorem fr_okR (r : Reply) (cis : List CI) : Pres I (okR r cis) := Pres.pure _

end leaves

/-- the leaves of the structural descent `pres`, for a `Frame` invariant -/
macro_rules | `(tactic| pres_leaf) => `(tactic| first
  | with_reducible exact fr_getConn _
  | with_reducible exact fr_fault _
  | with_reducible exact fr_nextClock
  | with_reducible exact fr_clearWatches _
  | with_reducible exact fr_notifyWatch _ _
  | with_reducible exact fr_writebackAll _ _
  | with_reducible exact fr_liveKeys _
  | with_reducible exact fr_clearDb _
  | with_reducible exact fr_getDb _
  | with_reducible exact fr_setDb _ _
  | with_reducible exact fr_okR _ _
  | with_reducible exact fr_get
  | ((with_reducible refine fr_modifyConn _ _ ?_); exact fun _ => rfl)
  | ((with_reducible refine fr_modify _ ?_); first | exact fun _ => rfl | (intro _; split <;> rfl)))

/-! ## the special bodies -/

section tower
variable {I : Sys → Prop} [Frame I]

theorem selectCmd_pres (c : Nat) (args : List Arg) (cis : List CI) : Pres I (selectCmd c args cis) := by
  unfold selectCmd; pres

theorem swapdbCmd_pres (args : List Arg) (cis : List CI) : Pres I (swapdbCmd args cis) := by
  unfold swapdbCmd okR; pres

theorem moveCmd_pres (d : Nat) (args : List Arg) (cis : List CI) : Pres I (moveCmd d args cis) := by
  unfold moveCmd; pres

theorem randomkeyCmd_pres (d : Nat) (cis : List CI) : Pres I (randomkeyCmd d cis) := by
  unfold randomkeyCmd okR
  refine Pres.bind (fr_liveKeys d) (fun ks => ?_)
  split
  · pres
  · refine Pres.get_bind (fun s hs => ?_)
    split
    · split
      · exact fr_at_set hs rfl (Pres.pure _)
      · refine Pres.at_of_pres ?_ hs; pres
    · refine Pres.at_of_pres ?_ hs; pres

theorem scanCmd_pres (d : Nat) (args : List Arg) (cis : List CI) : Pres I (scanCmd d args cis) := by
  unfold scanCmd; pres

theorem multiCmd_pres (c : Nat) (cis : List CI) : Pres I (multiCmd c cis) := by
  unfold multiCmd; pres

theorem discardCmd_pres (c : Nat) (cis : List CI) : Pres I (discardCmd c cis) := by
  unfold discardCmd; pres

theorem watchCmd_pres (c d : Nat) (args : List Arg) (cis : List CI) : Pres I (watchCmd c d args cis) := by
  unfold watchCmd; pres

theorem bpopPass_pres (d : Nat) (left first : Bool) (keys : List Bytes) :
    Pres I (bpopPass d left first keys) := by
  induction keys with
  | nil => unfold bpopPass; pres
  | cons k rest ih => unfold bpopPass; pres

theorem brpoplpushPass_pres (d : Nat) (src dst : Bytes) (first : Bool) :
    Pres I (brpoplpushPass d src dst first) := by
  unfold brpoplpushPass; pres

theorem blocking_pres (c : Nat) (park : Bool) (kind : String) (keys : List Bytes) (timeout : Int)
    (pass : Bool → M (Except Err (Option Reply))) (hpass : ∀ first, Pres I (pass first)) :
    Pres I (blocking c park kind keys timeout pass) := by
  have h1 := hpass true
  unfold blocking; pres

theorem blockingAsync_pres (c : Nat) (kind : String) (keys : List Bytes)
    (pass : Bool → M (Except Err (Option Reply))) (hpass : ∀ first, Pres I (pass first)) :
    Pres I (blockingAsync c kind keys pass) := by
  have h1 := hpass true
  unfold blockingAsync; pres

theorem runQueue_pres (inner : Inner) (hinner : ∀ sig raw, Pres I (inner sig raw)) (c : Nat)
    (q : List (String × List Bytes)) : Pres I (runQueue inner c q) := by
  induction q with
  | nil => unfold runQueue; pres
  | cons a rest ih =>
    rw [runQueue_cons]
    refine Pres.bind ?_ (fun _ => Pres.bind ih (fun _ => Pres.pure _))
    unfold queueStep
    pres

theorem execCmd_pres (inner : Inner) (hinner : ∀ sig raw, Pres I (inner sig raw)) (c : Nat) (cis : List CI) :
    Pres I (execCmd inner c cis) := by
  have hq := runQueue_pres inner hinner c
  unfold execCmd
  pres

theorem lookupKey_pres (d : Nat) (key pattern : Bytes) : Pres I (lookupKey d key pattern) := by
  unfold lookupKey; pres

end tower

macro_rules | `(tactic| pres_leaf) => `(tactic| with_reducible exact lookupKey_pres _ _ _)

section tower
variable {I : Sys → Prop} [Frame I]

theorem sortCmd_pres (c d : Nat) (args : List Arg) (cis : List CI) : Pres I (sortCmd c d args cis) := by
  unfold sortCmd
  split
  · extract_lets key wrong out x keyed err le jp
    split
    · pres
    · have hjp : ∀ x, Pres I (jp x) := by
        intro items?
        simp -zeta only [jp]
        split
        · pres
        · split
          · pres
          · extract_lets n start stop stop' gets sortby jp2
            have hjp2 : ∀ x, Pres I (jp2 x) := by
              intro sorted?
              simp -zeta only [jp2]
              pres
            clear_value jp2
            pres
      clear_value jp
      simp only []
      split
      · pres
      · pres
      · pres
      · refine Pres.get_bind (fun st hs => ?_)
        split
        · split
          · exact fr_at_set hs rfl (by pres)
          · refine Pres.at_of_pres ?_ hs; pres
        · refine Pres.at_of_pres ?_ hs; pres
      · pres
  · pres

theorem zunioninter_pres (u : Bool) (d : Nat) (args : List Arg) (cis : List CI) :
    Pres I (zunioninter u d args cis) := by
  unfold zunioninter
  split
  · pres
    all_goals
      refine Pres.loop_pure (fun b => b.2.2.2.2) _ (fun b => ?_) _
      repeat' split
      all_goals
        refine ⟨_, rfl, fun b' h => ?_⟩
        first
          | (cases h; done)
          | (have h := ForInStep.yield.inj h; subst h; simp_all <;> omega)
  · pres

theorem scriptCmd_pres (inner : Inner) (c : Nat) (name : String) (args : List Arg) (cis : List CI) :
    Pres I (scriptCmd inner c name args cis) := by
  unfold scriptCmd; pres

end tower

macro_rules | `(tactic| pres_leaf) => `(tactic| first
  | with_reducible exact selectCmd_pres _ _ _
  | with_reducible exact swapdbCmd_pres _ _
  | with_reducible exact moveCmd_pres _ _ _
  | with_reducible exact randomkeyCmd_pres _ _
  | with_reducible exact scanCmd_pres _ _ _
  | with_reducible exact sortCmd_pres _ _ _ _
  | with_reducible exact zunioninter_pres _ _ _ _
  | with_reducible exact multiCmd_pres _ _
  | with_reducible exact discardCmd_pres _ _
  | with_reducible exact watchCmd_pres _ _ _ _
  | with_reducible exact scriptCmd_pres _ _ _ _ _
  | with_reducible exact blocking_pres _ _ _ _ _ _ (fun _ => bpopPass_pres _ _ _ _)
  | with_reducible exact blockingAsync_pres _ _ _ _ (fun _ => bpopPass_pres _ _ _ _)
  | with_reducible exact blocking_pres _ _ _ _ _ _ (fun _ => brpoplpushPass_pres _ _ _ _)
  | with_reducible exact blockingAsync_pres _ _ _ _ (fun _ => brpoplpushPass_pres _ _ _ _))

/-! ## `special`, `_run_command`, scripts, `_process_command`, the parser loop, the scheduler events -/

/-- what the view-changing primitives issued on behalf of connection `c` do to the invariant -/
structure Hyps (I : Sys → Prop) (c : Nat) : Prop where
  emit : ∀ r, Pres I (emit c r)
  pub : ∀ ch m, Pres I (publish ch m)
  sub : ∀ p names, Pres I (subscribeGen c p names)
  unsub : ∀ p names, Pres I (unsubscribeGen c p names)

/-- the commands whose body changes the tables (EXEC: may run such commands) -/
def sensitiveNames : List String :=
  ["subscribe", "psubscribe", "unsubscribe", "punsubscribe", "exec"]

section tower
variable {I : Sys → Prop} [Frame I]

/-- every special body preserves the invariant (EXEC: provided the nested runner does) -/
theorem special_pres {c : Nat} (H : Hyps I c) (inner : Inner) (hinner : ∀ sig raw, Pres I (inner sig raw))
    (mode : Mode) (name : String) (args : List Arg) (cis : List CI) :
    Pres I (special inner mode c name args cis) := by
  have hexec := execCmd_pres inner hinner c
  have hemit := H.emit
  have hpub := H.pub
  have hsub := H.sub
  have hunsub := H.unsub
  unfold special
  simp only []
  refine Pres.bind (fr_getConn c) (fun conn => ?_)
  split
  all_goals pres

/-- a special body other than (P)SUBSCRIBE / (P)UNSUBSCRIBE / EXEC: only the replies to the caller and, for
PUBLISH, the deliveries matter -/
theorem special_pres_plain {c : Nat} (hemit : ∀ r, Pres I (emit c r))
    (inner : Inner) (mode : Mode) (name : String) (hn : name ∉ sensitiveNames)
    (hpub : name = "publish" → ∀ ch m, Pres I (publish ch m)) (args : List Arg) (cis : List CI) :
    Pres I (special inner mode c name args cis) := by
  unfold special
  simp only []
  refine Pres.bind (fr_getConn c) (fun conn => ?_)
  split
  all_goals first
    | (exfalso; exact hn (by decide))
    | (have hpub' := hpub rfl; pres; done)
    | (pres; done)

/-- `_run_command` preserves the invariant when the special body it may dispatch to does -/
theorem runWith_pres (special : SpecialFn) (mode : Mode) (c : Nat) (sig : Sig) (raw : List Bytes) (fromScript : Bool)
    (hsp : ∀ args cis, Pres I (special mode c sig.name args cis)) :
    Pres I (runWith special mode c sig raw fromScript) := by
  unfold runWith
  refine Pres.bind (fr_getConn c) (fun conn => ?_)
  split
  · -- refused in subscriber mode: nothing happens
    exact Pres.pure _
  refine Pres.bind (fr_getDb _) (fun db => ?_)
  extract_lets gate
  clear_value gate
  split
  · refine Pres.bind fr_get (fun s => ?_)
    extract_lets ctx o jp
    have hjp : ∀ x, Pres I (jp x) := by intro x; simp -zeta only [jp]; pres
    clear_value jp
    clear_value o
    pres
  · pres

theorem nextPick_pres : Pres I nextPick := by
  unfold nextPick
  refine Pres.get_bind (fun s hs => ?_)
  split
  · exact fr_at_set hs rfl (Pres.pure _)
  · exact Pres.at_of_pres (Pres.pure _) hs

end tower

macro_rules | `(tactic| pres_leaf) => `(tactic| with_reducible exact nextPick_pres)

section tower
variable {I : Sys → Prop} [Frame I]

theorem shaHint_pres : Pres I shaHint := by
  unfold shaHint; pres

end tower

macro_rules | `(tactic| pres_leaf) => `(tactic| with_reducible exact shaHint_pres)

section tower
variable {I : Sys → Prop} [Frame I]

theorem runFromScript_pres (special : SpecialFn) (c : Nat) (hsp : ∀ mode name args cis, Pres I (special mode c name args cis))
    (mode : Mode) (op : LuaVal) (args : List LuaVal) : Pres I (runFromScript special mode c op args) := by
  have hrun : ∀ sig raw, Pres I (runWith special mode c sig raw true) :=
    fun sig raw => runWith_pres special mode c sig raw true (fun _ _ => hsp _ _ _ _)
  unfold runFromScript
  pres

theorem runTrace_pres (special : SpecialFn) (c : Nat) (hsp : ∀ mode name args cis, Pres I (special mode c name args cis))
    (mode : Mode) (sha : Bytes) (fuel : Nat) : Pres I (runTrace special mode c sha fuel) := by
  have hcall := runFromScript_pres special c hsp mode
  induction fuel with
  | zero => unfold runTrace; pres
  | succ fuel ih => unfold runTrace; pres

theorem evalBody_pres (special : SpecialFn) (c : Nat) (hsp : ∀ mode name args cis, Pres I (special mode c name args cis))
    (mode : Mode) (script : Bytes) (numkeys : Int) (rest : List Bytes) :
    Pres I (evalBody special mode c script numkeys rest) := by
  have htrace := runTrace_pres special c hsp mode
  unfold evalBody; pres

theorem scriptBody_pres (special : SpecialFn) (c : Nat) (hsp : ∀ mode name args cis, Pres I (special mode c name args cis))
    (mode : Mode) (name : String) (args : List Arg) : Pres I (scriptBody special mode c name args) := by
  have heval := evalBody_pres special c hsp mode
  unfold scriptBody; pres

end tower

section tower
variable {I : Sys → Prop} [Frame I]

theorem special_stub_pres {c : Nat} (H : Hyps I c) (mode : Mode) (name : String) (args : List Arg) (cis : List CI) :
    Pres I (special (fun _ _ => do fault "nested exec"; return none) mode c name args cis) := by
  apply special_pres H
  intro sig raw
  pres

theorem runScriptCmd_pres {c : Nat} (H : Hyps I c) (mode : Mode) (sig : Sig) (raw : List Bytes) (fromScript : Bool) :
    Pres I (runScriptCmd mode c sig raw fromScript) := by
  have hbody := scriptBody_pres _ c (special_stub_pres H) mode
  unfold runScriptCmd; pres

theorem runInner_pres {c : Nat} (H : Hyps I c) (mode : Mode) (sig : Sig) (raw : List Bytes) :
    Pres I (runInner mode c sig raw) := by
  refine runInner_cases (P := fun m => Pres I m) mode c sig raw
    (fun _ => runScriptCmd_pres H mode sig raw false) (fun _ => ?_)
  apply runWith_pres
  intro args cis
  exact special_stub_pres H mode _ args cis

/-- `_run_command` for a command issued by a client -/
theorem runCommand_pres {c : Nat} (H : Hyps I c) (mode : Mode) (sig : Sig) (raw : List Bytes) (fromScript : Bool) :
    Pres I (runCommand mode c sig raw fromScript) := by
  unfold runCommand
  split
  · exact runScriptCmd_pres H _ _ _ _
  · apply runWith_pres
    intro args cis
    exact special_pres H _ (runInner_pres H mode) _ _ _ _

/-- `_process_command`, for any request -/
theorem processCommand_pres {c : Nat} (H : Hyps I c) (hclean : Pres I cleanupClosed) (mode : Mode) (fields : List Bytes) :
    Pres I (processCommand mode c fields) := by
  have hrun := runCommand_pres H mode
  have hemit := H.emit
  unfold processCommand
  pres

/-- the parser loop, whatever the buffer holds -/
theorem drain_pres {c : Nat} (H : Hyps I c) (hclean : Pres I cleanupClosed) (mode : Mode) (fuel : Nat) :
    Pres I (drain mode c fuel) := by
  have hp := processCommand_pres H hclean mode
  induction fuel with
  | zero => unfold drain; pres
  | succ fuel ih => unfold drain; pres

theorem sendall_pres {c : Nat} (H : Hyps I c) (hclean : Pres I cleanupClosed) (mode : Mode) (data : Bytes) :
    Pres I (sendall mode c data) := by
  have h2 := drain_pres H hclean mode
  unfold sendall; pres

theorem sendallGuarded_pres {c : Nat} (H : Hyps I c) (hclean : Pres I cleanupClosed) (mode : Mode) (data : Bytes) :
    Pres I (sendallGuarded mode c data) := by
  have h1 := sendall_pres H hclean mode data
  unfold sendallGuarded; pres

theorem parkedPass_pres (c : Nat) (p : Parked) : Pres I (parkedPass c p) := by
  have h1 : ∀ d src dst first, Pres I (brpoplpushPass d src dst first) := brpoplpushPass_pres
  have h2 : ∀ d l f keys, Pres I (bpopPass d l f keys) := bpopPass_pres
  unfold parkedPass
  pres

end tower

macro_rules | `(tactic| pres_leaf) => `(tactic| with_reducible exact parkedPass_pres _ _)

section tower
variable {I : Sys → Prop} [Frame I]

theorem wakeConn_pres {c : Nat} (hemit : ∀ r, Pres I (emit c r)) : Pres I (wakeConn c) := by
  unfold wakeConn; pres

theorem timeoutConn_pres {c : Nat} (hemit : ∀ r, Pres I (emit c r)) : Pres I (timeoutConn c) := by
  unfold timeoutConn; pres

theorem wakeConnAsync_pres {c : Nat} (H : Hyps I c) (hclean : Pres I cleanupClosed) (mode : Mode) :
    Pres I (wakeConnAsync mode c) := by
  have h := drain_pres H hclean mode
  have hemit := H.emit
  unfold wakeConnAsync; pres

theorem timeoutConnAsync_pres {c : Nat} (H : Hyps I c) (hclean : Pres I cleanupClosed) (mode : Mode) :
    Pres I (timeoutConnAsync mode c) := by
  have h := drain_pres H hclean mode
  have hemit := H.emit
  unfold timeoutConnAsync; pres

end tower


/-! ## Part 2: the subscription tables -/

/-- number of entries of a table that list `c` -/
def cnt (t : Tbl) (c : Nat) : Nat := (t.filter fun p => p.2.contains c).length

/-- names are unique, every subscriber list is duplicate-free -/
def TblOK (t : Tbl) : Prop := (t.map Prod.fst).Nodup ∧ ∀ p ∈ t, p.2.Nodup

def upd (t : Tbl) (n : Bytes) (g : List Nat → List Nat) : Tbl :=
  t.map fun p => if p.1 == n then (p.1, g p.2) else p

theorem cnt_nil (c : Nat) : cnt [] c = 0 := rfl

theorem cnt_cons (p : Bytes × List Nat) (t : Tbl) (c : Nat) :
    cnt (p :: t) c = (if p.2.contains c then 1 else 0) + cnt t c := by
  unfold cnt
  simp only [List.filter_cons]
  split <;> simp <;> omega

theorem cnt_append (t u : Tbl) (c : Nat) : cnt (t ++ u) c = cnt t c + cnt u c := by
  unfold cnt; simp

theorem upd_keys (t : Tbl) (n : Bytes) (g) : (upd t n g).map Prod.fst = t.map Prod.fst := by
  unfold upd
  rw [List.map_map]
  apply List.map_congr_left
  intro p _
  simp only [Function.comp]
  split <;> rfl

theorem upd_of_not_mem (t : Tbl) (n : Bytes) (g) (h : n ∉ t.map Prod.fst) : upd t n g = t := by
  unfold upd
  conv => rhs; rw [← List.map_id t]
  apply List.map_congr_left
  intro p hp
  have : p.1 ≠ n := by
    rintro rfl
    exact h (List.mem_map_of_mem hp)
  have h1 : (p.1 == n) = false := by simpa using this
  simp [h1]

theorem lookup_none_of_not_mem (t : Tbl) (n : Bytes) (h : n ∉ t.map Prod.fst) : t.lookup n = none := by
  induction t with
  | nil => rfl
  | cons p t ih =>
    obtain ⟨k, v⟩ := p
    simp only [List.map_cons, List.mem_cons, not_or] at h
    have : (n == k) = false := by simpa using h.1
    simp only [List.lookup_cons, this]
    exact ih h.2

theorem not_mem_of_lookup_none (t : Tbl) (n : Bytes) (h : t.lookup n = none) : n ∉ t.map Prod.fst := by
  induction t with
  | nil => simp
  | cons p t ih =>
    obtain ⟨k, v⟩ := p
    simp only [List.lookup_cons] at h
    cases hk : n == k
    · rw [hk] at h
      simp only [List.map_cons, List.mem_cons, not_or]
      exact ⟨by simpa using hk, ih h⟩
    · rw [hk] at h; cases h

theorem lookup_of_mem_nodup (t : Tbl) (n : Bytes) (cs : List Nat) (h : (t.map Prod.fst).Nodup) (hm : (n, cs) ∈ t) :
    t.lookup n = some cs := by
  induction t with
  | nil => cases hm
  | cons p t ih =>
    obtain ⟨k, v⟩ := p
    simp only [List.map_cons, List.nodup_cons] at h
    rcases List.mem_cons.1 hm with e | hm'
    · cases e; simp
    · have : n ≠ k := by
        rintro rfl
        exact h.1 (List.mem_map_of_mem (f := Prod.fst) hm')
      have h1 : (n == k) = false := by simpa using this
      simp only [List.lookup_cons, h1]
      exact ih h.2 hm'

theorem cnt_upd (t : Tbl) (n : Bytes) (g) (cs : List Nat) (c : Nat) (h : (t.map Prod.fst).Nodup)
    (hl : t.lookup n = some cs) :
    cnt (upd t n g) c + (if cs.contains c then 1 else 0) = cnt t c + (if (g cs).contains c then 1 else 0) := by
  induction t with
  | nil => cases hl
  | cons p t ih =>
    obtain ⟨k, v⟩ := p
    simp only [List.map_cons, List.nodup_cons] at h
    simp only [List.lookup_cons] at hl
    cases hk : n == k
    · rw [hk] at hl
      have h1 : (k == n) = false := by
        have : n ≠ k := by simpa using hk
        simpa using fun e => this e.symm
      have : upd ((k, v) :: t) n g = (k, v) :: upd t n g := by
        unfold upd
        simp only [List.map_cons, h1, Bool.false_eq_true, if_false]
      rw [this, cnt_cons, cnt_cons]
      have := ih h.2 hl
      omega
    · rw [hk] at hl
      have e : n = k := by simpa using hk
      subst e
      cases hl
      have : upd ((n, cs) :: t) n g = (n, g cs) :: t := by
        have hu := upd_of_not_mem t n g h.1
        unfold upd at hu ⊢
        simp only [List.map_cons, BEq.rfl, if_true, hu]
      rw [this, cnt_cons, cnt_cons]
      simp only
      omega

theorem cnt_erase (t : Tbl) (n : Bytes) (cs : List Nat) (c : Nat) (h : (t.map Prod.fst).Nodup)
    (hl : t.lookup n = some cs) :
    cnt (t.filter fun p => p.1 != n) c + (if cs.contains c then 1 else 0) = cnt t c := by
  induction t with
  | nil => cases hl
  | cons p t ih =>
    obtain ⟨k, v⟩ := p
    simp only [List.map_cons, List.nodup_cons] at h
    simp only [List.lookup_cons] at hl
    cases hk : n == k
    · rw [hk] at hl
      have h1 : (k != n) = true := by
        have : n ≠ k := by simpa using hk
        simpa using fun e => this e.symm
      simp only [List.filter_cons, h1, if_true]
      rw [cnt_cons, cnt_cons]
      have := ih h.2 hl
      omega
    · rw [hk] at hl
      have e : n = k := by simpa using hk
      subst e
      cases hl
      have h1 : (n != n) = false := by simp
      simp only [List.filter_cons, h1, Bool.false_eq_true, if_false]
      have : (t.filter fun p => p.1 != n) = t := by
        rw [List.filter_eq_self]
        intro p hp
        have : p.1 ≠ n := by rintro rfl; exact h.1 (List.mem_map_of_mem hp)
        simpa using this
      rw [this, cnt_cons]
      simp only
      omega

theorem entry_eq_of_lookup (t : Tbl) (n : Bytes) (cs : List Nat) (h : (t.map Prod.fst).Nodup)
    (hl : t.lookup n = some cs) (q : Bytes × List Nat) (hq : q ∈ t) (hn : q.1 = n) : q.2 = cs := by
  obtain ⟨k, v⟩ := q
  simp only at hn; subst hn
  have := lookup_of_mem_nodup t k v h hq
  rw [hl] at this
  exact (Option.some.inj this).symm

/-! ### `tblSubscribe` -/

theorem tblSubscribe_some_new (t : Tbl) (n : Bytes) (c : Nat) (cs : List Nat) (hl : t.lookup n = some cs)
    (hc : cs.contains c = false) : tblSubscribe t n c = (upd t n (· ++ [c]), true) := by
  unfold tblSubscribe upd
  simp only [hl, hc, Bool.false_eq_true, if_false]

theorem tblSubscribe_some_old (t : Tbl) (n : Bytes) (c : Nat) (cs : List Nat) (hl : t.lookup n = some cs)
    (hc : cs.contains c = true) : tblSubscribe t n c = (t, false) := by
  unfold tblSubscribe
  simp only [hl, hc, if_true]

theorem tblSubscribe_none (t : Tbl) (n : Bytes) (c : Nat) (hl : t.lookup n = none) :
    tblSubscribe t n c = (t ++ [(n, [c])], true) := by
  unfold tblSubscribe
  simp only [hl]

theorem tblOK_upd (t : Tbl) (n : Bytes) (g) (h : TblOK t) (hg : ∀ q ∈ t, q.1 = n → (g q.2).Nodup) :
    TblOK (upd t n g) := by
  refine ⟨by rw [upd_keys]; exact h.1, ?_⟩
  intro p hp
  simp only [upd, List.mem_map] at hp
  obtain ⟨q, hq, rfl⟩ := hp
  split
  · rename_i hqn
    exact hg q hq (by simpa using hqn)
  · exact h.2 q hq

theorem tblOK_subscribe (t : Tbl) (n : Bytes) (c : Nat) (h : TblOK t) : TblOK (tblSubscribe t n c).1 := by
  cases hl : t.lookup n with
  | none =>
    rw [tblSubscribe_none t n c hl]
    refine ⟨?_, ?_⟩
    · simp only [List.map_append, List.map_cons, List.map_nil]
      rw [List.nodup_append]
      refine ⟨h.1, by simp, ?_⟩
      intro a ha b hb
      simp only [List.mem_singleton] at hb
      subst hb
      rintro rfl
      exact not_mem_of_lookup_none t _ hl ha
    · intro p hp
      rcases List.mem_append.1 hp with hp | hp
      · exact h.2 p hp
      · simp only [List.mem_singleton] at hp; subst hp; simp
  | some cs =>
    cases hc : cs.contains c with
    | true => rw [tblSubscribe_some_old t n c cs hl hc]; exact h
    | false =>
      rw [tblSubscribe_some_new t n c cs hl hc]
      refine tblOK_upd t n (· ++ [c]) h ?_
      intro q hq hqn
      rw [entry_eq_of_lookup t n cs h.1 hl q hq hqn]
      have hcs : cs.Nodup := by
        have := h.2 (n, cs) (lookup_mem t n cs hl)
        exact this
      rw [List.nodup_append]
      refine ⟨hcs, by simp, ?_⟩
      intro a ha b hb
      simp only [List.mem_singleton] at hb
      subst hb
      rintro rfl
      exact absurd ha (by simpa using hc)

theorem cnt_subscribe (t : Tbl) (n : Bytes) (c c' : Nat) (h : TblOK t) :
    cnt (tblSubscribe t n c).1 c' = cnt t c' + (if c' = c ∧ (tblSubscribe t n c).2 = true then 1 else 0) := by
  cases hl : t.lookup n with
  | none =>
    rw [tblSubscribe_none t n c hl, cnt_append, cnt_cons, cnt_nil]
    by_cases e : c' = c
    · subst e; simp
    · have : (c == c') = false := by simpa using fun x => e x.symm
      simp [e, this]
  | some cs =>
    cases hc : cs.contains c with
    | true => rw [tblSubscribe_some_old t n c cs hl hc]; simp
    | false =>
      rw [tblSubscribe_some_new t n c cs hl hc]
      have := cnt_upd t n (· ++ [c]) cs c' h.1 hl
      by_cases e : c' = c
      · subst e
        simp only [hc, Bool.false_eq_true, if_false, List.contains_append, List.contains_cons, BEq.rfl,
          Bool.true_or, Bool.or_true, if_true, Nat.add_zero] at this
        simp [this]
      · have h1 : (c' == c) = false := by simpa using e
        have h2 : (cs ++ [c]).contains c' = cs.contains c' := by
          simp only [List.contains_append, List.contains_cons, List.contains_nil, h1, Bool.or_false]
        simp only [h2] at this
        simp only [e, false_and, if_false, Nat.add_zero]
        omega

theorem mem_subscribe (t : Tbl) (n : Bytes) (c : Nat) (p : Bytes × List Nat) (hp : p ∈ (tblSubscribe t n c).1)
    (x : Nat) (hx : x ∈ p.2) : x = c ∨ ∃ q ∈ t, x ∈ q.2 := by
  cases hl : t.lookup n with
  | none =>
    rw [tblSubscribe_none t n c hl] at hp
    rcases List.mem_append.1 hp with hp | hp
    · exact .inr ⟨p, hp, hx⟩
    · simp only [List.mem_singleton] at hp; subst hp
      simp only [List.mem_singleton] at hx
      exact .inl hx
  | some cs =>
    cases hc : cs.contains c with
    | true => rw [tblSubscribe_some_old t n c cs hl hc] at hp; exact .inr ⟨p, hp, hx⟩
    | false =>
      rw [tblSubscribe_some_new t n c cs hl hc] at hp
      simp only [upd, List.mem_map] at hp
      obtain ⟨q, hq, rfl⟩ := hp
      split at hx
      · simp only [List.mem_append, List.mem_singleton] at hx
        rcases hx with hx | hx
        · exact .inr ⟨q, hq, hx⟩
        · exact .inl hx
      · exact .inr ⟨q, hq, hx⟩

/-! ### `tblUnsubscribe` -/

theorem tblUnsubscribe_last (t : Tbl) (n : Bytes) (c : Nat) (cs : List Nat) (hl : t.lookup n = some cs)
    (hc : cs.contains c = true) (he : (cs.filter (· != c)).isEmpty = true) :
    tblUnsubscribe t n c = (t.filter (fun p => p.1 != n), true) := by
  unfold tblUnsubscribe
  simp only [hl, hc, if_true, he]

theorem tblUnsubscribe_more (t : Tbl) (n : Bytes) (c : Nat) (cs : List Nat) (hl : t.lookup n = some cs)
    (hc : cs.contains c = true) (he : (cs.filter (· != c)).isEmpty = false) :
    tblUnsubscribe t n c = (upd t n (fun _ => cs.filter (· != c)), true) := by
  unfold tblUnsubscribe upd
  simp only [hl, hc, if_true, he, Bool.false_eq_true, if_false]

theorem tblUnsubscribe_absent (t : Tbl) (n : Bytes) (c : Nat) (cs : List Nat) (hl : t.lookup n = some cs)
    (hc : cs.contains c = false) : tblUnsubscribe t n c = (t, false) := by
  unfold tblUnsubscribe
  simp only [hl, hc, Bool.false_eq_true, if_false]

theorem tblUnsubscribe_none (t : Tbl) (n : Bytes) (c : Nat) (hl : t.lookup n = none) :
    tblUnsubscribe t n c = (t, false) := by
  unfold tblUnsubscribe
  simp only [hl]

theorem tblOK_filter (t : Tbl) (f : Bytes × List Nat → Bool) (h : TblOK t) : TblOK (t.filter f) := by
  refine ⟨?_, fun p hp => h.2 p (List.mem_filter.1 hp).1⟩
  exact List.Nodup.sublist (List.Sublist.map _ List.filter_sublist) h.1

theorem tblOK_unsubscribe (t : Tbl) (n : Bytes) (c : Nat) (h : TblOK t) : TblOK (tblUnsubscribe t n c).1 := by
  cases hl : t.lookup n with
  | none => rw [tblUnsubscribe_none t n c hl]; exact h
  | some cs =>
    cases hc : cs.contains c with
    | false => rw [tblUnsubscribe_absent t n c cs hl hc]; exact h
    | true =>
      cases he : (cs.filter (· != c)).isEmpty with
      | true => rw [tblUnsubscribe_last t n c cs hl hc he]; exact tblOK_filter t _ h
      | false =>
        rw [tblUnsubscribe_more t n c cs hl hc he]
        refine tblOK_upd t n (fun _ => cs.filter (· != c)) h ?_
        intro q hq hqn
        have hcs : cs.Nodup := h.2 (n, cs) (lookup_mem t n cs hl)
        exact List.Nodup.sublist List.filter_sublist hcs

theorem cnt_unsubscribe (t : Tbl) (n : Bytes) (c c' : Nat) (h : TblOK t) :
    cnt (tblUnsubscribe t n c).1 c' + (if c' = c ∧ (tblUnsubscribe t n c).2 = true then 1 else 0) = cnt t c' := by
  cases hl : t.lookup n with
  | none => rw [tblUnsubscribe_none t n c hl]; simp
  | some cs =>
    cases hc : cs.contains c with
    | false => rw [tblUnsubscribe_absent t n c cs hl hc]; simp
    | true =>
      cases he : (cs.filter (· != c)).isEmpty with
      | true =>
        rw [tblUnsubscribe_last t n c cs hl hc he]
        have := cnt_erase t n cs c' h.1 hl
        have hall : ∀ x ∈ cs, x = c := by
          intro x hx
          rw [List.isEmpty_iff, List.filter_eq_nil_iff] at he
          simpa using he x hx
        by_cases e : c' = c
        · subst e
          simp only [hc, if_true] at this
          simp [this]
        · have : cs.contains c' = false := by
            cases hh : cs.contains c'
            · rfl
            · exact absurd (hall c' (by simpa using hh)) e
          simp_all
      | false =>
        rw [tblUnsubscribe_more t n c cs hl hc he]
        have := cnt_upd t n (fun _ => cs.filter (· != c)) cs c' h.1 hl
        by_cases e : c' = c
        · subst e
          have h2 : (cs.filter (· != c')).contains c' = false := by simp
          simp only [hc, if_true, h2, Bool.false_eq_true, if_false, Nat.add_zero] at this
          simp [this]
        · have h2 : (cs.filter (· != c)).contains c' = cs.contains c' := by
            cases hh : cs.contains c'
            · have : c' ∉ cs := by simpa using hh
              simp [this]
            · have : c' ∈ cs := by simpa using hh
              simp [this, e]
          simp only [h2] at this
          simp only [e, false_and, if_false, Nat.add_zero]
          omega

theorem mem_unsubscribe (t : Tbl) (n : Bytes) (c : Nat) (p : Bytes × List Nat) (hp : p ∈ (tblUnsubscribe t n c).1)
    (x : Nat) (hx : x ∈ p.2) : ∃ q ∈ t, x ∈ q.2 := by
  cases hl : t.lookup n with
  | none => rw [tblUnsubscribe_none t n c hl] at hp; exact ⟨p, hp, hx⟩
  | some cs =>
    cases hc : cs.contains c with
    | false => rw [tblUnsubscribe_absent t n c cs hl hc] at hp; exact ⟨p, hp, hx⟩
    | true =>
      cases he : (cs.filter (· != c)).isEmpty with
      | true =>
        rw [tblUnsubscribe_last t n c cs hl hc he] at hp
        exact ⟨p, (List.mem_filter.1 hp).1, hx⟩
      | false =>
        rw [tblUnsubscribe_more t n c cs hl hc he] at hp
        simp only [upd, List.mem_map] at hp
        obtain ⟨q, hq, rfl⟩ := hp
        split at hx
        · exact ⟨(n, cs), lookup_mem t n cs hl, (List.mem_filter.1 hx).1⟩
        · exact ⟨q, hq, hx⟩

/-! ### `stripAll` (clean-up, garbage collection) -/

theorem tblOK_stripAll (t : Tbl) (l : List Nat) (h : TblOK t) : TblOK (stripAll t l) := by
  refine ⟨by rw [stripAll_keys]; exact h.1, ?_⟩
  intro p hp
  simp only [stripAll, List.mem_map] at hp
  obtain ⟨q, hq, rfl⟩ := hp
  exact List.Nodup.sublist List.filter_sublist (h.2 q hq)

theorem cnt_stripAll (t : Tbl) (l : List Nat) (c : Nat) (hc : c ∉ l) : cnt (stripAll t l) c = cnt t c := by
  induction t with
  | nil => rfl
  | cons p t ih =>
    have : stripAll (p :: t) l = (p.1, p.2.filter fun x => !l.contains x) :: stripAll t l := rfl
    rw [this, cnt_cons, cnt_cons, ih]
    have : (p.2.filter fun x => !l.contains x).contains c = p.2.contains c := by
      cases hh : p.2.contains c
      · have : c ∉ p.2 := by simpa using hh
        simp [this]
      · have : c ∈ p.2 := by simpa using hh
        simp [this, hc]
    simp only [this]

theorem cnt_stripAll_mem (t : Tbl) (l : List Nat) (c : Nat) (hc : c ∈ l) : cnt (stripAll t l) c = 0 := by
  unfold cnt
  rw [List.length_eq_zero_iff, List.filter_eq_nil_iff]
  intro p hp
  have := mem_stripAll_entry t l p hp c hc
  simpa using this

theorem mem_stripAll_elem (t : Tbl) (l : List Nat) (p : Bytes × List Nat) (hp : p ∈ stripAll t l)
    (x : Nat) (hx : x ∈ p.2) : x ∉ l ∧ ∃ q ∈ t, x ∈ q.2 := by
  simp only [stripAll, List.mem_map] at hp
  obtain ⟨q, hq, rfl⟩ := hp
  simp only [List.mem_filter] at hx
  exact ⟨by simpa using hx.2, q, hq, hx.1⟩

theorem stripTbl_eq (t : Tbl) (c : Nat) : stripTbl t c = stripAll t [c] := (stripAll_singleton t c).symm

theorem cnt_zero_of_not_listed (t : Tbl) (c : Nat) (h : ∀ p ∈ t, c ∉ p.2) : cnt t c = 0 := by
  unfold cnt
  rw [List.length_eq_zero_iff, List.filter_eq_nil_iff]
  intro p hp
  simpa using h p hp

/-! ## Part 3: the table invariant -/

def View.tbl (v : View) (p : Bool) : Tbl := if p then v.psubs else v.subs

/-- the view without the emitted replies -/
def View.core (v : View) : Tbl × Tbl × List Nat × List (Nat × Bool × Nat) := (v.subs, v.psubs, v.closedSockets, v.conns)

/-- an invariant that depends on tables, closed sockets and `(id, closed, pubsub)` of the connections only -/
class Frame0 (I : Sys → Prop) : Prop where
  frame0 : ∀ s s' : Sys, (view s').core = (view s).core → I s → I s'

instance {I : Sys → Prop} [Frame0 I] : Frame I where
  frame s s' h hs := Frame0.frame0 s s' (by rw [h]) hs

theorem f0_emit {I : Sys → Prop} [Frame0 I] (c : Nat) (r : Reply) : Pres I (emit c r) := by
  intro s hs
  rw [emit_run]
  refine Frame0.frame0 s _ ?_ hs
  unfold Sys.emitS; split <;> rfl

theorem f0_publish {I : Sys → Prop} [Frame0 I] (ch msg : Bytes) : Pres I (publish ch msg) := by
  intro s hs
  rw [publish_run]
  exact Frame0.frame0 s _ rfl hs

/-- the table invariant, on the view -/
structure PSInvV (v : View) : Prop where
  tblOK : ∀ q, TblOK (v.tbl q)
  ids : (v.conns.map (·.1)).Nodup
  listed : ∀ q, ∀ e ∈ v.tbl q, ∀ c ∈ e.2, ∃ k ∈ v.conns, k.1 = c ∧ (k.2.1 = true → c ∈ v.closedSockets)
  count : ∀ k ∈ v.conns, k.2.1 = false → k.2.2 = cnt v.subs k.1 + cnt v.psubs k.1
  pending : ∀ c ∈ v.closedSockets, ∃ k ∈ v.conns, k.1 = c ∧ k.2.1 = true

/-- connection `c` is registered and not closed -/
def OpenV (v : View) (c : Nat) : Prop := ∃ k ∈ v.conns, k.1 = c ∧ k.2.1 = false

theorem PSInvV.of_core {v v' : View} (h : PSInvV v) (e : v'.core = v.core) : PSInvV v' := by
  obtain ⟨a1, a2, a3, a4, a5⟩ := v
  obtain ⟨b1, b2, b3, b4, b5⟩ := v'
  simp only [View.core, Prod.mk.injEq] at e
  obtain ⟨rfl, rfl, rfl, rfl⟩ := e
  exact ⟨h.tblOK, h.ids, h.listed, h.count, h.pending⟩

theorem OpenV.of_core {v v' : View} {c : Nat} (h : OpenV v c) (e : v'.core = v.core) : OpenV v' c := by
  have : v'.conns = v.conns := by
    have := congrArg (fun x => x.2.2.2) e
    exact this
  unfold OpenV; rw [this]; exact h

/-! ### a change of one table together with the subscription count of `c` -/

def bump (c : Nat) (g : Nat → Nat) (k : Nat × Bool × Nat) : Nat × Bool × Nat :=
  if k.1 == c then (k.1, k.2.1, g k.2.2) else k

theorem bump_fst (c g k) : (bump c g k).1 = k.1 := by unfold bump; split <;> rfl
theorem bump_closed (c g k) : (bump c g k).2.1 = k.2.1 := by unfold bump; split <;> rfl
theorem bump_id (c k) : bump c id k = k := by unfold bump; split <;> rfl
theorem map_bump_id (c : Nat) (l : List (Nat × Bool × Nat)) : l.map (bump c id) = l := by
  conv => rhs; rw [← List.map_id l]
  exact List.map_congr_left (fun k _ => bump_id c k)

def chgV (v : View) (p : Bool) (t' : Tbl) (c : Nat) (g : Nat → Nat) : View :=
  ⟨if p then v.subs else t', if p then t' else v.psubs, v.closedSockets, v.conns.map (bump c g), v.out⟩

theorem lift_conn {l : List (Nat × Bool × Nat)} {c : Nat} {g} {x : Nat} {P : Prop}
    (h : ∃ k ∈ l, k.1 = x ∧ (k.2.1 = true → P)) : ∃ k ∈ l.map (bump c g), k.1 = x ∧ (k.2.1 = true → P) := by
  obtain ⟨k, hk, h1, h2⟩ := h
  exact ⟨bump c g k, List.mem_map_of_mem hk, by rw [bump_fst]; exact h1, by rw [bump_closed]; exact h2⟩

theorem psinv_chg (v : View) (p : Bool) (t' : Tbl) (c : Nat) (g : Nat → Nat)
    (h : PSInvV v) (ho : OpenV v c) (ht : TblOK t')
    (hmem : ∀ e ∈ t', ∀ x ∈ e.2, x = c ∨ ∃ q ∈ v.tbl p, x ∈ q.2)
    (hne : ∀ c', c' ≠ c → cnt t' c' = cnt (v.tbl p) c')
    (hg : ∀ m, g (cnt (v.tbl p) c + m) = cnt t' c + m) :
    PSInvV (chgV v p t' c g) := by
  have hopen : ∃ k ∈ v.conns.map (bump c g), k.1 = c ∧ (k.2.1 = true → c ∈ v.closedSockets) := by
    obtain ⟨k, hk, h1, h2⟩ := ho
    exact lift_conn ⟨k, hk, h1, by rw [h2]; intro x; cases x⟩
  have hold : ∀ q, ∀ e ∈ v.tbl q, ∀ x ∈ e.2,
      ∃ k ∈ v.conns.map (bump c g), k.1 = x ∧ (k.2.1 = true → x ∈ v.closedSockets) :=
    fun q e he x hx => lift_conn (h.listed q e he x hx)
  have hnew : ∀ e ∈ t', ∀ x ∈ e.2,
      ∃ k ∈ v.conns.map (bump c g), k.1 = x ∧ (k.2.1 = true → x ∈ v.closedSockets) := by
    intro e he x hx
    rcases hmem e he x hx with rfl | ⟨q, hq, hxq⟩
    · exact hopen
    · exact hold p q hq x hxq
  refine ⟨?_, ?_, ?_, ?_, ?_⟩
  · intro q
    cases q <;> cases p
    · exact ht
    · exact h.tblOK false
    · exact h.tblOK true
    · exact ht
  · show ((v.conns.map (bump c g)).map (·.1)).Nodup
    rw [List.map_map]
    have : ((fun x : Nat × Bool × Nat => x.1) ∘ bump c g) = (fun x => x.1) := by
      funext k; exact bump_fst c g k
    rw [this]; exact h.ids
  · intro q e he x hx
    cases q <;> cases p
    · exact hnew e he x hx
    · exact hold false e he x hx
    · exact hold true e he x hx
    · exact hnew e he x hx
  · intro k' hk' hcl
    obtain ⟨k, hk, rfl⟩ := List.mem_map.1 hk'
    rw [bump_closed] at hcl
    have hc := h.count k hk hcl
    by_cases e : k.1 = c
    · have e' : (k.1 == c) = true := by simpa using e
      simp only [bump, e', if_true]
      rw [hc, e]
      cases p
      · show g (cnt v.subs c + cnt v.psubs c) = cnt t' c + cnt v.psubs c
        exact hg _
      · show g (cnt v.subs c + cnt v.psubs c) = cnt v.subs c + cnt t' c
        rw [Nat.add_comm (cnt v.subs c), Nat.add_comm (cnt v.subs c)]
        exact hg _
    · have e' : (k.1 == c) = false := by simpa using e
      simp only [bump, e', Bool.false_eq_true, if_false]
      rw [hc]
      cases p
      · show cnt v.subs k.1 + cnt v.psubs k.1 = cnt t' k.1 + cnt v.psubs k.1
        rw [hne k.1 e]; rfl
      · show cnt v.subs k.1 + cnt v.psubs k.1 = cnt v.subs k.1 + cnt t' k.1
        rw [hne k.1 e]; rfl
  · intro x hx
    obtain ⟨k, hk, h1, h2⟩ := h.pending x hx
    exact ⟨bump c g k, List.mem_map_of_mem hk, by rw [bump_fst]; exact h1, by rw [bump_closed]; exact h2⟩

theorem openV_chg (v : View) (p : Bool) (t' : Tbl) (c c' : Nat) (g : Nat → Nat) (h : OpenV v c') :
    OpenV (chgV v p t' c g) c' := by
  obtain ⟨k, hk, h1, h2⟩ := h
  exact ⟨bump c g k, List.mem_map_of_mem hk, by rw [bump_fst]; exact h1, by rw [bump_closed]; exact h2⟩

/-! ### the views of the state transformers -/

theorem map_ckey_upd (l : List Conn) (c : Nat) (f : Conn → Conn) (g : Nat → Nat)
    (hf : ∀ x, ckey (f x) = (x.id, x.closed, g x.pubsub)) :
    (l.map fun x => if x.id == c then f x else x).map ckey = (l.map ckey).map (bump c g) := by
  rw [List.map_map, List.map_map]
  apply List.map_congr_left
  intro x _
  show ckey (if x.id == c then f x else x) = bump c g (ckey x)
  unfold bump
  have : (ckey x).1 = x.id := rfl
  rw [this]
  cases h : x.id == c
  · simp only [Bool.false_eq_true, if_false]
  · simp only [if_true]; exact hf x

theorem view_updConn_bump (s : Sys) (c : Nat) (f : Conn → Conn) (g : Nat → Nat)
    (hf : ∀ x, ckey (f x) = (x.id, x.closed, g x.pubsub)) :
    view (s.updConn c f) = ⟨s.srv.subs, s.srv.psubs, s.srv.closedSockets, (s.srv.conns.map ckey).map (bump c g), s.out⟩ := by
  unfold view Sys.updConn
  simp only [map_ckey_upd _ c f g hf]

theorem view_tbl (s : Sys) (p : Bool) : (view s).tbl p = s.tbl p := by cases p <;> rfl

theorem view_subState (s : Sys) (c : Nat) (p : Bool) (n : Bytes) :
    view (s.subState c p n) =
      chgV (view s) p (tblSubscribe ((view s).tbl p) n c).1 c
        (if (tblSubscribe ((view s).tbl p) n c).2 then (· + 1) else id) := by
  rw [view_tbl]
  unfold Sys.subState
  simp only
  cases h : (tblSubscribe (s.tbl p) n c).2
  · simp only [Bool.false_eq_true, if_false]
    unfold chgV
    rw [map_bump_id]
    cases p <;> rfl
  · simp only [if_true]
    rw [view_updConn_bump _ c (fun x => { x with pubsub := x.pubsub + 1 }) (· + 1) (fun _ => rfl)]
    cases p <;> rfl

theorem view_unsubState (s : Sys) (c : Nat) (p : Bool) (n : Bytes) :
    view (s.unsubState c p n) =
      chgV (view s) p (tblUnsubscribe ((view s).tbl p) n c).1 c
        (if (tblUnsubscribe ((view s).tbl p) n c).2 then (· - 1) else id) := by
  rw [view_tbl]
  unfold Sys.unsubState
  simp only
  cases h : (tblUnsubscribe (s.tbl p) n c).2
  · simp only [Bool.false_eq_true, if_false]
    unfold chgV
    rw [map_bump_id]
    cases p <;> rfl
  · simp only [if_true]
    rw [view_updConn_bump _ c (fun x => { x with pubsub := x.pubsub - 1 }) (· - 1) (fun _ => rfl)]
    cases p <;> rfl

theorem psinv_subState (s : Sys) (c : Nat) (p : Bool) (n : Bytes) (h : PSInvV (view s)) (ho : OpenV (view s) c) :
    PSInvV (view (s.subState c p n)) := by
  rw [view_subState]
  have hok := h.tblOK p
  refine psinv_chg _ p _ c _ h ho (tblOK_subscribe _ n c hok) (mem_subscribe _ n c) ?_ ?_
  · intro c' hc'
    rw [cnt_subscribe _ n c c' hok]
    simp [hc']
  · intro m
    rw [cnt_subscribe _ n c c hok]
    cases (tblSubscribe ((view s).tbl p) n c).2
    · simp
    · simp; omega

theorem psinv_unsubState (s : Sys) (c : Nat) (p : Bool) (n : Bytes) (h : PSInvV (view s)) (ho : OpenV (view s) c) :
    PSInvV (view (s.unsubState c p n)) := by
  rw [view_unsubState]
  have hok := h.tblOK p
  refine psinv_chg _ p _ c _ h ho (tblOK_unsubscribe _ n c hok)
    (fun e he x hx => .inr (mem_unsubscribe _ n c e he x hx)) ?_ ?_
  · intro c' hc'
    have := cnt_unsubscribe _ n c c' hok
    simp only [hc', false_and, if_false, Nat.add_zero] at this
    exact this
  · intro m
    have := cnt_unsubscribe _ n c c hok
    revert this
    cases (tblUnsubscribe ((view s).tbl p) n c).2
    · simp; intro h; rw [h]
    · simp; intro h; omega


/-! ### clean-up -/

theorem forget_conns (s : Sys) (c : Nat) :
    (s.forget c).srv.conns = s.srv.conns.map fun x => if x.id == c then Conn.cleared x else x := rfl

theorem foldl_forget_ckeys (l : List Nat) (s : Sys) :
    (l.foldl Sys.forget s).srv.conns.map ckey = s.srv.conns.map ckey := by
  induction l generalizing s with
  | nil => rfl
  | cons a as ih =>
    rw [List.foldl_cons, ih, forget_conns]
    apply map_ckey_congr
    intro x; split <;> rfl

theorem foldl_forget_out (l : List Nat) (s : Sys) : (l.foldl Sys.forget s).out = s.out := by
  induction l generalizing s with
  | nil => rfl
  | cons a as ih => rw [List.foldl_cons, ih]; rfl

def cleanV (v : View) : View :=
  ⟨stripAll v.subs v.closedSockets, stripAll v.psubs v.closedSockets, [], v.conns, v.out⟩

theorem view_cleanup (s : Sys) : view (cleanupClosed s).2 = cleanV (view s) := by
  rw [cleanupClosed_run]
  unfold cleanV view Sys.clearClosed
  simp only [foldl_forget_subs, foldl_forget_psubs, foldl_forget_ckeys, foldl_forget_out]

theorem eq_of_fst_eq {l : List (Nat × Bool × Nat)} (h : (l.map (·.1)).Nodup) {k k' : Nat × Bool × Nat}
    (hk : k ∈ l) (hk' : k' ∈ l) (e : k.1 = k'.1) : k = k' := by
  induction l with
  | nil => cases hk
  | cons a l ih =>
    simp only [List.map_cons, List.nodup_cons] at h
    rcases List.mem_cons.1 hk with e1 | hk1
    · rcases List.mem_cons.1 hk' with e2 | hk2
      · rw [e1, e2]
      · subst e1
        exact absurd (by rw [e]; exact List.mem_map_of_mem (f := (·.1)) hk2) h.1
    · rcases List.mem_cons.1 hk' with e2 | hk2
      · subst e2
        exact absurd (by rw [← e]; exact List.mem_map_of_mem (f := (·.1)) hk1) h.1
      · exact ih h.2 hk1 hk2

theorem psinv_clean (v : View) (h : PSInvV v) : PSInvV (cleanV v) := by
  refine ⟨?_, h.ids, ?_, ?_, ?_⟩
  · intro q; cases q
    · exact tblOK_stripAll _ _ (h.tblOK false)
    · exact tblOK_stripAll _ _ (h.tblOK true)
  · intro q e he x hx
    have key : ∀ t, (∀ e ∈ t, ∀ c ∈ e.2, ∃ k ∈ v.conns, k.1 = c ∧ (k.2.1 = true → c ∈ v.closedSockets)) →
        e ∈ stripAll t v.closedSockets → ∃ k ∈ v.conns, k.1 = x ∧ (k.2.1 = true → x ∈ ([] : List Nat)) := by
      intro t ht he
      obtain ⟨hxl, q', hq', hxq⟩ := mem_stripAll_elem t _ e he x hx
      obtain ⟨k, hk, h1, h2⟩ := ht q' hq' x hxq
      exact ⟨k, hk, h1, fun hcl => absurd (h2 hcl) hxl⟩
    cases q
    · exact key v.subs (h.listed false) he
    · exact key v.psubs (h.listed true) he
  · intro k hk hcl
    have hnot : k.1 ∉ v.closedSockets := by
      intro hin
      obtain ⟨k', hk', h1, h2⟩ := h.pending k.1 hin
      have := eq_of_fst_eq h.ids hk' hk h1
      rw [this] at h2
      rw [hcl] at h2; cases h2
    show k.2.2 = cnt (stripAll v.subs v.closedSockets) k.1 + cnt (stripAll v.psubs v.closedSockets) k.1
    rw [cnt_stripAll _ _ _ hnot, cnt_stripAll _ _ _ hnot]
    exact h.count k hk hcl
  · intro c hc; cases hc

/-! ### close, garbage collection, open -/

def mark (c : Nat) (k : Nat × Bool × Nat) : Nat × Bool × Nat := if k.1 == c then (k.1, true, k.2.2) else k

def closeV (v : View) (c : Nat) : View :=
  ⟨v.subs, v.psubs, v.closedSockets ++ [c], v.conns.map (mark c), v.out⟩

theorem view_close (s : Sys) (c : Nat) : view (closeConn c s).2 = closeV (view s) c := by
  rw [closeConn_run]
  unfold closeV view Sys.updConn
  simp only
  congr 1
  rw [List.map_map, List.map_map]
  apply List.map_congr_left
  intro x _
  show ckey (if x.id == c then { x with closed := true } else x) = mark c (ckey x)
  unfold mark
  have : (ckey x).1 = x.id := rfl
  rw [this]
  cases x.id == c <;> rfl

theorem mark_fst (c k) : (mark c k).1 = k.1 := by unfold mark; split <;> rfl

theorem psinv_close (v : View) (c : Nat) (h : PSInvV v) (hc : ∃ k ∈ v.conns, k.1 = c) : PSInvV (closeV v c) := by
  have lift : ∀ x, (∃ k ∈ v.conns, k.1 = x ∧ (k.2.1 = true → x ∈ v.closedSockets)) →
      ∃ k ∈ v.conns.map (mark c), k.1 = x ∧ (k.2.1 = true → x ∈ v.closedSockets ++ [c]) := by
    rintro x ⟨k, hk, h1, h2⟩
    refine ⟨mark c k, List.mem_map_of_mem hk, by rw [mark_fst]; exact h1, ?_⟩
    unfold mark
    by_cases e : k.1 = c
    · intro _; rw [← h1, e]; simp
    · have e' : (k.1 == c) = false := by simpa using e
      simp only [e', Bool.false_eq_true, if_false]
      intro hcl; exact List.mem_append_left _ (h2 hcl)
  refine ⟨h.tblOK, ?_, fun q e he x hx => lift x (h.listed q e he x hx), ?_, ?_⟩
  · show ((v.conns.map (mark c)).map (·.1)).Nodup
    rw [List.map_map]
    have : ((fun x : Nat × Bool × Nat => x.1) ∘ mark c) = (fun x => x.1) := by
      funext k; exact mark_fst c k
    rw [this]; exact h.ids
  · intro k' hk' hcl
    obtain ⟨k, hk, rfl⟩ := List.mem_map.1 hk'
    unfold mark at hcl ⊢
    by_cases e : k.1 = c
    · have e' : (k.1 == c) = true := by simpa using e
      simp only [e', if_true] at hcl
      cases hcl
    · have e' : (k.1 == c) = false := by simpa using e
      simp only [e', Bool.false_eq_true, if_false] at hcl ⊢
      exact h.count k hk hcl
  · intro x hx
    rcases List.mem_append.1 hx with hx | hx
    · obtain ⟨k, hk, h1, h2⟩ := h.pending x hx
      refine ⟨mark c k, List.mem_map_of_mem hk, by rw [mark_fst]; exact h1, ?_⟩
      unfold mark; split
      · rfl
      · exact h2
    · simp only [List.mem_singleton] at hx
      subst hx
      obtain ⟨k, hk, h1⟩ := hc
      refine ⟨mark x k, List.mem_map_of_mem hk, by rw [mark_fst]; exact h1, ?_⟩
      have e' : (k.1 == x) = true := by simpa using h1
      simp only [mark, e', if_true]

def gcV (v : View) (c : Nat) : View :=
  ⟨stripAll v.subs [c], stripAll v.psubs [c], v.closedSockets.filter (· != c), v.conns.filter (·.1 != c), v.out⟩

theorem view_gc (s : Sys) (c : Nat) : view (gcConn c s).2 = gcV (view s) c := by
  rw [gcConn_run]
  unfold gcV view
  simp only [stripTbl_eq]
  congr 1
  rw [List.filter_map]
  rfl

theorem psinv_gc (v : View) (c : Nat) (h : PSInvV v) : PSInvV (gcV v c) := by
  refine ⟨?_, ?_, ?_, ?_, ?_⟩
  · intro q; cases q
    · exact tblOK_stripAll _ _ (h.tblOK false)
    · exact tblOK_stripAll _ _ (h.tblOK true)
  · exact List.Nodup.sublist (List.Sublist.map _ List.filter_sublist) h.ids
  · intro q e he x hx
    have key : ∀ t, (∀ e ∈ t, ∀ c ∈ e.2, ∃ k ∈ v.conns, k.1 = c ∧ (k.2.1 = true → c ∈ v.closedSockets)) →
        e ∈ stripAll t [c] → ∃ k ∈ v.conns.filter (·.1 != c), k.1 = x ∧
          (k.2.1 = true → x ∈ v.closedSockets.filter (· != c)) := by
      intro t ht he
      obtain ⟨hxl, q', hq', hxq⟩ := mem_stripAll_elem t _ e he x hx
      have hxc : x ≠ c := by simpa using hxl
      obtain ⟨k, hk, h1, h2⟩ := ht q' hq' x hxq
      refine ⟨k, List.mem_filter.2 ⟨hk, by rw [h1]; simpa using hxc⟩, h1, fun hcl => ?_⟩
      exact List.mem_filter.2 ⟨h2 hcl, by simpa using hxc⟩
    cases q
    · exact key v.subs (h.listed false) he
    · exact key v.psubs (h.listed true) he
  · intro k hk hcl
    obtain ⟨hk, hne⟩ := List.mem_filter.1 hk
    have hnot : k.1 ∉ [c] := by simpa using hne
    show k.2.2 = cnt (stripAll v.subs [c]) k.1 + cnt (stripAll v.psubs [c]) k.1
    rw [cnt_stripAll _ _ _ hnot, cnt_stripAll _ _ _ hnot]
    exact h.count k hk hcl
  · intro x hx
    obtain ⟨hx, hne⟩ := List.mem_filter.1 hx
    obtain ⟨k, hk, h1, h2⟩ := h.pending x hx
    exact ⟨k, List.mem_filter.2 ⟨hk, by rw [h1]; exact hne⟩, h1, h2⟩

def openV (v : View) (c : Nat) : View :=
  ⟨v.subs, v.psubs, v.closedSockets, v.conns ++ [(c, false, 0)], v.out⟩

theorem view_open (s : Sys) (c : Nat) : view (openConn c s).2 = openV (view s) c := by
  rw [openConn_run]
  unfold openV view
  simp only [List.map_append]
  rfl

theorem psinv_open (v : View) (c : Nat) (h : PSInvV v) (hfresh : ∀ k ∈ v.conns, k.1 ≠ c) : PSInvV (openV v c) := by
  have lift : ∀ x (P : Nat × Bool × Nat → Prop), (∃ k ∈ v.conns, k.1 = x ∧ P k) → ∃ k ∈ v.conns ++ [(c, false, 0)], k.1 = x ∧ P k := by
    rintro x P ⟨k, hk, h1⟩
    exact ⟨k, List.mem_append_left _ hk, h1⟩
  have hnl : ∀ q, ∀ e ∈ v.tbl q, c ∉ e.2 := by
    intro q e he hc
    obtain ⟨k, hk, h1, _⟩ := h.listed q e he c hc
    exact hfresh k hk h1
  refine ⟨h.tblOK, ?_, fun q e he x hx => lift x _ (h.listed q e he x hx), ?_,
    fun x hx => lift x _ (h.pending x hx)⟩
  · show ((v.conns ++ [(c, false, 0)]).map (fun k : Nat × Bool × Nat => k.1)).Nodup
    rw [List.map_append, List.nodup_append]
    refine ⟨h.ids, by simp, ?_⟩
    intro a ha b hb
    simp only [List.map_cons, List.map_nil, List.mem_singleton] at hb
    subst hb
    obtain ⟨k, hk, rfl⟩ := List.mem_map.1 ha
    exact hfresh k hk
  · intro k hk hcl
    rcases List.mem_append.1 hk with hk | hk
    · exact h.count k hk hcl
    · simp only [List.mem_singleton] at hk
      subst hk
      show 0 = cnt v.subs c + cnt v.psubs c
      rw [cnt_zero_of_not_listed v.subs c (hnl false), cnt_zero_of_not_listed v.psubs c (hnl true)]

/-! ## Part 4: the table invariant over all histories -/

/-- the table invariant of a state -/
def PSInv (s : Sys) : Prop := PSInvV (view s)

/-- connection `c` is registered and not closed -/
def IsOpen (s : Sys) (c : Nat) : Prop := s.HasConn c ∧ (s.conn c).closed = false

theorem conn_mem_of_hasConn {s : Sys} {c : Nat} (h : s.HasConn c) : s.conn c ∈ s.srv.conns := by
  rw [Sys.hasConn_iff] at h
  rw [Sys.conn_def]
  cases h' : s.srv.conns.find? (·.id == c) with
  | none => rw [h'] at h; simp at h
  | some x => exact List.mem_of_find?_eq_some h'

theorem openV_of_isOpen {s : Sys} {c : Nat} (h : IsOpen s c) : OpenV (view s) c :=
  ⟨ckey (s.conn c), List.mem_map_of_mem (conn_mem_of_hasConn h.1), Sys.conn_id s c, h.2⟩

theorem hasConn_iff_view (s : Sys) (c : Nat) : s.HasConn c ↔ ∃ k ∈ (view s).conns, k.1 = c := by
  constructor
  · rintro ⟨x, hx, rfl⟩; exact ⟨ckey x, List.mem_map_of_mem hx, rfl⟩
  · rintro ⟨k, hk, rfl⟩
    obtain ⟨x, hx, rfl⟩ := List.mem_map.1 hk
    exact ⟨x, hx, rfl⟩

/-- the invariant carried through the events of an open connection `c` -/
def Inv (c : Nat) (s : Sys) : Prop := PSInvV (view s) ∧ OpenV (view s) c

instance (c : Nat) : Frame0 (Inv c) := ⟨fun s s' e h => ⟨h.1.of_core e, h.2.of_core e⟩⟩
instance : Frame0 PSInv := ⟨fun s s' e h => PSInvV.of_core h e⟩

theorem emitS_core (s : Sys) (c : Nat) (r : Reply) : (view (s.emitS c r)).core = (view s).core := by
  unfold Sys.emitS; split <;> rfl

theorem inv_subStep (c : Nat) (p : Bool) (n : Bytes) : Pres (Inv c) (subStep c p n) := by
  intro s hs
  rw [subStep_run]
  have : Inv c (s.subState c p n) :=
    ⟨psinv_subState s c p n hs.1 hs.2, by rw [view_subState]; exact openV_chg _ _ _ _ _ _ hs.2⟩
  exact Frame0.frame0 _ _ (emitS_core _ _ _) this

theorem inv_unsubStep (c : Nat) (p : Bool) (n : Bytes) : Pres (Inv c) (unsubStep c p n) := by
  intro s hs
  rw [unsubStep_run]
  have : Inv c (s.unsubState c p n) :=
    ⟨psinv_unsubState s c p n hs.1 hs.2, by rw [view_unsubState]; exact openV_chg _ _ _ _ _ _ hs.2⟩
  exact Frame0.frame0 _ _ (emitS_core _ _ _) this

theorem pres_subscribeGen {I : Sys → Prop} (c : Nat) (p : Bool) (hstep : ∀ n, Pres I (subStep c p n))
    (names : List Bytes) : Pres I (subscribeGen c p names) := by
  rw [subscribeGen_eq]; exact Pres.forM hstep

theorem pres_unsubscribeGen {I : Sys → Prop} (c : Nat) (p : Bool) (hstep : ∀ n, Pres I (unsubStep c p n))
    (hemit : ∀ r, Pres I (emit c r)) (names : List Bytes) : Pres I (unsubscribeGen c p names) := by
  intro s hs
  by_cases hn : names = []
  · subst hn
    by_cases hsn : s.subscribedNames c p = []
    · rw [unsubscribeGen_nil_none _ _ _ hsn]
      have := hemit (.arr [.bulk (unsubType p), .nil, .int (s.conn c).pubsub]) s hs
      rwa [emit_run] at this
    · rw [unsubscribeGen_nil_some _ _ _ hsn]; exact Pres.forM hstep s hs
  · rw [unsubscribeGen_explicit _ _ _ _ hn]; exact Pres.forM hstep s hs

theorem hyps_inv (c : Nat) : Hyps (Inv c) c :=
  ⟨f0_emit c, f0_publish, fun p names => pres_subscribeGen c p (inv_subStep c p) names,
    fun p names => pres_unsubscribeGen c p (inv_unsubStep c p) (f0_emit c) names⟩

theorem inv_clean (c : Nat) : Pres (Inv c) cleanupClosed := by
  intro s hs
  refine ⟨by rw [view_cleanup]; exact psinv_clean _ hs.1, ?_⟩
  rw [view_cleanup]; exact hs.2

theorem psinv_cleanup : Pres PSInv cleanupClosed := by
  intro s hs
  show PSInvV (view (cleanupClosed s).2)
  rw [view_cleanup]; exact psinv_clean _ hs

/-- the events a client object can produce in state `s`: a new socket has a fresh identity, only a registered socket
is closed, only a registered socket that was not closed sends requests (or is resumed by the asyncio loop) -/
def Legal (s : Sys) : Ev → Prop
  | .open c => ¬ s.HasConn c
  | .close c => s.HasConn c
  | .request _ c _ _ _ => IsOpen s c
  | .send _ c _ _ _ => IsOpen s c
  | .awake _ c _ _ => IsOpen s c
  | .atimeout _ c _ _ => IsOpen s c
  | _ => True

def LegalFrom (s : Sys) : List Ev → Prop
  | [] => True
  | e :: es => Legal s e ∧ LegalFrom (stepEv s e) es

theorem psinv_init : PSInv {} := by
  refine ⟨?_, ?_, ?_, ?_, ?_⟩
  · intro q; cases q <;> exact ⟨List.nodup_nil, fun p hp => by cases hp⟩
  · exact List.nodup_nil
  · intro q e he; cases q <;> cases he
  · intro k hk; cases hk
  · intro c hc; cases hc

theorem hints_core (s : Sys) (cl : List Int) (pk : List (List Bytes)) :
    (view (s.beginEvent.withHints cl pk)).core = (view s).core := rfl

theorem begin_core (s : Sys) : (view s.beginEvent).core = (view s).core := rfl

/-- one legal event preserves the table invariant -/
theorem psinv_step (s : Sys) (e : Ev) (h : PSInv s) (hl : Legal s e) : PSInv (stepEv s e) := by
  have h0 : PSInv s.beginEvent := PSInvV.of_core h (begin_core s)
  have hh : ∀ cl pk, PSInv (s.beginEvent.withHints cl pk) := fun cl pk => PSInvV.of_core h (hints_core s cl pk)
  have ho : ∀ c cl pk, IsOpen s c → Inv c (s.beginEvent.withHints cl pk) :=
    fun c cl pk hc => ⟨hh cl pk, (openV_of_isOpen hc).of_core (hints_core s cl pk)⟩
  unfold stepEv
  cases e with
  | version v => exact PSInvV.of_core h rfl
  | «open» c =>
    show PSInvV (view (openConn c s.beginEvent).2)
    rw [view_open]
    refine psinv_open _ c h0 ?_
    intro k hk hkc
    exact hl ((hasConn_iff_view s c).2 ⟨k, hk, hkc⟩)
  | close c =>
    show PSInvV (view (closeConn c s.beginEvent).2)
    rw [view_close]
    exact psinv_close _ c h0 ((hasConn_iff_view s c).1 hl)
  | gc c =>
    show PSInvV (view (gcConn c s.beginEvent).2)
    rw [view_gc]
    exact psinv_gc _ c h0
  | conn up => exact PSInvV.of_core h rfl
  | request mode c fields clocks picks =>
    exact (processCommand_pres (hyps_inv c) (inv_clean c) mode fields _ (ho c clocks picks hl)).1
  | send mode c data clocks picks =>
    exact (sendallGuarded_pres (hyps_inv c) (inv_clean c) mode data _ (ho c clocks picks hl)).1
  | wake c clocks => exact wakeConn_pres (I := PSInv) (f0_emit c) _ (hh clocks [])
  | timeout c => exact timeoutConn_pres (I := PSInv) (f0_emit c) _ h0
  | awake mode c clocks picks =>
    exact (wakeConnAsync_pres (hyps_inv c) (inv_clean c) mode _ (ho c clocks picks hl)).1
  | atimeout mode c clocks picks =>
    exact (timeoutConnAsync_pres (hyps_inv c) (inv_clean c) mode _ (ho c clocks picks hl)).1

theorem psinv_foldl (evs : List Ev) (s : Sys) (h : PSInv s) (hl : LegalFrom s evs) : PSInv (evs.foldl stepEv s) := by
  induction evs generalizing s with
  | nil => exact h
  | cons e es ih => exact ih _ (psinv_step s e h hl.1) hl.2

/-- the table invariant holds after every legal history -/
theorem psinv_runHistory (evs : List Ev) (hl : LegalFrom {} evs) : PSInv (runHistory evs) :=
  psinv_foldl evs {} psinv_init hl

/-! ### reading the invariant on the state -/

theorem conn_eq_of_mem {l : List Conn} (hnd : (l.map (·.id)).Nodup) {x : Conn} (hx : x ∈ l) :
    l.find? (·.id == x.id) = some x := by
  induction l with
  | nil => cases hx
  | cons a l ih =>
    simp only [List.map_cons, List.nodup_cons] at hnd
    rcases List.mem_cons.1 hx with e | hx'
    · subst e; simp
    · have : a.id ≠ x.id := by
        intro e
        exact hnd.1 (by rw [e]; exact List.mem_map_of_mem (f := (·.id)) hx')
      have e' : (a.id == x.id) = false := by simpa using this
      simp only [List.find?_cons, e']
      exact ih hnd.2 hx'

theorem ids_nodup_of_psinv {s : Sys} (h : PSInv s) : (s.srv.conns.map (·.id)).Nodup := by
  have := h.ids
  unfold view at this
  simp only [List.map_map] at this
  exact this

theorem conn_of_mem {s : Sys} (h : PSInv s) {x : Conn} (hx : x ∈ s.srv.conns) : s.conn x.id = x := by
  rw [Sys.conn_def, conn_eq_of_mem (ids_nodup_of_psinv h) hx]; rfl

theorem ckey_conn_of_view {s : Sys} (h : PSInv s) {k : Nat × Bool × Nat} (hk : k ∈ (view s).conns) :
    s.HasConn k.1 ∧ ckey (s.conn k.1) = k := by
  obtain ⟨x, hx, rfl⟩ := List.mem_map.1 hk
  exact ⟨⟨x, hx, rfl⟩, by show ckey (s.conn x.id) = ckey x; rw [conn_of_mem h hx]⟩

/-! ## Part 5: what `_process_command` does for the pub/sub commands outside MULTI -/

/-! ### signatures whose arguments are all plain byte strings -/

theorem pass1_bytes (db : Db) (l : List (Bytes × ArgTy)) (acc : List Arg) (h : ∀ p ∈ l, p.2 = .bytes) :
    Sig.pass1 db l acc = (db, .ok (.inr (acc.reverse ++ l.map fun p => Arg.raw p.1))) := by
  induction l generalizing acc with
  | nil => simp [Sig.pass1]
  | cons p l ih =>
    obtain ⟨b, t⟩ := p
    have ht : t = .bytes := h (b, t) (List.mem_cons_self ..)
    subst ht
    simp only [Sig.pass1, Conv.decode]
    rw [ih _ (fun q hq => h q (List.mem_cons_of_mem _ hq))]
    simp

theorem pass2_bytes (db : Db) (l : List (Arg × ArgTy)) (accA : List Arg) (accC : List CI)
    (h : ∀ p ∈ l, p.2 = .bytes) :
    Sig.pass2 db l accA accC = (db, .ok (accA.reverse ++ l.map Prod.fst, accC.reverse)) := by
  induction l generalizing accA with
  | nil => simp [Sig.pass2]
  | cons p l ih =>
    obtain ⟨a, t⟩ := p
    have ht : t = .bytes := h (a, t) (List.mem_cons_self ..)
    subst ht
    simp only [Sig.pass2]
    rw [ih _ (fun q hq => h q (List.mem_cons_of_mem _ hq))]
    simp

theorem types_bytes (sig : Sig) (n : Nat) (hf : ∀ t ∈ sig.fixed, t = .bytes) (hr : ∀ t ∈ sig.rep, t = .bytes) :
    ∀ t ∈ sig.types n, t = .bytes := by
  intro t ht
  unfold Sig.types at ht
  rcases List.mem_append.1 ht with h | h
  · exact hf t h
  · obtain ⟨i, _, rfl⟩ := List.mem_map.1 h
    rw [List.getD_eq_getElem?_getD]
    cases hi : sig.rep[i % sig.rep.length]? with
    | none => rfl
    | some x => exact hr x (List.mem_of_getElem? hi)

theorem types_length (sig : Sig) (n : Nat) : n ≤ (sig.types n).length := by
  unfold Sig.types
  simp only [List.length_append, List.length_map, List.length_range]
  omega

/-- `Signature.apply` of a signature with byte-string arguments only: no look-up, no conversion error -/
theorem apply_bytes (sig : Sig) (args : List Bytes) (db : Db)
    (hf : ∀ t ∈ sig.fixed, t = .bytes) (hr : sig.rep = [] ∨ sig.rep = [.bytes])
    (har : sig.checkArity args.length = true) :
    sig.apply args db = (db, .ok (.ok (args.map Arg.raw) [])) := by
  have hr' : ∀ t ∈ sig.rep, t = .bytes := by
    rcases hr with h | h <;> rw [h] <;> simp
  have hmod : (!sig.rep.isEmpty && (args.length - sig.fixed.length) % sig.rep.length != 0) = false := by
    rcases hr with h | h <;> rw [h] <;> simp [Nat.mod_one]
  have htys := types_bytes sig args.length hf hr'
  have hlen := types_length sig args.length
  unfold Sig.apply
  simp only [har, hmod, Bool.not_true, Bool.false_eq_true, if_false]
  rw [pass1_bytes db _ [] (fun p hp => htys p.2 (List.of_mem_zip hp).2)]
  simp only [List.reverse_nil, List.nil_append]
  have h1 : (args.zip (sig.types args.length)).map (fun p => Arg.raw p.1) = args.map Arg.raw := by
    have := List.map_fst_zip (l₁ := args) (l₂ := sig.types args.length) hlen
    conv => rhs; rw [← this]
    rw [List.map_map]; rfl
  rw [h1]
  rw [pass2_bytes db _ [] [] (fun p hp => htys p.2 (List.of_mem_zip hp).2)]
  have h2 : ((args.map Arg.raw).zip (sig.types args.length)).map Prod.fst = args.map Arg.raw :=
    List.map_fst_zip (by rw [List.length_map]; exact hlen)
  simp only [List.reverse_nil, List.nil_append, h2]

theorem rawArgs_map_raw (args : List Bytes) : Cmd.rawArgs (args.map Arg.raw) = args := by
  induction args with
  | nil => rfl
  | cons a as ih => simp only [List.map_cons, Cmd.rawArgs, ih]

/-! ### the dispatcher -/

/-- the state in which the body of a known command runs: clean-up done, clock refreshed -/
def prep (s : Sys) : Sys := (cleanupClosed s).2.refresh

/-- `if self._server crashed … dead` at the end of `_process_command` -/
def finish (c : Nat) (s : Sys) : Sys :=
  if s.crashed.isSome then s.updConn c fun x => { x with dead := true } else s

theorem processCommand_known (mode : Mode) (c : Nat) (nameB : Bytes) (args : List Bytes) (s : Sys) {sig : Sig}
    (h : lookupSig nameB = some sig) :
    processCommand mode c (nameB :: args) s = dispatchBody mode c (s.conn c) sig args (prep s) := by
  rw [processCommand_cons]
  simp only [bind, StateT.bind, getConn_run, h]
  exact dispatch_eq ..

theorem dispatchBody_run' (mode : Mode) (c : Nat) (conn : Conn) (sig : Sig) (args : List Bytes) (s1 : Sys)
    (har : sig.checkArity args.length = true)
    (hq : (conn.tx.isSome && !SigTable.notQueued.contains sig.name) = false) :
    dispatchBody mode c conn sig args s1 =
      ((), finish c (match (runCommand mode c sig args false s1).1 with
        | some x => (runCommand mode c sig args false s1).2.emitS c x
        | none => (runCommand mode c sig args false s1).2)) := by
  unfold dispatchBody
  simp only [har, hq, Bool.not_true, Bool.false_eq_true, if_false]
  simp only [bind, StateT.bind]
  generalize runCommand mode c sig args false s1 = r
  obtain ⟨r1, r2⟩ := r
  cases r1 with
  | none =>
    simp only [pure, StateT.pure, get, getThe, MonadStateOf.get, StateT.get, finish, StateT.bind]
    show (if r2.crashed.isSome = true then modifyConn c _ else StateT.pure ()) r2 = _
    cases hcr : r2.crashed.isSome
    · simp only [Bool.false_eq_true, if_false]; rfl
    · simp only [if_true]; rfl
  | some x =>
    simp only [emit_run, get, getThe, MonadStateOf.get, StateT.get, finish, StateT.bind, pure, StateT.pure]
    show (if (r2.emitS c x).crashed.isSome = true then modifyConn c _ else StateT.pure ()) (r2.emitS c x) = _
    cases hcr : (r2.emitS c x).crashed.isSome
    · simp only [Bool.false_eq_true, if_false]; rfl
    · simp only [if_true]; rfl

theorem dispatchBody_run (mode : Mode) (c : Nat) (conn : Conn) (sig : Sig) (args : List Bytes) (s1 : Sys)
    (har : sig.checkArity args.length = true) (htx : conn.tx = none) :
    dispatchBody mode c conn sig args s1 =
      ((), finish c (match (runCommand mode c sig args false s1).1 with
        | some x => (runCommand mode c sig args false s1).2.emitS c x
        | none => (runCommand mode c sig args false s1).2)) :=
  dispatchBody_run' mode c conn sig args s1 har (by rw [htx]; rfl)

theorem dispatchBody_queued (mode : Mode) (c : Nat) (conn : Conn) (sig : Sig) (args : List Bytes) (s1 : Sys)
    (har : sig.checkArity args.length = true)
    (hq : (conn.tx.isSome && !SigTable.notQueued.contains sig.name) = true)
    (hnm : SigTable.notInMulti.contains sig.name = false) :
    dispatchBody mode c conn sig args s1 =
      ((), (s1.updConn c fun x => { x with tx := x.tx.map (· ++ [(sig.name, args)]) }).emitS c .queued) := by
  unfold dispatchBody
  simp only [har, hq, hnm, Bool.not_true, Bool.false_eq_true, if_false, if_true]
  simp only [bind, StateT.bind, modifyConn_run, emit_run]

/-- (P)SUBSCRIBE / (P)UNSUBSCRIBE with a MULTI open: refused, `txFailed`, nothing queued -/
theorem dispatchBody_refused (mode : Mode) (c : Nat) (conn : Conn) (sig : Sig) (args : List Bytes) (s1 : Sys)
    (har : sig.checkArity args.length = true)
    (hq : (conn.tx.isSome && !SigTable.notQueued.contains sig.name) = true)
    (hnm : SigTable.notInMulti.contains sig.name = true) :
    dispatchBody mode c conn sig args s1 =
      ((), (s1.updConn c fun x => { x with txFailed := true }).emitS c
        (.err (strBytes Msgs.COMMAND_IN_MULTI_MSG))) := by
  unfold dispatchBody
  simp only [har, hq, hnm, Bool.not_true, Bool.false_eq_true, if_false, if_true]
  simp only [bind, StateT.bind, modifyConn_run, emit_run]

theorem set_getD_self (l : List Dict) (d : Nat) : l.set d (l.getD d []) = l := by
  apply List.ext_getElem?
  intro i
  by_cases h : i = d
  · subst h
    by_cases hl : i < l.length
    · rw [List.getElem?_set_self hl, List.getD_eq_getElem?_getD, List.getElem?_eq_getElem hl]; rfl
    · rw [List.getElem?_eq_none (by simpa using hl), List.getElem?_eq_none (by simpa using hl)]
  · rw [List.getElem?_set_ne (fun e => h e.symm)]

theorem runCommand_bytes (mode : Mode) (c : Nat) (sig : Sig) (args : List Bytes) (s1 : Sys)
    (hns : sig.name ∉ scriptNames) (hreg : Cmd.regular sig.name = none)
    (happ : ∀ db, sig.apply args db = (db, .ok (.ok (args.map Arg.raw) []))) :
    runCommand mode c sig args false s1 =
      match runGate sig false ((s1.conn c).pubsub > 0) with
      | some e => (some (.err (strBytes e)), s1)
      | none => afterSpecial (s1.conn c).db [] (special (runInner mode c) mode c sig.name (args.map Arg.raw) []) s1 := by
  rw [runCommand_not_script mode c sig args false hns]
  cases hr : s1.refuses c sig with
  | true =>
    -- refused before the arguments are looked at; as `apply` leaves the database alone the old gate agrees
    rw [runWith_refused _ mode c sig args false hr, runGate_direct_of_refused hr]
    rfl
  | false =>
    rw [runWith_special_run _ mode c sig args false s1 hreg hr]
    simp only [happ, set_getD_self]
    rfl

theorem afterSpecial_unit (d : Nat) (X : M Unit) (s1 : Sys) :
    afterSpecial d [] (do X; return .ok (none, []) : M SpecialOut) s1 = (none, (X s1).2) := rfl

theorem afterSpecial_reply (d : Nat) (X : M Reply) (s1 : Sys) :
    afterSpecial d [] (do let r ← X; okR r [] : M SpecialOut) s1 = (some (X s1).1, (X s1).2) := rfl

/-- the state after a model fault is recorded (only the `fault` field may change) -/
def faulted (e : Err) (s : Sys) : Sys := if e.startsWith "model:" then (M.fault e s).2 else s

theorem faulted_srv (e : Err) (s : Sys) : (faulted e s).srv = s.srv := by
  unfold faulted; split
  · show (if s.fault.isNone then { s with fault := some e } else s).srv = s.srv
    split <;> rfl
  · rfl

theorem faulted_out (e : Err) (s : Sys) : (faulted e s).out = s.out := by
  unfold faulted; split
  · show (if s.fault.isNone then { s with fault := some e } else s).out = s.out
    split <;> rfl
  · rfl

theorem faulted_crashed (e : Err) (s : Sys) : (faulted e s).crashed = s.crashed := by
  unfold faulted; split
  · show (if s.fault.isNone then { s with fault := some e } else s).crashed = s.crashed
    split <;> rfl
  · rfl

theorem afterSpecial_error (d : Nat) (e : Err) (s1 : Sys) :
    afterSpecial d [] (pure (.error e) : M SpecialOut) s1 = (some (.err (strBytes e)), faulted e s1) := by
  unfold afterSpecial faulted
  simp only [bind, StateT.bind, pure, StateT.pure]
  split <;> rfl

/-! ### the special bodies by name -/

theorem special_subscribe (inner : Inner) (mode : Mode) (c : Nat) (name : String) (args cis) (h : name = "subscribe") :
    special inner mode c name args cis =
      (do subscribeGen c false (Cmd.rawArgs args); return .ok (none, cis) : M SpecialOut) := by
  unfold special
  simp only []
  split <;> first | rfl | (exfalso; exact absurd h (by decide)) | (exfalso; revert h; assumption)

theorem special_psubscribe (inner : Inner) (mode : Mode) (c : Nat) (name : String) (args cis) (h : name = "psubscribe") :
    special inner mode c name args cis =
      (do subscribeGen c true (Cmd.rawArgs args); return .ok (none, cis) : M SpecialOut) := by
  unfold special
  simp only []
  split <;> first | rfl | (exfalso; exact absurd h (by decide)) | (exfalso; revert h; assumption)

theorem special_unsubscribe (inner : Inner) (mode : Mode) (c : Nat) (name : String) (args cis) (h : name = "unsubscribe") :
    special inner mode c name args cis =
      (do unsubscribeGen c false (Cmd.rawArgs args); return .ok (none, cis) : M SpecialOut) := by
  unfold special
  simp only []
  split <;> first | rfl | (exfalso; exact absurd h (by decide)) | (exfalso; revert h; assumption)

theorem special_punsubscribe (inner : Inner) (mode : Mode) (c : Nat) (name : String) (args cis) (h : name = "punsubscribe") :
    special inner mode c name args cis =
      (do unsubscribeGen c true (Cmd.rawArgs args); return .ok (none, cis) : M SpecialOut) := by
  unfold special
  simp only []
  split <;> first | rfl | (exfalso; exact absurd h (by decide)) | (exfalso; revert h; assumption)

theorem special_publish (inner : Inner) (mode : Mode) (c : Nat) (name : String) (ch msg : Bytes) (cis)
    (h : name = "publish") :
    special inner mode c name [.raw ch, .raw msg] cis =
      (do let n ← publish ch msg; okR (.int n) cis : M SpecialOut) := by
  unfold special
  simp only []
  split <;> first | rfl | (exfalso; exact absurd h (by decide)) | (exfalso; revert h; assumption)

/-! ### the five signatures -/

def sigSubscribe (p : Bool) : Sig := ⟨if p then "psubscribe" else "subscribe", [.bytes], [.bytes], true, 0, 0, true⟩
def sigUnsubscribe (p : Bool) : Sig := ⟨if p then "punsubscribe" else "unsubscribe", [], [.bytes], true, 0, 0, true⟩
def sigPublish : Sig := ⟨"publish", [.bytes, .bytes], [], false, 2, 0, false⟩
def sigExec : Sig := ⟨"exec", [], [], true, 0, 0, false⟩

theorem find_subscribe (p : Bool) : SigTable.find (if p then "psubscribe" else "subscribe") = some (sigSubscribe p) := by
  cases p <;> decide +kernel
theorem find_unsubscribe (p : Bool) :
    SigTable.find (if p then "punsubscribe" else "unsubscribe") = some (sigUnsubscribe p) := by
  cases p <;> decide +kernel
theorem find_publish : SigTable.find "publish" = some sigPublish := by decide +kernel
theorem find_exec : SigTable.find "exec" = some sigExec := by decide +kernel

theorem lookupSig_of_name (nameB : Bytes) (n : String) (h : commandName nameB = some n)
    (hu : n.startsWith "_" = false) : lookupSig nameB = SigTable.find n := by
  unfold lookupSig
  simp only [h, hu, Bool.false_eq_true, if_false]

theorem name_of_lookupSig {nameB : Bytes} {sig : Sig} (h : lookupSig nameB = some sig) :
    commandName nameB = some sig.name := by
  unfold lookupSig at h
  cases hn : commandName nameB with
  | none => rw [hn] at h; cases h
  | some n =>
    rw [hn] at h
    simp only at h
    split at h
    · cases h
    · rw [SigTable.find_name h]

theorem gate_subscribe (p b : Bool) : runGate (sigSubscribe p) false b = none := by
  cases p <;> cases b <;> decide +kernel
theorem gate_unsubscribe (p b : Bool) : runGate (sigUnsubscribe p) false b = none := by
  cases p <;> cases b <;> decide +kernel
theorem gate_publish_free : runGate sigPublish false false = none := by decide +kernel
theorem gate_publish_sub : runGate sigPublish false true = some Msgs.BAD_COMMAND_IN_PUBSUB_MSG := by decide +kernel
theorem gate_exec_free : runGate sigExec false false = none := by decide +kernel
theorem gate_exec_sub : runGate sigExec false true = some Msgs.BAD_COMMAND_IN_PUBSUB_MSG := by decide +kernel

theorem arity_subscribe (p : Bool) (args : List Bytes) : (sigSubscribe p).checkArity args.length = !args.isEmpty := by
  cases args with
  | nil => rfl
  | cons a as =>
    simp only [Sig.checkArity, sigSubscribe, List.length_cons, List.length_nil, List.isEmpty_cons]
    cases as <;> simp

theorem arity_unsubscribe (p : Bool) (args : List Bytes) : (sigUnsubscribe p).checkArity args.length = true := by
  cases args <;> simp [Sig.checkArity, sigUnsubscribe]

/-! ### what `prep` keeps -/

theorem prep_conn_cases (s : Sys) (c : Nat) : (prep s).conn c = s.conn c ∨ (prep s).conn c = (s.conn c).cleared := by
  unfold prep
  rw [Sys.refresh_conn]
  exact cleanupClosed_conn_any s c

theorem prep_pubsub (s : Sys) (c : Nat) : ((prep s).conn c).pubsub = (s.conn c).pubsub := by
  rcases prep_conn_cases s c with h | h <;> rw [h] <;> rfl
theorem prep_tx (s : Sys) (c : Nat) : ((prep s).conn c).tx = (s.conn c).tx := by
  rcases prep_conn_cases s c with h | h <;> rw [h] <;> rfl
theorem prep_closed (s : Sys) (c : Nat) : ((prep s).conn c).closed = (s.conn c).closed := by
  rcases prep_conn_cases s c with h | h <;> rw [h] <;> rfl

theorem prep_subs (s : Sys) : (prep s).srv.subs = stripAll s.srv.subs s.srv.closedSockets := by
  unfold prep; rw [Sys.refresh_subs, cleanupClosed_subs]
theorem prep_psubs (s : Sys) : (prep s).srv.psubs = stripAll s.srv.psubs s.srv.closedSockets := by
  unfold prep; rw [Sys.refresh_psubs, cleanupClosed_psubs]
theorem prep_tbl (s : Sys) (q : Bool) : (prep s).tbl q = stripAll (s.tbl q) s.srv.closedSockets := by
  cases q
  · exact prep_subs s
  · exact prep_psubs s
theorem prep_closedSockets (s : Sys) : (prep s).srv.closedSockets = [] := by
  unfold prep Sys.refresh
  simp only [nextClock_srv]
  rw [cleanupClosed_run]; rfl
theorem prep_out (s : Sys) : (prep s).out = s.out := by
  unfold prep
  rw [Sys.refresh_out, cleanupClosed_run]
  exact foldl_forget_out _ _

/-! ### the requests -/

/-- (P)SUBSCRIBE outside MULTI: clean-up, clock refresh, then the subscriptions -/
theorem process_subscribe (mode : Mode) (c : Nat) (nameB : Bytes) (args : List Bytes) (s : Sys) (p : Bool)
    (hname : commandName nameB = some (if p then "psubscribe" else "subscribe")) (hargs : args ≠ [])
    (htx : (s.conn c).tx = none) :
    processCommand mode c (nameB :: args) s = ((), finish c (subscribeGen c p args (prep s)).2) := by
  have hsig : lookupSig nameB = some (sigSubscribe p) := by
    rw [lookupSig_of_name _ _ hname (by cases p <;> decide +kernel), find_subscribe]
  have har : (sigSubscribe p).checkArity args.length = true := by
    rw [arity_subscribe]; cases args <;> simp_all
  rw [processCommand_known _ _ _ _ _ hsig, dispatchBody_run _ _ _ _ _ _ har htx,
    runCommand_bytes mode c (sigSubscribe p) args (prep s) (by cases p <;> decide) (by cases p <;> rfl)
      (fun db => apply_bytes _ _ _ (by simp [sigSubscribe]) (.inr rfl) har), gate_subscribe]
  cases p
  · have hn : (sigSubscribe false).name = "subscribe" := rfl
    rw [special_subscribe _ _ _ _ _ _ hn, rawArgs_map_raw, afterSpecial_unit]
  · have hn : (sigSubscribe true).name = "psubscribe" := rfl
    rw [special_psubscribe _ _ _ _ _ _ hn, rawArgs_map_raw, afterSpecial_unit]

/-- (P)UNSUBSCRIBE outside MULTI -/
theorem process_unsubscribe (mode : Mode) (c : Nat) (nameB : Bytes) (args : List Bytes) (s : Sys) (p : Bool)
    (hname : commandName nameB = some (if p then "punsubscribe" else "unsubscribe"))
    (htx : (s.conn c).tx = none) :
    processCommand mode c (nameB :: args) s = ((), finish c (unsubscribeGen c p args (prep s)).2) := by
  have hsig : lookupSig nameB = some (sigUnsubscribe p) := by
    rw [lookupSig_of_name _ _ hname (by cases p <;> decide +kernel), find_unsubscribe]
  have har := arity_unsubscribe p args
  rw [processCommand_known _ _ _ _ _ hsig, dispatchBody_run _ _ _ _ _ _ har htx,
    runCommand_bytes mode c (sigUnsubscribe p) args (prep s) (by cases p <;> decide) (by cases p <;> rfl)
      (fun db => apply_bytes _ _ _ (by simp [sigUnsubscribe]) (.inr rfl) har), gate_unsubscribe]
  cases p
  · have hn : (sigUnsubscribe false).name = "unsubscribe" := rfl
    rw [special_unsubscribe _ _ _ _ _ _ hn, rawArgs_map_raw, afterSpecial_unit]
  · have hn : (sigUnsubscribe true).name = "punsubscribe" := rfl
    rw [special_punsubscribe _ _ _ _ _ _ hn, rawArgs_map_raw, afterSpecial_unit]

/-- PUBLISH outside MULTI by a client that has no subscription -/
theorem process_publish (mode : Mode) (c : Nat) (nameB ch msg : Bytes) (s : Sys)
    (hname : commandName nameB = some "publish") (htx : (s.conn c).tx = none) (hps : (s.conn c).pubsub = 0) :
    processCommand mode c [nameB, ch, msg] s =
      ((), finish c ((publish ch msg (prep s)).2.emitS c (.int (publish ch msg (prep s)).1))) := by
  have hsig : lookupSig nameB = some sigPublish := by
    rw [lookupSig_of_name _ _ hname (by decide +kernel), find_publish]
  have har : sigPublish.checkArity [ch, msg].length = true := rfl
  have hg : runGate sigPublish false (decide (((prep s).conn c).pubsub > 0)) = none := by
    rw [prep_pubsub, hps]; exact gate_publish_free
  rw [processCommand_known _ _ _ _ _ hsig, dispatchBody_run _ _ _ _ _ _ har htx,
    runCommand_bytes mode c sigPublish [ch, msg] (prep s) (by decide) rfl
      (fun db => apply_bytes _ _ _ (by simp [sigPublish]) (.inl rfl) har), hg]
  have hn : sigPublish.name = "publish" := rfl
  simp only [List.map_cons, List.map_nil]
  rw [special_publish _ _ _ _ _ _ _ hn]
  rfl

/-- PUBLISH by a client in subscriber mode: the fixed error, nothing delivered -/
theorem process_publish_gated (mode : Mode) (c : Nat) (nameB ch msg : Bytes) (s : Sys)
    (hname : commandName nameB = some "publish") (htx : (s.conn c).tx = none) (hps : (s.conn c).pubsub > 0) :
    processCommand mode c [nameB, ch, msg] s =
      ((), finish c ((prep s).emitS c (.err (strBytes Msgs.BAD_COMMAND_IN_PUBSUB_MSG)))) := by
  have hsig : lookupSig nameB = some sigPublish := by
    rw [lookupSig_of_name _ _ hname (by decide +kernel), find_publish]
  have har : sigPublish.checkArity [ch, msg].length = true := rfl
  have hg : runGate sigPublish false (decide (((prep s).conn c).pubsub > 0)) = some Msgs.BAD_COMMAND_IN_PUBSUB_MSG := by
    rw [prep_pubsub]; simp only [hps, decide_true]; exact gate_publish_sub
  rw [processCommand_known _ _ _ _ _ hsig, dispatchBody_run _ _ _ _ _ _ har htx,
    runCommand_bytes mode c sigPublish [ch, msg] (prep s) (by decide) rfl
      (fun db => apply_bytes _ _ _ (by simp [sigPublish]) (.inl rfl) har), hg]

/-- EXEC without MULTI: an error reply and nothing else -/
theorem process_exec_none (mode : Mode) (c : Nat) (nameB : Bytes) (s : Sys)
    (hname : commandName nameB = some "exec") (htx : (s.conn c).tx = none) :
    ∃ (r : Reply) (s' : Sys), processCommand mode c [nameB] s = ((), finish c (s'.emitS c r)) ∧
      s'.srv = (prep s).srv ∧ s'.out = (prep s).out := by
  have hsig : lookupSig nameB = some sigExec := by
    rw [lookupSig_of_name _ _ hname (by decide +kernel), find_exec]
  have har : sigExec.checkArity ([] : List Bytes).length = true := rfl
  rw [processCommand_known _ _ _ _ _ hsig, dispatchBody_run _ _ _ _ _ _ har htx,
    runCommand_bytes mode c sigExec [] (prep s) (by decide) rfl
      (fun db => apply_bytes _ _ _ (by simp [sigExec]) (.inl rfl) har)]
  cases hb : decide (((prep s).conn c).pubsub > 0)
  · rw [gate_exec_free]
    have hn : sigExec.name = "exec" := rfl
    simp only [List.map_nil]
    rw [special_exec _ _ _ _ _ _ hn]
    rw [afterSpecial_congr _ _ _ (pure (.error (Msgs.fmt1 Msgs.WITHOUT_MULTI_MSG "EXEC")) : M SpecialOut) _
      (execCmd_run_none (runInner mode c) [] (by rw [prep_tx]; exact htx)), afterSpecial_error]
    exact ⟨_, _, rfl, faulted_srv _ _, faulted_out _ _⟩
  · rw [gate_exec_sub]
    exact ⟨_, _, rfl, rfl, rfl⟩

/-! ## Part 6: who is subscribed, as a function of the history -/

/-! ### membership in the tables -/

theorem mem_members_subscribe (t : Tbl) (n : Bytes) (c0 c : Nat) (m : Bytes) :
    c ∈ tblMembers (tblSubscribe t n c0).1 m ↔ c ∈ tblMembers t m ∨ (c = c0 ∧ m = n) := by
  by_cases hm : m = n
  · subst hm
    rw [tblSubscribe_members]
    split
    · rename_i h
      constructor
      · exact .inl
      · rintro (h' | ⟨rfl, _⟩)
        · exact h'
        · simpa using h
    · simp only [List.mem_append, List.mem_singleton]
      constructor
      · rintro (h' | h')
        · exact .inl h'
        · exact .inr ⟨h', trivial⟩
      · rintro (h' | ⟨h', _⟩)
        · exact .inl h'
        · exact .inr h'
  · rw [tblSubscribe_members_ne t n m c0 hm]
    constructor
    · exact .inl
    · rintro (h' | ⟨_, h'⟩)
      · exact h'
      · exact absurd h' hm

theorem mem_members_unsubscribe (t : Tbl) (n : Bytes) (c0 c : Nat) (m : Bytes) :
    c ∈ tblMembers (tblUnsubscribe t n c0).1 m ↔ c ∈ tblMembers t m ∧ ¬ (c = c0 ∧ m = n) := by
  by_cases hm : m = n
  · subst hm
    rw [tblUnsubscribe_members, List.mem_filter]
    constructor
    · rintro ⟨h1, h2⟩
      exact ⟨h1, fun ⟨e, _⟩ => by simp [e] at h2⟩
    · rintro ⟨h1, h2⟩
      refine ⟨h1, ?_⟩
      have : c ≠ c0 := fun e => h2 ⟨e, rfl⟩
      simpa using this
  · rw [tblUnsubscribe_members_ne t n m c0 hm]
    constructor
    · exact fun h => ⟨h, fun ⟨_, e⟩ => hm e⟩
    · exact fun h => h.1

/-- `c` is listed under `m` in table `q` -/
def MemV (v : View) (q : Bool) (c : Nat) (m : Bytes) : Prop := c ∈ tblMembers (v.tbl q) m

/-- `c` is an effective subscriber of `m`: listed, and not closed-and-awaiting-clean-up -/
def SubV (v : View) (q : Bool) (c : Nat) (m : Bytes) : Prop := MemV v q c m ∧ c ∉ v.closedSockets

def IsSub (s : Sys) (q : Bool) (c : Nat) (m : Bytes) : Prop := SubV (view s) q c m

theorem sub_def (s : Sys) (q : Bool) (c : Nat) (m : Bytes) :
    IsSub s q c m ↔ c ∈ tblMembers (s.tbl q) m ∧ c ∉ s.srv.closedSockets := by
  unfold IsSub SubV MemV; rw [view_tbl]; rfl

theorem chgV_tbl (v : View) (p : Bool) (t' : Tbl) (c : Nat) (g) (q : Bool) :
    (chgV v p t' c g).tbl q = if q = p then t' else v.tbl q := by
  cases q <;> cases p <;> rfl

theorem memV_subState (s : Sys) (c0 : Nat) (p : Bool) (n : Bytes) (q : Bool) (c : Nat) (m : Bytes) :
    MemV (view (s.subState c0 p n)) q c m ↔ MemV (view s) q c m ∨ (c = c0 ∧ q = p ∧ m = n) := by
  rw [view_subState]
  unfold MemV
  rw [chgV_tbl]
  by_cases hq : q = p
  · subst hq
    simp only [if_true, mem_members_subscribe, true_and]
  · simp only [hq, if_false, false_and, and_false, or_false]

theorem memV_unsubState (s : Sys) (c0 : Nat) (p : Bool) (n : Bytes) (q : Bool) (c : Nat) (m : Bytes) :
    MemV (view (s.unsubState c0 p n)) q c m ↔ MemV (view s) q c m ∧ ¬ (c = c0 ∧ q = p ∧ m = n) := by
  rw [view_unsubState]
  unfold MemV
  rw [chgV_tbl]
  by_cases hq : q = p
  · subst hq
    simp only [if_true, mem_members_unsubscribe, true_and]
  · simp only [hq, if_false, false_and, and_false, not_false_eq_true, and_true]

theorem closed_subState (s : Sys) (c0 : Nat) (p : Bool) (n : Bytes) :
    (view (s.subState c0 p n)).closedSockets = (view s).closedSockets := by rw [view_subState]; rfl
theorem closed_unsubState (s : Sys) (c0 : Nat) (p : Bool) (n : Bytes) :
    (view (s.unsubState c0 p n)).closedSockets = (view s).closedSockets := by rw [view_unsubState]; rfl

theorem memV_core {v v' : View} (e : v'.core = v.core) (q c m) : MemV v' q c m ↔ MemV v q c m := by
  obtain ⟨a1, a2, a3, a4, a5⟩ := v
  obtain ⟨b1, b2, b3, b4, b5⟩ := v'
  simp only [View.core, Prod.mk.injEq] at e
  obtain ⟨rfl, rfl, rfl, rfl⟩ := e
  exact Iff.rfl

theorem closed_core {v v' : View} (e : v'.core = v.core) : v'.closedSockets = v.closedSockets :=
  congrArg (fun x => x.2.2.1) e

theorem subV_core {v v' : View} (e : v'.core = v.core) (q c m) : SubV v' q c m ↔ SubV v q c m := by
  unfold SubV; rw [memV_core e, closed_core e]

/-! ### through `subscribeGen` / `unsubscribeGen` -/

theorem memV_forM_sub (c0 : Nat) (p : Bool) (names : List Bytes) (s : Sys) (q : Bool) (c : Nat) (m : Bytes) :
    MemV (view (names.forM (subStep c0 p) s).2) q c m ↔ MemV (view s) q c m ∨ (c = c0 ∧ q = p ∧ m ∈ names) := by
  induction names generalizing s with
  | nil => simp; rfl
  | cons n ns ih =>
    rw [forM_cons_eq]
    simp only [bind, StateT.bind, subStep_run]
    rw [ih, memV_core (emitS_core _ _ _), memV_subState]
    simp only [List.mem_cons]
    constructor
    · rintro ((h | ⟨h1, h2, h3⟩) | ⟨h1, h2, h3⟩)
      · exact .inl h
      · exact .inr ⟨h1, h2, .inl h3⟩
      · exact .inr ⟨h1, h2, .inr h3⟩
    · rintro (h | ⟨h1, h2, h3 | h3⟩)
      · exact .inl (.inl h)
      · exact .inl (.inr ⟨h1, h2, h3⟩)
      · exact .inr ⟨h1, h2, h3⟩

theorem closed_forM_sub (c0 : Nat) (p : Bool) (names : List Bytes) (s : Sys) :
    (view (names.forM (subStep c0 p) s).2).closedSockets = (view s).closedSockets := by
  induction names generalizing s with
  | nil => rfl
  | cons n ns ih =>
    rw [forM_cons_eq]
    simp only [bind, StateT.bind, subStep_run]
    rw [ih, closed_core (emitS_core _ _ _), closed_subState]

theorem memV_forM_unsub (c0 : Nat) (p : Bool) (names : List Bytes) (s : Sys) (q : Bool) (c : Nat) (m : Bytes) :
    MemV (view (names.forM (unsubStep c0 p) s).2) q c m ↔ MemV (view s) q c m ∧ ¬ (c = c0 ∧ q = p ∧ m ∈ names) := by
  induction names generalizing s with
  | nil => simp; rfl
  | cons n ns ih =>
    rw [forM_cons_eq]
    simp only [bind, StateT.bind, unsubStep_run]
    rw [ih, memV_core (emitS_core _ _ _), memV_unsubState]
    simp only [List.mem_cons]
    constructor
    · rintro ⟨⟨h, h1⟩, h2⟩
      refine ⟨h, ?_⟩
      rintro ⟨e1, e2, e3 | e3⟩
      · exact h1 ⟨e1, e2, e3⟩
      · exact h2 ⟨e1, e2, e3⟩
    · rintro ⟨h, h1⟩
      exact ⟨⟨h, fun ⟨e1, e2, e3⟩ => h1 ⟨e1, e2, .inl e3⟩⟩, fun ⟨e1, e2, e3⟩ => h1 ⟨e1, e2, .inr e3⟩⟩

theorem closed_forM_unsub (c0 : Nat) (p : Bool) (names : List Bytes) (s : Sys) :
    (view (names.forM (unsubStep c0 p) s).2).closedSockets = (view s).closedSockets := by
  induction names generalizing s with
  | nil => rfl
  | cons n ns ih =>
    rw [forM_cons_eq]
    simp only [bind, StateT.bind, unsubStep_run]
    rw [ih, closed_core (emitS_core _ _ _), closed_unsubState]

theorem memV_subscribeGen (c0 : Nat) (p : Bool) (names : List Bytes) (s : Sys) (q : Bool) (c : Nat) (m : Bytes) :
    MemV (view (subscribeGen c0 p names s).2) q c m ↔ MemV (view s) q c m ∨ (c = c0 ∧ q = p ∧ m ∈ names) := by
  rw [subscribeGen_eq]; exact memV_forM_sub ..

theorem closed_subscribeGen (c0 : Nat) (p : Bool) (names : List Bytes) (s : Sys) :
    (view (subscribeGen c0 p names s).2).closedSockets = (view s).closedSockets := by
  rw [subscribeGen_eq]; exact closed_forM_sub ..

theorem mem_subscribedNames (s : Sys) (c0 : Nat) (p : Bool) (m : Bytes) (h : MemV (view s) p c0 m) :
    m ∈ s.subscribedNames c0 p := by
  unfold MemV at h
  rw [view_tbl] at h
  unfold tblMembers at h
  cases hl : (s.tbl p).lookup m with
  | none => rw [hl] at h; simp at h
  | some cs =>
    rw [hl] at h
    have hm := lookup_mem _ _ _ hl
    unfold Sys.subscribedNames
    refine List.mem_map.2 ⟨(m, cs), List.mem_filter.2 ⟨hm, ?_⟩, rfl⟩
    simpa using h

/-- UNSUBSCRIBE: the named channels are dropped; without names, all of the caller's are -/
theorem memV_unsubscribeGen (c0 : Nat) (p : Bool) (names : List Bytes) (s : Sys) (q : Bool) (c : Nat) (m : Bytes) :
    MemV (view (unsubscribeGen c0 p names s).2) q c m ↔
      MemV (view s) q c m ∧ ¬ (c = c0 ∧ q = p ∧ (names = [] ∨ m ∈ names)) := by
  by_cases hn : names = []
  · subst hn
    by_cases hsn : s.subscribedNames c0 p = []
    · rw [unsubscribeGen_nil_none _ _ _ hsn, memV_core (emitS_core _ _ _)]
      constructor
      · intro h
        refine ⟨h, ?_⟩
        rintro ⟨rfl, rfl, _⟩
        have := mem_subscribedNames s c q m h
        rw [hsn] at this; cases this
      · exact fun h => h.1
    · rw [unsubscribeGen_nil_some _ _ _ hsn, memV_forM_unsub]
      constructor
      · rintro ⟨h, h1⟩
        refine ⟨h, ?_⟩
        rintro ⟨rfl, rfl, _⟩
        exact h1 ⟨rfl, rfl, mem_subscribedNames s c q m h⟩
      · rintro ⟨h, h1⟩
        exact ⟨h, fun ⟨e1, e2, _⟩ => h1 ⟨e1, e2, .inl rfl⟩⟩
  · rw [unsubscribeGen_explicit _ _ _ _ hn, memV_forM_unsub]
    simp only [hn, false_or]

theorem closed_unsubscribeGen (c0 : Nat) (p : Bool) (names : List Bytes) (s : Sys) :
    (view (unsubscribeGen c0 p names s).2).closedSockets = (view s).closedSockets := by
  by_cases hn : names = []
  · subst hn
    by_cases hsn : s.subscribedNames c0 p = []
    · rw [unsubscribeGen_nil_none _ _ _ hsn, closed_core (emitS_core _ _ _)]
    · rw [unsubscribeGen_nil_some _ _ _ hsn, closed_forM_unsub]
  · rw [unsubscribeGen_explicit _ _ _ _ hn, closed_forM_unsub]

/-! ### clean-up, the clock refresh, the end of `_process_command` -/

theorem refresh_core (s : Sys) : (view s.refresh).core = (view s).core := by
  unfold view View.core Sys.refresh
  simp only [nextClock_srv]

theorem finish_core (c : Nat) (s : Sys) : (view (finish c s)).core = (view s).core := by
  unfold finish; split
  · rw [view_updConn s c (fun x => { x with dead := true }) (fun _ => rfl)]
  · rfl

theorem view_prep_core (s : Sys) : (view (prep s)).core = (cleanV (view s)).core := by
  unfold prep; rw [refresh_core, view_cleanup]

theorem subV_clean (v : View) (q : Bool) (c : Nat) (m : Bytes) : SubV (cleanV v) q c m ↔ SubV v q c m := by
  unfold SubV MemV
  have : (cleanV v).tbl q = stripAll (v.tbl q) v.closedSockets := by cases q <;> rfl
  rw [this, tblMembers_stripAll, List.mem_filter]
  show (_ ∧ _) ∧ c ∉ ([] : List Nat) ↔ _
  simp

theorem sub_prep (s : Sys) (q : Bool) (c : Nat) (m : Bytes) : IsSub (prep s) q c m ↔ IsSub s q c m := by
  unfold IsSub; rw [subV_core (view_prep_core s), subV_clean]

theorem prep_closedV (s : Sys) : (view (prep s)).closedSockets = [] := prep_closedSockets s

/-! ### the commands of other connections never change `c`'s subscriptions -/

/-- "`c` is an effective subscriber of `m` (table `q`) iff `b`" -/
def K (q : Bool) (c : Nat) (m : Bytes) (b : Prop) (s : Sys) : Prop := IsSub s q c m ↔ b

instance (q : Bool) (c : Nat) (m : Bytes) (b : Prop) : Frame0 (K q c m b) :=
  ⟨fun s s' e h => (subV_core e q c m).trans h⟩

theorem K_subStep (q : Bool) (c : Nat) (m : Bytes) (b : Prop) (c0 : Nat) (hne : c0 ≠ c) (p : Bool) (n : Bytes) :
    Pres (K q c m b) (subStep c0 p n) := by
  intro s hs
  rw [subStep_run]
  refine Frame0.frame0 (s.subState c0 p n) _ (emitS_core _ _ _) ?_
  unfold K IsSub SubV at hs ⊢
  rw [memV_subState, closed_subState]
  have : ¬ (c = c0 ∧ q = p ∧ m = n) := fun h => hne h.1.symm
  simp only [this, or_false]
  exact hs

theorem K_unsubStep (q : Bool) (c : Nat) (m : Bytes) (b : Prop) (c0 : Nat) (hne : c0 ≠ c) (p : Bool) (n : Bytes) :
    Pres (K q c m b) (unsubStep c0 p n) := by
  intro s hs
  rw [unsubStep_run]
  refine Frame0.frame0 (s.unsubState c0 p n) _ (emitS_core _ _ _) ?_
  unfold K IsSub SubV at hs ⊢
  rw [memV_unsubState, closed_unsubState]
  have : ¬ (c = c0 ∧ q = p ∧ m = n) := fun h => hne h.1.symm
  simp only [this, not_false_eq_true, and_true]
  exact hs

theorem K_clean (q : Bool) (c : Nat) (m : Bytes) (b : Prop) : Pres (K q c m b) cleanupClosed := by
  intro s hs
  unfold K IsSub at hs ⊢
  rw [view_cleanup, subV_clean]
  exact hs

theorem K_hyps (q : Bool) (c : Nat) (m : Bytes) (b : Prop) (c0 : Nat) (hne : c0 ≠ c) : Hyps (K q c m b) c0 :=
  ⟨f0_emit c0, f0_publish, fun p names => pres_subscribeGen c0 p (K_subStep q c m b c0 hne p) names,
    fun p names => pres_unsubscribeGen c0 p (K_unsubStep q c m b c0 hne p) (f0_emit c0) names⟩

/-- the connection an event belongs to -/
def evConn : Ev → Option Nat
  | .open c => some c
  | .close c => some c
  | .gc c => some c
  | .request _ c _ _ _ => some c
  | .send _ c _ _ _ => some c
  | .wake c _ => some c
  | .timeout c => some c
  | .awake _ c _ _ => some c
  | .atimeout _ c _ _ => some c
  | _ => none

theorem subV_close_other (v : View) (c0 c : Nat) (hne : c0 ≠ c) (q m) : SubV (closeV v c0) q c m ↔ SubV v q c m := by
  unfold SubV MemV
  show _ ∧ c ∉ v.closedSockets ++ [c0] ↔ _
  have : c ≠ c0 := fun e => hne e.symm
  simp [this]
  exact fun _ => Iff.rfl

theorem subV_gc_other (v : View) (c0 c : Nat) (hne : c0 ≠ c) (q m) : SubV (gcV v c0) q c m ↔ SubV v q c m := by
  unfold SubV MemV
  have h1 : (gcV v c0).tbl q = stripAll (v.tbl q) [c0] := by cases q <;> rfl
  have hc : c ≠ c0 := fun e => hne e.symm
  rw [h1, tblMembers_stripAll, List.mem_filter]
  show _ ∧ c ∉ v.closedSockets.filter (· != c0) ↔ _
  simp [hc]

theorem subV_gc_self (v : View) (c : Nat) (q m) : ¬ SubV (gcV v c) q c m := by
  unfold SubV MemV
  have h1 : (gcV v c).tbl q = stripAll (v.tbl q) [c] := by cases q <;> rfl
  rw [h1, tblMembers_stripAll, List.mem_filter]
  simp

theorem subV_close_self (v : View) (c : Nat) (q m) : ¬ SubV (closeV v c) q c m := by
  unfold SubV
  show ¬ (_ ∧ c ∉ v.closedSockets ++ [c])
  simp

/-- an event of another connection (or of no connection) leaves `c`'s subscriptions alone — whatever the
event is: MULTI/EXEC with queued (un)subscriptions, scripts, raw bytes, wake-ups … -/
theorem sub_step_other (s : Sys) (e : Ev) (q : Bool) (c : Nat) (m : Bytes) (he : evConn e ≠ some c) :
    IsSub (stepEv s e) q c m ↔ IsSub s q c m := by
  have h0 : K q c m (IsSub s q c m) s.beginEvent := subV_core (begin_core s) q c m
  have hh : ∀ cl pk, K q c m (IsSub s q c m) (s.beginEvent.withHints cl pk) :=
    fun cl pk => subV_core (hints_core s cl pk) q c m
  unfold stepEv
  cases e with
  | version v => exact subV_core (v := view s) rfl q c m
  | «open» c0 =>
    show SubV (view (openConn c0 s.beginEvent).2) q c m ↔ _
    rw [view_open]; exact Iff.rfl
  | close c0 =>
    have hne : c0 ≠ c := fun e => he (by rw [e]; rfl)
    show SubV (view (closeConn c0 s.beginEvent).2) q c m ↔ _
    rw [view_close, subV_close_other _ _ _ hne]; exact Iff.rfl
  | gc c0 =>
    have hne : c0 ≠ c := fun e => he (by rw [e]; rfl)
    show SubV (view (gcConn c0 s.beginEvent).2) q c m ↔ _
    rw [view_gc, subV_gc_other _ _ _ hne]; exact Iff.rfl
  | conn up => exact subV_core (v := view s) rfl q c m
  | request mode c0 fields clocks picks =>
    have hne : c0 ≠ c := fun e => he (by rw [e]; rfl)
    exact processCommand_pres (K_hyps q c m _ c0 hne) (K_clean q c m _) mode fields _ (hh clocks picks)
  | send mode c0 data clocks picks =>
    have hne : c0 ≠ c := fun e => he (by rw [e]; rfl)
    exact sendallGuarded_pres (K_hyps q c m _ c0 hne) (K_clean q c m _) mode data _ (hh clocks picks)
  | wake c0 clocks => exact wakeConn_pres (I := K q c m _) (f0_emit c0) _ (hh clocks [])
  | timeout c0 => exact timeoutConn_pres (I := K q c m _) (f0_emit c0) _ h0
  | awake mode c0 clocks picks =>
    have hne : c0 ≠ c := fun e => he (by rw [e]; rfl)
    exact wakeConnAsync_pres (K_hyps q c m _ c0 hne) (K_clean q c m _) mode _ (hh clocks picks)
  | atimeout mode c0 clocks picks =>
    have hne : c0 ≠ c := fun e => he (by rw [e]; rfl)
    exact timeoutConnAsync_pres (K_hyps q c m _ c0 hne) (K_clean q c m _) mode _ (hh clocks picks)

/-! ### the requests of `c` itself -/

/-- what a request means for the subscription tables -/
inductive PSKind where
  | sub (p : Bool) (names : List Bytes)
  | unsub (p : Bool) (names : List Bytes)
  | other
  deriving DecidableEq

/-- classification of a parsed request: (P)SUBSCRIBE with at least one name, (P)UNSUBSCRIBE, anything else
(including (P)SUBSCRIBE without a name, which is an arity error) -/
def psKind : List Bytes → PSKind
  | [] => .other
  | nameB :: args =>
    if commandName nameB = some "subscribe" then (if args.isEmpty then .other else .sub false args)
    else if commandName nameB = some "psubscribe" then (if args.isEmpty then .other else .sub true args)
    else if commandName nameB = some "unsubscribe" then .unsub false args
    else if commandName nameB = some "punsubscribe" then .unsub true args
    else .other

/-- the signature a request resolves to -/
def reqSig : List Bytes → Option Sig
  | [] => none
  | nameB :: _ => lookupSig nameB

theorem psKind_cons (nameB : Bytes) (args : List Bytes) : psKind (nameB :: args) =
    if commandName nameB = some "subscribe" then (if args.isEmpty then .other else .sub false args)
    else if commandName nameB = some "psubscribe" then (if args.isEmpty then .other else .sub true args)
    else if commandName nameB = some "unsubscribe" then .unsub false args
    else if commandName nameB = some "punsubscribe" then .unsub true args
    else .other := rfl

theorem psKind_sub {fields : List Bytes} {p : Bool} {names : List Bytes} (h : psKind fields = .sub p names) :
    ∃ nameB, fields = nameB :: names ∧ commandName nameB = some (if p then "psubscribe" else "subscribe") ∧
      names ≠ [] := by
  cases fields with
  | nil => cases h
  | cons nameB args =>
    rw [psKind_cons] at h
    by_cases h1 : commandName nameB = some "subscribe"
    · rw [if_pos h1] at h
      cases ha : args.isEmpty
      · rw [ha] at h
        simp only [Bool.false_eq_true, if_false] at h
        cases h
        exact ⟨nameB, rfl, h1, by intro e; rw [e] at ha; cases ha⟩
      · rw [ha] at h; simp only [if_true] at h; cases h
    · rw [if_neg h1] at h
      by_cases h2 : commandName nameB = some "psubscribe"
      · rw [if_pos h2] at h
        cases ha : args.isEmpty
        · rw [ha] at h
          simp only [Bool.false_eq_true, if_false] at h
          cases h
          exact ⟨nameB, rfl, h2, by intro e; rw [e] at ha; cases ha⟩
        · rw [ha] at h; simp only [if_true] at h; cases h
      · rw [if_neg h2] at h
        by_cases h3 : commandName nameB = some "unsubscribe"
        · rw [if_pos h3] at h; cases h
        · rw [if_neg h3] at h
          by_cases h4 : commandName nameB = some "punsubscribe"
          · rw [if_pos h4] at h; cases h
          · rw [if_neg h4] at h; cases h

theorem psKind_unsub {fields : List Bytes} {p : Bool} {names : List Bytes} (h : psKind fields = .unsub p names) :
    ∃ nameB, fields = nameB :: names ∧ commandName nameB = some (if p then "punsubscribe" else "unsubscribe") := by
  cases fields with
  | nil => cases h
  | cons nameB args =>
    rw [psKind_cons] at h
    by_cases h1 : commandName nameB = some "subscribe"
    · rw [if_pos h1] at h
      cases ha : args.isEmpty <;> rw [ha] at h <;> simp only [Bool.false_eq_true, if_false, if_true] at h <;> cases h
    · rw [if_neg h1] at h
      by_cases h2 : commandName nameB = some "psubscribe"
      · rw [if_pos h2] at h
        cases ha : args.isEmpty <;> rw [ha] at h <;> simp only [Bool.false_eq_true, if_false, if_true] at h <;> cases h
      · rw [if_neg h2] at h
        by_cases h3 : commandName nameB = some "unsubscribe"
        · rw [if_pos h3] at h; cases h
          exact ⟨nameB, rfl, h3⟩
        · rw [if_neg h3] at h
          by_cases h4 : commandName nameB = some "punsubscribe"
          · rw [if_pos h4] at h; cases h
            exact ⟨nameB, rfl, h4⟩
          · rw [if_neg h4] at h; cases h

theorem subV_of_closed_nil {v : View} (hv : v.closedSockets = []) (q c m) : SubV v q c m ↔ MemV v q c m := by
  unfold SubV; rw [hv]; simp

/-- (P)SUBSCRIBE outside MULTI adds exactly the named channels of that table -/
theorem isSub_request_sub (s : Sys) (mode : Mode) (c : Nat) (fields : List Bytes) (cl : List Int) (pk)
    (p : Bool) (names : List Bytes) (hk : psKind fields = .sub p names) (htx : (s.conn c).tx = none)
    (q : Bool) (m : Bytes) :
    IsSub (stepEv s (.request mode c fields cl pk)) q c m ↔ IsSub s q c m ∨ (q = p ∧ m ∈ names) := by
  obtain ⟨nameB, rfl, hname, hne⟩ := psKind_sub hk
  show IsSub (processCommand mode c (nameB :: names) (s.beginEvent.withHints cl pk)).2 q c m ↔ _
  rw [process_subscribe mode c nameB names (s.beginEvent.withHints cl pk) p hname hne htx]
  unfold IsSub
  rw [subV_core (finish_core _ _),
    subV_of_closed_nil (by rw [closed_subscribeGen]; exact prep_closedV _), memV_subscribeGen,
    ← subV_of_closed_nil (prep_closedV _)]
  have := sub_prep (s.beginEvent.withHints cl pk) q c m
  unfold IsSub at this
  rw [this, subV_core (hints_core s cl pk)]
  simp only [true_and]

/-- (P)UNSUBSCRIBE outside MULTI drops exactly the named channels of that table, all of them without names -/
theorem isSub_request_unsub (s : Sys) (mode : Mode) (c : Nat) (fields : List Bytes) (cl : List Int) (pk)
    (p : Bool) (names : List Bytes) (hk : psKind fields = .unsub p names) (htx : (s.conn c).tx = none)
    (q : Bool) (m : Bytes) :
    IsSub (stepEv s (.request mode c fields cl pk)) q c m ↔
      IsSub s q c m ∧ ¬ (q = p ∧ (names = [] ∨ m ∈ names)) := by
  obtain ⟨nameB, rfl, hname⟩ := psKind_unsub hk
  show IsSub (processCommand mode c (nameB :: names) (s.beginEvent.withHints cl pk)).2 q c m ↔ _
  rw [process_unsubscribe mode c nameB names (s.beginEvent.withHints cl pk) p hname htx]
  unfold IsSub
  rw [subV_core (finish_core _ _),
    subV_of_closed_nil (by rw [closed_unsubscribeGen]; exact prep_closedV _), memV_unsubscribeGen,
    ← subV_of_closed_nil (prep_closedV _)]
  have := sub_prep (s.beginEvent.withHints cl pk) q c m
  unfold IsSub at this
  rw [this, subV_core (hints_core s cl pk)]
  simp only [true_and]

/-! ### any other request of `c` outside MULTI (no script command) -/

section other
variable {I : Sys → Prop} [Frame0 I]

theorem prep_pres (hclean : Pres I cleanupClosed) (s : Sys) (hs : I s) : I (prep s) :=
  Frame0.frame0 _ _ (refresh_core _) (hclean s hs)

theorem dispatchBody_badarity (mode : Mode) (c : Nat) (conn : Conn) (sig : Sig) (args : List Bytes)
    (har : sig.checkArity args.length = false) : Pres I (dispatchBody mode c conn sig args) := by
  have hemit := f0_emit (I := I) c
  unfold dispatchBody
  simp only [har, Bool.not_false, if_true]
  pres

theorem unknown_pres (mode : Mode) (c : Nat) (nameB : Bytes) (args : List Bytes) (h : lookupSig nameB = none) :
    Pres I (processCommand mode c (nameB :: args)) := by
  have hemit := f0_emit (I := I) c
  rw [processCommand_cons]
  simp only [h]
  pres

theorem plain_pres (hclean : Pres I cleanupClosed) (mode : Mode) (c : Nat) (nameB : Bytes) (args : List Bytes)
    (sig : Sig) (h : lookupSig nameB = some sig) (hsens : sig.name ∉ sensitiveNames) (hns : sig.name ∉ scriptNames) :
    Pres I (processCommand mode c (nameB :: args)) := by
  have hemit := f0_emit (I := I) c
  have hrun : ∀ fs, Pres I (runCommand mode c sig args fs) := by
    intro fs
    rw [runCommand_not_script mode c sig args fs hns]
    apply runWith_pres
    intro a cis
    exact special_pres_plain hemit _ _ _ hsens (fun _ => f0_publish) a cis
  rw [processCommand_cons]
  simp only [h]
  unfold dispatch
  pres

theorem arity_exec (args : List Bytes) : sigExec.checkArity args.length = args.isEmpty := by
  cases args <;> simp [Sig.checkArity, sigExec]

/-- a request of `c` that is neither (P)SUBSCRIBE / (P)UNSUBSCRIBE nor a script command, issued outside MULTI,
preserves every invariant that depends on tables, closed sockets and `(id, closed, pubsub)` only and survives the
clean-up -/
theorem other_request (hclean : Pres I cleanupClosed) (mode : Mode) (c : Nat) (fields : List Bytes) (s : Sys)
    (hk : psKind fields = .other) (htx : (s.conn c).tx = none)
    (hns : ∀ sig, reqSig fields = some sig → sig.name ∉ scriptNames) (hs : I s) :
    I (processCommand mode c fields s).2 := by
  cases fields with
  | nil => exact hs
  | cons nameB args =>
    cases hsig : lookupSig nameB with
    | none => exact unknown_pres mode c nameB args hsig s hs
    | some sig =>
      have hnm := name_of_lookupSig hsig
      by_cases hsens : sig.name ∈ sensitiveNames
      · rw [processCommand_known mode c nameB args s hsig]
        have hp := prep_pres hclean s hs
        simp only [sensitiveNames, List.mem_cons, List.not_mem_nil, or_false] at hsens
        rw [psKind_cons] at hk
        rcases hsens with e | e | e | e | e
        · -- subscribe
          rw [e] at hnm
          simp only [hnm, if_true] at hk
          have hargs : args.isEmpty = true := by
            cases h : args.isEmpty
            · rw [h] at hk; simp at hk
            · rfl
          have : sig = sigSubscribe false := by
            have := hsig
            rw [lookupSig_of_name _ _ hnm (by decide +kernel)] at this
            exact (Option.some.inj (this.symm.trans (find_subscribe false))).symm ▸ rfl
          subst this
          exact dispatchBody_badarity mode c _ _ args (by rw [arity_subscribe, hargs]; rfl) _ hp
        · -- psubscribe
          rw [e] at hnm
          have h1 : ¬ (some "psubscribe" = some "subscribe") := by decide
          simp only [hnm, h1, if_false, if_true] at hk
          have hargs : args.isEmpty = true := by
            cases h : args.isEmpty
            · rw [h] at hk; simp at hk
            · rfl
          have : sig = sigSubscribe true := by
            have := hsig
            rw [lookupSig_of_name _ _ hnm (by decide +kernel)] at this
            exact (Option.some.inj (this.symm.trans (find_subscribe true))).symm ▸ rfl
          subst this
          exact dispatchBody_badarity mode c _ _ args (by rw [arity_subscribe, hargs]; rfl) _ hp
        · -- unsubscribe
          rw [e] at hnm
          have h1 : ¬ (some "unsubscribe" = some "subscribe") := by decide
          have h2 : ¬ (some "unsubscribe" = some "psubscribe") := by decide
          simp only [hnm, h1, h2, if_false, if_true] at hk
          cases hk
        · -- punsubscribe
          rw [e] at hnm
          have h1 : ¬ (some "punsubscribe" = some "subscribe") := by decide
          have h2 : ¬ (some "punsubscribe" = some "psubscribe") := by decide
          have h3 : ¬ (some "punsubscribe" = some "unsubscribe") := by decide
          simp only [hnm, h1, h2, h3, if_false, if_true] at hk
          cases hk
        · -- exec
          rw [e] at hnm
          have : sig = sigExec := by
            have := hsig
            rw [lookupSig_of_name _ _ hnm (by decide +kernel), find_exec] at this
            exact (Option.some.inj this).symm
          subst this
          cases hargs : args.isEmpty
          · exact dispatchBody_badarity mode c _ _ args (by rw [arity_exec, hargs]) _ hp
          · have : args = [] := by simpa using hargs
            subst this
            rw [← processCommand_known mode c nameB [] s hsig]
            obtain ⟨r, s', hrun, h1, h2⟩ := process_exec_none mode c nameB s hnm htx
            rw [hrun]
            refine Frame0.frame0 (prep s) _ ?_ hp
            rw [View.core, View.core]
            have e1 : (view (finish c (s'.emitS c r))).core = (view s').core := by
              rw [finish_core, emitS_core]
            rw [← View.core, ← View.core, e1]
            unfold view View.core
            simp only [h1]
      · exact plain_pres hclean mode c nameB args sig hsig hsens (hns sig hsig) s hs

end other

/-! ### the replay of `c`'s own requests -/

/-- one step of the replay: only `c`'s own (P)SUBSCRIBE / (P)UNSUBSCRIBE requests, its close and its garbage
collection matter -/
def subscribedStep (c : Nat) (q : Bool) (m : Bytes) (b : Bool) : Ev → Bool
  | .close c0 => if c0 = c then false else b
  | .gc c0 => if c0 = c then false else b
  | .request _ c0 fields _ _ =>
    if c0 = c then
      match psKind fields with
      | .sub p names => b || (p == q && names.contains m)
      | .unsub p names => b && !(p == q && (names.isEmpty || names.contains m))
      | .other => b
    else b
  | _ => b

/-- is `c` subscribed to channel (`q = false`) / pattern (`q = true`) `m` after the history?  Computed from `c`'s
own requests alone: the last (P)SUBSCRIBE / (P)UNSUBSCRIBE naming `m` wins, (P)UNSUBSCRIBE without names drops
everything of that kind, close and garbage collection drop everything. -/
def subscribedTo (evs : List Ev) (c : Nat) (q : Bool) (m : Bytes) : Bool :=
  evs.foldl (subscribedStep c q m) false

/-- the side condition on `c`'s own events: complete requests, issued outside MULTI, no script command
(other connections are unconstrained) -/
def QuietEv (c : Nat) (s : Sys) : Ev → Prop
  | .request _ c0 fields _ _ =>
    c0 = c → (s.conn c).tx = none ∧ ∀ sig, reqSig fields = some sig → sig.name ∉ scriptNames
  | .send _ c0 _ _ _ => c0 ≠ c
  | .awake _ c0 _ _ => c0 ≠ c
  | .atimeout _ c0 _ _ => c0 ≠ c
  | _ => True

def QuietFrom (c : Nat) (s : Sys) : List Ev → Prop
  | [] => True
  | e :: es => QuietEv c s e ∧ QuietFrom c (stepEv s e) es

theorem isSub_step (s : Sys) (e : Ev) (c : Nat) (q : Bool) (m : Bytes) (b : Bool) (hq : QuietEv c s e)
    (hb : IsSub s q c m ↔ b = true) : IsSub (stepEv s e) q c m ↔ subscribedStep c q m b e = true := by
  have other : evConn e ≠ some c → subscribedStep c q m b e = b →
      (IsSub (stepEv s e) q c m ↔ subscribedStep c q m b e = true) := by
    intro he h1
    rw [h1, sub_step_other s e q c m he]; exact hb
  have h0 : K q c m (IsSub s q c m) s.beginEvent := subV_core (begin_core s) q c m
  have hh : ∀ cl pk, K q c m (IsSub s q c m) (s.beginEvent.withHints cl pk) :=
    fun cl pk => subV_core (hints_core s cl pk) q c m
  cases e with
  | version v => exact other (by simp [evConn]) rfl
  | conn up => exact other (by simp [evConn]) rfl
  | «open» c0 =>
    show SubV (view (openConn c0 s.beginEvent).2) q c m ↔ b = true
    rw [view_open]; exact hb
  | close c0 =>
    by_cases hc : c0 = c
    · subst hc
      simp only [subscribedStep, if_true]
      show SubV (view (closeConn c0 s.beginEvent).2) q c0 m ↔ _
      rw [view_close]
      simp only [subV_close_self, Bool.false_eq_true]
    · exact other (by simp [evConn, hc]) (by simp [subscribedStep, hc])
  | gc c0 =>
    by_cases hc : c0 = c
    · subst hc
      simp only [subscribedStep, if_true]
      show SubV (view (gcConn c0 s.beginEvent).2) q c0 m ↔ _
      rw [view_gc]
      simp only [subV_gc_self, Bool.false_eq_true]
    · exact other (by simp [evConn, hc]) (by simp [subscribedStep, hc])
  | wake c0 clocks =>
    show K q c m (b = true) _
    exact (wakeConn_pres (I := K q c m _) (f0_emit c0) _ (hh clocks [])).trans hb
  | timeout c0 =>
    show K q c m (b = true) _
    exact (timeoutConn_pres (I := K q c m _) (f0_emit c0) _ h0).trans hb
  | send mode c0 data clocks picks =>
    have hc : c0 ≠ c := hq
    exact other (by simp [evConn, hc]) rfl
  | awake mode c0 clocks picks =>
    have hc : c0 ≠ c := hq
    exact other (by simp [evConn, hc]) rfl
  | atimeout mode c0 clocks picks =>
    have hc : c0 ≠ c := hq
    exact other (by simp [evConn, hc]) rfl
  | request mode c0 fields clocks picks =>
    by_cases hc : c0 = c
    · subst hc
      obtain ⟨htx, hns⟩ := hq rfl
      simp only [subscribedStep, if_true]
      cases hk : psKind fields with
      | sub p names =>
        rw [isSub_request_sub s mode c0 fields clocks picks p names hk htx, hb]
        simp only [Bool.or_eq_true, Bool.and_eq_true, beq_iff_eq, List.contains_iff_mem]
        constructor
        · rintro (h | ⟨h1, h2⟩)
          · exact .inl h
          · exact .inr ⟨h1.symm, h2⟩
        · rintro (h | ⟨h1, h2⟩)
          · exact .inl h
          · exact .inr ⟨h1.symm, h2⟩
      | unsub p names =>
        rw [isSub_request_unsub s mode c0 fields clocks picks p names hk htx, hb]
        simp only [Bool.and_eq_true, Bool.not_eq_true', Bool.and_eq_false_iff, Bool.or_eq_true, beq_iff_eq,
          List.contains_iff_mem, List.isEmpty_iff, Bool.or_eq_false_iff, beq_eq_false_iff_ne, ne_eq]
        constructor
        · rintro ⟨h, h1⟩
          refine ⟨h, ?_⟩
          by_cases e : p = q
          · right
            subst e
            constructor
            · cases he : names.isEmpty
              · rfl
              · exact absurd ⟨rfl, .inl (by simpa using he)⟩ h1
            · cases hm : names.contains m
              · rfl
              · exact absurd ⟨rfl, .inr (by simpa using hm)⟩ h1
          · exact .inl e
        · rintro ⟨h, h1⟩
          refine ⟨h, ?_⟩
          rintro ⟨e, h2⟩
          rcases h1 with h1 | ⟨h3, h4⟩
          · exact h1 e.symm
          · rcases h2 with h2 | h2
            · rw [h2] at h3; cases h3
            · have : names.contains m = true := by simpa using h2
              rw [this] at h4; cases h4
      | other =>
        show K q c0 m (b = true) _
        exact (other_request (I := K q c0 m _) (K_clean q c0 m _) mode c0 fields
          (s.beginEvent.withHints clocks picks) hk htx hns (hh clocks picks)).trans hb
    · exact other (by simp [evConn, hc]) (by simp [subscribedStep, hc])

theorem isSub_foldl (evs : List Ev) (s : Sys) (c : Nat) (q : Bool) (m : Bytes) (b : Bool)
    (hq : QuietFrom c s evs) (hb : IsSub s q c m ↔ b = true) :
    IsSub (evs.foldl stepEv s) q c m ↔ evs.foldl (subscribedStep c q m) b = true := by
  induction evs generalizing s b with
  | nil => exact hb
  | cons e es ih => exact ih _ _ hq.2 (isSub_step s e c q m b hq.1 hb)

/-- who is subscribed after a history is a function of the subscriber's own requests -/
theorem isSub_runHistory (evs : List Ev) (c : Nat) (q : Bool) (m : Bytes) (hq : QuietFrom c {} evs) :
    IsSub (runHistory evs) q c m ↔ subscribedTo evs c q m = true := by
  refine isSub_foldl evs {} c q m false hq ?_
  constructor
  · intro h
    have := h.1
    unfold MemV tblMembers at this
    cases q <;> simp [view, View.tbl] at this
  · intro h; cases h

/-! ## Part 7: subscriber mode — the gate -/

theorem runGate_subscribed (sig : Sig) (hna : sig.name ∉ SigTable.pubsubAllowed) :
    runGate sig false true = some Msgs.BAD_COMMAND_IN_PUBSUB_MSG := by
  have : SigTable.pubsubAllowed.contains sig.name = false := by simpa using hna
  simp [runGate, this, hna]

/-- a closed subscriber-mode gate: `_run_command` answers the fixed error before it looks at the arguments
(no conversion error, no `missing_return` short-cut takes precedence) and the state is literally unchanged
(no lazy expiry of the keys) -/
theorem runWith_gated (special : SpecialFn) (mode : Mode) (c : Nat) (sig : Sig) (args : List Bytes) (s1 : Sys)
    (hg : runGate sig false ((s1.conn c).pubsub > 0) = some Msgs.BAD_COMMAND_IN_PUBSUB_MSG) :
    runWith special mode c sig args false s1 = (some (.err (strBytes Msgs.BAD_COMMAND_IN_PUBSUB_MSG)), s1) :=
  runWith_refused special mode c sig args false (Sys.refuses_of_gate_some rfl hg).1

theorem runScriptCmd_gated (mode : Mode) (c : Nat) (sig : Sig) (args : List Bytes) (s1 : Sys)
    (hg : runGate sig false ((s1.conn c).pubsub > 0) = some Msgs.BAD_COMMAND_IN_PUBSUB_MSG) :
    runScriptCmd mode c sig args false s1 = (some (.err (strBytes Msgs.BAD_COMMAND_IN_PUBSUB_MSG)), s1) :=
  runScriptCmd_refused mode c sig args false (Sys.refuses_of_gate_some rfl hg).1

theorem runCommand_gated (mode : Mode) (c : Nat) (sig : Sig) (args : List Bytes) (s1 : Sys)
    (hg : runGate sig false ((s1.conn c).pubsub > 0) = some Msgs.BAD_COMMAND_IN_PUBSUB_MSG) :
    runCommand mode c sig args false s1 = (some (.err (strBytes Msgs.BAD_COMMAND_IN_PUBSUB_MSG)), s1) :=
  runCommand_refused mode c sig args false (Sys.refuses_of_gate_some rfl hg).1

theorem foldl_forget_crashed (l : List Nat) (x : Sys) : (l.foldl Sys.forget x).crashed = x.crashed := by
  induction l generalizing x with
  | nil => rfl
  | cons a as ih => rw [List.foldl_cons, ih]; rfl

theorem prep_crashed (s : Sys) : (prep s).crashed = s.crashed := by
  have h2 : (cleanupClosed s).2.crashed = s.crashed := by
    rw [cleanupClosed_run]; exact foldl_forget_crashed _ s
  unfold prep Sys.refresh
  rw [nextClock_run]
  split
  · exact h2
  · simp only; split <;> exact h2

/-- While `Conn.pubsub > 0`, a request (outside MULTI, right number of arguments) for a command other than
(P)SUBSCRIBE / (P)UNSUBSCRIBE / PING / QUIT: after the clean-up and the clock refresh that precede every known command
the fixed error is the reply.  The arguments are not converted, no key is looked up, the body does not run. -/
theorem process_gated (mode : Mode) (c : Nat) (nameB : Bytes) (args : List Bytes) (s : Sys) (sig : Sig)
    (hsig : lookupSig nameB = some sig) (har : sig.checkArity args.length = true) (htx : (s.conn c).tx = none)
    (hps : (s.conn c).pubsub > 0) (hna : sig.name ∉ SigTable.pubsubAllowed) :
    processCommand mode c (nameB :: args) s =
      ((), finish c ((prep s).emitS c (.err (strBytes Msgs.BAD_COMMAND_IN_PUBSUB_MSG)))) := by
  have hg : runGate sig false (((prep s).conn c).pubsub > 0) = some Msgs.BAD_COMMAND_IN_PUBSUB_MSG := by
    rw [prep_pubsub]; simp only [hps, decide_true]; exact runGate_subscribed sig hna
  rw [processCommand_known mode c nameB args s hsig, dispatchBody_run _ _ _ _ _ _ har htx,
    runCommand_gated mode c sig args (prep s) hg]

/-- … and, apart from the reply and the clean-up / clock refresh that precede every known command, nothing changes:
the final state is literally `prep s` plus the reply — tables, connection records, every database (no lazy expiry) -/
theorem process_gated_frame (mode : Mode) (c : Nat) (nameB : Bytes) (args : List Bytes) (s : Sys) (sig : Sig)
    (hsig : lookupSig nameB = some sig) (har : sig.checkArity args.length = true) (htx : (s.conn c).tx = none)
    (hps : (s.conn c).pubsub > 0) (hna : sig.name ∉ SigTable.pubsubAllowed) (hcr : s.crashed = none) :
    let s' := (processCommand mode c (nameB :: args) s).2
    s' = (prep s).emitS c (.err (strBytes Msgs.BAD_COMMAND_IN_PUBSUB_MSG)) ∧
    s'.srv = (prep s).srv ∧
    s'.out = (if (s.conn c).closed then s.out else (c, .err (strBytes Msgs.BAD_COMMAND_IN_PUBSUB_MSG)) :: s.out) := by
  intro s'
  have e : s' = finish c ((prep s).emitS c (.err (strBytes Msgs.BAD_COMMAND_IN_PUBSUB_MSG))) := by
    show (processCommand mode c (nameB :: args) s).2 = _
    rw [process_gated mode c nameB args s sig hsig har htx hps hna]
  have hcr' : ∀ (x : Sys) r, x.crashed = none → finish c (x.emitS c r) = x.emitS c r := by
    intro x r hx
    unfold finish
    have : (x.emitS c r).crashed = none := by unfold Sys.emitS; split <;> exact hx
    rw [this]; rfl
  have hpc : (prep s).crashed = none := (prep_crashed s).trans hcr
  rw [hcr' _ _ (by exact hpc)] at e
  refine ⟨e, ?_, ?_⟩
  · rw [e, Sys.emitS_srv]
  · rw [e, Sys.emitS_out]
    show (if ((prep s).conn c).closed = true then (prep s).out else _ :: (prep s).out) = _
    rw [prep_closed, prep_out]

/-! ## Part 8: PUBLISH — who receives what, in which order -/

/-- the server tables as the next command sees them: the closed sockets awaiting clean-up are gone -/
def liveSrv (s : Sys) : Server :=
  { s.srv with subs := stripAll s.srv.subs s.srv.closedSockets, psubs := stripAll s.srv.psubs s.srv.closedSockets }

def chanMsg (ch msg : Bytes) : Reply := .arr [.bulk (strBytes "message"), .bulk ch, .bulk msg]
def patMsg (pat ch msg : Bytes) : Reply := .arr [.bulk (strBytes "pmessage"), .bulk pat, .bulk ch, .bulk msg]

theorem deliveries_congr (srv srv' : Server) (h1 : srv'.subs = srv.subs) (h2 : srv'.psubs = srv.psubs)
    (ch msg : Bytes) : deliveries srv' ch msg = deliveries srv ch msg := by
  unfold deliveries; rw [h1, h2]

theorem psinv_prep (s : Sys) (h : PSInv s) : PSInv (prep s) := prep_pres psinv_cleanup s h

/-- in a state whose closed sockets have been cleaned up, nobody listed in a table is closed -/
theorem listed_open (s : Sys) (hinv : PSInv s) (hcl : s.srv.closedSockets = []) (ch msg : Bytes) (c : Nat) (r : Reply)
    (h : (c, r) ∈ deliveries s.srv ch msg) : (s.conn c).closed = false := by
  have key : ∀ q, ∀ e ∈ (view s).tbl q, c ∈ e.2 → (s.conn c).closed = false := by
    intro q e he hc
    obtain ⟨k, hk, h1, h2⟩ := hinv.listed q e he c hc
    obtain ⟨_, hck⟩ := ckey_conn_of_view hinv hk
    have hcl' : k.2.1 = false := by
      cases hh : k.2.1
      · rfl
      · have := h2 hh
        rw [show (view s).closedSockets = s.srv.closedSockets from rfl, hcl] at this
        cases this
    rw [h1] at hck
    have : (ckey (s.conn c)).2.1 = k.2.1 := by rw [hck]
    exact this.trans hcl'
  rw [mem_deliveries] at h
  rcases h with ⟨hm, _⟩ | ⟨pat, cs, hm, _, hc, _⟩
  · cases hl : s.srv.subs.lookup ch with
    | none => rw [hl] at hm; simp at hm
    | some v => rw [hl] at hm; exact key false _ (lookup_mem _ _ _ hl) hm
  · exact key true _ hm hc

theorem finish_out (c : Nat) (s : Sys) : (finish c s).out = s.out := by
  unfold finish; split <;> rfl

/-- **PUBLISH** (outside MULTI, by an open client without subscriptions), in a state satisfying the table invariant:
the event emits, in this order, the deliveries computed from the cleaned-up tables and then the integer reply =
their number, to the publisher.  Nothing else is emitted. -/
theorem publish_request_out (s : Sys) (hinv : PSInv s) (mode : Mode) (P : Nat) (nameB ch msg : Bytes)
    (cl : List Int) (pk : List (List Bytes)) (hname : commandName nameB = some "publish")
    (hopen : IsOpen s P) (htx : (s.conn P).tx = none) (hps : (s.conn P).pubsub = 0) :
    (stepEv s (.request mode P [nameB, ch, msg] cl pk)).out.reverse =
      deliveries (liveSrv s) ch msg ++ [(P, .int (deliveries (liveSrv s) ch msg).length)] := by
  let s0 := s.beginEvent.withHints cl pk
  have hinv0 : PSInv s0 := PSInvV.of_core hinv (hints_core s cl pk)
  have hinv1 : PSInv (prep s0) := psinv_prep s0 hinv0
  have hds : deliveries (prep s0).srv ch msg = deliveries (liveSrv s) ch msg :=
    deliveries_congr _ _ (prep_subs s0) (prep_psubs s0) ch msg
  show (processCommand mode P [nameB, ch, msg] s0).2.out.reverse = _
  rw [process_publish mode P nameB ch msg s0 hname htx hps, finish_out, publish_run, Sys.emitS_out]
  have hPc : (Sys.conn { prep s0 with out := ((deliveries (prep s0).srv ch msg).filter
      fun d => !((prep s0).conn d.1).closed).reverse ++ (prep s0).out } P).closed = false := by
    show ((prep s0).conn P).closed = false
    rw [prep_closed]; exact hopen.2
  rw [hPc]
  simp only [Bool.false_eq_true, if_false]
  have hfil : (deliveries (prep s0).srv ch msg).filter (fun d => !((prep s0).conn d.1).closed)
      = deliveries (prep s0).srv ch msg := by
    rw [List.filter_eq_self]
    intro d hd
    have := listed_open (prep s0) hinv1 (prep_closedSockets s0) ch msg d.1 d.2 hd
    rw [this]; rfl
  rw [hfil, prep_out, hds]
  show ((P, Reply.int _) :: ((deliveries (liveSrv s) ch msg).reverse ++ ([] : List (Nat × Reply)))).reverse = _
  simp

/-- who receives a published message: the effective subscribers of the channel get `message`, the effective
subscribers of every matching pattern get `pmessage` — nobody else, nothing else -/
theorem mem_deliveries_live (s : Sys) (hinv : PSInv s) (ch msg : Bytes) (c : Nat) (r : Reply) :
    (c, r) ∈ deliveries (liveSrv s) ch msg ↔
      (IsSub s false c ch ∧ r = chanMsg ch msg) ∨
      (∃ pat, Glob.globMatch pat ch = true ∧ IsSub s true c pat ∧ r = patMsg pat ch msg) := by
  rw [mem_deliveries]
  have hnd : ((stripAll s.srv.psubs s.srv.closedSockets).map Prod.fst).Nodup :=
    (tblOK_stripAll _ _ (hinv.tblOK true)).1
  have h1 : c ∈ ((liveSrv s).subs.lookup ch).getD [] ↔ IsSub s false c ch := by
    rw [sub_def]
    show c ∈ tblMembers (stripAll s.srv.subs s.srv.closedSockets) ch ↔ _
    rw [tblMembers_stripAll, List.mem_filter]
    simp [Sys.tbl]
  have h2 : ∀ pat, (∃ cs, (pat, cs) ∈ (liveSrv s).psubs ∧ c ∈ cs) ↔ IsSub s true c pat := by
    intro pat
    rw [sub_def]
    show (∃ cs, (pat, cs) ∈ stripAll s.srv.psubs s.srv.closedSockets ∧ c ∈ cs) ↔ _
    have : c ∈ tblMembers (stripAll s.srv.psubs s.srv.closedSockets) pat ↔
        c ∈ tblMembers (s.tbl true) pat ∧ c ∉ s.srv.closedSockets := by
      rw [tblMembers_stripAll, List.mem_filter]; simp [Sys.tbl]
    rw [← this]
    constructor
    · rintro ⟨cs, hm, hc⟩
      unfold tblMembers
      rw [lookup_of_mem_nodup _ _ _ hnd hm]; exact hc
    · intro h
      unfold tblMembers at h
      cases hl : (stripAll s.srv.psubs s.srv.closedSockets).lookup pat with
      | none => rw [hl] at h; simp at h
      | some cs => rw [hl] at h; exact ⟨cs, lookup_mem _ _ _ hl, h⟩
  rw [h1]
  apply or_congr Iff.rfl
  constructor
  · rintro ⟨pat, cs, hm, hg, hc, rfl⟩
    exact ⟨pat, hg, (h2 pat).1 ⟨cs, hm, hc⟩, rfl⟩
  · rintro ⟨pat, hg, hs, rfl⟩
    obtain ⟨cs, hm, hc⟩ := (h2 pat).2 hs
    exact ⟨pat, cs, hm, hg, hc, rfl⟩

/-! ### the client-visible log of a history -/

/-- the replies emitted during a history, oldest first (`Sys.out` is newest-first and is reset by every event) -/
def outLog (s : Sys) : List Ev → List (Nat × Reply)
  | [] => []
  | e :: es => (stepEv s e).out.reverse ++ outLog (stepEv s e) es

theorem outLog_append (s : Sys) (evs1 evs2 : List Ev) :
    outLog s (evs1 ++ evs2) = outLog s evs1 ++ outLog (evs1.foldl stepEv s) evs2 := by
  induction evs1 generalizing s with
  | nil => rfl
  | cons e es ih => simp only [List.cons_append, outLog, List.foldl_cons, ih, List.append_assoc]

theorem legalFrom_append (s : Sys) (evs1 evs2 : List Ev) :
    LegalFrom s (evs1 ++ evs2) ↔ LegalFrom s evs1 ∧ LegalFrom (evs1.foldl stepEv s) evs2 := by
  induction evs1 generalizing s with
  | nil => simp [LegalFrom]
  | cons e es ih => simp only [List.cons_append, LegalFrom, List.foldl_cons, ih, and_assoc]

/-- a PUBLISH event puts the `message` push of every effective channel subscriber into the log -/
theorem publish_pushes (s : Sys) (hinv : PSInv s) (mode : Mode) (P : Nat) (nameB ch msg : Bytes)
    (cl : List Int) (pk : List (List Bytes)) (hname : commandName nameB = some "publish")
    (hopen : IsOpen s P) (htx : (s.conn P).tx = none) (hps : (s.conn P).pubsub = 0)
    (S : Nat) (hS : IsSub s false S ch) :
    ∃ a b, (stepEv s (.request mode P [nameB, ch, msg] cl pk)).out.reverse = a ++ (S, chanMsg ch msg) :: b := by
  rw [publish_request_out s hinv mode P nameB ch msg cl pk hname hopen htx hps]
  have : (S, chanMsg ch msg) ∈ deliveries (liveSrv s) ch msg :=
    (mem_deliveries_live s hinv ch msg S _).2 (.inl ⟨hS, rfl⟩)
  obtain ⟨a, b, e⟩ := List.append_of_mem this
  exact ⟨a, b ++ [(P, .int (deliveries (liveSrv s) ch msg).length)], by rw [e]; simp⟩

/-- **order**: two PUBLISH requests in a legal history, the first on a channel `S` is subscribed to at that moment,
the second on a channel `S` is subscribed to at that moment: in the log, `S`'s push for the first precedes `S`'s
push for the second -/
theorem publish_order (pre mid post : List Ev) (mode1 mode2 : Mode) (P1 P2 : Nat) (n1 ch1 m1 n2 ch2 m2 : Bytes)
    (cl1 cl2 : List Int) (pk1 pk2 : List (List Bytes)) (S : Nat)
    (hlegal : LegalFrom {} (pre ++ .request mode1 P1 [n1, ch1, m1] cl1 pk1 :: (mid ++ .request mode2 P2 [n2, ch2, m2] cl2 pk2 :: post)))
    (hn1 : commandName n1 = some "publish") (hn2 : commandName n2 = some "publish")
    (htx1 : ((runHistory pre).conn P1).tx = none) (hps1 : ((runHistory pre).conn P1).pubsub = 0)
    (hS1 : IsSub (runHistory pre) false S ch1)
    (htx2 : ((runHistory (pre ++ .request mode1 P1 [n1, ch1, m1] cl1 pk1 :: mid)).conn P2).tx = none)
    (hps2 : ((runHistory (pre ++ .request mode1 P1 [n1, ch1, m1] cl1 pk1 :: mid)).conn P2).pubsub = 0)
    (hS2 : IsSub (runHistory (pre ++ .request mode1 P1 [n1, ch1, m1] cl1 pk1 :: mid)) false S ch2) :
    ∃ A B C, outLog {} (pre ++ .request mode1 P1 [n1, ch1, m1] cl1 pk1 ::
        (mid ++ .request mode2 P2 [n2, ch2, m2] cl2 pk2 :: post)) =
      A ++ (S, chanMsg ch1 m1) :: (B ++ (S, chanMsg ch2 m2) :: C) := by
  obtain ⟨hl1, hl2⟩ := (legalFrom_append _ _ _).1 hlegal
  have hinv1 : PSInv (runHistory pre) := psinv_runHistory pre hl1
  have hopen1 : IsOpen (runHistory pre) P1 := hl2.1
  have hl3 := hl2.2
  obtain ⟨hl4, hl5⟩ := (legalFrom_append _ _ _).1 hl3
  have e2 : runHistory (pre ++ .request mode1 P1 [n1, ch1, m1] cl1 pk1 :: mid) =
      mid.foldl stepEv (stepEv (runHistory pre) (.request mode1 P1 [n1, ch1, m1] cl1 pk1)) := by
    unfold runHistory; rw [List.foldl_append]; rfl
  rw [e2] at htx2 hps2 hS2
  have hinv2 : PSInv (mid.foldl stepEv (stepEv (runHistory pre) (.request mode1 P1 [n1, ch1, m1] cl1 pk1))) :=
    psinv_foldl mid _ (psinv_step _ _ hinv1 hopen1) hl4
  have hopen2 := hl5.1
  obtain ⟨a1, b1, h1⟩ := publish_pushes _ hinv1 mode1 P1 n1 ch1 m1 cl1 pk1 hn1 hopen1 htx1 hps1 S hS1
  obtain ⟨a2, b2, h2⟩ := publish_pushes _ hinv2 mode2 P2 n2 ch2 m2 cl2 pk2 hn2 hopen2 htx2 hps2 S hS2
  have hlog : outLog {} (pre ++ .request mode1 P1 [n1, ch1, m1] cl1 pk1 ::
        (mid ++ .request mode2 P2 [n2, ch2, m2] cl2 pk2 :: post)) =
      outLog {} pre ++ ((stepEv (runHistory pre) (.request mode1 P1 [n1, ch1, m1] cl1 pk1)).out.reverse ++
        (outLog (stepEv (runHistory pre) (.request mode1 P1 [n1, ch1, m1] cl1 pk1)) mid ++
          ((stepEv (mid.foldl stepEv (stepEv (runHistory pre) (.request mode1 P1 [n1, ch1, m1] cl1 pk1)))
              (.request mode2 P2 [n2, ch2, m2] cl2 pk2)).out.reverse ++
            outLog (stepEv (mid.foldl stepEv (stepEv (runHistory pre) (.request mode1 P1 [n1, ch1, m1] cl1 pk1)))
              (.request mode2 P2 [n2, ch2, m2] cl2 pk2)) post))) := by
    rw [outLog_append]
    show _ ++ (_ ++ outLog _ (mid ++ _ :: post)) = _
    rw [outLog_append]
    rfl
  rw [hlog, h1, h2]
  generalize outLog (stepEv (runHistory pre) (.request mode1 P1 [n1, ch1, m1] cl1 pk1)) mid = L1
  generalize outLog (stepEv (mid.foldl stepEv (stepEv (runHistory pre) (.request mode1 P1 [n1, ch1, m1] cl1 pk1)))
              (.request mode2 P2 [n2, ch2, m2] cl2 pk2)) post = L2
  exact ⟨outLog {} pre ++ a1, b1 ++ (L1 ++ a2), b2 ++ L2, by simp only [List.append_assoc, List.cons_append]⟩

/-! ## Part 9: PUBLISH inside MULTI is delivered at EXEC -/

theorem ckey_conn_updConn (s : Sys) (c c' : Nat) (f : Conn → Conn) (hf : ∀ x, ckey (f x) = ckey x) :
    ckey ((s.updConn c f).conn c') = ckey (s.conn c') :=
  Sys.conn_updConn_proj s c c' f ckey (fun x => congrArg (fun k => k.1) (hf x)) hf

theorem closed_conn_updConn (s : Sys) (c c' : Nat) (f : Conn → Conn) (hf : ∀ x, ckey (f x) = ckey x) :
    ((s.updConn c f).conn c').closed = (s.conn c').closed :=
  congrArg (fun k => k.2.1) (ckey_conn_updConn s c c' f hf)

theorem pubsub_conn_updConn (s : Sys) (c c' : Nat) (f : Conn → Conn) (hf : ∀ x, ckey (f x) = ckey x) :
    ((s.updConn c f).conn c').pubsub = (s.conn c').pubsub :=
  congrArg (fun k => k.2.2) (ckey_conn_updConn s c c' f hf)

/-- a command that is queued (MULTI open, not EXEC/DISCARD/MULTI/WATCH, not (P)SUBSCRIBE/(P)UNSUBSCRIBE, right arity): after the clean-up and the
clock refresh it is appended to the queue and `QUEUED` is the only reply -/
theorem process_queued (mode : Mode) (c : Nat) (nameB : Bytes) (args : List Bytes) (s : Sys) (sig : Sig)
    (q : List (String × List Bytes))
    (hsig : lookupSig nameB = some sig) (har : sig.checkArity args.length = true)
    (htx : (s.conn c).tx = some q) (hnq : sig.name ∉ SigTable.notQueued)
    (hnm : sig.name ∉ SigTable.notInMulti) :
    processCommand mode c (nameB :: args) s =
      ((), ((prep s).updConn c fun x => { x with tx := x.tx.map (· ++ [(sig.name, args)]) }).emitS c .queued) := by
  have h : ((s.conn c).tx.isSome && !SigTable.notQueued.contains sig.name) = true := by
    have : SigTable.notQueued.contains sig.name = false := by simpa using hnq
    rw [htx, this]; rfl
  rw [processCommand_known mode c nameB args s hsig, dispatchBody_queued mode c _ sig args _ har h
    (by simpa using hnm)]

/-- (P)SUBSCRIBE / (P)UNSUBSCRIBE with a MULTI open (right arity): after the clean-up and the clock refresh the
transaction is marked failed and the error is the only reply; nothing is queued -/
theorem process_refused (mode : Mode) (c : Nat) (nameB : Bytes) (args : List Bytes) (s : Sys) (sig : Sig)
    (q : List (String × List Bytes))
    (hsig : lookupSig nameB = some sig) (har : sig.checkArity args.length = true)
    (htx : (s.conn c).tx = some q) (hnq : sig.name ∉ SigTable.notQueued)
    (hnm : sig.name ∈ SigTable.notInMulti) :
    processCommand mode c (nameB :: args) s =
      ((), ((prep s).updConn c fun x => { x with txFailed := true }).emitS c
        (.err (strBytes Msgs.COMMAND_IN_MULTI_MSG))) := by
  have h : ((s.conn c).tx.isSome && !SigTable.notQueued.contains sig.name) = true := by
    have : SigTable.notQueued.contains sig.name = false := by simpa using hnq
    rw [htx, this]; rfl
  rw [processCommand_known mode c nameB args s hsig, dispatchBody_refused mode c _ sig args _ har h
    (by simpa using hnm)]

/-- PUBLISH inside MULTI: nothing reaches any subscriber at queue time -/
theorem publish_queued_out (s : Sys) (mode : Mode) (c : Nat) (nameB ch msg : Bytes) (cl : List Int) (pk)
    (q : List (String × List Bytes)) (hname : commandName nameB = some "publish") (htx : (s.conn c).tx = some q) :
    let s' := stepEv s (.request mode c [nameB, ch, msg] cl pk)
    s'.out = (if (s.conn c).closed then [] else [(c, Reply.queued)]) ∧
    s'.srv.subs = (liveSrv s).subs ∧ s'.srv.psubs = (liveSrv s).psubs := by
  intro s'
  have hsig : lookupSig nameB = some sigPublish := by
    rw [lookupSig_of_name _ _ hname (by decide +kernel), find_publish]
  have e : s' = (((prep (s.beginEvent.withHints cl pk)).updConn c
      fun x => { x with tx := x.tx.map (· ++ [(sigPublish.name, [ch, msg])]) }).emitS c .queued) := by
    show (processCommand mode c [nameB, ch, msg] (s.beginEvent.withHints cl pk)).2 = _
    rw [process_queued mode c nameB [ch, msg] (s.beginEvent.withHints cl pk) sigPublish q hsig rfl htx (by decide) (by decide)]
  refine ⟨?_, ?_, ?_⟩
  · rw [e, Sys.emitS_out, Sys.updConn_out, prep_out, closed_conn_updConn _ c c (fun x => { x with tx := x.tx.map (· ++ [(sigPublish.name, [ch, msg])]) }) (fun _ => rfl), prep_closed]
    rfl
  · rw [e, Sys.emitS_srv, Sys.updConn_subs, prep_subs]; rfl
  · rw [e, Sys.emitS_srv, Sys.updConn_psubs, prep_psubs]; rfl

/-! ### EXEC of a queue of PUBLISH commands -/

def pubQueue (pubs : List (Bytes × Bytes)) : List (String × List Bytes) :=
  pubs.map fun p => ("publish", [p.1, p.2])

theorem afterSpecial_publish (d : Nat) (ch msg : Bytes) (s1 : Sys) :
    afterSpecial d [] (do let n ← publish ch msg; okR (.int n) [] : M SpecialOut) s1 =
      (some (.int (publish ch msg s1).1), (publish ch msg s1).2) := rfl

/-- one queued PUBLISH, as EXEC runs it -/
theorem queueStep_publish (mode : Mode) (c : Nat) (ch msg : Bytes) (s : Sys) (hps : (s.conn c).pubsub = 0) :
    queueStep (runInner mode c) c ("publish", [ch, msg]) s =
      (some (.int (deliveries s.srv ch msg).length),
        ({ (s.updConn c fun x => { x with inTx := true }) with
            out := ((deliveries s.srv ch msg).filter fun d => !(s.conn d.1).closed).reverse ++ s.out } : Sys).updConn c
          fun x => { x with inTx := false }) := by
  unfold queueStep
  simp only [find_publish]
  have hne : sigPublish.name ≠ "exec" := by decide
  rw [runInner_eq_runCommand' mode c sigPublish [ch, msg] hne]
  simp only [bind, StateT.bind, modifyConn_run]
  have hp : ((s.updConn c fun x => { x with inTx := true }).conn c).pubsub = 0 := by
    rw [pubsub_conn_updConn _ c c (fun x => { x with inTx := true }) (fun _ => rfl)]; exact hps
  have hg : runGate sigPublish false (decide (((s.updConn c fun x => { x with inTx := true }).conn c).pubsub > 0)) = none := by
    rw [hp]; exact gate_publish_free
  rw [runCommand_bytes mode c sigPublish [ch, msg] _ (by decide) rfl
    (fun db => apply_bytes _ _ _ (by simp [sigPublish]) (.inl rfl) rfl), hg]
  have hn : sigPublish.name = "publish" := rfl
  simp only [List.map_cons, List.map_nil]
  rw [special_publish _ _ _ _ _ _ _ hn, afterSpecial_publish, publish_run]
  simp only [pure, StateT.pure]
  have hcl : ∀ d : Nat × Reply, ((s.updConn c fun x => { x with inTx := true }).conn d.1).closed = (s.conn d.1).closed :=
    fun d => closed_conn_updConn _ c d.1 (fun x => { x with inTx := true }) (fun _ => rfl)
  simp only [hcl]
  rfl

/-- what a run of queued PUBLISH commands leaves -/
structure PubRun (pubs : List (Bytes × Bytes)) (c : Nat) (s s' : Sys) (rs : List (Option Reply)) : Prop where
  replies : rs = pubs.map fun p => some (.int (deliveries s.srv p.1 p.2).length)
  out : s'.out = (pubs.flatMap fun p => (deliveries s.srv p.1 p.2).filter fun d => !(s.conn d.1).closed).reverse ++ s.out
  subs : s'.srv.subs = s.srv.subs
  psubs : s'.srv.psubs = s.srv.psubs
  closed : ∀ c', (s'.conn c').closed = (s.conn c').closed
  pubsub : (s'.conn c).pubsub = (s.conn c).pubsub
  crashed : s'.crashed = s.crashed

theorem runQueue_publishes (mode : Mode) (c : Nat) (pubs : List (Bytes × Bytes)) (s : Sys)
    (hps : (s.conn c).pubsub = 0) :
    PubRun pubs c s (runQueue (runInner mode c) c (pubQueue pubs) s).2 (runQueue (runInner mode c) c (pubQueue pubs) s).1 := by
  induction pubs generalizing s with
  | nil => exact ⟨rfl, rfl, rfl, rfl, fun _ => rfl, rfl, rfl⟩
  | cons p ps ih =>
    show PubRun (p :: ps) c s (runQueue _ c (("publish", [p.1, p.2]) :: pubQueue ps) s).2
      (runQueue _ c (("publish", [p.1, p.2]) :: pubQueue ps) s).1
    rw [runQueue_cons]
    simp only [bind, StateT.bind, queueStep_publish mode c p.1 p.2 s hps, pure, StateT.pure]
    generalize hs1 : (({ (s.updConn c fun x => { x with inTx := true }) with
            out := ((deliveries s.srv p.1 p.2).filter fun d => !(s.conn d.1).closed).reverse ++ s.out } : Sys).updConn c
          fun x => { x with inTx := false }) = s1
    have h_subs : s1.srv.subs = s.srv.subs := by rw [← hs1]; rfl
    have h_psubs : s1.srv.psubs = s.srv.psubs := by rw [← hs1]; rfl
    have h_out : s1.out = ((deliveries s.srv p.1 p.2).filter fun d => !(s.conn d.1).closed).reverse ++ s.out := by
      rw [← hs1]; rfl
    have h_cr : s1.crashed = s.crashed := by rw [← hs1]; rfl
    have h_key : ∀ c', ckey (s1.conn c') = ckey (s.conn c') := by
      intro c'
      rw [← hs1, ckey_conn_updConn _ c c' (fun x => { x with inTx := false }) (fun _ => rfl)]
      show ckey (Sys.conn (s.updConn c fun x => { x with inTx := true }) c') = _
      rw [ckey_conn_updConn _ c c' (fun x => { x with inTx := true }) (fun _ => rfl)]
    have h_closed : ∀ c', (s1.conn c').closed = (s.conn c').closed := fun c' => congrArg (fun k => k.2.1) (h_key c')
    have h_ps : (s1.conn c).pubsub = (s.conn c).pubsub := congrArg (fun k => k.2.2) (h_key c)
    have := ih s1 (by rw [h_ps]; exact hps)
    have hd : ∀ ch m, deliveries s1.srv ch m = deliveries s.srv ch m :=
      fun ch m => deliveries_congr _ _ h_subs h_psubs ch m
    revert this
    generalize runQueue (runInner mode c) c (pubQueue ps) s1 = r
    obtain ⟨r1, r2⟩ := r
    intro this
    simp only at this ⊢
    refine ⟨?_, ?_, ?_, ?_, ?_, ?_, ?_⟩
    · rw [this.replies]; simp only [hd, List.map_cons]
    · rw [this.out, h_out]
      simp only [hd, h_closed, List.flatMap_cons, List.reverse_append, List.append_assoc]
    · rw [this.subs, h_subs]
    · rw [this.psubs, h_psubs]
    · intro c'; rw [this.closed, h_closed]
    · rw [this.pubsub, h_ps]
    · rw [this.crashed, h_cr]

theorem prep_txFailed (s : Sys) (c : Nat) : ((prep s).conn c).txFailed = (s.conn c).txFailed := by
  rcases prep_conn_cases s c with h | h <;> rw [h] <;> rfl

theorem prep_watchNotified (s : Sys) (c : Nat) (h : (s.conn c).watchNotified = false) :
    ((prep s).conn c).watchNotified = false := by
  rcases prep_conn_cases s c with h' | h' <;> rw [h']
  · exact h
  · rfl

theorem any_isNone_map_some {α β} (l : List α) (f : α → β) : (l.map fun p => some (f p)).any Option.isNone = false := by
  induction l with
  | nil => rfl
  | cons a as ih => simp only [List.map_cons, List.any_cons, Option.isNone_some, Bool.false_or, ih]

/-- **EXEC** of a transaction that queued PUBLISH commands only (open client without subscriptions, no aborted
queue, no touched watch), in a state satisfying the table invariant: the deliveries of the queued PUBLISH commands
appear now, in queue order, followed by the array of the delivery counts as the reply to EXEC -/
theorem exec_publishes_out (s : Sys) (hinv : PSInv s) (mode : Mode) (c : Nat) (nameB : Bytes)
    (pubs : List (Bytes × Bytes)) (cl : List Int) (pk : List (List Bytes))
    (hname : commandName nameB = some "exec") (hopen : IsOpen s c)
    (htx : (s.conn c).tx = some (pubQueue pubs)) (hf : (s.conn c).txFailed = false)
    (hw : (s.conn c).watchNotified = false) (hps : (s.conn c).pubsub = 0) :
    (stepEv s (.request mode c [nameB] cl pk)).out.reverse =
      (pubs.flatMap fun p => deliveries (liveSrv s) p.1 p.2) ++
        [(c, .arr (pubs.map fun p => .int (deliveries (liveSrv s) p.1 p.2).length))] := by
  let s0 := s.beginEvent.withHints cl pk
  have hinv0 : PSInv s0 := PSInvV.of_core hinv (hints_core s cl pk)
  have hinv1 : PSInv (prep s0) := psinv_prep s0 hinv0
  have hsig : lookupSig nameB = some sigExec := by
    rw [lookupSig_of_name _ _ hname (by decide +kernel), find_exec]
  have har : sigExec.checkArity ([] : List Bytes).length = true := rfl
  have hq : ((s0.conn c).tx.isSome && !SigTable.notQueued.contains sigExec.name) = false := by
    show ((s.conn c).tx.isSome && _) = false
    rw [htx]; rfl
  have hg : runGate sigExec false (decide (((prep s0).conn c).pubsub > 0)) = none := by
    rw [prep_pubsub]
    show runGate sigExec false (decide ((s.conn c).pubsub > 0)) = none
    rw [hps]; exact gate_exec_free
  show (processCommand mode c [nameB] s0).2.out.reverse = _
  rw [processCommand_known mode c nameB [] s0 hsig, dispatchBody_run' _ _ _ _ _ _ har hq,
    runCommand_bytes mode c sigExec [] (prep s0) (by decide) rfl
      (fun db => apply_bytes _ _ _ (by simp [sigExec]) (.inl rfl) har), hg]
  have hn : sigExec.name = "exec" := rfl
  simp only [List.map_nil]
  rw [special_exec _ _ _ _ _ _ hn]
  have htx1 : ((prep s0).conn c).tx = some (pubQueue pubs) := by rw [prep_tx]; exact htx
  have hf1 : ((prep s0).conn c).txFailed = false := by rw [prep_txFailed]; exact hf
  have hw1 : ((prep s0).conn c).watchNotified = false := prep_watchNotified s0 c hw
  rw [afterSpecial_congr _ _ _ _ _ (execCmd_eq_sequential (runInner mode c) [] htx1 hf1 hw1)]
  unfold afterSpecial
  simp only [bind, StateT.bind, modifyConn_run, clearWatches_run]
  generalize hsa : (((prep s0).updConn c fun x => { x with tx := none, txFailed := false }).updConn c
      fun x => { x with watchNotified := false, watches := [] }) = sa
  have hkey : ∀ c', ckey (sa.conn c') = ckey ((prep s0).conn c') := by
    intro c'
    rw [← hsa, ckey_conn_updConn _ c c' (fun x => { x with watchNotified := false, watches := [] }) (fun _ => rfl),
      ckey_conn_updConn _ c c' (fun x => { x with tx := none, txFailed := false }) (fun _ => rfl)]
  have hsa_ps : (sa.conn c).pubsub = 0 := by
    have := congrArg (fun k => k.2.2) (hkey c)
    simp only [ckey] at this
    rw [this, prep_pubsub]; exact hps
  have hsa_subs : sa.srv.subs = (prep s0).srv.subs := by rw [← hsa]; rfl
  have hsa_psubs : sa.srv.psubs = (prep s0).srv.psubs := by rw [← hsa]; rfl
  have hsa_out : sa.out = [] := by rw [← hsa]; exact prep_out s0
  have hsa_closed : ∀ c', (sa.conn c').closed = ((prep s0).conn c').closed :=
    fun c' => congrArg (fun k => k.2.1) (hkey c')
  have hrun := runQueue_publishes mode c pubs sa hsa_ps
  revert hrun
  generalize runQueue (runInner mode c) c (pubQueue pubs) sa = r
  obtain ⟨rs, sb⟩ := r
  intro hrun
  simp only at hrun ⊢
  have hany : rs.any Option.isNone = false := by rw [hrun.replies]; exact any_isNone_map_some _ _
  simp only [hany, Bool.false_eq_true, if_false, okR, pure, StateT.pure, StateT.bind, writebackAll_nil]
  show (finish c (sb.emitS c (Reply.arr (rs.map fun r => r.getD .nil)))).out.reverse = _
  rw [finish_out, Sys.emitS_out]
  have hcl : (sb.conn c).closed = false := by
    rw [hrun.closed, hsa_closed, prep_closed]; exact hopen.2
  rw [hcl]
  simp only [Bool.false_eq_true, if_false]
  have hd : ∀ ch m, deliveries sa.srv ch m = deliveries (liveSrv s) ch m := by
    intro ch m
    rw [deliveries_congr _ _ hsa_subs hsa_psubs]
    exact deliveries_congr _ _ (prep_subs s0) (prep_psubs s0) ch m
  have hfil : ∀ ch m, (deliveries sa.srv ch m).filter (fun d => !(sa.conn d.1).closed) = deliveries sa.srv ch m := by
    intro ch m
    rw [List.filter_eq_self]
    intro d hd'
    rw [hsa_closed]
    rw [deliveries_congr _ _ hsa_subs hsa_psubs] at hd'
    have := listed_open (prep s0) hinv1 (prep_closedSockets s0) ch m d.1 d.2 hd'
    rw [this]; rfl
  rw [hrun.out, hsa_out, hrun.replies]
  simp only [hfil]
  simp only [hd, List.append_nil, List.reverse_cons, List.reverse_reverse, List.map_map, Function.comp_def,
    Option.getD_some]


/-! ## Part 10: decidability of the side conditions (for concrete histories), small facts for the property file -/

instance (s : Sys) (c : Nat) : Decidable (s.HasConn c) := by unfold Sys.HasConn; infer_instance
instance (s : Sys) (c : Nat) : Decidable (IsOpen s c) := by unfold IsOpen; infer_instance

instance (s : Sys) (e : Ev) : Decidable (Legal s e) := by
  cases e <;> unfold Legal <;> infer_instance

instance decLegalFrom : (s : Sys) → (evs : List Ev) → Decidable (LegalFrom s evs)
  | _, [] => isTrue trivial
  | s, e :: es =>
    have := decLegalFrom (stepEv s e) es
    by unfold LegalFrom; infer_instance

instance (fields : List Bytes) : Decidable (∀ sig, reqSig fields = some sig → sig.name ∉ scriptNames) :=
  match reqSig fields with
  | none => isTrue (fun sig hs => by cases hs)
  | some sig0 =>
    if h' : sig0.name ∈ scriptNames then isFalse (fun hall => hall sig0 rfl h')
    else isTrue (fun sig hs => by cases hs; exact h')

instance (c : Nat) (s : Sys) (e : Ev) : Decidable (QuietEv c s e) := by
  cases e <;> unfold QuietEv <;> infer_instance

instance decQuietFrom (c : Nat) : (s : Sys) → (evs : List Ev) → Decidable (QuietFrom c s evs)
  | _, [] => isTrue trivial
  | s, e :: es =>
    have := decQuietFrom c (stepEv s e) es
    by unfold QuietFrom; infer_instance

instance (s : Sys) (q : Bool) (c : Nat) (m : Bytes) : Decidable (IsSub s q c m) :=
  decidable_of_iff _ (sub_def s q c m).symm

/-- (P)UNSUBSCRIBE never leaves an empty subscriber list behind: an entry that becomes empty is removed -/
theorem unsubscribe_no_new_empty (t : Tbl) (n : Bytes) (c : Nat) (p : Bytes × List Nat)
    (hp : p ∈ (tblUnsubscribe t n c).1) (he : p.2 = []) : p ∈ t := by
  cases hl : t.lookup n with
  | none => rw [tblUnsubscribe_none t n c hl] at hp; exact hp
  | some cs =>
    cases hc : cs.contains c with
    | false => rw [tblUnsubscribe_absent t n c cs hl hc] at hp; exact hp
    | true =>
      cases hemp : (cs.filter (· != c)).isEmpty with
      | true =>
        rw [tblUnsubscribe_last t n c cs hl hc hemp] at hp
        exact (List.mem_filter.1 hp).1
      | false =>
        rw [tblUnsubscribe_more t n c cs hl hc hemp] at hp
        simp only [upd, List.mem_map] at hp
        obtain ⟨q, hq, rfl⟩ := hp
        by_cases hqn : (q.1 == n) = true
        · rw [if_pos hqn] at he
          simp only at he
          rw [he] at hemp; cases hemp
        · rw [if_neg hqn]; exact hq

/-- (P)SUBSCRIBE never creates an empty subscriber list -/
theorem subscribe_no_new_empty (t : Tbl) (n : Bytes) (c : Nat) (p : Bytes × List Nat)
    (hp : p ∈ (tblSubscribe t n c).1) (he : p.2 = []) : p ∈ t := by
  cases hl : t.lookup n with
  | none =>
    rw [tblSubscribe_none t n c hl] at hp
    rcases List.mem_append.1 hp with h | h
    · exact h
    · simp only [List.mem_singleton] at h; subst h; cases he
  | some cs =>
    cases hc : cs.contains c with
    | true => rw [tblSubscribe_some_old t n c cs hl hc] at hp; exact hp
    | false =>
      rw [tblSubscribe_some_new t n c cs hl hc] at hp
      simp only [upd, List.mem_map] at hp
      obtain ⟨q, hq, rfl⟩ := hp
      by_cases hqn : (q.1 == n) = true
      · rw [if_pos hqn] at he
        simp at he
      · rw [if_neg hqn]; exact hq

/-- the table invariant, read on the state -/
theorem psinv_unpack {s : Sys} (h : PSInv s) :
    (TblOK s.srv.subs ∧ TblOK s.srv.psubs) ∧
    (s.srv.conns.map (·.id)).Nodup ∧
    (∀ e, e ∈ s.srv.subs ∨ e ∈ s.srv.psubs → ∀ c ∈ e.2, s.HasConn c ∧ ((s.conn c).closed = true → c ∈ s.srv.closedSockets)) ∧
    (∀ c, IsOpen s c → (s.conn c).pubsub = cnt s.srv.subs c + cnt s.srv.psubs c) ∧
    (∀ c ∈ s.srv.closedSockets, s.HasConn c ∧ (s.conn c).closed = true) := by
  refine ⟨⟨h.tblOK false, h.tblOK true⟩, ids_nodup_of_psinv h, ?_, ?_, ?_⟩
  · intro e he c hc
    have : ∃ k ∈ (view s).conns, k.1 = c ∧ (k.2.1 = true → c ∈ (view s).closedSockets) := by
      rcases he with he | he
      · exact h.listed false e he c hc
      · exact h.listed true e he c hc
    obtain ⟨k, hk, h1, h2⟩ := this
    obtain ⟨hc1, hck⟩ := ckey_conn_of_view h hk
    rw [h1] at hc1 hck
    refine ⟨hc1, fun hcl => h2 ?_⟩
    have : (ckey (s.conn c)).2.1 = k.2.1 := by rw [hck]
    rw [← this]; exact hcl
  · intro c hc
    have hm := conn_mem_of_hasConn hc.1
    have := h.count (ckey (s.conn c)) (List.mem_map_of_mem hm) hc.2
    simp only [ckey, Sys.conn_id] at this
    exact this
  · intro c hc
    obtain ⟨k, hk, h1, h2⟩ := h.pending c hc
    obtain ⟨hc1, hck⟩ := ckey_conn_of_view h hk
    rw [h1] at hc1 hck
    refine ⟨hc1, ?_⟩
    have : (ckey (s.conn c)).2.1 = k.2.1 := by rw [hck]
    exact this.trans h2

end FR.PubSubHist
