import FR
import FR.Proofs.Basic
/-! # Helper lemmas and declarative specifications for the list commands (C02) -/
namespace FR.Spec

/-- Redis index normalisation: negative indices count from the end. -/
def norm (i : Int) (len : Nat) : Int := if i < 0 then i + len else i

/-- Declarative LRANGE: the elements whose index lies in the normalised closed window. -/
def lrangeSpec {α} (l : List α) (start stop : Int) : List α :=
  (List.range l.length).filterMap fun (i : Nat) =>
    if norm start l.length ≤ (i : Int) ∧ (i : Int) ≤ norm stop l.length then l[i]? else none

end FR.Spec

namespace FR.Proofs
open FR FR.Spec

theorem ite_none_congr {α} {p q : Prop} [Decidable p] [Decidable q] (h : p ↔ q) (x : Option α) :
    (if p then x else none) = (if q then x else none) := by
  by_cases hp : p
  · rw [if_pos hp, if_pos (h.mp hp)]
  · rw [if_neg hp, if_neg (fun hq => hp (h.mpr hq))]

/-- window lemma on naturals -/
theorem window_nat {α} (l : List α) (a b : Nat) :
    (List.range l.length).filterMap (fun i => if a ≤ i ∧ i < b then l[i]? else none)
      = (l.drop a).take (b - a) := by
  induction l generalizing a b with
  | nil => simp
  | cons x xs ih =>
    rw [List.length_cons, List.range_succ_eq_map, List.filterMap_cons, List.filterMap_map]
    cases a with
    | zero =>
      cases b with
      | zero =>
        simp
      | succ b =>
        have := ih 0 b
        simp only [Nat.zero_le, true_and, Nat.sub_zero, List.drop_zero] at this
        simp only [Nat.zero_le, true_and, Nat.zero_lt_succ, if_true, List.getElem?_cons_zero,
          List.drop_zero, Nat.sub_zero, List.take_succ_cons, Function.comp_def,
          Nat.succ_lt_succ_iff, List.getElem?_cons_succ]
        rw [this]
    | succ a =>
      have := ih a (b - 1)
      have h0 : ¬ (a + 1 ≤ 0 ∧ 0 < b) := by omega
      simp only [h0, if_false, List.drop_succ_cons, Function.comp_def, List.getElem?_cons_succ]
      have e : b - (a + 1) = b - 1 - a := by omega
      rw [e, ← this]
      apply filterMap_congr'
      intro i _
      apply ite_none_congr
      omega

/-- any decidable index window that agrees with `[s, e)` below `l.length` is the drop/take window -/
theorem window_of_iff {α} (l : List α) (s e : Nat) (p : Nat → Prop) [DecidablePred p]
    (h : ∀ i, i < l.length → (p i ↔ (s ≤ i ∧ i < e))) :
    (List.range l.length).filterMap (fun i => if p i then l[i]? else none)
      = (l.drop s).take (e - s) := by
  rw [← window_nat]
  apply filterMap_congr'
  intro i hi
  exact ite_none_congr (h i (List.mem_range.mp hi)) _

theorem slice_eq_window {α} (l : List α) (x y : Int) (p : Nat → Prop) [DecidablePred p]
    (h : ∀ i, i < l.length → (p i ↔ (Py.adj x l.length ≤ i ∧ i < Py.adj y l.length))) :
    Py.slice l x y = (List.range l.length).filterMap (fun i => if p i then l[i]? else none) := by
  rw [window_of_iff l _ _ p h]; rfl

theorem lrange_eq_spec {α} (l : List α) (a b : Int) :
    (let (x, y) := fixRange a b l.length; Py.slice l x y) = lrangeSpec l a b := by
  show Py.slice l (fixRange a b l.length).1 (fixRange a b l.length).2 = _
  unfold lrangeSpec
  apply slice_eq_window
  intro i hi
  simp only [fixRange, norm, Py.adj]
  repeat' split
  all_goals omega

/-- the list LTRIM keeps -/
def ltrimKeep {α} (l : List α) (s e : Int) : List α :=
  if e == -1 then Py.sliceFrom l s else Py.slice l s (e + 1)

theorem sliceFrom_eq_window {α} (l : List α) (x : Int) (p : Nat → Prop) [DecidablePred p]
    (h : ∀ i, i < l.length → (p i ↔ Py.adj x l.length ≤ i)) :
    Py.sliceFrom l x = (List.range l.length).filterMap (fun i => if p i then l[i]? else none) := by
  rw [window_of_iff l (Py.adj x l.length) l.length p (by intro i hi; rw [h i hi]; omega)]
  unfold Py.sliceFrom
  rw [List.take_of_length_le (by simp)]

theorem ltrim_eq_spec {α} (l : List α) (s e : Int) :
    (if e == -1 then Py.sliceFrom l s else Py.slice l s (e + 1)) = lrangeSpec l s e := by
  unfold lrangeSpec
  split
  next h =>
    have h : e = -1 := by simpa using h
    subst h
    apply sliceFrom_eq_window
    intro i hi
    simp only [norm, Py.adj]
    repeat' split
    all_goals omega
  next h =>
    have h : e ≠ -1 := by simpa using h
    apply slice_eq_window
    intro i hi
    simp only [norm, Py.adj]
    repeat' split
    all_goals omega

/-- the body of LTRIM stores exactly `lrangeSpec` (or leaves the item alone when nothing is cut) -/
theorem ltrim_body (ctx : Ctx) (cis : List CI) (k : Nat) (s e : Int) :
    Cmd.ltrim ctx [.key k, .int s, .int e] cis =
      (let c := ciAt cis k
       if !c.truthy then ret .ok cis
       else
         let nv := lrangeSpec (Cmd.listOf c) s e
         if nv.length != (Cmd.listOf c).length then ret .ok (cis.set k (c.update (.list nv)))
         else ret .ok cis) := by
  simp only [Cmd.ltrim, ltrim_eq_spec]

theorem lrange_body (ctx : Ctx) (cis : List CI) (k : Nat) (s e : Int) :
    Cmd.lrange ctx [.key k, .int s, .int e] cis =
      ret (Reply.bulks (lrangeSpec (Cmd.listOf (ciAt cis k)) s e)) cis := by
  have := lrange_eq_spec (Cmd.listOf (ciAt cis k)) s e
  simp only [Cmd.lrange]
  rw [← this]

/-! ## LINDEX / LSET -/

theorem lindex_spec {α} (l : List α) (i : Int) :
    Py.index? l i = (if 0 ≤ norm i l.length then l[(norm i l.length).toNat]? else none) := by
  unfold Py.index? norm
  repeat' split
  all_goals first | rfl | (exfalso; omega) | skip
  all_goals simp_all

theorem lset_spec {α} (l : List α) (i : Int) (v : α) :
    Py.setIndex? l i v =
      (if 0 ≤ norm i l.length ∧ norm i l.length < l.length
       then some (l.set (norm i l.length).toNat v) else none) := by
  unfold Py.setIndex? norm
  repeat' split
  all_goals first | rfl | (exfalso; omega) | skip

/-- pointwise reading of a successful LSET -/
theorem lset_some {α} (l l' : List α) (i : Int) (v : α) (h : Py.setIndex? l i v = some l') :
    0 ≤ norm i l.length ∧ norm i l.length < l.length ∧ l'.length = l.length ∧
    l'[(norm i l.length).toNat]? = some v ∧
    ∀ j : Nat, j ≠ (norm i l.length).toNat → l'[j]? = l[j]? := by
  rw [lset_spec] at h
  split at h
  next hr =>
    have h := Option.some.inj h
    subst h
    refine ⟨hr.1, hr.2, by simp, ?_, ?_⟩
    · rw [List.getElem?_set_self (by omega)]
    · intro j hj
      rw [List.getElem?_set_ne (by omega)]
  next => cases h

theorem lset_none_iff {α} (l : List α) (i : Int) (v : α) :
    Py.setIndex? l i v = none ↔ ¬ (0 ≤ norm i l.length ∧ norm i l.length < l.length) := by
  rw [lset_spec]
  split <;> simp_all

/-! ## pops -/

theorem popLeftN_eq (l : List Bytes) (n : Nat) : Cmd.popLeftN l n = (l.take n, l.drop n) := rfl

theorem popLeftN_conserve (l : List Bytes) (n : Nat) :
    (Cmd.popLeftN l n).1 ++ (Cmd.popLeftN l n).2 = l := by
  simp [Cmd.popLeftN]

theorem popLeftN_length (l : List Bytes) (n : Nat) :
    (Cmd.popLeftN l n).1.length = min n l.length ∧
    (Cmd.popLeftN l n).1.length + (Cmd.popLeftN l n).2.length = l.length := by
  simp only [Cmd.popLeftN, List.length_take, List.length_drop]
  refine ⟨trivial, ?_⟩
  omega

theorem popRightN_popped (l : List Bytes) (n : Nat) :
    (Cmd.popRightN l n).1 = l.reverse.take n := by
  simp only [Cmd.popRightN]
  rw [List.reverse_drop, List.take_eq_take_iff, List.length_reverse]
  omega

theorem popRightN_conserve (l : List Bytes) (n : Nat) :
    (Cmd.popRightN l n).2 ++ (Cmd.popRightN l n).1.reverse = l := by
  simp [Cmd.popRightN]

theorem popRightN_length (l : List Bytes) (n : Nat) :
    (Cmd.popRightN l n).1.length = min n l.length ∧
    (Cmd.popRightN l n).1.length + (Cmd.popRightN l n).2.length = l.length := by
  simp only [Cmd.popRightN, List.length_take, List.length_drop, List.length_reverse]
  omega

/-! ## RPOPLPUSH on one key rotates -/

theorem ciAt_set_self (cis : List CI) (k : Nat) (c : CI) (h : k < cis.length) :
    ciAt (cis.set k c) k = c := by
  simp [ciAt, List.getD, List.getElem?_set_self h]

theorem ciAt_set_ne (cis : List CI) (k j : Nat) (c : CI) (h : k ≠ j) :
    ciAt (cis.set k c) j = ciAt cis j := by
  simp [ciAt, List.getD, List.getElem?_set_ne h]

theorem listOf_setList_self (cis : List CI) (k : Nat) (l : List Bytes) (h : k < cis.length) :
    Cmd.listOf (ciAt (Cmd.setList cis k l) k) = l := by
  unfold Cmd.setList
  rw [ciAt_set_self _ _ _ h]
  rfl

theorem listOf_setList_setList (cis : List CI) (s d : Nat) (l : List Bytes)
    (hs : s < cis.length) (hd : d < cis.length) :
    Cmd.listOf (ciAt (Cmd.setList (Cmd.setList cis s l) d l) s) = l ∧
    Cmd.listOf (ciAt (Cmd.setList (Cmd.setList cis s l) d l) d) = l := by
  refine ⟨?_, listOf_setList_self _ _ _ (by simpa [Cmd.setList] using hd)⟩
  by_cases hsd : s = d
  · subst hsd
    exact listOf_setList_self _ _ _ (by simpa [Cmd.setList] using hd)
  · have : ciAt (Cmd.setList (Cmd.setList cis s l) d l) s = ciAt (Cmd.setList cis s l) s := by
      exact ciAt_set_ne _ _ _ _ (Ne.symm hsd)
    rw [this]
    exact listOf_setList_self _ _ _ hs

theorem rpoplpush_same_key_rotates (cis : List CI) (s d : Nat) (l : List Bytes)
    (hkey : (ciAt cis s).key = (ciAt cis d).key) (hl : Cmd.listOf (ciAt cis s) = l) (hne : l ≠ []) :
    Cmd.moveCore cis s d false true =
      .ok { reply := .bulk (l.getLast hne),
            cis := Cmd.setList (Cmd.setList cis s (l.getLast hne :: l.dropLast)) d
                     (l.getLast hne :: l.dropLast) } := by
  unfold Cmd.moveCore
  simp only [hl, Cmd.popRightN, Bool.false_eq_true, if_false, hkey, beq_self_eq_true, if_true]
  have hh : (l.drop (l.length - 1)).reverse.head? = some (l.getLast hne) := by
    rw [List.head?_reverse, List.getLast?_drop]
    have : 0 < l.length := List.length_pos_iff.mpr hne
    rw [if_neg (by omega), List.getLast?_eq_some_getLast hne]
  rw [hh]
  simp only [List.dropLast_eq_take]
  rfl

theorem rpoplpush_body (ctx : Ctx) (cis : List CI) (s d : Nat) :
    Cmd.rpoplpush ctx [.key s, .key d] cis = Cmd.moveCore cis s d false true := rfl

/-- LPOP/RPOP with a COUNT on a stored (non-empty) list -/
theorem listPop_count_body (left : Bool) (ctx : Ctx) (cis : List CI) (k : Nat) (n : Int)
    (l : List Bytes) (hv : (ciAt cis k).val = some (.list l)) (hne : l ≠ [])
    (hn : 0 ≤ n) (hver : ¬ (n = 0 ∧ ctx.version = 6)) :
    Cmd.listPop left ctx [.key k, .int n] cis =
      (let pr := if left then Cmd.popLeftN l n.toNat else Cmd.popRightN l n.toNat
       ret (Reply.bulks pr.1) (Cmd.setList cis k pr.2)) := by
  have ht : (ciAt cis k).truthy = true := by
    unfold CI.truthy
    rw [hv]
    cases l with
    | nil => exact absurd rfl hne
    | cons x xs => rfl
  simp only [Cmd.listPop, List.filterMap_cons, List.filterMap_nil, List.length_cons, List.length_nil]
  rw [if_neg (by omega), if_neg (by omega)]
  have : ¬ ((n == 0 && ctx.version == 6) = true) := by
    simpa using fun h => by simpa [h] using hver
  rw [if_neg this]
  simp only [ht, hv, Bool.not_true, Bool.false_eq_true, if_false]

/-- LPOP/RPOP without COUNT on a stored (non-empty) list -/
theorem listPop_single_body (left : Bool) (ctx : Ctx) (cis : List CI) (k : Nat)
    (l : List Bytes) (hv : (ciAt cis k).val = some (.list l)) (hne : l ≠ []) :
    Cmd.listPop left ctx [.key k] cis =
      (let pr := if left then Cmd.popLeftN l 1 else Cmd.popRightN l 1
       ret (Reply.ofOptBulk pr.1.head?) (Cmd.setList cis k pr.2)) := by
  have ht : (ciAt cis k).truthy = true := by
    unfold CI.truthy
    rw [hv]
    cases l with
    | nil => exact absurd rfl hne
    | cons x xs => rfl
  simp only [Cmd.listPop, List.filterMap_nil, List.length_nil]
  rw [if_neg (by omega)]
  simp only [ht, hv, Bool.not_true, Bool.false_eq_true, if_false]
  cases left <;> rfl

end FR.Proofs
