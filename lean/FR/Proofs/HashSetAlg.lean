import FR.Proofs.Blocking
import FR.Proofs.ZSet
import FR.Proofs.Sets
/-!
# Hashes and sets: refinement of the command bodies (run through `runRegular` with their real
signatures) to finite maps / membership predicates — helper lemmas for `FR.Props.C02h`

Part 1: `Signature.apply` as a pure function of the *live view* `db.live`.
Part 2: the generic runner on the live view.
Part 3: list-level algebra of the hash bodies.  Part 4: of the set bodies.
Part 5: per-command run lemmas.
-/
namespace FR.HashSet
open FR Db
set_option linter.unusedSimpArgs false
set_option linter.unusedVariables false

/-! ## Part 1: `Signature.apply` on the live view -/

abbrev Live := Bytes → Option Item

/-- the `CommandItem` that `Signature.apply` builds for key `k` of declared type `ty` -/
def ciOf (live : Live) (ty : Option Ty) (k : Bytes) : CI :=
  match live k with
  | some it => ⟨k, some it.value, it.expireat, false, false⟩
  | none => ⟨k, ty.bind Ty.default, none, false, false⟩

/-- the stored type is acceptable for the declared type -/
def typeOK (live : Live) (ty : Option Ty) (k : Bytes) : Bool :=
  match ty, live k with
  | some ty, some it => it.value.ty == ty
  | _, _ => true

def p1 (live : Live) : List (Bytes × ArgTy) → List Arg → Except Err (Sum Reply (List Arg))
  | [], acc => .ok (.inr acc.reverse)
  | (b, t) :: rest, acc =>
    match t with
    | .key _ mr =>
      if mr != .unspecified then
        match live b with
        | none => .ok (.inl (Sig.missingReply mr))
        | some _ => p1 live rest (.raw b :: acc)
      else p1 live rest (.raw b :: acc)
    | _ =>
      match Conv.decode t b with
      | .error e => .error e
      | .ok a => p1 live rest (a :: acc)

def p2 (live : Live) : List (Arg × ArgTy) → List Arg → List CI → Except Err (List Arg × List CI)
  | [], accA, accC => .ok (accA.reverse, accC.reverse)
  | (a, t) :: rest, accA, accC =>
    match t, a with
    | .key ty _, .raw k =>
      if typeOK live ty k then p2 live rest (.key accC.length :: accA) (ciOf live ty k :: accC)
      else .error Msgs.WRONGTYPE_MSG
    | _, _ => p2 live rest (a :: accA) accC

/-- `Signature.apply` with the converter list made explicit -/
def applyT (tys : List ArgTy) (raw : List Bytes) (live : Live) : Except Err Sig.Applied :=
  match p1 live (raw.zip tys) [] with
  | .error e => .error e
  | .ok (.inl r) => .ok (.short r)
  | .ok (.inr args) =>
    match p2 live (args.zip tys) [] [] with
    | .error e => .error e
    | .ok (a, c) => .ok (.ok a c)

def applyL (s : Sig) (raw : List Bytes) (live : Live) : Except Err Sig.Applied :=
  if !s.checkArity raw.length then .error s.wrongArgs
  else if !s.rep.isEmpty && (raw.length - s.fixed.length) % s.rep.length != 0 then .error s.wrongArgs
  else applyT (s.types raw.length) raw live

theorem get_result_live {db : Db} (nd : NodupKeys db.dict) (k : Bytes) : (db.get k).2 = db.live k :=
  get_result k nd

theorem live_funext_get {db : Db} (nd : NodupKeys db.dict) (k : Bytes) : (db.get k).1.live = db.live :=
  funext fun k' => live_get nd k k'

theorem pass1_eq (l : List (Bytes × ArgTy)) {db : Db} (nd : NodupKeys db.dict) (acc : List Arg) :
    (Sig.pass1 db l acc).2 = p1 db.live l acc := by
  induction l generalizing db acc with
  | nil => rfl
  | cons x rest ih =>
    obtain ⟨b, t⟩ := x
    cases t
    case key ty mr =>
      simp only [Sig.pass1, p1]
      split
      · have hr := get_result_live nd b
        have hl := live_funext_get nd b
        have hn := get_nodup b nd
        revert hr hl hn
        generalize db.get b = g
        obtain ⟨db', it⟩ := g
        simp only
        intro hr hl hn
        rw [← hr]
        cases it with
        | none => rfl
        | some it => simp only; rw [ih hn, hl]
      · exact ih nd _
    all_goals
      simp only [Sig.pass1, p1]
      generalize Conv.decode _ b = dc
      cases dc with
      | error e => rfl
      | ok a => exact ih nd _

theorem pass2_eq (l : List (Arg × ArgTy)) {db : Db} (nd : NodupKeys db.dict) (accA : List Arg)
    (accC : List CI) : (Sig.pass2 db l accA accC).2 = p2 db.live l accA accC := by
  induction l generalizing db accA accC with
  | nil => rfl
  | cons x rest ih =>
    obtain ⟨a, t⟩ := x
    unfold Sig.pass2 p2
    split
    · rename_i ty mr k
      have hr := get_result_live nd k
      have hl := live_funext_get nd k
      have hn := get_nodup k nd
      revert hr hl hn
      generalize db.get k = g
      obtain ⟨db', item⟩ := g
      simp only
      intro hr hl hn
      have hr' : db.live k = item := hr.symm
      simp only [typeOK, ciOf, hr']
      cases ty with
      | none =>
        cases item with
        | none => simp only [if_true]; rw [ih hn, hl]; rfl
        | some it => simp only [if_true]; rw [ih hn, hl]
      | some ty =>
        cases item with
        | none => simp only [if_true]; rw [ih hn, hl]; rfl
        | some it =>
          simp only
          by_cases hty : it.value.ty = ty
          · simp only [hty, bne_self_eq_false, Bool.false_eq_true, if_false, beq_self_eq_true, if_true]
            rw [ih hn, hl]
          · have h1 : (it.value.ty != ty) = true := by simpa using hty
            have h2 : (it.value.ty == ty) = false := by simpa using hty
            simp only [h1, h2, if_true, Bool.false_eq_true, if_false]
    · rw [ih nd]
      split
      · rename_i hneg; exact (hneg _ _ _ rfl rfl).elim
      · rfl

theorem apply_eq (s : Sig) (raw : List Bytes) {db : Db} (nd : NodupKeys db.dict) :
    (s.apply raw db).2 = applyL s raw db.live := by
  unfold Sig.apply applyL
  split
  · rfl
  · split
    · rfl
    · simp only [applyT]
      have h1 := pass1_eq (raw.zip (s.types raw.length)) nd []
      have r1 := Sig.pass1_reads (raw.zip (s.types raw.length)) nd []
      revert h1 r1
      generalize Sig.pass1 db (raw.zip (s.types raw.length)) [] = g
      obtain ⟨db1, x⟩ := g
      simp only
      intro h1 r1
      rw [← h1]
      cases x with
      | error e => rfl
      | ok sm =>
        cases sm with
        | inl r => rfl
        | inr args =>
          simp only
          have h2 := pass2_eq (args.zip (s.types raw.length)) r1.nd [] []
          have hl : db1.live = db.live := funext fun k => live_eq_of_purge r1.eq k
          rw [hl] at h2
          revert h2
          generalize Sig.pass2 db1 (args.zip (s.types raw.length)) [] [] = g2
          obtain ⟨db2, y⟩ := g2
          simp only
          intro h2
          rw [← h2]
          cases y with
          | error e => rfl
          | ok pr => rfl

/-! ### shape lemmas -/

theorem types_eq (s : Sig) (n : Nat) (a : ArgTy) (h : ∀ t ∈ s.rep, t = a) (h0 : s.rep = [] → a = .bytes) :
    s.types n = s.fixed ++ List.replicate (n - s.fixed.length) a := by
  unfold Sig.types
  congr 1
  rw [List.eq_replicate_iff]
  refine ⟨by simp, fun t ht => ?_⟩
  obtain ⟨i, _, rfl⟩ := List.mem_map.1 ht
  by_cases hr : s.rep = []
  · rw [hr, h0 hr]; rfl
  · have hl : 0 < s.rep.length := List.length_pos_iff.2 hr
    have hi : i % s.rep.length < s.rep.length := Nat.mod_lt _ hl
    rw [List.getD_eq_getElem?_getD, List.getElem?_eq_getElem hi]
    exact h _ (List.getElem_mem hi)

def plain : ArgTy → Bool
  | .bytes => true
  | .sstr => true
  | .key _ .unspecified => true
  | _ => false

theorem p1_plain (live : Live) (xs : List Bytes) (tys : List ArgTy) (h : ∀ t ∈ tys, plain t = true)
    (acc : List Arg) : p1 live (xs.zip tys) acc = .ok (.inr (acc.reverse ++ (xs.take tys.length).map .raw)) := by
  induction xs generalizing tys acc with
  | nil => simp [p1]
  | cons x xs ih =>
    cases tys with
    | nil => simp [p1]
    | cons t ts =>
      have ht := h t (by simp)
      have hts : ∀ t ∈ ts, plain t = true := fun t' h' => h t' (by simp [h'])
      simp only [List.zip_cons_cons, List.length_cons, List.take_succ_cons, List.map_cons]
      cases t with
      | bytes => simp only [p1, Conv.decode]; rw [ih ts hts]; simp
      | sstr => simp only [p1, Conv.decode]; rw [ih ts hts]; simp
      | key ty mr =>
        cases mr with
        | unspecified =>
          simp only [p1, bne_self_eq_false, Bool.false_eq_true, if_false]; rw [ih ts hts]; simp
        | nil => simp [plain] at ht
        | int n => simp [plain] at ht
      | _ => simp [plain] at ht

theorem zip_map_replicate {α β γ} (f : α → β) (a : γ) (xs : List α) (n : Nat) (h : xs.length ≤ n) :
    (xs.map f).zip (List.replicate n a) = xs.map (fun x => (f x, a)) := by
  induction xs generalizing n with
  | nil => simp
  | cons x xs ih =>
    cases n with
    | zero => simp at h
    | succ n =>
      simp only [List.map_cons, List.replicate_succ, List.zip_cons_cons]
      rw [ih n (by simpa using h)]

theorem p2_bytes (live : Live) (xs : List Bytes) (accA : List Arg) (accC : List CI) :
    p2 live (xs.map (fun x => (Arg.raw x, ArgTy.bytes))) accA accC =
      .ok (accA.reverse ++ xs.map .raw, accC.reverse) := by
  induction xs generalizing accA with
  | nil => simp [p2]
  | cons x xs ih => simp only [List.map_cons, p2]; rw [ih]; simp

theorem p2_keys (live : Live) (ty : Option Ty) (mr : MissingRet) (ks : List Bytes)
    (rest : List (Arg × ArgTy)) (accA : List Arg) (accC : List CI) :
    p2 live (ks.map (fun k => (Arg.raw k, ArgTy.key ty mr)) ++ rest) accA accC =
      if ks.all (typeOK live ty) = true then
        p2 live rest (((List.range' accC.length ks.length).map Arg.key).reverse ++ accA)
          ((ks.map (ciOf live ty)).reverse ++ accC)
      else .error Msgs.WRONGTYPE_MSG := by
  induction ks generalizing accA accC with
  | nil => simp
  | cons k ks ih =>
    simp only [List.map_cons, List.cons_append, p2, List.all_cons]
    by_cases hk : typeOK live ty k = true
    · simp only [hk, if_true, Bool.true_and]
      rw [ih]
      simp only [List.length_cons, List.range'_succ, List.map_cons, List.reverse_cons, List.append_assoc,
        List.singleton_append]
    · simp [hk]

/-! ## Part 2: the runner on the live view -/

/-- a deadline that has not passed at clock `time` -/
def notExp (time : Int) (e : Option Int) : Prop := ∀ t, e = some t → ¬ t < time

theorem expired_false_of_notExp {db : Db} {v : Value} {e : Option Int} (h : notExp db.time e) :
    db.expired ⟨v, e⟩ = false := by
  unfold Db.expired
  cases e with
  | none => rfl
  | some t => simpa using h t rfl

theorem notExp_of_live {db : Db} (nd : NodupKeys db.dict) {k : Bytes} {it : Item} (h : db.live k = some it) :
    notExp db.time it.expireat := by
  have := live_some_not_expired nd h
  unfold Db.expired at this
  intro t ht
  rw [ht] at this
  simpa using this

theorem ciOf_notExp {db : Db} (nd : NodupKeys db.dict) (ty : Option Ty) (k : Bytes) :
    notExp db.time (ciOf db.live ty k).expireat := by
  unfold ciOf
  cases h : db.live k with
  | none => intro t ht; cases ht
  | some it => exact notExp_of_live nd h

/-- the stored item a modified `CommandItem` leaves behind -/
def stored (c : CI) : Option Item :=
  match c.val with
  | none => none
  | some v => if v.isEmptyColl then none else some ⟨v, c.expireat⟩

/-- live view after the write-back of one `CommandItem` -/
def wb1 (live : Live) (c : CI) : Live :=
  if c.modified then fun k => if k = c.key then stored c else live k else live

def wbLive (live : Live) (cis : List CI) : Live := cis.foldl wb1 live

theorem writeback_live (c : CI) {db : Db} (nd : NodupKeys db.dict) (hs : c.ExpModSound)
    (he : notExp db.time c.expireat) : (c.writeback db).1.live = wb1 db.live c := by
  by_cases hm : c.modified = true
  · funext k
    simp only [wb1, hm, if_true]
    by_cases hk : k = c.key
    · subst hk
      simp only [if_true, stored]
      unfold CI.writeback
      simp only [hm, if_true]
      cases c.val with
      | none => exact live_pop_self _ _
      | some v =>
        simp only
        split
        · exact live_pop_self _ _
        · exact live_put_self nd _ _ _ (expired_false_of_notExp he)
    · simp only [hk, if_false]
      exact c.writeback_live_ne nd hk
  · have hm : c.modified = false := by simpa using hm
    have he : c.expMod = false := by
      cases h : c.expMod with
      | false => rfl
      | true => rw [hs h] at hm; cases hm
    rw [CI.writeback_unmodified hm he]
    simp [wb1, hm]

theorem writebackPure_liveview (cis : List CI) {db : Db} (nd : NodupKeys db.dict)
    (h : ∀ c ∈ cis, c.ExpModSound ∧ notExp db.time c.expireat) :
    (writebackPure db cis).1.live = wbLive db.live cis := by
  induction cis generalizing db with
  | nil => rfl
  | cons c cs ih =>
    rw [writebackPure_cons]
    simp only [wbLive, List.foldl_cons]
    have hc := h c (by simp)
    rw [← writeback_live c nd hc.1 hc.2]
    exact ih (c.writeback_nodup nd) (fun c' hc' => by
      rw [CI.writeback_time]; exact h c' (by simp [hc']))

section run
variable (sig : Sig) (body : Body) (ctx : Ctx) (raw : List Bytes) {db : Db} (nd : NodupKeys db.dict)
include nd

theorem run_apply_err {e : Err} (h : applyL sig raw db.live = .error e) :
    (runRegular sig body ctx none raw db).reply = .err (strBytes e) ∧
    (runRegular sig body ctx none raw db).db.live = db.live ∧
    (runRegular sig body ctx none raw db).failed = true := by
  rw [runRegular_eq]
  have ha := apply_eq sig raw nd
  have hr := Sig.apply_reads sig raw nd
  rw [h] at ha
  rw [ha]
  exact ⟨rfl, funext fun k => live_eq_of_purge hr.eq k, rfl⟩

theorem run_short {r : Reply} (h : applyL sig raw db.live = .ok (.short r)) :
    (runRegular sig body ctx none raw db).reply = r ∧
    (runRegular sig body ctx none raw db).db.live = db.live ∧
    (runRegular sig body ctx none raw db).failed = false := by
  rw [runRegular_eq]
  have ha := apply_eq sig raw nd
  have hr := Sig.apply_reads sig raw nd
  rw [h] at ha
  rw [ha]
  exact ⟨rfl, funext fun k => live_eq_of_purge hr.eq k, rfl⟩

theorem run_body_err {args : List Arg} {cis : List CI} {e : Err}
    (h : applyL sig raw db.live = .ok (.ok args cis)) (hb : body ctx args cis = .error e) :
    (runRegular sig body ctx none raw db).reply = .err (strBytes e) ∧
    (runRegular sig body ctx none raw db).db.live = db.live ∧
    (runRegular sig body ctx none raw db).failed = true := by
  have hf : (runRegular sig body ctx none raw db).failed = true := by
    rw [runRegular_failed_iff]
    exact Or.inr ⟨args, cis, by rw [apply_eq sig raw nd, h], Or.inr ⟨e, hb⟩⟩
  have hr := (runRegular_failed sig body ctx none raw nd hf).1
  refine ⟨?_, funext fun k => live_eq_of_purge hr.eq k, hf⟩
  rw [runRegular_eq]
  have ha := apply_eq sig raw nd
  rw [h] at ha
  rw [ha]
  simp only [runTail, hb]

theorem run_ok {args : List Arg} {cis : List CI} {o : BodyOut}
    (h : applyL sig raw db.live = .ok (.ok args cis)) (hb : body ctx args cis = .ok o)
    (hc : ∀ c ∈ o.cis, c.ExpModSound ∧ notExp db.time c.expireat) :
    (runRegular sig body ctx none raw db).reply = o.reply ∧
    (runRegular sig body ctx none raw db).db.live = wbLive db.live o.cis ∧
    (runRegular sig body ctx none raw db).failed = false := by
  rw [runRegular_eq]
  have ha := apply_eq sig raw nd
  have hr := Sig.apply_reads sig raw nd
  rw [h] at ha
  rw [ha]
  simp only [runTail, hb, true_and, and_true]
  have hl : (sig.apply raw db).1.live = db.live := funext fun k => live_eq_of_purge hr.eq k
  have ht : (sig.apply raw db).1.time = db.time := by
    have := congrArg Db.time hr.eq
    simpa using this
  rw [← hl]
  exact writebackPure_liveview o.cis hr.nd (fun c hc' => by rw [ht]; exact hc c hc')

end run

/-! ## cardinalities of finite sets of byte strings, stated without choosing a representation -/

/-- `n` is the number of byte strings satisfying `P` -/
def CardEq (P : Bytes → Prop) (n : Nat) : Prop :=
  ∃ l : List Bytes, l.Nodup ∧ (∀ x, x ∈ l ↔ P x) ∧ l.length = n

theorem CardEq.unique {P : Bytes → Prop} {n m : Nat} (h1 : CardEq P n) (h2 : CardEq P m) : n = m := by
  obtain ⟨l1, d1, m1, rfl⟩ := h1
  obtain ⟨l2, d2, m2, rfl⟩ := h2
  exact ((List.perm_ext_iff_of_nodup d1 d2).2 (fun a => (m1 a).trans (m2 a).symm)).length_eq

theorem CardEq.congr {P Q : Bytes → Prop} {n : Nat} (h : ∀ x, P x ↔ Q x) (h1 : CardEq P n) : CardEq Q n := by
  obtain ⟨l, d, m, e⟩ := h1
  exact ⟨l, d, fun x => (m x).trans (h x), e⟩

theorem length_filter_add {α} (p : α → Bool) (l : List α) :
    l.length = (l.filter p).length + (l.filter (fun a => !p a)).length := by
  have := List.length_eq_countP_add_countP p (l := l)
  simp only [List.countP_eq_length_filter] at this
  rw [this]
  congr 2
  apply List.filter_congr
  intro x _
  simp

/-! ## Part 3: hashes -/

abbrev HashV := Cmd.HashV

/-- field names unique -/
def NodupF (h : HashV) : Prop := (h.map Prod.fst).Nodup

theorem any_eq_isSome (h : HashV) (f : Bytes) : h.any (fun p => p.1 == f) = (h.lookup f).isSome := by
  cases hl : h.lookup f with
  | none =>
    have := ZSet.lookup_none_iff.1 hl
    simp only [Option.isSome_none]
    rw [← Bool.not_eq_true, ZSet.any_key_iff]
    exact this
  | some v =>
    simp only [Option.isSome_some]
    rw [ZSet.any_key_iff]
    exact List.mem_map.2 ⟨(f, v), ZSet.lookup_some_mem hl, rfl⟩

theorem mem_keys_iff (h : HashV) (f : Bytes) : f ∈ h.map Prod.fst ↔ h.lookup f ≠ none := by
  rw [Ne, ZSet.lookup_none_iff]; simp

theorem nodupF_dictSet {h : HashV} (hn : NodupF h) (f v : Bytes) : NodupF (ZSet.dictSet h f v) := by
  unfold NodupF
  rw [ZSet.map_fst_dictSet]
  split
  · exact hn
  · rename_i hf
    rw [List.nodup_append]
    refine ⟨hn, by simp, ?_⟩
    intro a ha b hb
    simp only [List.mem_singleton] at hb
    subst hb
    intro e; subst e; exact hf ha

theorem nodupF_dictDel {h : HashV} (hn : NodupF h) (f : Bytes) : NodupF (ZSet.dictDel h f) := by
  unfold NodupF
  rw [ZSet.map_fst_dictDel]
  exact hn.sublist List.filter_sublist

/-! ### HSET -/

/-- recursive form of `hsetCore` -/
def hsetRec : HashV → List (Bytes × Bytes) → HashV × Nat
  | h, [] => (h, 0)
  | h, p :: ps =>
    let r := hsetRec (ZSet.dictSet h p.1 p.2) ps
    (r.1, r.2 + if h.any (fun q => q.1 == p.1) then 0 else 1)

def hsetStep (st : HashV × Nat) (p : Bytes × Bytes) : HashV × Nat :=
  (ZSet.dictSet st.1 p.1 p.2, if st.1.any (fun q => q.1 == p.1) then st.2 else st.2 + 1)

theorem foldl_hsetStep (ps : List (Bytes × Bytes)) (h : HashV) (n : Nat) :
    ps.foldl hsetStep (h, n) = ((hsetRec h ps).1, n + (hsetRec h ps).2) := by
  induction ps generalizing h n with
  | nil => rfl
  | cons p ps ih =>
    simp only [List.foldl_cons, hsetStep, hsetRec]
    rw [ih]
    split <;> simp <;> omega

theorem hsetCore_eq (h : HashV) (ps : List (Bytes × Bytes)) : Cmd.hsetCore h ps = hsetRec h ps := by
  have := foldl_hsetStep ps h 0
  unfold Cmd.hsetCore
  simp only [Nat.zero_add] at this
  exact this

/-- HSET as a map update: later duplicates win -/
theorem hsetRec_lookup (h : HashV) (ps : List (Bytes × Bytes)) (x : Bytes) :
    (hsetRec h ps).1.lookup x = (ps.reverse.lookup x).or (h.lookup x) := by
  induction ps generalizing h with
  | nil => simp [hsetRec]
  | cons p ps ih =>
    simp only [hsetRec, List.reverse_cons, List.lookup_append]
    rw [ih, ZSet.lookup_dictSet]
    cases ps.reverse.lookup x with
    | some v => simp
    | none =>
      obtain ⟨a, b⟩ := p
      simp only [Option.none_or, List.lookup_cons, List.lookup_nil]
      by_cases hx : x = a
      · simp [hx]
      · have : (x == a) = false := by simpa using hx
        simp [hx, this]

theorem hsetRec_nodup {h : HashV} (hn : NodupF h) (ps : List (Bytes × Bytes)) : NodupF (hsetRec h ps).1 := by
  induction ps generalizing h with
  | nil => exact hn
  | cons p ps ih => exact ih (nodupF_dictSet hn _ _)

/-- old fields keep their position, new fields are appended in order of first appearance, and the
counter is the number of appended fields -/
theorem hsetRec_keys (h : HashV) (ps : List (Bytes × Bytes)) :
    ∃ new, (hsetRec h ps).1.map Prod.fst = h.map Prod.fst ++ new ∧ new.length = (hsetRec h ps).2 := by
  induction ps generalizing h with
  | nil => exact ⟨[], by simp [hsetRec]⟩
  | cons p ps ih =>
    obtain ⟨new, h1, h2⟩ := ih (ZSet.dictSet h p.1 p.2)
    simp only [hsetRec]
    rw [ZSet.map_fst_dictSet] at h1
    by_cases hp : p.1 ∈ h.map Prod.fst
    · rw [if_pos hp] at h1
      rw [if_pos ((ZSet.any_key_iff h p.1).2 hp)]
      exact ⟨new, h1, by simpa using h2⟩
    · rw [if_neg hp] at h1
      rw [if_neg (fun c => hp ((ZSet.any_key_iff h p.1).1 c))]
      exact ⟨p.1 :: new, by simpa using h1, by simp [h2]⟩

theorem lookup_reverse_ne_none (ps : List (Bytes × Bytes)) (x : Bytes) :
    ps.reverse.lookup x ≠ none ↔ x ∈ ps.map Prod.fst := by
  rw [← mem_keys_iff]; simp

/-- the HSET reply: the number of distinct given fields that were not in the hash -/
theorem hsetRec_card {h : HashV} (hn : NodupF h) (ps : List (Bytes × Bytes)) :
    CardEq (fun x => x ∈ ps.map Prod.fst ∧ h.lookup x = none) (hsetRec h ps).2 := by
  obtain ⟨new, h1, h2⟩ := hsetRec_keys h ps
  have hnd := hsetRec_nodup hn ps
  unfold NodupF at hnd
  rw [h1, List.nodup_append] at hnd
  refine ⟨new, hnd.2.1, fun x => ?_, h2⟩
  have hmem : x ∈ (hsetRec h ps).1.map Prod.fst ↔ x ∈ ps.map Prod.fst ∨ x ∈ h.map Prod.fst := by
    have a1 := mem_keys_iff (hsetRec h ps).1 x
    have a2 := mem_keys_iff h x
    have a3 := lookup_reverse_ne_none ps x
    rw [hsetRec_lookup] at a1
    rw [a1, a2, ← a3]
    cases ps.reverse.lookup x <;> cases h.lookup x <;> simp
  rw [h1, List.mem_append] at hmem
  constructor
  · intro hx
    have hnot : x ∉ h.map Prod.fst := fun hh => hnd.2.2 x hh x hx rfl
    refine ⟨?_, ZSet.lookup_none_iff.2 hnot⟩
    rcases hmem.1 (Or.inr hx) with h' | h'
    · exact h'
    · exact absurd h' hnot
  · rintro ⟨hx, hl⟩
    have hnot : x ∉ h.map Prod.fst := ZSet.lookup_none_iff.1 hl
    rcases hmem.2 (Or.inl hx) with h' | h'
    · exact absurd h' hnot
    · exact h'

/-! ### HDEL -/

def hdelStep (st : HashV × Nat) (f : Bytes) : HashV × Nat :=
  if st.1.any (fun p => p.1 == f) then (ZSet.dictDel st.1 f, st.2 + 1) else st

def hdelRec : HashV → List Bytes → HashV × Nat
  | h, [] => (h, 0)
  | h, f :: fs =>
    if h.any (fun p => p.1 == f) then ((hdelRec (ZSet.dictDel h f) fs).1, (hdelRec (ZSet.dictDel h f) fs).2 + 1)
    else hdelRec h fs

theorem foldl_hdelStep (fs : List Bytes) (h : HashV) (n : Nat) :
    fs.foldl hdelStep (h, n) = ((hdelRec h fs).1, n + (hdelRec h fs).2) := by
  induction fs generalizing h n with
  | nil => rfl
  | cons f fs ih =>
    simp only [List.foldl_cons, hdelStep, hdelRec]
    split
    · rw [ih]; simp; omega
    · rw [ih]

theorem hdelRec_fst (h : HashV) (fs : List Bytes) :
    (hdelRec h fs).1 = h.filter (fun p => !fs.contains p.1) := by
  induction fs generalizing h with
  | nil => simp only [hdelRec]; exact (List.filter_eq_self.2 (fun _ _ => by simp)).symm
  | cons f fs ih =>
    simp only [hdelRec]
    split
    · simp only
      rw [ih, ZSet.dictDel, List.filter_filter]
      apply List.filter_congr
      intro p _
      simp only [List.contains_cons, Bool.not_or, bne]
      rw [Bool.and_comm]
    · rename_i hf
      rw [ih]
      apply List.filter_congr
      intro p hp
      have : (p.1 == f) = false := by
        cases hpf : p.1 == f with
        | false => rfl
        | true =>
          exfalso; apply hf
          exact List.any_eq_true.2 ⟨p, hp, hpf⟩
      simp only [List.contains_cons, this, Bool.false_or]

theorem hdelRec_length {h : HashV} (hn : NodupF h) (fs : List Bytes) :
    (hdelRec h fs).1.length + (hdelRec h fs).2 = h.length := by
  induction fs generalizing h with
  | nil => simp [hdelRec]
  | cons f fs ih =>
    simp only [hdelRec]
    split
    · rename_i hf
      have := ih (nodupF_dictDel hn f)
      have hl := ZSet.length_dictDel h f hn
      rw [if_pos ((ZSet.any_key_iff h f).1 hf)] at hl
      have hpos : 0 < h.length := by
        obtain ⟨p, hp, _⟩ := List.any_eq_true.1 hf
        exact List.length_pos_of_mem hp
      simp only
      omega
    · exact ih hn

theorem hdelRec_lookup (h : HashV) (fs : List Bytes) (x : Bytes) :
    (hdelRec h fs).1.lookup x = if x ∈ fs then none else h.lookup x := by
  induction fs generalizing h with
  | nil => simp [hdelRec]
  | cons f fs ih =>
    simp only [hdelRec]
    split
    · simp only
      rw [ih, ZSet.lookup_dictDel]
      by_cases h1 : x ∈ fs <;> by_cases h2 : x = f <;> simp [h1, h2]
    · rename_i hf
      rw [ih]
      by_cases h1 : x ∈ fs
      · simp [h1]
      · by_cases h2 : x = f
        · subst h2
          have : h.lookup x = none := by
            have := any_eq_isSome h x
            rw [Bool.not_eq_true] at hf
            rw [hf] at this
            cases hl : h.lookup x with
            | none => rfl
            | some v => rw [hl] at this; cases this
          simp [this]
        · simp [h1, h2]

/-- the HDEL reply: the number of distinct given fields that were in the hash -/
theorem hdelRec_card {h : HashV} (hn : NodupF h) (fs : List Bytes) :
    CardEq (fun x => x ∈ fs ∧ h.lookup x ≠ none) (hdelRec h fs).2 := by
  refine ⟨(h.filter (fun p => fs.contains p.1)).map Prod.fst, ?_, fun x => ?_, ?_⟩
  · exact hn.sublist (List.filter_sublist.map _)
  · show x ∈ _ ↔ x ∈ fs ∧ h.lookup x ≠ none
    rw [← mem_keys_iff]
    simp only [List.mem_map, List.mem_filter, List.contains_eq_mem, decide_eq_true_eq]
    constructor
    · rintro ⟨p, ⟨hp, hf⟩, rfl⟩; exact ⟨hf, p, hp, rfl⟩
    · rintro ⟨hf, p, hp, rfl⟩; exact ⟨p, ⟨hp, hf⟩, rfl⟩
  · have h1 := hdelRec_length hn fs
    rw [hdelRec_fst] at h1
    have h2 := length_filter_add (fun p : Bytes × Bytes => fs.contains p.1) h
    rw [List.length_map]
    omega

/-! ## Part 4: sets -/

theorem mem_setIns (s : List Bytes) (m x : Bytes) : x ∈ Cmd.setIns s m ↔ x ∈ s ∨ x = m := by
  unfold Cmd.setIns
  split
  · rename_i h
    have : m ∈ s := by simpa using h
    constructor
    · exact Or.inl
    · rintro (h' | rfl)
      · exact h'
      · exact this
  · simp

theorem setUnion_spec (a b : List Bytes) :
    ∃ new, Cmd.setUnion a b = a ++ new ∧ (∀ x, x ∈ new ↔ x ∈ b ∧ x ∉ a) ∧ new.Nodup := by
  induction b generalizing a with
  | nil => exact ⟨[], by simp [Cmd.setUnion], by simp, List.nodup_nil⟩
  | cons m b ih =>
    have hstep : Cmd.setUnion a (m :: b) = Cmd.setUnion (Cmd.setIns a m) b := rfl
    rw [hstep]
    by_cases hm : m ∈ a
    · have e : Cmd.setIns a m = a := by simp [Cmd.setIns, hm]
      rw [e]
      obtain ⟨new, h1, h2, h3⟩ := ih a
      refine ⟨new, h1, fun x => ?_, h3⟩
      rw [h2, List.mem_cons]
      constructor
      · rintro ⟨hb, ha⟩; exact ⟨Or.inr hb, ha⟩
      · rintro ⟨hb | hb, ha⟩
        · subst hb; exact absurd hm ha
        · exact ⟨hb, ha⟩
    · have e : Cmd.setIns a m = a ++ [m] := by simp [Cmd.setIns, hm]
      rw [e]
      obtain ⟨new, h1, h2, h3⟩ := ih (a ++ [m])
      refine ⟨m :: new, by rw [h1]; simp, fun x => ?_, ?_⟩
      · rw [List.mem_cons, h2, List.mem_cons, List.mem_append, List.mem_singleton]
        constructor
        · rintro (rfl | ⟨hb, hn⟩)
          · exact ⟨Or.inl rfl, hm⟩
          · exact ⟨Or.inr hb, fun ha => hn (Or.inl ha)⟩
        · rintro ⟨rfl | hb, ha⟩
          · exact Or.inl rfl
          · by_cases hx : x = m
            · exact Or.inl hx
            · exact Or.inr ⟨hb, fun h' => h'.elim ha hx⟩
      · rw [List.nodup_cons]
        refine ⟨fun hmn => ?_, h3⟩
        have := ((h2 m).1 hmn).2
        exact this (by simp)

theorem mem_setUnion (a b : List Bytes) (x : Bytes) : x ∈ Cmd.setUnion a b ↔ x ∈ a ∨ x ∈ b := by
  obtain ⟨new, h1, h2, _⟩ := setUnion_spec a b
  rw [h1, List.mem_append, h2]
  constructor
  · rintro (h | ⟨h, _⟩)
    · exact Or.inl h
    · exact Or.inr h
  · rintro (h | h)
    · exact Or.inl h
    · by_cases ha : x ∈ a
      · exact Or.inl ha
      · exact Or.inr ⟨h, ha⟩

theorem nodup_setUnion {a : List Bytes} (ha : a.Nodup) (b : List Bytes) : (Cmd.setUnion a b).Nodup := by
  obtain ⟨new, h1, h2, h3⟩ := setUnion_spec a b
  rw [h1, List.nodup_append]
  refine ⟨ha, h3, fun x hx y hy e => ?_⟩
  subst e
  exact ((h2 x).1 hy).2 hx

/-- the SADD / PFADD counter: the number of distinct given members that were not in the set -/
theorem setUnion_card (a b : List Bytes) :
    CardEq (fun x => x ∈ b ∧ x ∉ a) ((Cmd.setUnion a b).length - a.length) := by
  obtain ⟨new, h1, h2, h3⟩ := setUnion_spec a b
  refine ⟨new, h3, h2, ?_⟩
  rw [h1]; simp

theorem mem_setInter (a b : List Bytes) (x : Bytes) : x ∈ Cmd.setInter a b ↔ x ∈ a ∧ x ∈ b := by
  simp [Cmd.setInter]

theorem nodup_setInter {a : List Bytes} (ha : a.Nodup) (b : List Bytes) : (Cmd.setInter a b).Nodup :=
  ha.sublist List.filter_sublist

theorem nodup_setDiff {a : List Bytes} (ha : a.Nodup) (b : List Bytes) : (Cmd.setDiff a b).Nodup :=
  ha.sublist List.filter_sublist

/-- the SREM counter: the number of distinct given members that were in the set -/
theorem setDiff_card {a : List Bytes} (ha : a.Nodup) (b : List Bytes) :
    CardEq (fun x => x ∈ b ∧ x ∈ a) (a.length - (Cmd.setDiff a b).length) := by
  refine ⟨a.filter b.contains, ha.sublist List.filter_sublist, fun x => ?_, ?_⟩
  · simp [And.comm]
  · have := length_filter_add b.contains a
    unfold Cmd.setDiff
    omega

/-! ### SUNION / SINTER / SDIFF -/

/-- the abstract result of a set operation on membership predicates -/
def setopSpec (op : Cmd.SetOp) (first : List Bytes) (others : List (List Bytes)) (m : Bytes) : Prop :=
  match op with
  | .union => m ∈ first ∨ ∃ v ∈ others, m ∈ v
  | .inter => m ∈ first ∧ ∀ v ∈ others, m ∈ v
  | .diff => m ∈ first ∧ ∀ v ∈ others, m ∉ v

theorem go_union (ans : List Bytes) (others : List (List Bytes)) (m : Bytes) :
    m ∈ Cmd.calcSetop.go .union false ans others ↔ m ∈ ans ∨ ∃ v ∈ others, m ∈ v := by
  induction others generalizing ans with
  | nil => simp [Cmd.calcSetop.go]
  | cons v rest ih =>
    simp only [Cmd.calcSetop.go, Bool.false_and, Bool.false_eq_true, if_false]
    rw [ih, mem_setUnion]
    simp only [List.mem_cons, exists_eq_or_imp]
    exact or_assoc

theorem go_diff (ans : List Bytes) (others : List (List Bytes)) (m : Bytes) :
    m ∈ Cmd.calcSetop.go .diff false ans others ↔ m ∈ ans ∧ ∀ v ∈ others, m ∉ v := by
  induction others generalizing ans with
  | nil => simp [Cmd.calcSetop.go]
  | cons v rest ih =>
    simp only [Cmd.calcSetop.go, Bool.false_and, Bool.false_eq_true, if_false]
    rw [ih, FR.Proofs.mem_setDiff]
    simp only [List.mem_cons, forall_eq_or_imp]
    exact and_assoc

theorem go_inter (ans : List Bytes) (others : List (List Bytes)) (m : Bytes) :
    m ∈ Cmd.calcSetop.go .inter true ans others ↔ m ∈ ans ∧ ∀ v ∈ others, m ∈ v := by
  induction others generalizing ans with
  | nil => simp [Cmd.calcSetop.go]
  | cons v rest ih =>
    simp only [Cmd.calcSetop.go, Bool.true_and]
    split
    · rename_i hv
      have : v = [] := by simpa using hv
      subst this
      simp
    · rw [ih, mem_setInter]
      simp only [List.mem_cons, forall_eq_or_imp]
      exact and_assoc

theorem go_nodup (op : Cmd.SetOp) (stop : Bool) {ans : List Bytes} (ha : ans.Nodup) (others : List (List Bytes)) :
    (Cmd.calcSetop.go op stop ans others).Nodup := by
  induction others generalizing ans with
  | nil => simpa [Cmd.calcSetop.go] using ha
  | cons v rest ih =>
    simp only [Cmd.calcSetop.go]
    split
    · exact List.nodup_nil
    · apply ih
      cases op
      · exact nodup_setDiff ha v
      · exact nodup_setInter ha v
      · exact nodup_setUnion ha v

theorem calcSetop_mem (op : Cmd.SetOp) (first : List Bytes) (others : List (List Bytes)) (m : Bytes) :
    m ∈ Cmd.calcSetop op first others ↔ setopSpec op first others m := by
  cases op
  · simp only [Cmd.calcSetop, setopSpec]
    rw [show ((Cmd.SetOp.diff == Cmd.SetOp.inter) = false) from rfl]
    simp only [Bool.false_and, Bool.false_eq_true, if_false]
    exact go_diff first others m
  · simp only [Cmd.calcSetop, setopSpec]
    rw [show ((Cmd.SetOp.inter == Cmd.SetOp.inter) = true) from rfl]
    simp only [Bool.true_and]
    split
    · rename_i hv
      have : first = [] := by simpa using hv
      subst this
      simp
    · exact go_inter first others m
  · simp only [Cmd.calcSetop, setopSpec]
    rw [show ((Cmd.SetOp.union == Cmd.SetOp.inter) = false) from rfl]
    simp only [Bool.false_and, Bool.false_eq_true, if_false]
    exact go_union first others m

theorem calcSetop_nodup (op : Cmd.SetOp) {first : List Bytes} (hf : first.Nodup) (others : List (List Bytes)) :
    (Cmd.calcSetop op first others).Nodup := by
  simp only [Cmd.calcSetop]
  split
  · exact List.nodup_nil
  · exact go_nodup _ _ hf _

/-! ## Part 5: running single-key commands -/

/-- the arity test of `Signature.apply` -/
def ArityOK (s : Sig) (n : Nat) : Prop :=
  s.checkArity n = true ∧ (s.rep.isEmpty = false → (n - s.fixed.length) % s.rep.length = 0)

instance (s : Sig) (n : Nat) : Decidable (ArityOK s n) := by unfold ArityOK; infer_instance

theorem applyL_of_arity {s : Sig} {raw : List Bytes} (live : Live) (h : ArityOK s raw.length) :
    applyL s raw live = applyT (s.types raw.length) raw live := by
  unfold applyL
  rw [h.1]
  simp only [Bool.not_true, Bool.false_eq_true, if_false]
  cases hr : s.rep.isEmpty with
  | true => simp
  | false =>
    have := h.2 hr
    simp [this]

theorem applyL_bad_arity {s : Sig} {raw : List Bytes} (live : Live) (h : ¬ ArityOK s raw.length) :
    applyL s raw live = .error s.wrongArgs := by
  unfold applyL
  cases hc : s.checkArity raw.length with
  | false => simp
  | true =>
    simp only [Bool.not_true, Bool.false_eq_true, if_false]
    cases hr : s.rep.isEmpty with
    | true => exact absurd ⟨hc, fun h' => by rw [hr] at h'; cases h'⟩ h
    | false =>
      have : ¬ ((raw.length - s.fixed.length) % s.rep.length = 0) := fun h' => h ⟨hc, fun _ => h'⟩
      simp [this]

theorem arity_ge {s : Sig} {n : Nat} (h : ArityOK s n) : s.fixed.length ≤ n := by
  have := h.1
  unfold Sig.checkArity at this
  split at this
  · simp only [Bool.not_eq_true', Bool.or_eq_false_iff, decide_eq_false_iff_not] at this
    omega
  · rename_i h'
    simp only [bne_iff_ne, ne_eq, Decidable.not_not] at h'
    omega

theorem ciOf_key (live : Live) (ty : Option Ty) (k : Bytes) : (ciOf live ty k).key = k := by
  unfold ciOf; split <;> rfl

theorem ciOf_clean (live : Live) (ty : Option Ty) (k : Bytes) :
    (ciOf live ty k).modified = false ∧ (ciOf live ty k).expMod = false := by
  unfold ciOf; split <;> exact ⟨rfl, rfl⟩

theorem applyT_key1 (live : Live) (ty : Option Ty) (key : Bytes) (rest : List Bytes) (n : Nat)
    (hn : rest.length ≤ n) :
    applyT (.key ty .unspecified :: List.replicate n .bytes) (key :: rest) live =
      if typeOK live ty key = true then .ok (.ok (.key 0 :: rest.map .raw) [ciOf live ty key])
      else .error Msgs.WRONGTYPE_MSG := by
  unfold applyT
  rw [p1_plain live _ _ (by
    intro t ht
    rcases List.mem_cons.1 ht with rfl | ht
    · rfl
    · rw [(List.mem_replicate.1 ht).2]; rfl)]
  have htake : (key :: rest).take (ArgTy.key ty .unspecified :: List.replicate n ArgTy.bytes).length
      = key :: rest := List.take_of_length_le (by simp; omega)
  simp only [htake, List.reverse_nil, List.nil_append, List.map_cons, List.zip_cons_cons]
  rw [zip_map_replicate _ _ _ _ hn]
  have := p2_keys live ty .unspecified [key] (rest.map (fun x => (Arg.raw x, ArgTy.bytes))) [] []
  simp only [List.map_cons, List.map_nil, List.cons_append, List.nil_append, List.all_cons, List.all_nil,
    Bool.and_true, List.length_nil, List.length_cons, List.range'_succ, List.range'_zero, List.reverse_cons,
    List.reverse_nil, List.append_nil] at this
  rw [this]
  by_cases hk : typeOK live ty key = true
  · simp only [hk, if_true]; rw [p2_bytes]; rfl
  · simp only [hk, if_false]; rfl

theorem applyL_key1 (s : Sig) (ty : Option Ty) (a : Nat)
    (hfix : s.fixed = .key ty .unspecified :: List.replicate a .bytes) (hrep : ∀ t ∈ s.rep, t = .bytes)
    (live : Live) (key : Bytes) (rest : List Bytes) (har : ArityOK s (rest.length + 1)) :
    applyL s (key :: rest) live =
      if typeOK live ty key = true then .ok (.ok (.key 0 :: rest.map .raw) [ciOf live ty key])
      else .error Msgs.WRONGTYPE_MSG := by
  have har' : ArityOK s (key :: rest).length := har
  rw [applyL_of_arity live har', types_eq s _ .bytes hrep (fun _ => rfl), hfix]
  have hge := arity_ge har
  rw [hfix] at hge
  simp only [List.length_cons, List.length_replicate] at hge ⊢
  rw [List.cons_append, List.replicate_append_replicate]
  exact applyT_key1 live ty key rest _ (by omega)

/-- the new live view when `key` is rewritten -/
def putAt (live : Live) (key : Bytes) (v : Value) (e : Option Int) : Live :=
  fun k => if k = key then (if v.isEmptyColl then none else some ⟨v, e⟩) else live k

section run1
variable (s : Sig) (body : Body) (ctx : Ctx) (raw : List Bytes) (args : List Arg) (ty : Option Ty) (key : Bytes)
  {db : Db} (nd : NodupKeys db.dict)
  (happ : applyL s raw db.live = .ok (.ok args [ciOf db.live ty key]))
include nd happ

theorem run1_err {e : Err} (hb : body ctx args [ciOf db.live ty key] = .error e) :
    (runRegular s body ctx none raw db).reply = .err (strBytes e) ∧
    (runRegular s body ctx none raw db).db.live = db.live ∧
    (runRegular s body ctx none raw db).failed = true :=
  run_body_err s body ctx _ nd happ hb

theorem run1_read {r : Reply} (hb : body ctx args [ciOf db.live ty key] = ret r [ciOf db.live ty key]) :
    (runRegular s body ctx none raw db).reply = r ∧
    (runRegular s body ctx none raw db).db.live = db.live ∧
    (runRegular s body ctx none raw db).failed = false := by
  have := run_ok s body ctx _ nd happ hb (by
    intro c hc
    simp only [ret, List.mem_singleton] at hc
    subst hc
    exact ⟨CI.Clean.sound (ciOf_clean _ _ _), ciOf_notExp nd ty key⟩)
  refine ⟨this.1, ?_, this.2.2⟩
  rw [this.2.1]
  simp [wbLive, wb1, ret, (ciOf_clean db.live ty key).1]

theorem run1_write {r : Reply} {v' : Value}
    (hb : body ctx args [ciOf db.live ty key] =
      ret r [{ ciOf db.live ty key with val := some v', modified := true }]) :
    (runRegular s body ctx none raw db).reply = r ∧
    (runRegular s body ctx none raw db).db.live = putAt db.live key v' (ciOf db.live ty key).expireat ∧
    (runRegular s body ctx none raw db).failed = false := by
  have := run_ok s body ctx _ nd happ hb (by
    intro c hc
    simp only [ret, List.mem_singleton] at hc
    subst hc
    exact ⟨fun _ => rfl, ciOf_notExp nd ty key⟩)
  refine ⟨this.1, ?_, this.2.2⟩
  rw [this.2.1]
  funext k
  simp [wbLive, wb1, ret, putAt, stored, ciOf_key]

end run1

section key1
variable (s : Sig) (ty : Option Ty) (a : Nat)
  (hfix : s.fixed = .key ty .unspecified :: List.replicate a .bytes) (hrep : ∀ t ∈ s.rep, t = .bytes)
  (body : Body) (ctx : Ctx) (key : Bytes) (rest : List Bytes) {db : Db} (nd : NodupKeys db.dict)
  (har : ArityOK s (rest.length + 1))
include hfix hrep nd har

theorem run_key1_wrongtype (hok : typeOK db.live ty key = false) :
    (runRegular s body ctx none (key :: rest) db).reply = .err (strBytes Msgs.WRONGTYPE_MSG) ∧
    (runRegular s body ctx none (key :: rest) db).db.live = db.live ∧
    (runRegular s body ctx none (key :: rest) db).failed = true := by
  apply run_apply_err s body ctx _ nd
  rw [applyL_key1 s ty a hfix hrep db.live key rest har, hok]
  rfl

omit nd in
theorem applyL_key1_ok (hok : typeOK db.live ty key = true) :
    applyL s (key :: rest) db.live = .ok (.ok (.key 0 :: rest.map .raw) [ciOf db.live ty key]) := by
  rw [applyL_key1 s ty a hfix hrep db.live key rest har, hok]; rfl

theorem run_key1_err (hok : typeOK db.live ty key = true) {e : Err}
    (hb : body ctx (.key 0 :: rest.map .raw) [ciOf db.live ty key] = .error e) :
    (runRegular s body ctx none (key :: rest) db).reply = .err (strBytes e) ∧
    (runRegular s body ctx none (key :: rest) db).db.live = db.live ∧
    (runRegular s body ctx none (key :: rest) db).failed = true :=
  run1_err s body ctx _ _ ty key nd (applyL_key1_ok s ty a hfix hrep key rest har hok) hb

theorem run_key1_read (hok : typeOK db.live ty key = true) {r : Reply}
    (hb : body ctx (.key 0 :: rest.map .raw) [ciOf db.live ty key] = ret r [ciOf db.live ty key]) :
    (runRegular s body ctx none (key :: rest) db).reply = r ∧
    (runRegular s body ctx none (key :: rest) db).db.live = db.live ∧
    (runRegular s body ctx none (key :: rest) db).failed = false :=
  run1_read s body ctx _ _ ty key nd (applyL_key1_ok s ty a hfix hrep key rest har hok) hb

theorem run_key1_write (hok : typeOK db.live ty key = true) {r : Reply} {v' : Value}
    (hb : body ctx (.key 0 :: rest.map .raw) [ciOf db.live ty key] =
      ret r [{ ciOf db.live ty key with val := some v', modified := true }]) :
    (runRegular s body ctx none (key :: rest) db).reply = r ∧
    (runRegular s body ctx none (key :: rest) db).db.live =
      putAt db.live key v' (ciOf db.live ty key).expireat ∧
    (runRegular s body ctx none (key :: rest) db).failed = false :=
  run1_write s body ctx _ _ ty key nd (applyL_key1_ok s ty a hfix hrep key rest har hok) hb

end key1

/-! ### the hash commands -/

/-- the signature registered under `name` -/
def sigOf (name : String) : Sig := (SigTable.find name).getD default

/-- what a hash command sees at `key`: the stored pairs (none when the key is missing) and the
deadline; `none` when another type is stored -/
def hashView (live : Live) (key : Bytes) : Option (HashV × Option Int) :=
  match live key with
  | none => some ([], none)
  | some it =>
    match it.value with
    | .hash h => some (h, it.expireat)
    | _ => none

theorem hashView_none {live : Live} {key : Bytes} (h : hashView live key = none) :
    typeOK live (some .hash) key = false := by
  unfold hashView at h
  unfold typeOK
  cases hl : live key with
  | none => rw [hl] at h; cases h
  | some it =>
    rw [hl] at h
    simp only at h ⊢
    cases hv : it.value <;> rw [hv] at h <;> simp [Value.ty] at h ⊢

theorem hashView_some {live : Live} {key : Bytes} {h : HashV} {e : Option Int}
    (hv : hashView live key = some (h, e)) :
    typeOK live (some .hash) key = true ∧
    ciOf live (some .hash) key = ⟨key, some (.hash h), e, false, false⟩ := by
  unfold hashView at hv
  unfold typeOK ciOf
  cases hl : live key with
  | none =>
    rw [hl] at hv
    simp only [Option.some.injEq, Prod.mk.injEq] at hv
    obtain ⟨rfl, rfl⟩ := hv
    exact ⟨rfl, rfl⟩
  | some it =>
    rw [hl] at hv
    simp only at hv ⊢
    split at hv
    · rename_i h' hval
      simp only [Option.some.injEq, Prod.mk.injEq] at hv
      obtain ⟨rfl, rfl⟩ := hv
      rw [hval]; exact ⟨by simp [Value.ty], rfl⟩
    · cases hv

theorem rawArgs_map (l : List Bytes) : Cmd.rawArgs (l.map Arg.raw) = l := by
  induction l with
  | nil => rfl
  | cons x xs ih => simp [Cmd.rawArgs, ih]

def hashCI (key : Bytes) (h : HashV) (e : Option Int) : CI := ⟨key, some (.hash h), e, false, false⟩

theorem body_hset (ctx : Ctx) (key : Bytes) (h : HashV) (e : Option Int) (l : List Bytes) :
    Cmd.hset ctx (.key 0 :: l.map .raw) [hashCI key h e] =
      ret (.int (hsetRec h (Cmd.fieldPairs l)).2)
        [{ hashCI key h e with val := some (.hash (hsetRec h (Cmd.fieldPairs l)).1), modified := true }] := by
  simp only [Cmd.hset, rawArgs_map, hsetCore_eq]
  rfl

theorem body_hmset (ctx : Ctx) (key : Bytes) (h : HashV) (e : Option Int) (l : List Bytes) :
    Cmd.hmset ctx (.key 0 :: l.map .raw) [hashCI key h e] =
      ret .ok
        [{ hashCI key h e with val := some (.hash (hsetRec h (Cmd.fieldPairs l)).1), modified := true }] := by
  simp only [Cmd.hmset, body_hset]
  rfl

theorem body_hdel (ctx : Ctx) (key : Bytes) (h : HashV) (e : Option Int) (l : List Bytes) :
    Cmd.hdel ctx (.key 0 :: l.map .raw) [hashCI key h e] =
      if (hdelRec h l).2 > 0 then
        ret (.int (hdelRec h l).2)
          [{ hashCI key h e with val := some (.hash (hdelRec h l).1), modified := true }]
      else ret (.int 0) [hashCI key h e] := by
  have hf : (l.foldl (fun (st : HashV × Nat) f =>
      if st.1.any (fun p => p.1 == f) then (ZSet.dictDel st.1 f, st.2 + 1) else st) (h, 0)) =
      (hdelRec h l) := by
    have := foldl_hdelStep l h 0
    simp only [Nat.zero_add] at this
    exact this
  simp only [Cmd.hdel, rawArgs_map]
  have e1 : Cmd.hashOf (ciAt [hashCI key h e] 0) = h := rfl
  rw [e1, hf]
  rfl

section hashrun
variable (ctx : Ctx) (key : Bytes) {db : Db} (nd : NodupKeys db.dict) {h : HashV} {e : Option Int}
include nd

theorem run_hash_wrongtype (name : String) (body : Body) (a : Nat)
    (hfix : (sigOf name).fixed = .key (some .hash) .unspecified :: List.replicate a .bytes)
    (hrep : ∀ t ∈ (sigOf name).rep, t = .bytes) (rest : List Bytes)
    (har : ArityOK (sigOf name) (rest.length + 1)) (hv : hashView db.live key = none) :
    (runRegular (sigOf name) body ctx none (key :: rest) db).reply = .err (strBytes Msgs.WRONGTYPE_MSG) ∧
    (runRegular (sigOf name) body ctx none (key :: rest) db).db.live = db.live ∧
    (runRegular (sigOf name) body ctx none (key :: rest) db).failed = true :=
  run_key1_wrongtype _ _ a hfix hrep body ctx key rest nd har (hashView_none hv)

theorem run_hash_read (name : String) (body : Body) (a : Nat)
    (hfix : (sigOf name).fixed = .key (some .hash) .unspecified :: List.replicate a .bytes)
    (hrep : ∀ t ∈ (sigOf name).rep, t = .bytes) (rest : List Bytes)
    (har : ArityOK (sigOf name) (rest.length + 1)) (hv : hashView db.live key = some (h, e)) {r : Reply}
    (hb : body ctx (.key 0 :: rest.map .raw) [hashCI key h e] = ret r [hashCI key h e]) :
    (runRegular (sigOf name) body ctx none (key :: rest) db).reply = r ∧
    (runRegular (sigOf name) body ctx none (key :: rest) db).db.live = db.live ∧
    (runRegular (sigOf name) body ctx none (key :: rest) db).failed = false := by
  have hs := hashView_some hv
  apply run_key1_read _ _ a hfix hrep body ctx key rest nd har hs.1
  rw [hs.2]; exact hb

theorem run_hash_err (name : String) (body : Body) (a : Nat)
    (hfix : (sigOf name).fixed = .key (some .hash) .unspecified :: List.replicate a .bytes)
    (hrep : ∀ t ∈ (sigOf name).rep, t = .bytes) (rest : List Bytes)
    (har : ArityOK (sigOf name) (rest.length + 1)) (hv : hashView db.live key = some (h, e)) {er : Err}
    (hb : body ctx (.key 0 :: rest.map .raw) [hashCI key h e] = .error er) :
    (runRegular (sigOf name) body ctx none (key :: rest) db).reply = .err (strBytes er) ∧
    (runRegular (sigOf name) body ctx none (key :: rest) db).db.live = db.live ∧
    (runRegular (sigOf name) body ctx none (key :: rest) db).failed = true := by
  have hs := hashView_some hv
  apply run_key1_err _ _ a hfix hrep body ctx key rest nd har hs.1
  rw [hs.2]; exact hb

theorem run_hash_write (name : String) (body : Body) (a : Nat)
    (hfix : (sigOf name).fixed = .key (some .hash) .unspecified :: List.replicate a .bytes)
    (hrep : ∀ t ∈ (sigOf name).rep, t = .bytes) (rest : List Bytes)
    (har : ArityOK (sigOf name) (rest.length + 1)) (hv : hashView db.live key = some (h, e)) {r : Reply}
    {h' : HashV}
    (hb : body ctx (.key 0 :: rest.map .raw) [hashCI key h e] =
      ret r [{ hashCI key h e with val := some (.hash h'), modified := true }]) :
    (runRegular (sigOf name) body ctx none (key :: rest) db).reply = r ∧
    (runRegular (sigOf name) body ctx none (key :: rest) db).db.live = putAt db.live key (.hash h') e ∧
    (runRegular (sigOf name) body ctx none (key :: rest) db).failed = false := by
  have hs := hashView_some hv
  have := run_key1_write _ _ a hfix hrep body ctx key rest nd har hs.1 (r := r) (v' := .hash h') (by
    rw [hs.2]; exact hb)
  rw [hs.2] at this
  exact this

end hashrun

/-- run the regular command `name` (its registered signature and body) on one database, outside
scripts and subscriber mode -/
def run (name : String) (ctx : Ctx) (raw : List Bytes) (db : Db) : RunOut :=
  runRegular (sigOf name) ((Cmd.regular name).getD (fun _ _ _ => .error "model: no body")) ctx none raw db

theorem arity_pairs (name : String) (rest : List Bytes) (heven : rest.length % 2 = 0)
    (hf : (sigOf name).fixed.length = 3) (hr : (sigOf name).rep.length = 2) :
    ArityOK (sigOf name) (rest.length + 2 + 1) := by
  refine ⟨?_, fun _ => by rw [hf, hr]; omega⟩
  unfold Sig.checkArity
  rw [hf]
  have : (sigOf name).rep.isEmpty = false := by
    cases hrep : (sigOf name).rep with
    | nil => rw [hrep] at hr; cases hr
    | cons _ _ => rfl
  rw [this]
  split
  · simp <;> omega
  · rfl

theorem arity_var (name : String) (n a : Nat) (hf : (sigOf name).fixed.length = a) (hr : (sigOf name).rep.length = 1)
    (hn : a ≤ n) : ArityOK (sigOf name) n := by
  refine ⟨?_, fun _ => by rw [hr]; omega⟩
  unfold Sig.checkArity
  rw [hf]
  have : (sigOf name).rep.isEmpty = false := by
    cases hrep : (sigOf name).rep with
    | nil => rw [hrep] at hr; cases hr
    | cons _ _ => rfl
  rw [this]
  split
  · simp <;> omega
  · rfl

section hashcmds
variable (ctx : Ctx) (key : Bytes) {db : Db} (nd : NodupKeys db.dict) {h : HashV} {e : Option Int}
  (hv : hashView db.live key = some (h, e))
include nd hv

theorem run_hset (f v : Bytes) (rest : List Bytes) (heven : rest.length % 2 = 0) :
    (run "hset" ctx (key :: f :: v :: rest) db).reply =
      .int (hsetRec h (Cmd.fieldPairs (f :: v :: rest))).2 ∧
    (run "hset" ctx (key :: f :: v :: rest) db).db.live =
      putAt db.live key (.hash (hsetRec h (Cmd.fieldPairs (f :: v :: rest))).1) e ∧
    (run "hset" ctx (key :: f :: v :: rest) db).failed = false :=
  run_hash_write ctx key nd "hset" Cmd.hset 2 rfl (by decide) (f :: v :: rest)
    (arity_pairs "hset" rest heven rfl rfl) hv (body_hset ctx key h e (f :: v :: rest))

theorem run_hmset (f v : Bytes) (rest : List Bytes) (heven : rest.length % 2 = 0) :
    (run "hmset" ctx (key :: f :: v :: rest) db).reply = .ok ∧
    (run "hmset" ctx (key :: f :: v :: rest) db).db.live =
      putAt db.live key (.hash (hsetRec h (Cmd.fieldPairs (f :: v :: rest))).1) e ∧
    (run "hmset" ctx (key :: f :: v :: rest) db).failed = false :=
  run_hash_write ctx key nd "hmset" Cmd.hmset 2 rfl (by decide) (f :: v :: rest)
    (arity_pairs "hmset" rest heven rfl rfl) hv (body_hmset ctx key h e (f :: v :: rest))

theorem run_hsetnx_present (f v : Bytes) (hp : (h.lookup f).isSome = true) :
    (run "hsetnx" ctx [key, f, v] db).reply = .int 0 ∧
    (run "hsetnx" ctx [key, f, v] db).db.live = db.live ∧
    (run "hsetnx" ctx [key, f, v] db).failed = false :=
  run_hash_read ctx key nd "hsetnx" Cmd.hsetnx 2 rfl (by decide) [f, v] (by show ArityOK _ 3; decide) hv (by
    have : (Cmd.hashOf (ciAt [hashCI key h e] 0)).any (fun p => p.1 == f) = true := by
      rw [← hp]; exact any_eq_isSome h f
    simp only [Cmd.hsetnx, List.map_cons, List.map_nil, this, if_true])

theorem run_hsetnx_absent (f v : Bytes) (hp : h.lookup f = none) :
    (run "hsetnx" ctx [key, f, v] db).reply = .int 1 ∧
    (run "hsetnx" ctx [key, f, v] db).db.live = putAt db.live key (.hash (h ++ [(f, v)])) e ∧
    (run "hsetnx" ctx [key, f, v] db).failed = false :=
  run_hash_write ctx key nd "hsetnx" Cmd.hsetnx 2 rfl (by decide) [f, v] (by show ArityOK _ 3; decide) hv (by
    have hany : h.any (fun p => p.1 == f) = false := by rw [any_eq_isSome, hp]; rfl
    have : (Cmd.hashOf (ciAt [hashCI key h e] 0)).any (fun p => p.1 == f) = false := hany
    simp only [Cmd.hsetnx, List.map_cons, List.map_nil, this, Bool.false_eq_true, if_false]
    have hb := body_hset ctx key h e [f, v]
    simp only [List.map_cons, List.map_nil] at hb
    rw [hb]
    simp [Cmd.fieldPairs, hsetRec, hany, ZSet.dictSet])

theorem run_hget (f : Bytes) :
    (run "hget" ctx [key, f] db).reply = Reply.ofOptBulk (h.lookup f) ∧
    (run "hget" ctx [key, f] db).db.live = db.live ∧
    (run "hget" ctx [key, f] db).failed = false :=
  run_hash_read ctx key nd "hget" Cmd.hget 1 rfl (by decide) [f] (by show ArityOK _ 2; decide) hv rfl

theorem run_hexists (f : Bytes) :
    (run "hexists" ctx [key, f] db).reply = .int (if (h.lookup f).isSome then 1 else 0) ∧
    (run "hexists" ctx [key, f] db).db.live = db.live ∧
    (run "hexists" ctx [key, f] db).failed = false :=
  run_hash_read ctx key nd "hexists" Cmd.hexists 1 rfl (by decide) [f] (by show ArityOK _ 2; decide) hv (by
    rw [← any_eq_isSome]; rfl)

theorem run_hstrlen (f : Bytes) :
    (run "hstrlen" ctx [key, f] db).reply = .int ((h.lookup f).getD []).length ∧
    (run "hstrlen" ctx [key, f] db).db.live = db.live ∧
    (run "hstrlen" ctx [key, f] db).failed = false :=
  run_hash_read ctx key nd "hstrlen" Cmd.hstrlen 1 rfl (by decide) [f] (by show ArityOK _ 2; decide) hv rfl

theorem run_hlen :
    (run "hlen" ctx [key] db).reply = .int h.length ∧
    (run "hlen" ctx [key] db).db.live = db.live ∧
    (run "hlen" ctx [key] db).failed = false :=
  run_hash_read ctx key nd "hlen" Cmd.hlen 0 rfl (by decide) [] (by show ArityOK _ 1; decide) hv rfl

theorem run_hgetall :
    (run "hgetall" ctx [key] db).reply = .arr (h.flatMap fun p => [.bulk p.1, .bulk p.2]) ∧
    (run "hgetall" ctx [key] db).db.live = db.live ∧
    (run "hgetall" ctx [key] db).failed = false :=
  run_hash_read ctx key nd "hgetall" Cmd.hgetall 0 rfl (by decide) [] (by show ArityOK _ 1; decide) hv rfl

theorem run_hkeys :
    (run "hkeys" ctx [key] db).reply = Reply.bulks (h.map Prod.fst) ∧
    (run "hkeys" ctx [key] db).db.live = db.live ∧
    (run "hkeys" ctx [key] db).failed = false :=
  run_hash_read ctx key nd "hkeys" Cmd.hkeys 0 rfl (by decide) [] (by show ArityOK _ 1; decide) hv rfl

theorem run_hvals :
    (run "hvals" ctx [key] db).reply = Reply.bulks (h.map Prod.snd) ∧
    (run "hvals" ctx [key] db).db.live = db.live ∧
    (run "hvals" ctx [key] db).failed = false :=
  run_hash_read ctx key nd "hvals" Cmd.hvals 0 rfl (by decide) [] (by show ArityOK _ 1; decide) hv rfl

theorem run_hmget (f : Bytes) (rest : List Bytes) :
    (run "hmget" ctx (key :: f :: rest) db).reply =
      .arr ((f :: rest).map fun x => Reply.ofOptBulk (h.lookup x)) ∧
    (run "hmget" ctx (key :: f :: rest) db).db.live = db.live ∧
    (run "hmget" ctx (key :: f :: rest) db).failed = false :=
  run_hash_read ctx key nd "hmget" Cmd.hmget 1 rfl (by decide) (f :: rest)
    (arity_var "hmget" _ 2 rfl rfl (by simp)) hv (by
      simp only [Cmd.hmget, rawArgs_map]; rfl)

theorem run_hdel_some (f : Bytes) (rest : List Bytes) (hpos : (hdelRec h (f :: rest)).2 > 0) :
    (run "hdel" ctx (key :: f :: rest) db).reply = .int (hdelRec h (f :: rest)).2 ∧
    (run "hdel" ctx (key :: f :: rest) db).db.live =
      putAt db.live key (.hash (hdelRec h (f :: rest)).1) e ∧
    (run "hdel" ctx (key :: f :: rest) db).failed = false :=
  run_hash_write ctx key nd "hdel" Cmd.hdel 1 rfl (by decide) (f :: rest)
    (arity_var "hdel" _ 2 rfl rfl (by simp)) hv (by rw [body_hdel, if_pos hpos])

theorem run_hdel_none (f : Bytes) (rest : List Bytes) (hz : (hdelRec h (f :: rest)).2 = 0) :
    (run "hdel" ctx (key :: f :: rest) db).reply = .int 0 ∧
    (run "hdel" ctx (key :: f :: rest) db).db.live = db.live ∧
    (run "hdel" ctx (key :: f :: rest) db).failed = false :=
  run_hash_read ctx key nd "hdel" Cmd.hdel 1 rfl (by decide) (f :: rest)
    (arity_var "hdel" _ 2 rfl rfl (by simp)) hv (by rw [body_hdel, if_neg (by omega)])

end hashcmds

/-! ### HINCRBY / HINCRBYFLOAT -/

theorem hincrby_apply (live : Live) (key f nb : Bytes) :
    applyL (sigOf "hincrby") [key, f, nb] live =
      match Conv.int nb with
      | .error e => .error e
      | .ok n =>
        if typeOK live (some .hash) key = true then
          .ok (.ok [.key 0, .raw f, .int n] [ciOf live (some .hash) key])
        else .error Msgs.WRONGTYPE_MSG := by
  have : sigOf "hincrby" =
      ⟨"hincrby", [.key (some .hash) .unspecified, .bytes, .int], [], false, 3, 0, false⟩ := rfl
  rw [this]
  simp only [applyL, Sig.checkArity, Sig.types, applyT, List.length_cons, List.length_nil, List.isEmpty_nil,
    Nat.sub_self, List.range_zero, List.map_nil, List.append_nil, List.zip_cons_cons, List.zip_nil_right, p1,
    Conv.decode]
  cases hi : Conv.int nb with
  | error e => simp [Except.map]
  | ok n =>
    by_cases hk : typeOK live (some .hash) key = true
    · simp [Except.map, p2, hk]
    · simp [Except.map, p2, hk]

section hincr
variable (ctx : Ctx) (key f nb : Bytes) {db : Db} (nd : NodupKeys db.dict)
include nd

theorem run_hincrby_badarg {er : Err} (hnb : Conv.int nb = .error er) :
    (run "hincrby" ctx [key, f, nb] db).reply = .err (strBytes er) ∧
    (run "hincrby" ctx [key, f, nb] db).db.live = db.live ∧
    (run "hincrby" ctx [key, f, nb] db).failed = true := by
  apply run_apply_err _ _ ctx _ nd
  rw [hincrby_apply, hnb]

theorem run_hincrby_wrongtype {amount : Int} (hnb : Conv.int nb = .ok amount)
    (hv : hashView db.live key = none) :
    (run "hincrby" ctx [key, f, nb] db).reply = .err (strBytes Msgs.WRONGTYPE_MSG) ∧
    (run "hincrby" ctx [key, f, nb] db).db.live = db.live ∧
    (run "hincrby" ctx [key, f, nb] db).failed = true := by
  apply run_apply_err _ _ ctx _ nd
  rw [hincrby_apply, hnb]
  simp [hashView_none hv]

variable {h : HashV} {e : Option Int} (hv : hashView db.live key = some (h, e)) {amount : Int}
  (hnb : Conv.int nb = .ok amount)
include hv hnb

omit nd in
theorem hincrby_happ :
    applyL (sigOf "hincrby") [key, f, nb] db.live =
      .ok (.ok [.key 0, .raw f, .int amount] [ciOf db.live (some .hash) key]) := by
  rw [hincrby_apply, hnb]
  simp [(hashView_some hv).1]

theorem run_hincrby_notint {er : Err} (hcur : Conv.int ((h.lookup f).getD (strBytes "0")) = .error er) :
    (run "hincrby" ctx [key, f, nb] db).reply = .err (strBytes Msgs.HASH_NOT_INT_MSG) ∧
    (run "hincrby" ctx [key, f, nb] db).db.live = db.live ∧
    (run "hincrby" ctx [key, f, nb] db).failed = true := by
  apply run1_err (sigOf "hincrby") Cmd.hincrby ctx _ _ _ key nd (hincrby_happ key f nb hv hnb)
  rw [(hashView_some hv).2]
  simp only [Cmd.hincrby]
  show (match Conv.int ((h.lookup f).getD (strBytes "0")) with | .error e => _ | .ok cur => _) = _
  rw [hcur]

theorem run_hincrby_overflow {cur : Int} (hcur : Conv.int ((h.lookup f).getD (strBytes "0")) = .ok cur)
    (hov : ¬ (Conv.INT_MIN ≤ cur + amount ∧ cur + amount ≤ Conv.INT_MAX)) :
    (run "hincrby" ctx [key, f, nb] db).reply = .err (strBytes Msgs.OVERFLOW_MSG) ∧
    (run "hincrby" ctx [key, f, nb] db).db.live = db.live ∧
    (run "hincrby" ctx [key, f, nb] db).failed = true := by
  apply run1_err (sigOf "hincrby") Cmd.hincrby ctx _ _ _ key nd (hincrby_happ key f nb hv hnb)
  rw [(hashView_some hv).2]
  simp only [Cmd.hincrby]
  show (match Conv.int ((h.lookup f).getD (strBytes "0")) with | .error e => _ | .ok cur => _) = _
  rw [hcur]
  simp only [Conv.encodeInt, hov, if_false]

theorem run_hincrby_ok {cur : Int} (hcur : Conv.int ((h.lookup f).getD (strBytes "0")) = .ok cur)
    (hin : Conv.INT_MIN ≤ cur + amount ∧ cur + amount ≤ Conv.INT_MAX) :
    (run "hincrby" ctx [key, f, nb] db).reply = .int (cur + amount) ∧
    (run "hincrby" ctx [key, f, nb] db).db.live =
      putAt db.live key (.hash (ZSet.dictSet h f (intBytes (cur + amount)))) e ∧
    (run "hincrby" ctx [key, f, nb] db).failed = false := by
  have := run1_write (sigOf "hincrby") Cmd.hincrby ctx _ _ _ key nd (hincrby_happ key f nb hv hnb)
    (r := .int (cur + amount)) (v' := .hash (ZSet.dictSet h f (intBytes (cur + amount)))) (by
      rw [(hashView_some hv).2]
      simp only [Cmd.hincrby]
      show (match Conv.int ((h.lookup f).getD (strBytes "0")) with | .error e => _ | .ok cur => _) = _
      rw [hcur]
      simp only [Conv.encodeInt, hin, and_self, if_true]
      rfl)
  rw [(hashView_some hv).2] at this
  exact this

end hincr

section hincrf
variable (ctx : Ctx) (key f amt : Bytes) {db : Db} (nd : NodupKeys db.dict)
  {h : HashV} {e : Option Int} (hv : hashView db.live key = some (h, e))
include nd hv

theorem run_hincrbyfloat_badcur {er : Err}
    (hcur : Conv.float ((h.lookup f).getD (strBytes "0")) = .error er) :
    (run "hincrbyfloat" ctx [key, f, amt] db).reply = .err (strBytes Msgs.HASH_NOT_FLOAT_MSG) ∧
    (run "hincrbyfloat" ctx [key, f, amt] db).db.live = db.live ∧
    (run "hincrbyfloat" ctx [key, f, amt] db).failed = true :=
  run_hash_err ctx key nd "hincrbyfloat" Cmd.hincrbyfloat 2 rfl (by decide) [f, amt]
    (by show ArityOK _ 3; decide) hv (by
      simp only [Cmd.hincrbyfloat, List.map_cons, List.map_nil]
      show (match Conv.float ((h.lookup f).getD (strBytes "0")) with | .error e => _ | .ok cur => _) = _
      rw [hcur])

theorem run_hincrbyfloat_badarg {cur : Dbl} {er : Err}
    (hcur : Conv.float ((h.lookup f).getD (strBytes "0")) = .ok cur) (ha : Conv.float amt = .error er) :
    (run "hincrbyfloat" ctx [key, f, amt] db).reply = .err (strBytes er) ∧
    (run "hincrbyfloat" ctx [key, f, amt] db).db.live = db.live ∧
    (run "hincrbyfloat" ctx [key, f, amt] db).failed = true :=
  run_hash_err ctx key nd "hincrbyfloat" Cmd.hincrbyfloat 2 rfl (by decide) [f, amt]
    (by show ArityOK _ 3; decide) hv (by
      simp only [Cmd.hincrbyfloat, List.map_cons, List.map_nil]
      show (match Conv.float ((h.lookup f).getD (strBytes "0")) with | .error e => _ | .ok cur => _) = _
      rw [hcur]
      simp only [ha])

theorem run_hincrbyfloat_nonfinite {cur a : Dbl}
    (hcur : Conv.float ((h.lookup f).getD (strBytes "0")) = .ok cur) (ha : Conv.float amt = .ok a)
    (hfin : (Dbl.add cur a).isFinite = false) :
    (run "hincrbyfloat" ctx [key, f, amt] db).reply = .err (strBytes Msgs.NONFINITE_MSG) ∧
    (run "hincrbyfloat" ctx [key, f, amt] db).db.live = db.live ∧
    (run "hincrbyfloat" ctx [key, f, amt] db).failed = true :=
  run_hash_err ctx key nd "hincrbyfloat" Cmd.hincrbyfloat 2 rfl (by decide) [f, amt]
    (by show ArityOK _ 3; decide) hv (by
      simp only [Cmd.hincrbyfloat, List.map_cons, List.map_nil]
      show (match Conv.float ((h.lookup f).getD (strBytes "0")) with | .error e => _ | .ok cur => _) = _
      rw [hcur]
      simp only [ha, hfin, Bool.not_false, if_true])

theorem run_hincrbyfloat_ok {cur a : Dbl}
    (hcur : Conv.float ((h.lookup f).getD (strBytes "0")) = .ok cur) (ha : Conv.float amt = .ok a)
    (hfin : (Dbl.add cur a).isFinite = true) :
    (run "hincrbyfloat" ctx [key, f, amt] db).reply = .bulk (Cmd.encodeFloat ctx.version (Dbl.add cur a) true) ∧
    (run "hincrbyfloat" ctx [key, f, amt] db).db.live =
      putAt db.live key (.hash (ZSet.dictSet h f (Cmd.encodeFloat ctx.version (Dbl.add cur a) true))) e ∧
    (run "hincrbyfloat" ctx [key, f, amt] db).failed = false :=
  run_hash_write ctx key nd "hincrbyfloat" Cmd.hincrbyfloat 2 rfl (by decide) [f, amt]
    (by show ArityOK _ 3; decide) hv (by
      simp only [Cmd.hincrbyfloat, List.map_cons, List.map_nil]
      show (match Conv.float ((h.lookup f).getD (strBytes "0")) with | .error e => _ | .ok cur => _) = _
      rw [hcur]
      simp only [ha, hfin, Bool.not_true, Bool.false_eq_true, if_false]
      rfl)

end hincrf

/-! ### the single-key set commands -/

/-- what a set command sees at `key`: the stored members (none when the key is missing) and the
deadline; `none` when another type is stored -/
def setView (live : Live) (key : Bytes) : Option (List Bytes × Option Int) :=
  match live key with
  | none => some ([], none)
  | some it =>
    match it.value with
    | .set s => some (s, it.expireat)
    | _ => none

theorem setView_none {live : Live} {key : Bytes} (h : setView live key = none) :
    typeOK live (some .set) key = false := by
  unfold setView at h
  unfold typeOK
  cases hl : live key with
  | none => rw [hl] at h; cases h
  | some it =>
    rw [hl] at h
    simp only at h ⊢
    cases hv : it.value <;> rw [hv] at h <;> simp [Value.ty] at h ⊢

theorem setView_some {live : Live} {key : Bytes} {s : List Bytes} {e : Option Int}
    (hv : setView live key = some (s, e)) :
    typeOK live (some .set) key = true ∧
    ciOf live (some .set) key = ⟨key, some (.set s), e, false, false⟩ := by
  unfold setView at hv
  unfold typeOK ciOf
  cases hl : live key with
  | none =>
    rw [hl] at hv
    simp only [Option.some.injEq, Prod.mk.injEq] at hv
    obtain ⟨rfl, rfl⟩ := hv
    exact ⟨rfl, rfl⟩
  | some it =>
    rw [hl] at hv
    simp only at hv ⊢
    split at hv
    · rename_i s' hval
      simp only [Option.some.injEq, Prod.mk.injEq] at hv
      obtain ⟨rfl, rfl⟩ := hv
      rw [hval]; exact ⟨by simp [Value.ty], rfl⟩
    · cases hv

theorem setView_of_typeOK {live : Live} {key : Bytes} (h : typeOK live (some .set) key = true) :
    ∃ s e, setView live key = some (s, e) := by
  cases hv : setView live key with
  | none => rw [setView_none hv] at h; cases h
  | some p => exact ⟨p.1, p.2, rfl⟩

def setCI (key : Bytes) (s : List Bytes) (e : Option Int) : CI := ⟨key, some (.set s), e, false, false⟩

section setrun
variable (ctx : Ctx) (key : Bytes) {db : Db} (nd : NodupKeys db.dict) {s : List Bytes} {e : Option Int}
include nd

theorem run_set_wrongtype (name : String) (body : Body) (a : Nat)
    (hfix : (sigOf name).fixed = .key (some .set) .unspecified :: List.replicate a .bytes)
    (hrep : ∀ t ∈ (sigOf name).rep, t = .bytes) (rest : List Bytes)
    (har : ArityOK (sigOf name) (rest.length + 1)) (hv : setView db.live key = none) :
    (runRegular (sigOf name) body ctx none (key :: rest) db).reply = .err (strBytes Msgs.WRONGTYPE_MSG) ∧
    (runRegular (sigOf name) body ctx none (key :: rest) db).db.live = db.live ∧
    (runRegular (sigOf name) body ctx none (key :: rest) db).failed = true :=
  run_key1_wrongtype _ _ a hfix hrep body ctx key rest nd har (setView_none hv)

theorem run_set_read (name : String) (body : Body) (a : Nat)
    (hfix : (sigOf name).fixed = .key (some .set) .unspecified :: List.replicate a .bytes)
    (hrep : ∀ t ∈ (sigOf name).rep, t = .bytes) (rest : List Bytes)
    (har : ArityOK (sigOf name) (rest.length + 1)) (hv : setView db.live key = some (s, e)) {r : Reply}
    (hb : body ctx (.key 0 :: rest.map .raw) [setCI key s e] = ret r [setCI key s e]) :
    (runRegular (sigOf name) body ctx none (key :: rest) db).reply = r ∧
    (runRegular (sigOf name) body ctx none (key :: rest) db).db.live = db.live ∧
    (runRegular (sigOf name) body ctx none (key :: rest) db).failed = false := by
  have hs := setView_some hv
  apply run_key1_read _ _ a hfix hrep body ctx key rest nd har hs.1
  rw [hs.2]; exact hb

theorem run_set_write (name : String) (body : Body) (a : Nat)
    (hfix : (sigOf name).fixed = .key (some .set) .unspecified :: List.replicate a .bytes)
    (hrep : ∀ t ∈ (sigOf name).rep, t = .bytes) (rest : List Bytes)
    (har : ArityOK (sigOf name) (rest.length + 1)) (hv : setView db.live key = some (s, e)) {r : Reply}
    {s' : List Bytes}
    (hb : body ctx (.key 0 :: rest.map .raw) [setCI key s e] =
      ret r [{ setCI key s e with val := some (.set s'), modified := true }]) :
    (runRegular (sigOf name) body ctx none (key :: rest) db).reply = r ∧
    (runRegular (sigOf name) body ctx none (key :: rest) db).db.live = putAt db.live key (.set s') e ∧
    (runRegular (sigOf name) body ctx none (key :: rest) db).failed = false := by
  have hs := setView_some hv
  have := run_key1_write _ _ a hfix hrep body ctx key rest nd har hs.1 (r := r) (v' := .set s') (by
    rw [hs.2]; exact hb)
  rw [hs.2] at this
  exact this

end setrun

section setcmds
variable (ctx : Ctx) (key : Bytes) {db : Db} (nd : NodupKeys db.dict) {s : List Bytes} {e : Option Int}
  (hv : setView db.live key = some (s, e))
include nd hv

theorem run_sadd (m : Bytes) (rest : List Bytes) :
    (run "sadd" ctx (key :: m :: rest) db).reply =
      .int ((Cmd.setUnion s (m :: rest)).length - s.length : Nat) ∧
    (run "sadd" ctx (key :: m :: rest) db).db.live = putAt db.live key (.set (Cmd.setUnion s (m :: rest))) e ∧
    (run "sadd" ctx (key :: m :: rest) db).failed = false :=
  run_set_write ctx key nd "sadd" Cmd.sadd 1 rfl (by decide) (m :: rest)
    (arity_var "sadd" _ 2 rfl rfl (by simp)) hv (by
      simp only [Cmd.sadd, Cmd.saddCore, rawArgs_map]; rfl)

theorem run_pfadd (rest : List Bytes) :
    (run "pfadd" ctx (key :: rest) db).reply =
      .int (if (Cmd.setUnion s rest).length - s.length > 0 then 1 else 0) ∧
    (run "pfadd" ctx (key :: rest) db).db.live = putAt db.live key (.set (Cmd.setUnion s rest)) e ∧
    (run "pfadd" ctx (key :: rest) db).failed = false :=
  run_set_write ctx key nd "pfadd" Cmd.pfadd 0 rfl (by decide) rest
    (arity_var "pfadd" _ 1 rfl rfl (by simp)) hv (by
      simp only [Cmd.pfadd, Cmd.saddCore, rawArgs_map]; rfl)

theorem run_srem_some (m : Bytes) (rest : List Bytes)
    (hpos : s.length - (Cmd.setDiff s (m :: rest)).length > 0) :
    (run "srem" ctx (key :: m :: rest) db).reply =
      .int (s.length - (Cmd.setDiff s (m :: rest)).length : Nat) ∧
    (run "srem" ctx (key :: m :: rest) db).db.live = putAt db.live key (.set (Cmd.setDiff s (m :: rest))) e ∧
    (run "srem" ctx (key :: m :: rest) db).failed = false :=
  run_set_write ctx key nd "srem" Cmd.srem 1 rfl (by decide) (m :: rest)
    (arity_var "srem" _ 2 rfl rfl (by simp)) hv (by
      simp only [Cmd.srem, rawArgs_map]
      have : Cmd.setOf (ciAt [setCI key s e] 0) = s := rfl
      rw [this, if_pos hpos]; rfl)

theorem run_srem_none (m : Bytes) (rest : List Bytes)
    (hz : s.length - (Cmd.setDiff s (m :: rest)).length = 0) :
    (run "srem" ctx (key :: m :: rest) db).reply = .int 0 ∧
    (run "srem" ctx (key :: m :: rest) db).db.live = db.live ∧
    (run "srem" ctx (key :: m :: rest) db).failed = false :=
  run_set_read ctx key nd "srem" Cmd.srem 1 rfl (by decide) (m :: rest)
    (arity_var "srem" _ 2 rfl rfl (by simp)) hv (by
      simp only [Cmd.srem, rawArgs_map]
      have : Cmd.setOf (ciAt [setCI key s e] 0) = s := rfl
      rw [this, if_neg (by omega)])

theorem run_scard :
    (run "scard" ctx [key] db).reply = .int s.length ∧
    (run "scard" ctx [key] db).db.live = db.live ∧
    (run "scard" ctx [key] db).failed = false :=
  run_set_read ctx key nd "scard" Cmd.scard 0 rfl (by decide) [] (by show ArityOK _ 1; decide) hv rfl

theorem run_smembers :
    (run "smembers" ctx [key] db).reply = Reply.bulks s ∧
    (run "smembers" ctx [key] db).db.live = db.live ∧
    (run "smembers" ctx [key] db).failed = false :=
  run_set_read ctx key nd "smembers" Cmd.smembers 0 rfl (by decide) [] (by show ArityOK _ 1; decide) hv rfl

theorem run_sismember (m : Bytes) :
    (run "sismember" ctx [key, m] db).reply = .int (if s.contains m then 1 else 0) ∧
    (run "sismember" ctx [key, m] db).db.live = db.live ∧
    (run "sismember" ctx [key, m] db).failed = false :=
  run_set_read ctx key nd "sismember" Cmd.sismember 1 rfl (by decide) [m] (by show ArityOK _ 2; decide) hv rfl

theorem run_smismember (m : Bytes) (rest : List Bytes) :
    (run "smismember" ctx (key :: m :: rest) db).reply =
      .arr ((m :: rest).map fun x => .int (if s.contains x then 1 else 0)) ∧
    (run "smismember" ctx (key :: m :: rest) db).db.live = db.live ∧
    (run "smismember" ctx (key :: m :: rest) db).failed = false :=
  run_set_read ctx key nd "smismember" Cmd.smismember 1 rfl (by decide) (m :: rest)
    (arity_var "smismember" _ 2 rfl rfl (by simp)) hv (by
      simp only [Cmd.smismember, rawArgs_map]; rfl)

end setcmds

/-! ### multi-key set commands -/

theorem typeOK_none (live : Live) (k : Bytes) : typeOK live none k = true := by
  unfold typeOK; rfl

theorem p2_nil (live : Live) (accA : List Arg) (accC : List CI) :
    p2 live [] accA accC = .ok (accA.reverse, accC.reverse) := rfl

theorem applyT_keys (live : Live) (ty : Option Ty) (keys : List Bytes) (n : Nat) (hn : keys.length ≤ n) :
    applyT (List.replicate n (.key ty .unspecified)) keys live =
      if keys.all (typeOK live ty) = true then
        .ok (.ok ((List.range' 0 keys.length).map .key) (keys.map (ciOf live ty)))
      else .error Msgs.WRONGTYPE_MSG := by
  unfold applyT
  rw [p1_plain live _ _ (by
    intro t ht
    rw [(List.mem_replicate.1 ht).2]; rfl)]
  have htake : keys.take (List.replicate n (ArgTy.key ty .unspecified)).length = keys :=
    List.take_of_length_le (by simp; omega)
  simp only [htake, List.reverse_nil, List.nil_append]
  rw [zip_map_replicate _ _ _ _ hn]
  have := p2_keys live ty .unspecified keys [] [] []
  simp only [List.append_nil, List.length_nil, p2_nil, List.reverse_reverse] at this
  rw [this]
  by_cases hk : keys.all (typeOK live ty) = true
  · simp only [hk, if_true]
  · simp [hk]

theorem applyT_store (live : Live) (dst : Bytes) (keys : List Bytes) (n : Nat) (hn : keys.length ≤ n) :
    applyT (.key none .unspecified :: List.replicate n (.key (some .set) .unspecified)) (dst :: keys) live =
      if keys.all (typeOK live (some .set)) = true then
        .ok (.ok ((List.range' 0 (keys.length + 1)).map .key)
          (ciOf live none dst :: keys.map (ciOf live (some .set))))
      else .error Msgs.WRONGTYPE_MSG := by
  unfold applyT
  rw [p1_plain live _ _ (by
    intro t ht
    rcases List.mem_cons.1 ht with rfl | ht
    · rfl
    · rw [(List.mem_replicate.1 ht).2]; rfl)]
  have htake : (dst :: keys).take
      (ArgTy.key none .unspecified :: List.replicate n (ArgTy.key (some .set) .unspecified)).length
      = dst :: keys := List.take_of_length_le (by simp; omega)
  simp only [htake, List.reverse_nil, List.nil_append, List.map_cons, List.zip_cons_cons]
  rw [zip_map_replicate _ _ _ _ hn]
  have h1 := p2_keys live none .unspecified [dst]
    (keys.map (fun k => (Arg.raw k, ArgTy.key (some .set) .unspecified))) [] []
  simp only [List.map_cons, List.map_nil, List.cons_append, List.nil_append, List.all_cons, List.all_nil,
    typeOK_none, Bool.and_true, if_true, List.length_nil, List.length_cons, List.range'_succ, List.range'_zero,
    List.reverse_cons, List.reverse_nil, List.append_nil] at h1
  rw [h1]
  have h2 := p2_keys live (some .set) .unspecified keys [] [Arg.key 0] [ciOf live none dst]
  simp only [List.append_nil, p2_nil, List.length_cons, List.length_nil, List.reverse_append,
    List.reverse_reverse, List.reverse_cons, List.reverse_nil, List.nil_append, List.singleton_append] at h2
  rw [h2]
  by_cases hk : keys.all (typeOK live (some .set)) = true
  · simp only [hk, if_true]
    have : List.range' 0 (keys.length + 1) = 0 :: List.range' 1 keys.length := by
      rw [List.range'_succ]
    rw [this]; simp
  · simp [hk]

theorem applyL_keys (s : Sig) (ty : Option Ty) (a : Nat)
    (hfix : s.fixed = List.replicate a (.key ty .unspecified)) (hrep : s.rep = [.key ty .unspecified])
    (live : Live) (keys : List Bytes) (har : ArityOK s keys.length) :
    applyL s keys live =
      if keys.all (typeOK live ty) = true then
        .ok (.ok ((List.range' 0 keys.length).map .key) (keys.map (ciOf live ty)))
      else .error Msgs.WRONGTYPE_MSG := by
  rw [applyL_of_arity live har, types_eq s _ (.key ty .unspecified) (by rw [hrep]; simp)
    (fun h => by rw [hrep] at h; cases h), hfix]
  have hge := arity_ge har
  rw [hfix] at hge
  simp only [List.length_replicate] at hge ⊢
  rw [List.replicate_append_replicate]
  exact applyT_keys live ty keys _ (by omega)

theorem applyL_store (s : Sig)
    (hfix : s.fixed = [.key none .unspecified, .key (some .set) .unspecified])
    (hrep : s.rep = [.key (some .set) .unspecified])
    (live : Live) (dst : Bytes) (keys : List Bytes) (har : ArityOK s (keys.length + 1)) :
    applyL s (dst :: keys) live =
      if keys.all (typeOK live (some .set)) = true then
        .ok (.ok ((List.range' 0 (keys.length + 1)).map .key)
          (ciOf live none dst :: keys.map (ciOf live (some .set))))
      else .error Msgs.WRONGTYPE_MSG := by
  have har' : ArityOK s (dst :: keys).length := har
  rw [applyL_of_arity live har', types_eq s _ (.key (some .set) .unspecified) (by rw [hrep]; simp)
    (fun h => by rw [hrep] at h; cases h), hfix]
  have hge := arity_ge har
  rw [hfix] at hge
  simp only [List.length_cons, List.length_nil] at hge ⊢
  have : [ArgTy.key none .unspecified, ArgTy.key (some Ty.set) .unspecified] ++
      List.replicate (keys.length + 1 - (0 + 1 + 1)) (ArgTy.key (some Ty.set) .unspecified) =
      ArgTy.key none .unspecified :: List.replicate (keys.length + 1 - 1) (ArgTy.key (some Ty.set) .unspecified) := by
    have : keys.length + 1 - 1 = (keys.length + 1 - (0 + 1 + 1)) + 1 := by omega
    rw [this, List.replicate_succ]; rfl
  rw [this]
  exact applyT_store live dst keys _ (by omega)

/-- the members a set command sees at `k` (empty when missing) -/
def setAt (live : Live) (k : Bytes) : List Bytes := Cmd.setOf (ciOf live (some .set) k)

theorem setAt_of_view {live : Live} {k : Bytes} {s : List Bytes} {e : Option Int}
    (h : setView live k = some (s, e)) : setAt live k = s := by
  unfold setAt; rw [(setView_some h).2]; rfl

theorem keyIdxsS_read (l : List Nat) : Cmd.setopRead.keyIdxsS (l.map Arg.key) = l := by
  induction l with
  | nil => rfl
  | cons x xs ih => simp [Cmd.setopRead.keyIdxsS, ih]

theorem keyIdxsS_store (l : List Nat) : Cmd.setopStore.keyIdxsS (l.map Arg.key) = l := by
  induction l with
  | nil => rfl
  | cons x xs ih => simp [Cmd.setopStore.keyIdxsS, ih]

theorem map_range'_ciAt {β} (pre l : List CI) (g : CI → β) :
    (List.range' pre.length l.length).map (fun i => g (ciAt (pre ++ l) i)) = l.map g := by
  apply List.ext_getElem
  · simp
  · intro i h1 h2
    simp only [List.getElem_map, List.getElem_range', Nat.one_mul, ciAt]
    have hi : i < l.length := by simpa using h2
    rw [List.getD_eq_getElem?_getD, List.getElem?_append_right (by omega)]
    have : pre.length + i - pre.length = i := by omega
    rw [this, List.getElem?_eq_getElem hi]
    rfl

theorem wbLive_clean (live : Live) (cs : List CI) (h : ∀ c ∈ cs, c.modified = false) : wbLive live cs = live := by
  induction cs with
  | nil => rfl
  | cons c cs ih =>
    simp only [wbLive, List.foldl_cons]
    have : wb1 live c = live := by simp [wb1, h c (by simp)]
    rw [this]
    exact ih (fun c' hc' => h c' (by simp [hc']))

theorem ciOf_ok {db : Db} (nd : NodupKeys db.dict) (ty : Option Ty) (k : Bytes) :
    (ciOf db.live ty k).ExpModSound ∧ notExp db.time (ciOf db.live ty k).expireat :=
  ⟨CI.Clean.sound (ciOf_clean _ _ _), ciOf_notExp nd ty k⟩

theorem body_setopRead (op : Cmd.SetOp) (ctx : Ctx) (live : Live) (k : Bytes) (ks : List Bytes) :
    Cmd.setopRead op ctx ((List.range' 0 (k :: ks).length).map Arg.key)
        ((k :: ks).map (ciOf live (some .set))) =
      ret (Reply.bulks (Cmd.calcSetop op (setAt live k) (ks.map (setAt live))))
        ((k :: ks).map (ciOf live (some .set))) := by
  have hr : List.range' 0 (k :: ks).length = 0 :: List.range' 1 ks.length := by
    simp [List.range'_succ]
  unfold Cmd.setopRead
  rw [keyIdxsS_read, hr]
  simp only [List.map_cons]
  have := map_range'_ciAt [ciOf live (some .set) k] (ks.map (ciOf live (some .set))) Cmd.setOf
  simp only [List.length_cons, List.length_nil, List.length_map, List.cons_append, List.nil_append,
    List.map_map, Nat.zero_add] at this
  rw [this]
  rfl

section setop
variable (ctx : Ctx) {db : Db} (nd : NodupKeys db.dict)
include nd

theorem run_setopRead (name : String) (op : Cmd.SetOp)
    (hfix : (sigOf name).fixed = List.replicate 1 (.key (some .set) .unspecified))
    (hrep : (sigOf name).rep = [.key (some .set) .unspecified])
    (k : Bytes) (ks : List Bytes) :
    let out := runRegular (sigOf name) (Cmd.setopRead op) ctx none (k :: ks) db
    (if (k :: ks).all (typeOK db.live (some .set)) = true then
      out.reply = Reply.bulks (Cmd.calcSetop op (setAt db.live k) (ks.map (setAt db.live))) ∧ out.failed = false
     else out.reply = .err (strBytes Msgs.WRONGTYPE_MSG) ∧ out.failed = true) ∧
    out.db.live = db.live := by
  intro out
  have har : ArityOK (sigOf name) (k :: ks).length :=
    arity_var name _ 1 (by rw [hfix]; rfl) (by rw [hrep]; rfl) (by simp)
  have happ := applyL_keys (sigOf name) (some .set) 1 hfix hrep db.live (k :: ks) har
  by_cases hall : (k :: ks).all (typeOK db.live (some .set)) = true
  · rw [if_pos hall] at happ ⊢
    have := run_ok (sigOf name) (Cmd.setopRead op) ctx _ nd happ (body_setopRead op ctx db.live k ks) (by
      intro c hc
      simp only [ret] at hc
      obtain ⟨k', _, rfl⟩ := List.mem_map.1 hc
      exact ciOf_ok nd _ _)
    refine ⟨⟨this.1, this.2.2⟩, ?_⟩
    rw [this.2.1]
    apply wbLive_clean
    intro c hc
    simp only [ret] at hc
    obtain ⟨k', _, rfl⟩ := List.mem_map.1 hc
    exact (ciOf_clean _ _ _).1
  · rw [if_neg hall] at happ ⊢
    have := run_apply_err (sigOf name) (Cmd.setopRead op) ctx _ nd happ
    exact ⟨⟨this.1, this.2.2⟩, this.2.1⟩

end setop

theorem wb1_setValue (live : Live) (c : CI) (v : Value) :
    wb1 live (c.setValue (some v)) = putAt live c.key v none := by
  funext k
  by_cases hk : k = c.key <;> simp [wb1, CI.setValue, stored, putAt, hk]

theorem wb1_update (live : Live) (c : CI) (v : Value) :
    wb1 live { c with val := some v, modified := true } = putAt live c.key v c.expireat := by
  funext k
  by_cases hk : k = c.key <;> simp [wb1, stored, putAt, hk]

section multi
variable (s : Sig) (body : Body) (ctx : Ctx) (raw : List Bytes) (args : List Arg) {db : Db}
  (nd : NodupKeys db.dict)
include nd

/-- a body that leaves all its (clean) `CommandItem`s alone -/
theorem run_cis_read (cis : List CI) (happ : applyL s raw db.live = .ok (.ok args cis))
    (hclean : ∀ c ∈ cis, c.modified = false ∧ c.expMod = false ∧ notExp db.time c.expireat)
    {r : Reply} (hb : body ctx args cis = ret r cis) :
    (runRegular s body ctx none raw db).reply = r ∧
    (runRegular s body ctx none raw db).db.live = db.live ∧
    (runRegular s body ctx none raw db).failed = false := by
  have := run_ok s body ctx _ nd happ hb (by
    intro c hc
    have := hclean c hc
    exact ⟨CI.Clean.sound ⟨this.1, this.2.1⟩, this.2.2⟩)
  refine ⟨this.1, ?_, this.2.2⟩
  rw [this.2.1]
  exact wbLive_clean _ _ (fun c hc => (hclean c hc).1)

/-- a body that assigns a new value to its first `CommandItem` (`item.value = v`) -/
theorem run_setValue0 (c0 : CI) (cs : List CI) (happ : applyL s raw db.live = .ok (.ok args (c0 :: cs)))
    (hclean : ∀ c ∈ cs, c.modified = false ∧ c.expMod = false ∧ notExp db.time c.expireat)
    {r : Reply} {v : Value} (hb : body ctx args (c0 :: cs) = ret r (c0.setValue (some v) :: cs)) :
    (runRegular s body ctx none raw db).reply = r ∧
    (runRegular s body ctx none raw db).db.live = putAt db.live c0.key v none ∧
    (runRegular s body ctx none raw db).failed = false := by
  have := run_ok s body ctx _ nd happ hb (by
    intro c hc
    simp only [ret, List.mem_cons] at hc
    rcases hc with rfl | hc
    · exact ⟨CI.setValue_sound _ _, fun t ht => by cases ht⟩
    · have := hclean c hc
      exact ⟨CI.Clean.sound ⟨this.1, this.2.1⟩, this.2.2⟩)
  refine ⟨this.1, ?_, this.2.2⟩
  rw [this.2.1]
  simp only [ret, wbLive, List.foldl_cons]
  rw [wb1_setValue]
  exact wbLive_clean _ _ (fun c hc => (hclean c hc).1)

/-- a body that modifies the value of its first `CommandItem` in place (`item.update(v)`): the deadline stays -/
theorem run_update0 (c0 : CI) (cs : List CI) (happ : applyL s raw db.live = .ok (.ok args (c0 :: cs)))
    (h0 : notExp db.time c0.expireat)
    (hclean : ∀ c ∈ cs, c.modified = false ∧ c.expMod = false ∧ notExp db.time c.expireat)
    {r : Reply} {v : Value} (hb : body ctx args (c0 :: cs) = ret r (c0.update v :: cs)) :
    (runRegular s body ctx none raw db).reply = r ∧
    (runRegular s body ctx none raw db).db.live = putAt db.live c0.key v c0.expireat ∧
    (runRegular s body ctx none raw db).failed = false := by
  have := run_ok s body ctx _ nd happ hb (by
    intro c hc
    simp only [ret, List.mem_cons] at hc
    rcases hc with rfl | hc
    · exact ⟨CI.update_sound _ _, h0⟩
    · have := hclean c hc
      exact ⟨CI.Clean.sound ⟨this.1, this.2.1⟩, this.2.2⟩)
  refine ⟨this.1, ?_, this.2.2⟩
  rw [this.2.1]
  simp only [ret, wbLive, List.foldl_cons]
  have hu : wb1 db.live (c0.update v) = putAt db.live c0.key v c0.expireat := wb1_update db.live c0 v
  rw [hu]
  exact wbLive_clean _ _ (fun c hc => (hclean c hc).1)

end multi

theorem ciOf_cleanExp {db : Db} (nd : NodupKeys db.dict) (ty : Option Ty) (k : Bytes) :
    (ciOf db.live ty k).modified = false ∧ (ciOf db.live ty k).expMod = false ∧
      notExp db.time (ciOf db.live ty k).expireat :=
  ⟨(ciOf_clean _ _ _).1, (ciOf_clean _ _ _).2, ciOf_notExp nd ty k⟩

theorem body_setopStore (op : Cmd.SetOp) (ctx : Ctx) (live : Live) (cd : CI) (k : Bytes) (ks : List Bytes) :
    Cmd.setopStore op ctx ((List.range' 0 ((k :: ks).length + 1)).map Arg.key)
        (cd :: (k :: ks).map (ciOf live (some .set))) =
      ret (.int (Cmd.calcSetop op (setAt live k) (ks.map (setAt live))).length)
        (cd.setValue (some (.set (Cmd.calcSetop op (setAt live k) (ks.map (setAt live))))) ::
          (k :: ks).map (ciOf live (some .set))) := by
  have hr : List.range' 0 ((k :: ks).length + 1) = 0 :: 1 :: List.range' 2 ks.length := by
    simp [List.range'_succ]
  unfold Cmd.setopStore
  rw [keyIdxsS_store, hr]
  simp only [List.map_cons]
  have := map_range'_ciAt [cd, ciOf live (some .set) k] (ks.map (ciOf live (some .set))) Cmd.setOf
  simp only [List.length_cons, List.length_nil, List.length_map, List.cons_append, List.nil_append,
    List.map_map, Nat.zero_add] at this
  rw [this]
  rfl

theorem body_pfcount (ctx : Ctx) (live : Live) (k : Bytes) (ks : List Bytes) :
    Cmd.pfcount ctx ((List.range' 0 (k :: ks).length).map Arg.key)
        ((k :: ks).map (ciOf live (some .set))) =
      ret (.int (Cmd.calcSetop .union (setAt live k) (ks.map (setAt live))).length)
        ((k :: ks).map (ciOf live (some .set))) := by
  unfold Cmd.pfcount Cmd.sunion
  rw [body_setopRead]
  simp [ret, Reply.bulks]

theorem filterMap_keys (g : Arg → Option Nat) (l : List Nat) (hg : ∀ i, g (Arg.key i) = some i) :
    (l.map Arg.key).filterMap g = l := by
  induction l with
  | nil => rfl
  | cons x xs ih => simp [List.filterMap_cons, hg, ih]

theorem body_pfmerge (ctx : Ctx) (live : Live) (d : Bytes) (ks : List Bytes) :
    Cmd.pfmerge ctx ((List.range' 0 (d :: ks).length).map Arg.key)
        ((d :: ks).map (ciOf live (some .set))) =
      ret .ok
        ((ciOf live (some .set) d).update
            (.set (Cmd.calcSetop .union (setAt live d) (ks.map (setAt live)))) ::
          ks.map (ciOf live (some .set))) := by
  have hr : List.range' 0 (d :: ks).length = 0 :: List.range' 1 ks.length := by
    simp [List.range'_succ]
  rw [hr]
  simp only [List.map_cons, Cmd.pfmerge]
  rw [filterMap_keys _ _ (fun i => rfl)]
  have := map_range'_ciAt [ciOf live (some .set) d] (ks.map (ciOf live (some .set))) Cmd.setOf
  simp only [List.length_cons, List.length_nil, List.length_map, List.cons_append, List.nil_append,
    List.map_map, Nat.zero_add] at this
  rw [this]
  rfl

section setop2
variable (ctx : Ctx) {db : Db} (nd : NodupKeys db.dict)
include nd

theorem run_setopStore (name : String) (op : Cmd.SetOp)
    (hfix : (sigOf name).fixed = [.key none .unspecified, .key (some .set) .unspecified])
    (hrep : (sigOf name).rep = [.key (some .set) .unspecified])
    (dst k : Bytes) (ks : List Bytes) :
    let out := runRegular (sigOf name) (Cmd.setopStore op) ctx none (dst :: k :: ks) db
    let ans := Cmd.calcSetop op (setAt db.live k) (ks.map (setAt db.live))
    if (k :: ks).all (typeOK db.live (some .set)) = true then
      out.reply = .int ans.length ∧ out.db.live = putAt db.live dst (.set ans) none ∧ out.failed = false
    else out.reply = .err (strBytes Msgs.WRONGTYPE_MSG) ∧ out.db.live = db.live ∧ out.failed = true := by
  intro out ans
  have har : ArityOK (sigOf name) ((k :: ks).length + 1) :=
    arity_var name _ 2 (by rw [hfix]; rfl) (by rw [hrep]; rfl) (by simp)
  have happ := applyL_store (sigOf name) hfix hrep db.live dst (k :: ks) har
  by_cases hall : (k :: ks).all (typeOK db.live (some .set)) = true
  · rw [if_pos hall] at happ ⊢
    have := run_setValue0 (sigOf name) (Cmd.setopStore op) ctx _ _ nd _ _ happ (by
      intro c hc
      obtain ⟨k', _, rfl⟩ := List.mem_map.1 hc
      exact ciOf_cleanExp nd _ _) (body_setopStore op ctx db.live _ k ks)
    rw [ciOf_key] at this
    exact this
  · rw [if_neg hall] at happ ⊢
    exact run_apply_err (sigOf name) (Cmd.setopStore op) ctx _ nd happ

theorem run_keys_read (name : String) (body : Body)
    (hfix : (sigOf name).fixed = List.replicate 1 (.key (some .set) .unspecified))
    (hrep : (sigOf name).rep = [.key (some .set) .unspecified])
    (k : Bytes) (ks : List Bytes) {r : Reply}
    (hb : body ctx ((List.range' 0 (k :: ks).length).map Arg.key) ((k :: ks).map (ciOf db.live (some .set))) =
      ret r ((k :: ks).map (ciOf db.live (some .set)))) :
    let out := runRegular (sigOf name) body ctx none (k :: ks) db
    (if (k :: ks).all (typeOK db.live (some .set)) = true then out.reply = r ∧ out.failed = false
     else out.reply = .err (strBytes Msgs.WRONGTYPE_MSG) ∧ out.failed = true) ∧
    out.db.live = db.live := by
  intro out
  have har : ArityOK (sigOf name) (k :: ks).length :=
    arity_var name _ 1 (by rw [hfix]; rfl) (by rw [hrep]; rfl) (by simp)
  have happ := applyL_keys (sigOf name) (some .set) 1 hfix hrep db.live (k :: ks) har
  by_cases hall : (k :: ks).all (typeOK db.live (some .set)) = true
  · rw [if_pos hall] at happ ⊢
    have := run_cis_read (sigOf name) body ctx _ _ nd _ happ (by
      intro c hc
      obtain ⟨k', _, rfl⟩ := List.mem_map.1 hc
      exact ciOf_cleanExp nd _ _) hb
    exact ⟨⟨this.1, this.2.2⟩, this.2.1⟩
  · rw [if_neg hall] at happ ⊢
    have := run_apply_err (sigOf name) body ctx _ nd happ
    exact ⟨⟨this.1, this.2.2⟩, this.2.1⟩

theorem run_pfcount (k : Bytes) (ks : List Bytes) :
    let out := run "pfcount" ctx (k :: ks) db
    (if (k :: ks).all (typeOK db.live (some .set)) = true then
      out.reply = .int (Cmd.calcSetop .union (setAt db.live k) (ks.map (setAt db.live))).length ∧
      out.failed = false
     else out.reply = .err (strBytes Msgs.WRONGTYPE_MSG) ∧ out.failed = true) ∧
    out.db.live = db.live :=
  run_keys_read ctx nd "pfcount" Cmd.pfcount rfl rfl k ks (body_pfcount ctx db.live k ks)

theorem run_pfmerge (dst k : Bytes) (ks : List Bytes) :
    let out := run "pfmerge" ctx (dst :: k :: ks) db
    let ans := Cmd.calcSetop .union (setAt db.live dst) ((k :: ks).map (setAt db.live))
    if (dst :: k :: ks).all (typeOK db.live (some .set)) = true then
      out.reply = .ok ∧
      out.db.live = putAt db.live dst (.set ans) (ciOf db.live (some .set) dst).expireat ∧ out.failed = false
    else out.reply = .err (strBytes Msgs.WRONGTYPE_MSG) ∧ out.db.live = db.live ∧ out.failed = true := by
  intro out ans
  have har : ArityOK (sigOf "pfmerge") (dst :: k :: ks).length :=
    arity_var "pfmerge" _ 2 rfl rfl (by simp)
  have happ := applyL_keys (sigOf "pfmerge") (some .set) 2 rfl rfl db.live (dst :: k :: ks) har
  by_cases hall : (dst :: k :: ks).all (typeOK db.live (some .set)) = true
  · rw [if_pos hall] at happ ⊢
    have := run_update0 (sigOf "pfmerge") Cmd.pfmerge ctx _ _ nd _ _ happ
      (ciOf_notExp nd _ _) (by
      intro c hc
      obtain ⟨k', _, rfl⟩ := List.mem_map.1 hc
      exact ciOf_cleanExp nd _ _) (body_pfmerge ctx db.live dst (k :: ks))
    rw [ciOf_key] at this
    exact this
  · rw [if_neg hall] at happ ⊢
    exact run_apply_err (sigOf "pfmerge") Cmd.pfmerge ctx _ nd happ

end setop2

/-! ### SMOVE -/

theorem smove_apply (live : Live) (src dst m : Bytes) :
    applyL (sigOf "smove") [src, dst, m] live =
      match live src with
      | none => .ok (.short (.int 0))
      | some _ =>
        if typeOK live (some .set) src = true ∧ typeOK live (some .set) dst = true then
          .ok (.ok [.key 0, .key 1, .raw m] [ciOf live (some .set) src, ciOf live (some .set) dst])
        else .error Msgs.WRONGTYPE_MSG := by
  have : sigOf "smove" =
      ⟨"smove", [.key (some .set) (.int 0), .key (some .set) .unspecified, .bytes], [], false, 3, 0, false⟩ := rfl
  rw [this]
  simp only [applyL, Sig.checkArity, Sig.types, applyT, List.length_cons, List.length_nil, List.isEmpty_nil,
    Nat.sub_self, List.range_zero, List.map_nil, List.append_nil, List.zip_cons_cons, List.zip_nil_right, p1,
    Conv.decode]
  cases hl : live src with
  | none => simp [Sig.missingReply]
  | some it =>
    by_cases h1 : typeOK live (some .set) src = true <;> by_cases h2 : typeOK live (some .set) dst = true <;>
      simp [p2, h1, h2]

section smove
variable (ctx : Ctx) (src dst m : Bytes) {db : Db} (nd : NodupKeys db.dict)
include nd

/-- a missing source answers 0 before the destination is even looked at -/
theorem run_smove_missing (hs : db.live src = none) :
    (run "smove" ctx [src, dst, m] db).reply = .int 0 ∧
    (run "smove" ctx [src, dst, m] db).db.live = db.live ∧
    (run "smove" ctx [src, dst, m] db).failed = false := by
  apply run_short _ _ ctx _ nd
  rw [smove_apply, hs]

theorem run_smove_wrongtype {it : Item} (hs : db.live src = some it)
    (hty : typeOK db.live (some .set) src = false ∨ typeOK db.live (some .set) dst = false) :
    (run "smove" ctx [src, dst, m] db).reply = .err (strBytes Msgs.WRONGTYPE_MSG) ∧
    (run "smove" ctx [src, dst, m] db).db.live = db.live ∧
    (run "smove" ctx [src, dst, m] db).failed = true := by
  apply run_apply_err _ _ ctx _ nd
  rw [smove_apply, hs]
  rcases hty with h | h <;> simp [h]

variable {it : Item} (hs : db.live src = some it) {ss sd : List Bytes} {es ed : Option Int}
  (hvs : setView db.live src = some (ss, es)) (hvd : setView db.live dst = some (sd, ed))
include hs hvs hvd

omit nd in
theorem smove_happ :
    applyL (sigOf "smove") [src, dst, m] db.live =
      .ok (.ok [.key 0, .key 1, .raw m] [setCI src ss es, setCI dst sd ed]) := by
  rw [smove_apply, hs]
  simp only [(setView_some hvs).1, (setView_some hvd).1, and_self, if_true, (setView_some hvs).2,
    (setView_some hvd).2]
  rfl

theorem run_smove_absent (hm : m ∉ ss) :
    (run "smove" ctx [src, dst, m] db).reply = .int 0 ∧
    (run "smove" ctx [src, dst, m] db).db.live = db.live ∧
    (run "smove" ctx [src, dst, m] db).failed = false := by
  apply run_cis_read (sigOf "smove") Cmd.smove ctx _ _ nd _ (smove_happ src dst m hs hvs hvd)
  · intro c hc
    simp only [List.mem_cons, List.mem_nil_iff, or_false] at hc
    rcases hc with rfl | rfl
    · have := ciOf_cleanExp nd (some .set) src
      rw [(setView_some hvs).2] at this; exact this
    · have := ciOf_cleanExp nd (some .set) dst
      rw [(setView_some hvd).2] at this; exact this
  · have : (Cmd.setOf (ciAt [setCI src ss es, setCI dst sd ed] 0)).contains m = false := by
      show ss.contains m = false
      simpa using hm
    simp only [Cmd.smove, this, Bool.not_false, if_true]

theorem run_smove_same (hm : m ∈ ss) (hsd : src = dst) :
    (run "smove" ctx [src, dst, m] db).reply = .int 1 ∧
    (run "smove" ctx [src, dst, m] db).db.live =
      putAt db.live src (.set (Cmd.setIns (ss.filter (· != m)) m)) es ∧
    (run "smove" ctx [src, dst, m] db).failed = false := by
  subst hsd
  have hvd' : (sd, ed) = (ss, es) := by
    have := hvs.symm.trans hvd
    simpa using this.symm
  obtain ⟨rfl, rfl⟩ := Prod.mk.inj hvd'
  have hc : (Cmd.setOf (ciAt [setCI src sd ed, setCI src sd ed] 0)).contains m = true := by
    show sd.contains m = true
    simpa using hm
  have hb : Cmd.smove ctx [.key 0, .key 1, .raw m] [setCI src sd ed, setCI src sd ed] =
      ret (.int 1)
        [{ setCI src sd ed with val := some (.set (Cmd.setIns (sd.filter (· != m)) m)), modified := true },
         { setCI src sd ed with val := some (.set (Cmd.setIns (sd.filter (· != m)) m)), modified := true }] := by
    simp only [Cmd.smove, hc, Bool.not_true, Bool.false_eq_true, if_false]
    have hk : ((ciAt [setCI src sd ed, setCI src sd ed] 0).key ==
        (ciAt [setCI src sd ed, setCI src sd ed] 1).key) = true := by
      show (src == src) = true
      simp
    rw [if_pos hk]
    rfl
  have hne : notExp db.time ed := by
    have := ciOf_notExp nd (some .set) src
    rw [(setView_some hvs).2] at this
    exact this
  have := run_ok (sigOf "smove") Cmd.smove ctx _ nd (smove_happ src src m hs hvs hvd) hb (by
    intro c hc
    simp only [ret, List.mem_cons, List.mem_nil_iff, or_false, or_self] at hc
    subst hc
    exact ⟨fun _ => rfl, hne⟩)
  refine ⟨this.1, this.2.1.trans ?_, this.2.2⟩
  simp only [ret, wbLive, List.foldl_cons, List.foldl_nil, wb1_update]
  funext k
  by_cases hk : k = src <;> simp [putAt, setCI, hk]

theorem run_smove_moved (hm : m ∈ ss) (hsd : src ≠ dst) :
    (run "smove" ctx [src, dst, m] db).reply = .int 1 ∧
    (run "smove" ctx [src, dst, m] db).db.live =
      putAt (putAt db.live src (.set (ss.filter (· != m))) es) dst (.set (Cmd.setIns sd m)) ed ∧
    (run "smove" ctx [src, dst, m] db).failed = false := by
  have hc : (Cmd.setOf (ciAt [setCI src ss es, setCI dst sd ed] 0)).contains m = true := by
    show ss.contains m = true
    simpa using hm
  have hb : Cmd.smove ctx [.key 0, .key 1, .raw m] [setCI src ss es, setCI dst sd ed] =
      ret (.int 1)
        [{ setCI src ss es with val := some (.set (ss.filter (· != m))), modified := true },
         { setCI dst sd ed with val := some (.set (Cmd.setIns sd m)), modified := true }] := by
    simp only [Cmd.smove, hc, Bool.not_true, Bool.false_eq_true, if_false]
    have hk : ((ciAt [setCI src ss es, setCI dst sd ed] 0).key ==
        (ciAt [setCI src ss es, setCI dst sd ed] 1).key) = false := by
      show (src == dst) = false
      simpa using hsd
    rw [if_neg (by rw [hk]; simp)]
    rfl
  have hnes : notExp db.time es := by
    have := ciOf_notExp nd (some .set) src
    rw [(setView_some hvs).2] at this
    exact this
  have hned : notExp db.time ed := by
    have := ciOf_notExp nd (some .set) dst
    rw [(setView_some hvd).2] at this
    exact this
  have := run_ok (sigOf "smove") Cmd.smove ctx _ nd (smove_happ src dst m hs hvs hvd) hb (by
    intro c hc
    simp only [ret, List.mem_cons, List.mem_nil_iff, or_false] at hc
    rcases hc with rfl | rfl
    · exact ⟨fun _ => rfl, hnes⟩
    · exact ⟨fun _ => rfl, hned⟩)
  refine ⟨this.1, this.2.1.trans ?_, this.2.2⟩
  simp only [ret, wbLive, List.foldl_cons, List.foldl_nil, wb1_update]
  rfl

end smove

/-! ## Part 6: the abstractions -/

/-- the hash stored at `key` as a finite map (missing key or other type: the empty map) -/
def hmap (db : Db) (key : Bytes) (f : Bytes) : Option Bytes :=
  match db.live key with
  | some ⟨.hash h, _⟩ => h.lookup f
  | _ => none

/-- the set stored at `key` as a membership predicate (missing key or other type: the empty set) -/
def smem (db : Db) (key : Bytes) (m : Bytes) : Prop :=
  match db.live key with
  | some ⟨.set s, _⟩ => m ∈ s
  | _ => False

theorem hmap_of_view {db : Db} {key : Bytes} {h : HashV} {e : Option Int}
    (hv : hashView db.live key = some (h, e)) (f : Bytes) : hmap db key f = h.lookup f := by
  unfold hashView at hv
  unfold hmap
  cases hl : db.live key with
  | none =>
    rw [hl] at hv
    simp only [Option.some.injEq, Prod.mk.injEq] at hv
    rw [← hv.1]; rfl
  | some it =>
    rw [hl] at hv
    obtain ⟨v, e'⟩ := it
    cases v <;> simp only [Option.some.injEq, Prod.mk.injEq, reduceCtorEq] at hv
    rw [← hv.1]

theorem smem_of_view {db : Db} {key : Bytes} {s : List Bytes} {e : Option Int}
    (hv : setView db.live key = some (s, e)) (m : Bytes) : smem db key m ↔ m ∈ s := by
  unfold setView at hv
  unfold smem
  cases hl : db.live key with
  | none =>
    rw [hl] at hv
    simp only [Option.some.injEq, Prod.mk.injEq] at hv
    rw [← hv.1]; simp
  | some it =>
    rw [hl] at hv
    obtain ⟨v, e'⟩ := it
    cases v <;> simp only [Option.some.injEq, Prod.mk.injEq, reduceCtorEq] at hv
    rw [← hv.1]

theorem putAt_self (live : Live) (key : Bytes) (v : Value) (e : Option Int) :
    putAt live key v e key = if v.isEmptyColl then none else some ⟨v, e⟩ := by
  simp [putAt]

theorem putAt_ne (live : Live) {key k : Bytes} (v : Value) (e : Option Int) (h : k ≠ key) :
    putAt live key v e k = live k := by
  simp [putAt, h]

theorem hmap_putAt {db out : Db} {key : Bytes} {h' : HashV} {e : Option Int}
    (ho : out.live = putAt db.live key (.hash h') e) (f : Bytes) : hmap out key f = h'.lookup f := by
  unfold hmap
  rw [ho, putAt_self]
  cases h' with
  | nil => rfl
  | cons p ps => rfl

theorem smem_putAt {db out : Db} {key : Bytes} {s' : List Bytes} {e : Option Int}
    (ho : out.live = putAt db.live key (.set s') e) (m : Bytes) : smem out key m ↔ m ∈ s' := by
  unfold smem
  rw [ho, putAt_self]
  cases s' with
  | nil => simp [Value.isEmptyColl]
  | cons p ps => simp [Value.isEmptyColl]

/-- for a key of acceptable type, `setAt` lists exactly the members -/
theorem mem_setAt {db : Db} {key : Bytes} (hok : typeOK db.live (some .set) key = true) (m : Bytes) :
    m ∈ setAt db.live key ↔ smem db key m := by
  obtain ⟨s, e, hv⟩ := setView_of_typeOK hok
  rw [setAt_of_view hv, smem_of_view hv]

/-! ### the representation invariants -/

/-- field names of a hash are unique; a set has no duplicates -/
def ValueWF : Value → Prop
  | .hash h => NodupF h
  | .set s => s.Nodup
  | _ => True

/-- every live hash has unique field names and every live set is duplicate free -/
def LiveWF (db : Db) : Prop := ∀ k it, db.live k = some it → ValueWF it.value

theorem hashView_wf {db : Db} (wf : LiveWF db) {key : Bytes} {h : HashV} {e : Option Int}
    (hv : hashView db.live key = some (h, e)) : NodupF h := by
  unfold hashView at hv
  cases hl : db.live key with
  | none =>
    rw [hl] at hv
    simp only [Option.some.injEq, Prod.mk.injEq] at hv
    rw [← hv.1]; exact List.nodup_nil
  | some it =>
    rw [hl] at hv
    have := wf key it hl
    obtain ⟨v, e'⟩ := it
    cases v <;> simp only [Option.some.injEq, Prod.mk.injEq, reduceCtorEq] at hv
    rw [← hv.1]; exact this

theorem setView_wf {db : Db} (wf : LiveWF db) {key : Bytes} {s : List Bytes} {e : Option Int}
    (hv : setView db.live key = some (s, e)) : s.Nodup := by
  unfold setView at hv
  cases hl : db.live key with
  | none =>
    rw [hl] at hv
    simp only [Option.some.injEq, Prod.mk.injEq] at hv
    rw [← hv.1]; exact List.nodup_nil
  | some it =>
    rw [hl] at hv
    have := wf key it hl
    obtain ⟨v, e'⟩ := it
    cases v <;> simp only [Option.some.injEq, Prod.mk.injEq, reduceCtorEq] at hv
    rw [← hv.1]; exact this

theorem setAt_nodup {db : Db} (wf : LiveWF db) (k : Bytes) : (setAt db.live k).Nodup := by
  unfold setAt ciOf
  cases hl : db.live k with
  | none => exact List.nodup_nil
  | some it =>
    have := wf k it hl
    obtain ⟨v, e'⟩ := it
    cases v <;> first | exact List.nodup_nil | exact this

theorem liveWF_putAt {db out : Db} (wf : LiveWF db) {key : Bytes} {v : Value} {e : Option Int}
    (ho : out.live = putAt db.live key v e) (hv : ValueWF v) : LiveWF out := by
  intro k it hk
  rw [ho] at hk
  by_cases h : k = key
  · subst h
    rw [putAt_self] at hk
    split at hk
    · cases hk
    · cases hk; exact hv
  · rw [putAt_ne _ _ _ h] at hk
    exact wf k it hk

theorem liveWF_same {db out : Db} (wf : LiveWF db) (ho : out.live = db.live) : LiveWF out := by
  intro k it hk; rw [ho] at hk; exact wf k it hk

theorem hsetRec_ne_nil (h : HashV) (p : Bytes × Bytes) (ps : List (Bytes × Bytes)) :
    (hsetRec h (p :: ps)).1 ≠ [] := by
  intro hnil
  have h1 := hsetRec_lookup h (p :: ps) p.1
  rw [hnil] at h1
  have h2 := (lookup_reverse_ne_none (p :: ps) p.1).2 (by simp)
  cases hl : (p :: ps).reverse.lookup p.1 with
  | none => exact h2 hl
  | some v => rw [hl] at h1; simp at h1

theorem lookup_all_none {h : HashV} (hall : ∀ x, h.lookup x = none) : h = [] := by
  cases h with
  | nil => rfl
  | cons p ps =>
    have := hall p.1
    simp [List.lookup_cons] at this

theorem CardEq.zero {P : Bytes → Prop} (h : CardEq P 0) (x : Bytes) : ¬ P x := by
  obtain ⟨l, _, hm, hl⟩ := h
  have : l = [] := List.eq_nil_of_length_eq_zero hl
  subst this
  intro hp
  exact absurd ((hm x).2 hp) (by simp)

theorem hashView_missing {live : Live} {key : Bytes} (h : live key = none) :
    hashView live key = some ([], none) := by
  unfold hashView; rw [h]

theorem setView_missing {live : Live} {key : Bytes} (h : live key = none) :
    setView live key = some ([], none) := by
  unfold setView; rw [h]

theorem CardEq.pos {P : Bytes → Prop} {n : Nat} (h : CardEq P n) : 0 < n ↔ ∃ x, P x := by
  obtain ⟨l, _, hm, hl⟩ := h
  subst hl
  rw [List.length_pos_iff_exists_mem]
  constructor
  · rintro ⟨x, hx⟩; exact ⟨x, (hm x).1 hx⟩
  · rintro ⟨x, hx⟩; exact ⟨x, (hm x).2 hx⟩

instance (db : Db) (key m : Bytes) : Decidable (smem db key m) := by
  unfold smem
  split <;> infer_instance

instance (v : Value) : Decidable (ValueWF v) := by
  cases v <;> unfold ValueWF <;> try unfold NodupF
  all_goals infer_instance

/-- a sufficient, decidable condition for `LiveWF` -/
theorem liveWF_of_dict {db : Db} (h : ∀ p ∈ db.dict, ValueWF p.2.value) : LiveWF db := by
  intro k it hk
  exact h (k, it) (live_some_mem hk)

theorem typeOK_set_iff (live : Live) (k : Bytes) : typeOK live (some .set) k = true ↔ setView live k ≠ none := by
  constructor
  · intro h hv
    rw [setView_none hv] at h; cases h
  · intro h
    cases hv : setView live k with
    | none => exact absurd hv h
    | some p => exact (setView_some (s := p.1) (e := p.2) hv).1

theorem all_typeOK_iff (live : Live) (ks : List Bytes) :
    ks.all (typeOK live (some .set)) = true ↔ ∀ k ∈ ks, setView live k ≠ none := by
  rw [List.all_eq_true]
  constructor
  · intro h k hk; exact (typeOK_set_iff live k).1 (h k hk)
  · intro h k hk; exact (typeOK_set_iff live k).2 (h k hk)

/-- the three set operations on membership predicates -/
def SetopAbs (op : Cmd.SetOp) (db : Db) (k : Bytes) (ks : List Bytes) (m : Bytes) : Prop :=
  match op with
  | .union => ∃ k' ∈ k :: ks, smem db k' m
  | .inter => ∀ k' ∈ k :: ks, smem db k' m
  | .diff => smem db k m ∧ ∀ k' ∈ ks, ¬ smem db k' m

theorem setopSpec_smem {db : Db} (op : Cmd.SetOp) (k : Bytes) (ks : List Bytes)
    (hall : ∀ k' ∈ k :: ks, setView db.live k' ≠ none) (m : Bytes) :
    setopSpec op (setAt db.live k) (ks.map (setAt db.live)) m ↔ SetopAbs op db k ks m := by
  have hk : ∀ k' ∈ k :: ks, (m ∈ setAt db.live k' ↔ smem db k' m) :=
    fun k' hk' => mem_setAt ((typeOK_set_iff _ _).2 (hall k' hk')) m
  have h0 := hk k (by simp)
  have hs : ∀ k' ∈ ks, (m ∈ setAt db.live k' ↔ smem db k' m) := fun k' hk' => hk k' (by simp [hk'])
  cases op
  · simp only [setopSpec, SetopAbs, List.mem_map, forall_exists_index, and_imp, forall_apply_eq_imp_iff₂]
    rw [h0]
    constructor
    · rintro ⟨a, b⟩; exact ⟨a, fun k' hk' hc => b k' hk' ((hs k' hk').2 hc)⟩
    · rintro ⟨a, b⟩; exact ⟨a, fun k' hk' hc => b k' hk' ((hs k' hk').1 hc)⟩
  · simp only [setopSpec, SetopAbs, List.mem_map, forall_exists_index, and_imp, forall_apply_eq_imp_iff₂,
      List.mem_cons, forall_eq_or_imp]
    rw [h0]
    constructor
    · rintro ⟨a, b⟩; exact ⟨a, fun k' hk' => (hs k' hk').1 (b k' hk')⟩
    · rintro ⟨a, b⟩; exact ⟨a, fun k' hk' => (hs k' hk').2 (b k' hk')⟩
  · simp only [setopSpec, SetopAbs, List.mem_map, List.mem_cons, exists_eq_or_imp]
    rw [h0]
    constructor
    · rintro (a | ⟨v, ⟨k', hk', rfl⟩, hm⟩)
      · exact Or.inl a
      · exact Or.inr ⟨k', hk', (hs k' hk').1 hm⟩
    · rintro (a | ⟨k', hk', hm⟩)
      · exact Or.inl a
      · exact Or.inr ⟨_, ⟨k', hk', rfl⟩, (hs k' hk').2 hm⟩

theorem smem_of_live {out : Db} {key : Bytes} {s' : List Bytes} {e : Option Int}
    (h : out.live key = if (Value.set s').isEmptyColl then none else some ⟨.set s', e⟩) (m : Bytes) :
    smem out key m ↔ m ∈ s' := by
  unfold smem
  rw [h]
  cases s' with
  | nil => simp [Value.isEmptyColl]
  | cons p ps => simp [Value.isEmptyColl]

theorem nodup_setIns {s : List Bytes} (hs : s.Nodup) (m : Bytes) : (Cmd.setIns s m).Nodup := by
  unfold Cmd.setIns
  split
  · exact hs
  · rename_i hm
    rw [List.nodup_append]
    refine ⟨hs, by simp, fun a ha b hb => ?_⟩
    simp only [List.mem_singleton] at hb
    subst hb
    intro e; subst e
    exact hm (by simpa using ha)

/-! ## Part 7: the representation invariants are preserved for ARBITRARY arguments

`DictWF` speaks about every stored entry (expired or not); it is preserved by `runRegular` for every body
that maps well-formed `CommandItem`s to well-formed `CommandItem`s (`BodyWF`), whatever the arguments. -/

def DictWF (d : Dict) : Prop := ∀ p ∈ d, ValueWF p.2.value

instance (d : Dict) : Decidable (DictWF d) := by unfold DictWF; infer_instance

def CIWF (c : CI) : Prop := ∀ v, c.val = some v → ValueWF v

def BodyWF (body : Body) : Prop :=
  ∀ ctx args cis o, (∀ c ∈ cis, CIWF c) → body ctx args cis = .ok o → ∀ c ∈ o.cis, CIWF c

theorem DictWF.live {db : Db} (wf : DictWF db.dict) : LiveWF db := liveWF_of_dict wf

theorem writeback_wf (c : CI) (hc : CIWF c) {db : Db} (wf : DictWF db.dict) :
    DictWF (c.writeback db).1.dict := by
  have hpop : ∀ k, DictWF (db.pop k).dict := by
    intro k q hq; rw [Db.pop_eq] at hq; exact wf q (Db.mem_erase hq)
  unfold CI.writeback
  split
  · split
    · exact hpop _
    · rename_i v hv
      split
      · exact hpop _
      · intro q hq
        unfold Db.put at hq
        rcases Db.mem_setRaw hq with h | h
        · exact wf q (Db.get_dict_sub h)
        · subst h; exact hc v hv
  · split
    · split
      · rename_i db' it heq
        intro q hq
        rcases Db.mem_setRaw hq with h | h
        · have : db' = (db.get c.key).1 := by rw [heq]
          subst this
          exact wf q (Db.get_dict_sub h)
        · subst h
          have : (db.get c.key).2 = some it := by rw [heq]
          exact wf (c.key, it) (Db.get_mem this)
      · rename_i db' heq
        intro q hq
        have : db' = (db.get c.key).1 := by rw [heq]
        subst this
        exact wf q (Db.get_dict_sub hq)
    · exact wf

theorem writebackPure_wf (cis : List CI) (hc : ∀ c ∈ cis, CIWF c) {db : Db} (wf : DictWF db.dict) :
    DictWF (writebackPure db cis).1.dict := by
  induction cis generalizing db with
  | nil => exact wf
  | cons c cs ih =>
    rw [writebackPure_cons]
    exact ih (fun c' hc' => hc c' (by simp [hc'])) (writeback_wf c (hc c (by simp)) wf)

theorem ciOf_wf {live : Live} (hl : ∀ k it, live k = some it → ValueWF it.value) (ty : Option Ty) (k : Bytes) :
    CIWF (ciOf live ty k) := by
  intro v hv
  unfold ciOf at hv
  split at hv
  · rename_i it hit
    simp only [Option.some.injEq] at hv
    subst hv; exact hl k it hit
  · simp only at hv
    cases ty with
    | none => cases hv
    | some t =>
      cases t <;> simp only [Option.bind, Ty.default, Option.some.injEq, reduceCtorEq] at hv <;> subst hv
      all_goals first | exact List.nodup_nil | trivial

theorem p2_wf {live : Live} (hl : ∀ k it, live k = some it → ValueWF it.value) (l : List (Arg × ArgTy))
    (accA : List Arg) (accC : List CI) (hacc : ∀ c ∈ accC, CIWF c) {a : List Arg} {cs : List CI}
    (h : p2 live l accA accC = .ok (a, cs)) : ∀ c ∈ cs, CIWF c := by
  induction l generalizing accA accC with
  | nil =>
    simp only [p2, Except.ok.injEq, Prod.mk.injEq] at h
    intro c hc; rw [← h.2] at hc; exact hacc c (List.mem_reverse.1 hc)
  | cons x rest ih =>
    obtain ⟨ar, t⟩ := x
    unfold p2 at h
    split at h
    · split at h
      · refine ih _ _ ?_ h
        intro c hc
        rcases List.mem_cons.1 hc with rfl | hc
        · exact ciOf_wf hl _ _
        · exact hacc c hc
      · cases h
    · exact ih _ _ hacc h

theorem applyL_wf {live : Live} (hl : ∀ k it, live k = some it → ValueWF it.value) (s : Sig) (raw : List Bytes)
    {args : List Arg} {cis : List CI} (h : applyL s raw live = .ok (.ok args cis)) : ∀ c ∈ cis, CIWF c := by
  unfold applyL at h
  split at h
  · cases h
  · split at h
    · cases h
    · unfold applyT at h
      split at h
      · cases h
      · cases h
      · split at h
        · cases h
        · rename_i a c heq
          simp only [Except.ok.injEq, Sig.Applied.ok.injEq] at h
          obtain ⟨rfl, rfl⟩ := h
          exact p2_wf hl _ [] [] (by simp) heq

theorem runRegular_wf (sig : Sig) (body : Body) (hb : BodyWF body) (ctx : Ctx) (gate : Option Err)
    (raw : List Bytes) {db : Db} (nd : NodupKeys db.dict) (wf : DictWF db.dict) :
    DictWF (runRegular sig body ctx gate raw db).db.dict := by
  rw [runRegular_eq]
  have hr := Sig.apply_reads sig raw nd
  have ha := apply_eq sig raw nd
  have h1 : DictWF (sig.apply raw db).1.dict := fun q hq => wf q (hr.sub q hq)
  revert ha h1
  generalize sig.apply raw db = r
  obtain ⟨db1, x⟩ := r
  simp only
  intro ha h1
  cases x with
  | error e => exact h1
  | ok ap =>
    cases ap with
    | short r => exact h1
    | ok args cis =>
      have hcis : ∀ c ∈ cis, CIWF c := applyL_wf (fun k it hk => wf.live k it hk) sig raw ha.symm
      cases gate with
      | some e => exact h1
      | none =>
        simp only [runTail]
        cases hbd : body ctx args cis with
        | error e => exact writebackPure_wf _ hcis h1
        | ok o => exact writebackPure_wf _ (hb ctx args cis o hcis hbd) h1

/-! ### every hash / set body maps well-formed items to well-formed items -/

theorem ciwf_default : CIWF (default : CI) := by
  intro v hv; cases hv

theorem ciwf_ciAt {cis : List CI} (hc : ∀ c ∈ cis, CIWF c) (k : Nat) : CIWF (ciAt cis k) := by
  unfold ciAt
  rw [List.getD_eq_getElem?_getD]
  cases h : cis[k]? with
  | none => exact ciwf_default
  | some c => exact hc c (List.mem_of_getElem? h)

theorem ciwf_set {cis : List CI} (hc : ∀ c ∈ cis, CIWF c) (k : Nat) {x : CI} (hx : CIWF x) :
    ∀ c ∈ cis.set k x, CIWF c := by
  intro c hcm
  rcases List.mem_or_eq_of_mem_set hcm with h | h
  · exact hc c h
  · subst h; exact hx

theorem hashOf_wf {c : CI} (hc : CIWF c) : NodupF (Cmd.hashOf c) := by
  unfold Cmd.hashOf
  split
  · rename_i h hv; exact hc _ hv
  · exact List.nodup_nil

theorem setOf_wf {c : CI} (hc : CIWF c) : (Cmd.setOf c).Nodup := by
  unfold Cmd.setOf
  split
  · rename_i h hv; exact hc _ hv
  · exact List.nodup_nil

theorem ciwf_hash (c : CI) {h : HashV} (hn : NodupF h) : CIWF { c with val := some (.hash h), modified := true } := by
  intro v hv
  simp only [Option.some.injEq] at hv
  subst hv; exact hn

theorem putSet_wf {cis : List CI} (hc : ∀ c ∈ cis, CIWF c) (k : Nat) {s : List Bytes} (hs : s.Nodup) :
    ∀ c ∈ Cmd.putSet cis k s, CIWF c := by
  unfold Cmd.putSet
  apply ciwf_set hc
  intro v hv
  simp only [Option.some.injEq] at hv
  subst hv; exact hs

theorem setValue_wf (c : CI) {s : List Bytes} (hs : s.Nodup) : CIWF (c.setValue (some (.set s))) := by
  intro v hv
  simp only [CI.setValue, Option.some.injEq] at hv
  subst hv; exact hs

theorem update_wf (c : CI) {s : List Bytes} (hs : s.Nodup) : CIWF (c.update (.set s)) := by
  intro v hv
  simp only [CI.update, Option.some.injEq] at hv
  subst hv; exact hs

theorem ret_cis {r : Reply} {cs : List CI} {o : BodyOut} (h : ret r cs = .ok o) : o.cis = cs := by
  simp only [ret, Except.ok.injEq] at h
  rw [← h]

/-- closes `BodyWF` goals of bodies whose every successful path returns the items unchanged -/
macro "wf_read" hb:ident hc:ident : tactic =>
  `(tactic| (repeat' split at $hb:ident) <;>
      first
        | (cases $hb:ident; done)
        | (rw [ret_cis $hb]; exact $hc))

theorem wf_hexists : BodyWF Cmd.hexists := by
  intro ctx args cis o hc hb; unfold Cmd.hexists at hb; wf_read hb hc
theorem wf_hget : BodyWF Cmd.hget := by
  intro ctx args cis o hc hb; unfold Cmd.hget at hb; wf_read hb hc
theorem wf_hgetall : BodyWF Cmd.hgetall := by
  intro ctx args cis o hc hb; unfold Cmd.hgetall at hb; wf_read hb hc
theorem wf_hkeys : BodyWF Cmd.hkeys := by
  intro ctx args cis o hc hb; unfold Cmd.hkeys at hb; wf_read hb hc
theorem wf_hvals : BodyWF Cmd.hvals := by
  intro ctx args cis o hc hb; unfold Cmd.hvals at hb; wf_read hb hc
theorem wf_hlen : BodyWF Cmd.hlen := by
  intro ctx args cis o hc hb; unfold Cmd.hlen at hb; wf_read hb hc
theorem wf_hmget : BodyWF Cmd.hmget := by
  intro ctx args cis o hc hb; unfold Cmd.hmget at hb; wf_read hb hc
theorem wf_hstrlen : BodyWF Cmd.hstrlen := by
  intro ctx args cis o hc hb; unfold Cmd.hstrlen at hb; wf_read hb hc
theorem wf_scard : BodyWF Cmd.scard := by
  intro ctx args cis o hc hb; unfold Cmd.scard at hb; wf_read hb hc
theorem wf_sismember : BodyWF Cmd.sismember := by
  intro ctx args cis o hc hb; unfold Cmd.sismember at hb; wf_read hb hc
theorem wf_smismember : BodyWF Cmd.smismember := by
  intro ctx args cis o hc hb; unfold Cmd.smismember at hb; wf_read hb hc
theorem wf_smembers : BodyWF Cmd.smembers := by
  intro ctx args cis o hc hb; unfold Cmd.smembers at hb; wf_read hb hc
theorem wf_setopRead (op : Cmd.SetOp) : BodyWF (Cmd.setopRead op) := by
  intro ctx args cis o hc hb; unfold Cmd.setopRead at hb; wf_read hb hc

theorem wf_pfcount : BodyWF Cmd.pfcount := by
  intro ctx args cis o hc hb
  unfold Cmd.pfcount at hb
  wf_read hb hc

theorem wf_hset : BodyWF Cmd.hset := by
  intro ctx args cis o hc hb
  unfold Cmd.hset at hb
  split at hb
  · rename_i k rest
    simp only [hsetCore_eq] at hb
    rw [ret_cis hb]
    exact ciwf_set hc k (ciwf_hash _ (hsetRec_nodup (hashOf_wf (ciwf_ciAt hc k)) _))
  · cases hb

theorem wf_hmset : BodyWF Cmd.hmset := by
  intro ctx args cis o hc hb
  unfold Cmd.hmset at hb
  split at hb
  · rename_i o' ho
    simp only [Except.ok.injEq] at hb
    rw [← hb]
    exact wf_hset ctx args cis o' hc ho
  · cases hb

theorem wf_hsetnx : BodyWF Cmd.hsetnx := by
  intro ctx args cis o hc hb
  unfold Cmd.hsetnx at hb
  split at hb
  · split at hb
    · rw [ret_cis hb]; exact hc
    · exact wf_hset _ _ _ _ hc hb
  · cases hb

theorem wf_hdel : BodyWF Cmd.hdel := by
  intro ctx args cis o hc hb
  unfold Cmd.hdel at hb
  split at hb
  · rename_i k fields
    have hf : ((Cmd.rawArgs fields).foldl (fun (st : HashV × Nat) f =>
        if st.1.any (fun p => p.1 == f) then (ZSet.dictDel st.1 f, st.2 + 1) else st)
        (Cmd.hashOf (ciAt cis k), 0)) = hdelRec (Cmd.hashOf (ciAt cis k)) (Cmd.rawArgs fields) := by
      have := foldl_hdelStep (Cmd.rawArgs fields) (Cmd.hashOf (ciAt cis k)) 0
      simp only [Nat.zero_add] at this
      exact this
    simp only [hf] at hb
    split at hb
    · rw [ret_cis hb]
      refine ciwf_set hc k (ciwf_hash _ ?_)
      rw [hdelRec_fst]
      exact (hashOf_wf (ciwf_ciAt hc k)).sublist (List.filter_sublist.map _)
    · rw [ret_cis hb]; exact hc
  · cases hb

theorem wf_hincrby : BodyWF Cmd.hincrby := by
  intro ctx args cis o hc hb
  unfold Cmd.hincrby at hb
  split at hb
  · rename_i k f amount
    simp only at hb
    split at hb
    · cases hb
    · split at hb
      · cases hb
      · rw [ret_cis hb]
        exact ciwf_set hc k (ciwf_hash _ (nodupF_dictSet (hashOf_wf (ciwf_ciAt hc k)) _ _))
  · cases hb

theorem wf_hincrbyfloat : BodyWF Cmd.hincrbyfloat := by
  intro ctx args cis o hc hb
  unfold Cmd.hincrbyfloat at hb
  split at hb
  · rename_i k f amount
    simp only at hb
    split at hb
    · cases hb
    · split at hb
      · cases hb
      · split at hb
        · cases hb
        · rw [ret_cis hb]
          exact ciwf_set hc k (ciwf_hash _ (nodupF_dictSet (hashOf_wf (ciwf_ciAt hc k)) _ _))
  · cases hb

theorem wf_sadd : BodyWF Cmd.sadd := by
  intro ctx args cis o hc hb
  unfold Cmd.sadd at hb
  split at hb
  · rename_i k ms
    simp only [Cmd.saddCore] at hb
    rw [ret_cis hb]
    exact putSet_wf hc k (nodup_setUnion (setOf_wf (ciwf_ciAt hc k)) _)
  · cases hb

theorem wf_pfadd : BodyWF Cmd.pfadd := by
  intro ctx args cis o hc hb
  unfold Cmd.pfadd at hb
  split at hb
  · rename_i k ms
    simp only [Cmd.saddCore] at hb
    rw [ret_cis hb]
    exact putSet_wf hc k (nodup_setUnion (setOf_wf (ciwf_ciAt hc k)) _)
  · cases hb

theorem wf_srem : BodyWF Cmd.srem := by
  intro ctx args cis o hc hb
  unfold Cmd.srem at hb
  split at hb
  · rename_i k ms
    simp only at hb
    split at hb
    · rw [ret_cis hb]
      exact putSet_wf hc k (nodup_setDiff (setOf_wf (ciwf_ciAt hc k)) _)
    · rw [ret_cis hb]; exact hc
  · cases hb

theorem wf_setopStore (op : Cmd.SetOp) : BodyWF (Cmd.setopStore op) := by
  intro ctx args cis o hc hb
  unfold Cmd.setopStore at hb
  split at hb
  · rename_i d k ks _
    rw [ret_cis hb]
    exact ciwf_set hc d (setValue_wf _ (calcSetop_nodup op (setOf_wf (ciwf_ciAt hc k)) _))
  · cases hb

theorem wf_pfmerge : BodyWF Cmd.pfmerge := by
  intro ctx args cis o hc hb
  unfold Cmd.pfmerge at hb
  split at hb
  · rename_i d srcs
    rw [ret_cis hb]
    exact ciwf_set hc d (update_wf _ (calcSetop_nodup .union (setOf_wf (ciwf_ciAt hc d)) _))
  · cases hb

theorem wf_smove : BodyWF Cmd.smove := by
  intro ctx args cis o hc hb
  unfold Cmd.smove at hb
  split at hb
  · rename_i s d m
    simp only at hb
    have hs := setOf_wf (ciwf_ciAt hc s)
    split at hb
    · rw [ret_cis hb]; exact hc
    · split at hb
      · rw [ret_cis hb]
        have h1 := nodup_setIns (hs.sublist (List.filter_sublist (p := fun x => x != m))) m
        exact putSet_wf (putSet_wf hc s h1) d h1
      · rw [ret_cis hb]
        exact putSet_wf (putSet_wf hc s (hs.sublist List.filter_sublist)) d
          (nodup_setIns (setOf_wf (ciwf_ciAt hc d)) m)
  · cases hb

theorem wf_srandmember : BodyWF Cmd.srandmember := by
  intro ctx args cis o hc hb
  unfold Cmd.srandmember at hb
  split at hb
  · rename_i k ms
    simp only at hb
    by_cases hlen : (Cmd.intArgs ms).length > 1
    · rw [if_pos hlen] at hb; cases hb
    · rw [if_neg hlen] at hb
      (repeat' split at hb) <;> first | (cases hb; done) | (cases hb; exact hc)
  · cases hb

theorem wf_spop : BodyWF Cmd.spop := by
  intro ctx args cis o hc hb
  unfold Cmd.spop at hb
  split at hb
  · rename_i k ms
    simp only at hb
    by_cases hlen : (Cmd.intArgs ms).length > 1
    · rw [if_pos hlen] at hb; cases hb
    · rw [if_neg hlen] at hb
      (repeat' split at hb) <;>
        first
          | (cases hb; done)
          | (cases hb; exact hc)
          | (cases hb; exact putSet_wf hc _ (nodup_setDiff (setOf_wf (ciwf_ciAt hc _)) _))
  · cases hb

/-- the hash and set commands of property C02 -/
def allCmds : List String :=
  ["hset", "hmset", "hsetnx", "hget", "hmget", "hgetall", "hkeys", "hvals", "hlen", "hexists", "hdel",
   "hstrlen", "hincrby", "hincrbyfloat",
   "sadd", "srem", "scard", "sismember", "smismember", "smembers", "smove", "spop", "srandmember",
   "sdiff", "sinter", "sunion", "sdiffstore", "sinterstore", "sunionstore", "pfadd", "pfcount", "pfmerge"]

theorem wf_all (name : String) (h : name ∈ allCmds) :
    BodyWF ((Cmd.regular name).getD (fun _ _ _ => .error "model: no body")) := by
  simp only [allCmds, List.mem_cons, List.mem_nil_iff, or_false] at h
  rcases h with rfl | rfl | rfl | rfl | rfl | rfl | rfl | rfl | rfl | rfl | rfl | rfl | rfl | rfl | rfl | rfl |
    rfl | rfl | rfl | rfl | rfl | rfl | rfl | rfl | rfl | rfl | rfl | rfl | rfl | rfl | rfl | rfl
  · exact wf_hset
  · exact wf_hmset
  · exact wf_hsetnx
  · exact wf_hget
  · exact wf_hmget
  · exact wf_hgetall
  · exact wf_hkeys
  · exact wf_hvals
  · exact wf_hlen
  · exact wf_hexists
  · exact wf_hdel
  · exact wf_hstrlen
  · exact wf_hincrby
  · exact wf_hincrbyfloat
  · exact wf_sadd
  · exact wf_srem
  · exact wf_scard
  · exact wf_sismember
  · exact wf_smismember
  · exact wf_smembers
  · exact wf_smove
  · exact wf_spop
  · exact wf_srandmember
  · exact wf_setopRead .diff
  · exact wf_setopRead .inter
  · exact wf_setopRead .union
  · exact wf_setopStore .diff
  · exact wf_setopStore .inter
  · exact wf_setopStore .union
  · exact wf_pfadd
  · exact wf_pfcount
  · exact wf_pfmerge

/-- a request with an arity the signature rejects: the arity error, nothing changes -/
theorem run_bad_arity (name : String) (ctx : Ctx) (raw : List Bytes) {db : Db} (nd : NodupKeys db.dict)
    (h : ¬ ArityOK (sigOf name) raw.length) :
    (run name ctx raw db).reply = .err (strBytes (sigOf name).wrongArgs) ∧
    (run name ctx raw db).db.live = db.live ∧ (run name ctx raw db).failed = true :=
  run_apply_err _ _ ctx raw nd (applyL_bad_arity db.live h)

end FR.HashSet
