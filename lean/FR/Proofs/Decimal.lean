import FR
/-! Decimal codec: `natDigits`, `intBytes`, `digitsVal`, `parseCanonInt`. -/
namespace FR

/-! ### `ByteArray.toList` is the underlying list -/

theorem byteArray_toList_loop (bs : ByteArray) (i : Nat) (r : List UInt8) :
    ByteArray.toList.loop bs i r = r.reverse ++ bs.data.toList.drop i := by
  fun_induction ByteArray.toList.loop bs i r with
  | case1 i r h ih =>
    rw [ih]
    have h' : i < bs.data.toList.length := h
    rw [List.drop_eq_getElem_cons h']
    simp only [List.reverse_cons, List.append_assoc, List.singleton_append]
    congr 2
    have h2 : i < bs.data.size := by simpa using h'
    show bs.data[i]! = _
    rw [getElem!_pos bs.data i h2]
    simp
  | case2 i r h =>
    have h' : bs.data.toList.length ≤ i := Nat.le_of_not_lt h
    rw [List.drop_eq_nil_of_le h', List.append_nil]

theorem byteArray_toList (bs : ByteArray) : bs.toList = bs.data.toList := by
  unfold ByteArray.toList
  rw [byteArray_toList_loop]; simp

theorem strBytes_ofList (cs : List Char) :
    (String.ofList cs).toUTF8.toList = cs.flatMap String.utf8EncodeChar := by
  rw [byteArray_toList, String.toUTF8_eq_toByteArray, String.toByteArray_ofList, List.utf8Encode,
    List.toList_data_toByteArray]

/-- `strBytes` of a literal computes by `rw [strBytes_eq]; rfl` (`ByteArray.toList` itself is
defined by well-founded recursion and does not reduce). -/
theorem strBytes_eq (s : String) : strBytes s = s.toUTF8.data.toList := byteArray_toList _

/-! ### the recursion equation of `natDigits` -/

def digitByte (d : Nat) : UInt8 := UInt8.ofNat (48 + d)

theorem utf8EncodeChar_digitChar {d : Nat} (h : d < 10) :
    String.utf8EncodeChar (Nat.digitChar d) = [digitByte d] := by
  match d, h with
  | 0, _ | 1, _ | 2, _ | 3, _ | 4, _ | 5, _ | 6, _ | 7, _ | 8, _ | 9, _ => decide

theorem natDigits_eq_flatMap (n : Nat) :
    natDigits n = (Nat.toDigits 10 n).flatMap String.utf8EncodeChar := by
  unfold natDigits
  rw [Nat.toString_eq_ofList_toDigits, strBytes_ofList]

theorem natDigits_eq_if (n : Nat) :
    natDigits n = if n < 10 then [digitByte n] else natDigits (n / 10) ++ [digitByte (n % 10)] := by
  rw [natDigits_eq_flatMap, natDigits_eq_flatMap, Nat.toDigits_eq_if (by decide)]
  split
  · simp [utf8EncodeChar_digitChar ‹_›]
  · simp [utf8EncodeChar_digitChar (Nat.mod_lt n (by decide : 0 < 10))]

theorem natDigits_lt {n : Nat} (h : n < 10) : natDigits n = [digitByte n] := by
  rw [natDigits_eq_if, if_pos h]

theorem natDigits_ge {n : Nat} (h : 10 ≤ n) :
    natDigits n = natDigits (n / 10) ++ [digitByte (n % 10)] := by
  rw [natDigits_eq_if, if_neg (by omega)]

/-- the equivalent structural definition -/
def natDigits' (n : Nat) : Bytes :=
  if n < 10 then [digitByte n] else natDigits' (n / 10) ++ [digitByte (n % 10)]

theorem natDigits_eq_natDigits' (n : Nat) : natDigits n = natDigits' n := by
  induction n using Nat.strongRecOn with
  | _ n ih =>
    rw [natDigits_eq_if, natDigits']
    split
    · rfl
    · rw [ih (n / 10) (by omega)]

theorem natDigits_zero : natDigits 0 = [48] := by
  rw [natDigits_lt (by decide)]; rfl

/-! ### digit bytes -/

theorem isDigit_iff (c : UInt8) : isDigit c = true ↔ 48 ≤ c.toNat ∧ c.toNat ≤ 57 := by
  simp [isDigit, UInt8.le_iff_toNat_le]

theorem digitByte_toNat {d : Nat} (h : d < 10) : (digitByte d).toNat = 48 + d := by
  unfold digitByte
  rw [UInt8.toNat_ofNat']; omega

theorem isDigit_digitByte {d : Nat} (h : d < 10) : isDigit (digitByte d) = true := by
  rw [isDigit_iff, digitByte_toNat h]; omega

theorem digitByte_of_isDigit {c : UInt8} (h : isDigit c = true) : digitByte (c.toNat - 48) = c := by
  rw [isDigit_iff] at h
  unfold digitByte
  rw [show 48 + (c.toNat - 48) = c.toNat by omega, UInt8.ofNat_toNat]

theorem digitByte_eq_48_iff {d : Nat} (h : d < 10) : digitByte d = 48 ↔ d = 0 := by
  rw [← UInt8.toNat_inj, digitByte_toNat h]
  show 48 + d = 48 ↔ _
  omega

/-! ### shape of `natDigits` -/

theorem natDigits_ne_nil (n : Nat) : natDigits n ≠ [] := by
  rw [natDigits_eq_if]; split <;> simp

theorem natDigits_all_isDigit (n : Nat) : (natDigits n).all isDigit = true := by
  induction n using Nat.strongRecOn with
  | _ n ih =>
    rw [natDigits_eq_if]
    split
    · simp [isDigit_digitByte ‹_›]
    · rw [List.all_append, ih (n / 10) (by omega)]
      simp [isDigit_digitByte (Nat.mod_lt n (by decide : 0 < 10))]

theorem natDigits_isDigit_of_mem {n : Nat} {c : UInt8} (h : c ∈ natDigits n) : isDigit c = true :=
  List.all_eq_true.mp (natDigits_all_isDigit n) c h

/-- no leading zero unless `n = 0` -/
theorem natDigits_head (n : Nat) :
    ∃ d rest, natDigits n = d :: rest ∧ (d = 48 ↔ n = 0) ∧ (n = 0 → rest = []) := by
  induction n using Nat.strongRecOn with
  | _ n ih =>
    by_cases h : n < 10
    · exact ⟨digitByte n, [], natDigits_lt h, digitByte_eq_48_iff h, fun _ => rfl⟩
    · obtain ⟨d, rest, e, hd, _⟩ := ih (n / 10) (by omega)
      refine ⟨d, rest ++ [digitByte (n % 10)], ?_, ?_, ?_⟩
      · rw [natDigits_ge (by omega), e]; rfl
      · rw [hd]; omega
      · omega

theorem natDigits_head_ne_zero {n : Nat} (h : n ≠ 0) :
    ∃ d rest, natDigits n = d :: rest ∧ d ≠ 48 := by
  obtain ⟨d, rest, e, hd, _⟩ := natDigits_head n
  exact ⟨d, rest, e, fun h48 => h (hd.mp h48)⟩

/-! ### `digitsVal` -/

theorem digitsVal_append_singleton (ds : Bytes) (c : UInt8) :
    digitsVal (ds ++ [c]) = digitsVal ds * 10 + (c.toNat - 48) := by
  simp [digitsVal, List.foldl_append]

theorem digitsVal_singleton (c : UInt8) : digitsVal [c] = c.toNat - 48 := by
  simp [digitsVal]

theorem digitsVal_natDigits (n : Nat) : digitsVal (natDigits n) = n := by
  induction n using Nat.strongRecOn with
  | _ n ih =>
    by_cases h : n < 10
    · rw [natDigits_lt h, digitsVal_singleton, digitByte_toNat h]; omega
    · rw [natDigits_ge (by omega), digitsVal_append_singleton, ih (n / 10) (by omega),
        digitByte_toNat (Nat.mod_lt n (by decide))]
      omega

theorem foldl_digits_ge (ds : Bytes) (acc : Nat) :
    acc ≤ ds.foldl (fun acc c => acc * 10 + (c.toNat - 48)) acc := by
  induction ds generalizing acc with
  | nil => exact Nat.le_refl _
  | cons c cs ih =>
    simp only [List.foldl_cons]
    exact Nat.le_trans (by omega) (ih _)

theorem digitsVal_pos {d : UInt8} {rest : Bytes} (hd : isDigit d = true) (h48 : d ≠ 48) :
    0 < digitsVal (d :: rest) := by
  rw [isDigit_iff] at hd
  have : d.toNat ≠ 48 := fun h => h48 (UInt8.toNat_inj.mp h)
  simp only [digitsVal, List.foldl_cons]
  exact Nat.lt_of_lt_of_le (by omega) (foldl_digits_ge rest _)

/-- a canonical digit string is the rendering of its value -/
theorem natDigits_digitsVal_aux (k : Nat) : ∀ ds : Bytes, ds.length = k →
    ds.all isDigit = true → ds ≠ [] → (ds.head? ≠ some 48 ∨ ds = [48]) →
    natDigits (digitsVal ds) = ds := by
  induction k with
  | zero => intro ds hl _ hne; exact absurd (List.length_eq_zero_iff.mp hl) hne
  | succ k ih =>
    intro ds hl hall hne hhead
    rcases List.eq_nil_or_concat ds with h | ⟨init, c, h⟩
    · exact absurd h hne
    · rw [List.concat_eq_append] at h
      subst h
      rw [List.all_append] at hall
      have hinit : init.all isDigit = true := by simp_all
      have hc : isDigit c = true := by simp_all
      have hc' := (isDigit_iff c).mp hc
      rw [digitsVal_append_singleton]
      cases init with
      | nil =>
        rw [show digitsVal [] = 0 from rfl, natDigits_lt (by omega)]
        simp only [Nat.zero_mul, Nat.zero_add, List.nil_append]
        rw [digitByte_of_isDigit hc]
      | cons d rest =>
        have hd48 : d ≠ 48 := by
          rcases hhead with h | h
          · intro e; apply h; simp [e]
          · simp at h
        have hd : isDigit d = true := by simp_all
        have hpos := digitsVal_pos (rest := rest) hd hd48
        have hlen : (d :: rest).length = k := by simpa using hl
        have hrec := ih (d :: rest) hlen hinit (by simp) (Or.inl (by simpa using hd48))
        rw [natDigits_ge (by omega)]
        rw [show (digitsVal (d :: rest) * 10 + (c.toNat - 48)) / 10 = digitsVal (d :: rest) by omega,
          show (digitsVal (d :: rest) * 10 + (c.toNat - 48)) % 10 = c.toNat - 48 by omega,
          hrec, digitByte_of_isDigit hc]

theorem natDigits_digitsVal {ds : Bytes} (hall : ds.all isDigit = true) (hne : ds ≠ [])
    (hhead : ds.head? ≠ some 48 ∨ ds = [48]) : natDigits (digitsVal ds) = ds :=
  natDigits_digitsVal_aux ds.length ds rfl hall hne hhead

/-! ### `parseCanonInt` -/

theorem parseCanonInt_cons {d : UInt8} (rest : Bytes) (h : d ≠ 45) :
    parseCanonInt (d :: rest) =
      if (d :: rest).all isDigit && (d != 48 || rest.isEmpty) then some (digitsVal (d :: rest) : Int)
      else none := by
  unfold parseCanonInt
  split
  · rename_i heq; simp at heq
  · rename_i heq
    simp only [List.cons.injEq] at heq
    exact absurd heq.1 h
  · rename_i heq
    simp only [List.cons.injEq] at heq
    obtain ⟨rfl, rfl⟩ := heq
    rfl

theorem parseCanonInt_neg (d : UInt8) (rest : Bytes) :
    parseCanonInt (45 :: d :: rest) =
      if (d :: rest).all isDigit && d != 48 then some (-(digitsVal (d :: rest) : Int)) else none := by
  rfl

theorem parseCanonInt_natDigits (n : Nat) : parseCanonInt (natDigits n) = some (n : Int) := by
  obtain ⟨d, rest, e, hd, h0⟩ := natDigits_head n
  have hall := natDigits_all_isDigit n
  have hval := digitsVal_natDigits n
  have hdig : isDigit d = true := natDigits_isDigit_of_mem (by rw [e]; simp)
  rw [e] at hall hval ⊢
  have h45 : d ≠ 45 := by
    intro h; subst h; revert hdig; decide
  rw [parseCanonInt_cons rest h45, hall, hval]
  have : (d != 48 || rest.isEmpty) = true := by
    by_cases hn : n = 0
    · simp [h0 hn]
    · have : d ≠ 48 := fun h => hn (hd.mp h)
      simp [this]
  simp [this]

theorem parseCanonInt_intBytes (n : Int) : parseCanonInt (intBytes n) = some n := by
  unfold intBytes
  split
  · rename_i hneg
    have hne : n.natAbs ≠ 0 := by omega
    obtain ⟨d, rest, e, hd⟩ := natDigits_head_ne_zero hne
    have hall := natDigits_all_isDigit n.natAbs
    have hval := digitsVal_natDigits n.natAbs
    rw [e] at hall hval ⊢
    rw [parseCanonInt_neg, hall, hval]
    have : (d != 48) = true := by simpa using hd
    rw [this]
    simp only [Bool.and_self, if_true, Option.some.injEq]
    omega
  · rename_i hpos
    rw [parseCanonInt_natDigits]
    congr 1; omega

theorem parseCanonInt_canonical {b : Bytes} {n : Int} (h : parseCanonInt b = some n) :
    b = intBytes n := by
  unfold parseCanonInt at h
  split at h
  · simp at h
  · rename_i ds
    split at h
    · simp at h
    · rename_i d rest
      split at h
      · rename_i hc
        simp only [Bool.and_eq_true, bne_iff_ne, ne_eq] at hc
        obtain ⟨hall, hd48⟩ := hc
        have hd : isDigit d = true := by simp_all
        have hpos := digitsVal_pos (rest := rest) hd hd48
        simp only [Option.some.injEq] at h
        subst h
        have hrt := natDigits_digitsVal hall (by simp) (Or.inl (by simpa using hd48))
        unfold intBytes
        rw [if_pos (by omega)]
        rw [show (-(digitsVal (d :: rest) : Int)).natAbs = digitsVal (d :: rest) by omega, hrt]
      · simp at h
  · rename_i d rest hne45
    split at h
    · rename_i hc
      simp only [Bool.and_eq_true, Bool.or_eq_true, bne_iff_ne, ne_eq, List.isEmpty_iff] at hc
      obtain ⟨hall, hcanon⟩ := hc
      simp only [Option.some.injEq] at h
      subst h
      have hrt := natDigits_digitsVal hall (by simp) (by
        rcases hcanon with h | h
        · left; simpa using h
        · by_cases h48 : d = 48
          · right; rw [h48, h]
          · left; simpa using h48)
      unfold intBytes
      rw [if_neg (by omega)]
      rw [show ((digitsVal (d :: rest) : Nat) : Int).natAbs = digitsVal (d :: rest) by omega, hrt]
    · simp at h

theorem parseCanonInt_eq_some_iff (b : Bytes) (n : Int) :
    parseCanonInt b = some n ↔ b = intBytes n :=
  ⟨parseCanonInt_canonical, fun h => h ▸ parseCanonInt_intBytes n⟩

theorem intBytes_injective {m n : Int} (h : intBytes m = intBytes n) : m = n := by
  have := parseCanonInt_intBytes m
  rw [h, parseCanonInt_intBytes] at this
  exact (Option.some.inj this).symm

theorem intBytes_ofNat (n : Nat) : intBytes (n : Int) = natDigits n := by
  unfold intBytes
  rw [if_neg (by omega)]; rfl

end FR
