import FR
import FR.Proofs.Basic
/-! # SCAN family: complete iteration (C15) -/
namespace FR.Spec
open FR FR.Cmd

/-- the MATCH / TYPE filter of one SCAN call -/
def matchPredicate {α} (keyOf : α → Bytes) (typeName : Bytes → Bytes) (o : ScanOpts) (x : α) : Bool :=
  (match o.pattern with | some p => Glob.globMatch p (keyOf x) | none => true) &&
  (match o.ty with | some t => casenorm (typeName (keyOf x)) == casenorm t | none => true)

/-- follow the returned cursors until `0` comes back (or the fuel is exhausted), concatenating pages -/
def scanAll {α} (elems : List α) (keyOf : α → Bytes) (typeName : Bytes → Bytes) (o : ScanOpts) :
    Nat → Int → List α
  | 0, _ => []
  | fuel + 1, cursor =>
    let r := scanPage elems keyOf typeName cursor o
    if r.1 = 0 then r.2 else r.2 ++ scanAll elems keyOf typeName o fuel r.1

/-- the cursors passed to successive calls of the same iteration -/
def scanTrace {α} (elems : List α) (keyOf : α → Bytes) (typeName : Bytes → Bytes) (o : ScanOpts) :
    Nat → Int → List Int
  | 0, _ => []
  | fuel + 1, cursor =>
    let r := scanPage elems keyOf typeName cursor o
    if r.1 = 0 then [cursor] else cursor :: scanTrace elems keyOf typeName o fuel r.1

/-- has the iteration reached cursor 0 within the fuel? -/
def scanFinished {α} (elems : List α) (keyOf : α → Bytes) (typeName : Bytes → Bytes) (o : ScanOpts) :
    Nat → Int → Bool
  | 0, _ => false
  | fuel + 1, cursor =>
    let r := scanPage elems keyOf typeName cursor o
    if r.1 = 0 then true else scanFinished elems keyOf typeName o fuel r.1

end FR.Spec

namespace FR.Proofs
open FR FR.Cmd FR.Spec

theorem scanPage_snd {α} (elems : List α) (keyOf : α → Bytes) (typeName : Bytes → Bytes)
    (c : Int) (o : ScanOpts) :
    (scanPage elems keyOf typeName c o).2 =
      ((elems.drop c.toNat).take o.count.toNat).filter (matchPredicate keyOf typeName o) := rfl

theorem scanPage_fst {α} (elems : List α) (keyOf : α → Bytes) (typeName : Bytes → Bytes)
    (c : Int) (o : ScanOpts) :
    (scanPage elems keyOf typeName c o).1 =
      if c + o.count ≥ (elems.length : Int) then 0 else c + o.count := rfl

theorem scanAll_from {α} (elems : List α) (keyOf : α → Bytes) (typeName : Bytes → Bytes)
    (o : ScanOpts) (hc : 0 < o.count) (fuel : Nat) (c : Nat) (hf : elems.length < c + fuel) :
    scanAll elems keyOf typeName o fuel c = (elems.drop c).filter (matchPredicate keyOf typeName o) := by
  induction fuel generalizing c with
  | zero =>
    simp only [scanAll]
    rw [List.drop_of_length_le (by omega)]
    rfl
  | succ fuel ih =>
    simp only [scanAll, scanPage_fst, scanPage_snd, Int.toNat_natCast]
    split
    next hge =>
      rw [if_pos rfl, List.take_of_length_le]
      rw [List.length_drop]
      omega
    next hlt =>
      have e : (c : Int) + o.count = ((c + o.count.toNat : Nat) : Int) := by omega
      rw [if_neg (by omega), e, ih _ (by omega), ← List.filter_append]
      congr 1
      rw [← List.drop_drop, List.take_append_drop]

/-- a complete SCAN iteration returns every matching element exactly once, in order -/
theorem scan_complete {α} (elems : List α) (keyOf : α → Bytes) (typeName : Bytes → Bytes)
    (o : ScanOpts) (hc : 0 < o.count) :
    scanAll elems keyOf typeName o (elems.length + 1) 0
      = elems.filter (matchPredicate keyOf typeName o) := by
  have := scanAll_from elems keyOf typeName o hc (elems.length + 1) 0 (by omega)
  simpa using this

theorem matchPredicate_none {α} (keyOf : α → Bytes) (typeName : Bytes → Bytes) (o : ScanOpts)
    (hp : o.pattern = none) (ht : o.ty = none) (x : α) : matchPredicate keyOf typeName o x = true := by
  simp [matchPredicate, hp, ht]

theorem scan_complete_nofilter {α} (elems : List α) (keyOf : α → Bytes) (typeName : Bytes → Bytes)
    (o : ScanOpts) (hc : 0 < o.count) (hp : o.pattern = none) (ht : o.ty = none) :
    scanAll elems keyOf typeName o (elems.length + 1) 0 = elems := by
  rw [scan_complete _ _ _ _ hc]
  exact List.filter_eq_self.mpr (fun x _ => matchPredicate_none keyOf typeName o hp ht x)

/-- `⌈len / cnt⌉`, but at least one call -/
def scanCalls (len cnt : Nat) : Nat := max 1 ((len + cnt - 1) / cnt)

theorem scanCalls_last (n cnt : Nat) (hc : 0 < cnt) (h : n ≤ cnt) : scanCalls n cnt = 1 := by
  unfold scanCalls
  have : (n + cnt - 1) / cnt < 2 := (Nat.div_lt_iff_lt_mul hc).mpr (by omega)
  omega

theorem scanCalls_step (n cnt : Nat) (hc : 0 < cnt) (h : cnt < n) :
    scanCalls n cnt = scanCalls (n - cnt) cnt + 1 := by
  unfold scanCalls
  have e : n + cnt - 1 = (n - cnt + cnt - 1) + cnt := by omega
  rw [e, Nat.add_div_right _ hc]
  have : 1 ≤ (n - cnt + cnt - 1) / cnt := (Nat.le_div_iff_mul_le hc).mpr (by omega)
  omega

theorem scanTrace_from {α} (elems : List α) (keyOf : α → Bytes) (typeName : Bytes → Bytes)
    (o : ScanOpts) (hc : 0 < o.count) (fuel : Nat) (c : Nat) (hf : elems.length < c + fuel)
    (hf0 : 0 < fuel) :
    scanTrace elems keyOf typeName o fuel c =
      (List.range (scanCalls (elems.length - c) o.count.toNat)).map
        (fun j => ((c + j * o.count.toNat : Nat) : Int)) ∧
    scanFinished elems keyOf typeName o fuel c = true := by
  induction fuel generalizing c with
  | zero => omega
  | succ fuel ih =>
    simp only [scanTrace, scanFinished, scanPage_fst]
    split
    next hge =>
      rw [if_pos rfl, if_pos rfl, scanCalls_last _ _ (by omega) (by omega)]
      simp
    next hlt =>
      have e : (c : Int) + o.count = ((c + o.count.toNat : Nat) : Int) := by omega
      rw [if_neg (by omega), if_neg (by omega), e]
      have ⟨i1, i2⟩ := ih (c + o.count.toNat) (by omega) (by omega)
      rw [i1, i2, scanCalls_step (elems.length - c) _ (by omega) (by omega),
        List.range_succ_eq_map, List.map_cons, List.map_map]
      refine ⟨?_, rfl⟩
      have e2 : elems.length - c - o.count.toNat = elems.length - (c + o.count.toNat) := by omega
      rw [e2]
      congr 1
      · simp
      · apply List.map_congr_left
        intro j _
        simp only [Function.comp, Nat.succ_eq_add_one, Nat.add_mul, Nat.one_mul]
        omega

/-- the iteration ends (cursor 0 is returned) after exactly `⌈len/count⌉` calls (at least one), and the
`j`-th call is made with cursor `j * count`: each non-final reply's cursor is the previous one plus COUNT -/
theorem scan_terminates {α} (elems : List α) (keyOf : α → Bytes) (typeName : Bytes → Bytes)
    (o : ScanOpts) (hc : 0 < o.count) :
    scanTrace elems keyOf typeName o (elems.length + 1) 0 =
      (List.range (scanCalls elems.length o.count.toNat)).map (fun j => ((j * o.count.toNat : Nat) : Int)) ∧
    scanFinished elems keyOf typeName o (elems.length + 1) 0 = true := by
  have := scanTrace_from elems keyOf typeName o hc (elems.length + 1) 0 (by omega) (by omega)
  simpa using this

theorem scanCalls_spec (len cnt : Nat) (hc : 0 < cnt) :
    1 ≤ scanCalls len cnt ∧ len ≤ scanCalls len cnt * cnt ∧
    (1 < scanCalls len cnt → (scanCalls len cnt - 1) * cnt < len) := by
  unfold scanCalls
  have h1 : (len + cnt - 1) / cnt * cnt ≤ len + cnt - 1 := Nat.div_mul_le_self _ _
  have h2 : len + cnt - 1 < (len + cnt - 1) / cnt * cnt + cnt := by
    have := Nat.mod_lt (len + cnt - 1) hc
    have := Nat.div_add_mod (len + cnt - 1) cnt
    rw [Nat.mul_comm] at this
    omega
  generalize (len + cnt - 1) / cnt = q at h1 h2
  cases q with
  | zero =>
    simp only [Nat.zero_mul, Nat.zero_add] at h1 h2
    simp only [Nat.zero_le, Nat.max_eq_left, Nat.le_refl, Nat.one_mul, Nat.lt_irrefl,
      false_implies, and_true, true_and]
    omega
  | succ q =>
    rw [Nat.max_eq_right (by omega)]
    rw [Nat.succ_mul] at h1 h2
    refine ⟨by omega, by rw [Nat.succ_mul]; omega, fun _ => ?_⟩
    rw [Nat.add_sub_cancel]
    omega

/-! ## option parsing and errors -/

/-- is `name value` an acceptable SCAN option pair? -/
def optPairOk (allowType : Bool) (a v : Bytes) : Bool :=
  if casematch a "match" then true
  else if casematch a "count" then
    (match Conv.int v with | .ok c => decide (0 < c) | .error _ => false)
  else casematch a "type" && allowType

/-- the error a bad pair produces -/
def optPairErr (a v : Bytes) : Err :=
  if casematch a "count" then
    (match Conv.int v with | .ok _ => Msgs.SYNTAX_ERROR_MSG | .error e => e)
  else Msgs.SYNTAX_ERROR_MSG

def allPairsOk (allowType : Bool) : List Bytes → Bool
  | a :: v :: rest => optPairOk allowType a v && allPairsOk allowType rest
  | _ => true

theorem parse_pair_ok (t : Bool) (a v : Bytes) (rest : List Bytes) (o : ScanOpts)
    (h : optPairOk t a v = true) :
    ∃ o', parseScanOpts t (a :: v :: rest) o = parseScanOpts t rest o' := by
  unfold optPairOk at h
  rw [parseScanOpts]
  split
  · exact ⟨_, rfl⟩
  · rw [if_neg (by assumption)] at h
    split
    · rw [if_pos (by assumption)] at h
      split
      · simp_all
      · next c hc =>
        rw [hc] at h
        have : 0 < c := by simpa using h
        rw [if_neg (by omega)]
        exact ⟨_, rfl⟩
    · rw [if_neg (by assumption)] at h
      rw [if_pos h]
      exact ⟨_, rfl⟩

theorem parse_pair_bad (t : Bool) (a v : Bytes) (rest : List Bytes) (o : ScanOpts)
    (h : optPairOk t a v = false) :
    parseScanOpts t (a :: v :: rest) o = .error (optPairErr a v) := by
  unfold optPairOk at h
  unfold optPairErr
  rw [parseScanOpts]
  split
  · simp_all
  · rw [if_neg (by assumption)] at h
    split
    · rw [if_pos (by assumption)] at h
      cases hc : Conv.int v with
      | error e => rfl
      | ok c =>
        rw [hc] at h
        have : ¬ 0 < c := by simpa using h
        simp only
        rw [if_pos (by omega)]
    · rw [if_neg (by assumption)] at h
      rw [if_neg (by simp [h])]

/-- the first bad pair decides the error -/
theorem parse_first_bad (t : Bool) (a v : Bytes) (rest : List Bytes) (hbad : optPairOk t a v = false) :
    ∀ (pre : List Bytes) (o : ScanOpts), pre.length % 2 = 0 → allPairsOk t pre = true →
      parseScanOpts t (pre ++ a :: v :: rest) o = .error (optPairErr a v)
  | [], o, _, _ => parse_pair_bad t a v rest o hbad
  | [_], _, h, _ => by simp at h
  | x :: y :: pre, o, hl, hok => by
    simp only [allPairsOk, Bool.and_eq_true] at hok
    obtain ⟨o', e⟩ := parse_pair_ok t x y (pre ++ a :: v :: rest) o hok.1
    rw [List.cons_append, List.cons_append, e]
    exact parse_first_bad t a v rest hbad pre o' (by simp at hl; omega) hok.2

/-- option parsing succeeds iff the options come in pairs and every pair is acceptable -/
theorem parse_ok_iff (t : Bool) : ∀ (opts : List Bytes) (o : ScanOpts),
    (∃ o', parseScanOpts t opts o = .ok o') ↔ (opts.length % 2 = 0 ∧ allPairsOk t opts = true)
  | [], o => by simp [parseScanOpts, allPairsOk]
  | [_], o => by simp [parseScanOpts]
  | a :: v :: rest, o => by
    cases hp : optPairOk t a v with
    | true =>
      obtain ⟨o1, e⟩ := parse_pair_ok t a v rest o hp
      rw [e, parse_ok_iff t rest o1]
      simp only [allPairsOk, hp, Bool.true_and, List.length_cons]
      constructor <;> (intro h; refine ⟨by omega, h.2⟩)
    | false =>
      rw [parse_pair_bad t a v rest o hp]
      simp [allPairsOk, hp]

theorem scan_errors_cursor {α} (elems : List α) keyOf typeName allowType (cursor : Int) opts render
    (h : cursor < 0) :
    scanReply elems keyOf typeName allowType cursor opts render = .error Msgs.INVALID_CURSOR_MSG := by
  unfold scanReply; rw [if_pos h]

theorem scan_errors_odd {α} (elems : List α) keyOf typeName allowType (cursor : Int) opts render
    (hc : 0 ≤ cursor) (h : opts.length % 2 = 1) :
    scanReply elems keyOf typeName allowType cursor opts render = .error Msgs.SYNTAX_ERROR_MSG := by
  unfold scanReply; rw [if_neg (by omega), if_pos (by simp [h])]

theorem scan_errors_bad_option {α} (elems : List α) keyOf typeName allowType (cursor : Int)
    (pre : List Bytes) (a v : Bytes) (rest : List Bytes) render
    (hc : 0 ≤ cursor) (hrest : rest.length % 2 = 0)
    (hpre : pre.length % 2 = 0) (hok : allPairsOk allowType pre = true)
    (hbad : optPairOk allowType a v = false) :
    scanReply elems keyOf typeName allowType cursor (pre ++ a :: v :: rest) render
      = .error (optPairErr a v) := by
  unfold scanReply
  rw [if_neg (by omega), if_neg (by simp; omega),
    parse_first_bad allowType a v rest hbad pre {} hpre hok]

/-- complete characterisation of the error cases -/
theorem scan_errors_iff {α} (elems : List α) keyOf typeName allowType (cursor : Int) opts render :
    (∃ e, scanReply elems keyOf typeName allowType cursor opts render = .error e) ↔
      (cursor < 0 ∨ opts.length % 2 = 1 ∨ allPairsOk allowType opts = false) := by
  unfold scanReply
  by_cases h1 : cursor < 0
  · simp [h1]
  · rw [if_neg h1]
    by_cases h2 : opts.length % 2 = 1
    · rw [if_pos (by simp [h2])]; simp [h2]
    · have h2' : opts.length % 2 = 0 := by omega
      rw [if_neg (by simp [h2'])]
      have := parse_ok_iff allowType opts {}
      cases hp : parseScanOpts allowType opts {} with
      | error e =>
        rw [hp] at this
        have : allPairsOk allowType opts = false := by
          cases hh : allPairsOk allowType opts
          · rfl
          · exact absurd (this.mpr ⟨h2', hh⟩) (by simp)
        simp [this]
      | ok o' =>
        rw [hp] at this
        have := (this.mp ⟨o', rfl⟩).2
        simp only [h1, h2, this, false_or]
        split <;> simp

theorem scan_missing_empty {α} keyOf typeName allowType (cursor : Int) opts render
    (hc : 0 ≤ cursor) (hl : opts.length % 2 = 0) (hok : allPairsOk allowType opts = true) :
    scanReply ([] : List α) keyOf typeName allowType cursor opts render
      = .ok (.arr [.bulk (intBytes 0), .arr []]) := by
  obtain ⟨o', h⟩ := (parse_ok_iff allowType opts {}).mpr ⟨hl, hok⟩
  unfold scanReply
  rw [if_neg (by omega), if_neg (by simp [hl]), h]
  simp only
  rw [if_pos (by simpa using hc)]

theorem scan_bad_pair (allowType : Bool) (a v : Bytes) :
    (optPairOk allowType a v = true ↔
      (casematch a "match" = true ∨
       (casematch a "match" = false ∧ casematch a "count" = true ∧ ∃ c, Conv.int v = .ok c ∧ 0 < c) ∨
       (casematch a "match" = false ∧ casematch a "count" = false ∧ casematch a "type" = true ∧
         allowType = true))) ∧
    (casematch a "count" = true → ∀ e, Conv.int v = .error e → optPairErr a v = e) ∧
    (casematch a "count" = true → ∀ c, Conv.int v = .ok c → optPairErr a v = Msgs.SYNTAX_ERROR_MSG) ∧
    (casematch a "count" = false → optPairErr a v = Msgs.SYNTAX_ERROR_MSG) := by
  refine ⟨?_, ?_, ?_, ?_⟩
  · unfold optPairOk
    cases casematch a "match" <;> cases casematch a "count" <;> cases hv : Conv.int v <;> simp
  · intro h e he; simp [optPairErr, h, he]
  · intro h c he; simp [optPairErr, h, he]
  · intro h; simp [optPairErr, h]

/-- inside the collection, `_scan` replies with exactly one `scanPage` -/
theorem scanReply_page {α} (elems : List α) keyOf typeName allowType (cursor : Int) opts render
    (o : ScanOpts) (hc : 0 ≤ cursor) (hlt : cursor < elems.length)
    (hp : parseScanOpts allowType opts {} = .ok o) :
    scanReply elems keyOf typeName allowType cursor opts render =
      .ok (.arr [.bulk (intBytes (scanPage elems keyOf typeName cursor o).1),
                 .arr (render (scanPage elems keyOf typeName cursor o).2)]) := by
  have hl : opts.length % 2 = 0 := ((parse_ok_iff allowType opts {}).mp ⟨o, hp⟩).1
  unfold scanReply
  rw [if_neg (by omega), if_neg (by simp [hl]), hp]
  simp only
  rw [if_neg (by omega)]

end FR.Proofs
