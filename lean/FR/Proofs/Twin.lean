import FR.Proofs.History
/-!
# Twin simulation: lazy expiry is unobservable at the level of the whole system (C07, lifted)

Two system states are *twins* when they are identical except that corresponding database dictionaries
agree after purging the entries that are expired at the (common) server time.  Every monadic building
block of `FR/Sys/Server.lean` / `FR/Sys/Process.lean` maps twins to twins and returns equal values, as long as
the clock readings that are consumed never run backwards.
-/
namespace FR.Twin
open FR M
set_option linter.unusedSimpArgs false
set_option linter.unusedVariables false

/-! ## The relation -/

/-- replace the database dictionaries -/
def withDbs (s : Sys) (dbs : List Dict) : Sys := { s with srv := { s.srv with dbs := dbs } }

/-- the dictionary purged at time `t` -/
def purgeAt (t : Int) (d : Dict) : Dict := (Db.purge ⟨d, t⟩).dict

/-- identical except for the database dictionaries, which agree after purging at the server time -/
def PurgeEq (s₁ s₂ : Sys) : Prop :=
  s₂ = withDbs s₁ s₂.srv.dbs ∧
  s₁.srv.dbs.map (purgeAt s₁.srv.time) = s₂.srv.dbs.map (purgeAt s₁.srv.time)

/-- every database dictionary has unique keys (the part of `Sys.DataInv` that matters here) -/
def KeysInv (s : Sys) : Prop := ∀ d ∈ s.srv.dbs, NodupKeys d

theorem KeysInv.of_dataInv {s : Sys} (h : s.DataInv) : KeysInv s := fun d hd => (h d hd).1

/-- the clock never runs backwards: current time, then the readings still to be consumed by the running event,
then the readings `fut` of later events (`none`: no discipline is imposed; enough for code that never sets the time) -/
def ClockMono (fut : Option (List Int)) (s : Sys) : Prop :=
  match fut with
  | none => True
  | some f => (s.srv.time :: (s.clocks ++ f)).Pairwise (· ≤ ·)

/-- the working relation: twins at server time `t`, unique keys on both sides, monotone clock -/
structure Tw (fut : Option (List Int)) (t : Int) (s₁ s₂ : Sys) : Prop where
  frame : s₂ = withDbs s₁ s₂.srv.dbs
  time : s₁.srv.time = t
  len : s₁.srv.dbs.length = s₂.srv.dbs.length
  sim : ∀ i, Db.Sim ⟨s₁.srv.dbs.getD i [], t⟩ ⟨s₂.srv.dbs.getD i [], t⟩
  clock : ClockMono fut s₁

/-- twins at whatever the server time is -/
def TwE (fut : Option (List Int)) (s₁ s₂ : Sys) : Prop := Tw fut s₁.srv.time s₁ s₂

/-- two databases handed out by `getDb` on twins -/
def DbRel (t : Int) (a b : Db) : Prop := Db.Sim a b ∧ a.time = t

/-! ## The relational Hoare logic -/

/-- `m₁` and `m₂` map `R`-related states to `Q`-related values and `R`-related states -/
def Sim {α : Type} (R : Sys → Sys → Prop) (Q : α → α → Prop) (m₁ m₂ : M α) : Prop :=
  ∀ s₁ s₂, R s₁ s₂ → Q (m₁ s₁).1 (m₂ s₂).1 ∧ R (m₁ s₁).2 (m₂ s₂).2

/-- the same, from one particular pair of states -/
def SimAt {α : Type} (R : Sys → Sys → Prop) (Q : α → α → Prop) (s₁ s₂ : Sys) (m₁ m₂ : M α) : Prop :=
  Q (m₁ s₁).1 (m₂ s₂).1 ∧ R (m₁ s₁).2 (m₂ s₂).2

namespace Sim
variable {R : Sys → Sys → Prop} {α β : Type} {Q : α → α → Prop} {Q' : β → β → Prop}

theorem pure {a b : α} (h : Q a b) : Sim R Q (Pure.pure a : M α) (Pure.pure b) := fun _ _ hr => ⟨h, hr⟩

theorem pure_eq (a : α) : Sim R Eq (Pure.pure a : M α) (Pure.pure a) := pure rfl

/-- general bind: the values of the first parts are `Q`-related -/
theorem bindQ {m₁ m₂ : M α} {f g : α → M β} (hm : Sim R Q m₁ m₂)
    (hf : ∀ a b, Q a b → Sim R Q' (f a) (g b)) : Sim R Q' (m₁ >>= f) (m₂ >>= g) := by
  intro s₁ s₂ hr
  obtain ⟨hq, hr'⟩ := hm s₁ s₂ hr
  exact hf _ _ hq _ _ hr'

/-- bind where the first parts return equal values -/
theorem bind {m₁ m₂ : M α} {f g : α → M β} (hm : Sim R Eq m₁ m₂)
    (hf : ∀ a, Sim R Q' (f a) (g a)) : Sim R Q' (m₁ >>= f) (m₂ >>= g) :=
  bindQ hm (fun a b h => by subst h; exact hf a)

/-- reading the state -/
theorem get_bind {f g : Sys → M β} (hf : ∀ s₁ s₂, R s₁ s₂ → SimAt R Q' s₁ s₂ (f s₁) (g s₂)) :
    Sim R Q' (get >>= f) (get >>= g) := fun s₁ s₂ hr => hf s₁ s₂ hr

/-- reading the state when the continuation only looks at what twins share -/
theorem get_bind_same {f g : Sys → M β} (hR : ∀ s₁ s₂, R s₁ s₂ → ∃ D, s₂ = withDbs s₁ D)
    (hg : ∀ s D, g (withDbs s D) = g s) (hf : ∀ s, Sim R Q' (f s) (g s)) :
    Sim R Q' (get >>= f) (get >>= g) := by
  intro s₁ s₂ hr
  obtain ⟨D, rfl⟩ := hR s₁ s₂ hr
  show Q' (f s₁ s₁).1 (g (withDbs s₁ D) (withDbs s₁ D)).1 ∧ R (f s₁ s₁).2 (g (withDbs s₁ D) (withDbs s₁ D)).2
  rw [hg]
  exact hf s₁ s₁ _ hr

theorem at_of_sim {m₁ m₂ : M α} {s₁ s₂ : Sys} (hm : Sim R Q m₁ m₂) (h : R s₁ s₂) : SimAt R Q s₁ s₂ m₁ m₂ :=
  hm s₁ s₂ h

theorem at_set_bind {s₁ s₂ s₁' s₂' : Sys} {f g : PUnit → M β} (h : R s₁' s₂') (hg : Sim R Q' (f ⟨⟩) (g ⟨⟩)) :
    SimAt R Q' s₁ s₂ (set s₁' >>= f) (set s₂' >>= g) := hg s₁' s₂' h

theorem map {m₁ m₂ : M α} (g : α → β) (hm : Sim R Eq m₁ m₂) : Sim R Eq (g <$> m₁) (g <$> m₂) := by
  intro s₁ s₂ hr
  obtain ⟨hq, hr'⟩ := hm s₁ s₂ hr
  exact ⟨congrArg g hq, hr'⟩

theorem forM {l : List α} {f g : α → M PUnit} (hf : ∀ a, Sim R Eq (f a) (g a)) : Sim R Eq (l.forM f) (l.forM g) := by
  induction l with
  | nil => exact pure_eq _
  | cons a as ih => rw [forM_cons_eq, forM_cons_eq]; exact bind (hf a) (fun _ => ih)

theorem forIn {l : List α} {f g : α → β → M (ForInStep β)} (hf : ∀ a b, Sim R Eq (f a b) (g a b)) (init : β) :
    Sim R Eq (forIn l init f) (forIn l init g) := by
  induction l generalizing init with
  | nil => exact pure_eq _
  | cons a as ih =>
    rw [List.forIn_cons, List.forIn_cons]
    refine bind (hf a init) (fun r => ?_)
    cases r with
    | done b => exact pure_eq _
    | yield b => exact ih b

theorem mapM {l : List α} {f g : α → M β} (hf : ∀ a, Sim R Eq (f a) (g a)) : Sim R Eq (l.mapM f) (l.mapM g) := by
  induction l with
  | nil => exact pure_eq _
  | cons a as ih =>
    rw [List.mapM_cons, List.mapM_cons]
    exact bind (hf a) (fun _ => bind ih (fun _ => pure_eq _))

/-- a `while` loop whose bodies are similar and decrease a measure whenever they continue -/
theorem loop {β : Type} (μ : β → Nat) (f g : Unit → β → M (ForInStep β))
    (hf : ∀ b, Sim R Eq (f () b) (g () b))
    (hdec : ∀ b s b', (f () b s).1 = .yield b' → μ b' < μ b) (init : β) :
    Sim R Eq (ForIn.forIn Lean.Loop.mk init f) (ForIn.forIn Lean.Loop.mk init g) := by
  induction h : μ init using Nat.strongRecOn generalizing init with
  | _ n ih =>
    rw [loop_unfold, loop_unfold]
    intro s₁ s₂ hs
    have h1 := hf init s₁ s₂ hs
    have h2 := hdec init s₁
    show Eq ((match (f () init s₁).1 with
        | .done val => Pure.pure val
        | .yield val => ForIn.forIn Lean.Loop.mk val f : M β) (f () init s₁).2).1
      ((match (g () init s₂).1 with
        | .done val => Pure.pure val
        | .yield val => ForIn.forIn Lean.Loop.mk val g : M β) (g () init s₂).2).1 ∧
      R ((match (f () init s₁).1 with
        | .done val => Pure.pure val
        | .yield val => ForIn.forIn Lean.Loop.mk val f : M β) (f () init s₁).2).2
      ((match (g () init s₂).1 with
        | .done val => Pure.pure val
        | .yield val => ForIn.forIn Lean.Loop.mk val g : M β) (g () init s₂).2).2
    revert h1 h2
    generalize f () init s₁ = r₁
    generalize g () init s₂ = r₂
    obtain ⟨v₁, t₁⟩ := r₁
    obtain ⟨v₂, t₂⟩ := r₂
    rintro ⟨rfl, h1⟩ h2
    cases v₁ with
    | done v => exact ⟨rfl, h1⟩
    | yield v => exact ih (μ v) (by rw [← h]; exact h2 v rfl) v rfl t₁ t₂ h1

/-- a `while` loop with a pure body that decreases a measure whenever it continues -/
theorem loop_pure {β : Type} (μ : β → Nat) (f : Unit → β → M (ForInStep β))
    (hf : ∀ b, ∃ r, f () b = Pure.pure r ∧ ∀ b', r = .yield b' → μ b' < μ b) (init : β) :
    Sim R Eq (ForIn.forIn Lean.Loop.mk init f) (ForIn.forIn Lean.Loop.mk init f) := by
  refine loop μ f f (fun b => ?_) (fun b s b' h => ?_) init
  · obtain ⟨r, hr, _⟩ := hf b
    rw [hr]; exact pure_eq _
  · obtain ⟨r, hr, hd⟩ := hf b
    rw [hr] at h
    exact hd b' h

/-- weaken the relation on values -/
theorem mono {Q₂ : α → α → Prop} {m₁ m₂ : M α} (h : Sim R Q m₁ m₂) (hq : ∀ a b, Q a b → Q₂ a b) :
    Sim R Q₂ m₁ m₂ := fun s₁ s₂ hr => ⟨hq _ _ (h s₁ s₂ hr).1, (h s₁ s₂ hr).2⟩

end Sim

/-! ## State-level facts -/

@[simp] theorem withDbs_dbs (s : Sys) (D) : (withDbs s D).srv.dbs = D := rfl
@[simp] theorem withDbs_self (s : Sys) : withDbs s s.srv.dbs = s := rfl
@[simp] theorem withDbs_withDbs (s : Sys) (D D') : withDbs (withDbs s D) D' = withDbs s D' := rfl

theorem Tw.exD {fut t s₁ s₂} (h : Tw fut t s₁ s₂) : ∃ D, s₂ = withDbs s₁ D := ⟨_, h.frame⟩

theorem Tw.time₂ {fut t s₁ s₂} (h : Tw fut t s₁ s₂) : s₂.srv.time = t := by
  rw [h.frame]; exact h.time

theorem Tw.dbAt {fut t s₁ s₂} (h : Tw fut t s₁ s₂) (i : Nat) : DbRel t (s₁.dbAt i) (s₂.dbAt i) := by
  unfold Sys.dbAt
  rw [h.time, h.time₂]
  exact ⟨h.sim i, rfl⟩

theorem DbRel.time₂ {t a b} (h : DbRel t a b) : b.time = t := by rw [← h.1.time]; exact h.2

theorem Tw.setDbS' {fut t s₁ s₂} (h : Tw fut t s₁ s₂) (i : Nat) {a b : Db}
    (hab : Db.Sim ⟨a.dict, t⟩ ⟨b.dict, t⟩) :
    Tw fut t (s₁.setDbS i a) (s₂.setDbS i b) := by
  obtain ⟨D, rfl⟩ := h.exD
  refine ⟨rfl, h.time, ?_, ?_, h.clock⟩
  · have := h.len
    simp only [Sys.setDbS, List.length_set] at this ⊢
    exact this
  · intro j
    by_cases hj : j = i
    · subst hj
      by_cases hl : j < s₁.srv.dbs.length
      · have hl' : j < D.length := by have := h.len; simp only [withDbs_dbs] at this; omega
        show Db.Sim ⟨(s₁.srv.dbs.set j a.dict).getD j [], t⟩ ⟨(D.set j b.dict).getD j [], t⟩
        rw [getD_set_self _ _ _ _ hl, getD_set_self _ _ _ _ hl']
        exact hab
      · have hl' : ¬ j < D.length := by have := h.len; simp only [withDbs_dbs] at this; omega
        show Db.Sim ⟨(s₁.srv.dbs.set j a.dict).getD j [], t⟩ ⟨(D.set j b.dict).getD j [], t⟩
        have e1 : s₁.srv.dbs.set j a.dict = s₁.srv.dbs := List.set_eq_of_length_le (by omega)
        have e2 : D.set j b.dict = D := List.set_eq_of_length_le (by omega)
        rw [e1, e2]; exact h.sim j
    · show Db.Sim ⟨(s₁.srv.dbs.set i a.dict).getD j [], t⟩ ⟨(D.set i b.dict).getD j [], t⟩
      rw [getD_set_ne _ _ _ _ _ hj, getD_set_ne _ _ _ _ _ hj]
      exact h.sim j

theorem Tw.setDbS {fut t s₁ s₂} (h : Tw fut t s₁ s₂) (i : Nat) {a b : Db} (hab : DbRel t a b) :
    Tw fut t (s₁.setDbS i a) (s₂.setDbS i b) := by
  refine h.setDbS' i ?_
  have h1 : (⟨a.dict, t⟩ : Db) = a := by rw [← hab.2]
  have h2 : (⟨b.dict, t⟩ : Db) = b := by rw [← hab.time₂]
  rw [h1, h2]; exact hab.1

/-- a state transformer that neither reads nor writes the dictionaries, the time, the pending clock readings -/
structure FrameFn (g : Sys → Sys) : Prop where
  comm : ∀ s D, g (withDbs s D) = withDbs (g s) D
  time : ∀ s, (g s).srv.time = s.srv.time
  clocks : ∀ s, (g s).clocks = s.clocks

theorem FrameFn.dbs {g} (hg : FrameFn g) (s : Sys) : (g s).srv.dbs = s.srv.dbs := by
  have := hg.comm s s.srv.dbs
  rw [withDbs_self] at this
  have h2 := congrArg (fun x => x.srv.dbs) this
  simp only [withDbs_dbs] at h2
  exact h2

theorem Tw.frameFn {fut t s₁ s₂} (h : Tw fut t s₁ s₂) {g} (hg : FrameFn g) : Tw fut t (g s₁) (g s₂) := by
  obtain ⟨D, rfl⟩ := h.exD
  have hl := h.len
  have hs := h.sim
  simp only [withDbs_dbs] at hl hs
  refine ⟨?_, ?_, ?_, ?_, ?_⟩
  · rw [hg.comm]; rfl
  · rw [hg.time]; exact h.time
  · rw [hg.comm, withDbs_dbs, hg.dbs]; exact hl
  · intro i; rw [hg.comm, withDbs_dbs, hg.dbs]; exact hs i
  · have := h.clock
    unfold ClockMono at this ⊢
    rw [hg.time, hg.clocks]; exact this


/-! ## Leaves -/

variable {fut : Option (List Int)} {t : Int}

/-- an operation that neither reads nor writes the dictionaries, the time, the pending clock readings -/
theorem sim_frameOp {α : Type} (m : M α)
    (hv : ∀ s D, (m (withDbs s D)).1 = (m s).1)
    (hs : ∀ s D, (m (withDbs s D)).2 = withDbs (m s).2 D)
    (ht : ∀ s, (m s).2.srv.time = s.srv.time) (hc : ∀ s, (m s).2.clocks = s.clocks) :
    Sim (Tw fut t) Eq m m := by
  intro s₁ s₂ h
  obtain ⟨D, rfl⟩ := h.exD
  refine ⟨(hv s₁ D).symm, ?_⟩
  have := h.frameFn (g := fun s => (m s).2) ⟨hs, ht, hc⟩
  exact this

theorem sim_modify_frame (g : Sys → Sys) (hg : FrameFn g) : Sim (Tw fut t) Eq (modify g) (modify g) :=
  fun s₁ s₂ h => ⟨rfl, h.frameFn hg⟩

theorem sim_getConn (c : Nat) : Sim (Tw fut t) Eq (getConn c) (getConn c) :=
  sim_frameOp _ (fun _ _ => rfl) (fun _ _ => rfl) (fun _ => rfl) (fun _ => rfl)

theorem sim_modifyConn (c : Nat) (f : Conn → Conn) : Sim (Tw fut t) Eq (modifyConn c f) (modifyConn c f) :=
  sim_modify_frame _ ⟨fun _ _ => rfl, fun _ => rfl, fun _ => rfl⟩

theorem sim_clearWatches (c : Nat) : Sim (Tw fut t) Eq (clearWatches c) (clearWatches c) := sim_modifyConn c _

theorem sim_notifyWatch (d : Nat) (k : Bytes) : Sim (Tw fut t) Eq (notifyWatch d k) (notifyWatch d k) :=
  sim_modify_frame _ ⟨fun _ _ => rfl, fun _ => rfl, fun _ => rfl⟩

theorem sim_fault (msg : String) : Sim (Tw fut t) Eq (M.fault msg) (M.fault msg) := by
  refine sim_modify_frame _ ⟨fun s D => ?_, fun s => ?_, fun s => ?_⟩
  · show (if (withDbs s D).fault.isNone then _ else _) = withDbs (if s.fault.isNone then _ else _) D
    show (if s.fault.isNone then _ else _) = withDbs (if s.fault.isNone then _ else _) D
    split <;> rfl
  · show (if s.fault.isNone then _ else _ : Sys).srv.time = _
    split <;> rfl
  · show (if s.fault.isNone then _ else _ : Sys).clocks = _
    split <;> rfl

theorem sim_getDb (i : Nat) : Sim (Tw fut t) (DbRel t) (getDb i) (getDb i) := fun s₁ s₂ h => ⟨h.dbAt i, h⟩

theorem sim_setDb (i : Nat) {a b : Db} (hab : DbRel t a b) : Sim (Tw fut t) Eq (setDb i a) (setDb i b) :=
  fun s₁ s₂ h => ⟨rfl, h.setDbS i hab⟩

theorem sim_setDb_nil (i : Nat) (t' : Int) : Sim (Tw fut t) Eq (setDb i ⟨[], t'⟩) (setDb i ⟨[], t'⟩) :=
  fun s₁ s₂ h => ⟨rfl, h.setDbS' i (Db.Sim.refl (by unfold NodupKeys; simp))⟩

theorem sim_getDb_bind {β : Type} {Q : β → β → Prop} (i : Nat) {f g : Db → M β}
    (hf : ∀ a b, DbRel t a b → Sim (Tw fut t) Q (f a) (g b)) :
    Sim (Tw fut t) Q (getDb i >>= f) (getDb i >>= g) := Sim.bindQ (sim_getDb i) hf

theorem Tw.popClock {s₁ s₂ : Sys} (h : Tw fut t s₁ s₂) {x : Int} {rest : List Int} (hc : s₁.clocks = x :: rest) :
    Tw fut t { s₁ with clocks := rest } { s₂ with clocks := rest } := by
  obtain ⟨D, rfl⟩ := h.exD
  refine ⟨rfl, h.time, h.len, h.sim, ?_⟩
  have := h.clock
  unfold ClockMono at this ⊢
  cases fut with
  | none => trivial
  | some f =>
    simp only at this ⊢
    rw [hc] at this
    simp only [List.cons_append, List.pairwise_cons] at this ⊢
    exact ⟨fun a ha => this.1 a (List.mem_cons_of_mem _ ha), this.2.2⟩

theorem nextClock_nil {s : Sys} (h : s.clocks = []) :
    nextClock s = (s.srv.time, (M.fault "clock readings exhausted" s).2) := by
  rw [nextClock_run]
  split
  · rename_i hc; rw [h] at hc; cases hc
  · rfl

theorem nextClock_cons {s : Sys} {x rest} (h : s.clocks = x :: rest) :
    nextClock s = (x, { s with clocks := rest }) := by
  rw [nextClock_run]
  split
  · rename_i hc; rw [h] at hc; cases hc; rfl
  · rename_i hc; rw [h] at hc; cases hc

theorem sim_nextClock : Sim (Tw fut t) Eq nextClock nextClock := by
  intro s₁ s₂ h
  have hcl : s₂.clocks = s₁.clocks := by rw [h.frame]; rfl
  have hti : s₂.srv.time = s₁.srv.time := by rw [h.time, h.time₂]
  cases hc : s₁.clocks with
  | nil =>
    rw [nextClock_nil hc, nextClock_nil (hcl.trans hc)]
    exact ⟨hti.symm, sim_fault _ s₁ s₂ h |>.2⟩
  | cons x rest =>
    rw [nextClock_cons hc, nextClock_cons (hcl.trans hc)]
    exact ⟨rfl, h.popClock hc⟩


/-! ## Database primitives on related databases -/

theorem DbRel.get {a b : Db} (h : DbRel t a b) (k : Bytes) :
    (a.get k).2 = (b.get k).2 ∧ DbRel t (a.get k).1 (b.get k).1 :=
  ⟨(h.1.get k).1, (h.1.get k).2, (Db.get_time a k).trans h.2⟩

theorem DbRel.writeback {a b : Db} (h : DbRel t a b) (ci : CI) :
    (ci.writeback a).2 = (ci.writeback b).2 ∧ DbRel t (ci.writeback a).1 (ci.writeback b).1 :=
  ⟨(ci.writeback_sim h.1).2, (ci.writeback_sim h.1).1, (ci.writeback_time a).trans h.2⟩

theorem DbRel.keys {a b : Db} (h : DbRel t a b) :
    a.keys.2 = b.keys.2 ∧ DbRel t a.keys.1 b.keys.1 ∧ a.keys.1 = b.keys.1 := by
  unfold Db.keys
  simp only
  refine ⟨by rw [h.1.eq], ⟨⟨Db.purge_nodup h.1.nd1, Db.purge_nodup h.1.nd2, by rw [h.1.eq]⟩, h.2⟩, h.1.eq⟩

theorem DbRel.apply {a b : Db} (h : DbRel t a b) (sig : Sig) (raw : List Bytes) :
    (sig.apply raw a).2 = (sig.apply raw b).2 ∧ DbRel t (sig.apply raw a).1 (sig.apply raw b).1 := by
  refine ⟨(Sig.apply_sim sig raw h.1).1, (Sig.apply_sim sig raw h.1).2, ?_⟩
  have := congrArg Db.time (Sig.apply_reads sig raw h.1.nd1).eq
  simp only [Db.purge] at this
  exact this.trans h.2

/-- destructure two related pair-valued expressions at once -/
macro "tws_pair" h:term "," e1:term "," e2:term : tactic => `(tactic|
  (have hg := $h
   revert hg
   generalize $e1 = ra
   generalize $e2 = rb
   obtain ⟨a', x⟩ := ra
   obtain ⟨b', y⟩ := rb
   simp only []
   intro hg
   obtain ⟨hq, hab'⟩ := hg
   subst hq))

theorem DbRel.nil : DbRel t ⟨[], t⟩ ⟨[], t⟩ := ⟨Db.Sim.refl (by unfold NodupKeys; simp), rfl⟩


/-! ## Automation (modelled on `pres` of `FR/Proofs/History.lean`) -/

open Lean Elab Tactic Meta in
/-- close a `Sim` goal with a universally quantified hypothesis `∀ x…, Sim R Q (f x…) (g x…)` of the context -/
elab "tws_hyp" : tactic => withMainContext do
  let g ← getMainGoal
  for ldecl in (← getLCtx) do
    if ldecl.isImplementationDetail then continue
    let ty ← instantiateMVars ldecl.type
    unless ty.isForall && ty.getForallBody.getAppFn.isConstOf ``FR.Twin.Sim do continue
    let saved ← saveState
    try
      let gs ← withReducible <| g.apply ldecl.toExpr
      if gs.isEmpty then
        replaceMainGoal []
        return
      else saved.restore
    catch _ => saved.restore
  throwError "tws_hyp: no applicable hypothesis"

/-- side conditions of `sim_modify_frame` -/
syntax "tws_frame" : tactic
macro_rules | `(tactic| tws_frame) => `(tactic| first
  | exact ⟨fun _ _ => rfl, fun _ => rfl, fun _ => rfl⟩
  | (refine ⟨fun _ _ => ?_, fun _ => ?_, fun _ => ?_⟩ <;> (simp only [withDbs]; split <;> rfl)))

syntax "tws_leaf" : tactic
macro_rules | `(tactic| tws_leaf) => `(tactic| first
  | with_reducible exact Sim.pure_eq _
  | with_reducible exact sim_getConn _
  | with_reducible exact sim_fault _
  | with_reducible exact sim_nextClock
  | with_reducible exact sim_clearWatches _
  | with_reducible exact sim_notifyWatch _ _
  | with_reducible exact sim_modifyConn _ _
  | with_reducible exact sim_setDb_nil _ _
  | ((with_reducible refine sim_modify_frame _ ?_); tws_frame)
  | ((with_reducible apply sim_setDb); assumption)
  | with_reducible assumption
  | tws_hyp)

/-- after `get` on both sides: the second state is the first one with other dictionaries -/
syntax "tws_get" : tactic
macro_rules | `(tactic| tws_get) => `(tactic|
  (with_reducible refine Sim.get_bind_same (fun _ _ => Tw.exD) ?_ (fun s => ?_)
   · exact fun _ _ => rfl))

syntax "tws_step" : tactic
macro_rules | `(tactic| tws_step) => `(tactic| first
  | tws_leaf
  | tws_get
  | (with_reducible refine Sim.bind ?_ (fun _ => ?_))
  | (with_reducible refine Sim.forM (fun _ => ?_))
  | (with_reducible refine Sim.forIn (fun _ _ => ?_) _)
  | (with_reducible refine Sim.mapM (fun _ => ?_))
  | (with_reducible refine Sim.map _ ?_)
  | split
  | (simp only []))

/-- structural descent through a `do` block, on both sides at once -/
syntax "tws_sim" : tactic
macro_rules | `(tactic| tws_sim) => `(tactic| repeat' tws_step)

theorem sim_emit (c : Nat) (r : Reply) : Sim (Tw fut t) Eq (emit c r) (emit c r) := by
  unfold emit; tws_sim

macro_rules | `(tactic| tws_leaf) => `(tactic| with_reducible exact sim_emit _ _)

theorem sim_writebackAll (d : Nat) (cis : List CI) : Sim (Tw fut t) Eq (writebackAll d cis) (writebackAll d cis) := by
  unfold writebackAll
  refine Sim.forM (fun ci => ?_)
  refine sim_getDb_bind d (fun a b hab => ?_)
  tws_pair hab.writeback ci, ci.writeback a, ci.writeback b
  tws_sim

theorem sim_liveKeys (d : Nat) : Sim (Tw fut t) Eq (liveKeys d) (liveKeys d) := by
  unfold liveKeys
  refine sim_getDb_bind d (fun a b hab => ?_)
  have hk := hab.keys
  tws_pair (And.intro hk.1 hk.2.1), a.keys, b.keys
  tws_sim

macro_rules | `(tactic| tws_leaf) => `(tactic| first
  | with_reducible exact sim_writebackAll _ _
  | with_reducible exact sim_liveKeys _)

theorem sim_clearDb (d : Nat) : Sim (Tw fut t) Eq (clearDb d) (clearDb d) := by
  unfold clearDb; tws_sim

theorem sim_okR (r : Reply) (cis : List CI) : Sim (Tw fut t) Eq (okR r cis) (okR r cis) := Sim.pure_eq _

macro_rules | `(tactic| tws_leaf) => `(tactic| first
  | with_reducible exact sim_clearDb _
  | with_reducible exact sim_okR _ _)

/-! ## The special bodies -/

theorem sim_selectCmd (c : Nat) (args : List Arg) (cis : List CI) :
    Sim (Tw fut t) Eq (selectCmd c args cis) (selectCmd c args cis) := by
  unfold selectCmd; tws_sim

theorem sim_multiCmd (c : Nat) (cis : List CI) : Sim (Tw fut t) Eq (multiCmd c cis) (multiCmd c cis) := by
  unfold multiCmd; tws_sim

theorem sim_discardCmd (c : Nat) (cis : List CI) : Sim (Tw fut t) Eq (discardCmd c cis) (discardCmd c cis) := by
  unfold discardCmd; tws_sim

theorem sim_watchCmd (c d : Nat) (args : List Arg) (cis : List CI) :
    Sim (Tw fut t) Eq (watchCmd c d args cis) (watchCmd c d args cis) := by
  unfold watchCmd; tws_sim

theorem sim_subscribeGen (c : Nat) (pattern : Bool) (names : List Bytes) :
    Sim (Tw fut t) Eq (subscribeGen c pattern names) (subscribeGen c pattern names) := by
  unfold subscribeGen; tws_sim

theorem sim_unsubscribeGen (c : Nat) (pattern : Bool) (names : List Bytes) :
    Sim (Tw fut t) Eq (unsubscribeGen c pattern names) (unsubscribeGen c pattern names) := by
  unfold unsubscribeGen; tws_sim


theorem sim_publish (ch msg : Bytes) : Sim (Tw fut t) Eq (publish ch msg) (publish ch msg) := by
  unfold publish; tws_sim

macro_rules | `(tactic| tws_leaf) => `(tactic| first
  | with_reducible exact sim_selectCmd _ _ _
  | with_reducible exact sim_multiCmd _ _
  | with_reducible exact sim_discardCmd _ _
  | with_reducible exact sim_watchCmd _ _ _ _
  | with_reducible exact sim_subscribeGen _ _ _
  | with_reducible exact sim_unsubscribeGen _ _ _
  | with_reducible exact sim_publish _ _)

open Lean Elab Tactic Meta in
/-- `tws_dbget hab`: find `Db.get a k` in the goal (`hab : DbRel t a b`) and destructure it together with `Db.get b k` -/
elab "tws_dbget " h:ident : tactic => withMainContext do
  let hE ← elabTerm h none
  let hT ← instantiateMVars (← inferType hE)
  let args := hT.getAppArgs
  let a := args[1]!
  let b := args[2]!
  let tgt ← instantiateMVars (← getMainTarget)
  let some e := tgt.find? (fun e => e.isAppOfArity ``FR.Db.get 2 && e.getAppArgs[0]! == a && !e.hasLooseBVars)
    | throwError "tws_dbget: no `Db.get` on the first database in the goal"
  let k := e.getAppArgs[1]!
  let kStx ← Term.exprToSyntax k
  let aStx ← Term.exprToSyntax a
  let bStx ← Term.exprToSyntax b
  evalTactic (← `(tactic| tws_pair (DbRel.get $h $kStx), Db.get $aStx $kStx, Db.get $bStx $kStx))

/-- the recurring pattern `getDb d; db.get key; setDb d db'; continue with the item` -/
theorem sim_getDb_get {β : Type} {Q : β → β → Prop} (d : Nat) (key : Bytes) {f g : Db → M β}
    (k₁ k₂ : Option Item → M β)
    (hf : ∀ db, f db = (setDb d (db.get key).1 >>= fun _ => k₁ (db.get key).2))
    (hg : ∀ db, g db = (setDb d (db.get key).1 >>= fun _ => k₂ (db.get key).2))
    (hk : ∀ item, Sim (Tw fut t) Q (k₁ item) (k₂ item)) :
    Sim (Tw fut t) Q (getDb d >>= f) (getDb d >>= g) := by
  refine sim_getDb_bind d (fun a b hab => ?_)
  rw [hf, hg]
  have h := hab.get key
  rw [← h.1]
  exact Sim.bind (sim_setDb d h.2) (fun _ => hk _)

theorem sim_bpopPass (d : Nat) (left first : Bool) (keys : List Bytes) :
    Sim (Tw fut t) Eq (bpopPass d left first keys) (bpopPass d left first keys) := by
  induction keys with
  | nil => unfold bpopPass; tws_sim
  | cons k rest ih =>
    unfold bpopPass
    refine sim_getDb_bind d (fun a b hab => ?_)
    tws_pair hab.get k, a.get k, b.get k
    tws_sim


theorem sim_brpoplpushPass (d : Nat) (src dst : Bytes) (first : Bool) :
    Sim (Tw fut t) Eq (brpoplpushPass d src dst first) (brpoplpushPass d src dst first) := by
  unfold brpoplpushPass
  refine sim_getDb_bind d (fun a b hab => ?_)
  tws_pair hab.get src, a.get src, b.get src
  refine Sim.bind (by tws_leaf) (fun _ => ?_)
  split
  · tws_sim
  · split
    · refine sim_getDb_bind d (fun a2 b2 hab2 => ?_)
      tws_pair hab2.get dst, a2.get dst, b2.get dst
      tws_sim
    · tws_sim

theorem sim_blocking (c : Nat) (park : Bool) (kind : String) (keys : List Bytes) (timeout : Int)
    (pass : Bool → M (Except Err (Option Reply))) (hpass : ∀ first, Sim (Tw fut t) Eq (pass first) (pass first)) :
    Sim (Tw fut t) Eq (blocking c park kind keys timeout pass) (blocking c park kind keys timeout pass) := by
  have h1 := hpass true
  unfold blocking; tws_sim

theorem sim_blockingAsync (c : Nat) (kind : String) (keys : List Bytes)
    (pass : Bool → M (Except Err (Option Reply))) (hpass : ∀ first, Sim (Tw fut t) Eq (pass first) (pass first)) :
    Sim (Tw fut t) Eq (blockingAsync c kind keys pass) (blockingAsync c kind keys pass) := by
  have h1 := hpass true
  unfold blockingAsync; tws_sim

/-- the nested runner is a twin simulation -/
def InnerSim (fut : Option (List Int)) (t : Int) (inner : Inner) : Prop :=
  ∀ (sig : Sig) (raw : List Bytes), Sim (Tw fut t) Eq (inner sig raw) (inner sig raw)

theorem sim_runQueue (inner : Inner) (hinner : InnerSim fut t inner) (c : Nat)
    (q : List (String × List Bytes)) : Sim (Tw fut t) Eq (runQueue inner c q) (runQueue inner c q) := by
  induction q with
  | nil => unfold runQueue; tws_sim
  | cons a rest ih =>
    have hinner' : ∀ sig raw, Sim (Tw fut t) Eq (inner sig raw) (inner sig raw) := hinner
    rw [runQueue_cons]
    refine Sim.bind ?_ (fun _ => Sim.bind ih (fun _ => Sim.pure_eq _))
    unfold queueStep
    tws_sim

theorem sim_execCmd (inner : Inner) (hinner : InnerSim fut t inner) (c : Nat) (cis : List CI) :
    Sim (Tw fut t) Eq (execCmd inner c cis) (execCmd inner c cis) := by
  have hq := sim_runQueue inner hinner c
  unfold execCmd
  tws_sim

theorem sim_lookupKey (d : Nat) (key pattern : Bytes) :
    Sim (Tw fut t) Eq (lookupKey d key pattern) (lookupKey d key pattern) := by
  unfold lookupKey
  split
  · tws_sim
  · split
    · tws_sim
    · simp only []
      refine sim_getDb_bind d (fun a b hab => ?_)
      tws_dbget hab
      tws_sim


theorem Tw.setPicks {s₁ s₂ : Sys} (h : Tw fut t s₁ s₂) (r : List (List Bytes)) :
    Tw fut t { s₁ with picks := r } { s₂ with picks := r } :=
  h.frameFn (g := fun s => { s with picks := r }) ⟨fun _ _ => rfl, fun _ => rfl, fun _ => rfl⟩

theorem sim_randomkeyCmd (d : Nat) (cis : List CI) :
    Sim (Tw fut t) Eq (randomkeyCmd d cis) (randomkeyCmd d cis) := by
  unfold randomkeyCmd okR
  refine Sim.bind (sim_liveKeys d) (fun ks => ?_)
  split
  · tws_sim
  · refine Sim.get_bind (fun s₁ s₂ hs => ?_)
    have hp : s₂.picks = s₁.picks := by rw [hs.frame]; rfl
    rw [hp]
    split
    · split
      · exact Sim.at_set_bind (hs.setPicks _) (Sim.pure_eq _)
      · refine Sim.at_of_sim ?_ hs; tws_sim
    · refine Sim.at_of_sim ?_ hs; tws_sim


theorem liveKeys_run (d : Nat) (s : Sys) :
    liveKeys d s = ((s.dbAt d).keys.2, s.setDbS d (s.dbAt d).keys.1) := rfl

/-- after `liveKeys d` the dictionary `d` is purged on both sides, hence the very same -/
theorem sim_liveKeys_getDb {β : Type} {Q : β → β → Prop} (d : Nat) {f g : List Bytes → Db → M β}
    (hf : ∀ ks db, Sim (Tw fut t) Q (f ks db) (g ks db)) :
    Sim (Tw fut t) Q (liveKeys d >>= fun ks => getDb d >>= f ks) (liveKeys d >>= fun ks => getDb d >>= g ks) := by
  intro s₁ s₂ h
  have hk := (h.dbAt d).keys
  have h' : Tw fut t (s₁.setDbS d (s₁.dbAt d).keys.1) (s₂.setDbS d (s₂.dbAt d).keys.1) := h.setDbS d hk.2.1
  have hdb : (s₁.setDbS d (s₁.dbAt d).keys.1).dbAt d = (s₂.setDbS d (s₂.dbAt d).keys.1).dbAt d := by
    have hl := h.len
    by_cases hd : d < s₁.srv.dbs.length
    · rw [Sys.setDbS_dbAt_self _ _ _ hd (hk.2.1.2.trans h.time.symm),
        Sys.setDbS_dbAt_self _ _ _ (by omega) (hk.2.1.time₂.trans h.time₂.symm)]
      exact hk.2.2
    · unfold Sys.dbAt Sys.setDbS
      simp only
      rw [List.set_eq_of_length_le (by omega), List.set_eq_of_length_le (by omega)]
      rw [List.getD_eq_getElem?_getD, List.getD_eq_getElem?_getD,
        List.getElem?_eq_none (by omega), List.getElem?_eq_none (by omega), h.time, h.time₂]
  show Q (f (s₁.dbAt d).keys.2 ((s₁.setDbS d (s₁.dbAt d).keys.1).dbAt d) (s₁.setDbS d (s₁.dbAt d).keys.1)).1
      (g (s₂.dbAt d).keys.2 ((s₂.setDbS d (s₂.dbAt d).keys.1).dbAt d) (s₂.setDbS d (s₂.dbAt d).keys.1)).1 ∧
    Tw fut t (f (s₁.dbAt d).keys.2 ((s₁.setDbS d (s₁.dbAt d).keys.1).dbAt d) (s₁.setDbS d (s₁.dbAt d).keys.1)).2
      (g (s₂.dbAt d).keys.2 ((s₂.setDbS d (s₂.dbAt d).keys.1).dbAt d) (s₂.setDbS d (s₂.dbAt d).keys.1)).2
  rw [hdb, hk.1]
  exact hf _ _ _ _ h'

theorem sim_scanCmd (d : Nat) (args : List Arg) (cis : List CI) :
    Sim (Tw fut t) Eq (scanCmd d args cis) (scanCmd d args cis) := by
  unfold scanCmd
  split
  · refine sim_liveKeys_getDb d (fun ks db => ?_)
    tws_sim
  · tws_sim


theorem sim_swapdbCmd (args : List Arg) (cis : List CI) :
    Sim (Tw fut t) Eq (swapdbCmd args cis) (swapdbCmd args cis) := by
  unfold swapdbCmd okR
  split
  · split
    · refine sim_getDb_bind _ (fun a1 b1 hab1 => ?_)
      refine sim_getDb_bind _ (fun a2 b2 hab2 => ?_)
      tws_sim
    · tws_sim
  · tws_sim

/-! ### MOVE -/

/-- every entry of key `k` in the raw dictionary is live -/
def KLive (db : Db) (k : Bytes) : Prop := ∀ q ∈ db.dict, q.1 = k → (!db.expired q.2) = true

theorem DbRel.setRaw {a b : Db} (h : DbRel t a b) {k : Bytes} (it : Item) (ha : KLive a k) (hb : KLive b k) :
    DbRel t { a with dict := Db.setRaw a.dict k it } { b with dict := Db.setRaw b.dict k it } := by
  refine ⟨⟨Db.nodup_setRaw _ _ h.1.nd1, Db.nodup_setRaw _ _ h.1.nd2, ?_⟩, h.2⟩
  rw [Db.setRaw_purge k it ha, Db.setRaw_purge k it hb, h.1.eq]

/-- the part of MOVE after the destination has been probed -/
def moveTail (d : Nat) (k : Nat) (dst : Nat) (cis : List CI) : M SpecialOut := do
  let key := ciAt cis k
  let sdb ← getDb d
  let (sdb', sitem) := sdb.get key.key
  setDb d sdb'
  match sitem with
  | none => return .error "model: move source vanished"
  | some it =>
    let ddb ← getDb dst
    setDb dst { ddb with dict := Db.setRaw ddb.dict key.key it }
    notifyWatch dst key.key
    return .ok (some (.int 1), cis.set k (key.setValue none))

theorem moveCmd_eq (d : Nat) (k : Nat) (dst : Int) (cis : List CI) :
    moveCmd d [.key k, .int dst] cis = (do
      let key := ciAt cis k
      if dst.toNat == d then return .error Msgs.SRC_DST_SAME_MSG
      if !key.truthy then return .ok (some (.int 0), cis)
      let ddb ← getDb dst.toNat
      let (ddb', ditem) := ddb.get key.key
      setDb dst.toNat ddb'
      if ditem.isSome then return .ok (some (.int 0), cis)
      moveTail d k dst.toNat cis) := rfl


theorem moveTail_run (d k dst : Nat) (cis : List CI) (s : Sys) :
    moveTail d k dst cis s =
      match ((s.dbAt d).get (ciAt cis k).key).2 with
      | none => (.error "model: move source vanished", s.setDbS d ((s.dbAt d).get (ciAt cis k).key).1)
      | some it =>
        (.ok (some (.int 1), cis.set k ((ciAt cis k).setValue none)),
          (notifyWatch dst (ciAt cis k).key
            ((s.setDbS d ((s.dbAt d).get (ciAt cis k).key).1).setDbS dst
              { (s.setDbS d ((s.dbAt d).get (ciAt cis k).key).1).dbAt dst with
                dict := Db.setRaw ((s.setDbS d ((s.dbAt d).get (ciAt cis k).key).1).dbAt dst).dict (ciAt cis k).key it })).2) := by
  unfold moveTail
  simp only [bind, StateT.bind, getDb_run', setDb_run', pure, StateT.pure]
  cases ((s.dbAt d).get (ciAt cis k).key).2 <;> rfl

theorem moveTail_simAt {d k dst : Nat} (cis : List CI) (hne : dst ≠ d) {s₁ s₂ : Sys} (h : Tw fut t s₁ s₂)
    (h1 : KLive (s₁.dbAt dst) (ciAt cis k).key) (h2 : KLive (s₂.dbAt dst) (ciAt cis k).key) :
    SimAt (Tw fut t) Eq s₁ s₂ (moveTail d k dst cis) (moveTail d k dst cis) := by
  unfold SimAt
  rw [moveTail_run, moveTail_run]
  have hg := (h.dbAt d).get (ciAt cis k).key
  have hu := h.setDbS d hg.2
  rw [← hg.1]
  have e1 := Sys.setDbS_dbAt_ne s₁ d dst ((s₁.dbAt d).get (ciAt cis k).key).1 hne
  have e2 := Sys.setDbS_dbAt_ne s₂ d dst ((s₂.dbAt d).get (ciAt cis k).key).1 hne
  cases ((s₁.dbAt d).get (ciAt cis k).key).2 with
  | none => exact ⟨rfl, hu⟩
  | some it =>
    refine ⟨rfl, ?_⟩
    refine (sim_notifyWatch dst _ _ _ ?_).2
    refine hu.setDbS dst ?_
    rw [e1, e2]
    exact (h.dbAt dst).setRaw it h1 h2


/-- MOVE once source and destination are known to differ and the key is present -/
def moveProbe (d k dst : Nat) (cis : List CI) : M SpecialOut := do
  let ddb ← getDb dst
  let (ddb', ditem) := ddb.get (ciAt cis k).key
  setDb dst ddb'
  if ditem.isSome then return .ok (some (.int 0), cis)
  moveTail d k dst cis

theorem moveProbe_run (d k dst : Nat) (cis : List CI) (s : Sys) :
    moveProbe d k dst cis s =
      if ((s.dbAt dst).get (ciAt cis k).key).2.isSome then
        (.ok (some (.int 0), cis), s.setDbS dst ((s.dbAt dst).get (ciAt cis k).key).1)
      else moveTail d k dst cis (s.setDbS dst ((s.dbAt dst).get (ciAt cis k).key).1) := by
  unfold moveProbe
  simp only [bind, StateT.bind, getDb_run', setDb_run', pure, StateT.pure]
  cases ((s.dbAt dst).get (ciAt cis k).key).2 <;> rfl

theorem klive_after_get (s : Sys) (dst : Nat) (key : Bytes) (nd : NodupKeys (s.dbAt dst).dict) :
    KLive ((s.setDbS dst ((s.dbAt dst).get key).1).dbAt dst) key := by
  by_cases hd : dst < s.srv.dbs.length
  · rw [Sys.setDbS_dbAt_self _ _ _ hd (Db.get_time _ _)]
    exact Db.get_live key nd
  · have : (s.setDbS dst ((s.dbAt dst).get key).1).dbAt dst = ⟨[], s.srv.time⟩ := by
      unfold Sys.dbAt Sys.setDbS
      simp only
      rw [List.set_eq_of_length_le (by omega), List.getD_eq_getElem?_getD, List.getElem?_eq_none (by omega)]
      rfl
    rw [this]
    intro q hq
    cases hq

theorem sim_moveProbe {d k dst : Nat} (cis : List CI) (hne : dst ≠ d) :
    Sim (Tw fut t) Eq (moveProbe d k dst cis) (moveProbe d k dst cis) := by
  intro s₁ s₂ h
  rw [moveProbe_run, moveProbe_run]
  have hg := (h.dbAt dst).get (ciAt cis k).key
  have hu := h.setDbS dst hg.2
  rw [← hg.1]
  split
  · exact ⟨rfl, hu⟩
  · exact moveTail_simAt cis hne hu (klive_after_get s₁ dst _ (h.dbAt dst).1.nd1)
      (klive_after_get s₂ dst _ (h.dbAt dst).1.nd2)

theorem sim_moveCmd (d : Nat) (args : List Arg) (cis : List CI) :
    Sim (Tw fut t) Eq (moveCmd d args cis) (moveCmd d args cis) := by
  by_cases hargs : ∃ k dst, args = [.key k, .int dst]
  · obtain ⟨k, dst, rfl⟩ := hargs
    have e : moveCmd d [.key k, .int dst] cis = (do
        if dst.toNat == d then return .error Msgs.SRC_DST_SAME_MSG
        if !(ciAt cis k).truthy then return .ok (some (.int 0), cis)
        moveProbe d k dst.toNat cis) := rfl
    rw [e]
    split
    · tws_sim
    · rename_i hne
      have hne' : dst.toNat ≠ d := by simpa using hne
      have := sim_moveProbe (fut := fut) (t := t) (k := k) cis hne'
      tws_sim
  · unfold moveCmd
    split
    · exact absurd ⟨_, _, rfl⟩ hargs
    · tws_sim

/-- `getDb d` followed by a lazy `get` on both sides -/
syntax "tws_db" : tactic
macro_rules | `(tactic| tws_db) => `(tactic|
  ((with_reducible refine sim_getDb_bind _ (fun a b hab => ?_)); tws_dbget hab))

macro_rules | `(tactic| tws_leaf) => `(tactic| first
  | with_reducible exact sim_lookupKey _ _ _
  | with_reducible exact sim_randomkeyCmd _ _
  | with_reducible exact sim_scanCmd _ _ _
  | with_reducible exact sim_moveCmd _ _ _
  | with_reducible exact sim_swapdbCmd _ _)

macro_rules | `(tactic| tws_step) => `(tactic| tws_db)

theorem sim_sortCmd (c d : Nat) (args : List Arg) (cis : List CI) :
    Sim (Tw fut t) Eq (sortCmd c d args cis) (sortCmd c d args cis) := by
  unfold sortCmd
  split
  · extract_lets key wrong out x keyed err le jp
    split
    · tws_sim
    · have hjp : ∀ x, Sim (Tw fut t) Eq (jp x) (jp x) := by
        intro items?
        simp -zeta only [jp]
        split
        · tws_sim
        · split
          · tws_sim
          · extract_lets n start stop stop' gets sortby jp2
            have hjp2 : ∀ x, Sim (Tw fut t) Eq (jp2 x) (jp2 x) := by
              intro sorted?
              simp -zeta only [jp2]
              tws_sim
            clear_value jp2
            tws_sim
      clear_value jp
      simp only []
      split
      · tws_sim
      · tws_sim
      · tws_sim
      · refine Sim.get_bind (fun s₁ s₂ hs => ?_)
        have hp : s₂.picks = s₁.picks := by rw [hs.frame]; rfl
        rw [hp]
        split
        · split
          · exact Sim.at_set_bind (hs.setPicks _) (by tws_sim)
          · refine Sim.at_of_sim ?_ hs; tws_sim
        · refine Sim.at_of_sim ?_ hs; tws_sim
      · tws_sim
  · tws_sim


theorem sim_zunioninter (u : Bool) (d : Nat) (args : List Arg) (cis : List CI) :
    Sim (Tw fut t) Eq (zunioninter u d args cis) (zunioninter u d args cis) := by
  unfold zunioninter
  split
  · tws_sim
    all_goals
      refine Sim.loop_pure (fun b => b.2.2.2.2) _ (fun b => ?_) _
      repeat' split
      all_goals
        refine ⟨_, rfl, fun b' h => ?_⟩
        first
          | (cases h; done)
          | (have h := ForInStep.yield.inj h; subst h; simp_all <;> omega)
  · tws_sim

theorem sim_scriptCmd (inner : Inner) (c : Nat) (name : String) (args : List Arg) (cis : List CI) :
    Sim (Tw fut t) Eq (scriptCmd inner c name args cis) (scriptCmd inner c name args cis) := by
  unfold scriptCmd; tws_sim

macro_rules | `(tactic| tws_leaf) => `(tactic| first
  | with_reducible exact sim_sortCmd _ _ _ _
  | with_reducible exact sim_zunioninter _ _ _ _
  | with_reducible exact sim_scriptCmd _ _ _ _ _
  | with_reducible exact sim_blocking _ _ _ _ _ _ (fun _ => sim_bpopPass _ _ _ _)
  | with_reducible exact sim_blockingAsync _ _ _ _ (fun _ => sim_bpopPass _ _ _ _)
  | with_reducible exact sim_blocking _ _ _ _ _ _ (fun _ => sim_brpoplpushPass _ _ _ _)
  | with_reducible exact sim_blockingAsync _ _ _ _ (fun _ => sim_brpoplpushPass _ _ _ _))

theorem sim_special (inner : Inner) (hinner : InnerSim fut t inner) (mode : Mode) (c : Nat)
    (name : String) (args : List Arg) (cis : List CI) :
    Sim (Tw fut t) Eq (special inner mode c name args cis) (special inner mode c name args cis) := by
  have hexec := sim_execCmd inner hinner c
  unfold special
  simp only []
  refine Sim.bind (sim_getConn c) (fun conn => ?_)
  split
  all_goals tws_sim


/-! ## `_run_command` -/

abbrev SpecialFn := FR.SpecialFn

theorem sim_runWith (special : SpecialFn) (mode : Mode) (c : Nat) (sig : Sig) (raw : List Bytes) (fromScript : Bool)
    (hsp : ∀ args cis, Sim (Tw fut t) Eq (special mode c sig.name args cis) (special mode c sig.name args cis)) :
    Sim (Tw fut t) Eq (runWith special mode c sig raw fromScript) (runWith special mode c sig raw fromScript) := by
  unfold runWith
  refine Sim.bind (sim_getConn c) (fun conn => ?_)
  split
  · -- refused in subscriber mode: the same pure reply on both sides
    exact Sim.pure_eq _
  refine sim_getDb_bind _ (fun a b hab => ?_)
  extract_lets gate
  clear_value gate
  split
  · -- regular command
    rename_i body hbody
    refine Sim.get_bind_same (fun _ _ => Tw.exD) (fun _ _ => rfl) (fun s => ?_)
    extract_lets ctx o₁ jp₁ o₂ jp₂
    have hs : o₁.reply = o₂.reply ∧ o₁.notified = o₂.notified ∧ o₁.failed = o₂.failed ∧
        o₁.picksUsed = o₂.picksUsed ∧ o₁.fault = o₂.fault ∧ Db.Sim o₁.db o₂.db :=
      runRegular_sim sig body ctx gate raw hab.1
    have ht : o₁.db.time = a.time := runRegular_time sig body ctx gate raw hab.1.nd1
    simp -zeta only [jp₁, jp₂]
    clear jp₁ jp₂
    clear_value o₁ o₂
    obtain ⟨db1, reply1, notified1, picks1, failed1, fault1⟩ := o₁
    obtain ⟨db2, reply2, notified2, picks2, failed2, fault2⟩ := o₂
    simp only at hs ht ⊢
    obtain ⟨rfl, rfl, rfl, rfl, rfl, hsim⟩ := hs
    have hab' : DbRel t db1 db2 := ⟨hsim, ht.trans hab.2⟩
    tws_sim
  · tws_pair hab.apply sig raw, sig.apply raw a, sig.apply raw b
    tws_sim

/-! ## Scripts -/

theorem sim_nextPick : Sim (Tw fut t) Eq nextPick nextPick := by
  unfold nextPick
  refine Sim.get_bind (fun s₁ s₂ hs => ?_)
  have hp : s₂.picks = s₁.picks := by rw [hs.frame]; rfl
  rw [hp]
  split
  · exact Sim.at_set_bind (hs.setPicks _) (Sim.pure_eq _)
  · exact Sim.at_of_sim (Sim.pure_eq _) hs

macro_rules | `(tactic| tws_leaf) => `(tactic| with_reducible exact sim_nextPick)

theorem sim_shaHint : Sim (Tw fut t) Eq shaHint shaHint := by
  unfold shaHint; tws_sim

macro_rules | `(tactic| tws_leaf) => `(tactic| with_reducible exact sim_shaHint)

def SpecialSim (fut : Option (List Int)) (t : Int) (special : SpecialFn) : Prop :=
  ∀ mode c name args cis, Sim (Tw fut t) Eq (special mode c name args cis) (special mode c name args cis)

theorem sim_runFromScript (special : SpecialFn) (hsp : SpecialSim fut t special) (mode : Mode) (c : Nat)
    (op : LuaVal) (args : List LuaVal) :
    Sim (Tw fut t) Eq (runFromScript special mode c op args) (runFromScript special mode c op args) := by
  have hrun : ∀ sig raw, Sim (Tw fut t) Eq (runWith special mode c sig raw true) (runWith special mode c sig raw true) :=
    fun sig raw => sim_runWith special mode c sig raw true (fun _ _ => hsp _ _ _ _ _)
  unfold runFromScript
  tws_sim

theorem sim_runTrace (special : SpecialFn) (hsp : SpecialSim fut t special) (mode : Mode) (c : Nat)
    (sha : Bytes) (fuel : Nat) :
    Sim (Tw fut t) Eq (runTrace special mode c sha fuel) (runTrace special mode c sha fuel) := by
  have hcall := sim_runFromScript special hsp mode c
  induction fuel with
  | zero => unfold runTrace; tws_sim
  | succ fuel ih => unfold runTrace; tws_sim

theorem sim_evalBody (special : SpecialFn) (hsp : SpecialSim fut t special) (mode : Mode) (c : Nat)
    (script : Bytes) (numkeys : Int) (rest : List Bytes) :
    Sim (Tw fut t) Eq (evalBody special mode c script numkeys rest) (evalBody special mode c script numkeys rest) := by
  have htrace := sim_runTrace special hsp mode c
  unfold evalBody; tws_sim

theorem sim_scriptBody (special : SpecialFn) (hsp : SpecialSim fut t special) (mode : Mode) (c : Nat)
    (name : String) (args : List Arg) :
    Sim (Tw fut t) Eq (scriptBody special mode c name args) (scriptBody special mode c name args) := by
  have heval := sim_evalBody special hsp mode c
  unfold scriptBody; tws_sim

theorem sim_special_stub : SpecialSim fut t (special (fun _ _ => do fault "nested exec"; return none)) := by
  intro mode c name args cis
  apply sim_special
  intro sig raw
  tws_sim

theorem sim_runScriptCmd (mode : Mode) (c : Nat) (sig : Sig) (raw : List Bytes) (fromScript : Bool) :
    Sim (Tw fut t) Eq (runScriptCmd mode c sig raw fromScript) (runScriptCmd mode c sig raw fromScript) := by
  have hbody := sim_scriptBody (fut := fut) (t := t) _ sim_special_stub mode c
  unfold runScriptCmd
  refine Sim.bind (sim_getConn c) (fun conn => ?_)
  split
  · exact Sim.pure_eq _
  refine sim_getDb_bind _ (fun a b hab => ?_)
  tws_pair hab.apply sig raw, sig.apply raw a, sig.apply raw b
  tws_sim

/-- the nested runner of EXEC (level 0) -/
theorem sim_runInner (mode : Mode) (c : Nat) : InnerSim fut t (runInner mode c) := by
  intro sig raw
  refine runInner_cases (P := fun m => Sim (Tw fut t) Eq m m) mode c sig raw
    (fun _ => sim_runScriptCmd mode c sig raw false) (fun _ => ?_)
  apply sim_runWith
  intro args cis
  exact sim_special_stub _ _ _ _ _

/-- `_run_command` for a command issued by a client -/
theorem sim_runCommand (mode : Mode) (c : Nat) (sig : Sig) (raw : List Bytes) (fromScript : Bool) :
    Sim (Tw fut t) Eq (runCommand mode c sig raw fromScript) (runCommand mode c sig raw fromScript) := by
  unfold runCommand
  split
  · exact sim_runScriptCmd _ _ _ _ _
  · apply sim_runWith
    intro args cis
    exact sim_special _ (sim_runInner mode c) _ _ _ _ _

/-! ## Above `_run_command`: the server time changes -/

theorem TwE.exD {s₁ s₂ : Sys} (h : TwE fut s₁ s₂) : ∃ D, s₂ = withDbs s₁ D := Tw.exD h

/-- code that is a twin simulation at every fixed time is one when the time is not fixed -/
theorem Sim.liftE {α : Type} {Q : α → α → Prop} {m₁ m₂ : M α} (h : ∀ t, Sim (Tw fut t) Q m₁ m₂) :
    Sim (TwE fut) Q m₁ m₂ := by
  intro s₁ s₂ hr
  obtain ⟨hq, hr'⟩ := h s₁.srv.time s₁ s₂ hr
  refine ⟨hq, ?_⟩
  unfold TwE
  rw [hr'.time]
  exact hr'

/-- purging at a later time absorbs purging at an earlier time -/
theorem purge_later (d : Dict) {t t' : Int} (h : t ≤ t') :
    Db.purge ⟨(Db.purge ⟨d, t⟩).dict, t'⟩ = Db.purge ⟨d, t'⟩ := by
  unfold Db.purge
  simp only [Db.mk.injEq, and_true, List.filter_filter]
  apply List.filter_congr
  intro p hp
  unfold Db.expired
  cases p.2.expireat with
  | none => rfl
  | some e =>
    simp only
    by_cases h1 : e < t'
    · simp [h1]
    · have : ¬ e < t := by omega
      simp [h1, this]

theorem dbSim_later {d₁ d₂ : Dict} {t t' : Int} (h : Db.Sim ⟨d₁, t⟩ ⟨d₂, t⟩) (hle : t ≤ t') :
    Db.Sim ⟨d₁, t'⟩ ⟨d₂, t'⟩ := by
  refine ⟨h.nd1, h.nd2, ?_⟩
  rw [← purge_later d₁ hle, ← purge_later d₂ hle, h.eq]


/-- `srv.time := now` -/
def setTime (now : Int) : M PUnit := modify fun s => { s with srv := { s.srv with time := now } }

/-- the clock refresh of `_process_command`: the only place where the server time changes -/
theorem sim_refresh_bind {fl : List Int} {β : Type} {Q : β → β → Prop} {f g : PUnit → M β}
    (hf : Sim (TwE (some fl)) Q (f ⟨⟩) (g ⟨⟩)) :
    Sim (TwE (some fl)) Q
      (nextClock >>= fun now => modify (fun s => { s with srv := { s.srv with time := now } }) >>= f)
      (nextClock >>= fun now => modify (fun s => { s with srv := { s.srv with time := now } }) >>= g) := by
  intro s₁ s₂ h
  have hcl : s₂.clocks = s₁.clocks := by rw [h.frame]; rfl
  have hti : s₂.srv.time = s₁.srv.time := by rw [h.time₂]
  cases hc : s₁.clocks with
  | nil =>
    show Q ((setTime (nextClock s₁).1 >>= f) (nextClock s₁).2).1 ((setTime (nextClock s₂).1 >>= g) (nextClock s₂).2).1 ∧
      TwE (some fl) ((setTime (nextClock s₁).1 >>= f) (nextClock s₁).2).2
        ((setTime (nextClock s₂).1 >>= g) (nextClock s₂).2).2
    rw [nextClock_nil hc, nextClock_nil (hcl.trans hc)]
    have h' := (Sim.liftE (fun t => sim_fault (fut := some fl) (t := t) "clock readings exhausted") s₁ s₂ h).2
    have e1 : ∀ s : Sys, ({ (M.fault "clock readings exhausted" s).2 with
        srv := { (M.fault "clock readings exhausted" s).2.srv with time := s.srv.time } } : Sys)
        = (M.fault "clock readings exhausted" s).2 := by
      intro s
      show ({ (if s.fault.isNone then _ else s : Sys) with srv := { (if s.fault.isNone then _ else s : Sys).srv with time := s.srv.time } } : Sys) = (if s.fault.isNone then _ else s : Sys)
      split <;> rfl
    have := hf _ _ h'
    show Q (f ⟨⟩ _).1 (g ⟨⟩ _).1 ∧ TwE (some fl) (f ⟨⟩ _).2 (g ⟨⟩ _).2
    simp only [e1]
    exact this
  | cons x rest =>
    show Q ((setTime (nextClock s₁).1 >>= f) (nextClock s₁).2).1 ((setTime (nextClock s₂).1 >>= g) (nextClock s₂).2).1 ∧
      TwE (some fl) ((setTime (nextClock s₁).1 >>= f) (nextClock s₁).2).2
        ((setTime (nextClock s₂).1 >>= g) (nextClock s₂).2).2
    rw [nextClock_cons hc, nextClock_cons (hcl.trans hc)]
    refine hf _ _ ?_
    obtain ⟨D, rfl⟩ := h.exD
    have hck := h.clock
    unfold ClockMono at hck
    simp only [hc, List.cons_append, List.pairwise_cons] at hck
    refine ⟨rfl, rfl, h.len, fun i => dbSim_later (h.sim i) (hck.1 x (List.mem_cons_self ..)), ?_⟩
    unfold ClockMono
    simp only [List.pairwise_cons]
    exact hck.2


/-- leaves and `get` at the level where the time is not fixed -/
macro_rules | `(tactic| tws_leaf) => `(tactic|
  ((with_reducible refine Sim.liftE (fun t => ?_)); tws_leaf))

macro_rules | `(tactic| tws_get) => `(tactic|
  (with_reducible refine Sim.get_bind_same (fun _ _ => TwE.exD) ?_ (fun s => ?_)
   · exact fun _ _ => rfl))

theorem sim_cleanupClosed : Sim (Tw fut t) Eq cleanupClosed cleanupClosed := by
  unfold cleanupClosed; tws_sim

macro_rules | `(tactic| tws_leaf) => `(tactic| first
  | with_reducible exact sim_cleanupClosed
  | with_reducible exact sim_runCommand _ _ _ _ _)

variable {fl : List Int}

/-- `_process_command`, for any request -/
theorem sim_processCommand (mode : Mode) (c : Nat) (fields : List Bytes) :
    Sim (TwE (some fl)) Eq (processCommand mode c fields) (processCommand mode c fields) := by
  unfold processCommand
  split
  · tws_sim
  · refine Sim.bind (by tws_leaf) (fun conn => ?_)
    extract_lets sig? jp1 jp2
    clear_value sig?
    split
    · tws_sim
    · refine Sim.bind (by tws_leaf) (fun _ => ?_)
      refine sim_refresh_bind ?_
      tws_sim


/-- the parser loop, whatever the buffer holds -/
theorem sim_drain (mode : Mode) (c : Nat) (fuel : Nat) :
    Sim (TwE (some fl)) Eq (drain mode c fuel) (drain mode c fuel) := by
  have hp := sim_processCommand (fl := fl) mode c
  induction fuel with
  | zero => unfold drain; tws_sim
  | succ fuel ih => unfold drain; tws_sim

/-- `sendall` of arbitrary bytes -/
theorem sim_sendall (mode : Mode) (c : Nat) (data : Bytes) :
    Sim (TwE (some fl)) Eq (sendall mode c data) (sendall mode c data) := by
  have h2 := sim_drain (fl := fl) mode c
  unfold sendall; tws_sim

theorem sim_sendallGuarded (mode : Mode) (c : Nat) (data : Bytes) :
    Sim (TwE (some fl)) Eq (sendallGuarded mode c data) (sendallGuarded mode c data) := by
  have h1 := sim_sendall (fl := fl) mode c data
  unfold sendallGuarded; tws_sim

theorem sim_parkedPass (c : Nat) (p : Parked) : Sim (Tw fut t) Eq (parkedPass c p) (parkedPass c p) := by
  have h1 := @sim_brpoplpushPass fut t
  have h2 := @sim_bpopPass fut t
  unfold parkedPass
  tws_sim

macro_rules | `(tactic| tws_leaf) => `(tactic| with_reducible exact sim_parkedPass _ _)

theorem sim_wakeConn (c : Nat) : Sim (Tw fut t) Eq (wakeConn c) (wakeConn c) := by
  unfold wakeConn; tws_sim

theorem sim_timeoutConn (c : Nat) : Sim (Tw fut t) Eq (timeoutConn c) (timeoutConn c) := by
  unfold timeoutConn; tws_sim

theorem sim_wakeConnAsync (mode : Mode) (c : Nat) :
    Sim (TwE (some fl)) Eq (wakeConnAsync mode c) (wakeConnAsync mode c) := by
  have h := sim_drain (fl := fl) mode c
  unfold wakeConnAsync; tws_sim

theorem sim_timeoutConnAsync (mode : Mode) (c : Nat) :
    Sim (TwE (some fl)) Eq (timeoutConnAsync mode c) (timeoutConnAsync mode c) := by
  have h := sim_drain (fl := fl) mode c
  unfold timeoutConnAsync; tws_sim

theorem sim_openConn (c : Nat) : Sim (Tw fut t) Eq (openConn c) (openConn c) := by
  unfold openConn; tws_sim

theorem sim_closeConn (c : Nat) : Sim (Tw fut t) Eq (closeConn c) (closeConn c) := by
  unfold closeConn; tws_sim

theorem sim_gcConn (c : Nat) : Sim (Tw fut t) Eq (gcConn c) (gcConn c) := by
  unfold gcConn; tws_sim

/-! ## The public relation and the step theorem -/

/-- twins: purge-equal states with unique keys on both sides -/
def Twin (s₁ s₂ : Sys) : Prop := PurgeEq s₁ s₂ ∧ KeysInv s₁ ∧ KeysInv s₂

theorem nodup_getD {s : Sys} (h : KeysInv s) (i : Nat) : NodupKeys (s.srv.dbs.getD i []) := by
  rw [List.getD_eq_getElem?_getD]
  cases hi : s.srv.dbs[i]? with
  | none => unfold NodupKeys; simp
  | some d => exact h d (List.mem_of_getElem? hi)

theorem purgeAt_getD (t : Int) (l : List Dict) (i : Nat) : purgeAt t (l.getD i []) = (l.map (purgeAt t)).getD i [] := by
  rw [List.getD_eq_getElem?_getD, List.getD_eq_getElem?_getD, List.getElem?_map]
  cases l[i]? <;> rfl

theorem twE_of_twin {fut : Option (List Int)} {s₁ s₂ : Sys} (h : Twin s₁ s₂) (hc : ClockMono fut s₁) :
    TwE fut s₁ s₂ := by
  obtain ⟨⟨hf, hm⟩, k1, k2⟩ := h
  refine ⟨hf, rfl, ?_, ?_, hc⟩
  · have := congrArg List.length hm
    simpa using this
  · intro i
    refine ⟨nodup_getD k1 i, nodup_getD k2 i, ?_⟩
    have := congrArg (fun l => l.getD i []) hm
    simp only [← purgeAt_getD] at this
    unfold purgeAt at this
    unfold Db.purge at this ⊢
    simp only at this ⊢
    rw [this]

theorem twin_of_tw {fut : Option (List Int)} {t : Int} {s₁ s₂ : Sys} (h : Tw fut t s₁ s₂) : Twin s₁ s₂ := by
  have hk : ∀ (s : Sys), (∀ i, NodupKeys (s.srv.dbs.getD i [])) → KeysInv s := by
    intro s hs d hd
    obtain ⟨i, hi, rfl⟩ := List.getElem_of_mem hd
    have := hs i
    rw [List.getD_eq_getElem?_getD, List.getElem?_eq_getElem hi] at this
    exact this
  refine ⟨⟨h.frame, ?_⟩, hk s₁ (fun i => (h.sim i).nd1), hk s₂ (fun i => (h.sim i).nd2)⟩
  rw [h.time]
  apply List.ext_getElem
  · simp only [List.length_map]; exact h.len
  · intro i h1 h2
    simp only [List.length_map] at h1 h2
    simp only [List.getElem_map]
    have := (h.sim i).eq
    rw [List.getD_eq_getElem?_getD, List.getD_eq_getElem?_getD, List.getElem?_eq_getElem h1,
      List.getElem?_eq_getElem h2] at this
    unfold purgeAt
    exact congrArg Db.dict this

theorem twin_of_twE {fut : Option (List Int)} {s₁ s₂ : Sys} (h : TwE fut s₁ s₂) : Twin s₁ s₂ := twin_of_tw h


/-- the clock readings an event brings along -/
def Ev.clocks : Ev → List Int
  | .request _ _ _ clocks _ => clocks
  | .send _ _ _ clocks _ => clocks
  | .wake _ clocks => clocks
  | .awake _ _ clocks _ => clocks
  | .atimeout _ _ clocks _ => clocks
  | _ => []

/-- the clock hypothesis of one event at server time `t`: the readings of an event that may run `_process_command`
(and so may set the server time) are non-decreasing and not before `t`.  Nothing is asked of the other events (the
readings of a wake-up only decide about its own time-out). -/
def EvClockOk (t : Int) : Ev → Prop
  | .request _ _ _ clocks _ => (t :: clocks).Pairwise (· ≤ ·)
  | .send _ _ _ clocks _ => (t :: clocks).Pairwise (· ≤ ·)
  | .awake _ _ clocks _ => (t :: clocks).Pairwise (· ≤ ·)
  | .atimeout _ _ clocks _ => (t :: clocks).Pairwise (· ≤ ·)
  | _ => True

instance (t : Int) (e : Ev) : Decidable (EvClockOk t e) := by
  cases e <;> (unfold EvClockOk; infer_instance)

theorem Twin.frame {s₁ s₂ : Sys} (h : Twin s₁ s₂) : s₂ = withDbs s₁ s₂.srv.dbs := h.1.1

theorem Twin.beginEvent {s₁ s₂ : Sys} (h : Twin s₁ s₂) : Twin s₁.beginEvent s₂.beginEvent := by
  have h0 := twE_of_twin (fut := none) h trivial
  exact twin_of_tw (h0.frameFn (g := Sys.beginEvent) ⟨fun _ _ => rfl, fun _ => rfl, fun _ => rfl⟩)

theorem Twin.withHints {s₁ s₂ : Sys} (h : Twin s₁ s₂) (clocks : List Int) (picks : List (List Bytes)) :
    Twin (s₁.withHints clocks picks) (s₂.withHints clocks picks) := by
  have h0 := twE_of_twin (fut := none) h trivial
  obtain ⟨D, hD⟩ := h0.exD
  subst hD
  exact twin_of_tw (fut := none) (t := s₁.srv.time) ⟨rfl, rfl, h0.len, h0.sim, trivial⟩

/-- the state an event starts from, with the readings it brings along -/
theorem twE_start {s₁ s₂ : Sys} (h : Twin s₁ s₂) (clocks : List Int) (picks : List (List Bytes)) (fl : List Int)
    (hc : (s₁.srv.time :: (clocks ++ fl)).Pairwise (· ≤ ·)) :
    TwE (some fl) (s₁.beginEvent.withHints clocks picks) (s₂.beginEvent.withHints clocks picks) :=
  twE_of_twin (h.beginEvent.withHints clocks picks) hc

theorem twE_start_none {s₁ s₂ : Sys} (h : Twin s₁ s₂) (clocks : List Int) (picks : List (List Bytes)) :
    TwE none (s₁.beginEvent.withHints clocks picks) (s₂.beginEvent.withHints clocks picks) :=
  twE_of_twin (h.beginEvent.withHints clocks picks) trivial

theorem pairwise_append_nil {t : Int} {clocks : List Int} (h : (t :: clocks).Pairwise (· ≤ ·)) :
    (t :: (clocks ++ [])).Pairwise (· ≤ ·) := by simpa using h

/-- THE TWIN SIMULATION, one event: twins stay twins (so `out`, `fault`, `crashed`, every connection record, the
pub/sub tables, the script cache, the pending hints … are equal after the event) -/
theorem stepEv_twin {s₁ s₂ : Sys} (h : Twin s₁ s₂) (e : Ev) (hc : EvClockOk s₁.srv.time e) :
    Twin (stepEv s₁ e) (stepEv s₂ e) := by
  have hb := h.beginEvent
  have hb0 : TwE none s₁.beginEvent s₂.beginEvent := twE_of_twin hb trivial
  unfold stepEv
  cases e with
  | version v =>
    exact twin_of_tw (hb0.frameFn (g := fun s => { s with srv := { s.srv with version := v } })
      ⟨fun _ _ => rfl, fun _ => rfl, fun _ => rfl⟩)
  | «open» c => exact twin_of_tw (sim_openConn c _ _ hb0).2
  | close c => exact twin_of_tw (sim_closeConn c _ _ hb0).2
  | gc c => exact twin_of_tw (sim_gcConn c _ _ hb0).2
  | conn up =>
    exact twin_of_tw (hb0.frameFn (g := fun s => { s with srv := { s.srv with connected := up } })
      ⟨fun _ _ => rfl, fun _ => rfl, fun _ => rfl⟩)
  | request mode c fields clocks picks =>
    exact twin_of_twE (sim_processCommand mode c fields _ _ (twE_start h clocks picks [] (pairwise_append_nil hc))).2
  | send mode c data clocks picks =>
    exact twin_of_twE (sim_sendallGuarded mode c data _ _ (twE_start h clocks picks [] (pairwise_append_nil hc))).2
  | wake c clocks => exact twin_of_tw (sim_wakeConn c _ _ (twE_start_none h clocks [])).2
  | timeout c => exact twin_of_tw (sim_timeoutConn c _ _ hb0).2
  | awake mode c clocks picks =>
    exact twin_of_twE (sim_wakeConnAsync mode c _ _ (twE_start h clocks picks [] (pairwise_append_nil hc))).2
  | atimeout mode c clocks picks =>
    exact twin_of_twE (sim_timeoutConnAsync mode c _ _ (twE_start h clocks picks [] (pairwise_append_nil hc))).2


theorem Twin.refl {s : Sys} (h : KeysInv s) : Twin s s := ⟨⟨rfl, rfl⟩, h, h⟩

theorem Twin.keys₁ {s₁ s₂ : Sys} (h : Twin s₁ s₂) : KeysInv s₁ := h.2.1
theorem Twin.keys₂ {s₁ s₂ : Sys} (h : Twin s₁ s₂) : KeysInv s₂ := h.2.2

/-- everything but the dictionaries is shared -/
theorem Twin.out_eq {s₁ s₂ : Sys} (h : Twin s₁ s₂) : s₂.out = s₁.out := by rw [h.frame]; rfl
theorem Twin.fault_eq {s₁ s₂ : Sys} (h : Twin s₁ s₂) : s₂.fault = s₁.fault := by rw [h.frame]; rfl
theorem Twin.crashed_eq {s₁ s₂ : Sys} (h : Twin s₁ s₂) : s₂.crashed = s₁.crashed := by rw [h.frame]; rfl
theorem Twin.conns_eq {s₁ s₂ : Sys} (h : Twin s₁ s₂) : s₂.srv.conns = s₁.srv.conns := by rw [h.frame]; rfl
theorem Twin.time_eq {s₁ s₂ : Sys} (h : Twin s₁ s₂) : s₂.srv.time = s₁.srv.time := by rw [h.frame]; rfl
theorem Twin.subs_eq {s₁ s₂ : Sys} (h : Twin s₁ s₂) : s₂.srv.subs = s₁.srv.subs ∧ s₂.srv.psubs = s₁.srv.psubs := by
  rw [h.frame]; exact ⟨rfl, rfl⟩
theorem Twin.scripts_eq {s₁ s₂ : Sys} (h : Twin s₁ s₂) : s₂.srv.scripts = s₁.srv.scripts := by rw [h.frame]; rfl

theorem bound_of_clock {fl : List Int} {s : Sys} (h : ClockMono (some fl) s) :
    (s.srv.time :: fl).Pairwise (· ≤ ·) := by
  unfold ClockMono at h
  exact h.sublist (List.Sublist.cons_cons _ (List.sublist_append_right _ _))

/-- the server time after an event is not later than any reading that has not been handed out yet -/
theorem stepEv_time_bound {s : Sys} (hk : KeysInv s) (e : Ev) (fl : List Int)
    (hc : (s.srv.time :: (Ev.clocks e ++ fl)).Pairwise (· ≤ ·)) :
    ((stepEv s e).srv.time :: fl).Pairwise (· ≤ ·) := by
  have h := Twin.refl hk
  have hb := h.beginEvent
  have hb0 : TwE none s.beginEvent s.beginEvent := twE_of_twin hb trivial
  have hsame : ∀ s' : Sys, s'.srv.time = s.srv.time → (s'.srv.time :: fl).Pairwise (· ≤ ·) := by
    intro s' e'
    rw [e']
    exact hc.sublist (List.Sublist.cons_cons _ (List.sublist_append_right _ _))
  unfold stepEv
  cases e with
  | version v => exact hsame _ rfl
  | «open» c => exact hsame _ (sim_openConn c _ _ hb0).2.time
  | close c => exact hsame _ (sim_closeConn c _ _ hb0).2.time
  | gc c => exact hsame _ (sim_gcConn c _ _ hb0).2.time
  | conn up => exact hsame _ rfl
  | request mode c fields clocks picks =>
    exact bound_of_clock (sim_processCommand mode c fields _ _ (twE_start h clocks picks fl hc)).2.clock
  | send mode c data clocks picks =>
    exact bound_of_clock (sim_sendallGuarded mode c data _ _ (twE_start h clocks picks fl hc)).2.clock
  | wake c clocks => exact hsame _ (sim_wakeConn c _ _ (twE_start_none h clocks [])).2.time
  | timeout c => exact hsame _ (sim_timeoutConn c _ _ hb0).2.time
  | awake mode c clocks picks =>
    exact bound_of_clock (sim_wakeConnAsync mode c _ _ (twE_start h clocks picks fl hc)).2.clock
  | atimeout mode c clocks picks =>
    exact bound_of_clock (sim_timeoutConnAsync mode c _ _ (twE_start h clocks picks fl hc)).2.clock

/-! ## Histories -/

/-- the clock hypothesis along a history: every event meets `EvClockOk` at the server time it starts from -/
def HistClockOk : Sys → List Ev → Prop
  | _, [] => True
  | s, e :: es => EvClockOk s.srv.time e ∧ HistClockOk (stepEv s e) es

/-- what a history shows to the outside: after every event the replies it emitted and the fault / crash flags -/
def observe (s : Sys) : List Ev → List (List (Nat × Reply) × Option String × Option String)
  | [] => []
  | e :: es => ((stepEv s e).out, (stepEv s e).fault, (stepEv s e).crashed) :: observe (stepEv s e) es

theorem history_twin (evs : List Ev) {s₁ s₂ : Sys} (h : Twin s₁ s₂) (hc : HistClockOk s₁ evs) :
    Twin (evs.foldl stepEv s₁) (evs.foldl stepEv s₂) ∧ observe s₁ evs = observe s₂ evs := by
  induction evs generalizing s₁ s₂ with
  | nil => exact ⟨h, rfl⟩
  | cons e es ih =>
    have h' := stepEv_twin h e hc.1
    obtain ⟨ht, ho⟩ := ih h' hc.2
    refine ⟨ht, ?_⟩
    show _ :: _ = _ :: _
    rw [ho, h'.out_eq, h'.fault_eq, h'.crashed_eq]

theorem evClockOk_of_sorted {t : Int} (e : Ev) {fl : List Int}
    (h : (t :: (Ev.clocks e ++ fl)).Pairwise (· ≤ ·)) : EvClockOk t e := by
  have h' : (t :: Ev.clocks e).Pairwise (· ≤ ·) :=
    h.sublist (List.Sublist.cons_cons _ (List.sublist_append_left _ _))
  cases e <;> first | exact h' | trivial

/-- non-decreasing clock readings over the whole history, starting not before the current server time -/
theorem histClockOk_of_sorted (evs : List Ev) {s : Sys} (hk : KeysInv s)
    (h : (s.srv.time :: evs.flatMap Ev.clocks).Pairwise (· ≤ ·)) : HistClockOk s evs := by
  induction evs generalizing s with
  | nil => trivial
  | cons e es ih =>
    rw [List.flatMap_cons] at h
    refine ⟨evClockOk_of_sorted e h, ih ?_ (stepEv_time_bound hk e _ h)⟩
    exact (stepEv_twin (Twin.refl hk) e (evClockOk_of_sorted e h)).keys₁


/-! ## An expired key and a deleted key -/

/-- the state with key `k` of database `d` deleted (raw deletion from the dictionary) -/
def delKey (s : Sys) (d : Nat) (k : Bytes) : Sys :=
  withDbs s (s.srv.dbs.set d (Db.erase (s.srv.dbs.getD d []) k))

theorem purgeAt_erase_expired {t : Int} {dict : Dict} (nd : NodupKeys dict) {k : Bytes} {it : Item}
    (hl : dict.lookup k = some it) (he : (⟨dict, t⟩ : Db).expired it = true) :
    purgeAt t (Db.erase dict k) = purgeAt t dict := by
  have hg : ((⟨dict, t⟩ : Db).get k).1 = ⟨Db.erase dict k, t⟩ := by
    unfold Db.get; simp [hl, he]
  have := Db.get_purge (db := ⟨dict, t⟩) k nd
  rw [hg] at this
  unfold purgeAt
  rw [this]

/-- a state in which key `k` of database `d` is past its deadline, and the same state with `k` deleted, are twins -/
theorem expired_twin_deleted {s : Sys} (hk : KeysInv s) (d : Nat) (k : Bytes) (it : Item)
    (hl : (s.srv.dbs.getD d []).lookup k = some it) (he : (s.dbAt d).expired it = true) :
    Twin s (delKey s d k) := by
  refine ⟨⟨rfl, ?_⟩, hk, ?_⟩
  · show _ = List.map _ (s.srv.dbs.set d _)
    rw [List.map_set, purgeAt_erase_expired (nodup_getD hk d) hl he, purgeAt_getD]
    apply List.ext_getElem
    · simp
    · intro i h1 h2
      rw [List.getElem_set]
      split
      · rename_i hdi
        subst hdi
        rw [List.getD_eq_getElem?_getD, List.getElem?_eq_getElem h1]
        rfl
      · rfl
  · intro d' hd'
    rcases List.mem_or_eq_of_mem_set hd' with hd' | rfl
    · exact hk d' hd'
    · exact Db.nodup_erase k (nodup_getD hk d)

end FR.Twin
